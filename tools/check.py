#!/usr/bin/env python3
"""Single entry point of the verification machinery.

  check.py --setup                      build the Coq development and every driver
  check.py Cnn [--tier quick|thorough]  decide one property (exit 0 / exit 1 + VIOLATION line)
  check.py Cnn --replay <file>          re-run one stored case on implementation and model

Pipeline of one check (DESIGN.md section 3): regenerate translator outputs, forbidden-token grep,
rebuild Props/Cnn.vo (capturing Print Assumptions), rebuild the Go driver from /repo's working
tree with -tags verif, run it, have Coq judge every case with vm_compute, decide, write evidence.
"""
import argparse, concurrent.futures as cf, fcntl, glob, json, os, re, shutil, subprocess, sys, time

ROOT = os.path.dirname(os.path.dirname(os.path.abspath(__file__)))
COQ = os.path.join(ROOT, "coq")
HARNESS = os.path.join(ROOT, "harness")
WORK = os.path.join(ROOT, "work")
REPO = os.environ.get("VERIF_REPO", "/repo")
GOENV = dict(os.environ, GOFLAGS="-mod=mod", GOPROXY="off", GOSUMDB="off", GOTOOLCHAIN="local",
             VERIF_REPO=REPO)
# A tree other than /repo (VERIF_REPO=/tmp/scratch-worktree ./check Cnn: used to try the checks on a
# seeded change without touching /repo) gets its own scratch area, go.mod and evidence directory, so
# that it never disturbs, and is never disturbed by, checks running against /repo at the same time.
ALT = os.path.realpath(REPO) != "/repo"
if ALT:
    import hashlib
    WORK = os.path.join(WORK, "alt-" + hashlib.sha1(os.path.realpath(REPO).encode()).hexdigest()[:10])
EVIDENCE_DIR = os.path.join(WORK, "evidence") if ALT else os.path.join(ROOT, "evidence")
MODFILE = os.path.join(WORK, "gomod", "go.mod")
FORBIDDEN = re.compile(r'\b(Admitted|admit|Axiom|Axioms|Parameter|Parameters|Conjecture|Conjectures|'
                       r'Admit Obligations|bypass_check|Hypothesis|Hypotheses|Variable|Variables)\b|'
                       r'Unset\s+(Guard|Positivity|Universe)\s+Checking|type-in-type|impredicative-set')


def log(*a):
    print(*a, file=sys.stderr, flush=True)


def sh(cmd, cwd=None, env=None, timeout=None, check=False):
    p = subprocess.run(cmd, cwd=cwd, env=env, timeout=timeout, stdout=subprocess.PIPE,
                       stderr=subprocess.STDOUT, text=True, shell=isinstance(cmd, str))
    if check and p.returncode != 0:
        raise RuntimeError("command failed: %s\n%s" % (cmd, p.stdout[-4000:]))
    return p.returncode, p.stdout


class Lock:
    def __init__(self, name):
        base = os.path.join(ROOT, "work")   # shared by /repo and scratch-tree runs: coq/ is one build directory
        os.makedirs(base, exist_ok=True)
        self.path = os.path.join(base, "." + name + ".lock")

    def __enter__(self):
        self.f = open(self.path, "w")
        fcntl.flock(self.f, fcntl.LOCK_EX)

    def __exit__(self, *a):
        fcntl.flock(self.f, fcntl.LOCK_UN)
        self.f.close()


# ------------------------------------------------------------------ Coq side

def strip_comments(src):
    out, depth, i = [], 0, 0
    while i < len(src):
        if src.startswith("(*", i):
            depth += 1; i += 2
        elif src.startswith("*)", i) and depth:
            depth -= 1; i += 2
        else:
            if not depth:
                out.append(src[i])
            i += 1
    return "".join(out)


def dep_closure(start_rel):
    """The .v files (relative to coq/) that start_rel transitively Requires inside this development."""
    seen, todo = set(), [start_rel]
    while todo:
        f = todo.pop()
        if f in seen or not os.path.exists(os.path.join(COQ, f)):
            continue
        seen.add(f)
        src = strip_comments(open(os.path.join(COQ, f)).read())
        for stmt in re.findall(r'Require\s+(?:Import|Export)?[^.]*(?:\.[A-Za-z_][^.]*)*\.\s', src + " "):
            for d, m in re.findall(r'\b(Common|Gen|Model|Proofs|Props)\.(\w+)', stmt):
                todo.append("%s/%s.v" % (d, m))
    return sorted(seen)


def forbidden_tokens(start_rel=None):
    """Admitted/admit/Axiom/... anywhere; Variable/Hypothesis only inside a Section.
    With start_rel: only the files the property's Props file depends on (every file at --setup)."""
    bad = []
    files = (sorted(glob.glob(os.path.join(COQ, "**", "*.v"), recursive=True)) if start_rel is None
             else [os.path.join(COQ, f) for f in dep_closure(start_rel)])
    for p in files:
        src = strip_comments(open(p).read())
        stack = []
        for ln, line in enumerate(src.split("\n"), 1):
            m = re.match(r'\s*(Section|Module(?:\s+Type)?)\s+(\w+)\s*(\.|:|<:)', line)
            if m and not (m.group(1).startswith("Module") and ":=" in line):
                stack.append((m.group(1).split()[0], m.group(2)))
            in_section = any(k == "Section" for k, _ in stack)
            for m in FORBIDDEN.finditer(line):
                tok = m.group(0)
                if re.match(r'(Variable|Variables|Hypothesis|Hypotheses)$', tok) and in_section:
                    continue
                bad.append("%s:%d: %s" % (os.path.relpath(p, ROOT), ln, tok))
            m = re.match(r'\s*End\s+(\w+)\s*\.', line)
            if m and stack and stack[-1][1] == m.group(1):
                stack.pop()
    return bad


def regen_coqproject():
    files = []
    for d in ("Common", "Gen", "Model", "Proofs", "Props"):
        files += sorted(glob.glob(os.path.join(COQ, d, "*.v")))
    body = "-Q . KV\n-arg -w -arg -notation-overridden,-deprecated-hint-without-locality,-deprecated-instance-without-locality,-ambiguous-paths\n"
    body += "\n".join(os.path.relpath(f, COQ) for f in files) + "\n"
    p = os.path.join(COQ, "_CoqProject")
    changed = (not os.path.exists(p)) or open(p).read() != body
    if changed:
        open(p, "w").write(body)
    if changed or not os.path.exists(os.path.join(COQ, "Makefile")):
        sh("coq_makefile -f _CoqProject -o Makefile", cwd=COQ, check=True)
    # an interrupted coqdep leaves an empty (but fresh-looking) dependency file behind, after which make
    # would rebuild nothing that Props/Cnn.vo depends on: drop it so that it is recomputed
    d = os.path.join(COQ, ".Makefile.d")
    if os.path.exists(d) and os.path.getsize(d) == 0:
        os.remove(d)


def run_constgen(cfg):
    """Translator: regenerate coq/Gen/Consts_Cnn.v from /repo's Go constants (props/Cnn.json "consts")."""
    c = cfg.get("consts")
    if not c:
        return None
    os.makedirs(os.path.join(WORK, "bin"), exist_ok=True)
    exe = os.path.join(WORK, "bin", "constgen")
    with Lock("constgen"):
        sh(["go", "build", "-o", exe, "."], cwd=os.path.join(ROOT, "tools", "constgen"), env=GOENV, check=True)
    rc, out = sh([exe, "-repo", REPO, "-out", os.path.join(COQ, c["out"])] + c["specs"])
    if rc != 0:
        return "translator constgen failed: " + out.strip()[-500:]
    return None


def run_generators(names):
    for g in names:
        if g == "rngcooked":
            sh([sys.executable, os.path.join(ROOT, "tools", "gen_rngcooked.py")], env=GOENV, check=True)
        else:
            raise RuntimeError("unknown generator " + g)


def build_props(cfg, timeout):
    """(ok, log, theorems, assumptions) -- rebuilds Props/Cnn.vo so that Print Assumptions output is fresh."""
    pf = cfg["props_file"]
    with Lock("coq"):
        regen_coqproject()
        for ext in (".vo", ".glob", ".vok", ".vos"):
            try:
                os.remove(os.path.join(COQ, pf[:-2] + ext))
            except FileNotFoundError:
                pass
        rc, out = sh("timeout %d make -j16 COQC='timeout %d coqc' %s" % (timeout, int(cfg.get("coqc_file_timeout_s", 900)), pf[:-2] + ".vo"), cwd=COQ)
    src = strip_comments(open(os.path.join(COQ, pf)).read())
    theorems = re.findall(r'^\s*(?:Theorem|Lemma|Corollary)\s+(\w+)', src, re.M)
    printed = re.findall(r'^\s*Print Assumptions\s+(\w+)\s*\.', src, re.M)
    # split the log into the answers to Print Assumptions, in order
    answers = []
    if rc == 0:
        chunks = re.split(r'(?=^Closed under the global context|^Axioms:|^Section Variables:)', out, flags=re.M)
        for c in chunks:
            if c.startswith("Closed under the global context"):
                answers.append([])
            elif c.startswith("Axioms:") or c.startswith("Section Variables:"):
                names = re.findall(r'^(\S+)\s*:', c.split("\n", 1)[1] if "\n" in c else "", re.M)
                names = [n for n in names if n not in ("COQC", "make")]
                answers.append(names)
    return rc == 0, out, theorems, printed, answers


# ------------------------------------------------------------------ Go side

def build_driver(cfg):
    name = cfg["driver"]
    os.makedirs(os.path.join(WORK, "bin"), exist_ok=True)
    with Lock("gomod"):
        sh([sys.executable, os.path.join(ROOT, "tools", "gen_gomod.py"), os.path.dirname(MODFILE)], env=GOENV, check=True)
        if not os.path.exists(os.path.join(HARNESS, "go.mod")):   # only marks the module root under -modfile
            sh([sys.executable, os.path.join(ROOT, "tools", "gen_gomod.py")], env=dict(GOENV, VERIF_REPO="/repo"), check=True)
    tags = cfg.get("build_tags", "verif")
    cmd = ["go", "build", "-modfile", MODFILE, "-tags", tags, "-o", os.path.join(WORK, "bin", name), "./cmd/" + name]
    rc, out = sh(cmd, cwd=HARNESS, env=GOENV, timeout=1200)
    return rc == 0, out


def run_driver(cfg, tier, seed, extra=(), timeout=1800):
    name = cfg["driver"]
    cmd = [os.path.join(WORK, "bin", name), "--tier", tier, "--seed", str(seed)] + list(extra)
    wd = os.path.join(WORK, cfg["id"])
    os.makedirs(wd, exist_ok=True)
    env = dict(GOENV, VERIF_WORK=wd, VERIF_ROOT=ROOT)
    try:
        p = subprocess.run(cmd, cwd=wd, env=env, timeout=timeout, stdout=subprocess.PIPE, stderr=subprocess.PIPE, text=True)
    except subprocess.TimeoutExpired as e:
        # a driver that does not finish within its (generous) limit means the implementation could not be
        # exercised: the correspondence is not checked (reported with no-failing-input-found, never as a pass)
        def _txt(b):
            return b.decode("utf-8", "replace") if isinstance(b, (bytes, bytearray)) else (b or "")
        return 124, [], {}, "driver %s did not finish within %ds (tier %s)\n%s" % (name, timeout, tier, _txt(e.stderr)[-2000:])
    cases, meta = [], {}
    for line in p.stdout.split("\n"):
        line = line.strip()
        if not line.startswith("{"):
            continue
        try:
            o = json.loads(line)
        except Exception:
            continue
        if o.get("kind") == "case":
            cases.append(o)
        elif o.get("kind") == "meta":
            meta = o
    return p.returncode, cases, meta, p.stderr[-4000:]


# ------------------------------------------------------------------ judging

def judge_shard(args):
    cfg, idx, cases, wd, timeout = args
    modname = "cases_%s_%d" % (cfg["id"], idx)
    path = os.path.join(wd, modname + ".v")
    lines = ["From Coq Require Import ZArith NArith List String Ascii Bool.",
             "From KV Require Import Common.Verdict %s." % cfg["coq_model"],
             "Import ListNotations.", "Open Scope N_scope."]
    lines += cfg.get("case_prelude", [])
    for c in cases:
        for d in c.get("defs", []) if isinstance(c.get("defs"), list) else []:
            lines.append(d)
        lines.append("Eval vm_compute in (%s %s)." % (cfg["judge"], c["coq"]))
    open(path, "w").write("\n".join(lines) + "\n")
    try:
        p = subprocess.run(["coqc", "-Q", COQ, "KV", path], cwd=wd, stdout=subprocess.PIPE,
                           stderr=subprocess.STDOUT, text=True, timeout=timeout)
    except subprocess.TimeoutExpired:
        return idx, None, "coqc timed out after %ds on %s" % (timeout, path)
    verdicts = re.findall(r'^\s*=\s*(Agree|Mismatch|SpecFail|BadCase)\s*$', p.stdout, re.M)
    if p.returncode != 0 or len(verdicts) != len(cases):
        return idx, None, "coqc failed on %s (rc=%d, %d/%d verdicts)\n%s" % (
            path, p.returncode, len(verdicts), len(cases), p.stdout[-3000:])
    for ext in (".vo", ".glob", ".vok", ".vos"):
        try:
            os.remove(os.path.join(wd, modname + ext))
        except FileNotFoundError:
            pass
    return idx, verdicts, None


def judge_cases(cfg, cases, tier):
    wd = os.path.join(WORK, cfg["id"], "shards")
    shutil.rmtree(wd, ignore_errors=True)
    os.makedirs(wd, exist_ok=True)
    ss = int(cfg.get("shard_size", 100))
    shards = [cases[i:i + ss] for i in range(0, len(cases), ss)]
    verdicts = [None] * len(shards)
    errors = []
    timeout = int(cfg.get("coqc_timeout_s", 900))
    with cf.ThreadPoolExecutor(max_workers=int(os.environ.get("VERIF_JOBS", "16"))) as ex:
        for idx, v, err in ex.map(judge_shard, [(cfg, i, s, wd, timeout) for i, s in enumerate(shards)]):
            if err:
                errors.append(err)
            verdicts[idx] = v
    flat = []
    for s, v in zip(shards, verdicts):
        flat += (v if v is not None else ["ShardError"] * len(s))
    return flat, errors


# ------------------------------------------------------------------ findings

def load_findings(pid):
    p = os.path.join(ROOT, "known-findings.json")
    if not os.path.exists(p):
        return []
    return [f for f in json.load(open(p)).get("findings", []) if f.get("property") == pid]


def sub_object(small, big):
    return all(k in big and big[k] == v for k, v in small.items())


def match_finding(findings, case):
    for f in findings:
        if sub_object(f.get("match", {}), case.get("sig", {})):
            return f
    return None


# ------------------------------------------------------------------ main per-property check

def load_cfg(pid):
    p = os.path.join(ROOT, "props", pid + ".json")
    cfg = json.load(open(p))
    cfg["id"] = pid
    return cfg


def write_replay(pid, seed, kind, payload):
    d = os.path.join(WORK, "replay")
    os.makedirs(d, exist_ok=True)
    cid = re.sub(r'[^A-Za-z0-9_.-]', '_', str(payload.get("id", kind)))[:60]
    path = os.path.join(d, "%s-%s-%s.json" % (pid, seed, cid))
    payload = dict(payload, property=pid, seed=seed, failure=kind)
    json.dump(payload, open(path, "w"), indent=1)
    return path


def trim(o, limit=1200):
    s = json.dumps(o)
    if len(s) <= limit:
        return o
    return {"truncated": s[:limit]}


def check(pid, tier, seed):
    t0 = time.time()
    cfg = load_cfg(pid)
    evidence_path = os.path.join(EVIDENCE_DIR, pid + ".json")
    os.makedirs(os.path.dirname(evidence_path), exist_ok=True)
    violations, known_lines, notes = [], [], []

    run_generators(cfg.get("gen", []))
    gen_err = run_constgen(cfg)
    bad = forbidden_tokens(cfg["props_file"])
    ok, blog, theorems, printed, answers = build_props(cfg, int(cfg.get("make_timeout_s", 1500)))
    obligations = len(theorems)
    discharged = obligations if (ok and not bad) else 0
    global THEOREM_REPORT
    THEOREM_REPORT = [{"theorem": t, "print_assumptions": (("Closed under the global context" if not answers[i] else ", ".join(answers[i]))
                                                           if ok and i < len(answers) and i < len(printed) and printed[i] == t else "not checked in this run")}
                      for i, t in enumerate(theorems)]
    axioms = sorted({a for ans in answers for a in ans})
    proof_broken = None
    if gen_err:
        proof_broken = gen_err
        discharged = 0
    elif bad:
        proof_broken = "forbidden tokens in the development: " + "; ".join(bad[:5])
    elif not ok:
        m = re.search(r'File "([^"]+)", line (\d+)', blog)
        proof_broken = "Coq build of %s failed%s" % (cfg["props_file"], (" at %s:%s" % m.groups()) if m else "")
        log(blog[-3000:])
    elif len(printed) < obligations or len(answers) < len(printed):
        proof_broken = "Print Assumptions missing for some theorem of %s (%d theorems, %d printed, %d answers)" % (
            cfg["props_file"], obligations, len(printed), len(answers))
        discharged = min(len(answers), obligations)
    allowed_axioms = set(cfg.get("allowed_axioms", []))
    # native 63-bit integer primitives (PrimInt63.*) are kernel primitives, not declared axioms; they
    # are reported in the evidence's trusted base but need not be allow-listed per property
    extra_ax = [a for a in axioms if a not in allowed_axioms and not a.startswith("PrimInt63.")]
    if extra_ax and not proof_broken:
        proof_broken = "theorem depends on axioms not named in the trusted base: " + ", ".join(extra_ax)

    coqchk_note = None
    if tier == "thorough" and ok and os.environ.get("VERIF_COQCHK", "1") != "0":
        mod = "KV." + cfg["props_file"][:-2].replace("/", ".")
        try:
            with Lock("coq"):
                rcc, outc = sh("timeout %d coqchk -silent -o -Q . KV %s" % (int(cfg.get("coqchk_timeout_s", 2400)), mod), cwd=COQ)
            m = re.search(r'\* Axioms:(.*?)\n\s*\n\* Constants', outc, re.S)
            coqchk_note = "coqchk -o %s: rc=%d; axioms: %s" % (mod, rcc, " ".join(m.group(1).split()) if m else "?")
            if rcc not in (0, 124) and not proof_broken:
                proof_broken = "coqchk rejected %s" % mod
        except Exception as e:  # noqa
            coqchk_note = "coqchk not run: %s" % e
        notes.append(coqchk_note)

    okb, bout = build_driver(cfg)
    if not okb:
        log(bout[-4000:])
        print("ERROR property=%s harness does not build against the current tree" % pid)
        path = write_replay(pid, seed, "harness-build", {"id": "harness-build", "correspondence": "corr_" + pid,
                                                         "log": bout[-4000:]})
        print("VIOLATION property=%s replay=%s no-failing-input-found" % (pid, path))
        write_evidence(cfg, evidence_path, tier, seed, t0, obligations, 0, axioms, [], [], {}, 1,
                       ["driver build failed: correspondence corr_%s cannot be checked" % pid])
        return 1

    def run_and_judge(t, s):
        rc, cases, meta, err = run_driver(cfg, t, s, timeout=int(cfg.get("driver_timeout_s", 1800)))
        if rc != 0:
            log(err)
            return rc, cases, meta, [], ["driver exited with status %d: %s" % (rc, err[-500:])]
        vs, errs = judge_cases(cfg, cases, t)
        return rc, cases, meta, vs, errs

    rc, cases, meta, verdicts, errors = run_and_judge(tier, seed)
    findings = load_findings(pid)

    def classify(cases, verdicts):
        spec, mism, badc = [], [], []
        for c, v in zip(cases, verdicts):
            if v == "SpecFail":
                spec.append(c)
            elif v == "Mismatch":
                mism.append(c)
            elif v in ("BadCase", "ShardError"):
                badc.append(c)
        return spec, mism, badc

    spec, mism, badc = classify(cases, verdicts)
    searched = False
    if (mism or proof_broken or errors or badc or rc != 0) and not spec:
        # search phase: look for a concrete failing input with the deeper generators
        searched = True
        for k in range(1, int(cfg.get("search_rounds", 1)) + 1):
            rc2, cases2, meta2, verdicts2, errors2 = run_and_judge("search", seed + 1000 * k)
            spec2, _, _ = classify(cases2, verdicts2)
            if spec2:
                spec = spec2
                break

    exit_code = 0
    unlisted = []
    seen_f = {}
    for c in spec:
        f = match_finding(findings, c)
        if f:
            seen_f.setdefault(f["id"], (f, c))
        else:
            unlisted.append(c)
    for fid, (f, c) in seen_f.items():
        line = "KNOWN-FINDING: property=%s %s [%s] (e.g. case %s)" % (pid, f["what"], fid, c["id"])
        print(line)
        known_lines.append(line)
    if unlisted:
        c = min(unlisted, key=lambda c: len(c["coq"]))
        path = write_replay(pid, seed, "spec_ok=false on the implementation's output", c)
        print("VIOLATION property=%s replay=%s" % (pid, path))
        violations.append(path)
        exit_code = 1
    elif mism or proof_broken or errors or badc or rc != 0:
        what = {}
        if proof_broken:
            what = {"id": "obligation", "theorem": cfg["props_file"], "detail": proof_broken}
        elif mism:
            c = min(mism, key=lambda c: len(c["coq"]))
            what = dict(c, correspondence="corr_" + pid,
                        detail="model and implementation disagree on this case; spec_ok holds of the implementation output")
        elif badc:
            what = dict(badc[0], correspondence="corr_" + pid, detail="case outside the model's domain or Coq evaluation failed")
        else:
            what = {"id": "driver", "correspondence": "corr_" + pid, "detail": "; ".join(errors)[:3000]}
        path = write_replay(pid, seed, "no-failing-input-found", what)
        print("VIOLATION property=%s replay=%s no-failing-input-found" % (pid, path))
        violations.append(path)
        exit_code = 1
        for e in errors:
            log(e)

    write_evidence(cfg, evidence_path, tier, seed, t0, obligations, discharged, axioms, cases, verdicts, meta,
                   len(violations), notes + known_lines + ([proof_broken] if proof_broken else []) +
                   (["search phase ran"] if searched else []))
    log("%s %s: %d cases, %d SpecFail, %d Mismatch, %d bad, obligations %d/%d, %.1fs" % (
        pid, tier, len(cases), len(spec), len(mism), len(badc), discharged, obligations, time.time() - t0))
    return exit_code


THEOREM_REPORT = []


def write_evidence(cfg, path, tier, seed, t0, obligations, discharged, axioms, cases, verdicts, meta,
                   nviol, notes):
    keys = {}
    for c in cases:
        k = c.get("key") or c["coq"]
        keys[k] = keys.get(k, False) or bool(c.get("nontrivial"))
    samples = []
    picked = [c for c in cases if c.get("nontrivial")][:2] + cases[:1]
    for c in picked[:3]:
        samples.append({"id": c["id"], "in": trim(c.get("in")), "out": trim(c.get("out"))})
    if not samples:
        samples = [{"note": "no case was produced in this run"}]
    vcount = {}
    for v in verdicts:
        vcount[v] = vcount.get(v, 0) + 1
    ev = {
        "property_id": cfg["id"], "tier": tier if tier in ("quick", "thorough") else "thorough",
        "seed": seed, "level": "proof",
        "coverage": {
            "obligations": max(obligations, 1), "discharged": discharged,
            "checker_cmd": "make -C coq %s (coqc 8.16.1, full .vo build; Print Assumptions under every theorem)" % (
                cfg["props_file"][:-2] + ".vo"),
            "trusted_base": cfg.get("trusted_base", []) + ["axioms reported by Print Assumptions: " + (", ".join(axioms) if axioms else "none (Closed under the global context)")],
            "evaluations": len(cases), "distinct_nontrivial": sum(1 for v in keys.values() if v),
            "distinct_cases": len(keys),
            "rule": meta.get("rule", ""), "samples": samples,
            "traces_validated_against_impl": vcount.get("Agree", 0),
            "verdicts": vcount, "input_distribution": meta.get("dist", {}),
            "explanation": cfg.get("level_text", ""),
            "theorems": THEOREM_REPORT,
            "notes": notes,
        },
        "assumptions": cfg.get("assumptions", []),
        "wall_s": round(time.time() - t0, 2), "violations": nviol,
    }
    for k, v in meta.items():
        if k not in ("kind", "rule", "dist"):
            ev["coverage"][k] = v
    json.dump(ev, open(path, "w"), indent=1)


def replay(pid, path):
    cfg = load_cfg(pid)
    okb, bout = build_driver(cfg)
    if not okb:
        print(bout)
        return 2
    rc, cases, meta, err = run_driver(cfg, "quick", 0, extra=["--replay", os.path.abspath(path)])
    if rc != 0 or not cases:
        print("driver failed:", err)
        return 2
    wd = os.path.join(WORK, pid, "replay")
    os.makedirs(wd, exist_ok=True)
    src = ["From Coq Require Import ZArith NArith List String Ascii Bool.",
           "From KV Require Import Common.Verdict %s." % cfg["coq_model"], "Import ListNotations.", "Open Scope N_scope."]
    src += cfg.get("case_prelude", [])
    for c in cases:
        src.append("Eval vm_compute in (%s %s)." % (cfg["judge"], c["coq"]))
        if cfg.get("explain"):
            src.append("Eval vm_compute in (%s %s)." % (cfg["explain"], c["coq"]))
    f = os.path.join(wd, "replay_%s.v" % pid)
    open(f, "w").write("\n".join(src) + "\n")
    rc, out = sh(["coqc", "-Q", COQ, "KV", f], cwd=wd)
    for c in cases:
        print("implementation input :", json.dumps(c.get("in")))
        print("implementation output:", json.dumps(c.get("out")))
        print("case term            :", c["coq"])
    print("model (verdict, then the model's own output):")
    print(out)
    return 1 if re.search(r'=\s*(SpecFail|Mismatch)', out) else 0


def setup():
    """Cache warmer: builds the Coq targets and drivers of every claimed property.  Each check
    rebuilds what it needs anyway, so a failure here is reported but is fatal only if nothing builds."""
    t0 = time.time()
    run_generators(["rngcooked"])
    cfgs = []
    for f in sorted(glob.glob(os.path.join(ROOT, "props", "C*.json"))):
        cfg = json.load(open(f))
        if cfg.get("disabled"):
            continue
        cfg["id"] = os.path.basename(f)[:-5]
        cfgs.append(cfg)
        for g in cfg.get("gen", []):
            run_generators([g])
        err = run_constgen(cfg)
        if err:
            print("WARNING %s: %s" % (cfg["id"], err))
    bad = forbidden_tokens()
    if bad:
        print("WARNING forbidden tokens:", bad)
    failures = 0
    with Lock("coq"):
        regen_coqproject()
        targets = " ".join(c["props_file"][:-2] + ".vo" for c in cfgs)
        rc, out = sh("timeout 3400 make -k -j16 COQC='timeout 900 coqc' " + targets, cwd=COQ)
    if rc != 0:
        failures += 1
        print("WARNING coq build incomplete:\n" + out[-3000:])
    with Lock("gomod"):
        sh([sys.executable, os.path.join(ROOT, "tools", "gen_gomod.py"), os.path.dirname(MODFILE)], env=GOENV, check=True)
        sh([sys.executable, os.path.join(ROOT, "tools", "gen_gomod.py")], env=GOENV, check=True)
    os.makedirs(os.path.join(WORK, "bin"), exist_ok=True)
    drivers = sorted({c["driver"] for c in cfgs if c.get("driver")})

    def b(name):
        return name, sh(["go", "build", "-modfile", MODFILE, "-tags", "verif", "-o", os.path.join(WORK, "bin", name), "./cmd/" + name],
                        cwd=HARNESS, env=GOENV, timeout=3000)
    with cf.ThreadPoolExecutor(max_workers=4) as ex:
        for name, (rc, out) in ex.map(b, drivers):
            if rc != 0:
                failures += 1
                print("WARNING driver %s does not build:\n%s" % (name, out[-2000:]))
    print("setup done in %.0fs (%d properties, %d warnings)" % (time.time() - t0, len(cfgs), failures))
    return 0 if (failures < max(1, len(cfgs))) else 1


def main():
    ap = argparse.ArgumentParser()
    ap.add_argument("prop", nargs="?")
    ap.add_argument("--setup", action="store_true")
    ap.add_argument("--tier", default=os.environ.get("VERIF_TIER", "quick"))
    ap.add_argument("--replay")
    a = ap.parse_args()
    if a.setup:
        sys.exit(setup())
    if not a.prop:
        ap.error("property id required")
    if a.replay:
        sys.exit(replay(a.prop, a.replay))
    seed = int(os.environ.get("VERIF_SEED", "1") or "1")
    sys.exit(check(a.prop, a.tier, seed))


if __name__ == "__main__":
    main()
