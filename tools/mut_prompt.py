#!/usr/bin/env python3
"""Print the prompt for an independent 'seeded change' agent for property Cnn (property text only)."""
import json, sys
pid = sys.argv[1]; variant = sys.argv[2] if len(sys.argv) > 2 else "a"
p = [json.loads(l) for l in open('/verif/properties.jsonl') if json.loads(l)['id'] == pid][0]
wt = "/tmp/mut-%s%s" % (pid, variant); out = "/tmp/mut-out/%s%s" % (pid, variant)
import glob, os
prior = []
for d in sorted(glob.glob('/verif/seeded/%s*' % pid)) + sorted(glob.glob('/tmp/mut-out/%s?' % pid)):
    mp = os.path.join(d, 'meta.json')
    if os.path.exists(mp) and os.path.basename(d) != pid + variant:
        try:
            m = json.load(open(mp)); t = " ".join(str(m.get('summary', '')).split())[:700]
            if t and t not in prior: prior.append(t)
        except Exception: pass
PRIOR = ""
if prior:
    PRIOR = "\n\nOther researchers already wrote the following change(s) against this property; yours must be DIFFERENT IN KIND — another function or mechanism of the anchored code, another way to manifest (prefer: hidden state or memoisation that only shows on a long-lived object, a fault injected at one particular call, a boundary value, an ordering/interleaving, two cooperating sites):\n" + "\n".join("  - " + t for t in prior)
print(f"""You are a Go engineer doing mutation-style robustness research on a verification effort. You have your own scratch git worktree of the keep-network/keep-core repository at {wt} (create it first: `git -C /repo worktree add --detach {wt} HEAD`). Work ONLY inside {wt} and {out}; never edit /repo itself, and do not read anything under /verif (what you write must be independent of the existing checks). No network: always `export GOFLAGS=-mod=mod GOPROXY=off GOSUMDB=off GOTOOLCHAIN=local`.

The semantic property of the code base you are attacking:

  Title: {p['title']}
  Statement: {p['statement']}
  Quantified over: {p['quantifier']['text']}
  Why the existing tests cannot settle it: {p['why_tests_cant']}
  Code it is anchored in: {', '.join(p['anchors']['files'])}

{PRIOR}

Task: write ONE realistic change to the non-test Go source (the kind of slip a developer could plausibly make during a refactor or an optimisation: an off-by-one, a dropped or weakened check, a swapped index, a missing dedup/lock, a wrong comparison, a stale snapshot, an unhandled edge case) that BREAKS this property while the repository still compiles (`go build ./...`) and the EXISTING test suite of the touched packages still passes unedited (`go test -count=1 <touched packages>`; also run packages that depend heavily on the touched code if they are quick). The change must need something specific to manifest — a particular input shape, an unusual value, a multi-step sequence of operations, a particular interleaving, a fault at a particular point, or two cooperating sites that each look fine alone — not something ordinary use would expose at once. Do not touch test files, build tags, or files named verif_export_*.go (ignore those files entirely), and do not just revert a recent commit.

Deliver in {out}/ :
  * patch.diff — `git -C {wt} diff` of your source change only (no test files);
  * a demonstration: one new Go test file (e.g. demo_test.go, to be placed in the package directory, same package name as the package's internal tests so it can reach unexported code) that FAILS with your change and PASSES without it, deterministic, a few seconds at most;
  * meta.json — {{"property": "{pid}", "demo": [{{"src": "demo_test.go", "dst": "<path in repo where the demo file goes, e.g. pkg/x/zz_demo_{pid.lower()}_test.go>"}}], "demo_cmd": "go test -count=1 -run <TestName> ./pkg/x/", "packages": ["./pkg/x/..."], "needs": "<what is needed for the breakage to manifest>", "summary": "<what you changed and why it breaks the property>"}}.
Verify yourself: demo passes on the clean worktree, fails with the patch; `go build ./...` works; existing tests of the touched packages pass with the patch (demo file removed while running them). Never use `git stash` (the stash is shared by all worktrees of /repo and other agents work in theirs at the same time): to switch between the clean and the patched tree use `git apply -R patch.diff` / `git apply patch.diff`. The machine is loaded: a few wall-clock tests of the repository (TestWatchCoordinationWindows and TestNode_RunCoordinationLayer in pkg/tbtc, ticker / retransmission tests in pkg/net) can fail on the UNCHANGED tree too — if an existing test fails with your patch, re-run exactly that test on the clean tree before blaming your patch, and say so in meta.json. When done, remove your worktree: `git -C /repo worktree remove --force {wt}`. Final answer: the summary, the needs, and the three verification results.""")
