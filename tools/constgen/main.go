// constgen — translator from Go constant declarations to Coq definitions.
//
//	constgen -repo /repo -out coq/Gen/Consts_Cnn.v -module Consts_Cnn pkg/tbtc:nameA,nameB pkg/beacon/gjkr:*Blocks
//
// It parses the non-test Go files of each package directory (go/parser), collects the
// package-level constant declarations (with iota and implicit repetition), evaluates the
// requested ones with go/constant (identifiers resolved inside the package, plus the
// time.Duration units, expressed in nanoseconds) and writes one `Definition <name> : Z := v.`
// per constant.  A requested name that is missing or not an integer constant is an error
// (exit 1), so a renamed or retyped constant breaks the check instead of being skipped.
package main

import (
	"flag"
	"fmt"
	"go/ast"
	"go/constant"
	"go/parser"
	"go/token"
	"os"
	"path/filepath"
	"sort"
	"strings"
)

type decl struct {
	expr ast.Expr
	iota int
}

var timeUnits = map[string]int64{
	"Nanosecond": 1, "Microsecond": 1e3, "Millisecond": 1e6, "Second": 1e9, "Minute": 60e9, "Hour": 3600e9,
}

type pkgConsts struct {
	decls map[string]decl
	memo  map[string]constant.Value
	busy  map[string]bool
}

func (p *pkgConsts) eval(e ast.Expr, iota int) (constant.Value, error) {
	switch x := e.(type) {
	case *ast.BasicLit:
		v := constant.MakeFromLiteral(x.Value, x.Kind, 0)
		if v.Kind() == constant.Unknown {
			return nil, fmt.Errorf("bad literal %s", x.Value)
		}
		return v, nil
	case *ast.ParenExpr:
		return p.eval(x.X, iota)
	case *ast.Ident:
		if x.Name == "iota" {
			return constant.MakeInt64(int64(iota)), nil
		}
		if x.Name == "true" || x.Name == "false" {
			return constant.MakeBool(x.Name == "true"), nil
		}
		return p.lookup(x.Name)
	case *ast.SelectorExpr:
		if id, ok := x.X.(*ast.Ident); ok && id.Name == "time" {
			if u, ok := timeUnits[x.Sel.Name]; ok {
				return constant.MakeInt64(u), nil
			}
		}
		return nil, fmt.Errorf("unsupported selector %v", x.Sel.Name)
	case *ast.UnaryExpr:
		v, err := p.eval(x.X, iota)
		if err != nil {
			return nil, err
		}
		return constant.UnaryOp(x.Op, v, 0), nil
	case *ast.BinaryExpr:
		a, err := p.eval(x.X, iota)
		if err != nil {
			return nil, err
		}
		b, err := p.eval(x.Y, iota)
		if err != nil {
			return nil, err
		}
		switch x.Op {
		case token.SHL, token.SHR:
			s, ok := constant.Uint64Val(b)
			if !ok {
				return nil, fmt.Errorf("bad shift")
			}
			return constant.Shift(a, x.Op, uint(s)), nil
		case token.QUO:
			if a.Kind() == constant.Int && b.Kind() == constant.Int {
				return constant.BinaryOp(a, token.QUO_ASSIGN, b), nil // integer division
			}
		}
		return constant.BinaryOp(a, x.Op, b), nil
	case *ast.CallExpr: // conversions such as uint64(216000), time.Duration(5)
		if len(x.Args) == 1 {
			return p.eval(x.Args[0], iota)
		}
	}
	return nil, fmt.Errorf("unsupported constant expression %T", e)
}

func (p *pkgConsts) lookup(name string) (constant.Value, error) {
	if v, ok := p.memo[name]; ok {
		return v, nil
	}
	d, ok := p.decls[name]
	if !ok {
		return nil, fmt.Errorf("constant %s not found", name)
	}
	if p.busy[name] {
		return nil, fmt.Errorf("cycle at %s", name)
	}
	p.busy[name] = true
	v, err := p.eval(d.expr, d.iota)
	p.busy[name] = false
	if err != nil {
		return nil, fmt.Errorf("%s: %v", name, err)
	}
	p.memo[name] = v
	return v, nil
}

func load(dir string) (*pkgConsts, error) {
	fset := token.NewFileSet()
	files, _ := filepath.Glob(filepath.Join(dir, "*.go"))
	p := &pkgConsts{decls: map[string]decl{}, memo: map[string]constant.Value{}, busy: map[string]bool{}}
	for _, f := range files {
		if strings.HasSuffix(f, "_test.go") {
			continue
		}
		af, err := parser.ParseFile(fset, f, nil, 0)
		if err != nil {
			return nil, err
		}
		for _, d := range af.Decls {
			gd, ok := d.(*ast.GenDecl)
			if !ok || gd.Tok != token.CONST {
				continue
			}
			var last []ast.Expr
			for i, s := range gd.Specs {
				vs := s.(*ast.ValueSpec)
				if len(vs.Values) > 0 {
					last = vs.Values
				}
				for j, n := range vs.Names {
					if j < len(last) {
						p.decls[n.Name] = decl{last[j], i}
					}
				}
			}
		}
	}
	return p, nil
}

func main() {
	repo := flag.String("repo", "/repo", "repository root")
	out := flag.String("out", "", "output .v file")
	flag.Parse()
	var lines []string
	for _, spec := range flag.Args() {
		parts := strings.SplitN(spec, ":", 2)
		if len(parts) != 2 {
			fmt.Fprintln(os.Stderr, "bad spec", spec)
			os.Exit(2)
		}
		p, err := load(filepath.Join(*repo, parts[0]))
		if err != nil {
			fmt.Fprintln(os.Stderr, err)
			os.Exit(1)
		}
		var names []string
		for _, n := range strings.Split(parts[1], ",") {
			if strings.Contains(n, "*") {
				var m []string
				for k := range p.decls {
					if ok, _ := filepath.Match(n, k); ok {
						m = append(m, k)
					}
				}
				sort.Strings(m)
				names = append(names, m...)
			} else {
				names = append(names, n)
			}
		}
		lines = append(lines, fmt.Sprintf("(* %s *)", parts[0]))
		for _, n := range names {
			alias := n
			if i := strings.Index(n, "="); i >= 0 { // name=alias
				alias, n = n[i+1:], n[:i]
			}
			v, err := p.lookup(n)
			if err != nil {
				fmt.Fprintln(os.Stderr, "constgen:", parts[0], err)
				os.Exit(1)
			}
			v = constant.ToInt(v)
			if v.Kind() != constant.Int {
				fmt.Fprintf(os.Stderr, "constgen: %s.%s is not an integer constant\n", parts[0], n)
				os.Exit(1)
			}
			lines = append(lines, fmt.Sprintf("Definition %s : Z := (%s)%%Z.", alias, v.ExactString()))
		}
	}
	body := "(* GENERATED by tools/constgen from /repo's Go constant declarations -- do not edit *)\n" +
		"From Coq Require Import ZArith.\n" + strings.Join(lines, "\n") + "\n"
	old, _ := os.ReadFile(*out)
	if string(old) != body {
		if err := os.WriteFile(*out, []byte(body), 0o644); err != nil {
			fmt.Fprintln(os.Stderr, err)
			os.Exit(1)
		}
		fmt.Println("regenerated", *out)
	}
}
