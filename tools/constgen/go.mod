module constgen

go 1.20
