#!/usr/bin/env python3
"""Build MANIFEST.json from props/*.json and known-findings.json from findings/*.json."""
import glob, json, os, subprocess
ROOT = os.path.dirname(os.path.dirname(os.path.abspath(__file__)))
props = {}
for l in open(os.path.join(ROOT, "properties.jsonl")):
    p = json.loads(l); props[p["id"]] = p
checks, claimed = [], set()
na_reasons = {}
nap = os.path.join(ROOT, "props", "not_applicable.json")
if os.path.exists(nap):
    na_reasons = json.load(open(nap))
for f in sorted(glob.glob(os.path.join(ROOT, "props", "C*.json"))):
    pid = os.path.basename(f)[:-5]
    c = json.load(open(f))
    if c.get("disabled"):
        na_reasons.setdefault(pid, c["disabled"])
        continue
    claimed.add(pid)
    e = {
        "property_id": pid,
        "quick_cmd": "./check %s --tier quick" % pid,
        "thorough_cmd": "./check %s --tier thorough" % pid,
        "evidence_file": "/verif/evidence/%s.json" % pid,
        "replay_cmd_template": "./check %s --replay {path}" % pid,
        "engine": "coq-proof+correspondence",
        "level_claimed": {"category": "proof", "text": c.get("level_text", ""), "design_ref": c.get("design_ref", "DESIGN.md section 6")},
        "level_note": c.get("level_note", ""),
        "technique": c.get("technique", "Coq proof over a Gallina model + per-run correspondence with the Go implementation"),
    }
    checks.append(e)
try:
    hooks = subprocess.check_output(["git", "-C", "/repo", "log", "--grep=^verif hook", "--format=%H"], text=True).split()
except Exception:
    hooks = []
man = {
    "version": 1,
    "setup_cmd": "./check --setup",
    "hooks": {
        "guard": "verif",
        "enable": "go build -tags verif (Go build tag). Hook files are add-only **/verif_export_*.go with //go:build verif (thin exported wrappers), plus package pkg/internal/verifhook (on.go //go:build verif, off.go //go:build !verif: Point(name) is a no-op without the tag) whose four Point(...) yield-point calls were ADDED (no line rewritten or deleted) to the deduplicators of pkg/tbtc and pkg/beacon/event",
        "baseline_off_cmd": "cd /repo && GOFLAGS=-mod=mod GOPROXY=off GOSUMDB=off GOTOOLCHAIN=local go test -vet=off -count=1 -timeout 25m ./...",
        "source_commits": hooks,
        "add_only": True,
    },
    "engines": [{"name": "coq-proof+correspondence", "path": "/verif/tools/check.py",
                 "serves_properties": sorted(claimed),
                 "kind_free_text": "Coq 8.16 theorems over hand-written executable Gallina models (coq/Model, coq/Proofs, coq/Props) + translators for constants (coq/Gen) + per-run differential correspondence: Go drivers (harness/cmd) run the implementation, Coq vm_compute judges each case against the model and the executable property"}],
    "checks": checks,
    "notes": "See DESIGN.md. Known findings: known-findings.json (merged from findings/*.json by tools/gen_manifest.py).",
    "not_applicable": [{"property_id": pid, "reason": na_reasons.get(pid, "check not built yet in this session (work in progress; see DESIGN.md section 9 work order)")}
                       for pid in sorted(props) if pid not in claimed],
}
json.dump(man, open(os.path.join(ROOT, "MANIFEST.json"), "w"), indent=1)
findings, fixed = [], []
for f in sorted(glob.glob(os.path.join(ROOT, "findings", "C*.json"))):
    d = json.load(open(f))
    findings += d.get("findings", []); fixed += d.get("fixed", [])
json.dump({"findings": findings, "fixed": fixed}, open(os.path.join(ROOT, "known-findings.json"), "w"), indent=1)
print("MANIFEST: %d checks, %d not_applicable; findings %d, fixed %d" % (len(checks), len(man["not_applicable"]), len(findings), len(fixed)))
