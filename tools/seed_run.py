#!/usr/bin/env python3
"""Run the registered check(s) against an independently written breaking change.

  seed_run.py <seed-dir> [--tier quick|thorough] [--props C09,C10]

<seed-dir> holds patch.diff and meta.json (see seed_verify.py). The patch is applied to a scratch
git worktree of /repo under /tmp (never to /repo itself), the check of the property named in
meta.json (or --props) is run with VERIF_REPO pointing at that worktree, and the outcome is
appended to <seed-dir>/runs.json: caught (exit 1 + VIOLATION line), the VIOLATION line, whether a
concrete failing input was found, wall time. The worktree is removed afterwards."""
import argparse, json, os, shutil, subprocess, sys, time

ROOT = os.path.dirname(os.path.dirname(os.path.abspath(__file__)))


def main():
    ap = argparse.ArgumentParser()
    ap.add_argument("dir")
    ap.add_argument("--tier", default="quick")
    ap.add_argument("--props", default="")
    a = ap.parse_args()
    d = os.path.abspath(a.dir)
    meta = json.load(open(os.path.join(d, "meta.json")))
    props = [p for p in a.props.split(",") if p] or [meta["property"]]
    wt = "/tmp/sr-%s-%d" % (os.path.basename(d), os.getpid())
    subprocess.run(["git", "-C", "/repo", "worktree", "add", "--detach", wt, "HEAD"], check=True,
                   stdout=subprocess.DEVNULL, stderr=subprocess.DEVNULL)
    results = []
    try:
        subprocess.run(["git", "apply", "--whitespace=nowarn", os.path.join(d, "patch.diff")], cwd=wt, check=True)
        for p in props:
            t0 = time.time()
            r = subprocess.run([os.path.join(ROOT, "check"), p, "--tier", a.tier], cwd=ROOT,
                               env=dict(os.environ, VERIF_REPO=wt), stdout=subprocess.PIPE,
                               stderr=subprocess.PIPE, text=True)
            vio = [l for l in r.stdout.split("\n") if l.startswith("VIOLATION")]
            res = {"property": p, "tier": a.tier, "exit": r.returncode, "caught": r.returncode == 1 and bool(vio),
                   "violation_lines": vio, "concrete_input": any("no-failing-input-found" not in l for l in vio),
                   "wall_s": round(time.time() - t0, 1), "summary": r.stderr.strip().split("\n")[-1][-300:],
                   "repo_head": subprocess.check_output(["git", "-C", "/repo", "rev-parse", "--short", "HEAD"], text=True).strip(),
                   "verif_head": subprocess.check_output(["git", "-C", ROOT, "rev-parse", "--short", "HEAD"], text=True).strip()}
            results.append(res)
            print(json.dumps(res))
    finally:
        subprocess.run(["git", "-C", "/repo", "worktree", "remove", "--force", wt], stdout=subprocess.DEVNULL,
                       stderr=subprocess.DEVNULL)
        shutil.rmtree(wt, ignore_errors=True)
    rp = os.path.join(d, "runs.json")
    old = json.load(open(rp)) if os.path.exists(rp) else []
    json.dump(old + results, open(rp, "w"), indent=1)
    sys.exit(0 if all(r["caught"] for r in results) else 3)


if __name__ == "__main__":
    main()
