#!/bin/sh
# re-run the registered check of every kept seeded change (tools/seed_run.py) in N parallel lanes
# usage: tools/seed_rerun_all.sh [lanes]
cd "$(dirname "$0")/.."
lanes=${1:-3}
mkdir -p work/logs
ls seeded | awk -v n=$lanes '{print > ("work/logs/lane" (NR % n) ".txt")}'
for i in $(seq 0 $((lanes-1))); do
  ( for s in $(cat work/logs/lane$i.txt); do python3 tools/seed_run.py seeded/$s 2>/dev/null | tail -1 | cut -c1-200; done > work/logs/rerun-lane$i.log 2>&1 ) &
done
wait
