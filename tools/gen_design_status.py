#!/usr/bin/env python3
"""Refresh the generated parts of DESIGN.md (between <!-- X:BEGIN --> / <!-- X:END --> markers):
STATUS  = one row per property from props/Cnn.json, coq/Props/Cnn.v, evidence/Cnn.json, findings/Cnn.json
SEEDED  = tools/seed_table.py output."""
import glob, json, os, re, subprocess, sys
ROOT = os.path.dirname(os.path.dirname(os.path.abspath(__file__)))


def strip_comments(src):
    out, depth, i = [], 0, 0
    while i < len(src):
        if src.startswith("(*", i):
            depth += 1; i += 2
        elif src.startswith("*)", i) and depth:
            depth -= 1; i += 2
        else:
            if not depth:
                out.append(src[i])
            i += 1
    return "".join(out)


def status():
    props = {}
    for l in open(os.path.join(ROOT, "properties.jsonl")):
        p = json.loads(l); props[p["id"]] = p
    rows = ["| id | theorems in Props/Cnn.v (all re-checked on every run) | refuted / partial statements | last quick run: cases (distinct non-trivial) | known findings / fixes | hooks |",
            "|----|--------------------------------------------------------|------------------------------|-----------------------------------------------|------------------------|-------|"]
    for pid in sorted(props):
        cfgp = os.path.join(ROOT, "props", pid + ".json")
        if not os.path.exists(cfgp):
            rows.append("| %s | — (not claimed) | | | | |" % pid); continue
        cfg = json.load(open(cfgp))
        if cfg.get("disabled"):
            rows.append("| %s | — (not claimed: %s) | | | | |" % (pid, cfg["disabled"])); continue
        pf = os.path.join(ROOT, "coq", cfg["props_file"])
        names = re.findall(r'^\s*(?:Theorem|Lemma|Corollary)\s+(\w+)', strip_comments(open(pf).read()), re.M) if os.path.exists(pf) else []
        special = [n for n in names if re.search(r'refuted|partial|undershoot|possible|exceed', n)]
        ev = {}
        ep = os.path.join(ROOT, "evidence", pid + ".json")
        if os.path.exists(ep):
            try:
                ev = json.load(open(ep))
            except Exception:
                ev = {}
        cov = ev.get("coverage", {})
        fd = {}
        fp = os.path.join(ROOT, "findings", pid + ".json")
        if os.path.exists(fp):
            fd = json.load(open(fp))
        ftxt = "; ".join(["finding " + f["id"] for f in fd.get("findings", [])] +
                         ["fixed " + " ".join(re.findall(r'\b[0-9a-f]{7}\b', s)[:2]) for s in fd.get("fixed", [])])
        hooks = sorted(os.path.relpath(h, "/repo") for h in glob.glob("/repo/**/verif_export_%s.go" % pid.lower(), recursive=True))
        rows.append("| %s | %d: %s | %s | %s (%s), %s/%s obligations, %ss | %s | %s |" % (
            pid, len(names), ", ".join("`%s`" % n for n in names), ", ".join("`%s`" % n for n in special) or "—",
            cov.get("evaluations", "?"), cov.get("distinct_nontrivial", "?"), cov.get("discharged", "?"), cov.get("obligations", "?"),
            ev.get("wall_s", "?"), ftxt or "—", "<br>".join(hooks) or "—"))
    return "\n".join(rows)


def seeded():
    return subprocess.check_output([sys.executable, os.path.join(ROOT, "tools", "seed_table.py")], text=True).strip()


def main():
    p = os.path.join(ROOT, "DESIGN.md")
    s = open(p).read()
    for tag, fn in (("STATUS", status), ("SEEDED", seeded)):
        b, e = "<!-- %s:BEGIN -->" % tag, "<!-- %s:END -->" % tag
        if b in s and e in s:
            s = s[:s.index(b) + len(b)] + "\n" + fn() + "\n" + s[s.index(e):]
    open(p, "w").write(s)


if __name__ == "__main__":
    main()
