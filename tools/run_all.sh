#!/bin/sh
# run every claimed property's check in sequence; usage: tools/run_all.sh [tier] [ids...]
cd "$(dirname "$0")/.."
tier=${1:-quick}; shift
ids="$@"
[ -z "$ids" ] && ids=$(ls props | grep '^C[0-9]*\.json$' | sed 's/\.json//')
mkdir -p work/logs
for p in $ids; do
  s=$(date +%s)
  ./check $p --tier $tier > work/logs/$p.$tier.out 2> work/logs/$p.$tier.err; rc=$?
  e=$(date +%s)
  echo "$p rc=$rc $((e-s))s $(grep -c VIOLATION work/logs/$p.$tier.out) viol $(grep -c KNOWN-FINDING work/logs/$p.$tier.out) known | $(tail -1 work/logs/$p.$tier.err)"
done
