#!/usr/bin/env python3
"""Confirm an independently written breaking change before it is kept under /verif/seeded/<id>/.

  seed_verify.py <dir>     dir holds patch.diff, meta.json and the demonstration file(s)

meta.json: {"property": "Cnn", "demo": [{"src": "demo_test.go", "dst": "pkg/x/zz_demo_test.go"}],
            "demo_cmd": "go test -count=1 -run TestDemo ./pkg/x/", "packages": ["./pkg/x/..."],
            "needs": "...", "summary": "..."}

Steps, all in a scratch git worktree of /repo under /tmp that is removed afterwards:
  1. demo passes on the unchanged tree;  2. patch applies, `go build ./...` and `go vet` of the
  touched packages still work;  3. the existing tests of the touched packages pass WITH the patch
  (demo file absent);  4. demo fails WITH the patch.
Prints a JSON verdict; exit 0 iff all four hold."""
import json, os, re, shutil, subprocess, sys, time

WALL_CLOCK_TESTS = {"TestWatchCoordinationWindows", "TestNode_RunCoordinationLayer", "TestStop",
                    "TestCheckProtocols_NoProtocols", "TestCheckProtocols_ProtocolFinishedExecution",
                    "TestRetransmitExpectedNumberOfTimes", "TestOnTickTimeTicker", "TestCloseTimeTicker"}
ENV = dict(os.environ, GOFLAGS="-mod=mod", GOPROXY="off", GOSUMDB="off", GOTOOLCHAIN="local")


def sh(cmd, cwd, timeout=2400):
    p = subprocess.run(cmd, cwd=cwd, shell=True, env=ENV, stdout=subprocess.PIPE, stderr=subprocess.STDOUT,
                       text=True, timeout=timeout)
    return p.returncode, p.stdout


def main():
    d = os.path.abspath(sys.argv[1])
    meta = json.load(open(os.path.join(d, "meta.json")))
    wt = "/tmp/sv-%s-%d" % (os.path.basename(d), os.getpid())
    res = {"dir": d, "steps": {}}
    sh("git -C /repo worktree add --detach %s HEAD" % wt, "/")
    try:
        def place():
            for f in meta["demo"]:
                dst = os.path.join(wt, f["dst"])
                os.makedirs(os.path.dirname(dst), exist_ok=True)
                shutil.copyfile(os.path.join(d, f["src"]), dst)

        def unplace():
            for f in meta["demo"]:
                try:
                    os.remove(os.path.join(wt, f["dst"]))
                except FileNotFoundError:
                    pass
        place()
        rc, out = sh(meta["demo_cmd"], wt)
        res["steps"]["demo_passes_clean"] = rc == 0
        if rc != 0:
            res["demo_clean_log"] = out[-2000:]
        unplace()
        rc, out = sh("git apply --whitespace=nowarn %s" % os.path.join(d, "patch.diff"), wt)
        res["steps"]["patch_applies"] = rc == 0
        if rc != 0:
            res["apply_log"] = out[-2000:]
        touched = sorted({"./" + os.path.dirname(m) + "/" for m in re.findall(r'^\+\+\+ b/(\S+\.go)', open(os.path.join(d, "patch.diff")).read(), re.M)})
        pkgs = meta.get("packages") or touched
        rc, out = sh("go build ./...", wt)  # the baseline runs with -vet=off: pre-existing vet complaints are not the patch's
        res["steps"]["builds"] = rc == 0
        if rc != 0:
            res["build_log"] = out[-2000:]
        t0 = time.time()
        # timing-based tests of the repository (tickers, retransmission) are flaky when the machine is
        # loaded by other checks: a failing package is retried (alone, twice) before it counts
        rc, out = sh("go test -count=1 -timeout 25m %s" % " ".join(pkgs), wt)
        for _ in range(2):
            if rc == 0:
                break
            failed = re.findall(r'^FAIL[ \t]+(\S+)[ \t]', out, re.M)
            if not failed:
                break
            res.setdefault("retried", []).append(failed)
            rc, out = sh("go test -count=1 -p 1 -timeout 25m %s" % " ".join(failed), wt)
        if rc != 0:
            # still failing: is it the patch, or a test that fails on the unchanged tree as well under
            # the current machine load?  Run exactly the failing tests on the unpatched tree.
            names = sorted(set(re.findall(r'^--- FAIL: (\w+)', out, re.M)))
            failed = re.findall(r'^FAIL[ \t]+(\S+)[ \t]', out, re.M)
            if names and failed:
                sh("git apply -R --whitespace=nowarn %s" % os.path.join(d, "patch.diff"), wt)
                rc0, out0 = sh("go test -count=1 -p 1 -timeout 25m -run '^(%s)$' %s" % ("|".join(names), " ".join(failed)), wt)
                names0 = sorted(set(re.findall(r'^--- FAIL: (\w+)', out0, re.M)))
                sh("git apply --whitespace=nowarn %s" % os.path.join(d, "patch.diff"), wt)
                res["failing_with_patch"] = names
                res["failing_on_clean_tree_too"] = names0
                if names0 == names:
                    rc = 0
                    res["note"] = "the only failing existing tests fail on the unchanged tree as well (load-dependent), not counted against the patch"
                elif set(names) <= WALL_CLOCK_TESTS:
                    # wall-clock tests of the repository that fail intermittently on the unchanged tree when the
                    # machine is loaded (observed 3/3 failures on clean trees by several independent runs) and that
                    # abort the package run by panicking: run everything else of the failing packages
                    rc, out = sh("go test -count=1 -p 1 -timeout 25m -skip '^(%s)$' %s" % ("|".join(sorted(WALL_CLOCK_TESTS)), " ".join(failed)), wt)
                    res["note"] = "wall-clock tests %s skipped (load-dependent on the unchanged tree); all other existing tests of %s run" % (names, failed)
        res["steps"]["existing_tests_pass_with_patch"] = rc == 0
        res["tests_s"] = round(time.time() - t0)
        if rc != 0:
            res["tests_log"] = out[-3000:]
        place()
        rc, out = sh(meta["demo_cmd"], wt)
        res["steps"]["demo_fails_with_patch"] = rc != 0
        res["demo_patched_tail"] = out[-800:]
    finally:
        sh("git -C /repo worktree remove --force %s" % wt, "/")
        shutil.rmtree(wt, ignore_errors=True)
    res["ok"] = all(res["steps"].values()) and len(res["steps"]) == 5
    print(json.dumps(res, indent=1))
    sys.exit(0 if res["ok"] else 1)


if __name__ == "__main__":
    main()
