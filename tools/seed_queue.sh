#!/bin/sh
# usage: tools/seed_queue.sh C05a C06a ...   (directories under /tmp/mut-out)
# verify each independently written change, keep the confirmed ones under /verif/seeded/<id>/, run the check on them
cd "$(dirname "$0")/.."
mkdir -p work/logs seeded
for s in "$@"; do
  src=/tmp/mut-out/$s
  [ -f $src/meta.json ] || { echo "$s: no meta.json"; continue; }
  if [ ! -f seeded/$s/verify.json ] || ! grep -q '"ok": true' seeded/$s/verify.json; then
    python3 tools/seed_verify.py $src > $src/verify.json 2>&1
    if grep -q '"ok": true' $src/verify.json; then
      mkdir -p seeded/$s; cp $src/patch.diff $src/meta.json $src/verify.json seeded/$s/
      for f in $(python3 -c "import json;print(' '.join(x['src'] for x in json.load(open('$src/meta.json'))['demo']))"); do cp $src/$f seeded/$s/; done
      echo "$s: confirmed"
    else
      echo "$s: NOT confirmed: $(python3 -c "import json;print(json.load(open('$src/verify.json'))['steps'])" 2>&1 | tail -1)"; continue
    fi
  fi
  python3 tools/seed_run.py seeded/$s 2>/dev/null | tail -1 | cut -c1-330
done
