#!/usr/bin/env python3
"""Print the markdown table of seeded changes (seeded/<id>/meta.json + runs.json) for DESIGN.md."""
import glob, json, os
ROOT = os.path.dirname(os.path.dirname(os.path.abspath(__file__)))
print("| seed | property | what the change does | needs | last run of the check | result |")
print("|------|----------|-----------------------|-------|------------------------|--------|")
for d in sorted(glob.glob(os.path.join(ROOT, "seeded", "*"))):
    mp = os.path.join(d, "meta.json")
    if not os.path.exists(mp):
        continue
    m = json.load(open(mp))
    runs = json.load(open(os.path.join(d, "runs.json"))) if os.path.exists(os.path.join(d, "runs.json")) else []
    last = {}
    for r in runs:
        last[(r["property"], r["tier"])] = r
    cells = []
    for (p, t), r in sorted(last.items()):
        if r["caught"]:
            cells.append("%s %s: caught, %s (%ss)" % (p, t, "concrete replay" if r["concrete_input"] else "no-failing-input-found", r["wall_s"]))
        else:
            cells.append("%s %s: MISSED (exit %s)" % (p, t, r["exit"]))
    res = "not run" if not last else ("caught" if any(r["caught"] for r in last.values()) else "missed")
    def cut(s, n):
        s = " ".join(str(s).split()).replace("|", "/")
        return s if len(s) <= n else s[:n - 1] + "…"
    print("| %s | %s | %s | %s | %s | %s |" % (os.path.basename(d), m["property"], cut(m.get("summary", ""), 260),
                                            cut(m.get("needs", ""), 200), "; ".join(cells) or "-", res))
