#!/usr/bin/env python3
"""Regenerate harness/go.mod and go.sum from /repo's (same requires and replaces, plus a
replace of keep-core by /repo's working tree)."""
import os, re, shutil, sys
REPO = os.environ.get("VERIF_REPO", "/repo")
here = os.path.dirname(os.path.abspath(__file__))
# optional argument: directory for go.mod/go.sum (used with `go build -modfile`); default harness/
h = os.path.abspath(sys.argv[1]) if len(sys.argv) > 1 else os.path.join(here, "..", "harness")
os.makedirs(h, exist_ok=True)
src = open(os.path.join(REPO, "go.mod")).read()
src = re.sub(r'^module .*$', 'module verifharness', src, count=1, flags=re.M)
src += '\nrequire github.com/keep-network/keep-core v0.0.0\n'
src += '\nreplace github.com/keep-network/keep-core => %s\n' % REPO
p = os.path.join(h, "go.mod")
if not os.path.exists(p) or open(p).read() != src:
    open(p, "w").write(src)
sumsrc = open(os.path.join(REPO, "go.sum")).read()
ps = os.path.join(h, "go.sum")
if not os.path.exists(ps) or open(ps).read() != sumsrc:
    open(ps, "w").write(sumsrc)
