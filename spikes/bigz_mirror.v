(* Feasibility spike (design round; not built by any check): a BigZ mirror of a Z function and
   its transfer lemma. Print Assumptions lists only the stdlib's Uint63 primitive-integer
   axioms. Measured: 7.5 ms per 254-bit powmod via BigZ vs 1 s via Z under vm_compute. *)
From Coq Require Import ZArith Lia.
From Bignums Require Import BigZ.
Open Scope Z_scope.
Fixpoint powmodZ (a : Z) (e : positive) (m : Z) : Z :=
  match e with
  | xH => a mod m
  | xO e' => let r := powmodZ a e' m in (r * r) mod m
  | xI e' => let r := powmodZ a e' m in (((r * r) mod m) * a) mod m
  end.
Fixpoint powmodB (a : bigZ) (e : positive) (m : bigZ) : bigZ :=
  match e with
  | xH => BigZ.modulo a m
  | xO e' => let r := powmodB a e' m in BigZ.modulo (BigZ.mul r r) m
  | xI e' => let r := powmodB a e' m in BigZ.modulo (BigZ.mul (BigZ.modulo (BigZ.mul r r) m) a) m
  end.
Lemma powmod_mirror a e m : BigZ.to_Z (powmodB a e m) = powmodZ (BigZ.to_Z a) e (BigZ.to_Z m).
Proof.
  induction e as [e IH|e IH|]; cbn [powmodB powmodZ];
  rewrite ?BigZ.spec_modulo, ?BigZ.spec_mul, ?BigZ.spec_modulo, ?BigZ.spec_mul, ?IH; reflexivity.
Qed.
Print Assumptions powmod_mirror.
