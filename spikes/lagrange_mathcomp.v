(* Feasibility spike written during the design round (not part of the framework, not built by
   any check): Lagrange interpolation at 0 over an arbitrary field, from MathComp's
   max_poly_roots.  `coqc -w none lagrange_mathcomp.v` prints "Closed under the global context".
   Planned use: Proofs/C02, Proofs/C03 (instantiated at 'F_q, transported to the executable
   Z-mod-q model by a ring-morphism mirror lemma). *)
From mathcomp Require Import all_ssreflect all_algebra zify.
Set Implicit Arguments. Unset Strict Implicit. Unset Printing Implicit Defensive.
Import GRing.Theory.
Local Open Scope ring_scope.

Section Lagrange.
Variable F : fieldType.
Variable n : nat.
Variable x : 'I_n -> F.
Hypothesis x_inj : injective x.

Definition fac (i j : 'I_n) : {poly F} := (x i - x j)^-1 *: ('X - (x j)%:P).
Definition ell (i : 'I_n) : {poly F} := \prod_(j < n | j != i) fac i j.

Lemma ell_self i : (ell i).[x i] = 1.
Proof.
rewrite /ell horner_prod big1 // => j ji.
rewrite /fac hornerZ hornerXsubC mulVf // subr_eq0.
by apply/eqP => /x_inj e; rewrite e eqxx in ji.
Qed.

Lemma ell_other i k : k != i -> (ell i).[x k] = 0.
Proof.
move=> ki; rewrite /ell horner_prod (bigD1 k) //=.
by rewrite /fac hornerZ hornerXsubC subrr mulr0 mul0r.
Qed.

Lemma size_fac i j : (size (fac i j) <= 2)%N.
Proof. by apply: leq_trans (size_scale_leq _ _) _; rewrite size_XsubC. Qed.

Lemma size_ell i : (size (ell i) <= n)%N.
Proof.
apply: leq_trans (size_prod_leq _ _) _.
have hs : (\sum_(j < n | j != i) size (fac i j) <= \sum_(j < n | j != i) 2)%N.
  by apply: leq_sum => j _; apply: size_fac.
have hc : #|[pred j : 'I_n | j != i]| = n.-1.
  by have := cardC1 i; rewrite card_ord.
rewrite sum_nat_const hc in hs.
rewrite hc.
have n0 : (0 < n)%N by apply: leq_ltn_trans (ltn_ord i).
move: hs; set S := (\sum_(j < n | j != i) size (fac i j))%N => hs.
lia.
Qed.

Definition interp (y : 'I_n -> F) : {poly F} := \sum_(i < n) y i *: ell i.

Lemma interp_at y k : (interp y).[x k] = y k.
Proof.
rewrite /interp horner_sum (bigD1 k) //= hornerZ ell_self mulr1 big1 ?addr0 //.
by move=> i ik; rewrite hornerZ ell_other ?mulr0 // eq_sym.
Qed.

Lemma size_interp y : (size (interp y) <= n)%N.
Proof.
apply: leq_trans (size_sum _ _ _) _.
apply/bigmax_leqP => i _.
by apply: leq_trans (size_scale_leq _ _) (size_ell i).
Qed.

Theorem interp_unique (f : {poly F}) :
  (size f <= n)%N -> interp (fun i => f.[x i]) = f.
Proof.
move=> sf; apply/eqP; rewrite -subr_eq0; apply/eqP.
set d := _ - f.
have sd : (size d <= n)%N.
  apply: leq_trans (size_add _ _) _; rewrite size_opp geq_max sf andbT.
  exact: size_interp.
apply/eqP; apply: contraT => dn0.
have rs : all (root d) [seq x i | i <- enum 'I_n].
  apply/allP => _ /mapP [i _ ->].
  by rewrite /root /d hornerD hornerN interp_at subrr.
have us : uniq [seq x i | i <- enum 'I_n].
  by rewrite map_inj_uniq // enum_uniq.
have := max_poly_roots dn0 rs us.
by rewrite size_map size_enum_ord ltnNge sd.
Qed.

Definition lagrange0 (y : 'I_n -> F) : F :=
  \sum_(i < n) y i * \prod_(j < n | j != i) (x j / (x j - x i)).

Theorem lagrange0_correct (f : {poly F}) :
  (size f <= n)%N -> lagrange0 (fun i => f.[x i]) = f.[0].
Proof.
move=> sf; rewrite -{2}(interp_unique sf) /interp /lagrange0 horner_sum.
apply: eq_bigr => i _; rewrite hornerZ; congr (_ * _).
rewrite /ell horner_prod; apply: eq_bigr => j ji.
rewrite /fac hornerZ hornerXsubC sub0r mulrC.
rewrite -[x j - x i]opprB invrN mulrN mulNr. by [].
Qed.
End Lagrange.
Print Assumptions lagrange0_correct.
