(* C36 — proofs about the model of heartbeat.go (Model/C36.v). *)
From Coq Require Import ZArith NArith List Bool Lia.
From KV Require Import Common.Verdict Gen.Consts_C36 Model.C36.
Import ListNotations.
Open Scope Z_scope.

Fixpoint take_while {A} (f : A -> bool) (l : list A) : list A :=
  match l with
  | [] => []
  | x :: t => if f x then x :: take_while f t else []
  end.

Section Params.
  Variables minActive thr claimValidity : Z.
  Notation step := (step minActive thr claimValidity).
  Notation run_from := (run_from minActive thr claimValidity).
  Notation run := (run minActive thr claimValidity).
  Notation lowact := (lowact minActive claimValidity).
  Notation success := (success minActive claimValidity).
  Notation run_rev := (run_rev minActive claimValidity).
  Notation expected_claim := (expected_claim minActive thr claimValidity).
  Notation spec_claims := (spec_claims minActive thr claimValidity).

  (* the history reaches the point where the property demands a claim *)
  Definition escalates (rh : list input) (i : input) : Prop :=
    lowact i = true /\ thr <= run_rev (i_wallet i) rh /\ inactive_of i <> [].

  Definition claim_correct (rh : list input) (i : input) (oc : option (list N * bool)) : Prop :=
    match oc with
    | Some (l, f) => escalates rh i /\ f = true /\ (forall x, In x l <-> In x (inactive_of i))
    | None => ~ escalates rh i
    end.

  Lemma success_not_lowact : forall i, success i = true -> lowact i = false.
  Proof.
    intros i. unfold Model.C36.success, Model.C36.lowact.
    destruct (reaches_sign claimValidity i); cbn; [|discriminate].
    destruct (i_sign i) as [|a l]; [discriminate|].
    intros H. apply Z.leb_le in H. apply Z.ltb_ge. lia.
  Qed.

  (* one execute(): when the counter equals the run length so far, the counter afterwards is
     the new run length and the claim is the one the property demands *)
  Lemma step_facts : forall i rpre,
      let o := step (run_rev (i_wallet i) rpre) i in
      o_count o = run_rev (i_wallet i) (i :: rpre) /\
      o_claim o = expected_claim (i :: rpre) i.
  Proof.
    intros i rpre. cbn zeta.
    unfold Model.C36.expected_claim. cbn [Model.C36.run_rev]. rewrite N.eqb_refl.
    unfold Model.C36.step, Model.C36.success, Model.C36.lowact, reaches_sign, inactive_of.
    set (c := run_rev (i_wallet i) rpre).
    destruct (i_stake i); cbn; try (split; reflexivity).
    destruct (i_valid i); cbn; [|split; reflexivity].
    destruct (Z.ltb_spec (i_expiry i) claimValidity) as [He|He].
    { replace (claimValidity <=? i_expiry i) with false by (symmetry; apply Z.leb_gt; lia).
      cbn. split; reflexivity. }
    replace (claimValidity <=? i_expiry i) with true by (symmetry; apply Z.leb_le; lia).
    cbn.
    destruct (i_sign i) as [|a l]; cbn; [split; reflexivity|].
    destruct (Z.leb_spec minActive a) as [Ha|Ha].
    { replace (a <? minActive) with false by (symmetry; apply Z.ltb_ge; lia).
      cbn. split; reflexivity. }
    replace (a <? minActive) with true by (symmetry; apply Z.ltb_lt; lia).
    cbn.
    destruct (Z.ltb_spec (c + 1) thr) as [Hc|Hc].
    { replace (thr <=? c + 1) with false by (symmetry; apply Z.leb_gt; lia).
      cbn. split; [lia|reflexivity]. }
    replace (thr <=? c + 1) with true by (symmetry; apply Z.leb_le; lia).
    destruct l; cbn; (split; [lia|reflexivity]).
  Qed.

  Lemma run_rev_other : forall w i rpre,
      N.eqb (i_wallet i) w = false -> run_rev w (i :: rpre) = run_rev w rpre.
  Proof. intros w i rpre H. cbn [Model.C36.run_rev]. rewrite H. reflexivity. Qed.

  Lemma run_from_claims : forall h st rpre,
      (forall w, st w = run_rev w rpre) ->
      map o_claim (run_from st h) = spec_claims rpre h.
  Proof.
    induction h as [|i t IH]; intros st rpre Hinv; [reflexivity|].
    cbn [Model.C36.run_from Model.C36.spec_claims map].
    rewrite (Hinv (i_wallet i)).
    destruct (step_facts i rpre) as [Hc Hcl]. cbn zeta in Hc, Hcl.
    rewrite Hcl. f_equal.
    apply IH. intros w. unfold upd.
    destruct (N.eqb w (i_wallet i)) eqn:E.
    - apply N.eqb_eq in E. subst w. exact Hc.
    - rewrite run_rev_other; [apply Hinv|]. rewrite N.eqb_sym. exact E.
  Qed.

  Lemma run_claims : forall h, map o_claim (run h) = spec_claims [] h.
  Proof. intros h. apply run_from_claims. intros w. reflexivity. Qed.

  Lemma spec_claims_nth : forall pre rp i post,
      nth_error (spec_claims rp (pre ++ i :: post)) (length pre)
      = Some (expected_claim (i :: rev pre ++ rp) i).
  Proof.
    induction pre as [|x pre IH]; intros rp i post; [reflexivity|].
    cbn [app length Model.C36.spec_claims nth_error rev].
    rewrite IH. rewrite <- app_assoc. reflexivity.
  Qed.

  Lemma subsetN_In : forall a b, subsetN a b = true -> forall x, In x a -> In x b.
  Proof.
    intros a b H x Hx. unfold subsetN in H. rewrite forallb_forall in H.
    specialize (H x Hx). apply existsb_exists in H. destruct H as [y [Hy E]].
    apply N.eqb_eq in E. subst y. exact Hy.
  Qed.
  Lemma subsetN_refl : forall a, subsetN a a = true.
  Proof.
    intros a. unfold subsetN. apply forallb_forall. intros x Hx.
    apply existsb_exists. exists x. split; [exact Hx|apply N.eqb_refl].
  Qed.

  Lemma expected_claim_spec : forall rh i,
      match expected_claim rh i with
      | Some (l, f) => escalates rh i /\ l = inactive_of i /\ f = true
      | None => ~ escalates rh i
      end.
  Proof.
    intros rh i. unfold Model.C36.expected_claim, escalates.
    destruct (lowact i) eqn:El; cbn.
    2:{ intros [H _]. discriminate. }
    destruct (Z.leb_spec thr (run_rev (i_wallet i) rh)) as [Ht|Ht]; cbn.
    2:{ intros [_ [H _]]. lia. }
    destruct (inactive_of i) eqn:Ei; cbn.
    - intros [_ [_ H]]. apply H. reflexivity.
    - repeat split; try reflexivity; try assumption. discriminate.
  Qed.

  Lemma claim_ok_correct : forall rh i oc,
      claim_ok (expected_claim rh i) oc = true -> claim_correct rh i oc.
  Proof.
    intros rh i oc H. pose proof (expected_claim_spec rh i) as S.
    destruct (expected_claim rh i) as [[l f]|]; destruct oc as [[l' f']|]; cbn in H;
      try discriminate; cbn.
    - destruct S as [He [Hl Hf]]. apply andb_prop in H. destruct H as [Hs Hb].
      apply eqb_prop in Hb. unfold same_set in Hs. apply andb_prop in Hs.
      destruct Hs as [S1 S2]. subst l. split; [exact He|]. split; [congruence|].
      intros x. split; apply subsetN_In; assumption.
    - exact S.
  Qed.

  Lemma claim_ok_refl : forall c, claim_ok c c = true.
  Proof.
    intros [[l f]|]; cbn; [|reflexivity].
    unfold same_set. rewrite subsetN_refl. cbn. apply eqb_reflx.
  Qed.

  (* main theorem about the model: the claim made at every event of every history *)
  Theorem model_claims_correct : forall pre i post o,
      nth_error (run (pre ++ i :: post)) (length pre) = Some o ->
      claim_correct (i :: rev pre) i (o_claim o) /\
      (forall l f, o_claim o = Some (l, f) -> l = inactive_of i /\ f = true).
  Proof.
    intros pre i post o Hn.
    assert (Hc : nth_error (map o_claim (run (pre ++ i :: post))) (length pre)
                 = Some (o_claim o)) by (apply map_nth_error; exact Hn).
    rewrite run_claims, spec_claims_nth, app_nil_r in Hc. injection Hc as Hc'.
    pose proof (expected_claim_spec (i :: rev pre) i) as S.
    rewrite Hc' in S.
    split.
    - apply claim_ok_correct. rewrite Hc'. apply claim_ok_refl.
    - intros l f E. rewrite E in S. tauto.
  Qed.

  (* the counter is the run length *)
  Theorem counter_is_run_length : forall pre i post o,
      nth_error (run (pre ++ i :: post)) (length pre) = Some o ->
      o_count o = run_rev (i_wallet i) (i :: rev pre).
  Proof.
    intros pre i post o.
    assert (G : forall pre st rp, (forall w, st w = run_rev w rp) ->
              nth_error (run_from st (pre ++ i :: post)) (length pre) = Some o ->
              o_count o = run_rev (i_wallet i) (i :: rev pre ++ rp)).
    { clear pre. induction pre as [|x pre IH]; intros st rp Hinv Hn.
      - cbn in Hn. inversion Hn as [Ho]. rewrite (Hinv (i_wallet i)).
        exact (proj1 (step_facts i rp)).
      - cbn [app length Model.C36.run_from nth_error rev] in *.
        rewrite <- app_assoc. cbn [app].
        apply (IH (upd st (i_wallet x) (o_count (step (st (i_wallet x)) x)))); [|exact Hn].
        intros w. unfold upd. destruct (N.eqb w (i_wallet x)) eqn:E.
        + apply N.eqb_eq in E. subst w. rewrite (Hinv (i_wallet x)).
          exact (proj1 (step_facts x rp)).
        + rewrite run_rev_other; [apply Hinv|]. rewrite N.eqb_sym. exact E. }
    intros Hn. specialize (G pre (fun _ => 0) [] (fun _ => eq_refl) Hn).
    rewrite app_nil_r in G. exact G.
  Qed.

  (* "consecutive": the run length is the number of low-activity heartbeats at the head of
     the wallet's decisive (signed: success or low activity) heartbeats, most recent first *)
  Definition decisive (w : N) (i : input) : bool :=
    N.eqb (i_wallet i) w && (success i || lowact i).

  Theorem run_is_consecutive : forall w rh,
      run_rev w rh = Z.of_nat (length (take_while lowact (filter (decisive w) rh))).
  Proof.
    intros w. induction rh as [|i t IH]; [reflexivity|].
    cbn [Model.C36.run_rev filter]. unfold decisive at 1.
    destruct (N.eqb (i_wallet i) w); cbn [andb]; [|exact IH].
    destruct (success i) eqn:Es; cbn [orb].
    - cbn [take_while]. rewrite (success_not_lowact i Es). reflexivity.
    - destruct (lowact i) eqn:El.
      + cbn [take_while]. rewrite El. cbn [length]. rewrite Nat2Z.inj_succ. lia.
      + exact IH.
  Qed.

  (* wallets are independent: what wallet [w] observes in any interleaving with other wallets
     is what it observes alone *)
  Definition outs_of (w : N) (h : list input) (outs : list output) : list output :=
    map snd (filter (fun p => N.eqb (i_wallet (fst p)) w) (combine h outs)).
  Definition only (w : N) (h : list input) : list input :=
    filter (fun i => N.eqb (i_wallet i) w) h.

  Theorem wallets_independent : forall w h, outs_of w h (run h) = run (only w h).
  Proof.
    intros w h. unfold Model.C36.run.
    assert (G : forall h st st', st w = st' w ->
                outs_of w h (run_from st h) = run_from st' (only w h)).
    { clear h. induction h as [|i t IH]; intros st st' E; [reflexivity|].
      unfold outs_of, only in *. cbn [Model.C36.run_from combine filter fst].
      destruct (N.eqb (i_wallet i) w) eqn:Ew.
      - apply N.eqb_eq in Ew. subst w. cbn [map snd Model.C36.run_from]. rewrite E. f_equal.
        apply IH. unfold upd. rewrite N.eqb_refl. reflexivity.
      - apply IH. unfold upd. rewrite N.eqb_sym, Ew. exact E. }
    apply G. reflexivity.
  Qed.

  (* hence a wallet's outputs are a function of its OWN heartbeats only: two histories in which
     wallet [w] does the same things give [w] the same outputs, whatever all the other wallets
     (any keys different from [w]'s) do in them *)
  Theorem own_history_only : forall w h h',
      only w h = only w h' -> outs_of w h (run h) = outs_of w h' (run h').
  Proof. intros w h h' E. rewrite !wallets_independent, E. reflexivity. Qed.

  Definition without (b : N) (h : list input) : list input :=
    filter (fun i => negb (N.eqb (i_wallet i) b)) h.

  Lemma only_without : forall a b h, a <> b -> only a (without b h) = only a h.
  Proof.
    intros a b h Hab. unfold only, without. induction h as [|i t IH]; [reflexivity|].
    cbn [filter]. destruct (N.eqb_spec (i_wallet i) b) as [Eb|Eb]; cbn [negb].
    - destruct (N.eqb_spec (i_wallet i) a) as [Ea|Ea]; [congruence|exact IH].
    - cbn [filter]. destruct (N.eqb (i_wallet i) a); [f_equal|]; exact IH.
  Qed.

  (* two wallets with DIFFERENT keys — any two different keys — do not interfere: erasing all
     heartbeats of [b] from the history changes nothing of what [a] observes (claims, errors,
     counter values), and vice versa *)
  Theorem different_keys_do_not_interfere : forall a b h,
      a <> b ->
      outs_of a h (run h) = outs_of a (without b h) (run (without b h)) /\
      outs_of b h (run h) = outs_of b (without a h) (run (without a h)).
  Proof.
    intros a b h Hab. split; apply own_history_only; symmetry; apply only_without; congruence.
  Qed.
End Params.

(* ---------- readable corollaries (restated in Props/C36.v) ---------- *)
Theorem claim_iff_escalation : forall minActive thr claimValidity pre i post o,
    nth_error (run minActive thr claimValidity (pre ++ i :: post)) (length pre) = Some o ->
    (o_claim o <> None <->
       lowact minActive claimValidity i = true /\
       thr <= run_rev minActive claimValidity (i_wallet i) (i :: rev pre) /\
       inactive_of i <> []) /\
    (forall l f, o_claim o = Some (l, f) -> l = inactive_of i /\ f = true).
Proof.
  intros m t c pre i post o Hn.
  destruct (model_claims_correct m t c pre i post o Hn) as [Hc Hm]. split; [|exact Hm].
  unfold claim_correct, escalates in Hc. destruct (o_claim o) as [[l f]|].
  - split; [intros _; tauto|intros _; discriminate].
  - split; [intros H; exfalso; apply H; reflexivity|intros H; exfalso; apply Hc; exact H].
Qed.

Theorem lowact_inv : forall minActive claimValidity i,
    lowact minActive claimValidity i = true ->
    i_stake i = StPos /\ i_valid i = true /\ claimValidity <= i_expiry i /\
    exists a l, i_sign i = SgOk a l /\ a < minActive.
Proof.
  intros m c i. unfold lowact, reaches_sign.
  destruct (i_stake i); cbn; try discriminate.
  destruct (i_valid i); cbn; try discriminate.
  destruct (Z.leb_spec c (i_expiry i)) as [He|He]; cbn; try discriminate.
  destruct (i_sign i) as [|a l]; try discriminate.
  intros H. apply Z.ltb_lt in H. repeat split; try assumption. exists a, l. split; [reflexivity|exact H].
Qed.

(* ---------- the executable form ---------- *)
Lemma all2_nth : forall A B (f : A -> B -> bool) a b k x y,
    all2 f a b = true -> nth_error a k = Some x -> nth_error b k = Some y -> f x y = true.
Proof.
  intros A B f. induction a as [|a0 a IH]; intros b k x y H Ha Hb.
  - destruct k; discriminate.
  - destruct b as [|b0 b]; [discriminate|]. cbn in H. apply andb_prop in H. destruct H as [H0 H1].
    destruct k; cbn in Ha, Hb.
    + inversion Ha; inversion Hb; subst. exact H0.
    + eapply IH; eassumption.
Qed.

Lemma all2_refl_map : forall A B (f : A -> A -> bool) (g : B -> A) l,
    (forall x, f x x = true) -> all2 f (map g l) (map g l) = true.
Proof.
  intros A B f g l Hr. induction l as [|x l IH]; [reflexivity|]. cbn. rewrite Hr, IH. reflexivity.
Qed.

Theorem spec_ok_sound : forall c,
    Concrete.spec_ok c = true ->
    forall pre i post o,
      c_inputs c = pre ++ i :: post ->
      nth_error (c_observed c) (length pre) = Some o ->
      claim_correct Concrete.minActive Concrete.thr Concrete.claimValidity
                    (i :: rev pre) i (o_claim o).
Proof.
  intros c H pre i post o Hi Ho. unfold Concrete.spec_ok, Concrete.spec_claims in H.
  apply claim_ok_correct.
  eapply all2_nth; [exact H| |apply map_nth_error; exact Ho].
  rewrite Hi, spec_claims_nth, app_nil_r. reflexivity.
Qed.

Theorem model_passes_spec : forall h,
    Concrete.spec_ok {| c_inputs := h; c_observed := Concrete.run h |} = true.
Proof.
  intros h. unfold Concrete.spec_ok, Concrete.spec_claims, Concrete.run. cbn [c_inputs c_observed].
  rewrite <- run_claims. apply all2_refl_map. apply claim_ok_refl.
Qed.

Theorem threshold_at_least_three : 3 <= Concrete.thr.
Proof. unfold Concrete.thr, heartbeatConsecutiveFailureThreshold. lia. Qed.

(* the hypotheses are satisfiable: a history in which the third consecutive low-activity
   heartbeat of wallet 1 escalates while wallet 2 (one failure) does not *)
Definition ex_low (w : N) : input :=
  {| i_wallet := w; i_stake := StPos; i_valid := true; i_expiry := 1000;
     i_sign := SgOk 60 [3%N; 7%N]; i_claim_fails := false |}.
Example escalation_example :
  map o_claim (Concrete.run [ex_low 1; ex_low 2; ex_low 1; ex_low 1])
  = [None; None; None; Some ([3%N; 7%N], true)].
Proof. vm_compute. reflexivity. Qed.

(* the same on two wallets whose keys are a point P and its negation −P (same X; the keys of
   seeded/C36b's demonstration): they agree on their first 33 bytes and are two wallets *)
Definition key_P : N :=
  0x0471e30bca60f6548d7b42582a478ea37ada63b402af7b3ddd57f0c95bb6843175aa0d2053a91a050a6797d85c38f2909cb7027f2344a01986aa2f9f8ca7a0c289%N.
Definition key_negP : N :=
  0x0471e30bca60f6548d7b42582a478ea37ada63b402af7b3ddd57f0c95bb684317555f2dfac56e5faf5986827a3c70d6f6348fd80dcbb5fe67955d06072585f39a6%N.
Definition ex_ok (w : N) : input :=
  {| i_wallet := w; i_stake := StPos; i_valid := true; i_expiry := 1000;
     i_sign := SgOk 70 [9%N]; i_claim_fails := false |}.
(* 04‖X‖Y with (X, Y) on secp256k1: Y² = X³ + 7 (mod p) *)
Definition on_curve (k : N) : bool :=
  (let p := 2 ^ 256 - 2 ^ 32 - 977 in
   let x := (k / 2 ^ 256) mod 2 ^ 256 in let y := k mod 2 ^ 256 in
   (k / 2 ^ 512 =? 4) && (x <? p) && (y <? p) && ((y * y) mod p =? (x * x * x + 7) mod p))%N.
Example related_keys_example :
  on_curve key_P = true /\ on_curve key_negP = true /\
  (key_P / 2 ^ 256 = key_negP / 2 ^ 256)%N /\ key_P <> key_negP /\
  map o_claim (Concrete.run [ex_low key_P; ex_low key_negP; ex_low key_P])
  = [None; None; None] /\
  map o_claim (Concrete.run [ex_low key_P; ex_low key_P; ex_ok key_negP; ex_low key_P])
  = [None; None; None; Some ([3%N; 7%N], true)].
Proof. vm_compute. repeat split; discriminate. Qed.
