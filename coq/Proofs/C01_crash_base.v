(* C01 — crash-fault agreement, part 1: generic lemmas (association lists, folds, arrival orders,
   inboxes, one sending step of the joint run).  Statements are in Props/C01.v. *)
From Coq Require Import ZArith NArith List Bool Lia Permutation.
From KV Require Import Common.Verdict Model.C01 Model.C01_crash Proofs.C01.
Import ListNotations.
Open Scope N_scope.

(* ---------- booleans ---------- *)
Lemma bool_eq_iff : forall a b : bool, (a = true <-> b = true) -> a = b.
Proof. intros [] [] H; try reflexivity; destruct H as [H1 H2]; [symmetry; apply H1|apply H2]; reflexivity. Qed.

(* ---------- association lists ---------- *)
Lemma lookup_In : forall A (l : list (N * A)) k v, lookup k l = Some v -> In (k, v) l.
Proof.
  intros A l k v. induction l as [|[k' v'] r IH]; cbn [lookup]; [discriminate|].
  destruct (N.eqb k k') eqn:E.
  - apply N.eqb_eq in E. subst. intros H. inversion H. left. reflexivity.
  - intros H. right. apply IH. exact H.
Qed.
Lemma lookup_None : forall A (l : list (N * A)) k, lookup k l = None <-> ~ In k (map fst l).
Proof.
  intros A l k. induction l as [|[k' v'] r IH]; cbn [lookup map fst In].
  - split; auto.
  - destruct (N.eqb k k') eqn:E.
    + apply N.eqb_eq in E. subst. split; [discriminate|]. intros H. exfalso. apply H. left. reflexivity.
    + apply N.eqb_neq in E. rewrite IH. split; intros H; [intros [H1|H1]; [congruence|auto]|auto].
Qed.
Lemma NoDup_lookup : forall A (l : list (N * A)) k v,
  NoDup (map fst l) -> In (k, v) l -> lookup k l = Some v.
Proof.
  intros A l k v. induction l as [|[k' v'] r IH]; intros Hnd Hin; [destruct Hin|].
  cbn [lookup]. cbn [map fst] in Hnd. inversion Hnd as [|? ? Hn Hnd']. subst.
  destruct Hin as [Hin|Hin].
  - inversion Hin. subst. rewrite N.eqb_refl. reflexivity.
  - destruct (N.eqb k k') eqn:E.
    + apply N.eqb_eq in E. subst. exfalso. apply Hn. apply in_map_iff. exists (k', v). auto.
    + apply IH; assumption.
Qed.
Lemma haskey_memN : forall A (l : list (N * A)) k, haskey k l = memN k (map fst l).
Proof.
  intros A l k. unfold haskey. apply bool_eq_iff. rewrite memN_In. split.
  - destruct (lookup k l) eqn:E; [|discriminate]. intros _. apply lookup_In in E.
    apply in_map_iff. exists (k, a). auto.
  - intros H. destruct (lookup k l) eqn:E; [reflexivity|]. apply lookup_None in E. contradiction.
Qed.
Lemma lookup_put : forall A (l : list (N * A)) k k' v,
  lookup k (put k' v l) = if N.eqb k k' then Some v else lookup k l.
Proof.
  intros A l k k' v. induction l as [|[k2 v2] r IH]; cbn [put lookup].
  - reflexivity.
  - destruct (N.eqb k' k2) eqn:E2; cbn [lookup].
    + apply N.eqb_eq in E2. subst. destruct (N.eqb k k2); reflexivity.
    + rewrite IH. destruct (N.eqb k k') eqn:E; [|reflexivity].
      apply N.eqb_eq in E. subst. rewrite E2. reflexivity.
Qed.
Lemma put_keys_In : forall A (l : list (N * A)) k v x, In x (map fst (put k v l)) <-> x = k \/ In x (map fst l).
Proof.
  intros A l k v x. induction l as [|[k2 v2] r IH]; cbn [put map fst In].
  - intuition.
  - destruct (N.eqb k k2) eqn:E; cbn [map fst In].
    + apply N.eqb_eq in E. subst. intuition.
    + rewrite IH. intuition.
Qed.
Lemma put_NoDup : forall A (l : list (N * A)) k v, NoDup (map fst l) -> NoDup (map fst (put k v l)).
Proof.
  intros A l k v. induction l as [|[k2 v2] r IH]; cbn [put map fst]; intros H.
  - constructor; [intros []|constructor].
  - inversion H as [|? ? Hn H']. subst. destruct (N.eqb k k2) eqn:E; cbn [map fst].
    + apply N.eqb_eq in E. subst. constructor; assumption.
    + apply N.eqb_neq in E. constructor; [|apply IH; exact H'].
      rewrite put_keys_In. intros [Hx|Hx]; [congruence|contradiction].
Qed.
Lemma lookup_app : forall A (l1 l2 : list (N * A)) k,
  lookup k (l1 ++ l2) = match lookup k l1 with Some v => Some v | None => lookup k l2 end.
Proof.
  intros A l1 l2 k. induction l1 as [|[k' v'] r IH]; cbn [app lookup]; [reflexivity|].
  destruct (N.eqb k k'); [reflexivity|exact IH].
Qed.
Lemma dedup_from_id : forall A (l : list (N * A)) seen,
  NoDup (map fst l) -> (forall k, In k (map fst l) -> memN k seen = false) -> dedup_from seen l = l.
Proof.
  intros A l. induction l as [|[k v] r IH]; intros seen Hnd Hs; cbn [dedup_from]; [reflexivity|].
  cbn [map fst] in Hnd, Hs. inversion Hnd as [|? ? Hn Hnd']. subst.
  rewrite (Hs k (or_introl eq_refl)). f_equal. apply IH; [exact Hnd'|].
  intros k' Hk'. rewrite memN_cons. rewrite (Hs k' (or_intror Hk')).
  destruct (N.eqb k' k) eqn:E; [|reflexivity]. apply N.eqb_eq in E. subst. contradiction.
Qed.
Lemma dedup_id : forall A (l : list (N * A)), NoDup (map fst l) -> dedup l = l.
Proof. intros. apply dedup_from_id; [assumption|reflexivity]. Qed.

Lemma NoDup_snoc : forall A (l : list A) x, NoDup l -> ~ In x l -> NoDup (l ++ [x]).
Proof.
  intros A l x H1 H2. apply (Permutation_NoDup (Permutation_cons_append l x)). constructor; assumption.
Qed.

(* [l] has distinct keys, exactly the keys of [dom], with the values [val] *)
Definition amap {V} (l : list (N * V)) (dom : N -> bool) (val : N -> V) : Prop :=
  NoDup (map fst l) /\ forall j, lookup j l = if dom j then Some (val j) else None.

Lemma amap_nil : forall V (val : N -> V), amap [] (fun _ => false) val.
Proof. intros. split; [constructor|reflexivity]. Qed.
Lemma amap_ext : forall V (l : list (N * V)) dom dom' val val',
  amap l dom val -> (forall j, dom j = dom' j) -> (forall j, dom j = true -> val j = val' j) -> amap l dom' val'.
Proof.
  intros V l dom dom' val val' [H1 H2] Hd Hv. split; [exact H1|]. intros j. rewrite H2, <- Hd.
  destruct (dom j) eqn:E; [rewrite Hv by exact E|]; reflexivity.
Qed.
Lemma amap_In : forall V (l : list (N * V)) dom val j v, amap l dom val -> In (j, v) l -> dom j = true /\ v = val j.
Proof.
  intros V l dom val j v [H1 H2] Hin. apply NoDup_lookup in Hin; [|exact H1]. rewrite H2 in Hin.
  destruct (dom j); [|discriminate]. inversion Hin. auto.
Qed.
Lemma amap_memN : forall V (l : list (N * V)) dom val j, amap l dom val -> memN j (map fst l) = dom j.
Proof.
  intros V l dom val j [H1 H2]. rewrite <- haskey_memN. unfold haskey. rewrite H2. destruct (dom j); reflexivity.
Qed.
Lemma amap_put : forall V (l : list (N * V)) dom val k,
  amap l dom val -> amap (put k (val k) l) (fun j => N.eqb j k || dom j) val.
Proof.
  intros V l dom val k [H1 H2]. split; [apply put_NoDup; exact H1|].
  intros j. rewrite lookup_put. destruct (N.eqb j k) eqn:E; cbn [orb]; [|apply H2].
  apply N.eqb_eq in E. subst. reflexivity.
Qed.
Lemma amap_snoc : forall V (l : list (N * V)) dom val k,
  amap l dom val -> dom k = false -> amap (l ++ [(k, val k)]) (fun j => N.eqb j k || dom j) val.
Proof.
  intros V l dom val k [H1 H2] Hk. split.
  - rewrite map_app. cbn [map fst]. apply NoDup_snoc; [exact H1|].
    apply lookup_None. rewrite H2, Hk. reflexivity.
  - intros j. rewrite lookup_app, H2. cbn [lookup]. destruct (N.eqb j k) eqn:E; cbn [orb].
    + apply N.eqb_eq in E. subst. rewrite Hk. reflexivity.
    + destruct (dom j); reflexivity.
Qed.
(* given by membership *)
Lemma amap_intro : forall V (l : list (N * V)) (dom : N -> bool) val,
  NoDup (map fst l) -> (forall j v, In (j, v) l <-> dom j = true /\ v = val j) -> amap l dom val.
Proof.
  intros V l dom val Hnd H. split; [exact Hnd|]. intros j. destruct (dom j) eqn:E.
  - apply NoDup_lookup; [exact Hnd|]. apply H. auto.
  - apply lookup_None. intros Hin. apply in_map_iff in Hin. destruct Hin as [[j' v] [Hj Hin]]. cbn in Hj. subst.
    apply H in Hin. destruct Hin. congruence.
Qed.

(* ---------- folds ---------- *)
Lemma fold_left_inv : forall A S (step : S -> A -> S) (J : list A -> S -> Prop) l s0,
  J [] s0 ->
  (forall pre a suf s, l = pre ++ a :: suf -> J pre s -> J (pre ++ [a]) (step s a)) ->
  J l (fold_left step l s0).
Proof.
  intros A S step J l s0 H0 Hstep.
  assert (G : forall rest pre s, l = pre ++ rest -> J pre s -> J (pre ++ rest) (fold_left step rest s)).
  { induction rest as [|a rest IH]; intros pre s El Hs; cbn [fold_left].
    - rewrite app_nil_r. exact Hs.
    - replace (pre ++ a :: rest) with ((pre ++ [a]) ++ rest) by (rewrite <- app_assoc; reflexivity).
      apply IH; [rewrite <- app_assoc; exact El|]. apply (Hstep pre a rest); assumption. }
  apply (G l [] s0 eq_refl H0).
Qed.
Lemma fold_left_id : forall A S (step : S -> A -> S) l s,
  (forall a s', In a l -> step s' a = s') -> fold_left step l s = s.
Proof.
  intros A S step l. induction l as [|a r IH]; intros s H; cbn [fold_left]; [reflexivity|].
  rewrite (H a s (or_introl eq_refl)). apply IH. intros a' s' Ha'. apply H. right. exact Ha'.
Qed.
Lemma NoDup_split_notin : forall A (pre suf : list A) a, NoDup (pre ++ a :: suf) -> ~ In a pre.
Proof.
  intros A pre suf a H Hin. apply NoDup_remove_2 in H. apply H. apply in_or_app. left. exact Hin.
Qed.
Lemma filter_filter' : forall A (f g : A -> bool) l, filter f (filter g l) = filter (fun x => g x && f x) l.
Proof.
  intros A f g l. induction l as [|x r IH]; cbn [filter]; [reflexivity|].
  destruct (g x); cbn [filter andb]; [destruct (f x)|]; rewrite IH; reflexivity.
Qed.
Lemma flat_map_map' : forall A B C (f : B -> list C) (g : A -> B) l, flat_map f (map g l) = flat_map (fun x => f (g x)) l.
Proof. intros. induction l as [|x r IH]; cbn [map flat_map]; [reflexivity|]. rewrite IH. reflexivity. Qed.
Lemma flat_map_flat_map : forall A B C (f : B -> list C) (g : A -> list B) l,
  flat_map f (flat_map g l) = flat_map (fun x => flat_map f (g x)) l.
Proof.
  intros. induction l as [|x r IH]; cbn [flat_map]; [reflexivity|]. rewrite flat_map_app, IH. reflexivity.
Qed.
Lemma flat_map_ext_in' : forall A B (f g : A -> list B) l,
  (forall a, In a l -> f a = g a) -> flat_map f l = flat_map g l.
Proof.
  intros A B f g l. induction l as [|x r IH]; intros H; cbn [flat_map]; [reflexivity|].
  rewrite (H x (or_introl eq_refl)), IH; [reflexivity|]. intros a Ha. apply H. right. exact Ha.
Qed.
Lemma flat_map_filter_map : forall A B (f : A -> bool) (g : A -> B) l,
  flat_map (fun x => if f x then [g x] else []) l = map g (filter f l).
Proof.
  intros. induction l as [|x r IH]; cbn [flat_map filter]; [reflexivity|].
  destruct (f x); cbn [app map]; rewrite IH; reflexivity.
Qed.

(* ---------- arrival orders ---------- *)
Lemma is_perm_Permutation : forall len p, is_perm len p = true -> Permutation p (seq 0 len).
Proof.
  intros len p H. unfold is_perm in H. apply andb_true_iff in H. destruct H as [Hl Hall].
  apply Nat.eqb_eq in Hl. rewrite forallb_forall in Hall. symmetry.
  apply NoDup_Permutation_bis; [apply seq_NoDup|rewrite seq_length; lia|].
  intros k Hk. specialize (Hall k Hk). apply existsb_exists in Hall. destruct Hall as [k' [Hin He]].
  apply Nat.eqb_eq in He. subst. exact Hin.
Qed.
Lemma arrival_seq : forall A (all pre : list A),
  arrival (pre ++ all) (seq (length pre) (length all)) = all.
Proof.
  intros A all. induction all as [|x r IH]; intros pre; cbn [length seq]; [reflexivity|].
  unfold arrival. cbn [flat_map]. rewrite nth_error_app2 by lia. rewrite Nat.sub_diag. cbn [nth_error app].
  f_equal. specialize (IH (pre ++ [x])). rewrite app_length in IH. cbn [length] in IH.
  rewrite Nat.add_1_r, <- app_assoc in IH. exact IH.
Qed.
Lemma arrival_Permutation : forall A (all : list A) perm,
  is_perm (length all) perm = true -> Permutation (arrival all perm) all.
Proof.
  intros A all perm H. apply is_perm_Permutation in H.
  rewrite <- (arrival_seq A all []) at 2. cbn [app length]. unfold arrival.
  apply Permutation_flat_map. exact H.
Qed.

Section Crash.
  Variable c : cfg.
  Variable K : N -> N.

  Definition alive (p i : N) : bool := (p =? 0) || (p <? K i).
  Definition dom (p i j : N) : bool := in_group c j && alive p j && negb (j =? i).
  Definition inc (p0 p1 : N) : list N := filter (fun m => alive p0 m && negb (alive p1 m)) (members c).

  Lemma alive_mono : forall p0 p1 i, p0 <= p1 -> alive p1 i = true -> alive p0 i = true.
  Proof.
    intros p0 p1 i Hle. unfold alive. rewrite !orb_true_iff, !N.eqb_eq, !N.ltb_lt. lia.
  Qed.
  Lemma members_in_group : forall m, In m (members c) <-> in_group c m = true.
  Proof.
    intros m. split; [|apply in_group_members].
    unfold members. rewrite in_map_iff. intros [k [Hk Hin]]. apply in_seq in Hin. subst.
    unfold in_group. apply andb_true_iff. split; apply N.leb_le; lia.
  Qed.
  Lemma memN_filter_members : forall f m, memN m (filter f (members c)) = in_group c m && f m.
  Proof.
    intros f m. apply bool_eq_iff. rewrite memN_In, filter_In, andb_true_iff, members_in_group. reflexivity.
  Qed.
  Lemma memN_inc : forall p0 p1 m, memN m (inc p0 p1) = in_group c m && (alive p0 m && negb (alive p1 m)).
  Proof. intros. apply memN_filter_members. Qed.
  (* ---------- exact form of MarkInactiveMembers ---------- *)
  Lemma set_ia_eta : forall s, set_ia (ia s) s = s.
  Proof. intros []. reflexivity. Qed.
  Lemma mi_fold_exact : forall active L s,
    NoDup L -> (forall m, In m L -> is_operating c s m = true) ->
    fold_left (mi_step c active) L s
    = set_ia (ia s ++ filter (fun m => negb (N.eqb m (me s) || memN m active)) L) s.
  Proof.
    intros active L. induction L as [|m r IH]; intros s Hnd Hop.
    - cbn. rewrite app_nil_r. symmetry. apply set_ia_eta.
    - cbn [fold_left filter]. inversion Hnd as [|? ? Hnin Hnd']. subst.
      unfold mi_step at 2. destruct (N.eqb m (me s) || memN m active) eqn:E; cbn [negb].
      + apply IH; [exact Hnd'|]. intros m' Hm'. apply Hop. right. exact Hm'.
      + unfold mark_ia. rewrite (Hop m (or_introl eq_refl)).
        set (s1 := set_ia (ia s ++ [m]) s).
        assert (Hop1 : forall m', In m' r -> is_operating c s1 m' = true).
        { intros m' Hm'. specialize (Hop m' (or_intror Hm')). unfold is_operating in *.
          change (ia s1) with (ia s ++ [m]). change (dq s1) with (dq s).
          apply andb_true_iff in Hop. destruct Hop as [Hop Hd]. apply andb_true_iff in Hop. destruct Hop as [Hg Hi].
          rewrite Hg, Hd, memN_app. apply negb_true_iff in Hi. rewrite Hi. cbn.
          destruct (N.eqb m' m) eqn:E'; [|reflexivity].
          apply N.eqb_eq in E'. subst. contradiction. }
        rewrite (IH s1 Hnd' Hop1). change (ia s1) with (ia s ++ [m]). change (me s1) with (me s).
        rewrite <- app_assoc. reflexivity.
  Qed.

  (* under crash faults: the member's IA list is [IAl] (exactly the seats not alive at p0), nobody
     is disqualified, the senders heard are exactly the seats alive at p1 *)
  Lemma mark_inactive_crash : forall p0 p1 i IAl active s,
    me s = i -> dq s = [] -> ia s = IAl ->
    (forall m, in_group c m = true -> memN m IAl = negb (alive p0 m)) ->
    (forall m, in_group c m = true -> memN m active = alive p1 m && negb (m =? i)) ->
    alive p1 i = true ->
    mark_inactive c active s = set_ia (IAl ++ inc p0 p1) s.
  Proof.
    intros p0 p1 i IAl active s Hme Hdq Hia HIA Hact Hi.
    unfold mark_inactive.
    change (fun (s0 : mstate) (m : N) => if N.eqb m (me s0) || memN m active then s0 else mark_ia c m s0)
      with (mi_step c active).
    rewrite mi_fold_exact.
    - f_equal. rewrite Hia. f_equal. unfold operating, inc. rewrite filter_filter'.
      apply filter_ext_in. intros m Hm. apply members_in_group in Hm.
      unfold is_operating. rewrite Hm, Hdq, Hia, (HIA m Hm), (Hact m Hm), Hme. cbn [memN existsb negb andb].
      rewrite negb_involutive. destruct (N.eqb m i) eqn:E; cbn [orb negb andb].
      + apply N.eqb_eq in E. rewrite E, Hi. destruct (alive p0 i); reflexivity.
      + destruct (alive p0 m), (alive p1 m); reflexivity.
    - unfold operating. apply NoDup_filter. apply members_NoDup.
    - intros m Hm. unfold operating in Hm. apply filter_In in Hm. apply Hm.
  Qed.

  (* ---------- inboxes: exact form of a phase's Receive loop ---------- *)
  Definition sel {T} (ext : msg -> option (N * N * T)) (s : mstate) (L : list netmsg) : list (N * T) :=
    flat_map (fun m => match ext (payload m) with
                       | Some (a, ss, v) => if accepts c s a ss (from_key m) then [(a, v)] else []
                       | None => []
                       end) L.
  Definition x_eph (m : msg) := match m with EphPub a ss v => Some (a, ss, v) | _ => None end.
  Definition x_sh (m : msg) := match m with Shares a ss v => Some (a, ss, v) | _ => None end.
  Definition x_cm (m : msg) := match m with Commits a ss v => Some (a, ss, v) | _ => None end.
  Definition x_sacc (m : msg) := match m with SAccuse a ss v => Some (a, ss, v) | _ => None end.
  Definition x_pts (m : msg) := match m with Points a ss v => Some (a, ss, v) | _ => None end.
  Definition x_pacc (m : msg) := match m with PAccuse a ss v => Some (a, ss, v) | _ => None end.
  Definition x_rev (m : msg) := match m with Reveal a ss v => Some (a, ss, v) | _ => None end.

  Lemma sel_view : forall T (ext : msg -> option (N * N * T)) s s' L,
    me s' = me s -> ia s' = ia s -> dq s' = dq s -> sel ext s' L = sel ext s L.
  Proof.
    intros T ext s s' L H1 H2 H3. unfold sel. apply flat_map_ext. intros m.
    destruct (ext (payload m)) as [[[a ss] v]|]; [|reflexivity].
    rewrite (accepts_view c s s'); auto.
  Qed.
  Lemma sel_app : forall T (ext : msg -> option (N * N * T)) s L1 L2, sel ext s (L1 ++ L2) = sel ext s L1 ++ sel ext s L2.
  Proof. intros. unfold sel. apply flat_map_app. Qed.
  Lemma sel_Permutation : forall T (ext : msg -> option (N * N * T)) s L1 L2,
    Permutation L1 L2 -> Permutation (sel ext s L1) (sel ext s L2).
  Proof. intros. unfold sel. apply Permutation_flat_map. assumption. Qed.

  Lemma eta_in_eph : forall s, set_in_eph (in_eph s) s = s. Proof. intros []. reflexivity. Qed.
  Lemma eta_in_sh_cm : forall s, set_in_sh (in_sh s) (set_in_cm (in_cm s) s) = s. Proof. intros []. reflexivity. Qed.
  Lemma eta_in_sacc : forall s, set_in_sacc (in_sacc s) s = s. Proof. intros []. reflexivity. Qed.
  Lemma eta_in_pts : forall s, set_in_pts (in_pts s) s = s. Proof. intros []. reflexivity. Qed.
  Lemma eta_in_pacc : forall s, set_in_pacc (in_pacc s) s = s. Proof. intros []. reflexivity. Qed.
  Lemma eta_in_rev : forall s, set_in_rev (in_rev s) s = s. Proof. intros []. reflexivity. Qed.

  Lemma sel_cons : forall T (ext : msg -> option (N * N * T)) s a L,
    sel ext s (a :: L)
    = match ext (payload a) with
      | Some (x, ss, v) => if accepts c s x ss (from_key a) then [(x, v)] else []
      | None => []
      end ++ sel ext s L.
  Proof. reflexivity. Qed.

  Ltac recv_tac IH a s :=
    cbn [fold_left]; rewrite IH; rewrite !sel_cons; unfold receive;
    destruct (payload a) as [x ss v|x ss v|x ss v|x ss v|x ss v|x ss v|x ss v];
    cbn [x_eph x_sh x_cm x_sacc x_pts x_pacc x_rev];
    try reflexivity;
    (destruct (accepts c s x ss (from_key a)) eqn:Eacc; [|reflexivity]).

  Lemma fold_receive_1 : forall L s,
    fold_left (receive c 1) L s = set_in_eph (in_eph s ++ sel x_eph s L) s.
  Proof.
    induction L as [|a L IH]; intros s.
    - cbn. rewrite app_nil_r. symmetry. apply eta_in_eph.
    - recv_tac IH a s.
      rewrite (sel_view _ x_eph s (set_in_eph (in_eph s ++ [(x, v)]) s)) by reflexivity.
      cbn [in_eph set_in_eph]. rewrite <- app_assoc. reflexivity.
  Qed.
  Lemma fold_receive_3 : forall L s,
    fold_left (receive c 3) L s
    = set_in_sh (in_sh s ++ sel x_sh s L) (set_in_cm (in_cm s ++ sel x_cm s L) s).
  Proof.
    induction L as [|a L IH]; intros s.
    - cbn. rewrite !app_nil_r. symmetry. apply eta_in_sh_cm.
    - recv_tac IH a s.
      + rewrite (sel_view _ x_sh s (set_in_sh (in_sh s ++ [(x, v)]) s)) by reflexivity.
        rewrite (sel_view _ x_cm s (set_in_sh (in_sh s ++ [(x, v)]) s)) by reflexivity.
        cbn [in_sh in_cm set_in_sh set_in_cm]. rewrite <- app_assoc. reflexivity.
      + rewrite (sel_view _ x_sh s (set_in_cm (in_cm s ++ [(x, v)]) s)) by reflexivity.
        rewrite (sel_view _ x_cm s (set_in_cm (in_cm s ++ [(x, v)]) s)) by reflexivity.
        cbn [in_sh in_cm set_in_sh set_in_cm]. rewrite <- app_assoc. reflexivity.
  Qed.
  Lemma fold_receive_4 : forall L s,
    fold_left (receive c 4) L s = set_in_sacc (in_sacc s ++ sel x_sacc s L) s.
  Proof.
    induction L as [|a L IH]; intros s.
    - cbn. rewrite app_nil_r. symmetry. apply eta_in_sacc.
    - recv_tac IH a s.
      rewrite (sel_view _ x_sacc s (set_in_sacc (in_sacc s ++ [(x, v)]) s)) by reflexivity.
      cbn [in_sacc set_in_sacc]. rewrite <- app_assoc. reflexivity.
  Qed.
  Lemma fold_receive_7 : forall L s,
    fold_left (receive c 7) L s = set_in_pts (in_pts s ++ sel x_pts s L) s.
  Proof.
    induction L as [|a L IH]; intros s.
    - cbn. rewrite app_nil_r. symmetry. apply eta_in_pts.
    - recv_tac IH a s.
      rewrite (sel_view _ x_pts s (set_in_pts (in_pts s ++ [(x, v)]) s)) by reflexivity.
      cbn [in_pts set_in_pts]. rewrite <- app_assoc. reflexivity.
  Qed.
  Lemma fold_receive_8 : forall L s,
    fold_left (receive c 8) L s = set_in_pacc (in_pacc s ++ sel x_pacc s L) s.
  Proof.
    induction L as [|a L IH]; intros s.
    - cbn. rewrite app_nil_r. symmetry. apply eta_in_pacc.
    - recv_tac IH a s.
      rewrite (sel_view _ x_pacc s (set_in_pacc (in_pacc s ++ [(x, v)]) s)) by reflexivity.
      cbn [in_pacc set_in_pacc]. rewrite <- app_assoc. reflexivity.
  Qed.
  Lemma fold_receive_10 : forall L s,
    fold_left (receive c 10) L s = set_in_rev (in_rev s ++ sel x_rev s L) s.
  Proof.
    induction L as [|a L IH]; intros s.
    - cbn. rewrite app_nil_r. symmetry. apply eta_in_rev.
    - recv_tac IH a s.
      rewrite (sel_view _ x_rev s (set_in_rev (in_rev s ++ [(x, v)]) s)) by reflexivity.
      cbn [in_rev set_in_rev]. rewrite <- app_assoc. reflexivity.
  Qed.
  Variable ids : list N.
  Hypothesis Hops : length (ops c) = N.to_nat (gn c).
  Hypothesis Hids_nd : NoDup ids.
  Hypothesis Hids_in : forall i, In i ids <-> in_group c i = true.

  Lemma ids_perm : Permutation ids (members c).
  Proof.
    apply NoDup_Permutation; [exact Hids_nd|apply members_NoDup|].
    intros x. rewrite Hids_in, members_in_group. reflexivity.
  Qed.
  Lemma valid_membership_ok : forall i, in_group c i = true -> valid_membership c i (op_key c i) = true.
  Proof.
    intros i Hi. unfold in_group in Hi. apply andb_true_iff in Hi. destruct Hi as [H1 H2].
    apply N.leb_le in H1. apply N.leb_le in H2. unfold valid_membership, op_key.
    destruct (N.eqb i 0) eqn:E; [apply N.eqb_eq in E; lia|].
    destruct (nth_error (ops c) (N.to_nat (i - 1))) eqn:En; [apply N.eqb_refl|].
    apply nth_error_None in En. lia.
  Qed.

End Crash.
