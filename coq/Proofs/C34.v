(* C34 — proofs about the model of DetermineWalletMainUtxo / EnsureWalletSyncedBetweenChains
   (Model/C34.v).  The statements restated in Props/C34.v are the theorems at the end. *)
From Coq Require Import ZArith NArith List Bool Lia.
From KV Require Import Common.Verdict Model.C34.
Import ListNotations.

(* ------------------------------------------------------------------ *)
(* boolean equalities                                                  *)
(* ------------------------------------------------------------------ *)
Lemma bytes_eqb_eq (a : list N) : forall b, bytes_eqb a b = true <-> a = b.
Proof.
  induction a as [|x a IH]; intros [|y b]; cbn [bytes_eqb]; split; intro H;
    try reflexivity; try discriminate.
  - apply andb_true_iff in H. destruct H as [H1 H2]. apply N.eqb_eq in H1. apply IH in H2.
    subst; reflexivity.
  - inversion H; subst. apply andb_true_iff. split; [apply N.eqb_refl|apply IH; reflexivity].
Qed.

Lemma utxo_eqb_eq (a b : utxo) : utxo_eqb a b = true <-> a = b.
Proof.
  unfold utxo_eqb. destruct a as [a1 a2 a3], b as [b1 b2 b3]; cbn [u_tx u_idx u_val].
  rewrite !andb_true_iff, !N.eqb_eq, Z.eqb_eq. split.
  - intros [[-> ->] ->]. reflexivity.
  - intro H; inversion H; subst. repeat split.
Qed.

Lemma existsb_utxo_In (m : utxo) (l : list utxo) : existsb (utxo_eqb m) l = true <-> In m l.
Proof.
  rewrite existsb_exists. split.
  - intros [x [Hin He]]. apply utxo_eqb_eq in He. subst. exact Hin.
  - intro Hin. exists m. split; [exact Hin|apply utxo_eqb_eq; reflexivity].
Qed.

Definition wallet_script (pkh s : list N) : Prop := s = p2pkh pkh \/ s = p2wpkh pkh.

Lemma wallet_out_iff (pkh : list N) (o : output) :
  wallet_out pkh o = true <-> wallet_script pkh (o_script o).
Proof.
  unfold wallet_out, wallet_script. rewrite orb_true_iff, !bytes_eqb_eq. reflexivity.
Qed.

Section P.
  Variable hash : utxo -> N.
  Variable lookup : N -> option tx.
  Variable is_dep is_req : N * N -> look.

  (* [u] is output number [idx] of [t], pays the wallet and hashes to [reg] *)
  Definition cand_in (pkh : list N) (reg : N) (t : tx) (u : utxo) : Prop :=
    exists idx o, nth_error (t_outs t) idx = Some o /\ wallet_script pkh (o_script o) /\
                  u = mk_utxo t (N.of_nat idx) o /\ hash u = reg.
  Definition candidate (pkh : list N) (reg : N) (hs : list N) (u : utxo) : Prop :=
    exists h t, In h hs /\ lookup h = Some t /\ cand_in pkh reg t u.

  Lemma candidates_of_spec pkh reg t (outs : list output) : forall base u,
    In u (candidates_of hash pkh reg t base outs) <->
    exists k o, nth_error outs k = Some o /\ wallet_script pkh (o_script o) /\
                u = mk_utxo t (base + N.of_nat k)%N o /\ hash u = reg.
  Proof.
    induction outs as [|o rest IH]; intros base u; cbn [candidates_of].
    - split; [intros []|]. intros [k [o [Hn _]]]. destruct k; discriminate.
    - rewrite in_app_iff, IH. split.
      + intros [H|[k [o' [Hn [Hw [Hu Hh]]]]]].
        * destruct (wallet_out pkh o && N.eqb (hash (mk_utxo t base o)) reg) eqn:E; [|destruct H].
          destruct H as [H|[]]. subst u. apply andb_true_iff in E. destruct E as [E1 E2].
          exists 0%nat, o. cbn [nth_error]. rewrite N.add_0_r.
          repeat split; [apply wallet_out_iff; exact E1|apply N.eqb_eq; exact E2].
        * exists (S k), o'. cbn [nth_error]. repeat split; try assumption.
          rewrite Hu. f_equal. lia.
      + intros [k [o' [Hn [Hw [Hu Hh]]]]]. destruct k as [|k]; cbn [nth_error] in Hn.
        * inversion Hn; subst o'. left. rewrite N.add_0_r in Hu.
          assert (wallet_out pkh o && N.eqb (hash (mk_utxo t base o)) reg = true) as ->.
          { apply andb_true_iff. split; [apply wallet_out_iff; exact Hw|].
            apply N.eqb_eq. rewrite <- Hu. exact Hh. }
          left. symmetry; exact Hu.
        * right. exists k, o'. repeat split; try assumption. rewrite Hu. f_equal. lia.
  Qed.

  Lemma candidates_of_cand_in pkh reg t u :
    In u (candidates_of hash pkh reg t 0%N (t_outs t)) <-> cand_in pkh reg t u.
  Proof. rewrite candidates_of_spec. unfold cand_in. reflexivity. Qed.

  Lemma candidates_spec pkh reg hs u :
    In u (candidates hash lookup pkh reg hs) <-> candidate pkh reg hs u.
  Proof.
    unfold candidates, candidate. rewrite in_flat_map. split.
    - intros [h [Hin Hu]]. destruct (lookup h) as [t|] eqn:El; [|destruct Hu].
      exists h, t. repeat split; try assumption. apply candidates_of_cand_in; exact Hu.
    - intros [h [t [Hin [El Hc]]]]. exists h. split; [exact Hin|]. rewrite El.
      apply candidates_of_cand_in; exact Hc.
  Qed.

  (* the inner loop returns the first candidate of the transaction *)
  Lemma scan_outs_hd pkh reg t (outs : list output) : forall base,
    scan_outs hash pkh reg t base outs = hd_error (candidates_of hash pkh reg t base outs).
  Proof.
    induction outs as [|o rest IH]; intro base; cbn [scan_outs candidates_of]; [reflexivity|].
    destruct (wallet_out pkh o && N.eqb (hash (mk_utxo t base o)) reg); [reflexivity|].
    cbn [app]. apply IH.
  Qed.

  Lemma all_resolve_spec hs :
    all_resolve lookup hs = true <-> forall h, In h hs -> lookup h <> None.
  Proof.
    unfold all_resolve. rewrite forallb_forall. split; intros H h Hin; specialize (H h Hin).
    - destruct (lookup h); [discriminate|discriminate H].
    - destruct (lookup h); [reflexivity|exfalso; apply H; reflexivity].
  Qed.

  (* what the outer loop returns, for any visiting order *)
  Lemma scan_txs_spec pkh reg hs :
    match scan_txs hash lookup pkh reg hs with
    | DUtxo u => candidate pkh reg hs u
    | DNotFound => (forall h, In h hs -> lookup h <> None) /\ forall u, ~ candidate pkh reg hs u
    | DChainErr => exists h, In h hs /\ lookup h = None
    | DNone | DPanic => False
    end.
  Proof.
    induction hs as [|h rest IH]; cbn [scan_txs].
    - split; [intros h []|]. intros u [h [t [[] _]]].
    - destruct (lookup h) as [t|] eqn:El.
      + rewrite scan_outs_hd.
        destruct (candidates_of hash pkh reg t 0%N (t_outs t)) as [|u0 l0] eqn:Ec; cbn [hd_error].
        * destruct (scan_txs hash lookup pkh reg rest) as [|u| | |].
          -- exact IH.
          -- destruct IH as [h' [t' [Hin Hr]]]. exists h', t'. split; [right; exact Hin|exact Hr].
          -- destruct IH as [Hres Hno]. split.
             ++ intros h' [->|Hin]; [rewrite El; discriminate|apply Hres; exact Hin].
             ++ intros u [h' [t' [[<-|Hin] [El' Hc]]]].
                ** rewrite El in El'. inversion El'; subst t'.
                   apply candidates_of_cand_in in Hc. rewrite Ec in Hc. exact Hc.
                ** apply (Hno u). exists h', t'. repeat split; assumption.
          -- destruct IH as [h' [Hin Hn]]. exists h'. split; [right; exact Hin|exact Hn].
          -- exact IH.
        * exists h, t. split; [left; reflexivity|]. split; [exact El|].
          apply candidates_of_cand_in. rewrite Ec. left; reflexivity.
      + exists h. split; [left; reflexivity|exact El].
  Qed.

  Lemma candidate_perm pkh reg hs hs' u :
    (forall h, In h hs <-> In h hs') -> candidate pkh reg hs u -> candidate pkh reg hs' u.
  Proof.
    intros Hp [h [t [Hin Hr]]]. exists h, t. split; [apply Hp; exact Hin|exact Hr].
  Qed.

  (* ---------------- DetermineWalletMainUtxo ---------------- *)
  Definition det_spec (pkh : list N) (wallet : option N) (hashes : option (list N))
             (r : det_res) : Prop :=
    match r with
    | DNone => wallet = Some 0%N
    | DUtxo u => exists reg hs, wallet = Some reg /\ reg <> 0%N /\ hashes = Some hs /\
                                candidate pkh reg hs u
    | DNotFound => exists reg hs, wallet = Some reg /\ reg <> 0%N /\ hashes = Some hs /\
                                  forall u, ~ candidate pkh reg hs u
    | DChainErr => wallet = None \/
                   exists reg, wallet = Some reg /\ reg <> 0%N /\
                               (hashes = None \/
                                exists hs h, hashes = Some hs /\ In h hs /\ lookup h = None)
    | DPanic => False
    end.

  Theorem determine_spec pkh wallet hashes :
    det_spec pkh wallet hashes (determine hash lookup pkh wallet hashes).
  Proof.
    unfold determine. destruct wallet as [reg|]; [|left; reflexivity].
    destruct (N.eqb reg 0) eqn:Er.
    - apply N.eqb_eq in Er. subst. reflexivity.
    - apply N.eqb_neq in Er. destruct hashes as [hs|].
      + pose proof (scan_txs_spec pkh reg (rev hs)) as H.
        assert (Hp : forall h, In h (rev hs) <-> In h hs) by (intro h; symmetry; apply in_rev).
        destruct (scan_txs hash lookup pkh reg (rev hs)) as [|u| | |]; cbn [det_spec].
        * destruct H.
        * exists reg, hs. repeat split; try assumption. eapply candidate_perm; eassumption.
        * exists reg, hs. repeat split; try assumption. intros u Hc. apply (proj2 H u).
          eapply candidate_perm; [|exact Hc]. intro h; symmetry; apply Hp.
        * right. exists reg. repeat split; try assumption. right.
          destruct H as [h [Hin Hn]]. exists hs, h. repeat split; try assumption. apply Hp; exact Hin.
        * destruct H.
      + right. exists reg. repeat split; try assumption. left; reflexivity.
  Qed.

  Theorem determine_none_iff pkh reg hashes :
    determine hash lookup pkh (Some reg) hashes = DNone <-> reg = 0%N.
  Proof.
    split.
    - intro H. pose proof (determine_spec pkh (Some reg) hashes) as S. rewrite H in S.
      cbn [det_spec] in S. inversion S; reflexivity.
    - intros ->. reflexivity.
  Qed.

  (* with a registered hash and an answering Bitcoin client: found iff such an output exists,
     "main UTXO not found" iff none *)
  Theorem determine_found_iff pkh reg hs :
    reg <> 0%N -> (forall h, In h hs -> lookup h <> None) ->
    ((exists u, determine hash lookup pkh (Some reg) (Some hs) = DUtxo u) <->
     (exists u, candidate pkh reg hs u)) /\
    (determine hash lookup pkh (Some reg) (Some hs) = DNotFound <->
     (forall u, ~ candidate pkh reg hs u)).
  Proof.
    intros Hr Hres.
    pose proof (determine_spec pkh (Some reg) (Some hs)) as S.
    destruct (determine hash lookup pkh (Some reg) (Some hs)) as [|u| | |] eqn:E; cbn [det_spec] in S.
    - inversion S. congruence.
    - destruct S as [reg' [hs' [E1 [_ [E2 Hc]]]]]. inversion E1; inversion E2; subst reg' hs'.
      split; split.
      + intros _. exists u; exact Hc.
      + intros _. exists u; reflexivity.
      + discriminate.
      + intro Hno. exfalso. exact (Hno u Hc).
    - destruct S as [reg' [hs' [E1 [_ [E2 Hno]]]]]. inversion E1; inversion E2; subst reg' hs'.
      split; split.
      + intros [u Hu]; discriminate.
      + intros [u Hc]. exfalso. exact (Hno u Hc).
      + intros _. exact Hno.
      + reflexivity.
    - exfalso. destruct S as [S|[reg' [E1 [_ [S|[hs' [h [E2 [Hin Hn]]]]]]]]]; try discriminate.
      inversion E2; subst hs'. exact (Hres h Hin Hn).
    - destruct S.
  Qed.

  (* when the bridge hash separates the wallet's outputs, the answer is THE registered UTXO *)
  Theorem determine_unique pkh reg hs u :
    (forall a b, candidate pkh (hash a) hs a -> candidate pkh (hash b) hs b ->
                 hash a = hash b -> a = b) ->
    determine hash lookup pkh (Some reg) (Some hs) = DUtxo u ->
    forall v, candidate pkh reg hs v -> v = u.
  Proof.
    intros Hinj E v Hv.
    pose proof (determine_spec pkh (Some reg) (Some hs)) as S. rewrite E in S. cbn [det_spec] in S.
    destruct S as [reg' [hs' [E1 [_ [E2 Hc]]]]]. inversion E1; inversion E2; subst reg' hs'.
    assert (Hhv : hash v = reg) by (destruct Hv as [? [? [_ [_ [? [? [_ [_ [_ H]]]]]]]]]; exact H).
    assert (Hhu : hash u = reg) by (destruct Hc as [? [? [_ [_ [? [? [_ [_ [_ H]]]]]]]]]; exact H).
    apply Hinj; [rewrite Hhv; exact Hv|rewrite Hhu; exact Hc|congruence].
  Qed.

  Theorem det_ok_sound pkh wallet hashes r :
    det_ok hash lookup pkh wallet hashes r = true -> det_spec pkh wallet hashes r.
  Proof.
    destruct r as [|u| | |]; cbn [det_ok det_spec].
    - destruct wallet as [reg|]; [|discriminate]. intro H. apply N.eqb_eq in H. subst; reflexivity.
    - destruct wallet as [reg|]; [|discriminate]. destruct hashes as [hs|]; [|discriminate].
      intro H. apply andb_true_iff in H. destruct H as [H1 H2].
      apply negb_true_iff, N.eqb_neq in H1. apply existsb_utxo_In, candidates_spec in H2.
      exists reg, hs. repeat split; assumption.
    - destruct wallet as [reg|]; [|discriminate]. destruct hashes as [hs|]; [|discriminate].
      intro H. apply andb_true_iff in H. destruct H as [H1 H2].
      apply negb_true_iff, N.eqb_neq in H1.
      exists reg, hs. repeat split; try assumption. intros u Hc. apply candidates_spec in Hc.
      destruct (candidates hash lookup pkh reg hs); [destruct Hc|discriminate].
    - destruct wallet as [reg|]; [|intros _; left; reflexivity].
      destruct hashes as [hs|]; intro H.
      + apply andb_true_iff in H. destruct H as [H1 H2].
        apply negb_true_iff, N.eqb_neq in H1. apply negb_true_iff in H2.
        right. exists reg. repeat split; try assumption. right.
        unfold all_resolve in H2.
        assert (exists h, In h hs /\ lookup h = None) as [h [Hin Hn]].
        { clear -H2. induction hs as [|h t IH]; cbn [forallb] in H2; [discriminate|].
          destruct (lookup h) eqn:E.
          - cbn [andb] in H2. destruct (IH H2) as [h' [Hin Hn]]. exists h'. split; [right|]; assumption.
          - exists h. split; [left; reflexivity|exact E]. }
        exists hs, h. repeat split; assumption.
      + apply negb_true_iff, N.eqb_neq in H. right. exists reg. repeat split; try assumption.
        left; reflexivity.
    - discriminate.
  Qed.

  Theorem determine_passes pkh wallet hashes :
    det_ok hash lookup pkh wallet hashes (determine hash lookup pkh wallet hashes) = true.
  Proof.
    unfold determine. destruct wallet as [reg|]; [|reflexivity].
    destruct (N.eqb reg 0) eqn:Er; [cbn [det_ok]; exact Er|].
    destruct hashes as [hs|]; [|cbn [det_ok]; rewrite Er; reflexivity].
    pose proof (scan_txs_spec pkh reg (rev hs)) as H.
    assert (Hp : forall h, In h (rev hs) <-> In h hs) by (intro h; symmetry; apply in_rev).
    destruct (scan_txs hash lookup pkh reg (rev hs)) as [|u| | |]; cbn [det_ok]; rewrite ?Er; cbn [negb andb].
    - destruct H.
    - apply existsb_utxo_In, candidates_spec. eapply candidate_perm; eassumption.
    - destruct (candidates hash lookup pkh reg hs) as [|u l] eqn:Ec; [reflexivity|].
      exfalso. apply (proj2 H u). eapply candidate_perm; [intro h; symmetry; apply Hp|].
      apply candidates_spec. rewrite Ec. left; reflexivity.
    - apply negb_true_iff. destruct (all_resolve lookup hs) eqn:Ea; [|reflexivity].
      exfalso. destruct H as [h [Hin Hn]]. rewrite all_resolve_spec in Ea.
      apply (Ea h); [apply Hp; exact Hin|exact Hn].
    - destruct H.
  Qed.

  (* ---------------- EnsureWalletSyncedBetweenChains ---------------- *)
  (* [u] does not come from a transaction the wallet made itself (as far as the code looks) *)
  Definition clean (u : utxo) : Prop :=
    u_idx u <> 0%N \/
    exists t op, lookup (u_tx u) = Some t /\ t_in0 t = Some op /\
                 is_dep op = LNotFound /\ is_req op = LNotFound.

  Lemma classify_clean u : classify lookup is_dep is_req u = Clean <-> clean u.
  Proof.
    unfold classify, clean. destruct (N.eqb (u_idx u) 0) eqn:E; cbn [negb].
    - apply N.eqb_eq in E.
      assert (R : forall c : ucls, c <> Clean ->
                  (forall t op, lookup (u_tx u) = Some t -> t_in0 t = Some op ->
                                is_dep op = LNotFound -> is_req op = LNotFound -> False) ->
                  (c = Clean <-> (u_idx u <> 0%N \/
                     exists t op, lookup (u_tx u) = Some t /\ t_in0 t = Some op /\
                                  is_dep op = LNotFound /\ is_req op = LNotFound))).
      { intros c Hc Hf. split; [intro; contradiction|].
        intros [H|[t [op [E1 [E2 [E3 E4]]]]]]; [contradiction|]. exfalso. eapply Hf; eassumption. }
      destruct (lookup (u_tx u)) as [t|] eqn:El.
      + destruct (t_in0 t) as [op|] eqn:Ei.
        * destruct (is_dep op) eqn:Ed.
          -- apply R; [discriminate|]. intros t' op' E1 E2 E3 E4.
             inversion E1; subst t'. rewrite Ei in E2. inversion E2; subst op'. congruence.
          -- destruct (is_req op) eqn:Eq.
             ++ apply R; [discriminate|]. intros t' op' E1 E2 E3 E4.
                inversion E1; subst t'. rewrite Ei in E2. inversion E2; subst op'. congruence.
             ++ split; [|reflexivity]. intros _. right. exists t, op. repeat split; assumption.
             ++ apply R; [discriminate|]. intros t' op' E1 E2 E3 E4.
                inversion E1; subst t'. rewrite Ei in E2. inversion E2; subst op'. congruence.
          -- apply R; [discriminate|]. intros t' op' E1 E2 E3 E4.
             inversion E1; subst t'. rewrite Ei in E2. inversion E2; subst op'. congruence.
        * apply R; [discriminate|]. intros t' op' E1 E2 E3 E4.
          inversion E1; subst t'. congruence.
      + apply R; [discriminate|]. intros t' op' E1. discriminate.
    - apply N.eqb_neq in E. split; [intros _; left; exact E|reflexivity].
  Qed.

  Lemma fresh_scan_ok (all : list utxo) :
    fresh_scan lookup is_dep is_req all = SOk <-> forall u, In u all -> clean u.
  Proof.
    induction all as [|u rest IH]; cbn [fresh_scan].
    - split; [intros _ u []|reflexivity].
    - destruct (classify lookup is_dep is_req u) eqn:Ec.
      + rewrite IH. split.
        * intros H v [<-|Hin]; [apply classify_clean; exact Ec|apply H; exact Hin].
        * intros H v Hin. apply H. right; exact Hin.
      + split; [discriminate|]. intro H. specialize (H u (or_introl eq_refl)).
        apply classify_clean in H. congruence.
      + split; [discriminate|]. intro H. specialize (H u (or_introl eq_refl)).
        apply classify_clean in H. congruence.
      + split; [discriminate|]. intro H. specialize (H u (or_introl eq_refl)).
        apply classify_clean in H. congruence.
      + split; [discriminate|]. intro H. specialize (H u (or_introl eq_refl)).
        apply classify_clean in H. congruence.
  Qed.

  Definition sync_spec (main : option utxo) (conf mem : option (list utxo)) (r : sync_res)
    : Prop :=
    match conf with
    | None => r <> SOk
    | Some cu =>
        match main with
        | Some m => r = SOk <-> In m cu
        | None =>
            match mem with
            | None => r <> SOk
            | Some mu => r = SOk <-> forall u, In u (cu ++ mu) -> clean u
            end
        end
    end.

  Theorem sync_sound main conf mem :
    sync_spec main conf mem (sync lookup is_dep is_req main conf mem).
  Proof.
    unfold sync_spec, sync. destruct conf as [cu|]; [|discriminate].
    destruct main as [m|].
    - destruct cu as [|c0 cu'].
      + split; [discriminate|intros []].
      + remember (c0 :: cu') as cu.
        destruct (existsb (utxo_eqb m) (rev cu)) eqn:E.
        * split; [|reflexivity]. intros _. apply existsb_utxo_In in E. apply in_rev; exact E.
        * split; [discriminate|]. intro Hin. apply in_rev in Hin. apply existsb_utxo_In in Hin.
          congruence.
    - destruct mem as [mu|]; [|discriminate]. apply fresh_scan_ok.
  Qed.

  (* which error the check gives *)
  Theorem sync_error_kinds main conf mem :
    match sync lookup is_dep is_req main conf mem with
    | SErrNoUtxos => main <> None /\ conf = Some []
    | SErrSpent => exists m cu, main = Some m /\ conf = Some cu /\ cu <> [] /\ ~ In m cu
    | SErrDepositSweep =>
        main = None /\ exists cu mu u t op, conf = Some cu /\ mem = Some mu /\ In u (cu ++ mu) /\
          u_idx u = 0%N /\ lookup (u_tx u) = Some t /\ t_in0 t = Some op /\ is_dep op = LFound
    | SErrMovedSweep =>
        main = None /\ exists cu mu u t op, conf = Some cu /\ mem = Some mu /\ In u (cu ++ mu) /\
          u_idx u = 0%N /\ lookup (u_tx u) = Some t /\ t_in0 t = Some op /\
          is_dep op = LNotFound /\ is_req op = LFound
    | _ => True
    end.
  Proof.
    unfold sync. destruct conf as [cu|]; [|exact I]. destruct main as [m|].
    - destruct cu as [|c0 cu'].
      + split; [discriminate|reflexivity].
      + remember (c0 :: cu') as cu.
        destruct (existsb (utxo_eqb m) (rev cu)) eqn:E; [exact I|].
        exists m, cu. repeat split; [subst; discriminate|].
        intro Hin. apply in_rev in Hin. apply existsb_utxo_In in Hin. congruence.
    - destruct mem as [mu|]; [|exact I].
      assert (G : forall all,
        match fresh_scan lookup is_dep is_req all with
        | SErrDepositSweep => exists u t op, In u all /\
            u_idx u = 0%N /\ lookup (u_tx u) = Some t /\ t_in0 t = Some op /\ is_dep op = LFound
        | SErrMovedSweep => exists u t op, In u all /\
            u_idx u = 0%N /\ lookup (u_tx u) = Some t /\ t_in0 t = Some op /\
            is_dep op = LNotFound /\ is_req op = LFound
        | SErrNoUtxos | SErrSpent => False
        | _ => True
        end).
      { induction all as [|u rest IH]; cbn [fresh_scan]; [exact I|].
        destruct (classify lookup is_dep is_req u) eqn:Ec; try exact I.
        - destruct (fresh_scan lookup is_dep is_req rest); try exact I; try (destruct IH; fail).
          + destruct IH as [v [t [op [Hin H]]]]. exists v, t, op. split; [right; exact Hin|exact H].
          + destruct IH as [v [t [op [Hin H]]]]. exists v, t, op. split; [right; exact Hin|exact H].
        - unfold classify in Ec. destruct (N.eqb (u_idx u) 0) eqn:E0; cbn [negb] in Ec; [|discriminate].
          apply N.eqb_eq in E0. destruct (lookup (u_tx u)) as [t|] eqn:El; [|discriminate].
          destruct (t_in0 t) as [op|] eqn:Ei; [|discriminate].
          destruct (is_dep op) eqn:Ed; try discriminate.
          + exists u, t, op. repeat split; try assumption. left; reflexivity.
          + destruct (is_req op); discriminate.
        - unfold classify in Ec. destruct (N.eqb (u_idx u) 0) eqn:E0; cbn [negb] in Ec; [|discriminate].
          apply N.eqb_eq in E0. destruct (lookup (u_tx u)) as [t|] eqn:El; [|discriminate].
          destruct (t_in0 t) as [op|] eqn:Ei; [|discriminate].
          destruct (is_dep op) eqn:Ed; try discriminate.
          destruct (is_req op) eqn:Eq; try discriminate.
          exists u, t, op. repeat split; try assumption. left; reflexivity. }
      specialize (G (cu ++ mu)).
      destruct (fresh_scan lookup is_dep is_req (cu ++ mu)); try exact I; try (destruct G; fail).
      + split; [reflexivity|]. destruct G as [u [t [op H]]]. exists cu, mu, u, t, op.
        repeat split; try reflexivity; apply H.
      + split; [reflexivity|]. destruct G as [u [t [op H]]]. exists cu, mu, u, t, op.
        repeat split; try reflexivity; apply H.
  Qed.

  (* the fresh-wallet rule when every chain lookup answers *)
  Theorem sync_fresh_no_errors cu mu :
    (forall u, In u (cu ++ mu) -> u_idx u = 0%N ->
       exists t op, lookup (u_tx u) = Some t /\ t_in0 t = Some op /\
                    is_dep op <> LErr /\ is_req op <> LErr) ->
    (sync lookup is_dep is_req None (Some cu) (Some mu) = SOk <->
     ~ exists u t op, In u (cu ++ mu) /\ u_idx u = 0%N /\ lookup (u_tx u) = Some t /\
                      t_in0 t = Some op /\ (is_dep op = LFound \/ is_req op = LFound)).
  Proof.
    intro Hans. pose proof (sync_sound None (Some cu) (Some mu)) as S. cbn [sync_spec] in S.
    rewrite S. split.
    - intros Hc [u [t [op [Hin [H0 [El [Ei Hf]]]]]]].
      destruct (Hc u Hin) as [Hn|[t' [op' [El' [Ei' [Hd Hq]]]]]]; [contradiction|].
      rewrite El in El'. inversion El'; subst t'. rewrite Ei in Ei'. inversion Ei'; subst op'.
      destruct Hf; congruence.
    - intros Hno u Hin. destruct (N.eq_dec (u_idx u) 0) as [H0|H0]; [|left; exact H0].
      right. destruct (Hans u Hin H0) as [t [op [El [Ei [Hd Hq]]]]]. exists t, op.
      repeat split; try assumption.
      + destruct (is_dep op) eqn:Ed; [|reflexivity|congruence].
        exfalso. apply Hno. exists u, t, op. repeat split; try assumption. left; exact Ed.
      + destruct (is_req op) eqn:Eq; [|reflexivity|congruence].
        exfalso. apply Hno. exists u, t, op. repeat split; try assumption. right; exact Eq.
  Qed.

  Lemma forallb_is_clean all :
    forallb (is_clean lookup is_dep is_req) all = true <-> forall u, In u all -> clean u.
  Proof.
    rewrite forallb_forall. split; intros H u Hin; specialize (H u Hin).
    - apply classify_clean. unfold is_clean in H.
      destruct (classify lookup is_dep is_req u); try discriminate; reflexivity.
    - apply classify_clean in H. unfold is_clean. rewrite H. reflexivity.
  Qed.

  Lemma eqb_passed_iff (r : sync_res) (b : bool) (P : Prop) :
    (b = true <-> P) ->
    Bool.eqb (match r with SOk => true | _ => false end) b = true -> (r = SOk <-> P).
  Proof.
    intros Hb H. apply eqb_prop in H. rewrite <- Hb, <- H.
    destruct r; split; intro X; try reflexivity; discriminate.
  Qed.

  Theorem sync_ok_sound main conf mem r :
    sync_ok lookup is_dep is_req main conf mem r = true -> sync_spec main conf mem r.
  Proof.
    unfold sync_ok, sync_spec. intro H.
    assert (Hnp : r <> SPanic) by (intro; subst; discriminate).
    assert (H' : match conf with
      | None => negb (match r with SOk => true | _ => false end)
      | Some cu =>
          match main with
          | Some m => Bool.eqb (match r with SOk => true | _ => false end) (existsb (utxo_eqb m) cu)
          | None => match mem with
                    | None => negb (match r with SOk => true | _ => false end)
                    | Some mu => Bool.eqb (match r with SOk => true | _ => false end)
                                          (forallb (is_clean lookup is_dep is_req) (cu ++ mu))
                    end
          end
      end = true) by (destruct r; try exact H; congruence).
    clear H. destruct conf as [cu|].
    - destruct main as [m|].
      + eapply eqb_passed_iff; [apply existsb_utxo_In|exact H'].
      + destruct mem as [mu|].
        * eapply eqb_passed_iff; [apply forallb_is_clean|exact H'].
        * intro; subst; discriminate.
    - intro; subst; discriminate.
  Qed.

  (* every transaction the Bitcoin client returns has at least one input *)
  Definition txs_have_inputs : Prop := forall h t, lookup h = Some t -> t_in0 t <> None.

  Lemma fresh_scan_no_panic all :
    txs_have_inputs -> fresh_scan lookup is_dep is_req all <> SPanic.
  Proof.
    intro Hin. induction all as [|u rest IH]; cbn [fresh_scan]; [discriminate|].
    destruct (classify lookup is_dep is_req u) eqn:Ec; try discriminate; [exact IH|].
    exfalso. unfold classify in Ec. destruct (negb (N.eqb (u_idx u) 0)); [discriminate|].
    destruct (lookup (u_tx u)) as [t|] eqn:El; [|discriminate].
    destruct (t_in0 t) as [op|] eqn:Ei; [|exact (Hin _ _ El Ei)].
    destruct (is_dep op); try discriminate. destruct (is_req op); discriminate.
  Qed.

  Theorem sync_passes main conf mem :
    txs_have_inputs ->
    sync_ok lookup is_dep is_req main conf mem (sync lookup is_dep is_req main conf mem) = true.
  Proof.
    intro Hin. unfold sync, sync_ok. destruct conf as [cu|]; [|reflexivity].
    destruct main as [m|].
    - destruct cu as [|c0 cu']; [reflexivity|]. remember (c0 :: cu') as cu.
      assert (E : existsb (utxo_eqb m) (rev cu) = existsb (utxo_eqb m) cu).
      { destruct (existsb (utxo_eqb m) cu) eqn:E1.
        - apply existsb_utxo_In. apply existsb_utxo_In in E1. apply in_rev in E1. exact E1.
        - destruct (existsb (utxo_eqb m) (rev cu)) eqn:E2; [|reflexivity].
          apply existsb_utxo_In in E2. apply in_rev in E2. apply existsb_utxo_In in E2. congruence. }
      rewrite E. destruct (existsb (utxo_eqb m) cu); reflexivity.
    - destruct mem as [mu|]; [|reflexivity].
      pose proof (fresh_scan_no_panic (cu ++ mu) Hin) as Hnp.
      pose proof (fresh_scan_ok (cu ++ mu)) as Hok. rewrite <- forallb_is_clean in Hok.
      destruct (fresh_scan lookup is_dep is_req (cu ++ mu)) eqn:Ef; try congruence;
        destruct (forallb (is_clean lookup is_dep is_req) (cu ++ mu)); try reflexivity;
        try (destruct Hok as [H1 H2]; specialize (H2 eq_refl); discriminate);
        try (destruct Hok as [H1 H2]; specialize (H1 eq_refl); discriminate).
  Qed.
End P.

Theorem model_outputs_pass_spec :
  forall hash lookup is_dep is_req pkh wallet hashes main conf mem,
    (forall h t, lookup h = Some t -> t_in0 t <> None) ->
    det_ok hash lookup pkh wallet hashes (determine hash lookup pkh wallet hashes) = true /\
    sync_ok lookup is_dep is_req main conf mem (sync lookup is_dep is_req main conf mem) = true.
Proof.
  intros hash lookup is_dep is_req pkh wallet hashes main conf mem H. split.
  - exact (determine_passes hash lookup pkh wallet hashes).
  - exact (sync_passes lookup is_dep is_req main conf mem H).
Qed.

(* ------------------------------------------------------------------ *)
(* hypotheses are satisfiable: a wallet with a spam output and a sweep  *)
(* ------------------------------------------------------------------ *)
Definition ex_pkh : list N := repeat 7%N 20.
Definition ex_sweep : tx :=
  {| t_id := 2; t_in0 := Some (9%N, 1%N); t_outs := [ {| o_script := p2wpkh ex_pkh; o_value := 5000 |} ] |}.
Definition ex_spam : tx :=
  {| t_id := 3; t_in0 := Some (8%N, 0%N);
     t_outs := [ {| o_script := [1%N]; o_value := 1 |}; {| o_script := p2pkh ex_pkh; o_value := 5000 |} ] |}.
Definition ex_lookup (h : N) : option tx :=
  if N.eqb h 2 then Some ex_sweep else if N.eqb h 3 then Some ex_spam else None.
Definition ex_hash (u : utxo) : N := (u_tx u * 10 + u_idx u)%N.

Example determine_example :
  determine ex_hash ex_lookup ex_pkh (Some 20%N) (Some [2%N; 3%N])
  = DUtxo {| u_tx := 2; u_idx := 0; u_val := 5000 |}
  /\ sync ex_lookup (fun _ => LNotFound) (fun _ => LNotFound)
          (Some {| u_tx := 2; u_idx := 0; u_val := 5000 |})
          (Some [ {| u_tx := 2; u_idx := 0; u_val := 5000 |}; {| u_tx := 3; u_idx := 1; u_val := 5000 |} ])
          (Some []) = SOk
  /\ sync ex_lookup (fun op => if N.eqb (fst op) 9 then LFound else LNotFound) (fun _ => LNotFound)
          None (Some [ {| u_tx := 3; u_idx := 1; u_val := 5000 |} ])
          (Some [ {| u_tx := 2; u_idx := 0; u_val := 5000 |} ]) = SErrDepositSweep
  /\ txs_have_inputs ex_lookup.
Proof.
  repeat split; try (vm_compute; reflexivity).
  intros h t. unfold ex_lookup. destruct (N.eqb h 2); [intro H; inversion H; discriminate|].
  destruct (N.eqb h 3); [intro H; inversion H; discriminate|discriminate].
Qed.

(* ------------------------------------------------------------------ *)
(* per-call chain faults                                                *)
(* ------------------------------------------------------------------ *)
Definition ok_upto (l : list bool) (n : nat) : Prop := forall k, (k < n)%nat -> bad l k = false.

Lemma any_bad_false (l : list bool) : forall n, any_bad l n = false <-> ok_upto l n.
Proof.
  unfold any_bad, ok_upto, bad.
  induction l as [|a l IH]; intros n.
  - rewrite firstn_nil. cbn. split; [|reflexivity]. intros _ k _. destruct k; reflexivity.
  - destruct n as [|n]; cbn [firstn existsb].
    + split; [|reflexivity]. intros _ k Hk. lia.
    + rewrite orb_false_iff, IH. split.
      * intros [Ha Hl] k Hk. destruct k as [|k]; cbn [nth]; [exact Ha|]. apply Hl. lia.
      * intros H. split; [exact (H 0%nat ltac:(lia))|].
        intros k Hk. exact (H (S k) ltac:(lia)).
Qed.

Lemma any_bad_hit (l : list bool) n k : (k < n)%nat -> bad l k = true -> any_bad l n = true.
Proof.
  intros Hk Hb. destruct (any_bad l n) eqn:E; [reflexivity|].
  apply any_bad_false in E. rewrite (E k Hk) in Hb. discriminate.
Qed.

Lemma ok_upto_0 l : ok_upto l 0.
Proof. intros k Hk. lia. Qed.

Lemma ok_upto_S l n : ok_upto l n -> bad l n = false -> ok_upto l (S n).
Proof.
  intros H Hb k Hk. destruct (Nat.eq_dec k n) as [->|Hne]; [exact Hb|]. apply H. lia.
Qed.

Lemma any_bad_0 l : any_bad l 0 = false.
Proof. reflexivity. Qed.

Lemma any_bad_1 l : any_bad l 1 = bad l 0.
Proof. destruct l as [|b t]; [reflexivity|]. unfold any_bad, bad. cbn. apply orb_false_r. Qed.

Section PF.
  Variable hash : utxo -> N.
  Variable lookup : N -> option tx.
  Variable is_dep is_req : N * N -> look.
  Variable F : script.

  Definition ok3 (k : nat * nat * nat) : Prop :=
    let '(kt, kd, kr) := k in
    ok_upto (f_tx F) kt /\ ok_upto (f_dep F) kd /\ ok_upto (f_req F) kr.
  Definition hit3 (k : nat * nat * nat) : Prop :=
    let '(kt, kd, kr) := k in
    any_bad (f_tx F) kt = true \/ any_bad (f_dep F) kd = true \/ any_bad (f_req F) kr = true.

  (* one loop body: either no consulted call failed and the outcome is the one of the
     fault-free body, or a consulted call failed and the body reports a chain error *)
  Lemma classify_f_cases u k c k' :
    ok3 k -> classify_f lookup is_dep is_req F u k = (c, k') ->
    (ok3 k' /\ c = classify lookup is_dep is_req u) \/ (hit3 k' /\ c = BrokenChain).
  Proof.
    destruct k as [[kt kd] kr]. intros [Ht [Hd Hr]]. unfold classify_f, classify.
    destruct (negb (N.eqb (u_idx u) 0)).
    { intros E; inversion E; subst. left. split; [repeat split; assumption|reflexivity]. }
    destruct (bad (f_tx F) kt) eqn:Bt.
    { intros E; inversion E; subst. right. split; [|reflexivity].
      left. apply (any_bad_hit _ _ kt); [lia|exact Bt]. }
    pose proof (ok_upto_S _ _ Ht Bt) as Ht'.
    destruct (lookup (u_tx u)) as [t|].
    2:{ intros E; inversion E; subst. left. split; [repeat split; assumption|reflexivity]. }
    destruct (t_in0 t) as [op|].
    2:{ intros E; inversion E; subst. left. split; [repeat split; assumption|reflexivity]. }
    destruct (bad (f_dep F) kd) eqn:Bd.
    { intros E; inversion E; subst. right. split; [|reflexivity].
      right; left. apply (any_bad_hit _ _ kd); [lia|exact Bd]. }
    pose proof (ok_upto_S _ _ Hd Bd) as Hd'.
    destruct (is_dep op).
    1,3: intros E; inversion E; subst; left; split; [repeat split; assumption|reflexivity].
    destruct (bad (f_req F) kr) eqn:Br.
    { intros E; inversion E; subst. right. split; [|reflexivity].
      right; right. apply (any_bad_hit _ _ kr); [lia|exact Br]. }
    pose proof (ok_upto_S _ _ Hr Br) as Hr'.
    destruct (is_req op); intros E; inversion E; subst; left;
      (split; [repeat split; assumption|reflexivity]).
  Qed.

  Lemma fresh_scan_f_cases all : forall k r k',
    ok3 k -> fresh_scan_f lookup is_dep is_req F all k = (r, k') ->
    (ok3 k' /\ r = fresh_scan lookup is_dep is_req all) \/ (hit3 k' /\ r = SChainErr).
  Proof.
    induction all as [|u rest IH]; intros k r k' Hk; cbn [fresh_scan_f fresh_scan].
    - intros E; inversion E; subst. left. split; [exact Hk|reflexivity].
    - destruct (classify_f lookup is_dep is_req F u k) as [c k1] eqn:Ec.
      destruct (classify_f_cases u k c k1 Hk Ec) as [[Hk1 Hc]|[Hh Hc]].
      + rewrite <- Hc. destruct c.
        * intros E. exact (IH k1 r k' Hk1 E).
        * intros E; inversion E; subst. left. split; [exact Hk1|reflexivity].
        * intros E; inversion E; subst. left. split; [exact Hk1|reflexivity].
        * intros E; inversion E; subst. left. split; [exact Hk1|reflexivity].
        * intros E; inversion E; subst. left. split; [exact Hk1|reflexivity].
      + subst c. intros E; inversion E; subst. right. split; [exact Hh|reflexivity].
  Qed.

  Lemma faulted_calls w h c m t d r :
    faulted F (Calls w h c m t d r) =
    any_bad (f_wallet F) w || any_bad (f_hist F) h || any_bad (f_conf F) c || any_bad (f_mem F) m
    || any_bad (f_tx F) t || any_bad (f_dep F) d || any_bad (f_req F) r.
  Proof. reflexivity. Qed.

  (* the sync check under faults: either every consulted call succeeded and the result is the
     one of the fault-free run, or a consulted call failed and the check reports a chain error *)
  Theorem sync_f_cases main conf mem r c :
    sync_f lookup is_dep is_req F main conf mem = (r, c) ->
    (faulted F c = false /\ r = sync lookup is_dep is_req main conf mem) \/
    (faulted F c = true /\ r = SChainErr).
  Proof.
    unfold sync_f, sync.
    destruct (bad (f_conf F) 0) eqn:Bc.
    { intros E; inversion E; subst. right. split; [|reflexivity].
      rewrite faulted_calls, !any_bad_0, any_bad_1, Bc. reflexivity. }
    destruct conf as [cu|].
    2:{ intros E; inversion E; subst. left. split; [|reflexivity].
        rewrite faulted_calls, !any_bad_0, any_bad_1, Bc. reflexivity. }
    destruct main as [m|].
    { intros E; inversion E; subst. left. split; [|reflexivity].
      rewrite faulted_calls, !any_bad_0, any_bad_1, Bc. reflexivity. }
    destruct (bad (f_mem F) 0) eqn:Bm.
    { intros E; inversion E; subst. right. split; [|reflexivity].
      rewrite faulted_calls, !any_bad_0, !any_bad_1, Bc, Bm. reflexivity. }
    destruct mem as [mu|].
    2:{ intros E; inversion E; subst. left. split; [|reflexivity].
        rewrite faulted_calls, !any_bad_0, !any_bad_1, Bc, Bm. reflexivity. }
    destruct (fresh_scan_f lookup is_dep is_req F (cu ++ mu) (0, 0, 0)%nat) as [r0 [[kt kd] kr]] eqn:Ef.
    intros E; inversion E; subst.
    assert (H0 : ok3 (0, 0, 0)%nat) by (repeat split; apply ok_upto_0).
    destruct (fresh_scan_f_cases _ _ _ _ H0 Ef) as [[[Ht [Hd Hr]] Hres]|[Hh Hres]].
    - left. split; [|exact Hres].
      rewrite faulted_calls, !any_bad_0, !any_bad_1, Bc, Bm.
      apply any_bad_false in Ht, Hd, Hr. rewrite Ht, Hd, Hr. reflexivity.
    - right. split; [|exact Hres].
      rewrite faulted_calls. destruct Hh as [H|[H|H]]; rewrite H;
        repeat rewrite orb_true_r; reflexivity.
  Qed.

  (* THE theorem of the strengthening: over all fault scripts, a passing sync check consulted
     only calls that succeeded, and the wallet is in sync *)
  Theorem sync_f_pass main conf mem c :
    sync_f lookup is_dep is_req F main conf mem = (SOk, c) ->
    faulted F c = false /\ sync lookup is_dep is_req main conf mem = SOk.
  Proof.
    intros E. destruct (sync_f_cases _ _ _ _ _ E) as [[Hf Hr]|[_ Hr]]; [|discriminate].
    split; [exact Hf|symmetry; exact Hr].
  Qed.

  Theorem sync_f_pass_in_sync main conf mem c :
    sync_f lookup is_dep is_req F main conf mem = (SOk, c) ->
    faulted F c = false /\
    exists cu, conf = Some cu /\
      match main with
      | Some m => In m cu
      | None => exists mu, mem = Some mu /\
                           forall u, In u (cu ++ mu) -> clean lookup is_dep is_req u
      end.
  Proof.
    intros E. destruct (sync_f_pass _ _ _ _ E) as [Hf Hs]. split; [exact Hf|].
    pose proof (sync_sound lookup is_dep is_req main conf mem) as Hsp. rewrite Hs in Hsp.
    unfold sync_spec in Hsp. destruct conf as [cu|]; [|congruence].
    exists cu. split; [reflexivity|]. destruct main as [m|].
    - apply Hsp. reflexivity.
    - destruct mem as [mu|]; [|congruence]. exists mu. split; [reflexivity|].
      apply Hsp. reflexivity.
  Qed.

  Lemma faulted_no_faults c : faulted no_faults c = false.
  Proof.
    destruct c as [w h c m t d r]. unfold faulted, any_bad, no_faults. cbn.
    rewrite !firstn_nil. reflexivity.
  Qed.

  (* ---- DetermineWalletMainUtxo under faults ---- *)
  Lemma scan_txs_f_cases pkh reg hs : forall kt r kt',
    ok_upto (f_tx F) kt -> scan_txs_f hash lookup F pkh reg hs kt = (r, kt') ->
    (ok_upto (f_tx F) kt' /\ r = scan_txs hash lookup pkh reg hs) \/
    (any_bad (f_tx F) kt' = true /\ r = DChainErr).
  Proof.
    induction hs as [|h rest IH]; intros kt r kt' Hk; cbn [scan_txs_f scan_txs].
    - intros E; inversion E; subst. left. split; [exact Hk|reflexivity].
    - destruct (bad (f_tx F) kt) eqn:Bt.
      { intros E; inversion E; subst. right. split; [|reflexivity].
        apply (any_bad_hit _ _ kt); [lia|exact Bt]. }
      pose proof (ok_upto_S _ _ Hk Bt) as Hk'.
      destruct (lookup h) as [t|].
      2:{ intros E; inversion E; subst. left. split; [exact Hk'|reflexivity]. }
      destruct (scan_outs hash pkh reg t 0 (t_outs t)) as [u|].
      + intros E; inversion E; subst. left. split; [exact Hk'|reflexivity].
      + intros E. exact (IH _ _ _ Hk' E).
  Qed.

  Theorem determine_f_cases pkh wallet hashes r c :
    determine_f hash lookup F pkh wallet hashes = (r, c) ->
    (faulted F c = false /\ r = determine hash lookup pkh wallet hashes) \/
    (faulted F c = true /\ r = DChainErr).
  Proof.
    unfold determine_f, determine.
    destruct (bad (f_wallet F) 0) eqn:Bw.
    { intros E; inversion E; subst. right. split; [|reflexivity].
      rewrite faulted_calls, !any_bad_0, any_bad_1, Bw. reflexivity. }
    destruct wallet as [reg|].
    2:{ intros E; inversion E; subst. left. split; [|reflexivity].
        rewrite faulted_calls, !any_bad_0, any_bad_1, Bw. reflexivity. }
    destruct (N.eqb reg 0).
    { intros E; inversion E; subst. left. split; [|reflexivity].
      rewrite faulted_calls, !any_bad_0, any_bad_1, Bw. reflexivity. }
    destruct (bad (f_hist F) 0) eqn:Bh.
    { intros E; inversion E; subst. right. split; [|reflexivity].
      rewrite faulted_calls, !any_bad_0, !any_bad_1, Bw, Bh. reflexivity. }
    destruct hashes as [hs|].
    2:{ intros E; inversion E; subst. left. split; [|reflexivity].
        rewrite faulted_calls, !any_bad_0, !any_bad_1, Bw, Bh. reflexivity. }
    destruct (scan_txs_f hash lookup F pkh reg (rev hs) 0) as [r0 kt] eqn:Es.
    intros E; inversion E; subst.
    destruct (scan_txs_f_cases _ _ _ _ _ _ (ok_upto_0 _) Es) as [[Hk Hres]|[Hh Hres]].
    - left. split; [|exact Hres].
      rewrite faulted_calls, !any_bad_0, !any_bad_1, Bw, Bh.
      apply any_bad_false in Hk. rewrite Hk. reflexivity.
    - right. split; [|exact Hres].
      rewrite faulted_calls, Hh. repeat rewrite orb_true_r. reflexivity.
  Qed.

  (* ---- the executable forms ---- *)
  Theorem sync_ok_f_sound c main conf mem r :
    sync_ok_f lookup is_dep is_req F c main conf mem r = true ->
    (r = SOk -> faulted F c = false) /\
    (faulted F c = false -> sync_spec lookup is_dep is_req main conf mem r).
  Proof.
    unfold sync_ok_f. destruct (faulted F c).
    - intros H. split; [intros ->; discriminate|discriminate].
    - intros H. split; [reflexivity|]. intros _. apply sync_ok_sound. exact H.
  Qed.

  Theorem det_ok_f_sound c pkh wallet hashes r :
    det_ok_f hash lookup F c pkh wallet hashes r = true ->
    (r = DChainErr /\ faulted F c = true) \/ det_spec hash lookup pkh wallet hashes r.
  Proof.
    unfold det_ok_f. intros H. apply orb_true_iff in H. destruct H as [H|H].
    - left. destruct r; try discriminate. split; [reflexivity|exact H].
    - right. apply det_ok_sound. exact H.
  Qed.

  Theorem faulty_model_passes pkh wallet hashes main conf mem :
    txs_have_inputs lookup ->
    (let (r, c) := determine_f hash lookup F pkh wallet hashes in
     det_ok_f hash lookup F c pkh wallet hashes r = true) /\
    (let (r, c) := sync_f lookup is_dep is_req F main conf mem in
     sync_ok_f lookup is_dep is_req F c main conf mem r = true).
  Proof.
    intros Hin. split.
    - destruct (determine_f hash lookup F pkh wallet hashes) as [r c] eqn:E.
      unfold det_ok_f. destruct (determine_f_cases _ _ _ _ _ E) as [[Hf Hr]|[Hf Hr]]; subst r.
      + rewrite determine_passes. apply orb_true_r.
      + rewrite Hf. reflexivity.
    - destruct (sync_f lookup is_dep is_req F main conf mem) as [r c] eqn:E.
      unfold sync_ok_f. destruct (sync_f_cases _ _ _ _ _ E) as [[Hf Hr]|[Hf Hr]]; subst r; rewrite Hf.
      + apply sync_passes. exact Hin.
      + reflexivity.
  Qed.
End PF.

(* a fault at the deposit lookup of the wallet's own sweep: the check reports a chain error;
   one position later (not consulted) the fault changes nothing *)
Example faulty_example :
  let dep := fun op : N * N => if N.eqb (fst op) 9 then LFound else LNotFound in
  let all := Some [ {| u_tx := 2; u_idx := 0; u_val := 5000 |} ] in
  let Fd := {| f_wallet := []; f_hist := []; f_conf := []; f_mem := []; f_tx := [];
               f_dep := [true]; f_req := [] |} in
  let Fl := {| f_wallet := []; f_hist := []; f_conf := []; f_mem := []; f_tx := [];
               f_dep := [false; true]; f_req := [] |} in
  sync_f ex_lookup dep (fun _ => LNotFound) Fd None all (Some []) = (SChainErr, Calls 0 0 1 1 1 1 0)
  /\ sync_f ex_lookup dep (fun _ => LNotFound) Fl None all (Some []) = (SErrDepositSweep, Calls 0 0 1 1 1 1 0)
  /\ sync_f ex_lookup (fun _ => LNotFound) (fun _ => LNotFound) Fl None all (Some []) = (SOk, Calls 0 0 1 1 1 1 1).
Proof. vm_compute. repeat split; reflexivity. Qed.
