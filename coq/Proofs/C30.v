(* C30 — proofs.  Part A: lengths of the C29 serialisations = the arithmetic size function.
   Part B: the estimator (byte level) = the closed forms.  Part C: DER length bound.
   Part D: the signed transaction of the builder.  Part E: domination => estimate >= actual.
   Part F: corollaries, witnesses, the executable spec.  Part G: the judge's [covered] implies the
   matching premise of Part E.  Part H: exactness for exactly used slots and maximal signatures. *)
From Coq Require Import ZArith NArith List Bool Lia Permutation.
From Coq Require Import ZifyBool ZifyNat ZifyN.
From KV Require Import Common.Verdict Model.C29 Model.C30.
Import ListNotations.
Open Scope N_scope.
Ltac Zify.zify_post_hook ::= Z.div_mod_to_equations.

(* ------------------------------------------------------------------ Part A: lengths *)
Lemma len_app {A} (a b : list A) : len (a ++ b) = len a + len b.
Proof. unfold len. rewrite app_length. lia. Qed.
Lemma len_cons {A} (x : A) l : len (x :: l) = 1 + len l.
Proof. unfold len. cbn [length]. lia. Qed.
Lemma len_nil {A} : len (@nil A) = 0. Proof. reflexivity. Qed.
Lemma len_repeat {A} (x : A) n : len (repeat x n) = N.of_nat n.
Proof. unfold len. now rewrite repeat_length. Qed.
Lemma len_zeros n : len (zeros n) = n.
Proof. unfold zeros. rewrite len_repeat. lia. Qed.
Lemma le_bytes_len n v : len (le_bytes n v) = N.of_nat n.
Proof. unfold len. f_equal. revert v. induction n; intros; cbn [le_bytes length]; auto. Qed.
Lemma len_rev {A} (l : list A) : len (rev l) = len l.
Proof. unfold len. now rewrite rev_length. Qed.
Lemma cs_len v : len (cs_encode v) = cs_size v.
Proof.
  unfold cs_encode, cs_size.
  destruct (v <? 253); [reflexivity|]. destruct (v <=? 65535); [reflexivity|].
  destruct (v <=? 4294967295); reflexivity.
Qed.
Lemma var_bytes_len s : len (var_bytes s) = var_len (len s).
Proof. unfold var_bytes, var_len. now rewrite len_app, cs_len. Qed.
Lemma flat_map_len {A} (f : A -> list N) l :
  len (flat_map f l) = sumN (map (fun x => len (f x)) l).
Proof. induction l; cbn [flat_map map sumN fold_right]; [reflexivity|]. rewrite len_app. unfold sumN in IHl. lia. Qed.
Lemma sumN_app a b : sumN (a ++ b) = sumN a + sumN b.
Proof. unfold sumN. induction a; cbn [app fold_right]; lia. Qed.
Lemma sumN_repeat x n : sumN (repeat x n) = N.of_nat n * x.
Proof. unfold sumN. induction n; cbn [repeat fold_right]; lia. Qed.
Lemma sumN_perm a b : Permutation a b -> sumN a = sumN b.
Proof. unfold sumN. induction 1; cbn [fold_right]; lia. Qed.

Definition wit_size (ti : txin) : N :=
  cs_size (len (ti_witness ti)) + sumN (map (fun i => var_len (len i)) (ti_witness ti)).
Lemma ser_txin_len ti : length (ti_hash ti) = 32%nat -> len (ser_txin ti) = txin_size ti.
Proof.
  intros H. unfold ser_txin, txin_size. rewrite !len_app, !le_bytes_len, var_bytes_len.
  unfold len at 1. rewrite H. unfold var_len. lia.
Qed.
Lemma ser_txout_len o : len (ser_txout o) = txout_size o.
Proof. unfold ser_txout, txout_size. rewrite len_app, le_bytes_len, var_bytes_len. unfold var_len. lia. Qed.
Lemma ser_witness_len ti : len (ser_witness ti) = wit_size ti.
Proof.
  unfold ser_witness, wit_size. rewrite len_app, cs_len, flat_map_len. f_equal. f_equal.
  apply map_ext. intros. apply var_bytes_len.
Qed.

(* (40 + script with prefix, serialised witness stack, witness non-empty) *)
Definition trip := (N * N * bool)%type.
Definition t_base (t : trip) : N := fst (fst t).
Definition t_wit (t : trip) : N := snd (fst t).
Definition t_hw (t : trip) : bool := snd t.
Definition in_trip (ti : txin) : trip := (txin_size ti, wit_size ti, negb (is_nil (ti_witness ti))).
Definition L_sizes (ins : list trip) (outs : list N) : sizes :=
  {| z_nin := len ins; z_nout := len outs; z_in := sumN (map t_base ins);
     z_out := sumN (map (fun s => 8 + var_len s) outs); z_wit := sumN (map t_wit ins);
     z_hw := existsb t_hw ins |}.
Definition hash32 (ti : txin) : Prop := length (ti_hash ti) = 32%nat.
Definition out_len (o : txout) : N := len (to_script o).
Definition sizes_of (t : tx) : sizes := L_sizes (map in_trip (tx_ins t)) (map out_len (tx_outs t)).

Lemma len_map {A B} (f : A -> B) l : len (map f l) = len l.
Proof. unfold len. now rewrite map_length. Qed.
Lemma existsb_map {A B} (f : A -> B) (p : B -> bool) l : existsb p (map f l) = existsb (fun x => p (f x)) l.
Proof. induction l; cbn [map existsb]; congruence. Qed.

Lemma sum_txin_len ins : Forall hash32 ins ->
  len (flat_map ser_txin ins) = sumN (map t_base (map in_trip ins)).
Proof.
  intros H. rewrite flat_map_len, map_map. f_equal.
  induction H; cbn [map]; [reflexivity|]. f_equal; auto. now apply ser_txin_len.
Qed.
Lemma sizes_base t : Forall hash32 (tx_ins t) -> base_size t = z_base (sizes_of t).
Proof.
  intros H. unfold base_size, serialize, ser_version, ser_locktime, ser_inputs, ser_outputs.
  rewrite !len_app, !le_bytes_len, !cs_len, sum_txin_len by assumption.
  rewrite flat_map_len. unfold z_base, sizes_of, L_sizes. cbn [z_nin z_nout z_in z_out app].
  rewrite !len_map, !map_map, len_nil.
  replace (map (fun x => len (ser_txout x)) (tx_outs t)) with (map (fun x => 8 + var_len (out_len x)) (tx_outs t)).
  - lia.
  - apply map_ext. intros o. rewrite ser_txout_len. unfold txout_size, var_len, out_len. lia.
Qed.
Lemma sizes_total t : Forall hash32 (tx_ins t) -> total_size t = z_total (sizes_of t).
Proof.
  intros H. unfold z_total. rewrite <- sizes_base by assumption.
  unfold base_size, total_size, serialize.
  assert (Hw : has_witness t = z_hw (sizes_of t)).
  { unfold has_witness, sizes_of, L_sizes. cbn [z_hw]. now rewrite existsb_map. }
  rewrite <- Hw. destruct (has_witness t).
  - rewrite !len_app. rewrite flat_map_len.
    replace (map (fun x => len (ser_witness x)) (tx_ins t)) with (map t_wit (map in_trip (tx_ins t))).
    + unfold sizes_of, L_sizes. cbn [z_wit]. change (len [0; 1]) with 2. rewrite ?len_nil. lia.
    + rewrite map_map. apply map_ext. intros. now rewrite ser_witness_len.
  - rewrite !len_app. rewrite !len_nil. lia.
Qed.
Lemma weight_sizes t : Forall hash32 (tx_ins t) -> weight t = z_weight (sizes_of t).
Proof. intros. unfold weight, z_weight. now rewrite sizes_base, sizes_total. Qed.

(* ------------------------------------------------------------------ Part B: script builder, estimator *)
Lemma add_data_raw_len d : len (add_data_raw d) = canonical_data_size d.
Proof.
  destruct d as [|b [|c t]].
  - reflexivity.
  - unfold add_data_raw, canonical_data_size.
    destruct (b =? 0) eqn:E0; [apply N.eqb_eq in E0; subst; reflexivity|].
    destruct (b <=? 16) eqn:E1; [reflexivity|]. cbn [orb]. destruct (b =? 129); reflexivity.
  - unfold add_data_raw, canonical_data_size. set (n := len (b :: c :: t)).
    destruct (n <? 76). { rewrite len_cons. reflexivity. }
    destruct (n <=? 255). { rewrite len_cons, len_cons. fold n. lia. }
    destruct (n <=? 65535); rewrite len_cons, len_app, le_bytes_len; fold n; lia.
Qed.
Lemma cds_ge2 d : 2 <= len d -> canonical_data_size d = push_len (len d).
Proof.
  destruct d as [|b [|c t]]; intros H.
  - rewrite len_nil in H. lia.
  - rewrite len_cons, len_nil in H. lia.
  - unfold canonical_data_size, push_len. set (n := len (b :: c :: t)) in *.
    destruct (n =? 0) eqn:E; [lia|]. reflexivity.
Qed.
Lemma cds_small d : len d <= 1 -> 1 <= canonical_data_size d <= 2.
Proof.
  destruct d as [|b [|c t]]; intros H.
  - cbn. lia.
  - unfold canonical_data_size. destruct ((b <=? 16) || (b =? 129)); lia.
  - rewrite !len_cons in H. lia.
Qed.
Lemma cds_zeros l : canonical_data_size (zeros l) = zeros_push_len l.
Proof.
  unfold zeros, zeros_push_len. destruct (N.to_nat l) as [|[|k]] eqn:E.
  - assert (l = 0) by lia. subst. reflexivity.
  - assert (l = 1) by lia. subst. reflexivity.
  - assert (Hl : len (repeat 0 (S (S k))) = l) by (rewrite len_repeat; lia).
    rewrite cds_ge2 by lia. rewrite Hl. destruct (l =? 1) eqn:E1; [lia|reflexivity].
Qed.
Lemma push_len_bound n : n <= 65535 -> n <= push_len n <= n + 3.
Proof. unfold push_len. intros. destruct (n =? 0) eqn:?; destruct (n <? 76) eqn:?; destruct (n <=? 255) eqn:?; destruct (n <=? 65535) eqn:?; lia. Qed.
Lemma cds_bound d : len d <= 65535 -> canonical_data_size d <= len d + 3.
Proof.
  intros H. destruct (N.le_gt_cases 2 (len d)).
  - rewrite cds_ge2 by assumption. apply push_len_bound. assumption.
  - pose proof (cds_small d). destruct d; [cbn; lia|]. rewrite len_cons in *. lia.
Qed.
Lemma sb_add_data_short s d : len s <= 200 ->
  sb_add_data (Some s) d = if 520 <? len d then None else Some (s ++ add_data_raw d).
Proof.
  intros Hs. unfold sb_add_data, max_script_size, max_script_element_size.
  destruct (520 <? len d) eqn:E.
  - destruct (10000 <? _); reflexivity.
  - pose proof (cds_bound d). destruct (10000 <? len s + canonical_data_size d) eqn:E2; [lia|reflexivity].
Qed.
Lemma sig_script2 a b : 2 <= len a <= 75 -> len b = 33 ->
  exists s, sig_script [a; b] = Some s /\ len s = push_len (len a) + push_len 33.
Proof.
  intros Ha Hb. unfold sig_script, sb_new. cbn [fold_left].
  rewrite sb_add_data_short by (rewrite len_nil; lia).
  destruct (520 <? len a) eqn:E; [lia|]. cbn [app].
  assert (L1 : len (add_data_raw a) = push_len (len a)) by (rewrite add_data_raw_len, cds_ge2; lia).
  assert (P1 : push_len (len a) <= 78) by (pose proof (push_len_bound (len a)); lia).
  rewrite sb_add_data_short by lia.
  destruct (520 <? len b) eqn:E2; [lia|]. eexists. split; [reflexivity|].
  rewrite len_app, L1, add_data_raw_len, cds_ge2, Hb by lia. reflexivity.
Qed.
Lemma sig_script3 a b c : sig_script [a; b; c] = sb_add_data (sig_script [a; b]) c.
Proof. reflexivity. Qed.

Definition ish_base (s : ishape) : N :=
  match s with
  | SPkh true => 41
  | SPkh false => 40 + var_len (push_len 72 + push_len 33)
  | SSh true _ => 41
  | SSh false l => 40 + var_len (push_len 72 + push_len 33 + zeros_push_len l)
  end.
Definition ish_witsz (s : ishape) : N :=
  match s with
  | SPkh true => 1 + var_len 72 + var_len 33
  | SSh true l => 1 + var_len 72 + var_len 33 + var_len l
  | _ => 1
  end.
Definition ish_bad (s : ishape) : bool := match s with SSh false l => 520 <? l | _ => false end.
Definition ish_trip (s : ishape) : trip := (ish_base s, ish_witsz s, ish_wit s).
Lemma ish_sizes_eq s : ish_sizes s = if ish_bad s then None else Some (ish_base s, ish_witsz s).
Proof. destruct s as [[]|[] l]; reflexivity. Qed.

Lemma len_sigp : len sig_placeholder = 72. Proof. reflexivity. Qed.
Lemma len_pkp : len pk_placeholder = 33. Proof. reflexivity. Qed.
Lemma txin_size_mk h i sc w : txin_size (mk_in h i sc w) = 40 + var_len (len sc).
Proof. unfold txin_size, mk_in, var_len. cbn [ti_script]. lia. Qed.
Lemma wit_size_mk h i sc w : wit_size (mk_in h i sc w) = cs_size (len w) + sumN (map (fun x => var_len (len x)) w).
Proof. reflexivity. Qed.

Lemma ph_in_spec s :
  match ph_in s with
  | Some ti => ish_bad s = false /\ in_trip ti = ish_trip s /\ hash32 ti
  | None => ish_bad s = true
  end.
Proof.
  destruct s as [[]|[] l].
  - cbn [ph_in]. repeat split.
  - cbn [ph_in]. destruct (sig_script2 sig_placeholder pk_placeholder) as (s & Hs & Ls);
      [rewrite len_sigp; lia|reflexivity|].
    rewrite Hs. cbn [option_map]. repeat split.
    unfold in_trip, ish_trip, ph_txin. rewrite txin_size_mk, Ls, len_sigp. reflexivity.
  - cbn [ph_in]. split; [reflexivity|]. split; [|reflexivity].
    unfold in_trip, ish_trip, ph_txin. rewrite txin_size_mk, wit_size_mk.
    cbn [mk_in ti_witness is_nil negb map ish_base ish_witsz ish_wit]. unfold sumN. cbn [fold_right].
    rewrite len_zeros, len_sigp, len_pkp. change (len (@nil N)) with 0.
    change (len [sig_placeholder; pk_placeholder; zeros l]) with 3.
    f_equal. f_equal. change (cs_size 3) with 1. change (var_len 0) with 1. lia.
  - cbn [ph_in]. rewrite sig_script3.
    destruct (sig_script2 sig_placeholder pk_placeholder) as (s & Hs & Ls);
      [rewrite len_sigp; lia|reflexivity|].
    rewrite Hs. rewrite len_sigp in Ls. change (push_len 72 + push_len 33) with 107 in Ls.
    rewrite sb_add_data_short by lia. rewrite len_zeros. cbn [ish_bad].
    destruct (520 <? l) eqn:E; cbn [option_map]; [reflexivity|].
    split; [reflexivity|]. split; [|reflexivity].
    unfold in_trip, ish_trip, ph_txin. rewrite txin_size_mk, len_app, Ls, add_data_raw_len, cds_zeros.
    reflexivity.
Qed.
Lemma ph_out_spec s : exists o, ph_out s = Some o /\ out_len o = oshape_len s.
Proof. destruct s as [[]|[]]; eexists; (split; [vm_compute; reflexivity|reflexivity]). Qed.

Lemma map_repeat' {A B} (f : A -> B) x n : map f (repeat x n) = repeat (f x) n.
Proof. induction n; cbn [repeat map]; congruence. Qed.
Lemma existsb_repeat {A} (p : A -> bool) x n : existsb p (repeat x n) = p x && negb (N.of_nat n =? 0).
Proof.
  destruct n; [cbn; now rewrite andb_false_r|].
  replace (N.of_nat (S n) =? 0) with false by lia. rewrite andb_true_r.
  induction n; cbn [repeat existsb] in *; [now rewrite orb_false_r|]. rewrite IHn. now destruct (p x).
Qed.
Lemma times_len {A} c (x : A) : N.of_nat (length (times c x)) = count_N c.
Proof. unfold times, count_N. rewrite repeat_length. lia. Qed.

Lemma L_add_in A O c (t : trip) :
  z_add_in (L_sizes A O) (count_N c) (t_base t) (t_wit t) (t_hw t) = L_sizes (A ++ times c t) O.
Proof.
  unfold z_add_in, L_sizes, times. cbn [z_nin z_nout z_in z_out z_wit z_hw].
  rewrite !map_app, !map_repeat', !sumN_app, !sumN_repeat, len_app, len_repeat, existsb_app, existsb_repeat.
  replace (N.of_nat (Z.to_nat c)) with (count_N c) by (unfold count_N; lia). reflexivity.
Qed.
Lemma L_add_out A O c s :
  z_add_out (L_sizes A O) (count_N c) s = L_sizes A (O ++ times c s).
Proof.
  unfold z_add_out, L_sizes, times. cbn [z_nin z_nout z_in z_out z_wit z_hw].
  rewrite !map_app, !map_repeat', !sumN_app, !sumN_repeat, len_app, len_repeat.
  replace (N.of_nat (Z.to_nat c)) with (count_N c) by (unfold count_N; lia). unfold var_len. f_equal. lia.
Qed.

Definition Inv (e : est) (r : zres) (si : list ishape) (so : list oshape) : Prop :=
  match e, r with
  | EState i o, ZOk z =>
      map in_trip i = map ish_trip si /\ map out_len o = map oshape_len so /\ Forall hash32 i
      /\ z = L_sizes (map ish_trip si) (map oshape_len so)
  | EErr, ZErr => True
  | EPanic, ZPanic => True
  | _, _ => False
  end.

Lemma add_ins_inv i o z si so c s :
  Inv (EState i o) (ZOk z) si so ->
  Inv (add_ins (EState i o) c (ph_in s))
      (match ish_sizes s with
       | Some (b, w) => ZOk (z_add_in z (count_N c) b w (ish_wit s))
       | None => ZErr
       end) (si ++ times c s) so.
Proof.
  intros (Hi & Ho & Hh & Hz). pose proof (ph_in_spec s) as P. rewrite ish_sizes_eq.
  destruct (ph_in s) as [ti|]; [destruct P as (Hb & Ht & H32)|]; rewrite ?P, ?Hb; cbn [add_ins Inv]; auto.
  repeat split.
  - unfold times. rewrite !map_app, !map_repeat'. congruence.
  - assumption.
  - apply Forall_app. split; [assumption|]. unfold times. apply Forall_forall. intros x Hx.
    apply repeat_spec in Hx. now subst.
  - subst z. change (ish_base s) with (t_base (ish_trip s)). change (ish_witsz s) with (t_wit (ish_trip s)).
    change (ish_wit s) with (t_hw (ish_trip s)). rewrite L_add_in. unfold times. now rewrite map_app, map_repeat'.
Qed.
Lemma add_outs_inv i o z si so c s :
  Inv (EState i o) (ZOk z) si so ->
  Inv (add_outs (EState i o) c (ph_out s)) (ZOk (z_add_out z (count_N c) (oshape_len s))) si (so ++ times c s).
Proof.
  intros (Hi & Ho & Hh & Hz). destruct (ph_out_spec s) as (x & Hx & Lx). rewrite Hx. cbn [add_outs Inv].
  repeat split; auto.
  - unfold times. rewrite !map_app, !map_repeat'. congruence.
  - subst z. rewrite L_add_out. unfold times. now rewrite map_app, map_repeat'.
Qed.

Lemma step_inv e r si so o :
  Inv e r si so -> Inv (step e o) (z_step r o) (si ++ op_ishapes o) (so ++ op_oshapes o).
Proof.
  intros H. destruct e as [i t| |], r as [z| |]; try contradiction; try exact I.
  destruct o as [c w|c l w|c w|c w]; cbn [step z_step op_ishapes op_oshapes]; rewrite ?app_nil_r.
  - now apply add_ins_inv.
  - destruct (l <? 0)%Z; [exact I|]. now apply add_ins_inv.
  - now apply add_outs_inv.
  - now apply add_outs_inv.
Qed.
Lemma run_inv ops : forall e r si so,
  Inv e r si so ->
  Inv (fold_left step ops e) (fold_left z_step ops r) (si ++ shape_ins ops) (so ++ shape_outs ops).
Proof.
  induction ops as [|o ops IH]; intros e r si so H.
  - cbn. now rewrite !app_nil_r.
  - cbn [fold_left shape_ins shape_outs flat_map]. rewrite !app_assoc. apply IH. now apply step_inv.
Qed.
Lemma run_inv0 ops : Inv (run_ops ops) (est_sizes ops) (shape_ins ops) (shape_outs ops).
Proof. apply (run_inv ops (EState [] []) (ZOk z0) [] []). cbn. repeat split; constructor. Qed.

Definition shape_sizes (ops : list op) : sizes :=
  L_sizes (map ish_trip (shape_ins ops)) (map oshape_len (shape_outs ops)).

Lemma vsize_mk i o : Forall hash32 i -> vsize (mk_tx i o) = z_vsize (L_sizes (map in_trip i) (map out_len o)).
Proof. intros. unfold vsize, z_vsize. now rewrite weight_sizes. Qed.

Lemma estimate_fast_correct ops : estimate_fast ops = estimate ops.
Proof.
  pose proof (run_inv0 ops) as H. unfold estimate, estimate_fast.
  destruct (run_ops ops), (est_sizes ops); try contradiction; try reflexivity.
  destruct H as (Hi & Ho & Hh & Hz). rewrite vsize_mk by assumption. now rewrite Hi, Ho, <- Hz.
Qed.
Lemma estimate_shapes ops e : estimate ops = VOk e -> e = z_vsize (shape_sizes ops).
Proof.
  pose proof (run_inv0 ops) as H. unfold estimate.
  destruct (run_ops ops), (est_sizes ops); try contradiction; try discriminate.
  destruct H as (Hi & Ho & Hh & Hz). intros E. injection E as <-. rewrite vsize_mk by assumption.
  unfold shape_sizes. now rewrite Hi, Ho.
Qed.

(* ------------------------------------------------------------------ Part C: DER length *)
Lemma half_order_val : half_order = 57896044618658097711785492504343953926418782139537452191302581570759080747168.
Proof. reflexivity. Qed.
Lemma secp_n_val : secp_n = 2 * half_order + 1.
Proof. reflexivity. Qed.
Lemma half_lt_255 : half_order < 2 ^ 255.
Proof. reflexivity. Qed.
Lemma secp_lt_256 : secp_n < 2 ^ 256.
Proof. reflexivity. Qed.

Lemma size_bound x b : x < 2 ^ b -> N.size x <= b.
Proof.
  intros H. destruct (N.eq_dec x 0) as [->|Hx]; [cbn; lia|].
  rewrite N.size_log2 by assumption. apply N.le_succ_l. apply N.log2_lt_pow2; lia.
Qed.
Lemma byte_len_bound x k : x < 2 ^ (8 * k) -> byte_len x <= k.
Proof. intros H. apply size_bound in H. unfold byte_len. lia. Qed.
Lemma be_bytes_len x : len (be_bytes x) = byte_len x.
Proof. unfold be_bytes. rewrite len_rev, le_bytes_len. lia. Qed.
Lemma canon_len_le x : 1 <= len (canonicalize_int x) <= byte_len x + 1.
Proof.
  unfold canonicalize_int. pose proof (be_bytes_len x) as L.
  destruct (be_bytes x) as [|b t] eqn:E.
  - cbn. lia.
  - cbv iota. cbn [hd]. rewrite len_cons in L. destruct (128 <=? b); rewrite ?len_cons; lia.
Qed.
Lemma hd_app_ne {A} (d : A) l m : l <> [] -> hd d (l ++ m) = hd d l.
Proof. destruct l; [congruence|reflexivity]. Qed.
Lemma hd_be n : forall x, hd 0 (rev (le_bytes (S n) x)) = (x / 256 ^ N.of_nat n) mod 256.
Proof.
  induction n; intros x.
  - cbn [le_bytes rev app hd N.of_nat]. rewrite N.pow_0_r, N.div_1_r. reflexivity.
  - change (le_bytes (S (S n)) x) with (x mod 256 :: le_bytes (S n) (x / 256)).
    cbn [rev]. rewrite hd_app_ne.
    + rewrite IHn. rewrite N.div_div by (try apply N.pow_nonzero; lia).
      replace (256 * 256 ^ N.of_nat n) with (256 ^ N.of_nat (S n)); [reflexivity|].
      rewrite Nat2N.inj_succ, N.pow_succ_r'. reflexivity.
    + intros E. apply (f_equal (@length N)) in E. rewrite rev_length in E.
      pose proof (le_bytes_len (S n) (x / 256)) as L. unfold len in L. rewrite E in L. cbn in L. lia.
Qed.
Lemma canon_len_255 x : x < 2 ^ 255 -> len (canonicalize_int x) <= 32.
Proof.
  intros H. assert (B : byte_len x <= 32) by (apply byte_len_bound; cbn; lia).
  pose proof (canon_len_le x) as C.
  destruct (N.eq_dec (byte_len x) 32) as [E|E]; [|lia].
  unfold canonicalize_int. pose proof (be_bytes_len x) as L.
  assert (Hd : hd 0 (be_bytes x) = (x / 256 ^ 31) mod 256).
  { unfold be_bytes. rewrite E. change (N.to_nat 32) with (S 31). rewrite hd_be. reflexivity. }
  destruct (be_bytes x) as [|b t] eqn:Eb; [rewrite len_nil in L; lia|].
  rewrite Hd. assert (x / 256 ^ 31 < 128).
  { apply N.div_lt_upper_bound; [apply N.pow_nonzero; lia|]. exact H. }
  rewrite N.mod_small by lia. destruct (128 <=? x / 256 ^ 31) eqn:E2; [lia|]. rewrite L. lia.
Qed.
Lemma der_raw_len r s : len (der_raw r s) = 6 + len (canonicalize_int r) + len (canonicalize_int s).
Proof. unfold der_raw. rewrite !len_app, !len_cons, !len_nil. lia. Qed.
Lemma low_s_bound s : 0 < s < secp_n -> 0 < low_s s <= half_order.
Proof. unfold low_s. rewrite secp_n_val. intros H. destruct (half_order <? s) eqn:E; lia. Qed.
(* maximal DER length with the low-S step: 6 + 33 + 32 *)
Lemma der_len r s : 0 < r < secp_n -> 0 < s < secp_n -> 8 <= len (der_serialize r s) <= 71.
Proof.
  intros Hr Hs. unfold der_serialize. rewrite der_raw_len.
  pose proof (low_s_bound s Hs) as Ls. pose proof half_lt_255. pose proof secp_lt_256.
  assert (len (canonicalize_int (low_s s)) <= 32) by (apply canon_len_255; lia).
  assert (byte_len r <= 32) by (apply byte_len_bound; cbn; lia).
  pose proof (canon_len_le r). pose proof (canon_len_le (low_s s)). lia.
Qed.
(* without it: 6 + 33 + 33 *)
Lemma der_raw_len_bound r s : r < secp_n -> s < secp_n -> len (der_raw r s) <= 72.
Proof.
  intros Hr Hs. rewrite der_raw_len. pose proof secp_lt_256.
  assert (byte_len r <= 32) by (apply byte_len_bound; cbn; lia).
  assert (byte_len s <= 32) by (apply byte_len_bound; cbn; lia).
  pose proof (canon_len_le r). pose proof (canon_len_le s). lia.
Qed.

(* ------------------------------------------------------------------ Part D: the signed transaction *)
Lemma le_bytes_length n v : length (le_bytes n v) = n.
Proof. revert v. induction n; intros; cbn [le_bytes length]; auto. Qed.
Lemma pk_len p : len (pk_bytes p) = 33.
Proof. unfold pk_bytes. rewrite len_cons, len_rev, le_bytes_len. reflexivity. Qed.

Definition sl_with (der : N -> N -> list N) (i : rin) : N := len (sig_bytes_with der i).
Definition sl_of := sl_with der_serialize.
Definition real_trip_with (der : N -> N -> list N) (i : rin) : trip :=
  let k := rkind_of (ri_kind i) in
  (fst (rk_sizes k (sl_with der i) 33), snd (rk_sizes k (sl_with der i) 33), rk_wit k).
Definition real_trip := real_trip_with der_serialize.

Lemma sl_bounds i : sig_in_range i = true -> 9 <= sl_of i <= 72.
Proof.
  unfold sig_in_range, sl_of, sl_with, sig_bytes_with. intros H. rewrite len_app.
  change (len [sighash_all]) with 1.
  pose proof (der_len (Z.to_N (ri_r i)) (Z.to_N (ri_s i))) as D. lia.
Qed.

(* generic in the DER function: only the length window of the signature is used *)
Lemma sign_input_with_spec der i ti :
  sign_input_with der i = Some ti -> 2 <= sl_with der i <= 75 ->
  in_trip ti = real_trip_with der i /\ hash32 ti.
Proof.
  unfold sign_input_with. destruct (sig_in_range i && ri_curve_ok i) eqn:E; cbn [negb]; [|discriminate].
  intros H B. unfold sl_with in B. set (sg := sig_bytes_with der i) in *.
  pose proof (pk_len (ri_pk i)) as Lpk. set (pk := pk_bytes (ri_pk i)) in *.
  assert (H32 : forall sc w, hash32 (real_txin i sc w)) by (intros; apply le_bytes_length).
  unfold real_trip_with, sl_with. fold sg.
  destruct (ri_kind i) as [[]|[] redeem]; cbn [rkind_of rk_sizes rk_wit fst snd].
  - injection H as <-. split; [|apply H32]. unfold in_trip, real_txin. rewrite txin_size_mk, wit_size_mk.
    cbn [mk_in ti_witness is_nil negb map]. unfold sumN. cbn [fold_right]. rewrite Lpk.
    change (len [sg; pk]) with 2. change (len (@nil N)) with 0. f_equal. f_equal.
    change (cs_size 2) with 1. lia.
  - destruct (sig_script2 sg pk B Lpk) as (s & Hs & Ls). rewrite Hs in H. injection H as <-.
    split; [|apply H32]. unfold in_trip, real_txin. rewrite txin_size_mk, Ls. reflexivity.
  - injection H as <-. split; [|apply H32]. unfold in_trip, real_txin. rewrite txin_size_mk, wit_size_mk.
    cbn [mk_in ti_witness is_nil negb map]. unfold sumN. cbn [fold_right]. rewrite Lpk.
    change (len [sg; pk; redeem]) with 3. change (len (@nil N)) with 0. f_equal. f_equal.
    change (cs_size 3) with 1. lia.
  - destruct (sig_script2 sg pk B Lpk) as (s & Hs & Ls). destruct redeem as [|b t].
    + rewrite Hs in H. injection H as <-. split; [|apply H32]. unfold in_trip, real_txin.
      rewrite txin_size_mk, Ls. cbn [redeem_push]. rewrite N.add_0_r. reflexivity.
    + rewrite sig_script3, Hs in H.
      assert (push_len (len sg) <= 78) by (pose proof (push_len_bound (len sg)); lia).
      change (push_len 33) with 34 in Ls.
      rewrite sb_add_data_short in H by lia. destruct (520 <? len (b :: t)); [discriminate|].
      set (adr := add_data_raw (b :: t)) in H.
      assert (Ladr : len adr = canonical_data_size (b :: t)) by apply add_data_raw_len. clearbody adr.
      injection H as <-. split; [|apply H32]. unfold in_trip, real_txin.
      rewrite txin_size_mk, len_app, Ls, Ladr. reflexivity.
Qed.
Lemma sign_input_spec i ti :
  sign_input i = Some ti -> in_trip ti = real_trip i /\ hash32 ti /\ 9 <= sl_of i <= 72.
Proof.
  intros H. assert (R : sig_in_range i = true).
  { unfold sign_input, sign_input_with in H. destruct (sig_in_range i); [reflexivity|discriminate]. }
  pose proof (sl_bounds i R) as B. destruct (sign_input_with_spec der_serialize i ti H) as (A1 & A2).
  - unfold sl_of in B. lia.
  - auto.
Qed.

Lemma all_some_spec {A B} (f : A -> option B) l r :
  all_some (map f l) = Some r -> Forall2 (fun x y => f x = Some y) l r.
Proof.
  revert r. induction l as [|a l IH]; intros r H; cbn [map all_some] in H.
  - injection H as <-. constructor.
  - destruct (f a) eqn:E; [|discriminate]. destruct (all_some (map f l)); [|discriminate].
    injection H as <-. constructor; auto.
Qed.
Lemma build_with_spec der ins outs T :
  build_with der ins outs = Some T ->
  exists l, T = mk_tx l outs /\ Forall2 (fun x y => sign_input_with der x = Some y) ins l.
Proof.
  unfold build_with. destruct ins as [|i0 ins']; [discriminate|]. set (ins := i0 :: ins').
  destruct (all_some (map (sign_input_with der) ins)) as [l|] eqn:E; [|discriminate].
  intros H. injection H as <-. exists l. split; [reflexivity|]. now apply all_some_spec.
Qed.

(* ------------------------------------------------------------------ Part E: domination *)
Lemma cs_size_mono a b : a <= b -> cs_size a <= cs_size b.
Proof.
  unfold cs_size. intros.
  destruct (a <? 253) eqn:?; destruct (a <=? 65535) eqn:?; destruct (a <=? 4294967295) eqn:?;
  destruct (b <? 253) eqn:?; destruct (b <=? 65535) eqn:?; destruct (b <=? 4294967295) eqn:?; lia.
Qed.
Lemma var_len_mono a b : a <= b -> var_len a <= var_len b.
Proof. intros H. pose proof (cs_size_mono a b H). unfold var_len. lia. Qed.
Lemma push_len_mono a b : a <= b -> push_len a <= push_len b.
Proof.
  unfold push_len. intros.
  destruct (a =? 0) eqn:?; destruct (a <? 76) eqn:?; destruct (a <=? 255) eqn:?; destruct (a <=? 65535) eqn:?;
  destruct (b =? 0) eqn:?; destruct (b <? 76) eqn:?; destruct (b <=? 255) eqn:?; destruct (b <=? 65535) eqn:?; lia.
Qed.
Lemma push_len_ge n : n + 1 <= push_len n.
Proof.
  unfold push_len.
  destruct (n =? 0) eqn:?; destruct (n <? 76) eqn:?; destruct (n <=? 255) eqn:?; destruct (n <=? 65535) eqn:?; lia.
Qed.
Lemma redeem_push_le redeem l :
  len redeem <= l -> negb ((l =? 1) && (canonical_data_size redeem =? 2)) = true ->
  redeem_push redeem <= zeros_push_len l.
Proof.
  intros Hl Hc. destruct redeem as [|b t]; [cbn [redeem_push]; lia|]. cbn [redeem_push].
  set (d := b :: t) in *. unfold zeros_push_len.
  destruct (N.le_gt_cases 2 (len d)) as [G|G].
  - rewrite cds_ge2 by assumption. destruct (l =? 1) eqn:E; [lia|]. now apply push_len_mono.
  - pose proof (cds_small d ltac:(lia)) as S. destruct (l =? 1) eqn:E.
    + cbn [andb] in Hc. destruct (canonical_data_size d =? 2) eqn:E2; [discriminate|]. lia.
    + assert (1 <= len d) by (unfold d; rewrite len_cons; lia). pose proof (push_len_ge l). lia.
Qed.

Definition trip_le (a b : trip) : Prop :=
  t_base a <= t_base b /\ t_wit a <= t_wit b /\ (t_hw a = true -> t_hw b = true).

Lemma covered_trip s i ti :
  in_covered s (ri_kind i) = true -> sign_input i = Some ti -> trip_le (in_trip ti) (ish_trip s).
Proof.
  intros C H. destruct (sign_input_spec i ti H) as (E & _ & B). rewrite E.
  unfold real_trip, real_trip_with. fold sl_of. set (sl := sl_of i) in *. clearbody sl.
  unfold in_covered in C.
  assert (V : var_len sl <= var_len 72) by (apply var_len_mono; lia).
  assert (P : push_len sl <= push_len 72) by (apply push_len_mono; lia).
  destruct s as [w|w l], (ri_kind i) as [w'|w' redeem]; try discriminate.
  - apply eqb_prop in C. subst w'. unfold trip_le, ish_trip, t_base, t_wit, t_hw.
    destruct w; cbn [rkind_of rk_sizes rk_wit fst snd ish_base ish_witsz ish_wit].
    + lia.
    + assert (var_len (push_len sl + push_len 33) <= var_len (push_len 72 + push_len 33))
        by (apply var_len_mono; lia). lia.
  - apply andb_prop in C. destruct C as (C & C3). apply andb_prop in C. destruct C as (C1 & C2).
    apply eqb_prop in C1. subst w'. unfold trip_le, ish_trip, t_base, t_wit, t_hw.
    destruct w; cbn [rkind_of rk_sizes rk_wit fst snd ish_base ish_witsz ish_wit].
    + assert (var_len (len redeem) <= var_len l) by (apply var_len_mono; lia). lia.
    + cbn [orb] in C3. pose proof (redeem_push_le redeem l ltac:(lia) C3).
      assert (var_len (push_len sl + push_len 33 + redeem_push redeem)
              <= var_len (push_len 72 + push_len 33 + zeros_push_len l)) by (apply var_len_mono; lia).
      lia.
Qed.

Lemma F2_sums ra sa : Forall2 trip_le ra sa ->
  len ra = len sa /\ sumN (map t_base ra) <= sumN (map t_base sa)
  /\ sumN (map t_wit ra) <= sumN (map t_wit sa) /\ (existsb t_hw ra = true -> existsb t_hw sa = true).
Proof.
  induction 1 as [|a b ra sa (H1 & H2 & H3) _ (I1 & I2 & I3 & I4)].
  - repeat split; auto; reflexivity.
  - rewrite !len_cons. cbn [map existsb]. unfold sumN in *. cbn [fold_right]. repeat split; try lia.
    intros E. apply orb_true_iff in E. apply orb_true_iff. destruct E; auto.
Qed.
Lemma perm_sums {A} (f g : A -> N) (p : A -> bool) sa rest ea : Permutation (sa ++ rest) ea ->
  len sa <= len ea /\ sumN (map f sa) <= sumN (map f ea) /\ sumN (map g sa) <= sumN (map g ea)
  /\ (existsb p sa = true -> existsb p ea = true).
Proof.
  intros P. repeat split.
  - unfold len. rewrite <- (Permutation_length P), app_length. lia.
  - rewrite <- (sumN_perm _ _ (Permutation_map f P)), map_app, sumN_app. lia.
  - rewrite <- (sumN_perm _ _ (Permutation_map g P)), map_app, sumN_app. lia.
  - intros E. apply existsb_exists in E. destruct E as (x & Hx & Px). apply existsb_exists. exists x.
    split; [|assumption]. apply (Permutation_in _ P). apply in_or_app. now left.
Qed.
Lemma F2_out_sums (ro so : list N) : Forall2 N.le ro so ->
  len ro = len so /\ sumN (map (fun s => 8 + var_len s) ro) <= sumN (map (fun s => 8 + var_len s) so).
Proof.
  induction 1 as [|a b ro so H _ (I1 & I2)]; [split; reflexivity|].
  rewrite !len_cons. cbn [map]. unfold sumN in *. cbn [fold_right]. pose proof (var_len_mono a b H). lia.
Qed.

Lemma weight_mono (ra ea : list trip) (ro eo : list N) :
  len ra <= len ea -> sumN (map t_base ra) <= sumN (map t_base ea) ->
  sumN (map t_wit ra) <= sumN (map t_wit ea) -> (existsb t_hw ra = true -> existsb t_hw ea = true) ->
  len ro <= len eo ->
  sumN (map (fun s => 8 + var_len s) ro) <= sumN (map (fun s => 8 + var_len s) eo) ->
  z_weight (L_sizes ra ro) <= z_weight (L_sizes ea eo).
Proof.
  intros H1 H2 H3 H4 H5 H6. unfold z_weight, z_total, z_base, L_sizes.
  cbn [z_nin z_nout z_in z_out z_wit z_hw].
  pose proof (cs_size_mono _ _ H1). pose proof (cs_size_mono _ _ H5).
  destruct (existsb t_hw ra); destruct (existsb t_hw ea); lia.
Qed.
Lemma vsize_of_weight_mono a b : a <= b -> vsize_of_weight a <= vsize_of_weight b.
Proof. intros. unfold vsize_of_weight. apply N.div_le_mono; lia. Qed.

(* the general domination statement on shapes *)
Lemma dominated_weight ra ro (ss rest : list trip) ea (os resto : list N) eo :
  Forall2 trip_le ra ss -> Permutation (ss ++ rest) ea ->
  Forall2 N.le ro os -> Permutation (os ++ resto) eo ->
  z_weight (L_sizes ra ro) <= z_weight (L_sizes ea eo).
Proof.
  intros F P Fo Po. destruct (F2_sums _ _ F) as (A1 & A2 & A3 & A4).
  destruct (perm_sums t_base t_wit t_hw _ _ _ P) as (B1 & B2 & B3 & B4).
  destruct (F2_out_sums _ _ Fo) as (C1 & C2).
  destruct (perm_sums (fun s => 8 + var_len s) (fun s => s) (fun _ => true) _ _ _ Po) as (D1 & D2 & _ & _).
  apply weight_mono; try lia. auto.
Qed.

Lemma Forall2_map_r {A B C} (R : A -> C -> Prop) (f : B -> C) la lb :
  Forall2 (fun a b => R a (f b)) la lb -> Forall2 R la (map f lb).
Proof. induction 1; cbn [map]; constructor; auto. Qed.
Lemma Forall2_map_l {A B C} (R : C -> B -> Prop) (f : A -> C) la lb :
  Forall2 (fun a b => R (f a) b) la lb -> Forall2 R (map f la) lb.
Proof. induction 1; cbn [map]; constructor; auto. Qed.
Lemma Forall2_flip {A B} (R : A -> B -> Prop) la lb : Forall2 R la lb -> Forall2 (fun b a => R a b) lb la.
Proof. induction 1; constructor; auto. Qed.
Lemma Forall2_imp {A B} (R S : A -> B -> Prop) la lb :
  (forall a b, R a b -> S a b) -> Forall2 R la lb -> Forall2 S la lb.
Proof. intros H. induction 1; constructor; auto. Qed.
Lemma Forall2_chain {A B C} (R : A -> B -> Prop) (S : B -> C -> Prop) (T : A -> C -> Prop) la lb lc :
  (forall a b c, R a b -> S b c -> T a c) -> Forall2 R la lb -> Forall2 S lb lc -> Forall2 T la lc.
Proof.
  intros H F. revert lc. induction F; intros lc G; inversion G; subst; constructor; eauto.
Qed.

Theorem estimate_ge_actual ops ins outs T e :
  estimate ops = VOk e -> build ins outs = Some T ->
  (exists ss rest, Permutation (ss ++ rest) (shape_ins ops)
                   /\ Forall2 (fun s i => in_covered s (ri_kind i) = true) ss ins) ->
  (exists os rest, Permutation (os ++ rest) (shape_outs ops)
                   /\ Forall2 (fun s o => out_covered s o = true) os outs) ->
  vsize T <= e.
Proof.
  intros He Hb (ss & rest & Pi & Fi) (os & resto & Po & Fo).
  apply estimate_shapes in He. subst e.
  destruct (build_with_spec _ _ _ _ Hb) as (l & -> & Fl).
  assert (H32 : Forall hash32 l).
  { clear -Fl. induction Fl; constructor; auto. now destruct (sign_input_spec _ _ H) as (_ & ? & _). }
  rewrite vsize_mk by assumption. unfold z_vsize. apply vsize_of_weight_mono. unfold shape_sizes.
  apply (dominated_weight _ _ (map ish_trip ss) (map ish_trip rest) _ (map oshape_len os) (map oshape_len resto)).
  - apply Forall2_map_l, Forall2_map_r. apply Forall2_flip.
    eapply (Forall2_chain _ _ _ _ _ _ _ Fi Fl). Unshelve.
    intros s i ti C H. cbv beta. now apply (covered_trip s i ti).
  - rewrite <- map_app. now apply Permutation_map.
  - apply Forall2_map_l, Forall2_map_r. apply Forall2_flip. eapply Forall2_imp; [|exact Fo].
    intros s o C. unfold out_covered in C. unfold out_len. lia.
  - rewrite <- map_app. now apply Permutation_map.
Qed.

(* ------------------------------------------------------------------ Part F: corollaries *)
(* the arithmetic size function is the size of the signed transaction *)
Lemma actual_size_formula ins outs T :
  build ins outs = Some T ->
  let z := L_sizes (map real_trip ins) (map out_len outs) in
  base_size T = z_base z /\ total_size T = z_total z /\ vsize T = z_vsize z.
Proof.
  intros Hb. destruct (build_with_spec _ _ _ _ Hb) as (l & -> & Fl).
  assert (H32 : Forall hash32 l).
  { clear -Fl. induction Fl; constructor; auto. now destruct (sign_input_spec _ _ H) as (_ & ? & _). }
  assert (E : map in_trip l = map real_trip ins).
  { clear -Fl. induction Fl; cbn [map]; [reflexivity|]. f_equal; auto.
    now destruct (sign_input_spec _ _ H) as (? & _). }
  cbv zeta. rewrite <- E. rewrite sizes_base, sizes_total, vsize_mk by assumption. repeat split.
Qed.

Lemma signature_length i : sig_in_range i = true -> 9 <= len (sig_bytes_with der_serialize i) <= 72.
Proof. exact (sl_bounds i). Qed.

(* monotonicity of the estimate in the shape *)
Definition ishape_le (a b : ishape) : Prop :=
  match a, b with
  | SPkh w, SPkh w' => w = w'
  | SSh w l, SSh w' l' => w = w' /\ l <= l'
  | _, _ => False
  end.
Lemma zeros_push_len_mono a b : a <= b -> zeros_push_len a <= zeros_push_len b.
Proof.
  intros H. unfold zeros_push_len. pose proof (push_len_mono a b H). pose proof (push_len_ge b).
  destruct (a =? 1) eqn:?; destruct (b =? 1) eqn:?; try lia.
  assert (a = 0) by lia. subst. cbn in *. lia.
Qed.
Lemma ishape_le_trip a b : ishape_le a b -> trip_le (ish_trip a) (ish_trip b).
Proof.
  destruct a as [w|w l], b as [w'|w' l']; cbn [ishape_le]; try contradiction.
  - intros <-. unfold trip_le. repeat split; auto; lia.
  - intros (<- & H). unfold trip_le, ish_trip, t_base, t_wit, t_hw. cbn [fst snd].
    destruct w; cbn [ish_base ish_witsz ish_wit].
    + pose proof (var_len_mono l l' H). repeat split; auto; lia.
    + pose proof (zeros_push_len_mono l l' H).
      assert (var_len (push_len 72 + push_len 33 + zeros_push_len l)
              <= var_len (push_len 72 + push_len 33 + zeros_push_len l')) by (apply var_len_mono; lia).
      repeat split; auto; lia.
Qed.
Theorem estimate_monotone ops1 ops2 e1 e2 :
  estimate ops1 = VOk e1 -> estimate ops2 = VOk e2 ->
  (exists ss rest, Permutation (ss ++ rest) (shape_ins ops2) /\ Forall2 ishape_le (shape_ins ops1) ss) ->
  (exists rest, Permutation (shape_outs ops1 ++ rest) (shape_outs ops2)) ->
  e1 <= e2.
Proof.
  intros H1 H2 (ss & rest & P & F) (resto & Po).
  apply estimate_shapes in H1. apply estimate_shapes in H2. subst. unfold z_vsize, shape_sizes.
  apply vsize_of_weight_mono.
  apply (dominated_weight _ _ (map ish_trip ss) (map ish_trip rest) _
                          (map oshape_len (shape_outs ops1)) (map oshape_len resto)).
  - apply Forall2_map_l, Forall2_map_r. eapply Forall2_imp; [|exact F]. apply ishape_le_trip.
  - rewrite <- map_app. now apply Permutation_map.
  - clear. induction (map oshape_len (shape_outs ops1)); constructor; auto. apply N.le_refl.
  - rewrite <- map_app. now apply Permutation_map.
Qed.
Lemma ishape_le_refl l : Forall2 ishape_le l l.
Proof. induction l as [|[w|w n] l]; constructor; auto; cbn; auto. split; [reflexivity|apply N.le_refl]. Qed.
(* adding calls never lowers the estimate; the order of the calls is irrelevant *)
Corollary estimate_monotone_append ops more e1 e2 :
  estimate ops = VOk e1 -> estimate (ops ++ more) = VOk e2 -> e1 <= e2.
Proof.
  intros H1 H2. apply (estimate_monotone ops (ops ++ more) e1 e2 H1 H2).
  - exists (shape_ins ops), (shape_ins more). split; [|apply ishape_le_refl].
    unfold shape_ins. now rewrite flat_map_app.
  - exists (shape_outs more). unfold shape_outs. now rewrite flat_map_app.
Qed.
Corollary estimate_order_irrelevant ops1 ops2 e1 e2 :
  estimate ops1 = VOk e1 -> estimate ops2 = VOk e2 -> Permutation ops1 ops2 -> e1 = e2.
Proof.
  intros H1 H2 P.
  assert (Pi : Permutation (shape_ins ops1) (shape_ins ops2)) by (apply Permutation_flat_map; assumption).
  assert (Po : Permutation (shape_outs ops1) (shape_outs ops2)) by (apply Permutation_flat_map; assumption).
  apply N.le_antisymm.
  - apply (estimate_monotone ops1 ops2 e1 e2 H1 H2).
    + exists (shape_ins ops1), []. rewrite app_nil_r. split; [assumption|apply ishape_le_refl].
    + exists []. now rewrite app_nil_r.
  - apply (estimate_monotone ops2 ops1 e2 e1 H2 H1).
    + exists (shape_ins ops2), []. rewrite app_nil_r. split; [now apply Permutation_sym|apply ishape_le_refl].
    + exists []. rewrite app_nil_r. now apply Permutation_sym.
Qed.

(* ---- concrete witnesses ---- *)
Definition r33 : Z := (2 ^ 255 + 12345)%Z.              (* needs the 0x00 pad: 33 bytes *)
Definition s_low32 : Z := Z.of_N half_order.            (* largest low S: 32 bytes *)
Definition s_high : Z := (Z.of_N secp_n - 1)%Z.         (* a high S: 33 bytes when not normalised *)
Definition s_high32 : Z := (Z.of_N half_order + 1)%Z.   (* the high S that normalises to [s_low32] *)
Definition mk_rin (k : ikind) (r s : Z) : rin :=
  {| ri_hash := 7; ri_index := 1; ri_kind := k; ri_r := r; ri_s := s;
     ri_pk := {| pk_x := 5; pk_y_odd := true |}; ri_curve_ok := true |}.
Definition redeem126 : list N := repeat 97 126.
Definition out_of (n : nat) : txout := {| to_value := 1000; to_script := repeat 97 n |}.

Lemma witness_of_bool der ops ins outs (P : tx -> N -> bool) :
  match build_with der ins outs, estimate ops with Some T, VOk e => P T e | _, _ => false end = true ->
  exists T e, build_with der ins outs = Some T /\ estimate ops = VOk e /\ P T e = true.
Proof. destruct (build_with der ins outs); destruct (estimate ops); try discriminate; eauto. Qed.

(* equality is reached: all four input kinds, all four output kinds, maximal signatures (also
   from a high S, which the serialiser normalises) *)
Definition tight_ops : list op :=
  [OPkhIn 1 true; OPkhIn 1 false; OShIn 1 126 true; OShIn 1 126 false;
   OPkhOut 1 true; OPkhOut 1 false; OShOut 1 true; OShOut 1 false].
Definition tight_ins : list rin :=
  [mk_rin (KSh false redeem126) r33 s_high32; mk_rin (KPkh true) r33 s_low32;
   mk_rin (KSh true redeem126) r33 s_low32; mk_rin (KPkh false) r33 s_high32].
Definition tight_outs : list txout := [out_of 22; out_of 25; out_of 34; out_of 23].
Example estimate_tight :
  exists T e, build tight_ins tight_outs = Some T /\ estimate tight_ops = VOk e /\
    ((vsize T =? e) && forallb (fun i => len (sig_bytes_with der_serialize i) =? 72) tight_ins) = true.
Proof. apply (witness_of_bool der_serialize). vm_compute. reflexivity. Qed.

(* why the low-S step matters: with the serialiser that skips it ([der_raw]) a 73-byte
   signature appears and the real transaction of exactly the estimated shape is larger *)
Definition high_ins : list rin := [mk_rin (KPkh false) r33 s_high].
Example high_s_would_undershoot :
  exists T e, build_with der_raw high_ins [out_of 22] = Some T /\ estimate [OPkhIn 1 false; OPkhOut 1 true] = VOk e /\
    ((e <? vsize T) && forallb (fun i => len (sig_bytes_with der_raw i) =? 73) high_ins
     && in_covered (SPkh false) (KPkh false) && out_covered (TPkh true) (out_of 22)) = true.
Proof. apply (witness_of_bool der_raw). vm_compute. reflexivity. Qed.

(* why the guard of [in_covered] on one-byte redeem scripts: the placeholder 0x00 is pushed as
   OP_0 (1 byte), the real script 0x51 as 0x01 0x51 (2 bytes) *)
Example one_byte_redeem_undershoots :
  exists T e, build [mk_rin (KSh false [81]) r33 s_low32] [out_of 22] = Some T /\
              estimate [OShIn 1 1 false; OPkhOut 1 true] = VOk e /\ (vsize T =? e + 1) = true.
Proof. apply (witness_of_bool der_serialize). vm_compute. reflexivity. Qed.

(* callers: a deposit sweep of P2WSH deposits is covered by what estimateDepositsSweepFee
   announces; one of P2SH deposits is not, and is larger than the estimate *)
Definition p2sh_sweep_ins : list rin :=
  [mk_rin (KPkh true) r33 s_low32; mk_rin (KSh false redeem126) r33 s_low32;
   mk_rin (KSh false redeem126) r33 s_low32].
Example sweep_p2sh_deposits_exceed_estimate :
  exists T e, build p2sh_sweep_ins [out_of 22] = Some T /\ estimate (sweep_ops 2) = VOk e /\
              (e + 300 <? vsize T) = true.
Proof. apply (witness_of_bool der_serialize). vm_compute. reflexivity. Qed.

(* ---- the executable spec ---- *)
Lemma spec_ok_sound c e r :
  spec_ok c = true -> covered c = true -> c_est c = VOk e -> c_real c = Some r ->
  r_vsize r <= e /\ vsize_of_weight (r_base r * 3 + r_total r) <= e.
Proof. unfold spec_ok. intros H C E R. rewrite E, R, C in H. lia. Qed.

(* ------------------------------------------------------------------ Part G: [covered] => matching *)
(* what a case says about the real transaction.  A group [c] of the case stands for [ci_mult c]
   real inputs of the kind [ci_kind c] (class, witness flag, redeem length, push length of the
   redeem script); a pair (m, n) for m outputs with an n-byte script.  Signature and key
   lengths are not constrained.  The wallet's input order is not the estimator's, hence the
   permutations in [describes]. *)
Definition cin_rel (c : cin) (i : rin) : Prop := rkind_of (ri_kind i) = rkind_of_c (ci_kind c).
Definition cout_rel (p : N * N) (o : txout) : Prop := out_len o = snd p.
Inductive groups_of {A B} (R : A -> B -> Prop) (mult : A -> N) : list A -> list B -> Prop :=
| groups_nil : groups_of R mult [] []
| groups_cons a g l r : len g = mult a -> Forall (R a) g -> groups_of R mult l r ->
                        groups_of R mult (a :: l) (g ++ r).
Inductive items_describe : list item -> list rin -> list txout -> Prop :=
| describe_nil : items_describe [] [] []
| describe_cons it gi go l ri ro :
    groups_of cin_rel ci_mult (it_ins it) gi -> groups_of cout_rel fst (it_outs it) go ->
    items_describe l ri ro -> items_describe (it :: l) (gi ++ ri) (go ++ ro).
Definition describes (items : list item) (ins : list rin) (outs : list txout) : Prop :=
  exists ins' outs', Permutation ins ins' /\ Permutation outs outs' /\ items_describe items ins' outs'.

(* the witness flag of every real input is the announced one (for the deposit-sweep cases,
   whose coverage check ignores it: no legacy P2SH deposit among the swept ones) *)
Definition ck_wit (k : ckind) : bool := match k with CPkh w => w | CSh w _ _ => w end.
Definition flags_agree (it : item) : bool :=
  match op_in_shape (it_op it) with
  | Some s => forallb (fun c => Bool.eqb (ish_wit s) (ck_wit (ci_kind c))) (it_ins it)
  | None => true
  end.

Lemma groups_len {A B} (R : A -> B -> Prop) mult l r :
  groups_of R mult l r -> len r = sumN_map mult l.
Proof.
  induction 1 as [|a g l r Hl Hg G IH]; [reflexivity|].
  rewrite len_app. unfold sumN_map in *. cbn [fold_right]. lia.
Qed.
Lemma groups_all {A B} (R : A -> B -> Prop) mult (p : A -> bool) (Q : B -> Prop) l r :
  groups_of R mult l r -> forallb p l = true -> (forall a b, p a = true -> R a b -> Q b) -> Forall Q r.
Proof.
  intros G. induction G as [|a g l r Hl Hg G IH]; intros Hp HQ; [constructor|].
  cbn [forallb] in Hp. apply andb_prop in Hp. destruct Hp as (Pa & Pl).
  apply Forall_app. split; [|auto]. eapply Forall_impl; [|exact Hg]. intros b Rb. now apply (HQ a).
Qed.
Lemma groups_nil_inv {A B} (R : A -> B -> Prop) mult r : groups_of R mult [] r -> r = [].
Proof. inversion 1. reflexivity. Qed.

Lemma cds2_redeem_push redeem : (canonical_data_size redeem =? 2) = (redeem_push redeem =? 2).
Proof. destruct redeem; reflexivity. Qed.
Lemma c_in_covered_sound s c i :
  cin_rel c i -> c_in_covered s (ci_kind c) = true -> in_covered s (ri_kind i) = true.
Proof.
  unfold cin_rel. destruct s as [w|w l], (ci_kind c) as [w1|w1 rl f], (ri_kind i) as [w2|w2 redeem];
    cbn [rkind_of rkind_of_c c_in_covered in_covered]; intros E H; try discriminate.
  - injection E as E1. subst. exact H.
  - injection E as E1 E2 E3. subst. rewrite cds2_redeem_push, E3. exact H.
Qed.
Lemma sweep_covered_flags s k :
  c_in_covered_sweep s k = true -> Bool.eqb (ish_wit s) (ck_wit k) = true -> c_in_covered s k = true.
Proof.
  destruct s as [w|w l], k as [w'|w' rl f]; cbn [c_in_covered_sweep c_in_covered ish_wit ck_wit]; try discriminate.
  - auto.
  - intros H F. rewrite F. apply andb_prop in H. destruct H as (H1 & H2). rewrite H2. cbn [andb].
    replace (l =? 1) with false by lia. cbn [andb negb]. apply orb_true_r.
Qed.

Lemma op_ishapes_repeat o s : op_in_shape o = Some s -> op_ishapes o = repeat s (N.to_nat (op_count o)).
Proof.
  destruct o as [c w|c l w|c w|c w]; cbn [op_in_shape op_ishapes op_count]; try discriminate.
  - intros E. injection E as <-. unfold op_count, times, count_N. now rewrite Z_N_nat.
  - destruct (l <? 0)%Z; [discriminate|]. intros E. injection E as <-. unfold op_count, times, count_N. now rewrite Z_N_nat.
Qed.
Lemma op_oshapes_repeat o s : op_out_shape o = Some s -> op_oshapes o = repeat s (N.to_nat (op_count o)).
Proof.
  destruct o as [c w|c l w|c w|c w]; cbn [op_out_shape op_oshapes op_count]; try discriminate;
    intros E; injection E as <-; unfold op_count, times, count_N; now rewrite Z_N_nat.
Qed.
Lemma repeat_cover {A B} (R : A -> B -> Prop) (s : A) (g : list B) n :
  Forall (R s) g -> (length g <= n)%nat ->
  exists ss rest, ss ++ rest = repeat s n /\ Forall2 R ss g.
Proof.
  intros F L. exists (repeat s (length g)), (repeat s (n - length g)). split.
  - rewrite <- repeat_app. f_equal. lia.
  - clear L. induction F; cbn [length repeat]; constructor; auto.
Qed.

Lemma item_in_matching o cins couts gi :
  item_covered {| it_op := o; it_ins := cins; it_outs := couts |} = true ->
  groups_of cin_rel ci_mult cins gi ->
  exists ss rest, ss ++ rest = op_ishapes o /\ Forall2 (fun s i => in_covered s (ri_kind i) = true) ss gi.
Proof.
  unfold item_covered, item_covered_with. cbn [it_op it_ins it_outs]. intros C G.
  apply andb_prop in C. destruct C as (C & _). apply andb_prop in C. destruct C as (Cn & Ci).
  pose proof (groups_len _ _ _ _ G) as L.
  destruct cins as [|c0 cs].
  - apply groups_nil_inv in G. subst gi. exists [], (op_ishapes o). split; [reflexivity|constructor].
  - destruct (op_in_shape o) as [s|] eqn:Es; [|discriminate].
    rewrite (op_ishapes_repeat _ _ Es). apply repeat_cover.
    + eapply groups_all; [exact G|exact Ci|]. intros c i Hc Hr. cbv beta in Hc. now apply (c_in_covered_sound s c i).
    + unfold len in L. lia.
Qed.
Lemma item_out_matching o cins couts go :
  item_covered {| it_op := o; it_ins := cins; it_outs := couts |} = true ->
  groups_of cout_rel fst couts go ->
  exists os rest, os ++ rest = op_oshapes o /\ Forall2 (fun s x => out_covered s x = true) os go.
Proof.
  unfold item_covered, item_covered_with. cbn [it_op it_ins it_outs]. intros C G.
  apply andb_prop in C. destruct C as (C & Co). apply andb_prop in C. destruct C as (Cn & _).
  pose proof (groups_len _ _ _ _ G) as L.
  destruct couts as [|c0 cs].
  - apply groups_nil_inv in G. subst go. exists [], (op_oshapes o). split; [reflexivity|constructor].
  - destruct (op_out_shape o) as [s|] eqn:Es; [|discriminate].
    rewrite (op_oshapes_repeat _ _ Es). apply repeat_cover.
    + eapply groups_all; [exact G|exact Co|]. intros p x Hp Hr. cbv beta in Hp.
      unfold cout_rel, out_len in Hr. unfold out_covered. lia.
    + unfold len in L. lia.
Qed.

Lemma matching_app {A B} (R : A -> B -> Prop) ss1 rest1 sh1 ss2 rest2 sh2 g1 g2 :
  ss1 ++ rest1 = sh1 -> Forall2 R ss1 g1 ->
  Permutation (ss2 ++ rest2) sh2 -> Forall2 R ss2 g2 ->
  Permutation ((ss1 ++ ss2) ++ (rest1 ++ rest2)) (sh1 ++ sh2) /\ Forall2 R (ss1 ++ ss2) (g1 ++ g2).
Proof.
  intros <- F1 P F2. split; [|now apply Forall2_app].
  rewrite <- !app_assoc. apply Permutation_app_head.
  etransitivity; [apply Permutation_app_swap_app|]. now apply Permutation_app_head.
Qed.

Lemma items_matching items ri ro :
  items_describe items ri ro -> forallb item_covered items = true ->
  (exists ss rest, Permutation (ss ++ rest) (shape_ins (map it_op items))
                   /\ Forall2 (fun s i => in_covered s (ri_kind i) = true) ss ri) /\
  (exists os rest, Permutation (os ++ rest) (shape_outs (map it_op items))
                   /\ Forall2 (fun s o => out_covered s o = true) os ro).
Proof.
  induction 1 as [|it gi go l ri ro Gi Go D IH]; intros C.
  - split; exists [], []; split; constructor.
  - cbn [forallb] in C. apply andb_prop in C. destruct C as (Ci & Cl).
    destruct (IH Cl) as ((ss2 & r2 & P2 & F2) & (os2 & q2 & Q2 & G2)).
    destruct it as [o cins couts]. cbn [it_ins it_outs] in Gi, Go.
    destruct (item_in_matching _ _ _ _ Ci Gi) as (ss1 & r1 & E1 & F1).
    destruct (item_out_matching _ _ _ _ Ci Go) as (os1 & q1 & E1' & G1).
    cbn [map it_op shape_ins shape_outs flat_map]. split.
    + exists (ss1 ++ ss2), (r1 ++ r2). now apply matching_app.
    + exists (os1 ++ os2), (q1 ++ q2). now apply matching_app.
Qed.

Lemma item_covered_weaken cov it :
  item_covered_with cov it = true ->
  (forall s c, op_in_shape (it_op it) = Some s -> In c (it_ins it) -> cov s (ci_kind c) = true ->
               c_in_covered s (ci_kind c) = true) ->
  item_covered it = true.
Proof.
  unfold item_covered, item_covered_with. intros C W.
  apply andb_prop in C. destruct C as (C & Co). apply andb_prop in C. destruct C as (Cn & Ci).
  rewrite Cn, Co. cbn [andb]. rewrite andb_true_r.
  destruct (it_ins it) as [|c0 cs] eqn:E; [reflexivity|].
  destruct (op_in_shape (it_op it)) as [s|]; [|discriminate].
  rewrite forallb_forall in *. intros c Hc. apply (W s c eq_refl Hc). now apply Ci.
Qed.
Lemma covered_items c :
  covered c = true -> (is_sweep (c_caller c) = true -> forallb flags_agree (c_items c) = true) ->
  forallb item_covered (c_items c) = true.
Proof.
  unfold covered. destruct (is_sweep (c_caller c)); intros C F; [|exact C].
  specialize (F eq_refl). rewrite forallb_forall in *. intros it Hit.
  apply (item_covered_weaken c_in_covered_sweep); [now apply C|].
  intros s k Es Hk Hc. apply sweep_covered_flags; [assumption|].
  specialize (F it Hit). unfold flags_agree in F. rewrite Es in F. rewrite forallb_forall in F. now apply F.
Qed.

Theorem covered_sound c ins outs :
  covered c = true -> (is_sweep (c_caller c) = true -> forallb flags_agree (c_items c) = true) ->
  describes (c_items c) ins outs ->
  (exists ss rest, Permutation (ss ++ rest) (shape_ins (map it_op (c_items c)))
                   /\ Forall2 (fun s i => in_covered s (ri_kind i) = true) ss ins) /\
  (exists os rest, Permutation (os ++ rest) (shape_outs (map it_op (c_items c)))
                   /\ Forall2 (fun s o => out_covered s o = true) os outs).
Proof.
  intros C F (ins' & outs' & Pi & Po & D).
  destruct (items_matching _ _ _ D (covered_items c C F)) as ((ss & r & P & Fi) & (os & q & Q & Fo)).
  split.
  - apply Forall2_flip in Fi.
    destruct (Permutation_Forall2 (Permutation_sym Pi) Fi) as (ss' & Ps & Fs).
    exists ss', r. split; [|now apply Forall2_flip in Fs].
    etransitivity; [|exact P]. apply Permutation_app_tail. now apply Permutation_sym.
  - apply Forall2_flip in Fo.
    destruct (Permutation_Forall2 (Permutation_sym Po) Fo) as (os' & Ps & Fs).
    exists os', q. split; [|now apply Forall2_flip in Fs].
    etransitivity; [|exact Q]. apply Permutation_app_tail. now apply Permutation_sym.
Qed.

Corollary covered_estimate_ge_actual c ins outs T e :
  covered c = true -> (is_sweep (c_caller c) = true -> forallb flags_agree (c_items c) = true) ->
  describes (c_items c) ins outs ->
  estimate (map it_op (c_items c)) = VOk e -> build ins outs = Some T ->
  vsize T <= e.
Proof.
  intros C F D He Hb. destruct (covered_sound c ins outs C F D) as (Mi & Mo).
  exact (estimate_ge_actual _ _ _ _ _ He Hb Mi Mo).
Qed.

(* the premises of [covered_estimate_ge_actual] are satisfiable: a case of two identical P2WPKH
   inputs given as ONE group of multiplicity 2 (signed with a low and with a high S) and one
   output *)
Definition ex_ins : list rin := [mk_rin (KPkh true) r33 s_low32; mk_rin (KPkh true) r33 s_high32].
Definition ex_case : case :=
  {| c_items := [ {| it_op := OPkhIn 2 true;
                     it_ins := [ {| ci_kind := CPkh true; ci_sl := 72; ci_pl := 33; ci_mult := 2 |} ];
                     it_outs := [] |};
                  {| it_op := OPkhOut 1 true; it_ins := []; it_outs := [(1, 22)] |} ];
     c_caller := None; c_est := VOk 0; c_real := None; c_sigs := [] |}.
Example covered_premises_satisfiable :
  covered ex_case = true /\ is_sweep (c_caller ex_case) = false /\
  describes (c_items ex_case) ex_ins [out_of 22] /\
  exists T e, build ex_ins [out_of 22] = Some T /\ estimate (map it_op (c_items ex_case)) = VOk e /\ (vsize T <=? e) = true.
Proof.
  split; [reflexivity|]. split; [reflexivity|]. split.
  - exists ex_ins, [out_of 22]. split; [apply Permutation_refl|]. split; [apply Permutation_refl|].
    cbn [c_items ex_case].
    apply (describe_cons _ ex_ins [] _ [] [out_of 22]).
    + cbn [it_ins]. apply (groups_cons _ _ _ ex_ins [] []); [reflexivity| |constructor].
      repeat constructor.
    + constructor.
    + apply (describe_cons _ [] [out_of 22] [] [] []).
      * constructor.
      * cbn [it_outs]. apply (groups_cons _ _ _ [out_of 22] [] []); [reflexivity| |constructor].
        repeat constructor.
      * constructor.
  - apply (witness_of_bool der_serialize _ _ _ (fun T e => vsize T <=? e)). vm_compute. reflexivity.
Qed.

(* ------------------------------------------------------------------ Part H: exactness *)
(* a real input uses an announced slot exactly: covered, redeem script of exactly the announced
   length, and not the one shape whose placeholder is larger than any real input: a non-witness
   script-hash input announced with an EMPTY redeem script (the estimator pushes the empty
   placeholder as OP_0, the builder pushes nothing: [empty_redeem_overestimates]) *)
Definition in_exact (s : ishape) (k : ikind) : bool :=
  in_covered s k &&
  match s, k with
  | SSh w l, KSh _ redeem => (len redeem =? l) && (w || negb (l =? 0))
  | _, _ => true
  end.

Lemma exact_trip s i ti :
  in_exact s (ri_kind i) = true -> sign_input i = Some ti -> sl_of i = 72 -> in_trip ti = ish_trip s.
Proof.
  intros X H S. destruct (sign_input_spec i ti H) as (E & _ & _). rewrite E.
  unfold real_trip, real_trip_with. fold sl_of. rewrite S. clear E H S.
  unfold in_exact in X. apply andb_prop in X. destruct X as (C & X). unfold in_covered in C.
  destruct s as [w|w l], (ri_kind i) as [w'|w' redeem]; try discriminate.
  - apply eqb_prop in C. subst w'. destruct w; reflexivity.
  - apply andb_prop in X. destruct X as (X1 & X2). apply N.eqb_eq in X1.
    apply andb_prop in C. destruct C as (C & C3). apply andb_prop in C. destruct C as (C1 & _).
    apply eqb_prop in C1. subst w'. unfold ish_trip.
    destruct w; cbn [rkind_of rk_sizes rk_wit fst snd ish_base ish_witsz ish_wit] in *.
    + now rewrite X1.
    + assert (P : redeem_push redeem = zeros_push_len l).
      { destruct redeem as [|b t]; [rewrite len_nil in X1; lia|]. cbn [redeem_push].
        set (d := b :: t) in *. unfold zeros_push_len.
        destruct (N.le_gt_cases 2 (len d)) as [G|G].
        - rewrite cds_ge2 by assumption. rewrite X1. destruct (l =? 1) eqn:E1; [lia|reflexivity].
        - assert (L1 : len d = 1) by (unfold d in *; rewrite len_cons in *; lia).
          pose proof (cds_small d ltac:(lia)) as Sm.
          replace (l =? 1) with true in * by lia. cbn [andb] in C3.
          destruct (canonical_data_size d =? 2) eqn:E2; [discriminate|]. lia. }
      now rewrite P.
Qed.

Lemma existsb_perm {A} (p : A -> bool) a b : Permutation a b -> existsb p a = existsb p b.
Proof.
  induction 1; cbn [existsb]; try congruence.
  now destruct (p x), (p y).
Qed.
Lemma L_sizes_perm a a' o o' : Permutation a a' -> Permutation o o' -> L_sizes a o = L_sizes a' o'.
Proof.
  intros Pa Po. unfold L_sizes. f_equal.
  - unfold len. now rewrite (Permutation_length Pa).
  - unfold len. now rewrite (Permutation_length Po).
  - apply sumN_perm. now apply Permutation_map.
  - apply sumN_perm. now apply Permutation_map.
  - apply sumN_perm. now apply Permutation_map.
  - now apply existsb_perm.
Qed.
Lemma Forall2_map_eq {A B C} (f : A -> C) (g : B -> C) la lb :
  Forall2 (fun a b => f a = g b) la lb -> map f la = map g lb.
Proof. induction 1; cbn [map]; congruence. Qed.

(* tightness as a theorem: whenever every announced slot is used exactly and every signature
   has the maximal 72-byte encoding, the estimate IS the virtual size (the weights are equal,
   so no rounding slack) *)
Theorem estimate_exact_for_maximal_signatures ops ins outs T e :
  estimate ops = VOk e -> build ins outs = Some T ->
  (exists ss, Permutation ss (shape_ins ops) /\ Forall2 (fun s i => in_exact s (ri_kind i) = true) ss ins) ->
  (exists os, Permutation os (shape_outs ops) /\ Forall2 (fun s o => len (to_script o) = oshape_len s) os outs) ->
  Forall (fun i => len (sig_bytes_with der_serialize i) = 72) ins ->
  vsize T = e.
Proof.
  intros He Hb (ss & Pi & Fi) (os & Po & Fo) S.
  apply estimate_shapes in He. subst e.
  destruct (build_with_spec _ _ _ _ Hb) as (l & -> & Fl).
  assert (H32 : Forall hash32 l).
  { clear -Fl. induction Fl; constructor; auto. now destruct (sign_input_spec _ _ H) as (_ & ? & _). }
  rewrite vsize_mk by assumption. f_equal. unfold shape_sizes.
  assert (Ei : map in_trip l = map ish_trip ss).
  { clear -Fi Fl S. revert l Fl. induction Fi as [|s i ss ins X Fi IH]; intros l Fl; inversion Fl; subst; [reflexivity|].
    inversion S; subst. cbn [map]. f_equal; [|now apply IH].
    eapply exact_trip; eauto. }
  assert (Eo : map out_len outs = map oshape_len os).
  { symmetry. apply Forall2_map_eq. eapply Forall2_imp; [|exact Fo]. intros s o H. unfold out_len. now rewrite H. }
  rewrite Ei, Eo. apply L_sizes_perm; now apply Permutation_map.
Qed.

(* the premises hold of [tight_ops] / [tight_ins] / [tight_outs] *)
Example exact_premises_satisfiable :
  (exists ss, Permutation ss (shape_ins tight_ops)
              /\ Forall2 (fun s i => in_exact s (ri_kind i) = true) ss tight_ins) /\
  (exists os, Permutation os (shape_outs tight_ops)
              /\ Forall2 (fun s o => len (to_script o) = oshape_len s) os tight_outs) /\
  Forall (fun i => len (sig_bytes_with der_serialize i) = 72) tight_ins.
Proof.
  split; [|split].
  - exists [SSh false 126; SPkh true; SSh true 126; SPkh false]. split.
    + change (shape_ins tight_ops) with [SPkh true; SPkh false; SSh true 126; SSh false 126].
      apply Permutation_sym.
      apply (Permutation_cons_app [SSh false 126] [SSh true 126; SPkh false]). 
      apply (Permutation_cons_app [SSh false 126; SSh true 126] []). cbn [app].
      apply perm_swap.
    + repeat constructor.
  - exists (shape_outs tight_ops). split; [apply Permutation_refl|]. repeat constructor.
  - repeat constructor.
Qed.

(* the excluded shape: announced as a non-witness script-hash input with an empty redeem
   script, the estimate is STRICTLY larger (by one vbyte) than the transaction of exactly that
   shape with a maximal signature *)
Example empty_redeem_overestimates :
  exists T e, build [mk_rin (KSh false []) r33 s_low32] [out_of 22] = Some T /\
              estimate [OShIn 1 0 false; OPkhOut 1 true] = VOk e /\
              ((vsize T + 1 =? e) && in_covered (SSh false 0) (KSh false [])
               && forallb (fun i => len (sig_bytes_with der_serialize i) =? 72) [mk_rin (KSh false []) r33 s_low32]) = true.
Proof. apply (witness_of_bool der_serialize). vm_compute. reflexivity. Qed.
