(* C37 — proofs about Model/C37.v *)
From Coq Require Import ZArith NArith List Bool String Ascii Lia.
From Coq Require DecimalString HexadecimalString DecimalZ HexadecimalZ DecimalPos HexadecimalPos.
From KV Require Import Common.Verdict Model.C37.
Import ListNotations.
Open Scope Z_scope.

(* ====================================================================================== *)
(* the generic machine                                                                     *)
(* ====================================================================================== *)
Section MachineProofs.
  Variables E K I : Type.
  Variable eqbE : E -> E -> bool.
  Variable eqbK : K -> K -> bool.
  Variable eqbI : I -> I -> bool.
  Variable key : E -> K.
  Variable cid : E -> I.
  Variable spanI : I -> Z.
  Hypothesis eqbE_spec : forall a b, eqbE a b = true <-> a = b.
  Hypothesis eqbK_spec : forall a b, eqbK a b = true <-> a = b.
  Hypothesis eqbI_spec : forall a b, eqbI a b = true <-> a = b.
  (* well-formed events, on which the key function is injective per cache *)
  Variable wf : E -> Prop.
  Hypothesis key_inj : forall e e', wf e -> wf e' -> cid e = cid e' -> key e = key e' -> e = e'.

  Notation cache := (cache K).
  Notation has := (has K eqbK).
  Notation sweep := (sweep K).
  Notation state := (state K I).
  Notation set := (set K I eqbI).
  Notation op := (op E I).
  Notation run := (run E K I eqbK eqbI key cid spanI).
  Notation lookup := (lookup E eqbE).
  Notation trace_ok := (trace_ok E I eqbE cid spanI).
  Notation count_true := (count_true E eqbE).
  Notation delivered := (delivered E I eqbE).
  Notation last_true := (last_true E eqbE).
  Notation mono := (mono E I).

  Definition wf_op (o : op) : Prop := match o with OAdd e _ => wf e | OSweep _ _ => True end.

  Lemma eqbE_refl a : eqbE a a = true.
  Proof. now apply eqbE_spec. Qed.
  Lemma eqbE_false a b : a <> b -> eqbE a b = false.
  Proof. intros H. destruct (eqbE a b) eqn:X; auto. apply eqbE_spec in X. contradiction. Qed.
  Lemma eqbI_dec (a b : I) : {a = b} + {a <> b}.
  Proof.
    destruct (eqbI a b) eqn:X; [left; now apply eqbI_spec|right].
    intros H. apply eqbI_spec in H. congruence.
  Qed.
  Lemma eqbE_dec (a b : E) : {a = b} + {a <> b}.
  Proof.
    destruct (eqbE a b) eqn:X; [left; now apply eqbE_spec|right].
    intros H. apply eqbE_spec in H. congruence.
  Qed.

  Lemma has_true (c : cache) k : has c k = true <-> exists t, In (k, t) c.
  Proof.
    unfold C37.has. rewrite existsb_exists. split.
    - intros [[k' t] [Hin Heq]]. cbn in Heq. apply eqbK_spec in Heq. subst. eauto.
    - intros [t Hin]. exists (k, t). split; auto. cbn. now apply eqbK_spec.
  Qed.
  Lemma has_false (c : cache) k t : has c k = false -> ~ In (k, t) c.
  Proof.
    intros H Hin. assert (has c k = true) by (apply has_true; eauto). congruence.
  Qed.
  Lemma has_app (c d : cache) k : has (c ++ d) k = has c k || has d k.
  Proof. unfold C37.has. apply existsb_app. Qed.

  Lemma sweep_subset span now (c : cache) x : In x (sweep span now c) -> In x c.
  Proof.
    induction c as [|[k t] c IH]; cbn; auto.
    destruct (span <? now - t); cbn; auto.
  Qed.
  Lemma sweep_removed span now (c : cache) x :
    In x c -> In x (sweep span now c) \/ span < now - snd x.
  Proof.
    induction c as [|[k t] c IH]; cbn; auto.
    destruct (span <? now - t) eqn:X.
    - intros [<-|H]; auto. right. cbn. lia.
    - cbn. auto.
  Qed.

  Lemma set_same (s : state) i j : set s i (s i) j = s j.
  Proof.
    unfold C37.set. destruct (eqbI j i) eqn:X; auto. apply eqbI_spec in X. now subst.
  Qed.
  Lemma set_eq (s : state) i c : set s i c i = c.
  Proof. unfold C37.set. replace (eqbI i i) with true; auto. symmetry. now apply eqbI_spec. Qed.
  Lemma set_neq (s : state) i c j : j <> i -> set s i c j = s j.
  Proof.
    unfold C37.set. intros H. destruct (eqbI j i) eqn:X; auto. apply eqbI_spec in X. contradiction.
  Qed.

  (* the invariant tying the caches to the [last] map of the executable property *)
  Definition Inv (s : state) (last : list (E * Z)) (now : Z) : Prop :=
    (forall e t, wf e -> In (key e, t) (s (cid e)) -> lookup last e = Some t) /\
    (forall e t, wf e -> lookup last e = Some t -> has (s (cid e)) (key e) = false ->
                 spanI (cid e) < now - t).

  Lemma Inv_later s last now now' : now <= now' -> Inv s last now -> Inv s last now'.
  Proof.
    intros Hle [I1 I2]. split; auto. intros e t He Hl Hh. specialize (I2 e t He Hl Hh). lia.
  Qed.

  Lemma Inv_sweep s last now i t :
    now <= t -> Inv s last now -> Inv (set s i (sweep (spanI i) t (s i))) last t.
  Proof.
    intros Hle [I1 I2]. split.
    - intros e t0 He Hin. apply I1; auto.
      destruct (eqbI_dec (cid e) i) as [Hi|Hn].
      + rewrite Hi in *. rewrite set_eq in Hin. eapply sweep_subset; eauto.
      + rewrite set_neq in Hin; auto.
    - intros e t0 He Hl Hh.
      destruct (eqbI_dec (cid e) i) as [Hi|Hn].
      + rewrite Hi, set_eq in Hh.
        destruct (has (s (cid e)) (key e)) eqn:Hc.
        * apply has_true in Hc. destruct Hc as [t1 Hin].
          pose proof (I1 e t1 He Hin) as Hl'. rewrite Hl in Hl'. injection Hl' as <-.
          rewrite Hi in Hin.
          destruct (sweep_removed (spanI i) t _ _ Hin) as [Hs|Hs].
          -- exfalso. eapply has_false; eauto.
          -- cbn in Hs. now rewrite Hi.
        * specialize (I2 e t0 He Hl Hc). lia.
      + rewrite set_neq in Hh; auto. specialize (I2 e t0 He Hl Hh). lia.
  Qed.

  Lemma model_trace_ok_gen ops : forall s last now,
    Inv s last now -> Forall wf_op ops -> mono now ops = true ->
    trace_ok last (run s ops) = true.
  Proof.
    induction ops as [|o r IH]; intros s last now HI Hwf Hm; [reflexivity|].
    inversion Hwf as [|? ? Ho Hr]; subst.
    cbn [C37.mono] in Hm. apply andb_true_iff in Hm. destruct Hm as [Hle Hm].
    apply Z.leb_le in Hle.
    destruct o as [i t|e t]; cbn [C37.run C37.step fst snd C37.op_time] in *.
    - cbn [app]. apply (IH _ last t); auto. now apply (Inv_sweep s last now).
    - cbn in Ho. unfold C37.add.
      destruct (has (s (cid e)) (key e)) eqn:Hc; cbn [fst snd app C37.trace_ok].
      + (* duplicate: ignored *)
        destruct HI as [I1 I2].
        pose proof Hc as Hc'. apply has_true in Hc'. destruct Hc' as [t1 Hin].
        rewrite (I1 e t1 Ho Hin).
        apply (IH _ last t); auto. split.
        * intros e' t' He' Hin'. rewrite set_same in Hin'. auto.
        * intros e' t' He' Hl Hh. rewrite set_same in Hh. specialize (I2 e' t' He' Hl Hh). lia.
      + (* inserted: handled *)
        assert (HI' : Inv (set s (cid e) (sweep (spanI (cid e)) t (s (cid e)) ++ [(key e, t)]))
                          ((e, t) :: last) t).
        { pose proof (Inv_sweep s last now (cid e) t Hle HI) as [J1 J2].
          destruct HI as [I1 I2]. split.
          - intros e' t' He' Hin. cbn [C37.lookup].
            destruct (eqbE_dec e' e) as [->|Hne].
            + rewrite eqbE_refl. rewrite set_eq in Hin. apply in_app_or in Hin.
              destruct Hin as [Hin|[Hin|[]]].
              * apply sweep_subset in Hin. exfalso. eapply has_false; eauto.
              * congruence.
            + rewrite (eqbE_false _ _ Hne).
              destruct (eqbI_dec (cid e') (cid e)) as [Hi|Hn].
              * rewrite Hi, set_eq in Hin. apply in_app_or in Hin.
                destruct Hin as [Hin|[Hin|[]]].
                -- apply I1; auto. rewrite Hi. eapply sweep_subset; eauto.
                -- exfalso. apply Hne. apply key_inj; auto. congruence.
              * rewrite set_neq in Hin; auto.
          - intros e' t' He' Hl Hh. cbn [C37.lookup] in Hl.
            destruct (eqbE_dec e' e) as [->|Hne].
            + exfalso. rewrite set_eq, has_app in Hh. apply orb_false_iff in Hh.
              destruct Hh as [_ Hh]. cbn in Hh. rewrite orb_false_r in Hh.
              assert (eqbK (key e) (key e) = true) by now apply eqbK_spec. congruence.
            + rewrite (eqbE_false _ _ Hne) in Hl.
              destruct (eqbI_dec (cid e') (cid e)) as [Hi|Hn].
              * apply J2; auto. rewrite Hi, set_eq in *. rewrite has_app in Hh.
                apply orb_false_iff in Hh. tauto.
              * apply J2; auto. rewrite set_neq in *; auto. }
        destruct (lookup last e) as [t0|] eqn:Hl.
        * destruct HI as [I1 I2]. specialize (I2 e t0 Ho Hl Hc).
          replace (spanI (cid e) <? t - t0) with true by (symmetry; apply Z.ltb_lt; lia).
          cbn [andb]. apply (IH _ ((e, t) :: last) t); auto.
        * cbn [andb]. apply (IH _ ((e, t) :: last) t); auto.
  Qed.

  Lemma Inv_init now : Inv (init K I) [] now.
  Proof. split; intros e t He H; cbn in H; [contradiction|discriminate]. Qed.

  (* every output of the machine satisfies the executable property *)
  Theorem model_trace_ok : forall ops now,
    Forall wf_op ops -> mono now ops = true -> trace_ok [] (run (init K I) ops) = true.
  Proof. intros. eapply model_trace_ok_gen; eauto. apply Inv_init. Qed.

  (* ---- what the executable property means ---- *)
  Lemma trace_ok_app l1 : forall last l2,
    trace_ok last (l1 ++ l2) =
    trace_ok last l1 && trace_ok (rev (map fst (filter (fun x => snd x) l1)) ++ last) l2.
  Proof.
    induction l1 as [|[[e t] b] l1 IH]; intros last l2; [reflexivity|].
    cbn [app C37.trace_ok filter snd].
    destruct (lookup last e) as [t0|].
    - destruct b; cbn [map fst rev].
      + rewrite IH, <- app_assoc. cbn [app]. now rewrite andb_assoc.
      + now rewrite IH.
    - destruct b; cbn [map fst rev andb]; auto.
      rewrite IH, <- app_assoc. reflexivity.
  Qed.

  Theorem trace_ok_sound : forall tr,
    trace_ok [] tr = true ->
    forall l1 e t b l2, tr = l1 ++ (e, t, b) :: l2 ->
      match last_true l1 e with
      | None => b = true                                   (* first delivery: handled *)
      | Some t0 => b = true -> spanI (cid e) < t - t0      (* handled again only after the period *)
      end.
  Proof.
    intros tr H l1 e t b l2 ->. rewrite trace_ok_app in H. apply andb_true_iff in H.
    destruct H as [_ H]. rewrite app_nil_r in H. unfold C37.last_true.
    cbn [C37.trace_ok] in H.
    destruct (lookup (rev (map fst (filter (fun x => snd x) l1))) e) as [t0|].
    - intros ->. apply andb_true_iff in H. destruct H as [H _]. now apply Z.ltb_lt.
    - apply andb_true_iff in H. tauto.
  Qed.

  (* ---- exactly one handled delivery per distinct event inside one caching period ---- *)
  Lemma count_from_trace_ok T0 tr : forall last,
    trace_ok last tr = true ->
    (forall e t0, lookup last e = Some t0 -> T0 <= t0) ->
    (forall e t b, In (e, t, b) tr -> T0 <= t /\ t - T0 <= spanI (cid e)) ->
    forall e, count_true e tr =
              match lookup last e with
              | Some _ => 0%nat
              | None => if existsb (fun x => eqbE e (fst (fst x))) tr then 1%nat else 0%nat
              end.
  Proof.
    induction tr as [|[[e1 t1] b1] tr IH]; intros last Hok Hlast Htr e.
    - cbn. now destruct (lookup last e).
    - assert (Htr' : forall e t b, In (e, t, b) tr -> T0 <= t /\ t - T0 <= spanI (cid e))
        by (intros e' t' b' Hin'; apply (Htr e' t' b'); now right).
      destruct (Htr e1 t1 b1 (or_introl eq_refl)) as [H1 H2].
      unfold C37.count_true in *. cbn [filter existsb fst snd C37.trace_ok] in *.
      assert (Hlast' : forall e t0, lookup ((e1, t1) :: last) e = Some t0 -> T0 <= t0).
      { intros e' t0. cbn [C37.lookup]. destruct (eqbE e' e1); [intros [= <-]; auto|apply Hlast]. }
      destruct (eqbE_dec e e1) as [->|Hne].
      + rewrite eqbE_refl. cbn [andb orb].
        destruct (lookup last e1) as [t0|] eqn:Hl.
        * destruct b1.
          -- apply andb_true_iff in Hok. destruct Hok as [Hlt _]. apply Z.ltb_lt in Hlt.
             specialize (Hlast _ _ Hl). lia.
          -- rewrite (IH last Hok Hlast Htr' e1), Hl. reflexivity.
        * apply andb_true_iff in Hok. destruct Hok as [-> Hok]. cbn [List.length].
          rewrite (IH _ Hok Hlast' Htr' e1). cbn [C37.lookup]. now rewrite eqbE_refl.
      + rewrite (eqbE_false _ _ Hne). cbn [andb orb].
        destruct (lookup last e1) as [t0|] eqn:Hl.
        * destruct b1.
          -- apply andb_true_iff in Hok. destruct Hok as [_ Hok].
             rewrite (IH _ Hok Hlast' Htr' e). cbn [C37.lookup]. now rewrite (eqbE_false _ _ Hne).
          -- now rewrite (IH _ Hok Hlast Htr' e).
        * apply andb_true_iff in Hok. destruct Hok as [_ Hok].
          rewrite (IH _ Hok Hlast' Htr' e). cbn [C37.lookup]. now rewrite (eqbE_false _ _ Hne).
  Qed.

  Lemma run_in ops : forall s e t b, In (e, t, b) (run s ops) -> In (OAdd e t) ops.
  Proof.
    induction ops as [|o r IH]; intros s e t b H; [contradiction|].
    cbn [C37.run] in H. apply in_app_or in H. destruct H as [H|H].
    - destruct o as [i t'|e' t']; cbn in H; [contradiction|].
      destruct H as [H|[]]. injection H as -> -> _. now left.
    - right. eapply IH; eauto.
  Qed.
  Lemma run_delivered ops : forall s e,
    existsb (fun x => eqbE e (fst (fst x))) (run s ops) = delivered e ops.
  Proof.
    induction ops as [|o r IH]; intros s e; [reflexivity|].
    cbn [C37.run]. rewrite existsb_app, IH. unfold C37.delivered. cbn [existsb].
    destruct o; cbn; [reflexivity|]. now rewrite orb_false_r.
  Qed.
  Lemma mono_ge ops : forall now o, mono now ops = true -> In o ops -> now <= op_time E I o.
  Proof.
    induction ops as [|o' r IH]; intros now o Hm Hin; [contradiction|].
    cbn in Hm. apply andb_true_iff in Hm. destruct Hm as [Hle Hm]. apply Z.leb_le in Hle.
    destruct Hin as [->|Hin]; auto. specialize (IH _ _ Hm Hin). lia.
  Qed.

  Theorem exactly_one_true : forall ops now,
    Forall wf_op ops -> mono now ops = true ->
    (* every step happens within the caching period of the first one *)
    (forall e t, In (OAdd e t) ops -> t - now <= spanI (cid e)) ->
    forall e, count_true e (run (init K I) ops) = if delivered e ops then 1%nat else 0%nat.
  Proof.
    intros ops now Hwf Hm Hwin e.
    rewrite (count_from_trace_ok now _ [] (model_trace_ok ops now Hwf Hm)).
    - cbn [C37.lookup]. now rewrite run_delivered.
    - intros ? ? [=].
    - intros e' t b Hin. apply run_in in Hin. split.
      + apply (mono_ge ops now _ Hm Hin).
      + now apply Hwin.
  Qed.
End MachineProofs.

(* ---- schedules as interleavings of thread programs ---- *)
Inductive Interleaving {A : Type} : list (list A) -> list A -> Prop :=
| il_done : forall ts, Forall (fun t => t = []) ts -> Interleaving ts []
| il_step : forall ts1 a t ts2 sched,
    Interleaving (ts1 ++ t :: ts2) sched -> Interleaving (ts1 ++ (a :: t) :: ts2) (a :: sched).

Lemma interleaving_in {A} (ts : list (list A)) sched :
  Interleaving ts sched -> forall x, In x sched <-> In x (List.concat ts).
Proof.
  induction 1 as [ts H|ts1 a t ts2 sched H IH]; intros x.
  - split; [contradiction|]. intros Hin. apply in_concat in Hin. destruct Hin as [l [Hl Hx]].
    rewrite Forall_forall in H. rewrite (H l Hl) in Hx. contradiction.
  - rewrite concat_app in *. cbn [List.concat In] in *. rewrite in_app_iff in *.
    cbn [app In]. rewrite in_app_iff. specialize (IH x). rewrite in_app_iff, in_app_iff in IH.
    tauto.
Qed.

(* ====================================================================================== *)
(* the cache keys                                                                          *)
(* ====================================================================================== *)
Open Scope string_scope.

Fixpoint nocolon (s : string) : bool :=
  match s with
  | EmptyString => true
  | String c r => negb (Ascii.eqb c ":") && nocolon r
  end.

Lemma nocolon_app a b : nocolon (a ++ b) = nocolon a && nocolon b.
Proof. induction a as [|c a IH]; cbn; auto. now rewrite IH, andb_assoc. Qed.

(* a ':'-free prefix is determined by the whole string *)
Lemma split_unique a : forall a' r r',
  nocolon a = true -> nocolon a' = true ->
  a ++ String ":" r = a' ++ String ":" r' -> a = a' /\ r = r'.
Proof.
  induction a as [|c a IH]; intros [|c' a'] r r' Ha Ha' H; cbn in *.
  - injection H as ->. auto.
  - injection H as <- _. cbn in Ha'. discriminate.
  - injection H as -> _. cbn in Ha. discriminate.
  - injection H as -> H. apply andb_true_iff in Ha, Ha'.
    destruct (IH a' r r') as [-> ->]; tauto.
Qed.

Lemma nocolon_hex_uint d : nocolon (HexadecimalString.NilEmpty.string_of_uint d) = true.
Proof. induction d; cbn; auto. Qed.
Lemma nocolon_dec_uint d : nocolon (DecimalString.NilEmpty.string_of_uint d) = true.
Proof. induction d; cbn; auto. Qed.
Lemma nocolon_hexZ z : nocolon (hexZ z) = true.
Proof.
  unfold hexZ, HexadecimalString.NilZero.string_of_int, HexadecimalString.NilZero.string_of_uint.
  destruct (Z.to_hex_int z) as [d|d]; destruct d; cbn [nocolon]; auto;
    try (cbn; apply nocolon_hex_uint).
Qed.

Lemma hexZ_inj a b : hexZ a = hexZ b -> a = b.
Proof.
  unfold hexZ. intros H. apply HexadecimalZ.to_int_inj.
  assert (G : forall z, HexadecimalString.NilZero.int_of_string
                          (HexadecimalString.NilZero.string_of_int (Z.to_hex_int z))
                        = Some (Z.to_hex_int z)).
  { intros z. apply HexadecimalString.NilZero.isi; destruct z; cbn; try discriminate;
      intros [= X]; revert X; apply HexadecimalPos.Unsigned.to_uint_nonnil. }
  pose proof (G a) as Ga. rewrite H, G in Ga. now injection Ga.
Qed.
Lemma decZ_inj a b : decZ a = decZ b -> a = b.
Proof.
  unfold decZ. intros H. apply DecimalZ.to_int_inj.
  assert (G : forall z, DecimalString.NilZero.int_of_string
                          (DecimalString.NilZero.string_of_int (Z.to_int z))
                        = Some (Z.to_int z)).
  { intros z. apply DecimalString.NilZero.isi; destruct z; cbn; try discriminate;
      intros [= X]; revert X; apply DecimalPos.Unsigned.to_uint_nonnil. }
  pose proof (G a) as Ga. rewrite H, G in Ga. now injection Ga.
Qed.

Lemma hex_digit_cases x : (x < 16)%N ->
  (x = 0 \/ x = 1 \/ x = 2 \/ x = 3 \/ x = 4 \/ x = 5 \/ x = 6 \/ x = 7 \/ x = 8 \/ x = 9 \/
   x = 10 \/ x = 11 \/ x = 12 \/ x = 13 \/ x = 14 \/ x = 15)%N.
Proof. lia. Qed.
Lemma hex_val_digit x : (x < 16)%N -> hex_val (hex_digit x) = Some x.
Proof.
  intros H. apply hex_digit_cases in H.
  repeat (destruct H as [->|H]; [reflexivity|]). subst. reflexivity.
Qed.
Lemma hex_digit_nocolon x : (x < 16)%N -> Ascii.eqb (hex_digit x) ":" = false.
Proof.
  intros H. apply hex_digit_cases in H.
  repeat (destruct H as [->|H]; [reflexivity|]). subst. reflexivity.
Qed.

Definition bytes (l : list N) : Prop := Forall (fun b => (b < 256)%N) l.

Lemma nocolon_hex_bytes l : bytes l -> nocolon (hex_bytes l) = true.
Proof.
  induction 1 as [|b l Hb _ IH]; cbn [hex_bytes nocolon]; auto.
  rewrite !hex_digit_nocolon; cbn; auto.
  - apply N.mod_lt. discriminate.
  - apply N.div_lt_upper_bound; [discriminate|]. cbn. lia.
Qed.
Lemma hex_bytes_inj l : forall l', bytes l -> bytes l' -> hex_bytes l = hex_bytes l' -> l = l'.
Proof.
  induction l as [|b l IH]; intros [|b' l'] Hl Hl' H; cbn in H; try discriminate; auto.
  inversion Hl as [|? ? Hb Hl0]; inversion Hl' as [|? ? Hb' Hl0']; subst.
  injection H as H1 H2 H3.
  assert (D : forall x, (x < 256)%N -> (x / 16 < 16)%N /\ (x mod 16 < 16)%N).
  { intros x Hx. split; [apply N.div_lt_upper_bound; [discriminate|cbn; lia]|apply N.mod_lt; discriminate]. }
  destruct (D b Hb) as [A1 A2]. destruct (D b' Hb') as [B1 B2].
  apply (f_equal hex_val) in H1, H2. rewrite !hex_val_digit in H1, H2; auto.
  injection H1 as H1. injection H2 as H2.
  f_equal; [|now apply IH].
  rewrite (N.div_mod b 16), (N.div_mod b' 16); try discriminate. now rewrite H1, H2.
Qed.

Lemma int64_of_u64_inj a b :
  (a < 18446744073709551616)%N -> (b < 18446744073709551616)%N ->
  int64_of_u64 a = int64_of_u64 b -> a = b.
Proof.
  unfold int64_of_u64. intros Ha Hb.
  destruct (N.ltb_spec a 9223372036854775808); destruct (N.ltb_spec b 9223372036854775808); lia.
Qed.

Definition u64 (b : N) : Prop := (b < 18446744073709551616)%N.

(* the repaired DKG-result key determines the event: seed, result hash and block *)
Theorem key_dkg_result_injective : forall s h b s' h' b',
  bytes h -> bytes h' -> u64 b -> u64 b' ->
  key_dkg_result s h b = key_dkg_result s' h' b' -> s = s' /\ h = h' /\ b = b'.
Proof.
  unfold key_dkg_result, sep. intros s h b s' h' b' Hh Hh' Hb Hb' H.
  cbn [append] in H.
  apply split_unique in H; try apply nocolon_hexZ. destruct H as [H1 H].
  apply split_unique in H; try now apply nocolon_hex_bytes. destruct H as [H2 H3].
  apply hexZ_inj in H1. apply hex_bytes_inj in H2; auto. apply decZ_inj in H3.
  apply int64_of_u64_inj in H3; auto.
Qed.

(* ---- events ---- *)
Lemma listN_eqb_spec a : forall b, listN_eqb a b = true <-> a = b.
Proof.
  induction a as [|x a IH]; intros [|y b]; cbn; split; try discriminate; auto.
  - intros H. apply andb_true_iff in H. destruct H as [H1 H2]. apply N.eqb_eq in H1.
    apply IH in H2. congruence.
  - intros [= -> ->]. rewrite N.eqb_refl. now apply IH.
Qed.
Lemma ev_eqb_spec a b : ev_eqb a b = true <-> a = b.
Proof.
  destruct a, b; cbn; split; try discriminate; intros H.
  - apply Z.eqb_eq in H. congruence.
  - injection H as ->. apply Z.eqb_refl.
  - apply andb_true_iff in H. destruct H as [H H3]. apply andb_true_iff in H. destruct H as [H1 H2].
    apply Z.eqb_eq in H1. apply listN_eqb_spec in H2. apply N.eqb_eq in H3. congruence.
  - injection H as -> -> ->. rewrite Z.eqb_refl, N.eqb_refl. cbn. rewrite andb_true_r.
    now apply listN_eqb_spec.
  - apply listN_eqb_spec in H. congruence.
  - injection H as ->. now apply listN_eqb_spec.
  - apply Z.eqb_eq in H. congruence.
  - injection H as ->. apply Z.eqb_refl.
Qed.

Lemma bytes32_bytes l : bytes32 l = true -> bytes l.
Proof.
  unfold bytes32, bytes. intros H. apply andb_true_iff in H. destruct H as [_ H].
  rewrite forallb_forall in H. apply Forall_forall. intros x Hx. specialize (H x Hx).
  unfold is_byte in H. now apply N.ltb_lt.
Qed.

(* two well-formed events of the same cache with the same key are the same event *)
Theorem key_of_injective : forall e e',
  wf_ev e = true -> wf_ev e' = true -> cache_of e = cache_of e' -> key_of e = key_of e' -> e = e'.
Proof.
  intros e e' He He' Hc Hk. destruct e, e'; cbn in Hc; try discriminate; cbn in Hk, He, He'.
  - f_equal. now apply hexZ_inj.
  - apply andb_true_iff in He, He'. destruct He as [Hh Hb]. destruct He' as [Hh' Hb'].
    apply N.ltb_lt in Hb, Hb'.
    apply key_dkg_result_injective in Hk; auto using bytes32_bytes.
    destruct Hk as [-> [-> ->]]. reflexivity.
  - f_equal. apply hex_bytes_inj; auto using bytes32_bytes.
  - f_equal. now apply hexZ_inj.
Qed.

(* ---- near-collisions: the key changes with every single digit of every field ---- *)
Lemma hi_nibble_eq (v b : N) : (16 * v + b mod 16 = b -> v = b / 16)%N.
Proof.
  intros H. rewrite (N.div_mod b 16) in H at 2 by discriminate.
  apply N.add_cancel_r in H. apply N.mul_cancel_l in H; [exact H|discriminate].
Qed.
Lemma lo_nibble_eq (v b : N) : (16 * (b / 16) + v = b -> v = b mod 16)%N.
Proof.
  intros H. rewrite (N.div_mod b 16) in H at 2 by discriminate. now apply N.add_cancel_l in H.
Qed.
Lemma nibble_bounds (b : N) : (b < 256 -> b / 16 < 16 /\ b mod 16 < 16)%N.
Proof.
  intros Hb. split; [apply N.div_lt_upper_bound; [discriminate|exact Hb]|apply N.mod_lt; discriminate].
Qed.

Lemma set_nibble_neq l : forall i v x,
  get_nibble l i = Some x -> v <> x -> set_nibble l i v <> l.
Proof.
  induction l as [|b l IH]; intros [|[|j]] v x Hg Hv; cbn [get_nibble set_nibble] in Hg |- *; try discriminate.
  - injection Hg as <-. intros [= E]. apply Hv. now apply hi_nibble_eq.
  - injection Hg as <-. intros [= E]. apply Hv. now apply lo_nibble_eq.
  - intros [= E]. exact (IH j v x Hg Hv E).
Qed.
Lemma set_nibble_length l : forall i v, List.length (set_nibble l i v) = List.length l.
Proof. induction l as [|b l IH]; intros [|[|j]] v; cbn [set_nibble List.length]; auto. Qed.
Lemma set_nibble_bytes l : forall i v, (v < 16)%N -> bytes l -> bytes (set_nibble l i v).
Proof.
  induction l as [|b l IH]; intros [|[|j]] v Hv Hl; cbn [set_nibble]; auto;
    inversion Hl as [|? ? Hb Hl0]; subst; constructor; auto;
    try (destruct (nibble_bounds b Hb) as [B1 B2]; revert B1 B2;
         generalize (b / 16)%N (b mod 16)%N; intros; lia).
  now apply IH.
Qed.
Lemma set_nibble_bytes32 l i v : (v < 16)%N -> bytes32 l = true -> bytes32 (set_nibble l i v) = true.
Proof.
  intros Hv Hl. pose proof (set_nibble_bytes l i v Hv (bytes32_bytes l Hl)) as Hb.
  unfold bytes32 in *. apply andb_true_iff in Hl. destruct Hl as [Hn _].
  rewrite set_nibble_length, Hn. cbn. apply forallb_forall. intros x Hx.
  unfold bytes in Hb. rewrite Forall_forall in Hb. apply N.ltb_lt. now apply Hb.
Qed.
Lemma get_nibble_some l : forall i, (i < 2 * List.length l)%nat -> exists x, get_nibble l i = Some x.
Proof.
  induction l as [|b l IH]; intros [|[|j]] Hi; cbn [get_nibble List.length] in *; try lia; eauto.
  apply IH. lia.
Qed.

Lemma Z_set_nibble_neq z i v : v <> Z_nibble z i -> Z_set_nibble z i v <> z.
Proof.
  unfold Z_set_nibble. intros Hv. set (d := Z_nibble z i) in *.
  assert (P : 0 < 16 ^ Z.of_N i) by (apply Z.pow_pos_nonneg; lia).
  assert (Q : (v - d) * 16 ^ Z.of_N i <> 0) by nia.
  destruct (Z.ltb_spec z 0); lia.
Qed.
Lemma N_set_digit_neq b i v : v <> N_digit b i -> N_set_digit b i v <> b.
Proof.
  unfold N_set_digit. intros Hv. set (d := N_digit b i) in *.
  assert (P : (0 < 10 ^ i)%N) by (apply N.neq_0_lt_0, N.pow_nonzero; discriminate).
  assert (Q : (d * 10 ^ i <= b)%N).
  { unfold d, N_digit. 
    pose proof (N.mod_le (b / 10 ^ i) 10 ltac:(discriminate)).
    pose proof (N.mul_div_le b (10 ^ i) ltac:(lia)). nia. }
  nia.
Qed.

(* distinct well-formed events of one cache have distinct keys *)
Theorem distinct_events_distinct_keys : forall e e',
  wf_ev e = true -> wf_ev e' = true -> cache_of e = cache_of e' -> e <> e' -> key_of e <> key_of e'.
Proof. intros e e' H1 H2 H3 Hn Hk. apply Hn. now apply key_of_injective. Qed.

Theorem key_dkg_result_single_digit : forall (s : Z) (h : list N) (b : N),
  bytes32 h = true -> u64 b ->
  (forall i v, v <> Z_nibble s i -> key_dkg_result (Z_set_nibble s i v) h b <> key_dkg_result s h b) /\
  (forall i v x, get_nibble h i = Some x -> (v < 16)%N -> v <> x ->
                 key_dkg_result s (set_nibble h i v) b <> key_dkg_result s h b) /\
  (forall i v, v <> N_digit b i -> u64 (N_set_digit b i v) ->
               key_dkg_result s h (N_set_digit b i v) <> key_dkg_result s h b) /\
  (forall b', u64 b' -> b' <> b -> key_dkg_result s h b' <> key_dkg_result s h b).
Proof.
  intros s h b Hh Hb. pose proof (bytes32_bytes h Hh) as Hh'. repeat split.
  - intros i v Hv Hk. apply key_dkg_result_injective in Hk; auto.
    destruct Hk as [Hk _]. now apply Z_set_nibble_neq in Hk.
  - intros i v x Hg Hv Hx Hk. apply key_dkg_result_injective in Hk; auto using set_nibble_bytes.
    destruct Hk as [_ [Hk _]]. now apply (set_nibble_neq h i v x) in Hk.
  - intros i v Hv Hu Hk. apply key_dkg_result_injective in Hk; auto.
    destruct Hk as [_ [_ Hk]]. now apply N_set_digit_neq in Hk.
  - intros b' Hb' Hn Hk. apply key_dkg_result_injective in Hk; auto. tauto.
Qed.

Theorem key_of_single_digit :
  (forall s i v, v <> Z_nibble s i ->
     key_of (DkgStarted (Z_set_nibble s i v)) <> key_of (DkgStarted s) /\
     key_of (BeaconDkgStarted (Z_set_nibble s i v)) <> key_of (BeaconDkgStarted s)) /\
  (forall id i v x, bytes32 id = true -> get_nibble id i = Some x -> (v < 16)%N -> v <> x ->
     key_of (WalletClosed (set_nibble id i v)) <> key_of (WalletClosed id)).
Proof.
  split.
  - intros s i v Hv. cbn. split; intros Hk; apply hexZ_inj in Hk; now apply Z_set_nibble_neq in Hk.
  - intros id i v x Hid Hg Hv Hx Hk. cbn in Hk.
    apply hex_bytes_inj in Hk; auto using set_nibble_bytes, bytes32_bytes.
    now apply (set_nibble_neq id i v x) in Hk.
Qed.

(* non-vacuity: all 64 digits of a 32-byte string exist *)
Lemma bytes32_nibbles l i : bytes32 l = true -> (i < 64)%nat -> exists x, get_nibble l i = Some x.
Proof.
  intros Hl Hi. apply get_nibble_some. unfold bytes32 in Hl. apply andb_true_iff in Hl.
  destruct Hl as [Hn _]. apply Nat.eqb_eq in Hn. lia.
Qed.

Lemma N_eqb_spec' (a b : N) : N.eqb a b = true <-> a = b.
Proof. apply N.eqb_eq. Qed.
Lemma string_eqb_spec' (a b : string) : String.eqb a b = true <-> a = b.
Proof. apply String.eqb_eq. Qed.

(* ---- the two deduplicators ---- *)
Definition dwf_op (o : dop) : Prop := wf_op ev N (fun e => wf_ev e = true) o.

Theorem dedup_model_trace_ok : forall spans ops now,
  Forall dwf_op ops -> mono ev N now ops = true -> dtrace_ok spans [] (drun spans ops) = true.
Proof.
  intros. unfold dtrace_ok, drun.
  eapply model_trace_ok with (wf := fun e => wf_ev e = true); eauto using ev_eqb_spec, N_eqb_spec', string_eqb_spec'.
  intros; now apply key_of_injective.
Qed.

Theorem dedup_exactly_one : forall spans ops now,
  Forall dwf_op ops -> mono ev N now ops = true ->
  (forall e t, In (OAdd e t) ops -> t - now <= span_of spans (cache_of e)) ->
  forall e, count_true ev ev_eqb e (drun spans ops) = if delivered ev N ev_eqb e ops then 1%nat else 0%nat.
Proof.
  intros. unfold drun.
  eapply exactly_one_true with (wf := fun e => wf_ev e = true); eauto using ev_eqb_spec, N_eqb_spec', string_eqb_spec'.
  intros; now apply key_of_injective.
Qed.

(* the model's answer to any well-formed case passes the executable property *)
Lemma ops_of_wf l : forallb (fun d => wf_ev (d_ev d)) l = true -> Forall dwf_op (ops_of l).
Proof.
  induction l as [|d l IH]; cbn; intros H; [constructor|].
  apply andb_true_iff in H. destruct H as [H1 H2].
  constructor; [exact I|]. constructor; [exact H1|]. now apply IH.
Qed.

(* ---- one TimeCache ---- *)
Lemma unit_eqb_spec (a b : unit) : (fun _ _ : unit => true) a b = true <-> a = b.
Proof. destruct a, b. tauto. Qed.

Theorem cache_exactly_one : forall span (ops : list cop) now,
  mono string unit now ops = true ->
  (forall k t, In (OAdd k t) ops -> t - now <= span) ->
  forall k, count_true string String.eqb k (cache_run span ops) =
            if delivered string unit String.eqb k ops then 1%nat else 0%nat.
Proof.
  intros span ops now Hm Hw k. unfold cache_run.
  eapply exactly_one_true with (wf := fun _ => True) (now := now);
    eauto using string_eqb_spec', unit_eqb_spec.
  apply Forall_forall. intros [i t|e t] _; exact I.
Qed.

Lemma existsb_ext_in {A} (f : A -> bool) (a b : list A) :
  (forall x, In x a <-> In x b) -> existsb f a = existsb f b.
Proof.
  intros H. apply eq_true_iff_eq. rewrite !existsb_exists.
  split; intros [x [Hx Hf]]; exists x; split; auto; now apply H.
Qed.

Theorem cache_exactly_one_interleavings : forall span (threads : list (list cop)) sched now,
  Interleaving threads sched ->
  mono string unit now sched = true ->
  (forall k t, In (OAdd k t) (List.concat threads) -> t - now <= span) ->
  forall k, count_true string String.eqb k (cache_run span sched) =
            if delivered string unit String.eqb k (List.concat threads) then 1%nat else 0%nat.
Proof.
  intros span threads sched now Hi Hm Hw k.
  pose proof (interleaving_in _ _ Hi) as Hin.
  rewrite (cache_exactly_one span sched now Hm).
  - unfold delivered. now rewrite (existsb_ext_in _ _ _ Hin).
  - intros k' t H. apply (Hw k'). now apply Hin.
Qed.

(* ---- the executable property on a case and what it means ---- *)
Theorem spec_ok_sound : forall c,
  spec_ok c = true ->
  c_panic c = false /\
  forall l1 e t b l2, observed (lin (c_hist c)) = (l1 ++ (e, t, b) :: l2)%list ->
    match last_true ev ev_eqb l1 e with
    | None => b = true
    | Some t0 => b = true -> span_of (c_spans c) (cache_of e) < t - t0
    end.
Proof.
  unfold spec_ok. intros c H. apply andb_true_iff in H. destruct H as [Hp H].
  split; [now destruct (c_panic c)|]. intros l1 e t b l2 Heq.
  eapply (trace_ok_sound ev N ev_eqb cache_of (span_of (c_spans c))); eauto.
Qed.

Theorem model_outputs_pass_spec : forall c,
  well_formed c = true ->
  dtrace_ok (c_spans c) [] (drun (c_spans c) (ops_of (lin (c_hist c)))) = true.
Proof.
  unfold well_formed. intros c H. apply andb_true_iff in H. destruct H as [H Hm].
  apply andb_true_iff in H. destruct H as [_ Hwf].
  eapply dedup_model_trace_ok; eauto. now apply ops_of_wf.
Qed.

(* ---- the code before the fixes ---- *)
Theorem old_key_collision : exists s h b s' h' b',
  bytes32 h = true /\ bytes32 h' = true /\ u64 b /\ u64 b' /\
  (s, h, b) <> (s', h', b') /\ old_key_dkg_result s h b = old_key_dkg_result s' h' b'.
Proof.
  exists 171%Z, (H "1ccccccccccccccccccccccccccccccccccccccccccccccccccccccccccccccc"), 71234%N,
         2737%Z, (H "ccccccccccccccccccccccccccccccccccccccccccccccccccccccccccccccc7"), 1234%N.
  repeat split; try reflexivity. discriminate.
Qed.

Theorem old_check_then_add_race : exists sched,
  old_run [] [] sched = [(1%nat, true); (2%nat, true)].
Proof. exists [OHas 1 "k"; OHas 2 "k"; OAddRet 1 "k"; OAddRet 2 "k"]. reflexivity. Qed.

(* hypotheses of the theorems are satisfiable: a real history with concurrency and a duplicate *)
Example dedup_example :
  let e := DkgResult 171 (H "1ccccccccccccccccccccccccccccccccccccccccccccccccccccccccccccccc") 71234 in
  let e' := DkgResult 2737 (H "ccccccccccccccccccccccccccccccccccccccccccccccccccccccccccccccc7") 1234 in
  let ops := [OSweep 1%N 0; OSweep 1%N 0; OAdd e 0; OSweep 1%N 1; OAdd e' 1; OAdd e 2] in
  Forall dwf_op ops /\ mono ev N 0 ops = true /\
  map snd (drun [10; 10; 10; 10] ops) = [true; true; false].
Proof. cbn zeta. split; [repeat constructor|split; reflexivity]. Qed.

(* a near-collision history: two results that differ in the LAST hex digit of the hash only *)
Example near_collision_example :
  let h := H "0718293a4b5c6d7e8fa0b1c2d3e4f5061728394a5b6c7d8e9fb0c1d2e3f405a3" in
  let a := DkgResult 171 h 19876543 in
  let b := DkgResult 171 (set_nibble h 63 4) 19876543 in
  get_nibble h 63 = Some 3%N /\ wf_ev a = true /\ wf_ev b = true /\
  map snd (drun [10; 10; 10; 10] [OAdd a 0; OAdd b 0; OAdd a 1; OAdd b 1]) = [true; true; false; false].
Proof. cbn zeta. repeat split; reflexivity. Qed.
