(* C35 — proofs about the model of signing_done.go (Model/C35.v). *)
From Coq Require Import ZArith NArith List Bool Lia Permutation.
From KV Require Import Common.Verdict Model.C35.
Import ListNotations.
Open Scope N_scope.

Lemma memN_In : forall x l, memN x l = true <-> In x l.
Proof.
  intros x l. unfold memN. rewrite existsb_exists. split.
  - intros [y [Hy E]]. apply N.eqb_eq in E. subst y. exact Hy.
  - intros H. exists x. split; [exact H|apply N.eqb_refl].
Qed.

Lemma optN_eqb_eq : forall a b, optN_eqb a b = true <-> a = b.
Proof.
  intros [a|] [b|]; cbn; split; intros H; try discriminate; try reflexivity.
  - apply N.eqb_eq in H. subst. reflexivity.
  - inversion H. apply N.eqb_refl.
Qed.

(* ---------- the listener ---------- *)
(* every stored entry is keyed by the sender of a done message of the history that passed
   the validity test, and no sender is stored twice *)
Definition inv (p : params) (st : store) (hist : list dmsg) : Prop :=
  NoDup (map fst st) /\
  forall k c, In (k, c) st ->
              k = m_sender c /\ In c hist /\ m_done c = true /\ valid p c = true.

Lemma accept_inv : forall p st hist m,
    inv p st hist -> inv p (accept p st m) (hist ++ [m]).
Proof.
  intros p st hist m [Hnd Hall]. unfold accept.
  assert (Hold : forall k c, In (k, c) st ->
                 k = m_sender c /\ In c (hist ++ [m]) /\ m_done c = true /\ valid p c = true).
  { intros k c Hin. destruct (Hall k c Hin) as [A [B [C D]]].
    repeat split; try assumption. apply in_or_app. left. exact B. }
  destruct (m_done m) eqn:Ed; cbn [negb]; [|split; assumption].
  destruct (memN (m_sender m) (map fst st)) eqn:Em; [split; assumption|].
  destruct (valid p m) eqn:Ev; [|split; assumption].
  split.
  - rewrite map_app. cbn [map fst].
    apply Permutation_NoDup with (l := m_sender m :: map fst st).
    + apply Permutation_cons_append.
    + constructor; [|exact Hnd]. intros Hin. apply memN_In in Hin. congruence.
  - intros k c Hin. apply in_app_or in Hin. destruct Hin as [Hin|Hin].
    + apply Hold. exact Hin.
    + destruct Hin as [Hin|[]]. inversion Hin; subst.
      repeat split; try assumption. apply in_or_app. right. left. reflexivity.
Qed.

Lemma fold_inv : forall p h st hist,
    inv p st hist -> inv p (fold_left (accept p) h st) (hist ++ h).
Proof.
  induction h as [|m t IH]; intros st hist H.
  - rewrite app_nil_r. exact H.
  - cbn [fold_left]. replace (hist ++ m :: t) with ((hist ++ [m]) ++ t)
      by (rewrite <- app_assoc; reflexivity).
    apply IH. apply accept_inv. exact H.
Qed.

Lemma listen_inv : forall p h, inv p (listen p h) h.
Proof.
  intros p h. unfold listen. change h with ([] ++ h) at 2. apply fold_inv.
  split; [constructor|]. intros k c [].
Qed.

(* ---------- the scan of one tick ---------- *)
Lemma scan_spec : forall l sig lat s e,
    (forall k c, In (k, c) l -> m_sig c <> None) ->
    scan l sig lat = Done s e ->
    (sig <> None -> s = sig) /\
    (l = [] -> s = sig) /\
    (forall k c, In (k, c) l -> m_sig c = s) /\
    lat <= e /\
    (forall k c, In (k, c) l -> m_end c <= e) /\
    (e = lat \/ exists k c, In (k, c) l /\ m_end c = e).
Proof.
  induction l as [|[k0 m] t IH]; intros sig lat s e Hsome H.
  - cbn in H. inversion H; subst.
    split; [intros _; reflexivity|]. split; [intros _; reflexivity|].
    split; [intros k c []|]. split; [lia|]. split; [intros k c []|]. left. reflexivity.
  - cbn [scan] in H.
    set (lat' := if lat <? m_end m then m_end m else lat) in *.
    assert (Hlat : lat <= lat' /\ m_end m <= lat' /\ (lat' = lat \/ lat' = m_end m)).
    { unfold lat'. destruct (N.ltb_spec lat (m_end m)); lia. }
    assert (Hsome' : forall k c, In (k, c) t -> m_sig c <> None)
      by (intros k c Hin; apply (Hsome k c); right; exact Hin).
    assert (Hm : m_sig m <> None) by (apply (Hsome k0 m); left; reflexivity).
    assert (Hsig : exists sig', scan t sig' lat' = Done s e /\ sig' = m_sig m /\
                               (sig <> None -> sig = m_sig m)).
    { destruct sig as [x|].
      - destruct (optN_eqb (Some x) (m_sig m)) eqn:E; [|discriminate].
        apply optN_eqb_eq in E. exists (Some x). repeat split; [exact H|exact E|intros _; exact E].
      - exists (m_sig m). repeat split; [exact H|congruence]. }
    destruct Hsig as [sig' [H' [Es' Es]]].
    destruct (IH sig' lat' s e Hsome' H') as [I1 [I2 [I3 [I4 [I5 I6]]]]].
    assert (Hs : s = m_sig m) by (rewrite <- Es'; apply I1; rewrite Es'; exact Hm).
    repeat split.
    + intros Hn. rewrite Hs. symmetry. apply Es. exact Hn.
    + intros Hnil. discriminate.
    + intros k c [Hin|Hin]; [injection Hin as _ Ec; rewrite <- Ec; symmetry; exact Hs|apply (I3 k c Hin)].
    + lia.
    + intros k c [Hin|Hin]; [injection Hin as _ Ec; rewrite <- Ec; lia|apply (I5 k c Hin)].
    + destruct I6 as [I6|[k [c [Hin Hc]]]].
      * destruct Hlat as [_ [_ [Hl|Hl]]]; [left; lia|].
        right. exists k0, m. split; [left; reflexivity|lia].
      * right. exists k, c. split; [right; exact Hin|exact Hc].
Qed.

(* ---------- the property ---------- *)
Lemma valid_confirms : forall p c s,
    m_done c = true -> valid p c = true -> m_sig c = s -> confirms p s (m_sender c) c = true.
Proof.
  intros p c s Hd Hv Hs. unfold valid in Hv. unfold confirms.
  repeat (apply andb_prop in Hv; destruct Hv as [Hv ?]).
  rewrite Hd, N.eqb_refl. cbn [andb].
  repeat (apply andb_true_intro; split); try assumption.
  subst s. destruct (m_sig c); [|discriminate]. apply optN_eqb_eq. reflexivity.
Qed.

(* A tick reports a result only when exactly the included members are stored, each with a
   confirmation from the history carrying that same signature; the reported end block bounds
   all of them and is attained.  [order] is Go's map iteration order: any permutation. *)
Theorem done_only_when_all_confirmed : forall p h order s e,
    NoDup (p_members p) ->
    Permutation (listen p h) order ->
    tick p order = Done s e ->
    (forall x, In x (map fst order) <-> In x (p_members p)) /\
    (forall mem, In mem (p_members p) ->
                 exists c, In c h /\ confirms p s mem c = true /\ m_end c <= e) /\
    ((p_members p = [] /\ s = None /\ e = 0) \/
     (exists mem c, In mem (p_members p) /\ In c h /\ confirms p s mem c = true /\ m_end c = e)).
Proof.
  intros p h order s e Hnd Hperm Htick.
  destruct (listen_inv p h) as [Hnd_st Hall_st].
  assert (Hall : forall k c, In (k, c) order ->
                 k = m_sender c /\ In c h /\ m_done c = true /\ valid p c = true).
  { intros k c Hin. apply Hall_st. apply Permutation_in with (l := order);
      [apply Permutation_sym; exact Hperm|exact Hin]. }
  assert (Hnd_o : NoDup (map fst order)).
  { apply Permutation_NoDup with (l := map fst (listen p h)); [|exact Hnd_st].
    apply Permutation_map. exact Hperm. }
  unfold tick in Htick.
  destruct (Nat.eqb (length (p_members p)) (length order)) eqn:El; [|discriminate].
  apply Nat.eqb_eq in El.
  assert (Hsome : forall k c, In (k, c) order -> m_sig c <> None).
  { intros k c Hin. destruct (Hall k c Hin) as [_ [_ [_ Hv]]]. unfold valid in Hv.
    apply andb_prop in Hv. destruct Hv as [_ Hv]. destruct (m_sig c); [discriminate|discriminate]. }
  destruct (scan_spec order None 0 s e Hsome Htick) as [_ [Snil [Ssig [_ [Sle Satt]]]]].
  assert (Hincl : incl (map fst order) (p_members p)).
  { intros x Hx. apply in_map_iff in Hx. destruct Hx as [[k c] [Ek Hin]]. cbn in Ek. subst x.
    destruct (Hall k c Hin) as [Ek [_ [_ Hv]]]. subst k. unfold valid in Hv.
    repeat (apply andb_prop in Hv; destruct Hv as [Hv ?]). apply memN_In. exact Hv. }
  assert (Hincl' : incl (p_members p) (map fst order)).
  { apply NoDup_length_incl; [exact Hnd_o| |exact Hincl]. rewrite map_length. lia. }
  assert (Hmem : forall mem, In mem (p_members p) ->
                 exists c, In (mem, c) order /\ In c h /\ confirms p s mem c = true /\ m_end c <= e).
  { intros mem Hin. apply Hincl' in Hin. apply in_map_iff in Hin.
    destruct Hin as [[k c] [Ek Hin]]. cbn in Ek. subst k.
    destruct (Hall mem c Hin) as [Em [Hh [Hd Hv]]]. exists c. repeat split; try assumption.
    - rewrite Em. apply valid_confirms; try assumption. apply (Ssig mem c Hin).
    - apply (Sle mem c Hin). }
  split; [|split].
  - intros x. split; [apply Hincl|apply Hincl'].
  - intros mem Hin. destruct (Hmem mem Hin) as [c [_ [A [B C]]]]. exists c. repeat split; assumption.
  - destruct (p_members p) as [|m0 ms] eqn:Em.
    + left. destruct order; [|discriminate]. repeat split. apply Snil. reflexivity.
      cbn in Htick. inversion Htick. reflexivity.
    + right. destruct Satt as [E0|[k [c [Hin Hc]]]].
      * destruct (Hmem m0 (or_introl eq_refl)) as [c [_ [A [B C]]]].
        exists m0, c. repeat split; try assumption; try (left; reflexivity). lia.
      * destruct (Hall k c Hin) as [Ek [Hh [Hd Hv]]].
        exists k, c. repeat split; try assumption.
        -- apply Hincl. apply in_map_iff. exists (k, c). split; [reflexivity|exact Hin].
        -- rewrite Ek. apply valid_confirms; try assumption. apply (Ssig k c Hin).
Qed.

(* the decoded meaning of [confirms] *)
Lemma confirms_inv : forall p s mem c,
    confirms p s mem c = true ->
    m_done c = true /\ m_sender c = mem /\
    valid_membership (p_ops p) (m_sender c) (m_author c) = true /\
    m_message c = p_message p /\ m_attempt c = p_attempt p /\ m_end c <= p_timeout p /\
    s <> None /\ m_sig c = s.
Proof.
  intros p s mem c H. unfold confirms in H.
  repeat (apply andb_prop in H; destruct H as [H ?]).
  destruct s as [x|]; [|discriminate].
  repeat split; try assumption.
  - apply N.eqb_eq. assumption.
  - apply N.eqb_eq. assumption.
  - apply N.eqb_eq. assumption.
  - apply N.leb_le. assumption.
  - discriminate.
  - apply optN_eqb_eq. assumption.
Qed.

(* ---------- the executable form ---------- *)
Theorem result_ok_sound : forall p h s e,
    result_ok p h s e = true ->
    (forall mem, In mem (p_members p) ->
                 exists c, In c h /\ confirms p s mem c = true /\ m_end c <= e) /\
    ((p_members p = [] /\ s = None /\ e = 0) \/
     (exists mem c, In mem (p_members p) /\ In c h /\ confirms p s mem c = true /\ m_end c = e)).
Proof.
  intros p h s e H. unfold result_ok in H.
  destruct (p_members p) as [|m0 ms] eqn:Em.
  - apply andb_prop in H. destruct H as [H1 H2]. split; [intros mem []|].
    left. repeat split; [apply optN_eqb_eq; exact H1|apply N.eqb_eq; exact H2].
  - apply andb_prop in H. destruct H as [H1 H2]. split.
    + intros mem Hin. rewrite forallb_forall in H1. specialize (H1 mem Hin).
      apply existsb_exists in H1. destruct H1 as [c [Hc Hb]]. apply andb_prop in Hb.
      destruct Hb as [B1 B2]. exists c. repeat split; try assumption. apply N.leb_le. exact B2.
    + right. apply existsb_exists in H2. destruct H2 as [mem [Hin H2]].
      apply existsb_exists in H2. destruct H2 as [c [Hc Hb]]. apply andb_prop in Hb.
      destruct Hb as [B1 B2]. exists mem, c. repeat split; try assumption. apply N.eqb_eq. exact B2.
Qed.

Lemma result_ok_complete : forall p h s e,
    (forall mem, In mem (p_members p) ->
                 exists c, In c h /\ confirms p s mem c = true /\ m_end c <= e) ->
    ((p_members p = [] /\ s = None /\ e = 0) \/
     (exists mem c, In mem (p_members p) /\ In c h /\ confirms p s mem c = true /\ m_end c = e)) ->
    result_ok p h s e = true.
Proof.
  intros p h s e H1 H2. unfold result_ok.
  destruct (p_members p) as [|m0 ms] eqn:Em.
  - destruct H2 as [[_ [Hs He]]|[mem [c [[] _]]]]. subst. reflexivity.
  - apply andb_true_intro. split.
    + apply forallb_forall. intros mem Hin. destruct (H1 mem Hin) as [c [Hc [A B]]].
      apply existsb_exists. exists c. split; [exact Hc|]. rewrite A. cbn. apply N.leb_le. exact B.
    + destruct H2 as [[Hn _]|[mem [c [Hin [Hc [A B]]]]]]; [discriminate|].
      apply existsb_exists. exists mem. split; [exact Hin|].
      apply existsb_exists. exists c. split; [exact Hc|]. rewrite A. cbn. apply N.eqb_eq. exact B.
Qed.

(* every outcome of the model passes the executable form, whenever the tick happens: after
   [processed], with [rest] still to come *)
Theorem model_passes_spec : forall p processed rest order,
    NoDup (p_members p) ->
    Permutation (listen p processed) order ->
    out_ok p (processed ++ rest) (tick p order) = true.
Proof.
  intros p processed rest order Hnd Hperm.
  destruct (tick p order) as [s e| | | |] eqn:Et; try reflexivity.
  - cbn. destruct (done_only_when_all_confirmed p processed order s e Hnd Hperm Et) as [_ [A B]].
    apply result_ok_complete.
    + intros mem Hin. destruct (A mem Hin) as [c [Hc R]]. exists c. split; [|exact R].
      apply in_or_app. left. exact Hc.
    + destruct B as [B|[mem [c [Hin [Hc R]]]]]; [left; exact B|].
      right. exists mem, c. repeat split; try tauto. apply in_or_app. left. exact Hc.
  - unfold tick in Et. destruct (Nat.eqb _ _); [|discriminate].
    exfalso. clear -Et. revert Et. generalize (@None N) as sg. generalize 0 as lt.
    induction order as [|[k m] t IH]; intros lt sg Et; cbn in Et; [discriminate|].
    destruct sg; [destruct (optN_eqb _ _); [|discriminate]|]; eapply IH; exact Et.
Qed.

(* the result does not depend on Go's map iteration order *)
Theorem iteration_order_irrelevant : forall p h order s e,
    NoDup (p_members p) ->
    Permutation (listen p h) order ->
    tick p order = Done s e ->
    forall order' s' e', Permutation (listen p h) order' -> tick p order' = Done s' e' ->
                         s' = s /\ e' = e.
Proof.
  intros p h order s e Hnd Hp Ht order' s' e' Hp' Ht'.
  destruct (done_only_when_all_confirmed p h order s e Hnd Hp Ht) as [K [A B]].
  destruct (done_only_when_all_confirmed p h order' s' e' Hnd Hp' Ht') as [K' [A' B']].
  (* both scans range over permutations of the same store *)
  assert (Hpo : Permutation order order')
    by (eapply Permutation_trans; [apply Permutation_sym; exact Hp|exact Hp']).
  destruct (listen_inv p h) as [_ Hall_st].
  assert (Hsome : forall o, Permutation (listen p h) o -> forall k c, In (k, c) o -> m_sig c <> None).
  { intros o Ho k c Hin.
    assert (Hin' : In (k, c) (listen p h))
      by (apply Permutation_in with (l := o); [apply Permutation_sym; exact Ho|exact Hin]).
    destruct (Hall_st k c Hin') as [_ [_ [_ Hv]]]. unfold valid in Hv.
    apply andb_prop in Hv. destruct Hv as [_ Hv]. destruct (m_sig c); discriminate. }
  unfold tick in Ht, Ht'.
  destruct (Nat.eqb (length (p_members p)) (length order)); [|discriminate].
  destruct (Nat.eqb (length (p_members p)) (length order')); [|discriminate].
  destruct (scan_spec order None 0 s e (Hsome order Hp) Ht) as [_ [N1 [S1 [_ [L1 T1]]]]].
  destruct (scan_spec order' None 0 s' e' (Hsome order' Hp') Ht') as [_ [N2 [S2 [_ [L2 T2]]]]].
  destruct order as [|[k c] t].
  - apply Permutation_nil in Hpo. subst order'. rewrite (N1 eq_refl), (N2 eq_refl).
    cbn in Ht, Ht'. inversion Ht; inversion Ht'; subst. split; reflexivity.
  - split.
    + rewrite <- (S1 k c (or_introl eq_refl)).
      symmetry. apply (S2 k c). apply Permutation_in with (l := (k, c) :: t); [exact Hpo|left; reflexivity].
    + assert (e <= e').
      { destruct T1 as [E|[k1 [c1 [Hin Hc]]]]; [lia|]. rewrite <- Hc. apply (L2 k1 c1).
        apply Permutation_in with (l := (k, c) :: t); [exact Hpo|exact Hin]. }
      assert (e' <= e).
      { destruct T2 as [E|[k1 [c1 [Hin Hc]]]]; [lia|]. rewrite <- Hc. apply (L1 k1 c1).
        apply Permutation_in with (l := order'); [apply Permutation_sym; exact Hpo|exact Hin]. }
      lia.
Qed.

(* ---------- one signingDoneCheck, many attempts ---------- *)
Lemma do_msgs_params : forall h d, d_params (do_msgs d h) = d_params d.
Proof.
  unfold do_msgs. induction h as [|m t IH]; intros d; [reflexivity|].
  cbn [fold_left]. rewrite IH. reflexivity.
Qed.

Lemma do_msgs_store : forall h d,
    d_store (do_msgs d h) = fold_left (accept (d_params d)) h (d_store d).
Proof.
  unfold do_msgs. induction h as [|m t IH]; intros d; [reflexivity|].
  cbn [fold_left]. rewrite IH. reflexivity.
Qed.

Lemma do_msgs_app : forall d h1 h2, do_msgs d (h1 ++ h2) = do_msgs (do_msgs d h1) h2.
Proof. intros d h1 h2. unfold do_msgs. apply fold_left_app. Qed.

(* listen() starts every attempt from an empty doneSigners whatever the object held before *)
Lemma listen_fresh : forall p d h, d_store (do_msgs (do_listen p d) h) = listen p h.
Proof. intros p d h. rewrite do_msgs_store. reflexivity. Qed.

(* At every point of every attempt of every history on one object, from any initial state:
   doneSigners is what a fresh object would hold after the messages of THIS attempt alone. *)
Theorem no_state_across_attempts : forall d earlier p h,
    d_store (do_msgs (do_listen p (run_attempts d earlier)) h) = listen p h.
Proof. intros d earlier p h. apply listen_fresh. Qed.

(* the stores at the end of the attempts of a history = map of the single-attempt function *)
Theorem history_is_map : forall l d,
    stores_of d l = map (fun ph => listen (fst ph) (snd ph)) l.
Proof.
  induction l as [|[p h] t IH]; intros d; [reflexivity|].
  cbn [stores_of map fst snd]. rewrite listen_fresh, IH. reflexivity.
Qed.

Lemma existsb_ext_in : forall (A : Type) (f g : A -> bool) l,
    (forall x, f x = g x) -> existsb f l = existsb g l.
Proof. intros A f g l H. induction l as [|x t IH]; [reflexivity|]. cbn. rewrite H, IH. reflexivity. Qed.

Lemma agree_with_ext : forall a st st',
    (forall pre, st pre = st' pre) -> agree_with a st = agree_with a st'.
Proof.
  intros a st st' H. unfold agree_with. rewrite !H.
  destruct (c_out a); try reflexivity; f_equal;
    apply existsb_ext_in; intros pre; rewrite H; reflexivity.
Qed.

(* the judge's comparison on the object model = the single-attempt comparison of every attempt *)
Theorem agree_from_is_map : forall l d, agree_from d l = forallb agree1 l.
Proof.
  induction l as [|a t IH]; intros d; [reflexivity|].
  cbn [agree_from forallb]. rewrite IH. f_equal.
  unfold agree1. apply agree_with_ext. intros pre.
  rewrite <- do_msgs_app. apply listen_fresh.
Qed.

(* the property for histories: whatever happened in earlier attempts on the same object, a
   result of this attempt is backed by this attempt's included members confirming among the
   messages of THIS attempt *)
Theorem history_done_only_when_all_confirmed : forall d earlier p h order s e,
    NoDup (p_members p) ->
    Permutation (d_store (do_msgs (do_listen p (run_attempts d earlier)) h)) order ->
    tick p order = Done s e ->
    (forall x, In x (map fst order) <-> In x (p_members p)) /\
    (forall mem, In mem (p_members p) ->
                 exists c, In c h /\ confirms p s mem c = true /\ m_end c <= e) /\
    ((p_members p = [] /\ s = None /\ e = 0) \/
     (exists mem c, In mem (p_members p) /\ In c h /\ confirms p s mem c = true /\ m_end c = e)).
Proof.
  intros d earlier p h order s e Hnd Hperm Ht. rewrite no_state_across_attempts in Hperm.
  apply done_only_when_all_confirmed; assumption.
Qed.

Theorem history_model_passes_spec : forall d earlier p processed rest order,
    NoDup (p_members p) ->
    Permutation (d_store (do_msgs (do_listen p (run_attempts d earlier)) processed)) order ->
    out_ok p (processed ++ rest) (tick p order) = true.
Proof.
  intros d earlier p processed rest order Hnd Hperm. rewrite no_state_across_attempts in Hperm.
  apply model_passes_spec; assumption.
Qed.

(* the executable property of a whole case, decoded *)
Theorem spec_ok_sound : forall c,
    spec_ok c = true ->
    forall a, In a (c_attempts c) ->
      c_out a <> Panic /\
      forall s e, c_out a = Done s e ->
        let p := c_params a in
        let h := c_phase1 a ++ c_phase2 a in
        (forall mem, In mem (p_members p) ->
                     exists m, In m h /\ confirms p s mem m = true /\ m_end m <= e) /\
        ((p_members p = [] /\ s = None /\ e = 0) \/
         (exists mem m, In mem (p_members p) /\ In m h /\ confirms p s mem m = true /\ m_end m = e)).
Proof.
  intros c H a Hin. unfold spec_ok in H. rewrite forallb_forall in H. specialize (H a Hin).
  unfold spec_ok1 in H. split.
  - intros E. rewrite E in H. discriminate.
  - intros s e E. rewrite E in H. cbn [out_ok] in H. apply result_ok_sound. exact H.
Qed.

(* the hypotheses are satisfiable: members 1,2,3 of a 5-seat group confirm, member 4 (excluded,
   valid membership) does not count; and without member 3 the tick says NotYet *)
Definition ex_p : params :=
  {| p_ops := [1; 1; 2; 3; 3]; p_message := 1; p_attempt := 2; p_timeout := 1000; p_members := [1; 2; 3] |}.
Definition ex_m (sender author e : N) : dmsg :=
  {| m_done := true; m_sender := sender; m_author := author; m_message := 1; m_attempt := 2;
     m_end := e; m_sig := Some 1 |}.
Example excluded_member_does_not_count :
  tick ex_p (listen ex_p [ex_m 1 1 501; ex_m 2 1 502; ex_m 4 3 504]) = NotYet /\
  tick ex_p (listen ex_p [ex_m 4 3 504; ex_m 1 1 501; ex_m 2 1 502; ex_m 3 2 503]) = Done (Some 1) 503.
Proof. vm_compute. split; reflexivity. Qed.

(* a two-attempt history on one object: attempt 2 with members {1,2,3} collects 1 and 2 only;
   attempt 3 with members {1,2,5} starts empty: with no message it is NotYet, the stale
   confirmations of attempt 2 delivered late are rejected, and its own confirmations complete it *)
Definition ex_p3 : params :=
  {| p_ops := [1; 1; 2; 3; 3]; p_message := 1; p_attempt := 3; p_timeout := 2000; p_members := [1; 2; 5] |}.
Definition ex_m3 (sender author e : N) : dmsg :=
  {| m_done := true; m_sender := sender; m_author := author; m_message := 1; m_attempt := 3;
     m_end := e; m_sig := Some 2 |}.
Example second_attempt_starts_empty :
  let d1 := do_msgs (do_listen ex_p new_sdc) [ex_m 1 1 501; ex_m 2 1 502] in
  keys (d_store d1) = [1; 2] /\
  tick ex_p3 (d_store (do_listen ex_p3 d1)) = NotYet /\
  tick ex_p3 (d_store (do_msgs (do_listen ex_p3 d1) [ex_m 1 1 501; ex_m 2 1 502; ex_m 5 3 505])) = NotYet /\
  tick ex_p3 (d_store (do_msgs (do_listen ex_p3 d1) [ex_m 1 1 501; ex_m3 1 1 1501; ex_m3 2 1 1502; ex_m3 5 3 1505]))
  = Done (Some 2) 1505.
Proof. vm_compute. repeat split; reflexivity. Qed.
