(* Lemmas for C28; the interpreter lemmas are in Proofs/C27.v. *)
From Coq Require Import ZArith NArith List Bool Lia.
From Coq Require Import ZifyBool ZifyNat ZifyN.
From KV Require Import Common.Verdict Model.C27 Model.C28 Proofs.C27.
Import ListNotations.
Open Scope N_scope.

(* ------------------------------------------------------------------ byte layout *)
Theorem script_layout : forall d, dep_wf d -> ser (deposit_ops d) = deposit_script_bytes d.
Proof.
  intros [dep ex bl w r lk] W. unfold dep_wf in W; cbn in W. destruct W as (W1&W2&W3&W4&W5&W6).
  unfold deposit_ops, deposit_script_bytes.
  cbn [dp_depositor dp_extra dp_blinding dp_wpkh dp_rpkh dp_lock].
  destruct ex as [x|]; cbn [app]; repeat rewrite ser_cons; cbn [ser ser_op flat_map]; unfold nlen;
    rewrite ?W1, ?W2, ?W3, ?W4, ?W5, ?W6; cbn [N.of_nat Pos.of_succ_nat Pos.succ app];
    repeat (rewrite <- ?app_assoc; cbn [app]); reflexivity.
Qed.

Theorem script_length : forall d, dep_wf d ->
    length (deposit_script_bytes d) = match dp_extra d with Some _ => 126%nat | None => 92%nat end.
Proof.
  intros d W. rewrite <- script_layout by assumption.
  pose proof (deposit_ser_len d W) as H. unfold nlen in H. destruct (dp_extra d); lia.
Qed.

Lemma dep_wfb_spec : forall d, dep_wfb d = true <-> dep_wf d.
Proof.
  intros [dep ex bl w r lk]. unfold dep_wfb, dep_wf. cbn.
  destruct ex as [x|]; rewrite ?andb_true_iff, ?Nat.eqb_eq; intuition.
Qed.

Lemma arrays_ok_wf : forall di b, arrays_ok di = true -> length b = 20%nat -> dep_wf (to_dep di b).
Proof.
  intros di b H L. unfold arrays_ok in H. unfold dep_wf, to_dep. cbn.
  destruct (di_extra di) as [x|]; repeat (apply andb_prop in H as [H ?]);
    repeat match goal with E : (_ =? _)%nat = true |- _ => apply Nat.eqb_eq in E end; auto 10.
Qed.

(* Deposit.Script() as a whole *)
Theorem script_of_spec : forall di s,
    script_of di = Some s ->
    exists b, hex_decode (trim0x (di_depositor di)) = Some b /\ length b = 20%nat /\
              s = deposit_script_bytes (to_dep di b) /\
              (arrays_ok di = true -> dep_wf (to_dep di b) /\ s = ser (deposit_ops (to_dep di b))).
Proof.
  intros di s H. unfold script_of in H.
  destruct (hex_decode (trim0x (di_depositor di))) as [b|]; [|discriminate].
  destruct (Nat.eqb_spec (length b) 20) as [L|L]; [|discriminate]. inversion H; subst s.
  exists b. split; [reflexivity|]. split; [assumption|]. split; [reflexivity|].
  intro A. pose proof (arrays_ok_wf di b A L) as W. split; [assumption|].
  symmetry. now apply script_layout.
Qed.

Theorem script_of_none : forall di,
    script_of di = None <->
    match hex_decode (trim0x (di_depositor di)) with Some b => length b <> 20%nat | None => True end.
Proof.
  intro di. unfold script_of. destruct (hex_decode (trim0x (di_depositor di))) as [b|]; [|tauto].
  destruct (Nat.eqb_spec (length b) 20); split; intro H; congruence.
Qed.

(* ------------------------------------------------------------------ CLTV operand *)
Lemma cltv_pass_spec : forall c lock, length lock = 4%nat ->
    cltv_pass c lock = lock_standard lock && refund_open lock (tx_lock (c_tx c)) (ctx_sequence c).
Proof.
  intros c lock L. unfold cltv_pass, script_num, lock_standard, refund_open. rewrite L. cbn [Nat.ltb Nat.leb].
  destruct (minimal_num lock); reflexivity.
Qed.

Lemma ctx_sequence_spend : forall w tx i amount d,
    ctx_sequence (spend_ctx w tx i amount d) = input_sequence tx i.
Proof. reflexivity. Qed.

Theorem refund_open_spec : forall lock l s,
    refund_open lock l s = true <->
    (let n := num_val lock in
     0 <= n /\ ((Z.of_N l < 500000000 /\ n < 500000000) \/ (500000000 <= Z.of_N l /\ 500000000 <= n)) /\
     n <= Z.of_N l)%Z /\ s <> 4294967295.
Proof.
  intros lock l s. unfold refund_open, locktime_ok, locktime_threshold, max_seq. cbn zeta.
  rewrite !andb_true_iff, orb_true_iff, !andb_true_iff, negb_true_iff, N.eqb_neq.
  rewrite !Z.leb_le, !Z.ltb_lt. tauto.
Qed.

(* a standard 4-byte operand is the little-endian number with the top bit clear *)
Theorem lock_standard_spec : forall a b c e,
    lock_standard [a; b; c; e] = true <->
    (N.land e 127 <> 0 \/ 128 <= c).
Proof.
  intros a b c e. unfold lock_standard, minimal_num. cbn [unsnoc].
  destruct (N.eqb_spec (N.land e 127) 0) as [E|E].
  - rewrite N.leb_le. split; [auto|]. intros [H|H]; [congruence|assumption].
  - split; auto.
Qed.

Theorem num_val_nonneg : forall a b c e, e < 128 ->
    num_val [a; b; c; e] = Z.of_N (a + 256 * (b + 256 * (c + 256 * e))).
Proof.
  intros a b c e H. unfold num_val. cbn [unsnoc].
  destruct (N.leb_spec 128 e); [lia|]. cbn [le_val]. f_equal. lia.
Qed.

(* ------------------------------------------------------------------ spends *)
Section SpendLemmas.
  Variable hash160 sha256 : bytes -> bytes.
  Variable der_strict : bytes -> bool.
  Variable checksig : bytes -> bytes -> sighash -> bool.
  Hypothesis H160 : forall x, length (hash160 x) = 20%nat.
  Hypothesis H256 : forall x, length (sha256 x) = 32%nat.

  Notation engine := (engine_on_deposit hash160 sha256 der_strict checksig).
  Notation good := (sig_good der_strict checksig).

  Lemma engine_deposit_cond : forall w tx i amount d sig pk,
      dep_wf d -> (i < length (tx_ins tx))%nat ->
      engine w tx i amount d sig pk =
      if deposit_cond hash160 der_strict checksig (spend_ctx w tx i amount d) d pk sig
      then Accept else Reject.
  Proof.
    intros w tx i amount d sig pk W Hi.
    destruct (N.leb_spec (nlen sig) 520) as [Hs|Hs]; [destruct (N.leb_spec (nlen pk) 520) as [Hp|Hp]|].
    - destruct w; unfold engine_on_deposit, spend_ctx, wrap_ver.
      + apply p2sh_deposit_verify; auto.
      + apply p2wsh_deposit_verify; auto.
    - (* a public key above the 520-byte element limit *)
      unfold deposit_cond. rewrite sig_accept_big by (right; assumption). cbn [andb].
      destruct w; unfold engine_on_deposit.
      + apply p2sh_deposit_verify_big; auto.
      + apply p2wsh_deposit_verify_big; auto.
    - unfold deposit_cond. rewrite sig_accept_big by (left; assumption). cbn [andb].
      destruct w; unfold engine_on_deposit.
      + apply p2sh_deposit_verify_big; auto.
      + apply p2wsh_deposit_verify_big; auto.
  Qed.

  (* the whole spend condition *)
  Theorem spend_characterisation : forall w tx i amount d sig pk,
      dep_wf d -> (i < length (tx_ins tx))%nat ->
      engine w tx i amount d sig pk =
      if spend_allowed (dp_wpkh d) (dp_rpkh d) (dp_lock d) (hash160 pk) (good w tx i amount d sig pk)
                       (tx_lock tx) (input_sequence tx i)
      then Accept else Reject.
  Proof.
    intros w tx i amount d sig pk W Hi. rewrite engine_deposit_cond by assumption.
    unfold deposit_cond, spend_allowed, sig_good.
    rewrite cltv_pass_spec by (unfold dep_wf in W; tauto).
    rewrite ctx_sequence_spend. unfold spend_ctx at 3. cbn [c_tx].
    now rewrite andb_assoc.
  Qed.

  Theorem wallet_key_spends_any_time : forall w tx i amount d sig pk,
      dep_wf d -> (i < length (tx_ins tx))%nat ->
      hash160 pk = dp_wpkh d -> good w tx i amount d sig pk = true ->
      engine w tx i amount d sig pk = Accept.
  Proof.
    intros w tx i amount d sig pk W Hi Hk Hg. rewrite spend_characterisation by assumption.
    unfold spend_allowed. now rewrite Hg, Hk, bytes_eqb_refl.
  Qed.

  Theorem refund_key_iff_locktime : forall w tx i amount d sig pk,
      dep_wf d -> (i < length (tx_ins tx))%nat ->
      hash160 pk = dp_rpkh d -> dp_rpkh d <> dp_wpkh d -> good w tx i amount d sig pk = true ->
      (engine w tx i amount d sig pk = Accept <->
       lock_standard (dp_lock d) = true /\
       refund_open (dp_lock d) (tx_lock tx) (input_sequence tx i) = true) /\
      (engine w tx i amount d sig pk <> Accept -> engine w tx i amount d sig pk = Reject).
  Proof.
    intros w tx i amount d sig pk W Hi Hk Hne Hg. rewrite spend_characterisation by assumption.
    unfold spend_allowed. rewrite Hg, Hk, bytes_eqb_refl.
    replace (bytes_eqb (dp_rpkh d) (dp_wpkh d)) with false
      by (symmetry; apply bytes_eqb_neq; assumption).
    cbn [andb orb].
    destruct (lock_standard (dp_lock d)); destruct (refund_open _ _ _); cbn; split;
      try tauto; try (split; [discriminate|intros [? ?]; discriminate]); congruence.
  Qed.

  Theorem no_other_key : forall w tx i amount d sig pk,
      dep_wf d -> (i < length (tx_ins tx))%nat ->
      engine w tx i amount d sig pk = Accept ->
      good w tx i amount d sig pk = true /\
      (hash160 pk = dp_wpkh d \/
       (hash160 pk = dp_rpkh d /\ lock_standard (dp_lock d) = true /\
        refund_open (dp_lock d) (tx_lock tx) (input_sequence tx i) = true)).
  Proof.
    intros w tx i amount d sig pk W Hi H. rewrite spend_characterisation in H by assumption.
    unfold spend_allowed in H.
    destruct (good w tx i amount d sig pk); [|discriminate]. split; [reflexivity|]. cbn [andb] in H.
    destruct (bytes_eqb (hash160 pk) (dp_wpkh d)) eqn:E1; [left; now apply bytes_eqb_eq|].
    destruct (bytes_eqb (hash160 pk) (dp_rpkh d)) eqn:E2; [|discriminate].
    right. apply bytes_eqb_eq in E2. cbn [orb andb] in H.
    destruct (lock_standard (dp_lock d)); [|discriminate].
    destruct (refund_open _ _ _); [auto|discriminate].
  Qed.

  (* with a collision-free HASH160: the key itself is the wallet's or the refunder's *)
  Hypothesis hash160_injective : forall a b, hash160 a = hash160 b -> a = b.

  Theorem no_other_key_injective : forall w tx i amount d sig pk wallet_pk refund_pk,
      dep_wf d -> (i < length (tx_ins tx))%nat ->
      dp_wpkh d = hash160 wallet_pk -> dp_rpkh d = hash160 refund_pk ->
      engine w tx i amount d sig pk = Accept ->
      pk = wallet_pk \/
      (pk = refund_pk /\ refund_open (dp_lock d) (tx_lock tx) (input_sequence tx i) = true).
  Proof.
    intros w tx i amount d sig pk wpk rpk W Hi E1 E2 H.
    destruct (no_other_key _ _ _ _ _ _ _ W Hi H) as [_ [K|(K&_&R)]].
    - left. apply hash160_injective. congruence.
    - right. split; [apply hash160_injective; congruence|assumption].
  Qed.
End SpendLemmas.

(* the embedded data does not enter the spend condition: two deposits with the same key hashes
   and locktime give the same verdict whenever the signature checks give the same answer *)
Theorem embedded_data_inert :
  forall (hash160 sha256 : bytes -> bytes) der_strict checksig,
    (forall x, length (hash160 x) = 20%nat) -> (forall x, length (sha256 x) = 32%nat) ->
    forall w tx i amount d d' sig sig' pk,
      dep_wf d -> dep_wf d' -> same_conditions d d' ->
      (i < length (tx_ins tx))%nat ->
      sig_good der_strict checksig w tx i amount d sig pk =
      sig_good der_strict checksig w tx i amount d' sig' pk ->
      engine_on_deposit hash160 sha256 der_strict checksig w tx i amount d sig pk =
      engine_on_deposit hash160 sha256 der_strict checksig w tx i amount d' sig' pk.
Proof.
  intros hash160 sha256 der_strict checksig H1 H2 w tx i amount d d' sig sig' pk W W' (E1&E2&E3)
         Hi Hg.
  rewrite !spend_characterisation by assumption. now rewrite E1, E2, E3, Hg.
Qed.

(* ------------------------------------------------------------------ the depositor string *)
Lemma hexval_hexdigit : forall n, n < 16 -> hexval (hexdigit n) = Some n.
Proof.
  intros n H.
  assert (E : n = 0 \/ n = 1 \/ n = 2 \/ n = 3 \/ n = 4 \/ n = 5 \/ n = 6 \/ n = 7 \/ n = 8 \/ n = 9
              \/ n = 10 \/ n = 11 \/ n = 12 \/ n = 13 \/ n = 14 \/ n = 15) by lia.
  repeat (destruct E as [->|E]; [reflexivity|]). subst; reflexivity.
Qed.

Lemma hex_decode_encode_aux : forall b, Forall (fun x => x < 256) b ->
    forall f, (length b <= f)%nat -> hex_decode_aux f (hex_encode b) = Some b.
Proof.
  induction 1 as [|x b Hx _ IH]; intros f Hf.
  - destruct f; reflexivity.
  - destruct f as [|f]; [cbn in Hf; lia|]. cbn [hex_encode hex_decode_aux].
    rewrite !hexval_hexdigit by (try apply N.mod_lt; try apply N.div_lt_upper_bound; lia).
    rewrite IH by (cbn in Hf; lia). f_equal. f_equal.
    pose proof (N.div_mod x 16 ltac:(lia)). lia.
Qed.

Lemma hex_encode_length : forall b, length (hex_encode b) = (2 * length b)%nat.
Proof. induction b as [|x b IH]; [reflexivity|]. cbn [hex_encode length]. lia. Qed.

Theorem hex_decode_encode : forall b, Forall (fun x => x < 256) b ->
    hex_decode (hex_encode b) = Some b.
Proof.
  intros b H. unfold hex_decode. apply hex_decode_encode_aux; [assumption|].
  rewrite hex_encode_length. lia.
Qed.

Lemma hexdigit_le : forall n, n < 16 -> hexdigit n <= 102.
Proof. intros n H. unfold hexdigit. destruct (N.ltb_spec n 10); lia. Qed.

Lemma trim0x_hex : forall b, trim0x (hex_encode b) = hex_encode b.
Proof.
  intros [|x t]; [reflexivity|]. cbn [hex_encode]. unfold trim0x.
  destruct (hexdigit (x / 16)) as [|p] eqn:E1; [reflexivity|].
  assert (Hm : hexdigit (x mod 16) <> 120).
  { pose proof (hexdigit_le (x mod 16) ltac:(apply N.mod_lt; lia)). lia. }
  repeat (destruct p as [p|p|]; try reflexivity);
  destruct (hexdigit (x mod 16)) as [|q]; try reflexivity;
  repeat (destruct q as [q|q|]; try reflexivity); exfalso; apply Hm; reflexivity.
Qed.

(* Deposit.Script() succeeds on every 20-byte depositor given in hex, with or without "0x", and
   returns the documented byte layout = the opcode list *)
Theorem script_of_total : forall di b,
    Forall (fun x => x < 256) b -> length b = 20%nat -> arrays_ok di = true ->
    (di_depositor di = hex_encode b \/ di_depositor di = 48 :: 120 :: hex_encode b) ->
    script_of di = Some (deposit_script_bytes (to_dep di b)) /\
    deposit_script_bytes (to_dep di b) = ser (deposit_ops (to_dep di b)) /\
    dep_wf (to_dep di b).
Proof.
  intros di b Hb L A D.
  assert (E : hex_decode (trim0x (di_depositor di)) = Some b).
  { destruct D as [-> | ->]; [rewrite trim0x_hex|cbn [trim0x]]; now apply hex_decode_encode. }
  pose proof (arrays_ok_wf di b A L) as W.
  unfold script_of. rewrite E, L. cbn [Nat.eqb]. split; [reflexivity|]. split; [|assumption].
  symmetry. now apply script_layout.
Qed.

(* ------------------------------------------------------------------ the executable form *)
Theorem spec_spend_sound : forall (c : dep_case) (s : spend),
    Concrete.spec_spend c s = true -> sp_neutral s = false ->
    let d := dc_in c in
    let pkh := table_fn (dc_hash160 c) (sp_pk s) in
    (Concrete.good_of s = false -> sp_engine s = false) /\
    (Concrete.good_of s = true -> pkh = di_wpkh d -> sp_engine s = true) /\
    (Concrete.good_of s = true -> pkh <> di_wpkh d -> pkh = di_rpkh d ->
     (refund_open (di_lock d) (tx_lock (sp_tx s)) (Concrete.seq_of s) = false -> sp_engine s = false) /\
     (refund_open (di_lock d) (tx_lock (sp_tx s)) (Concrete.seq_of s) = true ->
      lock_standard (di_lock d) = true -> sp_engine s = true)) /\
    (Concrete.good_of s = true -> pkh <> di_wpkh d -> pkh <> di_rpkh d -> sp_engine s = false).
Proof.
  intros c s H N. cbn zeta. unfold Concrete.spec_spend in H. rewrite N in H.
  destruct (Concrete.good_of s); cbn [negb] in H.
  2:{ repeat split; try discriminate. intros _. now apply negb_true_iff in H. }
  split; [discriminate|].
  destruct (bytes_eqb (table_fn (dc_hash160 c) (sp_pk s)) (di_wpkh (dc_in c))) eqn:E1.
  { apply bytes_eqb_eq in E1. repeat split; try tauto; try contradiction. }
  apply bytes_eqb_neq in E1.
  destruct (bytes_eqb (table_fn (dc_hash160 c) (sp_pk s)) (di_rpkh (dc_in c))) eqn:E2.
  - apply bytes_eqb_eq in E2. split; [contradiction|]. split; [|contradiction].
    intros _ _ _. destruct (refund_open _ _ _).
    + split; [discriminate|]. intros _ L. now rewrite L in H.
    + split; [|discriminate]. intros _. now apply negb_true_iff in H.
  - apply bytes_eqb_neq in E2. split; [contradiction|]. split; [contradiction|].
    intros _ _ _. now apply negb_true_iff in H.
Qed.

(* the verdict predicted by [spend_characterisation] passes the executable property *)
Theorem predicted_verdict_passes_spec : forall (c : dep_case) (s : spend),
    sp_engine s = spend_allowed (di_wpkh (dc_in c)) (di_rpkh (dc_in c)) (di_lock (dc_in c))
                                (table_fn (dc_hash160 c) (sp_pk s)) (Concrete.good_of s)
                                (tx_lock (sp_tx s)) (Concrete.seq_of s) ->
    Concrete.spec_spend c s = true.
Proof.
  intros c s H. unfold Concrete.spec_spend. destruct (sp_neutral s); [reflexivity|].
  rewrite H. unfold spend_allowed.
  destruct (Concrete.good_of s); [|reflexivity]. cbn [negb andb].
  destruct (bytes_eqb (table_fn (dc_hash160 c) (sp_pk s)) (di_wpkh (dc_in c))); [reflexivity|].
  destruct (bytes_eqb (table_fn (dc_hash160 c) (sp_pk s)) (di_rpkh (dc_in c))); [|reflexivity].
  cbn [orb andb].
  destruct (refund_open _ _ _); destruct (lock_standard _); reflexivity.
Qed.

(* the model's script embeds the data *)
Theorem model_script_embeds : forall di s,
    arrays_ok di = true -> script_of di = Some s -> Concrete.embeds di s = true.
Proof.
  intros di s A H. destruct (script_of_spec di s H) as (b&E&L&_&G). destruct (G A) as [W ->].
  unfold Concrete.embeds. rewrite parse_ser by (apply deposit_ops_wf; assumption). rewrite E.
  unfold deposit_ops, to_dep. cbn [dp_depositor dp_extra dp_blinding app].
  destruct (di_extra di); cbn [app opt_eqb]; rewrite !bytes_eqb_refl; reflexivity.
Qed.

Ltac next_op H ops :=
  let o := fresh "o" in
  destruct ops as [|o ops]; [discriminate H|]; destruct o; try discriminate H.

Theorem embeds_sound : forall di script,
    Concrete.embeds di script = true ->
    exists e dep ops, parse script = Some (OPush e dep :: ODrop :: ops) /\
      hex_decode (trim0x (di_depositor di)) = Some dep /\
      match di_extra di with
      | Some x => exists e1 e2 r, ops = OPush e1 x :: ODrop :: OPush e2 (di_blinding di) :: ODrop :: ODup :: r
      | None => exists e2 r, ops = OPush e2 (di_blinding di) :: ODrop :: ODup :: r
      end.
Proof.
  intros di script H. unfold Concrete.embeds in H.
  destruct (parse script) as [ops|]; [|discriminate].
  next_op H ops. next_op H ops.
  apply andb_prop in H as [H1 H2].
  eexists _, _, ops. split; [reflexivity|]. split.
  { destruct (hex_decode (trim0x (di_depositor di))) as [b|]; [|discriminate].
    cbn in H1. apply bytes_eqb_eq in H1. now subst. }
  destruct (di_extra di) as [x|].
  - next_op H2 ops. next_op H2 ops. next_op H2 ops. next_op H2 ops. next_op H2 ops.
    apply andb_prop in H2 as [A B]. apply bytes_eqb_eq in A, B. subst. eauto.
  - next_op H2 ops. next_op H2 ops. next_op H2 ops.
    apply bytes_eqb_eq in H2. subst. eauto.
Qed.

Theorem spec_ok_sound : forall c : dep_case,
    Concrete.spec_ok c = true ->
    match dc_script c with
    | Some script => Concrete.embeds (dc_in c) script = true /\
                     forall s, In s (dc_spends c) -> Concrete.spec_spend c s = true
    | None => script_of (dc_in c) = None /\ dc_spends c = []
    end.
Proof.
  intros c H. unfold Concrete.spec_ok in H. destruct (dc_script c) as [script|].
  - apply andb_prop in H as [H1 H2]. split; [assumption|]. now apply forallb_forall.
  - apply andb_prop in H as [H1 H2]. split.
    + destruct (script_of (dc_in c)); [discriminate|reflexivity].
    + destruct (dc_spends c); [reflexivity|discriminate].
Qed.

Theorem judge_agree_sound : forall c : dep_case,
    Concrete.judge c = Agree -> Concrete.spec_ok c = true /\ Concrete.agree c = true.
Proof.
  intros c H. unfold Concrete.judge, decide in H.
  destruct (negb (arrays_ok (dc_in c))); [discriminate|].
  destruct (dc_script c); [destruct (existsb _ _); [discriminate|]|];
    destruct (Concrete.spec_ok c); try discriminate; destruct (Concrete.agree c); auto; discriminate.
Qed.

(* ------------------------------------------------------------------ Script() call histories *)
Lemma opt_bytes_eqb_eq : forall a b : option bytes, opt_eqb bytes_eqb a b = true <-> a = b.
Proof.
  intros [a|] [b|]; cbn [opt_eqb]; split; intro H; try discriminate; try reflexivity.
  - apply bytes_eqb_eq in H. now subst.
  - injection H as ->. apply bytes_eqb_refl.
Qed.

Lemma list_opt_eqb_eq : forall a b : list (option bytes),
    list_eqb (opt_eqb bytes_eqb) a b = true <-> a = b.
Proof.
  induction a as [|x a IH]; intros [|y b]; cbn [list_eqb]; split; intro H;
    try discriminate; try reflexivity.
  - apply andb_prop in H as [H1 H2]. apply opt_bytes_eqb_eq in H1. apply IH in H2. now subst.
  - injection H as -> ->. apply andb_true_intro. split; [now apply opt_bytes_eqb_eq|now apply IH].
Qed.

(* no memory: whatever the process has computed before ([past]), a sequence of Script() calls
   returns the pure function's value for each call's own parameters *)
Theorem history_is_map : forall past l, run_history past l = map script_of l.
Proof.
  intros past l. revert past. induction l as [|d t IH]; intro past; cbn [run_history map];
    [reflexivity|]. now rewrite IH.
Qed.

Theorem history_past_irrelevant : forall past past' l, run_history past l = run_history past' l.
Proof. intros. now rewrite !history_is_map. Qed.

(* later calls do not change what earlier calls returned *)
Theorem history_prefix_stable : forall past l l',
    firstn (length l) (run_history past (l ++ l')) = run_history past l.
Proof.
  intros. rewrite !history_is_map, map_app.
  rewrite <- (map_length script_of l), firstn_app, Nat.sub_diag, firstn_all. cbn [firstn].
  now rewrite app_nil_r.
Qed.

(* every script of a history is the deposit script of THAT call's parameters - so the spend
   theorems (spend_characterisation ...) apply to it with that call's key hashes and locktime,
   whatever the earlier and later calls were *)
Theorem history_call_script : forall past l n di s,
    nth_error l n = Some di -> nth_error (run_history past l) n = Some (Some s) ->
    exists b, hex_decode (trim0x (di_depositor di)) = Some b /\ length b = 20%nat /\
              s = deposit_script_bytes (to_dep di b) /\
              (arrays_ok di = true -> dep_wf (to_dep di b) /\ s = ser (deposit_ops (to_dep di b))).
Proof.
  intros past l n di s H1 H2. rewrite history_is_map in H2.
  rewrite (map_nth_error script_of n l H1) in H2. injection H2 as H2.
  now apply script_of_spec.
Qed.

Theorem hspec_ok_sound : forall l,
    History.hspec_ok l = true ->
    forall e, In e l -> Concrete.spec_ok (he_case e) = true /\ he_late e = dc_script (he_case e).
Proof.
  intros l H e I. unfold History.hspec_ok in H. rewrite forallb_forall in H.
  apply H in I. apply andb_prop in I as [I1 I2]. split; [assumption|].
  now apply opt_bytes_eqb_eq.
Qed.

Theorem hagree_sound : forall l,
    History.hagree l = true ->
    map (fun e => dc_script (he_case e)) l = map script_of (map (fun e => dc_in (he_case e)) l).
Proof.
  intros l H. unfold History.hagree in H. apply andb_prop in H as [H _].
  apply list_opt_eqb_eq in H. now rewrite <- H, history_is_map.
Qed.

(* the executable property holds of every history the model produces: scripts = run_history of
   the parameters, re-read unchanged, spends answered as [spend_characterisation] predicts *)
Theorem model_history_passes_spec : forall past l,
    map (fun e => dc_script (he_case e)) l = run_history past (map (fun e => dc_in (he_case e)) l) ->
    (forall e, In e l ->
       arrays_ok (dc_in (he_case e)) = true /\ he_late e = dc_script (he_case e) /\
       (dc_script (he_case e) = None -> dc_spends (he_case e) = []) /\
       forall s, In s (dc_spends (he_case e)) ->
         sp_engine s = spend_allowed (di_wpkh (dc_in (he_case e))) (di_rpkh (dc_in (he_case e)))
                                     (di_lock (dc_in (he_case e)))
                                     (table_fn (dc_hash160 (he_case e)) (sp_pk s)) (Concrete.good_of s)
                                     (tx_lock (sp_tx s)) (Concrete.seq_of s)) ->
    History.hspec_ok l = true.
Proof.
  intros past l E H. rewrite history_is_map, map_map in E.
  unfold History.hspec_ok. apply forallb_forall. intros e I.
  destruct (H e I) as (A & L & N & S).
  assert (Ee : dc_script (he_case e) = script_of (dc_in (he_case e))).
  { clear - E I. induction l as [|x l IH]; [destruct I|]. cbn [map] in E. injection E as E1 E2.
    destruct I as [<- | I]; [assumption|now apply IH]. }
  apply andb_true_intro. split.
  - unfold Concrete.spec_ok. destruct (dc_script (he_case e)) as [script|] eqn:D.
    + apply andb_true_intro. split.
      * apply model_script_embeds; [assumption|now symmetry].
      * apply forallb_forall. intros s Is. apply predicted_verdict_passes_spec. now apply S.
    + rewrite <- Ee, (N eq_refl). reflexivity.
  - unfold History.late_ok. now apply opt_bytes_eqb_eq.
Qed.

Theorem judge_any_agree_sound : forall a,
    judge_any a = Agree ->
    match a with
    | DOne c => Concrete.spec_ok c = true /\ Concrete.agree c = true
    | DHist l => History.hspec_ok l = true /\ History.hagree l = true
    end.
Proof.
  intros [c|l] H; cbn [judge_any] in H.
  - now apply judge_agree_sound.
  - unfold History.hjudge, decide in H. destruct l as [|e l]; [discriminate|].
    destruct (existsb _ _); [discriminate|].
    destruct (History.hspec_ok (e :: l)); try discriminate.
    destruct (History.hagree (e :: l)); try discriminate. auto.
Qed.

(* ------------------------------------------------------------------ non-vacuity *)
Module Witness.
  Definition h160 (x : bytes) : bytes :=
    match x with 2 :: 1 :: _ => repeat 7 20 | 3 :: _ => repeat 5 20 | _ => repeat 9 20 end.
  Definition s256 (_ : bytes) : bytes := repeat 9 32.
  Definition wallet_pk : bytes := 2 :: repeat 1 32.
  Definition refund_pk : bytes := 3 :: repeat 1 32.
  Definition other_pk : bytes := 2 :: repeat 4 32.
  Definition sig : bytes := repeat 48 9 ++ [1].
  (* refund locktime 1700000000 = 0x6553F100, little endian *)
  Definition d (extra : option bytes) : dep :=
    {| dp_depositor := repeat 1 20; dp_extra := extra; dp_blinding := repeat 3 8;
       dp_wpkh := repeat 7 20; dp_rpkh := repeat 5 20; dp_lock := [0; 241; 83; 101] |}.
  Definition tx (lock sequence : N) : tx_skel :=
    {| tx_version := 1; tx_ins := [{| ti_txid := 1; ti_vout := 0; ti_seq := sequence |}];
       tx_outs := [(1000%Z, [])]; tx_lock := lock |}.
  Definition yes1 (_ : bytes) := true.
  Definition yes3 (_ _ : bytes) (_ : sighash) := true.
  Definition run (w : wrap) (extra : option bytes) (lock sequence : N) (pk : bytes) : vres :=
    engine_on_deposit h160 s256 yes1 yes3 w (tx lock sequence) 0 5000 (d extra) sig pk.
End Witness.

Example deposit_spends :
  dep_wf (Witness.d None) /\ dep_wf (Witness.d (Some (repeat 2 32))) /\
  forall w extra, (w = WP2SH \/ w = WP2WSH) -> (extra = None \/ extra = Some (repeat 2 32)) ->
    (* wallet key: at any locktime / sequence *)
    Witness.run w extra 0 4294967295 Witness.wallet_pk = Accept /\
    (* refund key: not before the locktime, not with a final sequence, yes afterwards *)
    Witness.run w extra 1699999999 0 Witness.refund_pk = Reject /\
    Witness.run w extra 1700000000 4294967295 Witness.refund_pk = Reject /\
    Witness.run w extra 1700000000 4294967294 Witness.refund_pk = Accept /\
    (* a block-height locktime does not satisfy a time locktime *)
    Witness.run w extra 499999999 0 Witness.refund_pk = Reject /\
    (* another key: never *)
    Witness.run w extra 1700000000 0 Witness.other_pk = Reject.
Proof.
  split; [repeat split|]. split; [repeat split|].
  intros w extra [-> | ->] [-> | ->]; vm_compute; repeat split.
Qed.

(* a history over ONE funding outpoint whose calls differ in the refund locktime only: the second
   call gets its own script, the third the first one again *)
Module HistWitness.
  Definition di (lock0 : N) : dep_in :=
    {| di_depositor := 48 :: 120 :: hex_encode (repeat 1 20); di_blinding := repeat 3 8;
       di_extra := None; di_wpkh := repeat 7 20; di_rpkh := repeat 5 20;
       di_lock := [lock0; 241; 83; 101] |}.
End HistWitness.

Example history_follows_parameters :
  let a := HistWitness.di 0 in
  let b := HistWitness.di 1 in
  arrays_ok a = true /\ arrays_ok b = true /\
  run_history [a] [a; b; a] = [script_of a; script_of b; script_of a] /\
  script_of a <> None /\ script_of b <> None /\ script_of a <> script_of b.
Proof. vm_compute. repeat split; discriminate. Qed.

