(* C02 — lemmas (stub, being filled in) *)
From Coq Require Import ZArith NArith List Bool Lia.
From KV Require Import Common.Verdict Model.C02.
Import ListNotations.
Open Scope N_scope.

Lemma out_of_scope_ok : forall cs, in_scope cs = false -> spec_ok cs = true.
Proof. intros cs H. unfold spec_ok. rewrite H. reflexivity. Qed.
