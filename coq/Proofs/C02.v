(* C02 — lemmas about Model/C01.v + Model/C02.v: key shares are consistent with the group key.
   Property statements are in Props/C02.v.

   The mathematical content: let QUAL be the set of qualified dealers and f_k the polynomial
   (at most t+1 coefficients) dealer k shared.  Write D k i = f_k(i) and F = sum_k f_k.
     - CombineMemberShares (phase6) yields share_i = F(i) mod q when member i holds, for every
       k in QUAL, a share that equals D k i modulo q;
     - ComputeGroupPublicKeyShares (pubshare_for / phase12) yields, in the discrete-log
       representation, F(i) mod q for member i when member j holds for every k in QUAL either
       public key share points that evaluate to D k i at i, or a revealed share D k i;
     - CombineGroupPublicKey (phase12) yields F(0) mod q when the accepted points' constant
       terms and the reconstructed individual keys are f_k(0);
     - reconstructIndividualPrivateKeys / calculateLagrangeCoefficient (interpolate0) return
       f_k(0) from at least (number of coefficients) correct shares (Proofs/C02_lagrange.v);
     - any t+1 shares F(i) at distinct indices interpolate to F(0).
   The hypotheses "member i's / member j's view is consistent with the dealing" are what the
   agreement property (C01) is about; here they are explicit premises. *)
From Coq Require Import ZArith Znumtheory NArith List Bool Lia Permutation.
From KV Require Import Common.Verdict Model.C02 Proofs.C02_arith Proofs.C02_lagrange.
Import ListNotations.
Open Scope N_scope.

(* ================================================================================= *)
(* 0. small list facts                                                               *)
(* ================================================================================= *)

Lemma lookup_In : forall A k (v : A) l, lookup k l = Some v -> In (k, v) l.
Proof.
  intros A k v l. induction l as [|[k' v'] l IH]; cbn [lookup]; [discriminate|].
  destruct (N.eqb_spec k k') as [->|_].
  - intros [= ->]. left. reflexivity.
  - intros H. right. apply IH. exact H.
Qed.

Lemma fold_left_snd (Q : Z) : forall (l : list (N * Z)) init,
  fold_left (fun acc p => ((acc + snd p) mod Q)%Z) l init = sum_mod Q (map snd l) init.
Proof.
  induction l as [|p l IH]; intros init; cbn [fold_left map sum_mod]; [reflexivity|].
  rewrite IH. reflexivity.
Qed.

Lemma map_snd_as_fst : forall (l : list (N * Z)), map snd l = map (fun p => snd p) l.
Proof. reflexivity. Qed.

(* ================================================================================= *)
(* 1. the dealing and the three combination steps                                    *)
(* ================================================================================= *)
Section Dealing.
  Variable c : cfg.
  Let Q := q c.
  Variable poly : N -> list Z.          (* the polynomial each qualified dealer shared *)
  Variable qual : list N.               (* QUAL *)

  Definition D (k i : N) : Z := horner (poly k) (Z.of_N i).
  Definition total (i : N) : Z := fold_right Z.add 0%Z (map (fun k => D k i) qual).
  Definition secret : Z := fold_right Z.add 0%Z (map (fun k => nth 0 (poly k) 0%Z) qual).

  (* ----- phase 6: CombineMemberShares ----- *)
  Definition recv_ok (s : mstate) : Prop :=
    Permutation (me s :: map fst (qualS s)) qual /\
    (selfS s mod Q = D (me s) (me s) mod Q)%Z /\
    (forall k v, In (k, v) (qualS s) -> (v mod Q = D k (me s) mod Q)%Z).

  Lemma phase6_share : forall s, recv_ok s ->
    (share (phase6 c s) mod Q = total (me s) mod Q)%Z.
  Proof.
    intros s (Hperm & Hself & Hq).
    unfold phase6. fold Q.
    change (share (set_share ?v s)) with v.
    rewrite fold_left_snd, sum_mod_spec.
    unfold total. rewrite <- (fold_add_perm _ _ (Permutation_map (fun k => D k (me s)) Hperm)).
    cbn [map fold_right].
    rewrite Zplus_mod, Hself.
    assert (E : (fold_right Z.add 0 (map snd (qualS s)) mod Q
                 = fold_right Z.add 0 (map (fun k => D k (me s)) (map fst (qualS s))) mod Q)%Z).
    { rewrite map_map. apply fold_add_mod_ext. intros [k v] Hin. cbn [fst snd]. apply Hq. exact Hin. }
    rewrite E, <- Zplus_mod. reflexivity.
  Qed.

  (* ----- phase 12: ComputeGroupPublicKeyShares ----- *)
  Definition contrib_ok (s : mstate) (i k : N) : Prop :=
    (exists ps, lookup k (validPts s) = Some ps /\ (eval Q ps i mod Q = D k i mod Q)%Z) \/
    (lookup k (validPts s) = None /\
     exists sh v, lookup k (revealed s) = Some sh /\ lookup i sh = Some v /\ (v mod Q = D k i mod Q)%Z).
  Definition pub_ok (s : mstate) (i : N) : Prop :=
    Permutation (me s :: map fst (qualS s)) qual /\
    (eval Q (points s) i mod Q = D (me s) i mod Q)%Z /\
    (forall k, In k (map fst (qualS s)) -> contrib_ok s i k).

  Definition pub_step (s : mstate) (op : N) (acc : option Z) (p : N * Z) : option Z :=
    match acc with None => None | Some sum =>
      match lookup (fst p) (validPts s) with
      | Some ps => Some ((sum + eval Q ps op) mod Q)%Z
      | None => match lookup (fst p) (revealed s) with
                | Some sh => match lookup op sh with
                             | Some v => Some ((sum + v) mod Q)%Z
                             | None => None
                             end
                | None => Some sum
                end
      end end.
  Lemma pubshare_forE s op :
    pubshare_for c s op = fold_left (pub_step s op) (qualS s) (Some (eval Q (points s) op)).
  Proof. reflexivity. Qed.

  Lemma pub_fold s i : forall (l : list (N * Z)) sum,
    (forall k, In k (map fst l) -> contrib_ok s i k) ->
    exists v, fold_left (pub_step s i) l (Some sum) = Some v /\
              (v mod Q = (sum + fold_right Z.add 0 (map (fun k => D k i) (map fst l))) mod Q)%Z.
  Proof.
    induction l as [|[k x] l IH]; intros sum H; cbn [fold_left map fold_right fst].
    - exists sum. split; [reflexivity|]. rewrite Z.add_0_r. reflexivity.
    - assert (Hk : contrib_ok s i k) by (apply H; left; reflexivity).
      assert (Hl : forall k0, In k0 (map fst l) -> contrib_ok s i k0) by (intros k0 H0; apply H; right; exact H0).
      unfold pub_step at 2. cbn [fst].
      destruct Hk as [(ps & E1 & E2) | (E1 & sh & v & E2 & E3 & E4)].
      + rewrite E1. destruct (IH ((sum + eval Q ps i) mod Q)%Z Hl) as (v & Hv1 & Hv2).
        exists v. split; [exact Hv1|]. rewrite Hv2.
        rewrite Zplus_mod, Zplus_mod_idemp_l, (Zplus_mod sum), E2, <- (Zplus_mod sum), <- Zplus_mod.
        f_equal. ring.
      + rewrite E1, E2, E3. destruct (IH ((sum + v) mod Q)%Z Hl) as (w & Hw1 & Hw2).
        exists w. split; [exact Hw1|]. rewrite Hw2.
        rewrite Zplus_mod, Zplus_mod_idemp_l, (Zplus_mod sum), E4, <- (Zplus_mod sum), <- Zplus_mod.
        f_equal. ring.
  Qed.

  Lemma pubshare_for_total : forall s i, pub_ok s i ->
    exists v, pubshare_for c s i = Some v /\ (v mod Q = total i mod Q)%Z.
  Proof.
    intros s i (Hperm & Hown & Hk).
    rewrite pubshare_forE.
    destruct (pub_fold s i (qualS s) (eval Q (points s) i) Hk) as (v & Hv1 & Hv2).
    exists v. split; [exact Hv1|]. rewrite Hv2.
    unfold total. rewrite <- (fold_add_perm _ _ (Permutation_map (fun k => D k i) Hperm)).
    cbn [map fold_right]. rewrite Zplus_mod, Hown, <- Zplus_mod. reflexivity.
  Qed.

  (* what phase12 stores: a share for every other operating member *)
  Lemma lookup_flat_some : forall (F : N -> option Z) (l : list N) i v,
    (forall m, In m l -> exists w, F m = Some w) -> In i l -> F i = Some v ->
    lookup i (flat_map (fun p : N * option Z => match snd p with Some w => [(fst p, w)] | None => [] end)
                       (map (fun m => (m, F m)) l)) = Some v.
  Proof.
    intros F l i v. induction l as [|m l IH]; intros Hall Hin Hi; [destruct Hin|].
    cbn [map flat_map snd fst].
    destruct (Hall m (or_introl eq_refl)) as [w Hw]. rewrite Hw. cbn [app lookup].
    destruct (N.eqb_spec i m) as [->|Hne].
    - rewrite Hw in Hi. exact Hi.
    - apply IH; [intros m0 H0; apply Hall; right; exact H0| |exact Hi].
      destruct Hin as [->|Hin]; [contradiction|exact Hin].
  Qed.

  Lemma existsb_none_false : forall (F : N -> option Z) (l : list N),
    (forall m, In m l -> exists w, F m = Some w) ->
    existsb (fun p : N * option Z => match snd p with None => true | Some _ => false end)
            (map (fun m => (m, F m)) l) = false.
  Proof.
    intros F l. induction l as [|m l IH]; intros Hall; [reflexivity|].
    cbn [map existsb snd]. destruct (Hall m (or_introl eq_refl)) as [w ->]. cbn [orb].
    apply IH. intros m0 H0. apply Hall. right. exact H0.
  Qed.

  Lemma phase12_pubshare : forall s i,
    points s <> [] ->
    (forall m, In m (operating c s) -> m <> me s -> pub_ok s m) ->
    In i (operating c s) -> i <> me s ->
    failed (phase12 c s) = failed s /\
    exists v, lookup i (pubsh (phase12 c s)) = Some v /\ (v mod Q = total i mod Q)%Z.
  Proof.
    intros s i Hpts Hall Hi Hne.
    unfold phase12. destruct (points s) as [|own rest] eqn:Ep; [contradiction|]. cbn [head0].
    set (s' := set_gkey _ s).
    assert (Eop : operating c s' = operating c s) by reflexivity.
    assert (Eme : me s' = me s) by reflexivity.
    rewrite Eop, Eme.
    set (others := filter (fun m => negb (N.eqb m (me s))) (operating c s)).
    assert (Hothers : forall m, In m others -> exists w, pubshare_for c s' m = Some w).
    { intros m Hm. apply filter_In in Hm. destruct Hm as [Hm1 Hm2].
      apply negb_true_iff in Hm2. apply N.eqb_neq in Hm2.
      destruct (pubshare_for_total s m (Hall m Hm1 Hm2)) as (w & Hw & _).
      exists w. exact Hw. }
    rewrite (existsb_none_false (pubshare_for c s') others Hothers).
    split; [reflexivity|].
    destruct (pubshare_for_total s i (Hall i Hi Hne)) as (v & Hv1 & Hv2).
    exists v. split; [|exact Hv2].
    change (pubsh (set_pubsh ?x s')) with x.
    apply lookup_flat_some; [exact Hothers| |exact Hv1].
    apply filter_In. split; [exact Hi|]. apply negb_true_iff. apply N.eqb_neq. exact Hne.
  Qed.

  (* ----- phase 12: CombineGroupPublicKey ----- *)
  Definition key_ok (s : mstate) : Prop :=
    Permutation (me s :: map fst (validPts s) ++ map fst (reconPriv s)) qual /\
    (exists own, head0 (points s) = Some own /\ (own mod Q = nth 0 (poly (me s)) 0 mod Q)%Z) /\
    (forall k ps, In (k, ps) (validPts s) ->
        exists a, head0 ps = Some a /\ (a mod Q = nth 0 (poly k) 0 mod Q)%Z) /\
    (forall k z, In (k, z) (reconPriv s) -> (z mod Q = nth 0 (poly k) 0 mod Q)%Z).

  Lemma key_fold1 : forall (l : list (N * list g2)) acc,
    (forall k ps, In (k, ps) l -> exists a, head0 ps = Some a /\ (a mod Q = nth 0 (poly k) 0 mod Q)%Z) ->
    (fold_left (fun acc p => match head0 (snd p) with
                             | Some v => ((acc + v) mod Q)%Z | None => acc end) l acc mod Q
     = (acc + fold_right Z.add 0 (map (fun k => nth 0 (poly k) 0) (map fst l))) mod Q)%Z.
  Proof.
    induction l as [|[k ps] l IH]; intros acc H; cbn [fold_left map fold_right fst snd].
    - rewrite Z.add_0_r. reflexivity.
    - destruct (H k ps (or_introl eq_refl)) as (a & Ea & Ha). rewrite Ea.
      rewrite IH by (intros k0 ps0 H0; apply (H k0 ps0); right; exact H0).
      rewrite Zplus_mod, Zplus_mod_idemp_l, (Zplus_mod acc), Ha, <- (Zplus_mod acc), <- Zplus_mod.
      f_equal. ring.
  Qed.
  Lemma key_fold2 : forall (l : list (N * Z)) acc,
    (forall k z, In (k, z) l -> (z mod Q = nth 0 (poly k) 0 mod Q)%Z) ->
    (fold_left (fun acc p => ((acc + snd p) mod Q)%Z) l acc mod Q
     = (acc + fold_right Z.add 0 (map (fun k => nth 0 (poly k) 0) (map fst l))) mod Q)%Z.
  Proof.
    induction l as [|[k z] l IH]; intros acc H; cbn [fold_left map fold_right fst snd].
    - rewrite Z.add_0_r. reflexivity.
    - rewrite IH by (intros k0 z0 H0; apply (H k0 z0); right; exact H0).
      rewrite Zplus_mod, Zplus_mod_idemp_l, (Zplus_mod acc), (H k z (or_introl eq_refl)),
        <- (Zplus_mod acc), <- Zplus_mod.
      f_equal. ring.
  Qed.

  Lemma fold_add_app : forall a b : list Z,
    fold_right Z.add 0%Z (a ++ b) = (fold_right Z.add 0 a + fold_right Z.add 0 b)%Z.
  Proof. induction a as [|x a IH]; intros b; cbn [app fold_right]; [lia|]. rewrite IH. lia. Qed.

  Lemma phase12_key : forall s, key_ok s -> (gkey (phase12 c s) mod Q = secret mod Q)%Z.
  Proof.
    intros s (Hperm & (own & Eo & Ho) & Hv & Hr).
    unfold phase12. rewrite Eo. fold Q.
    match goal with |- context [set_gkey ?k s] => set (k2 := k) end.
    assert (Ek : (k2 mod Q = secret mod Q)%Z).
    { unfold k2. rewrite key_fold2 by exact Hr.
      rewrite <- Zplus_mod_idemp_l, key_fold1 by exact Hv.
      rewrite Zplus_mod_idemp_l, <- Z.add_assoc, Zplus_mod_idemp_l, Zplus_mod, Ho, <- Zplus_mod.
      unfold secret. rewrite <- (fold_add_perm _ _ (Permutation_map (fun k => nth 0 (poly k) 0%Z) Hperm)).
      cbn [map fold_right]. rewrite map_app, fold_add_app. reflexivity. }
    match goal with |- (gkey (if ?b then _ else _) mod Q = _)%Z => destruct b end; exact Ek.
  Qed.
End Dealing.

(* ================================================================================= *)
(* 2. t+1 shares interpolate to the secret                                           *)
(* ================================================================================= *)

(* reconstructIndividualPrivateKeys: the revealed shares of a misbehaved member k, when they lie
   on its polynomial, give f_k(0) *)
Lemma reconstructed_key_correct : forall (Q : Z) (f : list Z) (sh : list (N * Z)),
  prime Q ->
  NoDup (map fst sh) -> (forall p, In p sh -> (0 < Z.of_N (fst p) < Q)%Z) ->
  (length f <= length sh)%nat ->
  (forall p, In p sh -> (snd p mod Q = horner f (Z.of_N (fst p)) mod Q)%Z) ->
  interpolate0 Q sh = (nth 0 f 0 mod Q)%Z.
Proof. intros Q f sh Hp. apply interpolate0_correct. exact Hp. Qed.

Lemma total_is_psum : forall poly qual i,
  total poly qual i = horner (psum (map poly qual)) (Z.of_N i).
Proof.
  intros poly qual i. unfold total, D. rewrite horner_psum, map_map. reflexivity.
Qed.
Lemma secret_is_psum0 : forall poly qual,
  secret poly qual = nth 0 (psum (map poly qual)) 0%Z.
Proof.
  intros poly qual. unfold secret. rewrite <- horner_at_0, horner_psum, map_map.
  f_equal. apply map_ext. intros k. symmetry. apply horner_at_0.
Qed.

Lemma t_plus_1_interpolate : forall (Q : Z) (t : nat) (poly : N -> list Z) (qual : list N)
                                    (pts : list (N * Z)),
  prime Q ->
  (forall k, In k qual -> (length (poly k) <= S t)%nat) ->
  NoDup (map fst pts) -> length pts = S t ->
  (forall p, In p pts -> (0 < Z.of_N (fst p) < Q)%Z) ->
  (forall p, In p pts -> (snd p mod Q = total poly qual (fst p) mod Q)%Z) ->
  interpolate0 Q pts = (secret poly qual mod Q)%Z.
Proof.
  intros Q t poly qual pts Hp Hdeg Hnd Hlen Hrange Hval.
  rewrite secret_is_psum0.
  apply interpolate0_correct; try assumption.
  - rewrite Hlen. apply length_psum. intros f Hf. apply in_map_iff in Hf.
    destruct Hf as (k & <- & Hk). apply Hdeg. exact Hk.
  - intros p Hin. rewrite (Hval p Hin), total_is_psum. reflexivity.
Qed.

(* member i's share (phase 6) is the discrete log of the public key share member j stores for i
   (phase 12) *)
Lemma share_times_G_eq_pubshare : forall c poly qual si sj,
  recv_ok c poly qual si ->
  points sj <> [] ->
  (forall m, In m (operating c sj) -> m <> me sj -> pub_ok c poly qual sj m) ->
  In (me si) (operating c sj) -> me si <> me sj ->
  failed (phase12 c sj) = failed sj /\
  exists v, lookup (me si) (pubsh (phase12 c sj)) = Some v /\
            (v mod q c = share (phase6 c si) mod q c)%Z.
Proof.
  intros c poly qual si sj Hr Hp Hall Hin Hne.
  destruct (phase12_pubshare c poly qual sj (me si) Hp Hall Hin Hne) as (Hf & v & Hv1 & Hv2).
  split; [exact Hf|]. exists v. split; [exact Hv1|].
  rewrite Hv2. symmetry. apply phase6_share. exact Hr.
Qed.

(* the shares of any t+1 members whose views are consistent with the dealing interpolate to the
   discrete log of the group key computed by any member whose view is consistent *)
Lemma shares_interpolate_to_group_key : forall c poly qual (t : nat) (sts : list mstate) sj,
  prime (q c) ->
  (forall k, In k qual -> (length (poly k) <= S t)%nat) ->
  (forall s, In s sts -> recv_ok c poly qual s /\ (0 < Z.of_N (me s) < q c)%Z) ->
  NoDup (map me sts) -> length sts = S t ->
  key_ok c poly qual sj ->
  interpolate0 (q c) (map (fun s => (me s, share (phase6 c s))) sts) = (gkey (phase12 c sj) mod q c)%Z.
Proof.
  intros c poly qual t sts sj Hp Hdeg Hs Hnd Hlen Hk.
  rewrite (phase12_key c poly qual sj Hk).
  apply (t_plus_1_interpolate (q c) t poly qual); try assumption.
  - rewrite map_map. cbn [fst]. exact Hnd.
  - rewrite map_length. exact Hlen.
  - intros p Hin. apply in_map_iff in Hin. destruct Hin as (s & <- & Hin). cbn [fst]. apply Hs. exact Hin.
  - intros p Hin. apply in_map_iff in Hin. destruct Hin as (s & <- & Hin). cbn [fst snd].
    apply phase6_share. apply Hs. exact Hin.
Qed.

(* ================================================================================= *)
(* 3. the property on observables, and soundness of its executable form              *)
(* ================================================================================= *)

Inductive sublist {A} : list A -> list A -> Prop :=
| sl_nil : forall l, sublist [] l
| sl_take : forall x s l, sublist s l -> sublist (x :: s) (x :: l)
| sl_skip : forall x s l, sublist s l -> sublist s (x :: l).

Lemma sublists_complete : forall A (l s : list A), sublist s l -> In s (sublists (length s) l).
Proof.
  intros A l s H. induction H as [l|x s l H IH|x s l H IH].
  - destruct l; cbn; left; reflexivity.
  - cbn [length sublists]. apply in_or_app. left. apply in_map. exact IH.
  - destruct s as [|y s]; [cbn; left; reflexivity|].
    cbn [length sublists] in *. apply in_or_app. right. exact IH.
Qed.

(* the statement of C02 on what the honest members output; [f] lists the finished honest
   members with their observed outputs (certified discrete logs, see Model/C02.v) *)
Definition consistent_shares (Q : Z) (t : N) (f : list (N * fin)) : Prop :=
  (forall a b, In a f -> In b f -> fst a <> fst b ->
     lookup (fst a) (f_ps (snd b)) = Some (Some (f_share (snd a) mod Q)%Z)) /\
  (forall sub a, sublist sub f -> length sub = S (N.to_nat t) -> In a f ->
     f_key (snd a) = Some (interpolate0 Q (points_of sub))).

Lemma optZ_eqb_some : forall a v, optZ_eqb a (Some v) = true -> a = Some v.
Proof.
  intros [x|] v; cbn [optZ_eqb]; [|discriminate]. intros H. apply Z.eqb_eq in H. subst. reflexivity.
Qed.

Lemma spec_ok_sound : forall cs, spec_ok cs = true -> in_scope cs = true ->
  consistent_shares (q (i_cfg (c_in cs))) (gt (i_cfg (c_in cs))) (finished (c_obs cs)).
Proof.
  intros cs H Hs. unfold spec_ok in H. rewrite Hs in H. cbn [negb] in H.
  apply andb_true_iff in H. destruct H as [H1 H2]. split.
  - intros a b Ha Hb Hne. unfold shares_ok in H1. rewrite forallb_forall in H1.
    specialize (H1 a Ha). rewrite forallb_forall in H1. specialize (H1 b Hb).
    unfold pubshare_matches in H1. apply orb_true_iff in H1. destruct H1 as [E|E].
    + apply N.eqb_eq in E. contradiction.
    + destruct (lookup (fst a) (f_ps (snd b))) as [d|]; [|discriminate].
      apply optZ_eqb_some in E. rewrite E. reflexivity.
  - intros sub a Hsub Hlen Ha. unfold interpolation_ok in H2. rewrite forallb_forall in H2.
    pose proof (sublists_complete _ _ _ Hsub) as Hin. rewrite Hlen in Hin.
    specialize (H2 sub Hin). unfold subset_ok in H2. rewrite forallb_forall in H2.
    apply optZ_eqb_some. apply H2. exact Ha.
Qed.

Lemma out_of_scope_ok : forall cs, in_scope cs = false -> spec_ok cs = true.
Proof. intros cs H. unfold spec_ok. rewrite H. reflexivity. Qed.

(* ================================================================================= *)
(* 4. non-vacuity                                                                    *)
(* ================================================================================= *)

(* a complete honest run of the model, n = 3, t = 1, modulo 13: the views it reaches satisfy the
   premises of the theorems above *)
Definition ex_cfg : cfg := {| q := 13; gn := 3; gt := 1; csess := 1; ops := [1; 2; 3] |}.
Definition ex_input : input :=
  {| i_cfg := ex_cfg;
     i_honest := [ {| h_id := 1; h_coefA := [3; 1]%Z; h_coefB := [2; 2]%Z |};
                   {| h_id := 2; h_coefA := [1; 5]%Z; h_coefB := [4; 4]%Z |};
                   {| h_id := 3; h_coefA := [2; 6]%Z; h_coefB := [7; 1]%Z |} ];
     i_script := {| adv1 := []; adv3 := []; adv4 := []; adv7 := []; adv8 := []; adv10 := []; order := [] |} |}.
Definition ex_dealt (k : N) : list Z :=
  match k with 1 => [3; 1]%Z | 2 => [1; 5]%Z | 3 => [2; 6]%Z | _ => [] end.

Example ex_views_consistent :
  exists s1 s2 s3, run_states ex_input = [s1; s2; s3] /\
    failed s1 = false /\ failed s2 = false /\
    recv_ok ex_cfg ex_dealt [1; 2; 3] s1 /\
    pub_ok ex_cfg ex_dealt [1; 2; 3] s2 1 /\ pub_ok ex_cfg ex_dealt [1; 2; 3] s2 3 /\
    key_ok ex_cfg ex_dealt [1; 2; 3] s2.
Proof.
  remember (run_states ex_input) as sts eqn:E. vm_compute in E. subst sts.
  do 3 eexists. split; [reflexivity|]. split; [reflexivity|]. split; [reflexivity|].
  assert (P : Permutation [2; 1; 3] [1; 2; 3]) by apply perm_swap.
  split; [|split; [|split]].
  - split; [apply Permutation_refl|]. split; [reflexivity|].
    intros k v Hin. cbn in Hin. destruct Hin as [[= <- <-]|[[= <- <-]|[]]]; reflexivity.
  - split; [exact P|]. split; [reflexivity|].
    intros k Hin. cbn in Hin. destruct Hin as [<-|[<-|[]]]; left; eexists; split; reflexivity.
  - split; [exact P|]. split; [reflexivity|].
    intros k Hin. cbn in Hin. destruct Hin as [<-|[<-|[]]]; left; eexists; split; reflexivity.
  - split; [exact P|]. split; [eexists; split; reflexivity|]. split.
    + intros k ps Hin. cbn in Hin. destruct Hin as [[= <- <-]|[[= <- <-]|[]]]; eexists; split; reflexivity.
    + intros k z Hin. destruct Hin.
Qed.

Lemma prime_13 : prime 13.
Proof.
  apply prime_intro; [lia|]. intros n Hn.
  assert (E : (n = 1 \/ n = 2 \/ n = 3 \/ n = 4 \/ n = 5 \/ n = 6 \/ n = 7 \/ n = 8 \/ n = 9 \/ n = 10
               \/ n = 11 \/ n = 12)%Z) by lia.
  repeat (destruct E as [->|E]; [apply Zgcd_1_rel_prime; reflexivity|]).
  subst. apply Zgcd_1_rel_prime. reflexivity.
Qed.

(* n = 5, t = 2, QUAL = {1,2,4} (3 never qualified, 5's key was reconstructed or not - it does
   not matter for the shares): polynomials modulo 13 *)
Definition ex_poly (k : N) : list Z :=
  match k with 1 => [3; 1; 4]%Z | 2 => [1; 5; 9]%Z | 4 => [2; 6; 5]%Z | _ => [] end.
Definition ex_qual : list N := [1; 2; 4].
Definition ex_pts : list (N * Z) := map (fun i => (i, (total ex_poly ex_qual i mod 13)%Z)) [2; 4; 5].

Example ex_interpolates :
  interpolate0 13 ex_pts = (secret ex_poly ex_qual mod 13)%Z /\ (secret ex_poly ex_qual mod 13 = 6)%Z.
Proof.
  split; [|reflexivity].
  apply (t_plus_1_interpolate 13 2 ex_poly ex_qual ex_pts prime_13).
  - intros k Hk. cbn in Hk. destruct Hk as [<-|[<-|[<-|[]]]]; cbn; lia.
  - cbn. repeat constructor; cbn; intuition discriminate.
  - reflexivity.
  - intros p Hin. cbn in Hin. destruct Hin as [<-|[<-|[<-|[]]]]; cbn; lia.
  - intros p Hin. cbn in Hin. destruct Hin as [<-|[<-|[<-|[]]]]; reflexivity.
Qed.

(* ================================================================================= *)
(* 5. phase 11: which revealed shares enter the reconstruction                       *)
(* ================================================================================= *)

(* reconstructed_key_correct needs every interpolated share to lie on the misbehaved member's
   polynomial.  For the shares recovered from OTHER members' revealed ephemeral keys this is what
   recoverMisbehavedShares enforces, whoever the revealer is (an honest member, or a corrupt
   accomplice of the misbehaved member that was sent a share no honest member could check and kept
   quiet in phase 4): a share is admitted only after areSharesValidAgainstCommitments, and every
   other branch leaves the table alone. *)

Lemma lookup_put_same : forall A k (v : A) l, lookup k (put k v l) = Some v.
Proof.
  induction l as [|[k' v'] r IH]; cbn.
  - now rewrite N.eqb_refl.
  - destruct (N.eqb k k') eqn:E; cbn; rewrite ?N.eqb_refl, ?E; auto.
Qed.
Lemma lookup_put_other : forall A k k2 (v : A) l, k2 <> k -> lookup k2 (put k v l) = lookup k2 l.
Proof.
  induction l as [|[k' v'] r IH]; cbn; intros Hne.
  - destruct (N.eqb k2 k) eqn:E; auto. apply N.eqb_eq in E. contradiction.
  - destruct (N.eqb k k') eqn:E; cbn.
    + apply N.eqb_eq in E. subst k'. destruct (N.eqb k2 k) eqn:E2; auto.
      apply N.eqb_eq in E2. contradiction.
    + destruct (N.eqb k2 k'); auto.
Qed.
Lemma lookup_app_none : forall A k (l r : list (N * A)), lookup k l = None -> lookup k (l ++ r) = lookup k r.
Proof.
  induction l as [|[k' v'] l IH]; cbn; intros; auto. destruct (N.eqb k k'); [discriminate|auto].
Qed.
Lemma lookup_app_some : forall A k (v : A) (l r : list (N * A)), lookup k l = Some v -> lookup k (l ++ r) = Some v.
Proof.
  induction l as [|[k' v'] l IH]; cbn; intros; [discriminate|]. destruct (N.eqb k k'); auto.
Qed.

(* the table of revealed shares after addShare(m, k, s) *)
Lemma lookup_add_share : forall mis revealer vs l m2,
  lookup m2 (add_share mis revealer vs l) =
  if N.eqb m2 mis then Some (put revealer vs (match lookup mis l with Some sh => sh | None => [] end))
  else lookup m2 l.
Proof.
  intros. unfold add_share. destruct (lookup mis l) as [sh|] eqn:E.
  - destruct (N.eqb m2 mis) eqn:E2.
    + apply N.eqb_eq in E2. subst. apply lookup_put_same.
    + apply lookup_put_other. intro; subst. now rewrite N.eqb_refl in E2.
  - destruct (N.eqb m2 mis) eqn:E2.
    + apply N.eqb_eq in E2. subst. rewrite lookup_app_none by exact E. cbn. now rewrite N.eqb_refl.
    + destruct (lookup m2 l) eqn:E3.
      * now apply lookup_app_some.
      * rewrite lookup_app_none by exact E3. cbn. now rewrite E2.
Qed.

Section R11.
  Variable c : cfg.

  Lemma mark_dq_revealed : forall m s, revealed (mark_dq c m s) = revealed s.
  Proof. intros. unfold mark_dq. now destruct (is_operating c s m). Qed.
  Lemma mark_dq_commits : forall m s, commits (mark_dq c m s) = commits s.
  Proof. intros. unfold mark_dq. now destruct (is_operating c s m). Qed.

  Definition commits_of (s : mstate) (m : N) : list g1 :=
    match lookup m (commits s) with Some l => l | None => [] end.

  (* recoverMisbehavedShares, one revealed key: the table of revealed shares changes in ONE way
     only, by admitting the share that was decrypted with the revealed key and passed
     areSharesValidAgainstCommitments against the misbehaved member's commitments at the
     revealer's index.  In every other branch (own key revealed, operating member, key not
     matching, no public key, no shares message, undecryptable, INCONSISTENT WITH THE COMMITMENTS)
     the table is untouched; commitments never change. *)
  Lemma recover11_admits_only_consistent : forall revealer s stop mis key,
    let r := recover11 c revealer (s, stop) (mis, key) in
    commits (fst r) = commits s /\
    (revealed (fst r) = revealed s \/
     exists sh mpk vs vt,
       lookup mis (log_sh s) = Some sh /\ find_pub s mis revealer = Some mpk /\
       decrypt sh revealer (ecdh key mpk) = Some (vs, vt) /\
       valid_g1 (q c) vs vt (commits_of s mis) revealer = true /\
       revealed (fst r) = add_share mis revealer vs (revealed s)).
  Proof.
    intros revealer s stop mis key. cbv zeta. unfold recover11.
    destruct stop; [cbn; auto|].
    destruct (N.eqb (me s) mis); [cbn; rewrite mark_dq_revealed, mark_dq_commits; auto|].
    destruct (is_operating c s mis); [cbn; auto|].
    destruct (find_pub s revealer mis) as [rpk|]; [|cbn; auto].
    destruct (negb (N.eqb rpk key)); [cbn; rewrite mark_dq_revealed, mark_dq_commits; auto|].
    destruct (find_pub s mis revealer) as [mpk|] eqn:Empk; [|cbn; rewrite mark_dq_revealed, mark_dq_commits; auto].
    destruct (lookup mis (log_sh s)) as [sh|] eqn:Esh; [|cbn; rewrite mark_dq_revealed, mark_dq_commits; auto].
    destruct (decrypt sh revealer (ecdh key mpk)) as [[vs vt]|] eqn:Edec;
      [|cbn; rewrite mark_dq_revealed, mark_dq_commits; auto].
    fold (commits_of s mis).
    destruct (valid_g1 (q c) vs vt (commits_of s mis) revealer) eqn:Ev;
      [|cbn; rewrite mark_dq_revealed, mark_dq_commits; auto].
    cbn. split; [reflexivity|]. right. exists sh, mpk, vs, vt. auto.
  Qed.

  (* every revealed share lies on the polynomial the misbehaved member committed to *)
  Definition revealed_consistent (s : mstate) : Prop :=
    forall mis sh k v, lookup mis (revealed s) = Some sh -> lookup k sh = Some v ->
      commits_of s mis <> [] /\ (v mod q c = eval (q c) (map fst (commits_of s mis)) k)%Z.

  Lemma valid_g1_on_poly : forall vs vt cs i, valid_g1 (q c) vs vt cs i = true ->
    cs <> [] /\ (vs mod q c = eval (q c) (map fst cs) i)%Z.
  Proof.
    intros vs vt cs i H. unfold valid_g1 in H. destruct cs as [|c0 cs]; [discriminate|].
    apply andb_true_iff in H. destruct H as [H _]. apply Z.eqb_eq in H. split; [discriminate|exact H].
  Qed.

  Lemma recover11_keeps_consistent : forall revealer sb a,
    revealed_consistent (fst sb) -> revealed_consistent (fst (recover11 c revealer sb a)).
  Proof.
    intros revealer [s stop] [mis key] Hc.
    destruct (recover11_admits_only_consistent revealer s stop mis key) as [Hcm Hr].
    cbv zeta in Hcm, Hr. cbn [fst] in Hc.
    set (r := recover11 c revealer (s, stop) (mis, key)) in *.
    unfold revealed_consistent, commits_of in *. rewrite Hcm.
    destruct Hr as [Hr|(sh0 & mpk & vs & vt & _ & _ & _ & Hv & Hr)]; rewrite Hr; [exact Hc|].
    intros m2 sh k v Hl Hk. rewrite lookup_add_share in Hl.
    destruct (N.eqb m2 mis) eqn:E.
    - apply N.eqb_eq in E. subst m2. injection Hl as <-.
      destruct (N.eq_dec k revealer) as [->|Hne].
      + rewrite lookup_put_same in Hk. injection Hk as <-. apply valid_g1_on_poly in Hv. exact Hv.
      + rewrite lookup_put_other in Hk by exact Hne.
        destruct (lookup mis (revealed s)) as [old|] eqn:Eo; [|discriminate].
        eapply Hc; eauto.
    - eapply Hc; eauto.
  Qed.

  (* the whole loop of recoverMisbehavedShares over all reveal messages (any number of messages,
     any keys in them, any order) *)
  Lemma recover_all_keeps_consistent : forall (msgs : list (N * list (N * ekey))) sb,
    revealed_consistent (fst sb) ->
    revealed_consistent (fst (fold_left (fun sb m => fold_left (recover11 c (fst m)) (snd m) sb) msgs sb)).
  Proof.
    induction msgs as [|m msgs IH]; intros sb H; cbn; [exact H|].
    apply IH. clear IH. generalize dependent sb.
    induction (snd m) as [|a l IHl]; intros sb H; cbn; [exact H|].
    apply IHl. now apply recover11_keeps_consistent.
  Qed.
End R11.

Lemma revealed_consistent_nil : forall c s, revealed s = [] -> revealed_consistent c s.
Proof. intros c s H mis sh k v Hl. rewrite H in Hl. discriminate. Qed.

(* a complete run of the model, n = 5, t = 2, modulo 13, seats 4 and 5 corrupt and cooperating:
   5 deals shares of col_A5 but sends its accomplice 4 an S-share that is off by [off]; 4 keeps
   quiet in phase 4, 5 is silent from phase 4 on, 4 reveals the key it used with 5 in phase 10. *)

Definition col_cfg : cfg := {| q := 13; gn := 5; gt := 2; csess := 1; ops := [1; 2; 3; 4; 5] |}.
Definition col_A4 : list Z := [8; 4; 6]%Z.
Definition col_B4 : list Z := [2; 6; 4]%Z.
Definition col_A5 : list Z := [3; 3; 8]%Z.
Definition col_B5 : list Z := [3; 2; 7]%Z.
Definition col_eph (i : N) : netmsg :=
  wrap col_cfg (EphPub i 1 (map (fun j => (j, ek i j)) (filter (fun j => negb (N.eqb j i)) [1; 2; 3; 4; 5]))).
(* the shares message of dealer [i]; the S-share for receiver [bad] is off by [off] *)
Definition col_shares (i : N) (a b : list Z) (bad : N) (off : Z) : netmsg :=
  wrap col_cfg (Shares i 1 (map (fun j => (j, Enc (ecdh (ek i j) (ek j i))
                                      (eval 13 a j + (if N.eqb j bad then off else 0))%Z (eval 13 b j)))
                                (filter (fun j => negb (N.eqb j i)) [1; 2; 3; 4; 5]))).
Definition col_script (off : Z) : script :=
  {| adv1 := [col_eph 4; col_eph 5];
     adv3 := [col_shares 4 col_A4 col_B4 0 0; wrap col_cfg (Commits 4 1 (combine col_A4 col_B4));
              col_shares 5 col_A5 col_B5 4 off; wrap col_cfg (Commits 5 1 (combine col_A5 col_B5))];
     adv4 := [wrap col_cfg (SAccuse 4 1 [])];          (* the accomplice keeps quiet; 5 is silent from here on *)
     adv7 := [wrap col_cfg (Points 4 1 col_A4)];
     adv8 := [wrap col_cfg (PAccuse 4 1 [])];
     adv10 := [wrap col_cfg (Reveal 4 1 [(5, ek 4 5)])];  (* ... and reveals the key it used with 5 *)
     order := [] |}.
Definition col_input (off : Z) : input :=
  {| i_cfg := col_cfg;
     i_honest := [ {| h_id := 1; h_coefA := [3; 1; 4]%Z; h_coefB := [1; 5; 9]%Z |};
                   {| h_id := 2; h_coefA := [2; 6; 5]%Z; h_coefB := [3; 5; 8]%Z |};
                   {| h_id := 3; h_coefA := [9; 7; 9]%Z; h_coefB := [3; 2; 3]%Z |} ];
     i_script := col_script off |}.

(* off = 1: every honest member drops the inconsistent share (no entry of revealer 4 in the table),
   disqualifies 4, reconstructs 5's key 3 = col_A5(0) from the three honest shares, and the
   honest shares (0, 0, 12 at 1, 2, 3) interpolate to the group key 12 = 3+2+9+8+3 mod 13 *)
Example ex_colluding_revealer_dropped :
  run (col_input 1) =
    [(1, Finished [5] [4] 12 0 [(2, 0%Z); (3, 12%Z)]);
     (2, Finished [5] [4] 12 0 [(1, 0%Z); (3, 12%Z)]);
     (3, Finished [5] [4] 12 12 [(1, 0%Z); (2, 0%Z)])]
  /\ map (fun s => (map fst (match lookup 5 (revealed s) with Some sh => sh | None => [] end), reconPriv s))
         (run_states (col_input 1))
     = [([2; 3; 1], [(5, 3%Z)]); ([1; 3; 2], [(5, 3%Z)]); ([1; 2; 3], [(5, 3%Z)])]
  /\ interpolate0 13 [(1, 0%Z); (2, 0%Z); (3, 12%Z)] = 12%Z.
Proof. vm_compute. auto. Qed.
(* off = 0 (control): the accomplice's share is consistent, it IS interpolated (four points),
   nobody is disqualified, same key *)
Example ex_colluding_revealer_control :
  run (col_input 0) =
    [(1, Finished [5] [] 12 0 [(2, 0%Z); (3, 12%Z); (4, 10%Z)]);
     (2, Finished [5] [] 12 0 [(1, 0%Z); (3, 12%Z); (4, 10%Z)]);
     (3, Finished [5] [] 12 12 [(1, 0%Z); (2, 0%Z); (4, 10%Z)])]
  /\ map (fun s => (map fst (match lookup 5 (revealed s) with Some sh => sh | None => [] end), reconPriv s))
         (run_states (col_input 0))
     = [([2; 3; 4; 1], [(5, 3%Z)]); ([1; 3; 4; 2], [(5, 3%Z)]); ([1; 2; 4; 3], [(5, 3%Z)])].
Proof. vm_compute. auto. Qed.
