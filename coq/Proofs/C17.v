(* C17 — proofs about Model/C17.v *)
From Coq Require Import ZArith NArith List Bool Lia.
From KV Require Import Common.Verdict Model.C17.
Import ListNotations.
Open Scope N_scope.

Definition p62 : N := 4611686018427387904.   (* 2^62 *)
Lemma p62_eq : p62 = 2 ^ 62. Proof. reflexivity. Qed.
Lemma w64_eq : w64 = 2 ^ 64. Proof. reflexivity. Qed.

(* schedule indexed from 0: sch m = sched (m+1) *)
Definition sch (m : N) : N := 2 ^ m + m.
Lemma sched_sch : forall m, sched (m + 1) = sch m.
Proof. intro m. unfold sched, sch. replace (m + 1 - 1) with m by lia. lia. Qed.
Lemma sch_succ : forall m, sch (m + 1) = 2 * 2 ^ m + m + 1.
Proof. intro m. unfold sch. rewrite N.add_1_r, N.pow_succ_r'. lia. Qed.
Lemma pow_pos : forall m, 1 <= 2 ^ m.
Proof. intro m. pose proof (N.pow_nonzero 2 m). lia. Qed.
Lemma sch_lt : forall m, sch m < sch (m + 1).
Proof. intro m. rewrite sch_succ. unfold sch. pose proof (pow_pos m). lia. Qed.
Lemma sch_mono : forall a b, a < b -> sch a < sch b.
Proof.
  intros a b H. unfold sch.
  assert (2 ^ a <= 2 ^ b) by (apply N.pow_le_mono_r; lia). lia.
Qed.
Lemma sch_inj : forall a b, sch a = sch b -> a = b.
Proof.
  intros a b H. destruct (N.lt_trichotomy a b) as [L | [E | L]]; auto;
    apply sch_mono in L; lia.
Qed.

Definition mk (k d r : N) : bstate := {| tc := k; delay := d; rt := r |}.
Definition binv (k m : N) (s : bstate) : Prop :=
  s = mk k (2 ^ m) (sch m) /\ k < sch m /\ (m = 0 \/ (1 <= m /\ sch (m - 1) <= k)).

Lemma binv_bound : forall k m s, binv k m s -> k < p62 -> m <= 62 /\ 2 ^ m <= p62.
Proof.
  intros k m s (_ & _ & Hlo) Hk.
  assert (Hm : m <= 62).
  { destruct Hlo as [-> | [H1 Hlo]]; [lia|].
    unfold sch in Hlo. assert (2 ^ (m - 1) < 2 ^ 62) by (rewrite <- p62_eq; lia).
    apply N.pow_lt_mono_r_iff in H; lia. }
  split; [exact Hm|]. rewrite p62_eq. apply N.pow_le_mono_r; lia.
Qed.

Lemma binv_step : forall k m s, binv k m s -> k + 1 < p62 ->
  (k + 1 = sch m /\ btick s = (mk (k + 1) (2 ^ (m + 1)) (sch (m + 1)), true) /\ binv (k + 1) (m + 1) (mk (k + 1) (2 ^ (m + 1)) (sch (m + 1))))
  \/ (k + 1 < sch m /\ btick s = (mk (k + 1) (2 ^ m) (sch m), false) /\ binv (k + 1) m (mk (k + 1) (2 ^ m) (sch m))).
Proof.
  intros k m s Hinv Hk.
  destruct (binv_bound k m s Hinv ltac:(lia)) as [Hm Hp].
  pose proof Hinv as (-> & Hlt & Hlo).
  pose proof (sch_succ m) as Hs. pose proof (pow_pos m) as Hp1.
  assert (Hpow : 2 ^ (m + 1) = 2 * 2 ^ m) by (rewrite N.add_1_r, N.pow_succ_r'; lia).
  unfold btick, mk; cbn [tc delay rt].
  unfold sch in *. unfold p62, w64 in *.
  remember (2 ^ m) as p.
  rewrite (N.mod_small (k + 1)) by lia.
  destruct (N.eqb_spec (k + 1) (p + m)) as [E | NE].
  - left. split; [exact E|].
    rewrite (N.mod_small (p * 2)) by lia.
    rewrite (N.mod_small (p + 1)) by lia.
    rewrite (N.mod_small (p + m + (p + 1))) by lia.
    split.
    + f_equal. rewrite Hpow. f_equal; lia.
    + unfold binv, mk, sch. rewrite Hpow. split; [f_equal; lia|]. split; [lia|].
      right. split; [lia|]. replace (m + 1 - 1) with m by lia. rewrite <- Heqp. lia.
  - right. split; [lia|]. split; [reflexivity|].
    unfold binv, mk, sch. rewrite <- Heqp. split; [reflexivity|]. split; [lia|].
    destruct Hlo as [-> | [H1 H2]]; [left; reflexivity | right; split; [exact H1 | lia]].
Qed.

Lemma binv_init : binv 0 0 binit.
Proof. unfold binv, binit, mk, sch. cbn. split; [reflexivity|]. split; [lia | left; reflexivity]. Qed.

Lemma bafter_succ : forall s k, bafter s (N.succ k) = fst (btick (bafter s k)).
Proof. intros. unfold bafter. rewrite N.iter_succ. reflexivity. Qed.

Lemma bafter_inv : forall k, k < p62 -> exists m, binv k m (bafter binit k).
Proof.
  induction k as [|k IH] using N.peano_ind; intro Hk.
  - exists 0. exact binv_init.
  - destruct (IH ltac:(lia)) as [m Hm].
    rewrite bafter_succ.
    destruct (binv_step k m _ Hm ltac:(lia)) as [(E & Hb & Hi) | (E & Hb & Hi)];
      rewrite Hb; cbn [fst]; rewrite <- N.add_1_r; eauto.
Qed.

(* the k-th tick retransmits iff k = 2^(n-1) + n - 1 for some n >= 1 *)
Theorem backoff_ticks : forall k, 1 <= k -> k < 2 ^ 62 ->
  (fires k = true <-> exists n, 1 <= n /\ k = 2 ^ (n - 1) + n - 1).
Proof.
  intros k H1 Hk. rewrite <- p62_eq in Hk. unfold fires.
  destruct (bafter_inv (k - 1) ltac:(lia)) as [m Hm].
  destruct (binv_step (k - 1) m _ Hm ltac:(lia)) as [(E & Hb & _) | (E & Hb & _)]; rewrite Hb; cbn [snd].
  - split; [intros _ | reflexivity].
    exists (m + 1). split; [lia|]. fold (sched (m + 1)). rewrite sched_sch. lia.
  - split; [discriminate|]. intros (n & Hn & Hk').
    exfalso. fold (sched n) in Hk'. replace n with ((n - 1) + 1) in Hk' by lia.
    rewrite sched_sch in Hk'.
    destruct Hm as (_ & Hlt & Hlo).
    destruct (N.lt_trichotomy (n - 1) m) as [L | [Eq | L]].
    + destruct Hlo as [-> | [Hm1 Hlo]]; [lia|].
      assert (sch (n - 1) <= sch (m - 1)).
      { destruct (N.eq_dec (n - 1) (m - 1)) as [-> | NE]; [lia|].
        assert (n - 1 < m - 1) by lia. apply sch_mono in H. lia. }
      lia.
    + subst m. lia.
    + apply sch_mono in L. lia.
Qed.

(* ---------- strategies as black boxes: count_fires / fire_positions ---------- *)
Fixpoint safter (s : strategy) (k : nat) : strategy :=
  match k with O => s | S k' => safter (fst (stick s)) k' end.

Lemma count_positions : forall k s p,
  fst (count_fires s k) = N.of_nat (length (fst (fire_positions s k p))) /\
  snd (count_fires s k) = snd (fire_positions s k p) /\ snd (count_fires s k) = safter s k.
Proof.
  induction k as [|k IH]; intros s p; cbn [count_fires fire_positions safter]; [auto|].
  destruct (stick s) as [s' f] eqn:Es. cbn [fst].
  specialize (IH s' (p + 1)). destruct (count_fires s' k) as [c s2].
  destruct (fire_positions s' k (p + 1)) as [l s3]. cbn [fst snd] in *.
  destruct IH as (A & B & C). subst. split; [|auto].
  destruct f; cbn [length]; lia.
Qed.

Lemma positions_in : forall k s p j,
  In j (fst (fire_positions s k p)) <->
  exists i : nat, (i < k)%nat /\ j = p + N.of_nat i /\ snd (stick (safter s i)) = true.
Proof.
  induction k as [|k IH]; intros s p j; cbn [fire_positions].
  - cbn. split; [tauto | intros (i & Hi & _); lia].
  - destruct (stick s) as [s' f] eqn:Es.
    specialize (IH s' (p + 1) j).
    destruct (fire_positions s' k (p + 1)) as [l s3]. cbn [fst] in *.
    assert (Hcons : In j (if f then p :: l else l) <-> (f = true /\ j = p) \/ In j l).
    { destruct f; cbn; split; intros; intuition (try discriminate; auto). }
    rewrite Hcons, IH. split.
    + intros [[Hf ->] | (i & Hi & -> & Hs)].
      * exists O. cbn [safter]. rewrite Es. cbn. split; [lia|]. split; [lia | exact Hf].
      * exists (S i). cbn [safter]. rewrite Es. cbn [fst]. split; [lia|]. split; [lia | exact Hs].
    + intros (i & Hi & -> & Hs). destruct i as [|i].
      * left. cbn [safter] in Hs. rewrite Es in Hs. cbn in Hs. split; [exact Hs | lia].
      * right. exists i. cbn [safter] in Hs. rewrite Es in Hs. cbn [fst] in Hs.
        split; [lia|]. split; [lia | exact Hs].
Qed.

Lemma safter_std : forall k, safter Std k = Std.
Proof. induction k; cbn; auto. Qed.

Lemma safter_back : forall k b, safter (Back b) k = Back (bafter b (N.of_nat k)).
Proof.
  induction k as [|k IH]; intro b; [reflexivity|].
  cbn [safter stick]. destruct (btick b) as [b' f] eqn:Eb. cbn [fst]. rewrite IH.
  f_equal. rewrite Nat2N.inj_succ. unfold bafter.
  rewrite N.iter_succ_r. rewrite Eb. reflexivity.
Qed.

Lemma stick_back_snd : forall b, snd (stick (Back b)) = snd (btick b).
Proof. intro b. cbn. destruct (btick b); reflexivity. Qed.

(* ---------- the system: any interleaving of ticks, goroutine runs and the cancel ---------- *)
Fixpoint live_ticks (ops : list op) : N :=
  match ops with
  | [] => 0
  | OTick :: t => 1 + live_ticks t
  | ORun :: t => live_ticks t
  | OCancel :: _ => 0
  end.

Lemma srun_cons : forall st o t, srun st (o :: t) = srun (sstep st o) t.
Proof. reflexivity. Qed.
Lemma srun_app : forall st a b, srun st (a ++ b) = srun (srun st a) b.
Proof. intros. unfold srun. apply fold_left_app. Qed.

(* once the context is done no tick spawns a goroutine any more *)
Lemma conservation_cancelled : forall ops st, cancelled st = true ->
  let st' := srun st ops in
  cancelled st' = true /\ calls st' + pending st' = calls st + pending st /\
  (registered st = false -> registered st' = false) /\
  (In OTick ops -> registered st' = false).
Proof.
  induction ops as [|o t IH]; intros st Hc; cbn zeta.
  - cbn. repeat split; auto. intros [].
  - rewrite srun_cons.
    assert (Hs : cancelled (sstep st o) = true /\
                 calls (sstep st o) + pending (sstep st o) = calls st + pending st /\
                 (registered st = false -> registered (sstep st o) = false) /\
                 (o = OTick -> registered (sstep st o) = false)).
    { destruct o; cbn [sstep].
      - destruct (registered st) eqn:Er; cbn [negb]; [rewrite Hc; cbn|]; repeat split; auto; try congruence.
      - destruct (N.eqb_spec (pending st) 0) as [E|NE]; [repeat split; auto; discriminate|].
        destruct (stick (strat st)) as [s' f]. cbn. repeat split; auto; try lia; discriminate.
      - cbn. repeat split; auto; discriminate. }
    destruct Hs as (H1 & H2 & H3 & H4).
    destruct (IH (sstep st o) H1) as (I1 & I2 & I3 & I4).
    repeat split; auto; try lia.
    intros [-> | Hin]; auto.
Qed.

Lemma conservation : forall ops st, cancelled st = false -> registered st = true ->
  let st' := srun st ops in
  calls st' + pending st' = calls st + pending st + live_ticks ops.
Proof.
  induction ops as [|o t IH]; intros st Hc Hr; cbn zeta; [cbn; lia|].
  rewrite srun_cons. destruct o; cbn [live_ticks].
  - assert (E : sstep st OTick = {| cancelled := false; registered := true; pending := pending st + 1;
                                    strat := strat st; calls := calls st; retx := retx st |}).
    { cbn [sstep]. rewrite Hr, Hc. reflexivity. }
    rewrite E. rewrite IH by reflexivity. cbn [calls pending]. lia.
  - cbn [sstep]. destruct (N.eqb_spec (pending st) 0) as [E|NE]; [apply IH; auto|].
    destruct (stick (strat st)) as [s' f]. rewrite IH by (cbn; auto). cbn [calls pending]. lia.
  - destruct (conservation_cancelled t (sstep st OCancel) eq_refl) as (_ & H & _). cbn zeta in H.
    rewrite H. cbn [calls pending sstep]. lia.
Qed.

(* the strategy state and the number of retransmissions are a function of the number of Tick
   calls made, whatever the interleaving *)
Lemma calls_determine : forall ops st,
  let st' := srun st ops in
  exists k : nat, calls st' = calls st + N.of_nat k /\
                  retx st' = retx st + fst (count_fires (strat st) k) /\
                  strat st' = snd (count_fires (strat st) k).
Proof.
  induction ops as [|o t IH]; intros st; cbn zeta.
  - exists O. cbn [srun fold_left count_fires fst snd N.of_nat]. split; [lia|]. split; [lia | reflexivity].
  - rewrite srun_cons.
    destruct (IH (sstep st o)) as (k & Hc & Hr & Hs).
    destruct o; cbn [sstep] in *.
    + exists k. destruct (registered st); cbn [negb] in *; [destruct (cancelled st)|]; cbn in *; auto.
    + destruct (N.eqb_spec (pending st) 0) as [E|NE]; [exists k; auto|].
      exists (S k). cbn [count_fires]. destruct (stick (strat st)) as [s' f].
      cbn [calls retx strat pending] in *.
      destruct (count_fires s' k) as [c s2]. cbn [fst snd] in *.
      split; [lia|]. split; [destruct f; lia | exact Hs].
    + exists k. cbn in *. auto.
Qed.

Lemma count_std : forall k, fst (count_fires Std k) = N.of_nat k.
Proof.
  induction k as [|k IH]; [reflexivity|]. cbn [count_fires stick].
  destruct (count_fires Std k) as [c s]. cbn [fst] in *. lia.
Qed.

(* standard strategy: in every drained state the number of retransmissions is the number of
   ticks delivered while the context was live *)
Theorem standard_every_tick : forall ops,
  let st := srun (sys_init Std) ops in
  retx st = calls st /\ calls st + pending st = live_ticks ops /\
  (pending st = 0 -> retx st = live_ticks ops).
Proof.
  intros ops st.
  destruct (calls_determine ops (sys_init Std)) as (k & Hc & Hr & _). fold st in Hc, Hr.
  pose proof (conservation ops (sys_init Std) eq_refl eq_refl) as Hcons. cbn zeta in Hcons. fold st in Hcons.
  cbn in Hc, Hr, Hcons. rewrite count_std in Hr.
  split; [lia|]. split; [lia | intros; lia].
Qed.

(* backoff strategy: whatever the interleaving of tick deliveries, goroutine runs and the
   cancellation, the retransmissions made after c Tick calls are exactly those of the calls
   number 2^(n-1)+n-1, and the Tick calls made or pending are the live ticks *)
Theorem backoff_any_interleaving : forall ops,
  let st := srun (sys_init (Back binit)) ops in
  let P := fst (fire_positions (Back binit) (N.to_nat (calls st)) 1) in
  retx st = N.of_nat (length P) /\
  calls st + pending st = live_ticks ops /\
  (calls st < 2 ^ 62 ->
   forall j, In j P <-> (1 <= j <= calls st /\ exists n, 1 <= n /\ j = 2 ^ (n - 1) + n - 1)).
Proof.
  intros ops st P.
  destruct (calls_determine ops (sys_init (Back binit))) as (k & Hc & Hr & _). fold st in Hc, Hr.
  pose proof (conservation ops (sys_init (Back binit)) eq_refl eq_refl) as Hcons.
  cbn zeta in Hcons. fold st in Hcons. cbn in Hc, Hr, Hcons.
  assert (Hk : N.to_nat (calls st) = k) by lia.
  unfold P. rewrite Hk.
  destruct (count_positions k (Back binit) 1) as (A & _). rewrite <- A.
  split; [lia|]. split; [lia|].
  intros Hlt j. rewrite positions_in. split.
  - intros (i & Hi & -> & Hs). rewrite safter_back, stick_back_snd in Hs.
    assert (Hf : fires (1 + N.of_nat i) = true).
    { unfold fires. replace (1 + N.of_nat i - 1) with (N.of_nat i) by lia. exact Hs. }
    apply backoff_ticks in Hf; [|lia|lia]. split; [lia | exact Hf].
  - intros ((Hj1 & Hj2) & Hn).
    apply backoff_ticks in Hn; [|lia|lia].
    exists (N.to_nat (j - 1)). split; [lia|]. split; [lia|].
    rewrite safter_back, stick_back_snd, N2Nat.id. exact Hn.
Qed.

(* cancellation: Tick calls after the cancel come only from goroutines spawned before it (the
   window between a tick's goroutine being spawned and calling Tick); ticks delivered after it
   spawn nothing and deregister the handler *)
Theorem stops_after_cancel : forall s pre post,
  let st1 := srun (sys_init s) (pre ++ [OCancel]) in
  let st2 := srun st1 post in
  calls st2 + pending st2 = calls st1 + pending st1 /\
  retx st1 <= retx st2 <= retx st1 + (calls st2 - calls st1) /\
  (pending st1 = 0 -> calls st2 = calls st1 /\ retx st2 = retx st1) /\
  (In OTick post -> registered st2 = false).
Proof.
  intros s pre post st1 st2.
  assert (Hc1 : cancelled st1 = true).
  { unfold st1. rewrite srun_app. cbn. reflexivity. }
  destruct (conservation_cancelled post st1 Hc1) as (_ & Hcons & _ & Hreg). fold st2 in Hcons, Hreg.
  destruct (calls_determine post st1) as (k & Hk & Hr & _). fold st2 in Hk, Hr.
  assert (Hle : fst (count_fires (strat st1) k) <= N.of_nat k).
  { generalize (strat st1). clear. induction k as [|k IH]; intro s; [cbn; lia|].
    cbn [count_fires]. destruct (stick s) as [s' f]. specialize (IH s').
    destruct (count_fires s' k) as [c s2]. cbn in *. destruct f; lia. }
  split; [exact Hcons|]. split; [lia|]. split; [|exact Hreg].
  intro Hp. assert (k = O) by lia. subst k. cbn in Hr. lia.
Qed.

(* ---------- the code before the repair ---------- *)
(* two overlapping unsynchronised Tick calls on a fresh strategy: both load tickCounter = 0,
   both store 1, both see tickCounter == retransmitTick and both retransmit: the first
   retransmission is repeated, one tick is lost and the schedule state is advanced twice
   (delay 4, next retransmission at 6 with the counter at 1).  The atomic model retransmits
   once in two ticks and is then at (2, 2, 3). *)
Definition uwitness : list uop :=
  [UStep 0; UStep 1; UStep 0; UStep 1; UStep 0; UStep 1; UStep 0; UStep 1]%nat.
Theorem unsync_backoff_refuted :
  exists ops, let st := urun {| ub := binit; upcs := [UStart; UStart] |} ops in
    upcs st = [UDone true; UDone true] /\ ub st = {| tc := 1; delay := 4; rt := 6 |} /\
    count_fires (Back binit) 2 = (1, Back {| tc := 2; delay := 2; rt := 3 |}).
Proof. exists uwitness. vm_compute. auto. Qed.
(* a witness where a tick is lost without a repeat: ticks 1, 2 in sequence, ticks 3 and 4
   overlap on the increment: the counter is 3 where the atomic strategy has 4, so the next
   retransmission (tick 6) comes one tick late *)
Definition uwitness2 : list uop :=
  [UStep 0; UStep 0; UStep 0; UStep 0; UStep 1; UStep 1; UStep 1;
   UStep 2; UStep 3; UStep 2; UStep 3; UStep 2; UStep 2; UStep 3]%nat.
Theorem unsync_backoff_shifts :
  exists ops, let st := urun {| ub := binit; upcs := [UStart; UStart; UStart; UStart] |} ops in
    tc (ub st) = 3 /\ ufired st = 2 /\ rt (ub st) = 6 /\
    bafter binit 4 = {| tc := 4; delay := 4; rt := 6 |}.
Proof. exists uwitness2. vm_compute. auto. Qed.

(* ---------- the executable forms ---------- *)
Lemma is_sched_sound : forall k, is_sched k = true -> exists n, 1 <= n /\ k = 2 ^ (n - 1) + n - 1.
Proof.
  intros k H. unfold is_sched in H. apply existsb_exists in H.
  destruct H as (n & Hin & He). apply in_map_iff in Hin. destruct Hin as (i & <- & Hi).
  apply in_seq in Hi. apply N.eqb_eq in He. exists (N.of_nat i). split; [lia | exact He].
Qed.
Lemma is_sched_complete : forall k, k < 2 ^ 62 ->
  (exists n, 1 <= n /\ k = 2 ^ (n - 1) + n - 1) -> is_sched k = true.
Proof.
  intros k Hk (n & Hn & E). unfold is_sched. apply existsb_exists.
  exists n. split; [|apply N.eqb_eq; exact E].
  assert (n <= 63).
  { destruct (N.le_gt_cases n 63) as [L|G]; [exact L|].
    assert (2 ^ 62 <= 2 ^ (n - 1)) by (apply N.pow_le_mono_r; lia). lia. }
  apply in_map_iff. exists (N.to_nat n). split; [lia|]. apply in_seq. lia.
Qed.

Theorem is_sched_iff : forall k, 1 <= k -> k < 2 ^ 62 -> is_sched k = fires k.
Proof.
  intros k H1 Hk. destruct (fires k) eqn:F.
  - apply is_sched_complete; [exact Hk|]. apply backoff_ticks; auto.
  - destruct (is_sched k) eqn:S; [|reflexivity].
    apply is_sched_sound in S. apply backoff_ticks in S; auto. congruence.
Qed.

(* a state accepted by [reachable_b] is the state after [tc b] ticks of a fresh strategy *)
Lemma reachable_sound : forall b, reachable_b b = true ->
  tc b < 2 ^ 62 -> b = bafter binit (tc b).
Proof.
  intros b H Hk. unfold reachable_b in H. apply existsb_exists in H.
  destruct H as (n & Hin & He). apply in_map_iff in Hin. destruct Hin as (i & <- & Hi).
  apply in_seq in Hi.
  repeat (apply andb_prop in He; destruct He as [He ?]).
  apply N.eqb_eq in He. apply N.eqb_eq in H1. apply N.leb_le in H0. apply N.ltb_lt in H.
  rewrite <- p62_eq in Hk.
  destruct (bafter_inv (tc b) Hk) as (m & Hm).
  pose proof Hm as (Hs & Hlt & Hlo).
  set (n := N.of_nat i) in *. assert (Hn : 1 <= n) by lia.
  replace n with ((n - 1) + 1) in H1, H by lia. rewrite sched_sch in H1, H.
  assert (Hlow : n - 1 = 0 \/ (1 <= n - 1 /\ sch (n - 1 - 1) <= tc b)).
  { destruct (N.eqb_spec n 1) as [E1|NE1]; [left; lia|]. right. split; [lia|].
    replace n with ((n - 1 - 1) + 1 + 1) in H0 by lia.
    replace (n - 1 - 1 + 1 + 1 - 1) with ((n - 1 - 1) + 1) in H0 by lia.
    rewrite sched_sch in H0. exact H0. }
  assert (m = n - 1).
  { destruct (N.lt_trichotomy m (n - 1)) as [L | [E | L]]; [|exact E|]; exfalso.
    - destruct Hlow as [Z | [Hn1 Hlow]]; [lia|].
      assert (sch m <= sch (n - 1 - 1)).
      { destruct (N.eq_dec m (n - 1 - 1)) as [-> | NE]; [lia|].
        assert (m < n - 1 - 1) by lia. apply sch_mono in H2. lia. }
      lia.
    - destruct Hlo as [-> | [Hm1 Hlo]]; [lia|].
      assert (sch (n - 1) <= sch (m - 1)).
      { destruct (N.eq_dec (n - 1) (m - 1)) as [-> | NE]; [lia|].
        assert (n - 1 < m - 1) by lia. apply sch_mono in H2. lia. }
      lia. }
  subst m. rewrite Hs. destruct b as [k d r]. cbn in *. unfold mk. f_equal; auto.
Qed.

Lemma bafter_add : forall s a b, bafter s (a + b) = bafter (bafter s a) b.
Proof. intros. unfold bafter. rewrite N.add_comm. apply N.iter_add. Qed.

(* positions predicted by the model = positions selected by the closed form *)
Lemma positions_closed_form : forall b k, reachable_b b = true ->
  tc b + N.of_nat k < 2 ^ 62 ->
  fst (fire_positions (Back b) k 1) =
  filter (fun p => is_sched (tc b + p)) (map N.of_nat (seq 1 k)).
Proof.
  intros b k Hr Hb.
  pose proof (reachable_sound b Hr ltac:(lia)) as Hb0.
  (* generalise the start position *)
  assert (G : forall k (i : nat), tc b + N.of_nat i + N.of_nat k < 2 ^ 62 ->
             fst (fire_positions (safter (Back b) i) k (N.of_nat (S i))) =
             filter (fun p => is_sched (tc b + p)) (map N.of_nat (seq (S i) k))).
  { clear k Hb. induction k as [|k IH]; intros i Hi; [reflexivity|].
    cbn [fire_positions seq map filter].
    destruct (stick (safter (Back b) i)) as [s' f] eqn:Es.
    specialize (IH (S i)).
    assert (Hs' : safter (Back b) (S i) = s').
    { clear - Es. revert Es. generalize (Back b). induction i as [|i IHi]; intros s Es.
      - cbn in *. rewrite Es. reflexivity.
      - cbn [safter] in *. apply IHi. exact Es. }
    assert (Hf : f = is_sched (tc b + N.of_nat (S i))).
    { rewrite is_sched_iff by lia. unfold fires.
      replace (tc b + N.of_nat (S i) - 1) with (tc b + N.of_nat i) by lia.
      rewrite bafter_add, <- Hb0.
      pose proof (stick_back_snd (bafter b (N.of_nat i))) as Hsb.
      rewrite <- safter_back in Hsb. rewrite Es in Hsb. cbn in Hsb. exact Hsb. }
    rewrite <- Hs'.
    replace (N.of_nat (S i) + 1) with (N.of_nat (S (S i))) by lia.
    destruct (fire_positions (safter (Back b) (S i)) k (N.of_nat (S (S i)))) as [l s3] eqn:El.
    cbn [fst]. rewrite <- Hf.
    assert (IH' := IH ltac:(lia)). cbn [fst] in IH'.
    destruct f; rewrite IH'; reflexivity. }
  specialize (G k O). cbn [safter] in G. apply G. lia.
Qed.

Lemma positions_std : forall k p, fst (fire_positions Std k p) = map (fun i => p + N.of_nat i) (seq 0 k).
Proof.
  induction k as [|k IH]; intro p; [reflexivity|].
  cbn [fire_positions stick]. specialize (IH (p + 1)).
  destruct (fire_positions Std k (p + 1)) as [l s]. cbn [fst] in *. rewrite IH.
  cbn [seq map]. f_equal; [lia|]. rewrite <- seq_shift, map_map. apply map_ext. intros; lia.
Qed.

Lemma list_eqb_refl : forall l, list_eqb l l = true.
Proof. induction l; cbn; auto. rewrite N.eqb_refl. auto. Qed.
Lemma list_eqb_eq : forall a b, list_eqb a b = true -> a = b.
Proof.
  induction a as [|x a IH]; destruct b as [|y b]; cbn; try discriminate; auto.
  intro H. apply andb_prop in H. destruct H as [H1 H2]. apply N.eqb_eq in H1. f_equal; auto.
Qed.

Example hypotheses_satisfiable :
  fires 1 = true /\ fires 2 = false /\ fires 3 = true /\ fires 6 = true /\ fires 11 = true /\
  fires 20 = true /\ fires 19 = false /\
  reachable_b (bafter binit 1000) = true /\ (1 <= 20 /\ 20 < 2 ^ 62).
Proof. vm_compute. repeat split; auto; discriminate. Qed.

(* ================= the registry: ONE long-lived Ticker, many messages ================= *)
Lemma tick_rec_id : forall t r, m_id (tick_rec t r) = m_id r.
Proof. intros t r. unfold tick_rec. destruct (stick (m_strat r)). reflexivity. Qed.
Lemma tick_rec_done : forall t r, m_done (tick_rec t r) = m_done r.
Proof. intros t r. unfold tick_rec. destruct (stick (m_strat r)). reflexivity. Qed.
Lemma set_done_id : forall r, m_id (set_done r) = m_id r.
Proof. reflexivity. Qed.

Lemma upd_ids : forall m f ms, (forall r, m_id (f r) = m_id r) ->
  map m_id (upd m f ms) = map m_id ms.
Proof.
  intros m f ms Hf. unfold upd. rewrite map_map. apply map_ext. intros r.
  destruct (m_id r =? m); [apply Hf|reflexivity].
Qed.

Lemma filter_all : forall {A} (p : A -> bool) l, (forall x, In x l -> p x = true) -> filter p l = l.
Proof.
  intros A p l. induction l as [|a t IH]; intros H; [reflexivity|].
  cbn [filter]. rewrite (H a (or_introl eq_refl)). f_equal. apply IH.
  intros x Hx. apply H. right; exact Hx.
Qed.

Lemma NoDup_snoc : forall (l : list N) x, NoDup l -> ~ In x l -> NoDup (l ++ [x]).
Proof.
  induction l as [|a t IH]; intros x Hnd Hx; cbn [app].
  - constructor; [intros []|constructor].
  - inversion Hnd as [|a' t' Ha Ht]; subst. constructor.
    + intros Hin. apply in_app_or in Hin. destruct Hin as [Hin|[->|[]]]; [exact (Ha Hin)|].
      apply Hx. left; reflexivity.
    + apply IH; [exact Ht|]. intros Hin. apply Hx. right; exact Hin.
Qed.

Lemma NoDup_snoc_inv : forall (l : list N) x, NoDup (l ++ [x]) -> NoDup l /\ ~ In x l.
Proof.
  intros l x H. apply NoDup_remove in H. rewrite app_nil_r in H. exact H.
Qed.

Lemma NoDup_map_filter : forall {A} (g : A -> N) (p : A -> bool) l,
  NoDup (map g l) -> NoDup (map g (filter p l)).
Proof.
  intros A g p l. induction l as [|a t IH]; intros H; [constructor|].
  cbn [map] in H. inversion H as [|x l' Ha Ht]; subst. cbn [filter].
  destruct (p a); [|apply IH; exact Ht]. cbn [map]. constructor; [|apply IH; exact Ht].
  intros Hin. apply Ha. apply in_map_iff in Hin. destruct Hin as [y [Hy Hin]].
  apply filter_In in Hin. apply in_map_iff. exists y. split; [exact Hy|apply Hin].
Qed.

Lemma existsb_snd_false : forall (ks : list (N * N)) k,
  ~ In k (map snd ks) -> existsb (fun p => snd p =? k) ks = false.
Proof.
  induction ks as [|a t IH]; intros k H; [reflexivity|].
  cbn [existsb]. rewrite IH; [|intros Hin; apply H; right; exact Hin].
  destruct (N.eqb_spec (snd a) k) as [E|E]; [|reflexivity].
  exfalso. apply H. left. exact E.
Qed.

(* ticking through a duplicate-free handler table reaches each served message once *)
Lemma fold_upd : forall (f : mrec -> mrec), (forall r, m_id (f r) = m_id r) ->
  forall (ks : list (N * N)) ms, NoDup (map snd ks) ->
  fold_left (fun ms p => upd (snd p) f ms) ks ms =
  map (fun r => if existsb (fun p => snd p =? m_id r) ks then f r else r) ms.
Proof.
  intros f Hf. induction ks as [|[id k] ks IH]; intros ms Hnd.
  - cbn. rewrite map_id. reflexivity.
  - cbn [map snd] in Hnd. inversion Hnd as [|x l Hnin Hnd']; subst.
    cbn [fold_left]. rewrite IH by exact Hnd'. unfold upd. rewrite map_map.
    apply map_ext. intros r. cbn [existsb snd].
    destruct (N.eqb_spec (m_id r) k) as [E|E].
    + rewrite Hf. rewrite E. rewrite (existsb_snd_false ks k Hnin). rewrite N.eqb_refl.
      reflexivity.
    + destruct (N.eqb_spec k (m_id r)) as [E'|E']; [congruence|]. reflexivity.
Qed.

Lemma is_done_absent : forall ms m, ~ In m (map m_id ms) -> is_done ms m = false.
Proof.
  induction ms as [|a t IH]; intros m H; [reflexivity|].
  unfold is_done in *. cbn [existsb]. rewrite IH; [|intros Hin; apply H; right; exact Hin].
  destruct (N.eqb_spec (m_id a) m) as [E|E]; [|reflexivity].
  exfalso. apply H. left. exact E.
Qed.

Lemma is_done_unique : forall ms r, NoDup (map m_id ms) -> In r ms ->
  is_done ms (m_id r) = m_done r.
Proof.
  induction ms as [|a t IH]; intros r Hnd Hin; [destruct Hin|].
  cbn [map] in Hnd. inversion Hnd as [|x l Ha Ht]; subst.
  unfold is_done. cbn [existsb]. fold (is_done t (m_id r)).
  destruct Hin as [->|Hin].
  - rewrite N.eqb_refl. cbn [andb]. rewrite (is_done_absent t (m_id r) Ha).
    apply orb_false_r.
  - destruct (N.eqb_spec (m_id a) (m_id r)) as [E|E].
    + exfalso. apply Ha. rewrite E. apply in_map. exact Hin.
    + cbn [andb orb]. apply IH; assumption.
Qed.

Definition RInv (h : list rop) (st : reg) : Prop :=
  next_id st = N.of_nat (length (scheduled h)) /\
  Forall (fun p => fst p <= next_id st) (handlers st) /\
  NoDup (map snd (handlers st)) /\
  incl (map snd (handlers st)) (map m_id (msgs st)) /\
  (forall r, In r (msgs st) -> m_done r = false -> In (m_id r) (map snd (handlers st))) /\
  map m_id (msgs st) = scheduled h.

Lemma scheduled_app : forall a b, scheduled (a ++ b) = scheduled a ++ scheduled b.
Proof. intros. unfold scheduled. apply flat_map_app. Qed.

Lemma rrun_snoc : forall h o, rrun (h ++ [o]) = rstep (rrun h) o.
Proof. intros. unfold rrun. rewrite fold_left_app. reflexivity. Qed.
Lemma frun_snoc : forall h o, frun (h ++ [o]) = fstep (frun h) o.
Proof. intros. unfold frun, frun_from. rewrite fold_left_app. reflexivity. Qed.

(* the handler table (ids from the monotonic counter, lazy deletion) implements the
   table-free reference: handler ids are never reused, so a registration never overwrites a
   live handler, and every live message has exactly one handler *)
Lemma registry_refines : forall h,
  NoDup (scheduled h) -> N.of_nat (length (scheduled h)) < w64 ->
  RInv h (rrun h) /\ (msgs (rrun h), tickno (rrun h)) = frun h.
Proof.
  induction h as [|o h IH] using rev_ind; intros Hnd Hb.
  - split; [|reflexivity]. unfold RInv. cbn. repeat split; try constructor.
    + intros x [].
    + intros r [].
  - rewrite scheduled_app in Hnd, Hb. rewrite rrun_snoc, frun_snoc.
    destruct o as [m s|m|].
    + (* registration *)
      cbn [scheduled flat_map app] in Hnd, Hb. rewrite app_length in Hb. cbn [length] in Hb.
      apply NoDup_snoc_inv in Hnd. destruct Hnd as [Hnd Hm].
      destruct (IH Hnd ltac:(lia)) as [[I1 [I2 [I3 [I4 [I5 I6]]]]] E]. rewrite <- E.
      set (st := rrun h) in *.
      assert (Hid : (next_id st + 1) mod w64 = next_id st + 1) by (apply N.mod_small; lia).
      assert (Hset : map_set (next_id st + 1) m (handlers st) = handlers st ++ [(next_id st + 1, m)]).
      { unfold map_set. f_equal. apply filter_all. intros p Hp.
        rewrite Forall_forall in I2. specialize (I2 p Hp).
        destruct (N.eqb_spec (fst p) (next_id st + 1)); [lia|reflexivity]. }
      split; [|reflexivity].
      unfold RInv. cbn [rstep handlers next_id msgs tickno]. rewrite Hid, Hset.
      rewrite scheduled_app. cbn [scheduled flat_map app]. rewrite app_length. cbn [length].
      rewrite !map_app. cbn [map snd m_id new_rec].
      split; [lia|]. split.
      { apply Forall_app. split.
        - eapply Forall_impl; [|exact I2]. cbn. intros; lia.
        - constructor; [cbn; lia|constructor]. }
      split.
      { apply NoDup_snoc; [exact I3|]. intros Hin. apply Hm. rewrite <- I6. apply I4. exact Hin. }
      split.
      { apply incl_app; [apply incl_appl; exact I4|apply incl_appr; apply incl_refl]. }
      split.
      { intros r Hr Hd. apply in_or_app. apply in_app_or in Hr. destruct Hr as [Hr|[<-|[]]].
        - left. apply I5; assumption.
        - right. left. reflexivity. }
      rewrite I6. reflexivity.
    + (* cancellation *)
      cbn [scheduled flat_map app] in Hnd, Hb. rewrite app_nil_r in Hnd, Hb.
      destruct (IH Hnd Hb) as [[I1 [I2 [I3 [I4 [I5 I6]]]]] E]. rewrite <- E.
      split; [|reflexivity].
      unfold RInv. cbn [rstep handlers next_id msgs tickno].
      rewrite scheduled_app. cbn [scheduled flat_map app]. rewrite app_nil_r.
      rewrite (upd_ids m set_done _ set_done_id).
      repeat split; try assumption.
      intros r Hr Hd. unfold upd in Hr. apply in_map_iff in Hr. destruct Hr as [r0 [Hr0 Hin]].
      destruct (m_id r0 =? m).
      * subst r. discriminate.
      * subst r. apply I5; assumption.
    + (* tick *)
      cbn [scheduled flat_map app] in Hnd, Hb. rewrite app_nil_r in Hnd, Hb.
      destruct (IH Hnd Hb) as [[I1 [I2 [I3 [I4 [I5 I6]]]]] E]. rewrite <- E.
      set (st := rrun h) in *.
      set (keep := filter (fun p => negb (is_done (msgs st) (snd p))) (handlers st)).
      assert (Hids : NoDup (map m_id (msgs st))) by (rewrite I6; exact Hnd).
      assert (Hk3 : NoDup (map snd keep)) by (apply NoDup_map_filter; exact I3).
      assert (Hmsgs : fold_left (fun ms p => upd (snd p) (tick_rec (tickno st + 1)) ms) keep (msgs st) =
                      map (fun r => if m_done r then r else tick_rec (tickno st + 1) r) (msgs st)).
      { rewrite (fold_upd _ (tick_rec_id (tickno st + 1)) keep (msgs st) Hk3).
        apply map_ext_in. intros r Hr.
        pose proof (is_done_unique (msgs st) r Hids Hr) as Hu.
        destruct (m_done r) eqn:Hd.
        - destruct (existsb (fun p => snd p =? m_id r) keep) eqn:Ex; [|reflexivity].
          apply existsb_exists in Ex. destruct Ex as [p [Hp Hpe]].
          apply filter_In in Hp. destruct Hp as [_ Hp]. apply N.eqb_eq in Hpe.
          rewrite Hpe, Hu in Hp. discriminate.
        - replace (existsb (fun p => snd p =? m_id r) keep) with true; [reflexivity|].
          symmetry. apply existsb_exists.
          specialize (I5 r Hr Hd). apply in_map_iff in I5. destruct I5 as [p [Hpe Hp]].
          exists p. split; [|apply N.eqb_eq; exact Hpe].
          apply filter_In. split; [exact Hp|]. rewrite Hpe, Hu. reflexivity. }
      split.
      2:{ cbn [rstep handlers next_id msgs tickno fstep]. fold keep. rewrite Hmsgs. reflexivity. }
      unfold RInv. cbn [rstep handlers next_id msgs tickno]. fold keep. rewrite Hmsgs.
      rewrite scheduled_app. cbn [scheduled flat_map app]. rewrite app_nil_r.
      assert (Hmid : map m_id (map (fun r => if m_done r then r else tick_rec (tickno st + 1) r) (msgs st))
                     = map m_id (msgs st)).
      { rewrite map_map. apply map_ext. intros r. destruct (m_done r); [reflexivity|apply tick_rec_id]. }
      rewrite Hmid.
      split; [exact I1|]. split.
      { apply Forall_forall. intros p Hp. apply filter_In in Hp.
        rewrite Forall_forall in I2. apply I2. apply Hp. }
      split; [exact Hk3|]. split.
      { intros x Hx. apply I4. apply in_map_iff in Hx. destruct Hx as [p [Hpe Hp]].
        apply filter_In in Hp. apply in_map_iff. exists p. split; [exact Hpe|apply Hp]. }
      split; [|exact I6].
      intros r Hr Hd. apply in_map_iff in Hr. destruct Hr as [r0 [Hr0 Hin]].
      assert (m_done r0 = false /\ m_id r = m_id r0) as [Hd0 Hi0].
      { destruct (m_done r0) eqn:D0; subst r.
        - rewrite D0 in Hd. discriminate.
        - split; [reflexivity|apply tick_rec_id]. }
      rewrite Hi0. pose proof (I5 r0 Hin Hd0) as H5.
      apply in_map_iff in H5. destruct H5 as [p [Hpe Hp]].
      apply in_map_iff. exists p. split; [exact Hpe|].
      apply filter_In. split; [exact Hp|].
      rewrite Hpe, (is_done_unique (msgs st) r0 Hids Hin), Hd0. reflexivity.
Qed.

(* ---- in the reference, a message's record depends only on what the history says about it ---- *)
Definition proj (m : N) (ms : list mrec) : list mrec := filter (fun r => m_id r =? m) ms.

Lemma proj_map : forall m g ms, (forall r, m_id (g r) = m_id r) ->
  proj m (map g ms) = map g (proj m ms).
Proof.
  intros m g ms Hg. induction ms as [|a t IH]; [reflexivity|].
  cbn [map proj filter]. rewrite Hg. fold (proj m (map g t)). fold (proj m t). rewrite IH.
  destruct (m_id a =? m); reflexivity.
Qed.

Lemma proj_upd_other : forall m m' f ms, m' <> m -> (forall r, m_id (f r) = m_id r) ->
  proj m (upd m' f ms) = proj m ms.
Proof.
  intros m m' f ms Hne Hf. induction ms as [|a t IH]; [reflexivity|].
  unfold upd in *. cbn [map proj filter]. fold (proj m (map (fun r => if m_id r =? m' then f r else r) t)).
  fold (proj m t). rewrite IH.
  destruct (N.eqb_spec (m_id a) m') as [E|E].
  - rewrite Hf. destruct (N.eqb_spec (m_id a) m); [congruence|reflexivity].
  - reflexivity.
Qed.

Lemma proj_upd_same : forall m f ms, (forall r, m_id (f r) = m_id r) ->
  proj m (upd m f ms) = upd m f (proj m ms).
Proof.
  intros m f ms Hf. unfold upd. apply proj_map. intros r.
  destruct (m_id r =? m); [apply Hf|reflexivity].
Qed.

Lemma frun_from_cons : forall st o h, frun_from st (o :: h) = frun_from (fstep st o) h.
Proof. reflexivity. Qed.

Lemma fstep_proj : forall m o ms t,
  fstep (proj m ms, t) (if about m o then o else RCancel m) =
  (proj m (fst (fstep (ms, t) o)), snd (fstep (ms, t) o)) \/
  (about m o = false /\ proj m (fst (fstep (ms, t) o)) = proj m ms /\ snd (fstep (ms, t) o) = t).
Proof.
  intros m o ms t. destruct o as [m' s|m'|]; cbn [about fstep fst snd].
  - destruct (N.eqb_spec m' m) as [E|E].
    + left. subst m'. unfold proj. rewrite filter_app. cbn [filter new_rec m_id].
      rewrite N.eqb_refl. reflexivity.
    + right. split; [reflexivity|]. split; [|reflexivity].
      unfold proj. rewrite filter_app. cbn [filter new_rec m_id].
      destruct (N.eqb_spec m' m); [congruence|]. apply app_nil_r.
  - destruct (N.eqb_spec m' m) as [E|E].
    + left. subst m'. rewrite (proj_upd_same m set_done ms set_done_id). reflexivity.
    + right. split; [reflexivity|]. split; [|reflexivity].
      apply (proj_upd_other m m' set_done ms E set_done_id).
  - left. rewrite proj_map; [reflexivity|].
    intros r. destruct (m_done r); [reflexivity|apply tick_rec_id].
Qed.

Lemma flat_projection : forall m h ms t,
  proj m (fst (frun_from (ms, t) h)) = fst (frun_from (proj m ms, t) (only m h)) /\
  snd (frun_from (ms, t) h) = snd (frun_from (proj m ms, t) (only m h)).
Proof.
  intros m. induction h as [|o h IH]; intros ms t; [split; reflexivity|].
  rewrite frun_from_cons. unfold only. cbn [filter]. fold (only m h).
  destruct (fstep_proj m o ms t) as [E|[Ea [E1 E2]]].
  - destruct (about m o) eqn:Ea.
    + rewrite frun_from_cons, E. destruct (fstep (ms, t) o) as [ms' t']. apply IH.
    + (* a foreign op that changes nothing about m behaves like the no-op it is *)
      destruct o as [m' s|m'|]; cbn [about] in Ea; try discriminate.
      * destruct (fstep (ms, t) (RSchedule m' s)) as [ms' t'] eqn:Es. cbn [fstep] in Es.
        inversion Es; subst ms' t'. destruct (IH (ms ++ [new_rec m' s]) t) as [A B].
        rewrite A, B. unfold proj at 1 3. rewrite filter_app. cbn [filter new_rec m_id].
        rewrite Ea, app_nil_r. split; reflexivity.
      * destruct (IH (upd m' set_done ms) t) as [A B]. cbn [fstep]. rewrite A, B.
        assert (m' <> m) by (intros ->; rewrite N.eqb_refl in Ea; discriminate).
        rewrite (proj_upd_other m m' set_done ms H set_done_id). split; reflexivity.
  - rewrite Ea. destruct (fstep (ms, t) o) as [ms' t']. cbn [fst snd] in E1, E2. subst t'.
    destruct (IH ms' t) as [A B]. rewrite A, B, E1. split; reflexivity.
Qed.

Definition own_op (m : N) (o : rop) : Prop := o = RTick \/ o = RCancel m.

Lemma only_own : forall m h, ~ In m (scheduled h) -> Forall (own_op m) (only m h).
Proof.
  intros m. induction h as [|o h IH]; intros H; [constructor|].
  unfold only. cbn [filter]. fold (only m h).
  destruct o as [m' s|m'|]; cbn [about].
  - cbn [scheduled flat_map app] in H. destruct (N.eqb_spec m' m) as [E|E].
    + exfalso. apply H. left. exact E.
    + apply IH. intros Hin. apply H. right. exact Hin.
  - cbn [scheduled flat_map app] in H. destruct (N.eqb_spec m' m) as [E|E].
    + constructor; [right; subst; reflexivity|apply IH; exact H].
    + apply IH; exact H.
  - constructor; [left; reflexivity|apply IH; exact H].
Qed.

Lemma only_ticks : forall m h, ticks_in (only m h) = ticks_in h.
Proof.
  intros m. induction h as [|o h IH]; [reflexivity|].
  unfold only. cbn [filter]. fold (only m h).
  destruct o as [m' s|m'|]; cbn [about ticks_in].
  - destruct (m' =? m); cbn [ticks_in]; exact IH.
  - destruct (m' =? m); cbn [ticks_in]; exact IH.
  - rewrite IH. reflexivity.
Qed.

Lemma only_live_len : forall m h, live_len m (only m h) = live_len m h.
Proof.
  intros m. induction h as [|o h IH]; [reflexivity|].
  unfold only. cbn [filter]. fold (only m h).
  destruct o as [m' s|m'|]; cbn [about live_len].
  - destruct (m' =? m); cbn [live_len]; exact IH.
  - destruct (N.eqb_spec m' m) as [E|E]; cbn [live_len].
    + subst. rewrite N.eqb_refl. reflexivity.
    + exact IH.
  - rewrite IH. reflexivity.
Qed.

Lemma empty_run : forall m l t, Forall (own_op m) l -> frun_from ([], t) l = ([], t + ticks_in l).
Proof.
  intros m. induction l as [|o l IH]; intros t H.
  - cbn. f_equal. lia.
  - inversion H as [|o' l' Ho Hl]; subst. rewrite frun_from_cons.
    destruct Ho as [->| ->]; cbn [fstep upd map ticks_in]; rewrite IH by exact Hl; f_equal; lia.
Qed.

(* one message alone: its log grows by its own schedule, counted in global tick numbers,
   until its own cancellation *)
Lemma solo_run : forall m post r t, Forall (own_op m) post -> m_id r = m ->
  exists r', frun_from ([r], t) post = ([r'], t + ticks_in post) /\ m_id r' = m /\
    rev (m_rlog r') = rev (m_rlog r) ++
      (if m_done r then [] else fst (fire_positions (m_strat r) (live_len m post) (t + 1))).
Proof.
  intros m. induction post as [|o post IH]; intros r t H Hid.
  - exists r. cbn [frun_from fold_left ticks_in live_len fire_positions fst].
    split; [f_equal; lia|]. split; [exact Hid|]. destruct (m_done r); rewrite app_nil_r; reflexivity.
  - inversion H as [|o' l' Ho Hl]; subst o' l'. rewrite frun_from_cons.
    destruct Ho as [->| ->]; cbn [fstep map upd ticks_in live_len].
    + destruct (m_done r) eqn:Hd.
      * destruct (IH r (t + 1) Hl Hid) as [r' [E [Hi Hlog]]]. exists r'.
        rewrite E, Hd in *. split; [f_equal; lia|]. split; assumption.
      * destruct (IH (tick_rec (t + 1) r) (t + 1) Hl) as [r' [E [Hi Hlog]]].
        { rewrite tick_rec_id. exact Hid. }
        exists r'. rewrite E. split; [f_equal; lia|]. split; [exact Hi|].
        rewrite Hlog, tick_rec_done, Hd. unfold tick_rec. cbn [fire_positions].
        destruct (stick (m_strat r)) as [s' f]. cbn [m_rlog m_strat].
        destruct (fire_positions s' (live_len m post) (t + 1 + 1)) as [l s'']. cbn [fst].
        destruct f; cbn [rev]; [rewrite <- app_assoc|]; reflexivity.
    + rewrite Hid, N.eqb_refl.
      destruct (IH (set_done r) t Hl) as [r' [E [Hi Hlog]]]; [exact Hid|].
      exists r'. rewrite E. split; [reflexivity|]. split; [exact Hi|].
      rewrite Hlog. cbn [set_done m_rlog m_done]. destruct (m_done r); reflexivity.
Qed.

Lemma find_proj : forall m ms,
  find (fun r => m_id r =? m) ms = hd_error (proj m ms).
Proof.
  intros m. induction ms as [|a t IH]; [reflexivity|].
  cbn [find proj filter]. destruct (m_id a =? m); [reflexivity|exact IH].
Qed.

Lemma positions_shift : forall k s p a,
  fst (fire_positions s k (a + p)) = map (N.add a) (fst (fire_positions s k p)).
Proof.
  induction k as [|k IH]; intros s p a; [reflexivity|].
  cbn [fire_positions]. destruct (stick s) as [s' f].
  specialize (IH s' (p + 1) a). replace (a + (p + 1)) with (a + p + 1) in IH by lia.
  destruct (fire_positions s' k (a + p + 1)) as [l1 s1].
  destruct (fire_positions s' k (p + 1)) as [l2 s2]. cbn [fst] in *.
  destruct f; cbn [map]; rewrite IH; reflexivity.
Qed.

(* THE registry theorem: on one shared long-lived ticker, whatever else is registered,
   cancelled or re-registered around it, the message registered by [RSchedule m s] is
   retransmitted exactly at the positions of its OWN schedule counted from its OWN
   registration, up to its OWN cancellation *)
Theorem registry_exact : forall pre m s post,
  NoDup (scheduled (pre ++ RSchedule m s :: post)) ->
  N.of_nat (length (scheduled (pre ++ RSchedule m s :: post))) < w64 ->
  log_of (msgs (rrun (pre ++ RSchedule m s :: post))) m =
  Some (map (N.add (ticks_in pre)) (fst (fire_positions s (live_len m post) 1))).
Proof.
  intros pre m s post Hnd Hb.
  destruct (registry_refines _ Hnd Hb) as [_ E].
  assert (Hm : msgs (rrun (pre ++ RSchedule m s :: post)) = fst (frun (pre ++ RSchedule m s :: post)))
    by (rewrite <- E; reflexivity).
  rewrite Hm. unfold log_of. rewrite find_proj. unfold frun.
  destruct (flat_projection m (pre ++ RSchedule m s :: post) [] 0) as [P _]. rewrite P.
  cbn [proj filter].
  rewrite scheduled_app in Hnd. cbn [scheduled flat_map app] in Hnd.
  apply NoDup_remove_2 in Hnd.
  assert (Hpre : ~ In m (scheduled pre)) by (intros H; apply Hnd; apply in_or_app; left; exact H).
  assert (Hpost : ~ In m (scheduled post)) by (intros H; apply Hnd; apply in_or_app; right; exact H).
  unfold only. rewrite filter_app. cbn [filter about]. rewrite N.eqb_refl.
  fold (only m pre). fold (only m post).
  unfold frun_from. rewrite fold_left_app. fold (frun_from ([], 0) (only m pre)).
  rewrite (empty_run m _ 0 (only_own m pre Hpre)). cbn [fold_left fstep app].
  fold (frun_from ([new_rec m s], 0 + ticks_in (only m pre)) (only m post)).
  destruct (solo_run m (only m post) (new_rec m s) (0 + ticks_in (only m pre))
              (only_own m post Hpost) eq_refl) as [r' [Er [_ Hlog]]].
  rewrite Er. cbn [fst hd_error]. rewrite Hlog. cbn [new_rec m_rlog m_done m_strat rev app].
  rewrite only_live_len, only_ticks. rewrite N.add_0_l.
  rewrite positions_shift. reflexivity.
Qed.

Lemma seq1_of_nat : forall k, map N.of_nat (seq 1 k) = map (fun i => 1 + N.of_nat i) (seq 0 k).
Proof.
  intros k. rewrite <- seq_shift, map_map. apply map_ext. intros; lia.
Qed.

(* ... in closed form: standard = every tick; backoff = own ticks 1, 3, 6, 11, 20, ... *)
Theorem registry_closed_form : forall pre m s post sel,
  NoDup (scheduled (pre ++ RSchedule m s :: post)) ->
  N.of_nat (length (scheduled (pre ++ RSchedule m s :: post))) < w64 ->
  sel_of s = Some sel ->
  (match s with Std => 0 | Back b => tc b end) + N.of_nat (live_len m post) < 2 ^ 62 ->
  log_of (msgs (rrun (pre ++ RSchedule m s :: post))) m = Some (expected_log sel pre post m).
Proof.
  intros pre m s post sel Hnd Hb Hs Ht. rewrite (registry_exact pre m s post Hnd Hb).
  unfold expected_log. f_equal. f_equal.
  destruct s as [|b]; cbn [sel_of] in Hs.
  - inversion Hs; subst sel. rewrite positions_std, seq1_of_nat.
    rewrite filter_all by reflexivity. reflexivity.
  - destruct (reachable_b b) eqn:Hr; [|discriminate]. inversion Hs; subst sel.
    apply positions_closed_form; assumption.
Qed.

(* soundness of the executable form: an accepted observation gives every registered message
   exactly its closed-form log *)
Lemma reg_spec_sound : forall h pre0 logs, reg_spec pre0 h logs = true ->
  forall pre m s post, h = pre ++ RSchedule m s :: post ->
  exists l, In (m, l) logs /\
    forall sel, sel_of s = Some sel -> l = expected_log sel (pre0 ++ pre) post m.
Proof.
  induction h as [|o h IH]; intros pre0 logs H pre m s post Eh.
  - destruct pre; discriminate.
  - destruct pre as [|o' pre].
    + cbn [app] in Eh. inversion Eh; subst o h. cbn [reg_spec] in H.
      destruct logs as [|[m' l] logs']; [discriminate|].
      apply andb_prop in H. destruct H as [H _]. apply andb_prop in H. destruct H as [H1 H2].
      apply N.eqb_eq in H1. subst m'. exists l. split; [left; reflexivity|].
      intros sel Hs. rewrite Hs in H2. rewrite app_nil_r. apply list_eqb_eq. exact H2.
    + cbn [app] in Eh. inversion Eh; subst o' h.
      assert (G : forall logs', reg_spec (pre0 ++ [o]) (pre ++ RSchedule m s :: post) logs' = true ->
                exists l, In (m, l) logs' /\
                  forall sel, sel_of s = Some sel -> l = expected_log sel (pre0 ++ o :: pre) post m).
      { intros logs' H'. destruct (IH _ _ H' pre m s post eq_refl) as [l [Hin Hl]].
        exists l. split; [exact Hin|]. intros sel Hs. rewrite (Hl sel Hs).
        rewrite <- app_assoc. reflexivity. }
      destruct o as [m0 s0|m0|]; cbn [reg_spec] in H.
      * destruct logs as [|[m' l'] logs']; [discriminate|].
        apply andb_prop in H. destruct H as [_ H].
        destruct (G logs' H) as [l [Hin Hl]]. exists l. split; [right; exact Hin|exact Hl].
      * exact (G logs H).
      * exact (G logs H).
Qed.

(* the seeded-style scenario: an earlier message ends, a tick passes, a new one is registered
   while a later-registered one is live — every log is still exact *)
Example registry_churn_example :
  reg_logs (rrun [RSchedule 0 Std; RSchedule 1 (Back binit); RTick; RTick; RCancel 0; RTick;
                  RSchedule 2 Std; RTick; RTick; RTick; RCancel 1; RTick]) =
  [(0, [1; 2]); (1, [1; 3; 6]); (2, [4; 5; 6; 7])].
Proof. vm_compute. reflexivity. Qed.
