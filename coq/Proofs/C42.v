From Coq Require Import List Bool ZArith Arith.
From KV Require Import Common.Verdict Model.C42.
Import ListNotations.

Ltac crush_world w p :=
  destruct w as [rg ip ud lk el cr ch bt rf uf jf sc pc pz]; unfold check_status, check_rewards, monitor_first;
  cbn [registered in_pool up_to_date locked eligible can_restore chaosnet beta];
  destruct (should_join _ p) eqn:Hsj;
  destruct rg, ip, ud, lk, el, cr; cbn;
  try rewrite Hsj; cbn;
  repeat split; intros; unfold not in *; intros;
  repeat match goal with
         | H : _ /\ _ |- _ => destruct H
         | H : _ \/ _ |- _ => destruct H
         | H : False |- _ => destruct H
         end;
  try discriminate; try congruence; auto; try tauto.

Lemma join_iff w p :
  In Join (fst (check_status w p)) <->
  in_pool w = AFalse /\ up_to_date w = AFalse /\ locked w = AFalse /\ should_join w p = true.
Proof. crush_world w p. Qed.

Lemma update_iff w p :
  In Update (fst (check_status w p)) <->
  in_pool w = ATrue /\ up_to_date w = AFalse /\ locked w = AFalse.
Proof. crush_world w p. Qed.

Lemma restore_iff w p :
  In Restore (fst (check_status w p)) <->
  in_pool w = ATrue /\ up_to_date w <> AErr /\ eligible w = AFalse /\ can_restore w = ATrue.
Proof. crush_world w p. Qed.

Lemma requests_nodup w p : NoDup (fst (check_status w p)).
Proof.
  destruct w as [rg ip ud lk el cr ch bt rf uf jf sc pc pz]; unfold check_status, check_rewards;
  cbn [registered in_pool up_to_date locked eligible can_restore chaosnet beta];
  destruct (should_join _ p); destruct ip, ud, lk, el, cr; cbn;
  repeat constructor; cbn; intuition discriminate.
Qed.

Lemma query_error_no_later_request w p :
  (in_pool w = AErr \/ up_to_date w = AErr -> fst (check_status w p) = []) /\
  (locked w = AErr -> ~ In Join (fst (check_status w p)) /\ ~ In Update (fst (check_status w p))).
Proof. crush_world w p. Qed.

Lemma monitor_requests w p :
  fst (monitor_first w p) = match registered w with ATrue => fst (check_status w p) | _ => [] end.
Proof. unfold monitor_first; destruct (registered w); reflexivity. Qed.

Lemma conj_policy w ps : should_join w (PConj ps) = forallb (should_join w) ps.
Proof.
  induction ps as [|q t IH]; [reflexivity|].
  cbn [forallb]. rewrite <- IH. cbn. destruct (should_join w q); reflexivity.
Qed.

Lemma beta_policy w :
  should_join w PBeta = true <->
  chaosnet w = AFalse \/ (chaosnet w = ATrue /\ beta w = ATrue).
Proof.
  cbn. destruct (chaosnet w), (beta w); split; intros H; try discriminate; auto;
  repeat match goal with H : _ \/ _ |- _ => destruct H | H : _ /\ _ |- _ => destruct H end;
  try discriminate.
Qed.

Lemma ans_is_true a b : ans_is a b = true <-> a = (if b then ATrue else AFalse).
Proof. destruct a, b; cbn; split; intros; congruence. Qed.

Definition permitted_prop (w : world) (p : policy) (t : tx) : Prop :=
  match t with
  | Join => in_pool w = AFalse /\ up_to_date w = AFalse /\ locked w = AFalse /\ should_join w p = true
  | Update => in_pool w = ATrue /\ up_to_date w = AFalse /\ locked w = AFalse
  | Restore => can_restore w = ATrue
  | Panic => True
  end.

Lemma permitted_sound w p t : permitted w p t = true <-> permitted_prop w p t.
Proof.
  destruct t; cbn [permitted permitted_prop]; rewrite ?andb_true_iff, ?ans_is_true; tauto.
Qed.

Lemma spec_ok_sound w p txs :
  spec_ok w p txs = true <-> (forall t, In t txs -> permitted_prop w p t).
Proof.
  unfold spec_ok. rewrite forallb_forall. split; intros H t Ht; apply permitted_sound; auto.
Qed.

Lemma model_permitted w p t : In t (fst (monitor_first w p)) -> permitted_prop w p t.
Proof.
  rewrite monitor_requests. destruct (registered w); try (intros []).
  destruct t; intros H; cbn [permitted_prop].
  - apply (join_iff w p); exact H.
  - apply (update_iff w p); exact H.
  - apply (restore_iff w p) in H; tauto.
  - exact I.
Qed.

Lemma model_passes_spec w p : spec_ok w p (fst (monitor_first w p)) = true.
Proof. apply spec_ok_sound. intros t. apply model_permitted. Qed.

(* ------------------------------------------------------------------------------------------
   Histories on ONE long-lived policy object graph: no tick leaves anything behind in it. *)

Lemma policy_ind2 (P : policy -> Prop)
  (Hu : P PUncond) (Hb : P PBeta) (Hs : forall i, P (PScript i)) (Hp : P PPre)
  (Hc : forall ps, Forall P ps -> P (PConj ps)) : forall p, P p.
Proof.
  fix IH 1. intros [| | i | | ps]; [exact Hu | exact Hb | apply Hs | exact Hp | ].
  apply Hc. induction ps as [|q t IHt]; constructor; [apply IH | exact IHt].
Qed.

Definition conj_all (w : world) : list policy -> bool :=
  fix all (l : list policy) : bool :=
    match l with [] => true | q :: t => if should_join w q then all t else false end.
Definition conj_all_st (w : world) : list policy -> bool * list policy :=
  fix all (l : list policy) : bool * list policy :=
    match l with
    | [] => (true, [])
    | q :: t =>
        let '(bq, q') := should_join_st w q in
        if bq then let '(bt, t') := all t in (bt, q' :: t') else (false, q' :: t)
    end.

Lemma should_join_conj w ps : should_join w (PConj ps) = conj_all w ps.
Proof. reflexivity. Qed.
Lemma should_join_st_conj w ps :
  should_join_st w (PConj ps) = let '(b, ps') := conj_all_st w ps in (b, PConj ps').
Proof. reflexivity. Qed.

(* a ShouldJoin call answers the per-tick pure decision and leaves the object graph as it was *)
Lemma should_join_st_pure w p : should_join_st w p = (should_join w p, p).
Proof.
  induction p as [| | i | | ps IH] using policy_ind2; try reflexivity.
  rewrite should_join_st_conj, should_join_conj.
  assert (E : conj_all_st w ps = (conj_all w ps, ps)).
  { induction IH as [|q t Hq _ IHt]; [reflexivity|].
    cbn [conj_all_st conj_all]. rewrite Hq.
    destruct (should_join w q); [|reflexivity].
    fold (conj_all_st w) (conj_all w). rewrite IHt. reflexivity. }
  rewrite E. reflexivity.
Qed.

Lemma tick_st_pure p w : tick_st p w = (tick p w, p).
Proof. unfold tick_st. rewrite should_join_st_pure. destruct (asks_policy w); reflexivity. Qed.

(* the history output is the per-tick decision mapped over the history *)
Lemma history_no_memory p ws : history_st p ws = map (tick p) ws.
Proof.
  induction ws as [|w t IH]; [reflexivity|].
  cbn [history_st map]. rewrite tick_st_pure, IH. reflexivity.
Qed.

Lemma history_tick_local p ws i :
  nth_error (history_st p ws) i = option_map (tick p) (nth_error ws i).
Proof. rewrite history_no_memory. apply nth_error_map. Qed.

(* whatever happened before and whatever comes after, a tick's output is that of its own world *)
Lemma history_past_future_irrelevant p before after w :
  nth_error (history_st p (before ++ w :: after)) (length before) = Some (tick p w).
Proof.
  rewrite history_tick_local, nth_error_app2, Nat.sub_diag by apply Nat.le_refl. reflexivity.
Qed.

Lemma monitor_history reg p ws :
  monitor reg p ws = match reg with ATrue => (map (tick p) ws, false) | _ => ([], true) end.
Proof. unfold monitor. rewrite history_no_memory. reflexivity. Qed.

Lemma tick_permitted p w t : In t (fst (fst (tick p w))) -> permitted_prop w p t.
Proof.
  cbn [tick fst]. destruct t; intros H; cbn [permitted_prop].
  - apply (join_iff w p); exact H.
  - apply (update_iff w p); exact H.
  - apply (restore_iff w p) in H; tauto.
  - exact I.
Qed.

(* the property for histories: at every tick, every request is permitted by THAT tick's world *)
Lemma history_permitted p ws i w o :
  nth_error ws i = Some w -> nth_error (history_st p ws) i = Some o ->
  forall t, In t (fst (fst o)) -> permitted_prop w p t.
Proof.
  intros Hw Ho. rewrite history_tick_local, Hw in Ho. injection Ho as <-. apply tick_permitted.
Qed.

Lemma conj_all_forallb w ps : conj_all w ps = forallb (should_join w) ps.
Proof. rewrite <- should_join_conj. apply conj_policy. Qed.

(* ... in particular a conjunction joins at a tick only if EVERY part says yes at that tick *)
Lemma history_join_needs_every_part ps ws i w o :
  nth_error ws i = Some w -> nth_error (history_st (PConj ps) ws) i = Some o ->
  In Join (fst (fst o)) ->
  in_pool w = AFalse /\ up_to_date w = AFalse /\ locked w = AFalse /\
  forall q, In q ps -> should_join w q = true.
Proof.
  intros Hw Ho Hj. pose proof (history_permitted _ _ _ _ _ Hw Ho Join Hj) as H.
  cbn [permitted_prop] in H. destruct H as (H1 & H2 & H3 & H4).
  repeat split; auto. rewrite conj_policy, forallb_forall in H4. exact H4.
Qed.

(* the policy object is consulted only when the check gets to the joining decision *)
Lemma policy_consulted_only_when_needed w p :
  asks_policy w = false -> tick p w = tick PUncond w.
Proof.
  unfold tick, check_status, check_queries, asks_policy.
  destruct (in_pool w), (up_to_date w), (locked w); intros H; try discriminate; reflexivity.
Qed.

(* executable history spec *)
Lemma hist_spec_sound p steps :
  hist_spec p steps = true <->
  (forall s, In s steps -> forall t, In t (s_txs s) -> permitted_prop (s_world s) p t).
Proof.
  unfold hist_spec, step_spec. rewrite forallb_forall.
  split; intros H s Hs; [apply spec_ok_sound | apply spec_ok_sound]; auto.
Qed.

(* the steps the model itself would produce *)
Definition model_step (p : policy) (w : world) : step :=
  {| s_world := w; s_txs := fst (fst (tick p w)); s_queries := snd (tick p w);
     s_err := Some (snd (fst (tick p w))); s_allow := should_join w p |}.

Lemma model_passes_hist_spec p ws : hist_spec p (map (model_step p) ws) = true.
Proof.
  apply hist_spec_sound. intros s Hs t Ht. apply in_map_iff in Hs. destruct Hs as (w & <- & _).
  cbn [model_step s_world s_txs] in *. apply tick_permitted. exact Ht.
Qed.

Lemma tx_eqb_refl t : tx_eqb t t = true. Proof. destruct t; reflexivity. Qed.
Lemma query_eqb_refl q : query_eqb q q = true.
Proof. destruct q; cbn; auto using Nat.eqb_refl. Qed.
Lemma list_eqb_refl {A} (eqb : A -> A -> bool) (H : forall x, eqb x x = true) l : list_eqb eqb l l = true.
Proof. induction l as [|x l IH]; cbn; [reflexivity|]. rewrite H, IH. reflexivity. Qed.

Lemma steps_agree_model p ws : steps_agree (map (tick p) ws) (map (model_step p) ws) = true.
Proof.
  induction ws as [|w t IH]; [reflexivity|]. cbn [map steps_agree]. rewrite IH, andb_true_r.
  unfold step_agree. destruct (tick p w) as [[tx e] q] eqn:E. unfold model_step. rewrite E.
  cbn [s_txs s_queries s_err fst snd]. unfold txs_eqb, queries_eqb.
  rewrite (list_eqb_refl _ tx_eqb_refl), (list_eqb_refl _ query_eqb_refl), Bool.eqb_reflx. reflexivity.
Qed.

(* the judge accepts every history of the model: neither spec nor agreement can fail on it *)
Lemma judge_accepts_model p ws : ws <> [] ->
  judge {| c_registered := ATrue; c_policy := p; c_steps := map (model_step p) ws;
           c_monitor_err := false |} = Agree.
Proof.
  intros Hne. unfold judge. cbn [c_steps c_policy].
  destruct (map (model_step p) ws) as [|s0 ss] eqn:E.
  { destruct ws; [contradiction | discriminate]. }
  rewrite <- E.
  replace (forallb (allow_consistent p) (map (model_step p) ws)) with true.
  2:{ symmetry. apply forallb_forall. intros s Hs. apply in_map_iff in Hs. destruct Hs as (w & <- & _).
      unfold allow_consistent, model_step. cbn. apply Bool.eqb_reflx. }
  rewrite model_passes_hist_spec. unfold hist_agree. cbn [c_registered c_policy c_steps c_monitor_err].
  assert (Hw : map s_world (map (model_step p) ws) = ws).
  { rewrite map_map. rewrite (map_ext _ (fun w => w)) by reflexivity. apply map_id. }
  rewrite Hw, monitor_history, steps_agree_model. reflexivity.
Qed.

(* non-vacuity: some world makes the client join, some makes it update and restore *)
Example join_happens :
  fst (monitor_first {| registered := ATrue; in_pool := AFalse; up_to_date := AFalse; locked := AFalse;
                        eligible := ATrue; can_restore := AFalse; chaosnet := AFalse; beta := AFalse;
                        restore_fails := false; update_fails := false; join_fails := false; scripted := []; pre_count := 0; pre_size := 0 |} PBeta) = [Join].
Proof. reflexivity. Qed.
Example update_and_restore_happen :
  fst (monitor_first {| registered := ATrue; in_pool := ATrue; up_to_date := AFalse; locked := AFalse;
                        eligible := AFalse; can_restore := ATrue; chaosnet := AFalse; beta := AFalse;
                        restore_fails := true; update_fails := false; join_fails := false; scripted := []; pre_count := 0; pre_size := 0 |} PUncond)
  = [Restore; Update].
Proof. reflexivity. Qed.

(* the shape of the independently written breaking change C42a: first A yes / B no, then A no /
   B yes on the same conjunction object — the model never joins *)
Definition joinable (sc : list bool) : world :=
  {| registered := ATrue; in_pool := AFalse; up_to_date := AFalse; locked := AFalse;
     eligible := ATrue; can_restore := AFalse; chaosnet := AFalse; beta := AFalse;
     restore_fails := false; update_fails := false; join_fails := false;
     scripted := sc; pre_count := 0; pre_size := 0 |}.
Example stale_yes_is_not_kept :
  map (fun o => fst (fst o))
      (history_st (PConj [PScript 0; PScript 1])
         [joinable [true; false]; joinable [false; true]; joinable [true; true]])
  = [[]; []; [Join]].
Proof. reflexivity. Qed.
