From Coq Require Import List Bool.
From KV Require Import Common.Verdict Model.C42.
Import ListNotations.

Ltac crush_world w p :=
  destruct w as [rg ip ud lk el cr ch bt rf uf jf]; unfold check_status, check_rewards, monitor_first;
  cbn [registered in_pool up_to_date locked eligible can_restore chaosnet beta];
  destruct (should_join _ p) eqn:Hsj;
  destruct rg, ip, ud, lk, el, cr; cbn;
  try rewrite Hsj; cbn;
  repeat split; intros; unfold not in *; intros;
  repeat match goal with
         | H : _ /\ _ |- _ => destruct H
         | H : _ \/ _ |- _ => destruct H
         | H : False |- _ => destruct H
         end;
  try discriminate; try congruence; auto; try tauto.

Lemma join_iff w p :
  In Join (fst (check_status w p)) <->
  in_pool w = AFalse /\ up_to_date w = AFalse /\ locked w = AFalse /\ should_join w p = true.
Proof. crush_world w p. Qed.

Lemma update_iff w p :
  In Update (fst (check_status w p)) <->
  in_pool w = ATrue /\ up_to_date w = AFalse /\ locked w = AFalse.
Proof. crush_world w p. Qed.

Lemma restore_iff w p :
  In Restore (fst (check_status w p)) <->
  in_pool w = ATrue /\ up_to_date w <> AErr /\ eligible w = AFalse /\ can_restore w = ATrue.
Proof. crush_world w p. Qed.

Lemma requests_nodup w p : NoDup (fst (check_status w p)).
Proof.
  destruct w as [rg ip ud lk el cr ch bt rf uf jf]; unfold check_status, check_rewards;
  cbn [registered in_pool up_to_date locked eligible can_restore chaosnet beta];
  destruct (should_join _ p); destruct ip, ud, lk, el, cr; cbn;
  repeat constructor; cbn; intuition discriminate.
Qed.

Lemma query_error_no_later_request w p :
  (in_pool w = AErr \/ up_to_date w = AErr -> fst (check_status w p) = []) /\
  (locked w = AErr -> ~ In Join (fst (check_status w p)) /\ ~ In Update (fst (check_status w p))).
Proof. crush_world w p. Qed.

Lemma monitor_requests w p :
  fst (monitor_first w p) = match registered w with ATrue => fst (check_status w p) | _ => [] end.
Proof. unfold monitor_first; destruct (registered w); reflexivity. Qed.

Lemma conj_policy w ps : should_join w (PConj ps) = forallb (should_join w) ps.
Proof.
  induction ps as [|q t IH]; [reflexivity|].
  cbn [forallb]. rewrite <- IH. cbn. destruct (should_join w q); reflexivity.
Qed.

Lemma beta_policy w :
  should_join w PBeta = true <->
  chaosnet w = AFalse \/ (chaosnet w = ATrue /\ beta w = ATrue).
Proof.
  cbn. destruct (chaosnet w), (beta w); split; intros H; try discriminate; auto;
  repeat match goal with H : _ \/ _ |- _ => destruct H | H : _ /\ _ |- _ => destruct H end;
  try discriminate.
Qed.

Lemma ans_is_true a b : ans_is a b = true <-> a = (if b then ATrue else AFalse).
Proof. destruct a, b; cbn; split; intros; congruence. Qed.

Definition permitted_prop (w : world) (p : policy) (t : tx) : Prop :=
  match t with
  | Join => in_pool w = AFalse /\ up_to_date w = AFalse /\ locked w = AFalse /\ should_join w p = true
  | Update => in_pool w = ATrue /\ up_to_date w = AFalse /\ locked w = AFalse
  | Restore => can_restore w = ATrue
  end.

Lemma permitted_sound w p t : permitted w p t = true <-> permitted_prop w p t.
Proof.
  destruct t; cbn [permitted permitted_prop]; rewrite ?andb_true_iff, ?ans_is_true; tauto.
Qed.

Lemma spec_ok_sound w p txs :
  spec_ok w p txs = true <-> (forall t, In t txs -> permitted_prop w p t).
Proof.
  unfold spec_ok. rewrite forallb_forall. split; intros H t Ht; apply permitted_sound; auto.
Qed.

Lemma model_permitted w p t : In t (fst (monitor_first w p)) -> permitted_prop w p t.
Proof.
  rewrite monitor_requests. destruct (registered w); try (intros []).
  destruct t; intros H; cbn [permitted_prop].
  - apply (join_iff w p); exact H.
  - apply (update_iff w p); exact H.
  - apply (restore_iff w p) in H; tauto.
Qed.

Lemma model_passes_spec w p : spec_ok w p (fst (monitor_first w p)) = true.
Proof. apply spec_ok_sound. intros t. apply model_permitted. Qed.

(* histories: the check is stateless, so the statement for sequences is pointwise *)
Lemma history_permitted p (ws : list world) :
  Forall (fun w => forall t, In t (fst (monitor_first w p)) -> permitted_prop w p t) ws.
Proof. apply Forall_forall. intros w _ t. apply model_permitted. Qed.

(* non-vacuity: some world makes the client join, some makes it update and restore *)
Example join_happens :
  fst (monitor_first {| registered := ATrue; in_pool := AFalse; up_to_date := AFalse; locked := AFalse;
                        eligible := ATrue; can_restore := AFalse; chaosnet := AFalse; beta := AFalse;
                        restore_fails := false; update_fails := false; join_fails := false |} PBeta) = [Join].
Proof. reflexivity. Qed.
Example update_and_restore_happen :
  fst (monitor_first {| registered := ATrue; in_pool := ATrue; up_to_date := AFalse; locked := AFalse;
                        eligible := AFalse; can_restore := ATrue; chaosnet := AFalse; beta := AFalse;
                        restore_fails := true; update_fails := false; join_fails := false |} PUncond)
  = [Restore; Update].
Proof. reflexivity. Qed.
