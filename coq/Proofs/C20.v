(* C20 — proofs about the model of the connection handshake (Model/C20.v).  The statements
   restated in Props/C20.v are the theorems of this file after the Section is closed, so the
   assumptions on the challenge hash are visible premises there. *)
From Coq Require Import NArith List Bool Lia.
From KV Require Import Common.Verdict Model.C20.
Import ListNotations.

Section Proofs.
  Variable challenge : Type.
  Variable H : N -> N -> challenge.
  Variable ceqb : challenge -> challenge -> bool.
  Hypothesis ceqb_spec : forall x y, ceqb x y = true <-> x = y.

  Local Notation session := (session challenge H ceqb).

  Lemma ceqb_refl x : ceqb x x = true.
  Proof. apply ceqb_spec. reflexivity. Qed.

  Lemma ceqb_neq x y : x <> y -> ceqb x y = false.
  Proof.
    intro Hn. destruct (ceqb x y) eqn:E; [|reflexivity].
    apply ceqb_spec in E. contradiction.
  Qed.

  Lemma completed_iff p1 p2 n1 n2 t1 t2 t3 :
    session p1 p2 n1 n2 t1 t2 t3 = Completed <->
    exists m1 m2 m3,
      t1 {| a1_nonce := n1; a1_proto := p1 |} = Some m1 /\ a1_proto m1 = p2 /\
      t2 {| a2_nonce := n2; a2_chal := H (a1_nonce m1) n2; a2_proto := p2 |} = Some m2 /\
      a2_proto _ m2 = p1 /\ a2_chal _ m2 = H n1 (a2_nonce _ m2) /\
      t3 {| a3_chal := a2_chal _ m2 |} = Some m3 /\
      a3_chal _ m3 = H (a1_nonce m1) n2.
  Proof.
    unfold C20.session, answer, initiator_next, finalize, responder_next, msg1, msg2, msg3, initiate.
    cbn [i_nonce i_proto r_nonce r_chal r_proto].
    split.
    - destruct (t1 _) as [m1|] eqn:E1; [|intro Hc; discriminate Hc].
      destruct (N.eqb (a1_proto m1) p2) eqn:Ep; cbn [negb r_nonce r_chal r_proto]; [|intro Hc; discriminate Hc].
      destruct (t2 _) as [m2|] eqn:E2; [|intro Hc; discriminate Hc].
      destruct (N.eqb (a2_proto _ m2) p1) eqn:Ep2; cbn [negb r_nonce r_chal r_proto]; [|intro Hc; discriminate Hc].
      destruct (ceqb (H n1 (a2_nonce _ m2)) (a2_chal _ m2)) eqn:Ec; [|intro Hc; discriminate Hc].
      destruct (t3 _) as [m3|] eqn:E3; [|intro Hc; discriminate Hc].
      destruct (ceqb (H (a1_nonce m1) n2) (a3_chal _ m3)) eqn:Ec3; [|intro Hc; discriminate Hc].
      intros _. exists m1, m2, m3. cbn [r_nonce r_chal r_proto] in *.
      apply N.eqb_eq in Ep, Ep2. apply ceqb_spec in Ec, Ec3.
      repeat split; auto.
    - intros (m1 & m2 & m3 & A1 & B1 & A2 & B2 & C2 & A3 & C3).
      rewrite A1. rewrite B1, N.eqb_refl. cbn [negb r_nonce r_chal r_proto]. rewrite A2.
      rewrite B2, N.eqb_refl. cbn [negb]. rewrite <- C2, ceqb_refl. rewrite A3.
      cbn [r_chal]. rewrite C3, ceqb_refl. reflexivity.
  Qed.

  Lemma honest_completes_iff_same_protocol p1 p2 n1 n2 :
    session p1 p2 n1 n2 Some Some Some = Completed <-> p1 = p2.
  Proof.
    rewrite completed_iff. split.
    - intros (m1 & m2 & m3 & A1 & B1 & _). injection A1 as <-. exact B1.
    - intros <-. eexists _, _, _. repeat split; reflexivity.
  Qed.

  (* the honest run, act by act *)
  Lemma honest_run p1 p2 n1 n2 :
    session p1 p2 n1 n2 Some Some Some =
    if N.eqb p1 p2 then Completed else FailedAt 1 ErrProtocol.
  Proof.
    unfold C20.session, answer, initiator_next, finalize, responder_next, msg1, msg2, msg3, initiate.
    cbn [i_nonce i_proto r_nonce r_chal r_proto a1_nonce a1_proto a2_nonce a2_chal a2_proto a3_chal].
    destruct (N.eqb p1 p2) eqn:E; cbn [negb]; [|reflexivity].
    apply N.eqb_eq in E. subst p2. rewrite N.eqb_refl. cbn [negb]. rewrite !ceqb_refl. reflexivity.
  Qed.

  Hypothesis H_inj : forall a b c d, H a b = H c d -> a = c /\ b = d.

  Lemma any_single_alteration_fails p1 p2 n1 n2 t1 t2 t3 :
    let s1 := {| a1_nonce := n1; a1_proto := p1 |} in
    let s2 := {| a2_nonce := n2; a2_chal := H n1 n2; a2_proto := p2 |} in
    let s3 := {| a3_chal := H n1 n2 |} in
    (t1 s1 <> Some s1 /\ intact t2 /\ intact t3) \/
    (intact t1 /\ t2 s2 <> Some s2 /\ intact t3) \/
    (intact t1 /\ intact t2 /\ t3 s3 <> Some s3) ->
    session p1 p2 n1 n2 t1 t2 t3 <> Completed.
  Proof.
    intros s1 s2 s3 Hc Hs. apply completed_iff in Hs.
    destruct Hs as (m1 & m2 & m3 & A1 & B1 & A2 & B2 & C2 & A3 & C3).
    destruct Hc as [[Alt [I2 I3]]|[[I1 [Alt I3]]|[I1 [I2 Alt]]]].
    - rewrite I2 in A2. injection A2 as <-. rewrite I3 in A3. injection A3 as <-.
      cbn [a2_proto a2_chal a2_nonce a3_chal] in *.
      apply H_inj in C2. destruct C2 as [C2 _].
      apply Alt. subst s1. rewrite A1. f_equal. destruct m1 as [x y]. cbn in *. congruence.
    - rewrite I1 in A1. injection A1 as <-. cbn [a1_nonce a1_proto] in *.
      rewrite I3 in A3. injection A3 as <-. cbn [a3_chal] in C3.
      rewrite C2 in C3. apply H_inj in C3. destruct C3 as [_ C3].
      apply Alt. subst s2. rewrite A2. f_equal. destruct m2 as [x y z]. cbn in *. congruence.
    - rewrite I1 in A1. injection A1 as <-. cbn [a1_nonce a1_proto] in *.
      rewrite I2 in A2. injection A2 as <-. cbn [a2_proto a2_chal a2_nonce] in *.
      apply Alt. subst s3. rewrite A3. f_equal. destruct m3 as [x]. cbn in *. congruence.
  Qed.

  Lemma field_alterations_fail_at_their_act p n1 n2 :
    (forall n2', n2' <> n2 ->
       session p p n1 n2 Some
         (apply2 _ {| t2_drop := false; t2_nonce := Some n2'; t2_chal := None; t2_proto := None |})
         Some = FailedAt 2 ErrChallenge) /\
    (forall c', c' <> H n1 n2 ->
       session p p n1 n2 Some
         (apply2 _ {| t2_drop := false; t2_nonce := None; t2_chal := Some c'; t2_proto := None |})
         Some = FailedAt 2 ErrChallenge) /\
    (forall p', p' <> p ->
       session p p n1 n2 Some
         (apply2 _ {| t2_drop := false; t2_nonce := None; t2_chal := None; t2_proto := Some p' |})
         Some = FailedAt 2 ErrProtocol) /\
    (forall p', p' <> p ->
       session p p n1 n2
         (apply1 {| t1_drop := false; t1_nonce := None; t1_proto := Some p' |})
         Some Some = FailedAt 1 ErrProtocol) /\
    (forall n1', n1' <> n1 ->
       session p p n1 n2
         (apply1 {| t1_drop := false; t1_nonce := Some n1'; t1_proto := None |})
         Some Some = FailedAt 2 ErrChallenge) /\
    (forall c', c' <> H n1 n2 ->
       session p p n1 n2 Some Some
         (apply3 _ {| t3_drop := false; t3_chal := Some c' |}) = FailedAt 3 ErrChallenge).
  Proof.
    assert (G : forall x y, x <> y -> N.eqb x y = false) by (intros x y; apply N.eqb_neq).
    repeat split; intros x Hn;
      unfold C20.session, answer, initiator_next, finalize, responder_next, msg1, msg2, msg3,
        initiate, apply1, apply2, apply3, over; cbn; do 3 (rewrite ?N.eqb_refl; cbn).
    - rewrite ceqb_neq; [reflexivity|]. intro E. apply H_inj in E. destruct E as [_ E]. contradiction.
    - rewrite ceqb_neq; [reflexivity|]. intro E. apply Hn. symmetry. exact E.
    - rewrite (G x p Hn). reflexivity.
    - rewrite (G x p Hn). reflexivity.
    - rewrite ceqb_neq; [reflexivity|]. intro E. apply H_inj in E. destruct E as [E _].
      apply Hn. symmetry. exact E.
    - rewrite ceqb_refl. rewrite ceqb_neq; [reflexivity|]. intro E. apply Hn. symmetry. exact E.
  Qed.

  (* if act 3 arrives as sent and the handshake completes, both sides used the same two nonces
     and the responder's challenge reached the initiator unchanged *)
  Lemma completed_agreement p1 p2 n1 n2 t1 t2 t3 :
    intact t3 ->
    session p1 p2 n1 n2 t1 t2 t3 = Completed ->
    exists m1 m2,
      t1 {| a1_nonce := n1; a1_proto := p1 |} = Some m1 /\
      t2 {| a2_nonce := n2; a2_chal := H (a1_nonce m1) n2; a2_proto := p2 |} = Some m2 /\
      a1_nonce m1 = n1 /\ a2_nonce _ m2 = n2 /\ a2_chal _ m2 = H n1 n2 /\
      a1_proto m1 = p2 /\ a2_proto _ m2 = p1.
  Proof.
    intros I3 Hs. apply completed_iff in Hs.
    destruct Hs as (m1 & m2 & m3 & A1 & B1 & A2 & B2 & C2 & A3 & C3).
    rewrite I3 in A3. injection A3 as <-. cbn [a3_chal] in C3.
    pose proof C2 as C2'. rewrite C3 in C2'. apply H_inj in C2'. destruct C2' as [E1 E2].
    exists m1, m2. repeat split; auto. rewrite C2, <- E2. reflexivity.
  Qed.

  (* replay of an act recorded in another session B = (n1B, n2B, pB) *)
  Lemma replayed_act2_fails p1 p2 n1 n2 t1 t2 t3 n1B n2B pB :
    (forall m, t2 m = Some {| a2_nonce := n2B; a2_chal := H n1B n2B; a2_proto := pB |}) ->
    n1B <> n1 ->
    session p1 p2 n1 n2 t1 t2 t3 <> Completed.
  Proof.
    intros R Hn Hs. apply completed_iff in Hs.
    destruct Hs as (m1 & m2 & m3 & A1 & B1 & A2 & B2 & C2 & A3 & C3).
    rewrite R in A2. injection A2 as <-. cbn [a2_chal a2_nonce] in C2.
    apply H_inj in C2. destruct C2 as [E _]. contradiction.
  Qed.

  Lemma replayed_act3_needs_repeated_nonces p1 p2 n1 n2 t1 t2 t3 n1B n2B :
    (forall m, t3 m = Some {| a3_chal := H n1B n2B |}) ->
    session p1 p2 n1 n2 t1 t2 t3 = Completed ->
    n2 = n2B /\ exists m1, t1 {| a1_nonce := n1; a1_proto := p1 |} = Some m1 /\ a1_nonce m1 = n1B.
  Proof.
    intros R Hs. apply completed_iff in Hs.
    destruct Hs as (m1 & m2 & m3 & A1 & B1 & A2 & B2 & C2 & A3 & C3).
    rewrite R in A3. injection A3 as <-. cbn [a3_chal] in C3.
    apply H_inj in C3. destruct C3 as [E1 E2].
    split; [symmetry; exact E2|]. exists m1. split; [exact A1|symmetry; exact E1].
  Qed.

  Lemma replayed_act3_fails p1 p2 n1 n2 t1 t2 t3 n1B n2B :
    (forall m, t3 m = Some {| a3_chal := H n1B n2B |}) ->
    n2B <> n2 \/ (intact t1 /\ n1B <> n1) ->
    session p1 p2 n1 n2 t1 t2 t3 <> Completed.
  Proof.
    intros R Hc Hs.
    destruct (replayed_act3_needs_repeated_nonces _ _ _ _ _ _ _ _ _ R Hs) as [E [m1 [A1 E1]]].
    destruct Hc as [Hn|[I1 Hn]].
    - apply Hn. symmetry. exact E.
    - rewrite I1 in A1. injection A1 as <-. cbn [a1_nonce] in E1. apply Hn. symmetry. exact E1.
  Qed.
End Proofs.

(* ------------------------------------------------------------------ *)
(* the concrete instance used by the correspondence check              *)
(* ------------------------------------------------------------------ *)
Lemma cch_eqb_spec x y : cch_eqb x y = true <-> x = y.
Proof.
  destruct x as [a b|j], y as [c d|k]; cbn [cch_eqb]; split; intro E; try discriminate.
  - apply andb_true_iff in E. destruct E as [E1 E2]. apply N.eqb_eq in E1, E2. congruence.
  - injection E as -> ->. rewrite !N.eqb_refl. reflexivity.
  - apply N.eqb_eq in E. congruence.
  - injection E as ->. apply N.eqb_refl.
Qed.

Lemma CH_inj a b c d : CH a b = CH c d -> a = c /\ b = d.
Proof. intro E. injection E as -> ->. split; reflexivity. Qed.

Lemma stops_at_completed o : stops_at o 0 = true <-> o = Completed.
Proof.
  destruct o as [|k e]; cbn [stops_at]; split; intro E; try reflexivity; try discriminate.
  exfalso. destruct (N.eqb k 0) eqn:K; cbn [negb andb] in E; congruence.
Qed.

Lemma expected_stop_zero p1 p2 n1 n2 x1 x2 x3 :
  expected_stop cch CH cch_eqb p1 p2 n1 n2 x1 x2 x3 = 0%N <->
  exists m1 m2 m3,
    x1 = Some m1 /\ x2 = Some m2 /\ x3 = Some m3 /\
    a1_proto m1 = p2 /\ a2_proto _ m2 = p1 /\ a2_chal _ m2 = CH n1 (a2_nonce _ m2) /\
    a3_chal _ m3 = CH (a1_nonce m1) n2.
Proof.
  unfold expected_stop, act1_ok, act2_ok, act3_ok. split.
  - destruct x1 as [m1|]; cbn [negb]; [|discriminate].
    destruct (N.eqb (a1_proto m1) p2) eqn:E1; cbn [negb]; [|discriminate].
    destruct x2 as [m2|]; cbn [negb]; [|discriminate].
    destruct (N.eqb (a2_proto _ m2) p1) eqn:E2; cbn [negb andb]; [|discriminate].
    destruct (cch_eqb (CH n1 (a2_nonce _ m2)) (a2_chal _ m2)) eqn:E3; cbn [negb]; [|discriminate].
    destruct x3 as [m3|]; cbn [negb]; [|discriminate].
    destruct (cch_eqb (CH (a1_nonce m1) n2) (a3_chal _ m3)) eqn:E4; cbn [negb]; [|discriminate].
    intros _. exists m1, m2, m3.
    apply N.eqb_eq in E1, E2. apply cch_eqb_spec in E3, E4. repeat split; auto.
  - intros (m1 & m2 & m3 & -> & -> & -> & A & B & C & D).
    rewrite A, B, N.eqb_refl, N.eqb_refl. cbn [negb andb].
    rewrite <- C, <- D. rewrite !(proj2 (cch_eqb_spec _ _) eq_refl). reflexivity.
Qed.

Theorem spec_ok_sound : forall c,
  spec_ok c = true ->
  (c_out c = Completed <->
   exists m1 m2 m3,
     d1 c = Some m1 /\ d2 c = Some m2 /\ d3 c = Some m3 /\
     a1_proto m1 = c_p2 c /\ a2_proto _ m2 = c_p1 c /\
     a2_chal _ m2 = CH (c_n1 c) (a2_nonce _ m2) /\
     a3_chal _ m3 = CH (a1_nonce m1) (c_n2 c)).
Proof.
  intros c Hs. unfold spec_ok in Hs.
  apply andb_true_iff in Hs. destruct Hs as [Hs _].
  apply andb_true_iff in Hs. destruct Hs as [Hs _].
  apply andb_true_iff in Hs. destruct Hs as [Hs _].
  rewrite <- expected_stop_zero. rewrite <- stops_at_completed.
  destruct (c_out c) as [|k e]; cbn [stops_at] in *.
  - apply N.eqb_eq in Hs. rewrite Hs. split; intro; reflexivity.
  - apply andb_true_iff in Hs. destruct Hs as [K Hs]. apply N.eqb_eq in Hs. rewrite <- Hs.
    split; intro E.
    + exfalso. destruct (N.eqb k 0); cbn [negb andb] in E; discriminate.
    + exfalso. rewrite E in K. discriminate.
Qed.

(* every case the model produces is judged Agree: the executable property holds of the model's
   own output, for all inputs *)
Ltac mc_proj := intro; unfold model_case; destruct (model_sent _) as [[? ?] ?]; reflexivity.
Lemma mc_p1 : forall c, c_p1 (model_case c) = c_p1 c. Proof. mc_proj. Qed.
Lemma mc_p2 : forall c, c_p2 (model_case c) = c_p2 c. Proof. mc_proj. Qed.
Lemma mc_n1 : forall c, c_n1 (model_case c) = c_n1 c. Proof. mc_proj. Qed.
Lemma mc_n2 : forall c, c_n2 (model_case c) = c_n2 c. Proof. mc_proj. Qed.
Lemma mc_t1 : forall c, c_t1 (model_case c) = c_t1 c. Proof. mc_proj. Qed.
Lemma mc_t2 : forall c, c_t2 (model_case c) = c_t2 c. Proof. mc_proj. Qed.
Lemma mc_t3 : forall c, c_t3 (model_case c) = c_t3 c. Proof. mc_proj. Qed.
Lemma mc_s1 : forall c, c_s1 (model_case c) = fst (fst (model_sent c)). Proof. mc_proj. Qed.
Lemma mc_s2 : forall c, c_s2 (model_case c) = snd (fst (model_sent c)). Proof. mc_proj. Qed.
Lemma mc_s3 : forall c, c_s3 (model_case c) = snd (model_sent c). Proof. mc_proj. Qed.
Lemma mc_out : forall c, c_out (model_case c) = model_out c. Proof. mc_proj. Qed.

Lemma mc_sent c : model_sent (model_case c) = model_sent c.
Proof. unfold model_sent. rewrite mc_p1, mc_p2, mc_n1, mc_n2, mc_t1, mc_t2. reflexivity. Qed.
Lemma mc_model_out c : model_out (model_case c) = model_out c.
Proof. unfold model_out. rewrite mc_p1, mc_p2, mc_n1, mc_n2, mc_t1, mc_t2, mc_t3. reflexivity. Qed.

Lemma cch_eqb_refl x : cch_eqb x x = true.
Proof. apply cch_eqb_spec. reflexivity. Qed.
Lemma act1_eqb_refl a : act1_eqb a a = true.
Proof. unfold act1_eqb. rewrite !N.eqb_refl. reflexivity. Qed.
Lemma act2_eqb_refl a : act2_eqb a a = true.
Proof. unfold act2_eqb. rewrite !N.eqb_refl, cch_eqb_refl. reflexivity. Qed.
Lemma act3_eqb_refl a : act3_eqb a a = true.
Proof. unfold act3_eqb. apply cch_eqb_refl. Qed.
Lemma err_eqb_refl e : err_eqb e e = true.
Proof. destruct e; reflexivity. Qed.
Lemma outcome_eqb_refl o : outcome_eqb o o = true.
Proof. destruct o as [|k e]; cbn [outcome_eqb]; [reflexivity|]. rewrite N.eqb_refl, err_eqb_refl. reflexivity. Qed.

Lemma mc_agree c : agree (model_case c) = true.
Proof.
  unfold agree. rewrite mc_sent, mc_s1, mc_s2, mc_s3, mc_out, mc_model_out.
  destruct (model_sent c) as [[a b] d]. cbn [fst snd].
  rewrite act1_eqb_refl, outcome_eqb_refl.
  destruct b as [b|], d as [d|]; cbn [opt_eqb]; rewrite ?act2_eqb_refl, ?act3_eqb_refl; reflexivity.
Qed.

Lemma answer_cases m p n2 :
  (N.eqb (a1_proto m) p = true /\
   answer cch CH m p n2 = Ok {| r_nonce := n2; r_chal := CH (a1_nonce m) n2; r_proto := p |}) \/
  (N.eqb (a1_proto m) p = false /\ answer cch CH m p n2 = Fail ErrProtocol).
Proof. unfold answer. destruct (N.eqb (a1_proto m) p); [left|right]; split; reflexivity. Qed.

Lemma inx_cases i m :
  (N.eqb (a2_proto _ m) (i_proto i) = false /\
   initiator_next cch CH cch_eqb i m = Fail ErrProtocol) \/
  (N.eqb (a2_proto _ m) (i_proto i) = true /\
   cch_eqb (CH (i_nonce i) (a2_nonce _ m)) (a2_chal _ m) = true /\
   initiator_next cch CH cch_eqb i m = Ok (a2_chal _ m)) \/
  (N.eqb (a2_proto _ m) (i_proto i) = true /\
   cch_eqb (CH (i_nonce i) (a2_nonce _ m)) (a2_chal _ m) = false /\
   initiator_next cch CH cch_eqb i m = Fail ErrChallenge).
Proof.
  unfold initiator_next. destruct (N.eqb (a2_proto _ m) (i_proto i)); cbn [negb].
  - destruct (cch_eqb _ _); [right; left|right; right]; repeat split; reflexivity.
  - left. split; reflexivity.
Qed.

Ltac rw_all := repeat (match goal with Heq : _ = _ |- _ => rewrite Heq end; cbn [fst snd obind]).
Ltac leaf := cbn [fst snd obind]; rw_all; unfold expected_stop, act1_ok, act2_ok, act3_ok; rw_all;
             reflexivity.

Lemma mc_spec c : spec_ok (model_case c) = true.
Proof.
  unfold spec_ok, d1, d2, d3.
  rewrite mc_p1, mc_p2, mc_n1, mc_n2, mc_t1, mc_t2, mc_t3, mc_s1, mc_s2, mc_s3, mc_out.
  destruct c as [p1 p2 n1 n2 T1 T2 T3 x1 x2 x3 xo].
  unfold model_sent, model_out, session.
  cbn [c_p1 c_p2 c_n1 c_n2 c_t1 c_t2 c_t3].
  set (i := initiate n1 p1).
  assert (Hn1 : N.eqb (a1_nonce (msg1 i)) n1 = true) by (cbn; apply N.eqb_refl).
  destruct (apply1 T1 (msg1 i)) as [m1|] eqn:A1; [|leaf].
  destruct (answer_cases m1 p2 n2) as [[Ep Ea]|[Ep Ea]]; [|leaf].
  rewrite Ea.
  set (r := {| r_nonce := n2; r_chal := CH (a1_nonce m1) n2; r_proto := p2 |}).
  assert (Hs2 : N.eqb (a2_nonce _ (msg2 cch r)) n2 && cch_eqb (a2_chal _ (msg2 cch r)) (CH (a1_nonce m1) n2) = true).
  { cbn. rewrite !N.eqb_refl. reflexivity. }
  clear Ea.
  destruct (apply2 cch T2 (msg2 cch r)) as [m2|] eqn:A2; [|leaf].
  destruct (inx_cases i m2) as [[Eq Ei]|[[Eq [Ec Ei]]|[Eq [Ec Ei]]]];
    cbn [i_proto i_nonce i initiate] in Eq; [leaf| |cbn [i_proto i_nonce i initiate] in Ec; leaf].
  cbn [i_proto i_nonce i initiate] in Ec. rewrite Ei. clear Ei.
  assert (Hs3 : cch_eqb (a3_chal _ (msg3 cch (a2_chal _ m2))) (CH n1 (a2_nonce _ m2)) = true).
  { cbn. apply cch_eqb_spec. apply cch_eqb_spec in Ec. symmetry. exact Ec. }
  destruct (apply3 cch T3 (msg3 cch (a2_chal _ m2))) as [m3|] eqn:A3; [|leaf].
  unfold finalize, responder_next. cbn [r_chal r].
  destruct (cch_eqb (CH (a1_nonce m1) n2) (a3_chal _ m3)) eqn:E3; leaf.
Qed.

Theorem model_passes_spec : forall c, judge (model_case c) = Agree.
Proof. intro c. unfold judge. rewrite mc_spec, mc_agree. reflexivity. Qed.

(* the hypotheses of the theorems are satisfiable: the concrete challenge type, and an honest
   session that completes next to a replayed act 3 that does not *)
Example instance_ok :
  (forall x y, cch_eqb x y = true <-> x = y) /\
  (forall a b c d, CH a b = CH c d -> a = c /\ b = d) /\
  session cch CH cch_eqb 1 1 7 9 Some Some Some = Completed /\
  session cch CH cch_eqb 1 1 7 9 Some Some (fun _ => Some {| a3_chal := CH 8 9 |})
  = FailedAt 3 ErrChallenge.
Proof.
  split; [exact cch_eqb_spec|]. split; [exact CH_inj|]. split; reflexivity.
Qed.
