(* C24 — proofs about the model of executeFollowerRoutine (Model/C24.v).  The statements
   restated in Props/C24.v are the theorems of this file. *)
From Coq Require Import ZArith NArith List Bool Lia Permutation.
From Coq Require Import ZifyBool ZifyNat ZifyN.
From KV Require Import Common.Verdict Gen.Consts_C24 Model.C24.
Import ListNotations.
Open Scope Z_scope.

(* ------------------------------------------------------------------ *)
(* small facts                                                         *)
(* ------------------------------------------------------------------ *)

Lemma memN_In (x : N) (l : list N) : memN x l = true <-> In x l.
Proof.
  unfold memN. rewrite existsb_exists. split.
  - intros [y [Hy E]]. apply N.eqb_eq in E. subst; exact Hy.
  - intro H. exists x. split; [exact H|apply N.eqb_refl].
Qed.

Lemma memZ_In (x : Z) (l : list Z) : memZ x l = true <-> In x l.
Proof.
  unfold memZ. rewrite existsb_exists. split.
  - intros [y [Hy E]]. apply Z.eqb_eq in E. subst; exact Hy.
  - intro H. exists x. split; [exact H|apply Z.eqb_refl].
Qed.

Lemma active_app_msgs (pre : list msg) (rest : list event) :
  active (map Msg pre ++ rest) = pre ++ active rest.
Proof. induction pre as [|a t IH]; cbn [map app active]; [reflexivity|rewrite IH; reflexivity]. Qed.

Lemma in_prefix_active (pre : list msg) (rest : list event) (m : msg) :
  In m pre -> In m (active (map Msg pre ++ rest)).
Proof. intro H. rewrite active_app_msgs. apply in_or_app. left; exact H. Qed.

Lemma in_active_in (h : list event) (m : msg) : In m (active h) -> In (Msg m) h.
Proof.
  induction h as [|e t IH]; cbn [active]; [intros []|].
  destruct e as [x|]; [|intros []]. intros [<-|H]; [left; reflexivity|right; apply IH, H].
Qed.

(* the fault-type constants are pairwise distinct (re-checked against the regenerated file) *)
Lemma fault_constants_distinct :
  FaultLeaderIdleness <> FaultLeaderMistake /\ FaultLeaderIdleness <> FaultLeaderImpersonation /\
  FaultLeaderMistake <> FaultLeaderImpersonation.
Proof.
  unfold FaultLeaderIdleness, FaultLeaderMistake, FaultLeaderImpersonation.
  repeat split; discriminate.
Qed.

(* ------------------------------------------------------------------ *)
(* the leader's identifier is the lowest member index of the leader    *)
(* ------------------------------------------------------------------ *)

Lemma members_from_hd (o : N) (seats : list N) : forall (i x : N),
  hd_error (members_from o seats i) = Some x ->
  exists k : nat,
    x = N.modulo (i + N.of_nat k) 256 /\ nth_error seats k = Some o /\
    (forall j : nat, (j < k)%nat -> nth_error seats j <> Some o).
Proof.
  induction seats as [|s t IH]; intros i x H; cbn [members_from] in H.
  - discriminate.
  - destruct (N.eqb_spec s o) as [E|NE].
    + cbn [app hd_error] in H. inversion H; subst. exists 0%nat.
      rewrite N.add_0_r. split; [reflexivity|]. split; [reflexivity|]. intros j Hj; lia.
    + cbn [app] in H. destruct (IH (i + 1)%N x H) as [k [Hx [Hn Hmin]]].
      exists (S k). split; [rewrite Hx; f_equal; lia|]. split; [exact Hn|].
      intros [|j] Hj; cbn [nth_error].
      * intro E. inversion E. contradiction.
      * apply Hmin. lia.
Qed.

Lemma members_from_nil (o : N) (seats : list N) : forall i,
  hd_error (members_from o seats i) = None <-> ~ In o seats.
Proof.
  induction seats as [|s t IH]; intro i; cbn [members_from].
  - cbn [hd_error In]. tauto.
  - destruct (N.eqb_spec s o) as [E|NE]; cbn [app hd_error In].
    + split; [discriminate|]. intro H. exfalso. apply H. left; exact E.
    + rewrite IH. tauto.
Qed.

(* [lid] is the lowest member index (1-based seat number) backed by the leader *)
Definition lowest_seat (c : cfg) (lid : N) : Prop :=
  (1 <= lid)%N /\
  nth_error (f_seats c) (N.to_nat lid - 1) = Some (f_leader c) /\
  forall j : nat, (j < N.to_nat lid - 1)%nat -> nth_error (f_seats c) j <> Some (f_leader c).

Theorem leader_id_lowest_seat :
  forall c lid, (length (f_seats c) <= 255)%nat ->
    leader_id c = Some lid -> lowest_seat c lid /\ (lid <= 255)%N.
Proof.
  intros c lid Hlen H. unfold leader_id, members_by_operator in H.
  destruct (members_from_hd _ _ _ _ H) as [k [Hx [Hn Hmin]]].
  assert (Hk : (k < length (f_seats c))%nat) by (apply nth_error_Some; rewrite Hn; discriminate).
  assert (Hlid : lid = (1 + N.of_nat k)%N).
  { rewrite Hx. apply N.mod_small. lia. }
  clear Hx H. subst lid. unfold lowest_seat.
  replace (N.to_nat (1 + N.of_nat k) - 1)%nat with k by lia.
  repeat split; try lia; try assumption.
Qed.

Theorem leader_id_none :
  forall c, leader_id c = None <-> ~ In (f_leader c) (f_seats c).
Proof. intro c. unfold leader_id, members_by_operator. apply members_from_nil. Qed.

(* a valid membership under the leader's identifier authenticates the leader *)
Lemma valid_membership_lid (c : cfg) (lid op : N) :
  (length (f_seats c) <= 255)%nat -> leader_id c = Some lid ->
  valid_membership (f_seats c) lid op = true -> op = f_leader c.
Proof.
  intros Hlen Hl Hv. destruct (leader_id_lowest_seat c lid Hlen Hl) as [[H1 [Hn _]] H255].
  unfold valid_membership in Hv.
  replace (N.to_nat (N.modulo (lid + 255) 256)) with (N.to_nat lid - 1)%nat in Hv.
  - rewrite Hn in Hv. apply N.eqb_eq in Hv. symmetry; exact Hv.
  - assert (E : ((lid + 255) mod 256 = lid - 1)%N).
    { replace (lid + 255)%N with ((lid - 1) + 1 * 256)%N by lia.
      rewrite N.mod_add by lia. apply N.mod_small. lia. }
    rewrite E. lia.
Qed.

(* ------------------------------------------------------------------ *)
(* one iteration                                                       *)
(* ------------------------------------------------------------------ *)

Definition accepts (c : cfg) (lid : N) (m : msg) : bool :=
  acceptable c lid m && negb (from_self c m).

Lemma classify_spec (c : cfg) (lid : N) (m : msg) :
  classify c lid m =
    if accepts c lid m then Accept
    else match fault_of c lid m with
         | f :: _ => AddFault f
         | [] => Ignore
         end.
Proof.
  unfold classify, accepts, acceptable, fault_of, impersonates, mistaken, on_topic, authentic, from_self.
  destruct (m_coord m); destruct (memN (m_sender m) (f_self c));
    destruct (valid_membership (f_seats c) (m_sender m) (m_op m));
    destruct (f_block c =? m_block m); destruct (N.eqb (f_wallet c) (m_wallet m));
    destruct (N.eqb lid (m_sender m)); destruct (memZ (m_action m) (f_allowed c)); reflexivity.
Qed.

Lemma fault_of_accepts (c : cfg) (lid : N) (m : msg) : accepts c lid m = true -> fault_of c lid m = [].
Proof.
  unfold accepts, acceptable, fault_of, impersonates, mistaken.
  destruct (on_topic c m); destruct (from_self c m); destruct (N.eqb lid (m_sender m));
    destruct (memZ (m_action m) (f_allowed c)); cbn; try discriminate; reflexivity.
Qed.

Lemma fault_of_length (c : cfg) (lid : N) (m : msg) : (length (fault_of c lid m) <= 1)%nat.
Proof.
  unfold fault_of. destruct (impersonates c lid m); [cbn; lia|].
  destruct (mistaken c lid m); cbn; lia.
Qed.

(* ------------------------------------------------------------------ *)
(* the loop                                                            *)
(* ------------------------------------------------------------------ *)

Definition add_faults (acc : list fault) (r : fres) : fres :=
  match r with
  | Accepted p fs => Accepted p (acc ++ fs)
  | TimedOut fs => TimedOut (acc ++ fs)
  | Blocked fs => Blocked (acc ++ fs)
  | FPanic => FPanic
  end.

Lemma follow_acc (c : cfg) (lid : N) (h : list event) : forall acc,
  follow c lid h acc = add_faults acc (follow c lid h []).
Proof.
  induction h as [|e t IH]; intro acc; cbn [follow].
  - cbn [add_faults]. rewrite app_nil_r. reflexivity.
  - destruct e as [m|].
    + destruct (classify c lid m) as [|f|].
      * apply IH.
      * rewrite (IH (acc ++ [f])), (IH ([] ++ [f])). cbn [app].
        destruct (follow c lid t []); cbn [add_faults]; try rewrite <- app_assoc; reflexivity.
      * cbn [add_faults]. rewrite app_nil_r. reflexivity.
    + cbn [add_faults app]. reflexivity.
Qed.

Definition idle_fault (c : cfg) : fault := {| culprit := f_leader c; ftype := FaultLeaderIdleness |}.
Definition faults_of_prefix (c : cfg) (lid : N) (pre : list msg) : list fault :=
  flat_map (fault_of c lid) pre.

Lemma follow_step_nonaccepting (c : cfg) (lid : N) (m : msg) (t : list event) :
  accepts c lid m = false ->
  follow c lid (Msg m :: t) [] = add_faults (fault_of c lid m) (follow c lid t []).
Proof.
  intro Hna. cbn [follow]. rewrite classify_spec, Hna.
  pose proof (fault_of_length c lid m) as Hl.
  destruct (fault_of c lid m) as [|f [|g r]] eqn:E.
  - destruct (follow c lid t []); reflexivity.
  - cbn [app]. apply follow_acc.
  - cbn [length] in Hl. lia.
Qed.

(* forward: a prefix without acceptable message, then ... *)
Lemma follow_prefix (c : cfg) (lid : N) (pre : list msg) (rest : list event) :
  (forall x, In x pre -> accepts c lid x = false) ->
  follow c lid (map Msg pre ++ rest) [] =
    add_faults (faults_of_prefix c lid pre) (follow c lid rest []).
Proof.
  induction pre as [|m t IH]; intro Hna; cbn [map app].
  - unfold faults_of_prefix. cbn [flat_map]. destruct (follow c lid rest []); reflexivity.
  - rewrite follow_step_nonaccepting by (apply Hna; left; reflexivity).
    rewrite IH by (intros x Hx; apply Hna; right; exact Hx).
    unfold faults_of_prefix. cbn [flat_map].
    destruct (follow c lid rest []); cbn [add_faults]; try rewrite app_assoc; reflexivity.
Qed.

Theorem follow_accepts (c : cfg) (lid : N) (pre : list msg) (m : msg) (post : list event) :
  (forall x, In x pre -> accepts c lid x = false) -> accepts c lid m = true ->
  follow c lid (map Msg pre ++ Msg m :: post) [] = Accepted (m_pid m) (faults_of_prefix c lid pre).
Proof.
  intros Hna Ha. rewrite follow_prefix by exact Hna.
  cbn [follow]. rewrite classify_spec, Ha. cbn [add_faults]. rewrite app_nil_r. reflexivity.
Qed.

Theorem follow_times_out (c : cfg) (lid : N) (pre : list msg) (post : list event) :
  (forall x, In x pre -> accepts c lid x = false) ->
  follow c lid (map Msg pre ++ Timeout :: post) [] =
    TimedOut (faults_of_prefix c lid pre ++ [idle_fault c]).
Proof. intro Hna. rewrite follow_prefix by exact Hna. reflexivity. Qed.

Theorem follow_blocks (c : cfg) (lid : N) (pre : list msg) :
  (forall x, In x pre -> accepts c lid x = false) ->
  follow c lid (map Msg pre) [] = Blocked (faults_of_prefix c lid pre).
Proof.
  intro Hna. rewrite <- (app_nil_r (map Msg pre)). rewrite follow_prefix by exact Hna.
  cbn [follow add_faults]. rewrite app_nil_r. reflexivity.
Qed.

(* every history decomposes in exactly one of the three ways *)
Inductive shape (c : cfg) (lid : N) (h : list event) : Type :=
| ShAccept (pre : list msg) (m : msg) (post : list event) :
    h = map Msg pre ++ Msg m :: post ->
    (forall x, In x pre -> accepts c lid x = false) -> accepts c lid m = true -> shape c lid h
| ShTimeout (pre : list msg) (post : list event) :
    h = map Msg pre ++ Timeout :: post ->
    (forall x, In x pre -> accepts c lid x = false) -> shape c lid h
| ShBlocked (pre : list msg) :
    h = map Msg pre -> (forall x, In x pre -> accepts c lid x = false) -> shape c lid h.

Lemma history_shape (c : cfg) (lid : N) (h : list event) : shape c lid h.
Proof.
  induction h as [|e t IH].
  - apply (ShBlocked c lid [] []); [reflexivity|intros x []].
  - destruct e as [m|].
    + destruct (accepts c lid m) eqn:Ea.
      * apply (ShAccept c lid _ [] m t); [reflexivity|intros x []|exact Ea].
      * destruct IH as [pre m' post E Hna Ha|pre post E Hna|pre E Hna].
        -- apply (ShAccept c lid _ (m :: pre) m' post); [cbn [map app]; rewrite E; reflexivity| |exact Ha].
           intros x [<-|Hx]; [exact Ea|apply Hna, Hx].
        -- apply (ShTimeout c lid _ (m :: pre) post); [cbn [map app]; rewrite E; reflexivity|].
           intros x [<-|Hx]; [exact Ea|apply Hna, Hx].
        -- apply (ShBlocked c lid _ (m :: pre)); [cbn [map]; rewrite E; reflexivity|].
           intros x [<-|Hx]; [exact Ea|apply Hna, Hx].
    + apply (ShTimeout c lid _ [] t); [reflexivity|intros x []].
Qed.

(* ------------------------------------------------------------------ *)
(* what "accepts" means                                                *)
(* ------------------------------------------------------------------ *)

Theorem accepts_sound :
  forall c lid m, (length (f_seats c) <= 255)%nat -> leader_id c = Some lid ->
    accepts c lid m = true ->
    m_coord m = true /\ m_sender m = lid /\ lowest_seat c lid /\
    m_op m = f_leader c /\
    nth_error (f_seats c) (N.to_nat lid - 1) = Some (m_op m) /\
    m_block m = f_block c /\ m_wallet m = f_wallet c /\ In (m_action m) (f_allowed c) /\
    ~ In (m_sender m) (f_self c).
Proof.
  intros c lid m Hlen Hl Ha. unfold accepts, acceptable, on_topic, authentic, from_self in Ha.
  repeat rewrite andb_true_iff in Ha.
  destruct Ha as [[[[[[Hc Hv] Hb] Hw] Hs] Hact] Hself].
  apply N.eqb_eq in Hs. subst lid. apply Z.eqb_eq in Hb. apply N.eqb_eq in Hw.
  apply memZ_In in Hact.
  pose proof (valid_membership_lid c _ _ Hlen Hl Hv) as Hop.
  destruct (leader_id_lowest_seat c _ Hlen Hl) as [Hlow _].
  split; [exact Hc|]. split; [reflexivity|]. split; [exact Hlow|]. split; [exact Hop|].
  split; [destruct Hlow as [_ [Hn _]]; rewrite Hop; exact Hn|].
  split; [symmetry; exact Hb|]. split; [symmetry; exact Hw|]. split; [exact Hact|].
  intro Hin. apply memN_In in Hin. unfold from_self in Hself. rewrite Hin in Hself. discriminate.
Qed.

(* ------------------------------------------------------------------ *)
(* the theorems of the property                                        *)
(* ------------------------------------------------------------------ *)

Theorem accepted_only_leaders_valid_proposal :
  forall c h pid fs, (length (f_seats c) <= 255)%nat ->
    follower c h = Accepted pid fs ->
    exists lid pre m post,
      leader_id c = Some lid /\
      h = map Msg pre ++ Msg m :: post /\          (* received before the active phase ended *)
      (forall x, In x pre -> accepts c lid x = false) /\
      m_pid m = pid /\
      m_coord m = true /\ m_sender m = lid /\ lowest_seat c lid /\
      m_op m = f_leader c /\
      nth_error (f_seats c) (N.to_nat lid - 1) = Some (m_op m) /\
      m_block m = f_block c /\ m_wallet m = f_wallet c /\ In (m_action m) (f_allowed c) /\
      fs = faults_of_prefix c lid pre.
Proof.
  intros c h pid fs Hlen H. unfold follower in H.
  destruct (leader_id c) as [lid|] eqn:Hl; [|discriminate].
  destruct (history_shape c lid h) as [pre m post E Hna Ha|pre post E Hna|pre E Hna].
  - rewrite E, (follow_accepts c lid pre m post Hna Ha) in H. inversion H; subst pid fs.
    destruct (accepts_sound c lid m Hlen Hl Ha) as [A1 [A2 [A3 [A4 [A5 [A6 [A7 [A8 _]]]]]]]].
    exists lid, pre, m, post.
    split; [reflexivity|]. split; [exact E|]. split; [exact Hna|]. split; [reflexivity|].
    split; [exact A1|]. split; [exact A2|]. split; [exact A3|]. split; [exact A4|]. split; [exact A5|].
    split; [exact A6|]. split; [exact A7|]. split; [exact A8|]. reflexivity.
  - rewrite E, (follow_times_out c lid pre post Hna) in H. discriminate.
  - rewrite E, (follow_blocks c lid pre Hna) in H. discriminate.
Qed.

Definition faults_of_result (r : fres) : list fault :=
  match r with
  | Accepted _ fs | TimedOut fs | Blocked fs => fs
  | FPanic => []
  end.

(* the processed messages of a result: the part of the history the loop looked at *)
Lemma result_faults (c : cfg) (lid : N) (h : list event) :
  exists pre rest, h = map Msg pre ++ rest /\
    (forall x, In x pre -> accepts c lid x = false) /\
    (faults_of_result (follow c lid h []) = faults_of_prefix c lid pre \/
     faults_of_result (follow c lid h []) = faults_of_prefix c lid pre ++ [idle_fault c]).
Proof.
  destruct (history_shape c lid h) as [pre m post E Hna Ha|pre post E Hna|pre E Hna].
  - exists pre, (Msg m :: post). split; [exact E|]. split; [exact Hna|]. left.
    rewrite E, (follow_accepts c lid pre m post Hna Ha). reflexivity.
  - exists pre, (Timeout :: post). split; [exact E|]. split; [exact Hna|]. right.
    rewrite E, (follow_times_out c lid pre post Hna). reflexivity.
  - exists pre, []. split; [rewrite app_nil_r; exact E|]. split; [exact Hna|]. left.
    rewrite E, (follow_blocks c lid pre Hna). reflexivity.
Qed.

Lemma in_faults_of_prefix (c : cfg) (lid : N) (pre : list msg) (f : fault) :
  In f (faults_of_prefix c lid pre) -> exists m, In m pre /\ In f (fault_of c lid m).
Proof. unfold faults_of_prefix. rewrite in_flat_map. intros [m [A B]]. exists m. tauto. Qed.

Theorem impersonation_fault_names_actual_sender :
  forall c h f,
    In f (faults_of_result (follower c h)) -> ftype f = FaultLeaderImpersonation ->
    exists lid m,
      leader_id c = Some lid /\ In m (active h) /\    (* a message of the active phase *)
      culprit f = m_op m /\                         (* blamed: the authenticated sender *)
      valid_membership (f_seats c) (m_sender m) (m_op m) = true /\
      nth_error (f_seats c) (N.to_nat (N.modulo (m_sender m + 255) 256)) = Some (m_op m) /\
      m_sender m <> lid /\                          (* who did not use the leader's index *)
      m_coord m = true /\ m_block m = f_block c /\ m_wallet m = f_wallet c.
Proof.
  intros c h f Hin Hty. unfold follower in Hin.
  destruct (leader_id c) as [lid|] eqn:Hl; [|cbn in Hin; contradiction].
  destruct (result_faults c lid h) as [pre [rest [E [_ Hf]]]].
  destruct fault_constants_distinct as [D1 [D2 D3]].
  assert (Hpre : In f (faults_of_prefix c lid pre)).
  { destruct Hf as [Hf|Hf]; rewrite Hf in Hin; [exact Hin|].
    apply in_app_or in Hin. destruct Hin as [Hin|[<-|[]]]; [exact Hin|].
    cbn [idle_fault ftype] in Hty. congruence. }
  destruct (in_faults_of_prefix c lid pre f Hpre) as [m [Hm Hfm]].
  exists lid, m. split; [reflexivity|]. split.
  { rewrite E. apply in_prefix_active. exact Hm. }
  unfold fault_of in Hfm.
  destruct (impersonates c lid m) eqn:Hi.
  - destruct Hfm as [<-|[]]. cbn [culprit].
    unfold impersonates, on_topic, authentic in Hi.
    repeat rewrite andb_true_iff in Hi. destruct Hi as [[[[[Hc Hv] Hb] Hw] _] Hs].
    split; [reflexivity|]. split; [exact Hv|]. unfold valid_membership in Hv.
    apply Z.eqb_eq in Hb. apply N.eqb_eq in Hw.
    destruct (nth_error (f_seats c) (N.to_nat ((m_sender m + 255) mod 256))) as [o|] eqn:En; [|discriminate].
    apply N.eqb_eq in Hv. subst o.
    repeat split; try assumption; try (symmetry; assumption).
    intro Es. rewrite Es, N.eqb_refl in Hs. discriminate.
  - destruct (mistaken c lid m); [|contradiction].
    destruct Hfm as [<-|[]]. cbn [ftype] in Hty. congruence.
Qed.

Lemma follow_not_panic (c : cfg) (lid : N) (r : list event) : forall a, follow c lid r a <> FPanic.
Proof.
  induction r as [|e t IH]; intro a; cbn [follow]; [discriminate|].
  destruct e as [m|]; [|discriminate]. destruct (classify c lid m); [apply IH|apply IH|discriminate].
Qed.

(* conversely every impersonating message seen before the routine returned is blamed *)
Theorem impersonators_are_recorded :
  forall c lid pre rest m,
    leader_id c = Some lid ->
    (forall x, In x pre -> accepts c lid x = false) ->
    In m pre -> impersonates c lid m = true ->
    In {| culprit := m_op m; ftype := FaultLeaderImpersonation |}
       (faults_of_result (follower c (map Msg pre ++ rest))).
Proof.
  intros c lid pre rest m Hl Hna Hm Hi. unfold follower. rewrite Hl.
  rewrite (follow_prefix c lid pre rest Hna).
  assert (Hin : In {| culprit := m_op m; ftype := FaultLeaderImpersonation |} (faults_of_prefix c lid pre)).
  { unfold faults_of_prefix. apply in_flat_map. exists m. split; [exact Hm|].
    unfold fault_of. rewrite Hi. left; reflexivity. }
  destruct (follow c lid rest []) eqn:Ef; cbn [add_faults faults_of_result];
    try (apply in_or_app; left; exact Hin).
  exfalso. exact (follow_not_panic c lid rest [] Ef).
Qed.

Theorem silent_leader_recorded_idle :
  forall c lid pre post,
    leader_id c = Some lid ->
    (forall x, In x pre -> accepts c lid x = false) ->
    follower c (map Msg pre ++ Timeout :: post) =
      TimedOut (faults_of_prefix c lid pre ++ [idle_fault c]).
Proof. intros c lid pre post Hl Hna. unfold follower. rewrite Hl. apply follow_times_out. exact Hna. Qed.

(* nothing is returned without an error and the idleness record, and only then *)
Theorem timed_out_iff_nothing_valid :
  forall c h fs,
    follower c h = TimedOut fs ->
    exists lid pre post,
      leader_id c = Some lid /\ h = map Msg pre ++ Timeout :: post /\
      (forall x, In x pre -> accepts c lid x = false) /\
      fs = faults_of_prefix c lid pre ++ [idle_fault c].
Proof.
  intros c h fs H. unfold follower in H.
  destruct (leader_id c) as [lid|] eqn:Hl; [|discriminate].
  destruct (history_shape c lid h) as [pre m post E Hna Ha|pre post E Hna|pre E Hna].
  - rewrite E, (follow_accepts c lid pre m post Hna Ha) in H. discriminate.
  - rewrite E, (follow_times_out c lid pre post Hna) in H. inversion H.
    exists lid, pre, post. repeat split; assumption.
  - rewrite E, (follow_blocks c lid pre Hna) in H. discriminate.
Qed.

(* whatever arrives after the routine returned does not matter *)
Theorem later_events_ignored :
  forall c pre post post',
    (follower c (map Msg pre ++ Timeout :: post) = follower c (map Msg pre ++ Timeout :: post')).
Proof.
  intros c pre post post'. unfold follower. destruct (leader_id c) as [lid|]; [|reflexivity].
  generalize (@nil fault). induction pre as [|m t IH]; intro acc; cbn [map app follow]; [reflexivity|].
  destruct (classify c lid m); [apply IH|apply IH|reflexivity].
Qed.

Theorem panics_iff_leader_backs_no_seat :
  forall c h, follower c h = FPanic <-> ~ In (f_leader c) (f_seats c).
Proof.
  intros c h. rewrite <- leader_id_none. unfold follower.
  destruct (leader_id c) as [lid|]; split; try discriminate; try reflexivity.
  intro H. exfalso. exact (follow_not_panic c lid h [] H).
Qed.

(* ------------------------------------------------------------------ *)
(* the executable form of the property                                 *)
(* ------------------------------------------------------------------ *)

Lemma listN_eqb_eq (a : list N) : forall b, listN_eqb a b = true <-> a = b.
Proof.
  induction a as [|x a IH]; intros [|y b]; cbn [listN_eqb]; try (split; [discriminate|discriminate]).
  - split; reflexivity.
  - rewrite andb_true_iff, N.eqb_eq, IH. split; [intros [-> ->]; reflexivity|intro E; inversion E; auto].
Qed.

Lemma insertN_perm (x : N) (l : list N) : Permutation (insertN x l) (x :: l).
Proof.
  induction l as [|y t IH]; cbn [insertN]; [apply Permutation_refl|].
  destruct (N.leb x y); [apply Permutation_refl|].
  eapply perm_trans; [apply perm_skip, IH|apply perm_swap].
Qed.

Lemma sortN_perm (l : list N) : Permutation (sortN l) l.
Proof.
  unfold sortN. induction l as [|a t IH]; cbn [fold_right]; [apply perm_nil|].
  eapply perm_trans; [apply insertN_perm|apply perm_skip, IH].
Qed.

Lemma sortN_eq_perm (a b : list N) : sortN a = sortN b -> Permutation a b.
Proof.
  intro E. eapply perm_trans; [apply Permutation_sym, sortN_perm|]. rewrite E. apply sortN_perm.
Qed.

Lemma before_pid_spec (p : N) (l : list msg) : forall pre m,
  before_pid p l = Some (pre, m) ->
  exists post, l = pre ++ m :: post /\ m_pid m = p /\ (forall x, In x pre -> m_pid x <> p).
Proof.
  induction l as [|a t IH]; intros pre m H; cbn [before_pid] in H; [discriminate|].
  destruct (N.eqb_spec (m_pid a) p) as [E|NE].
  - inversion H; subst. exists t. split; [reflexivity|]. split; [reflexivity|]. intros x [].
  - destruct (before_pid p t) as [[pre' x]|] eqn:Eb; [|discriminate].
    inversion H; subst. destruct (IH pre' m eq_refl) as [post [E1 [E2 E3]]].
    exists post. split; [cbn [app]; rewrite E1; reflexivity|]. split; [exact E2|].
    intros y [<-|Hy]; [exact NE|apply E3, Hy].
Qed.

Lemma before_pid_first (p : N) (pre : list msg) (m : msg) (post : list msg) :
  m_pid m = p -> (forall x, In x pre -> m_pid x <> p) ->
  before_pid p (pre ++ m :: post) = Some (pre, m).
Proof.
  intros Hp Hpre. induction pre as [|a t IH]; cbn [app before_pid].
  - rewrite Hp, N.eqb_refl. reflexivity.
  - destruct (N.eqb_spec (m_pid a) p) as [E|NE].
    + exfalso. apply (Hpre a); [left; reflexivity|exact E].
    + rewrite IH; [reflexivity|]. intros x Hx. apply Hpre. right; exact Hx.
Qed.

(* what spec_ok = true says *)
Definition spec_prop (c : cfg) (h : list event) (o : obs) : Prop :=
  forall lid, leader_id c = Some lid ->
    o_panic o = false /\
    (forall p, o_pid o = Some p ->
       exists pre m post,
         active h = pre ++ m :: post /\ m_pid m = p /\ acceptable c lid m = true /\
         o_err o = false /\
         culprits_of FaultLeaderIdleness (o_faults o) = [] /\
         Permutation (culprits_of FaultLeaderImpersonation (o_faults o))
                     (map m_op (filter (impersonates c lid) pre)) /\
         culprits_of FaultLeaderMistake (o_faults o) =
           map (fun _ => f_leader c) (filter (mistaken c lid) pre) /\
         (forall f, In f (o_faults o) -> known_fault f = true)) /\
    (o_pid o = None ->
       o_err o = true /\
       culprits_of FaultLeaderIdleness (o_faults o) = [f_leader c] /\
       (forall m, In m (active h) -> acceptable c lid m = true -> from_self c m = true) /\
       Permutation (culprits_of FaultLeaderImpersonation (o_faults o))
                   (map m_op (filter (impersonates c lid) (active h))) /\
       culprits_of FaultLeaderMistake (o_faults o) =
         map (fun _ => f_leader c) (filter (mistaken c lid) (active h)) /\
       (forall f, In f (o_faults o) -> known_fault f = true)).

Theorem spec_ok_sound : forall c h o, spec_ok c h o = true -> spec_prop c h o.
Proof.
  intros c h o H lid Hl. unfold spec_ok in H. rewrite Hl in H.
  apply andb_true_iff in H. destruct H as [Hp H].
  split; [destruct (o_panic o); [discriminate|reflexivity]|].
  destruct (o_pid o) as [p|] eqn:Ep.
  - split; [|discriminate]. intros p' Ep'. inversion Ep'; subst p'.
    destruct (before_pid p (active h)) as [[pre m]|] eqn:Eb; [|discriminate].
    repeat rewrite andb_true_iff in H. destruct H as [[[[[Hacc Herr] Hidle] Himp] Hmis] Hkn].
    destruct (before_pid_spec p (active h) pre m Eb) as [post [E1 [E2 _]]].
    exists pre, m, post. split; [exact E1|]. split; [exact E2|]. split; [exact Hacc|].
    split; [destruct (o_err o); [discriminate|reflexivity]|].
    split; [apply listN_eqb_eq; exact Hidle|].
    split; [apply sortN_eq_perm; apply listN_eqb_eq; exact Himp|].
    split; [apply listN_eqb_eq; exact Hmis|].
    rewrite forallb_forall in Hkn. exact Hkn.
  - split; [discriminate|]. intros _.
    repeat rewrite andb_true_iff in H. destruct H as [[[[[Herr Hidle] Hnone] Himp] Hmis] Hkn].
    split; [exact Herr|]. split; [apply listN_eqb_eq; exact Hidle|]. split; [|split; [|split]].
    + intros m Hm Ha. apply negb_true_iff in Hnone.
      destruct (from_self c m) eqn:Es; [reflexivity|]. exfalso.
      assert (existsb (fun m0 => acceptable c lid m0 && negb (from_self c m0)) (active h) = true) as Hex.
      { apply existsb_exists. exists m. split; [exact Hm|]. rewrite Ha, Es. reflexivity. }
      rewrite Hex in Hnone. discriminate.
    + apply sortN_eq_perm. apply listN_eqb_eq. exact Himp.
    + apply listN_eqb_eq. exact Hmis.
    + rewrite forallb_forall in Hkn. exact Hkn.
Qed.

Lemma culprits_app (t : Z) (a b : list fault) : culprits_of t (a ++ b) = culprits_of t a ++ culprits_of t b.
Proof. unfold culprits_of. rewrite filter_app, map_app. reflexivity. Qed.

Lemma culprits_imp_prefix (c : cfg) (lid : N) (pre : list msg) :
  culprits_of FaultLeaderImpersonation (faults_of_prefix c lid pre) =
    map m_op (filter (impersonates c lid) pre).
Proof.
  destruct fault_constants_distinct as [D1 [D2 D3]].
  induction pre as [|m t IH]; [reflexivity|].
  unfold faults_of_prefix in *. cbn [flat_map filter]. rewrite culprits_app, IH.
  unfold fault_of. destruct (impersonates c lid m).
  - unfold culprits_of. cbn [filter ftype map culprit]. rewrite Z.eqb_refl. reflexivity.
  - destruct (mistaken c lid m); [|reflexivity].
    unfold culprits_of. cbn [filter ftype].
    destruct (Z.eqb_spec FaultLeaderMistake FaultLeaderImpersonation) as [E|_]; [contradiction|reflexivity].
Qed.

Lemma culprits_idle_prefix (c : cfg) (lid : N) (pre : list msg) :
  culprits_of FaultLeaderIdleness (faults_of_prefix c lid pre) = [].
Proof.
  destruct fault_constants_distinct as [D1 [D2 D3]].
  induction pre as [|m t IH]; [reflexivity|].
  unfold faults_of_prefix in *. cbn [flat_map]. rewrite culprits_app, IH, app_nil_r.
  unfold fault_of. destruct (impersonates c lid m).
  - unfold culprits_of. cbn [filter ftype].
    destruct (Z.eqb_spec FaultLeaderImpersonation FaultLeaderIdleness) as [E|_]; [symmetry in E; contradiction|reflexivity].
  - destruct (mistaken c lid m); [|reflexivity].
    unfold culprits_of. cbn [filter ftype].
    destruct (Z.eqb_spec FaultLeaderMistake FaultLeaderIdleness) as [E|_]; [symmetry in E; contradiction|reflexivity].
Qed.

Lemma impersonates_not_mistaken (c : cfg) (lid : N) (m : msg) :
  impersonates c lid m = true -> mistaken c lid m = false.
Proof.
  unfold impersonates, mistaken. destruct (on_topic c m); destruct (from_self c m);
    destruct (N.eqb lid (m_sender m)); cbn; try discriminate; reflexivity.
Qed.

Lemma culprits_mis_prefix (c : cfg) (lid : N) (pre : list msg) :
  culprits_of FaultLeaderMistake (faults_of_prefix c lid pre) =
    map (fun _ => f_leader c) (filter (mistaken c lid) pre).
Proof.
  destruct fault_constants_distinct as [D1 [D2 D3]].
  induction pre as [|m t IH]; [reflexivity|].
  unfold faults_of_prefix in *. cbn [flat_map filter]. rewrite culprits_app, IH.
  unfold fault_of. destruct (impersonates c lid m) eqn:Ei.
  - rewrite (impersonates_not_mistaken c lid m Ei).
    unfold culprits_of. cbn [filter ftype].
    destruct (Z.eqb_spec FaultLeaderImpersonation FaultLeaderMistake) as [E|_]; [symmetry in E; contradiction|reflexivity].
  - destruct (mistaken c lid m); [|reflexivity].
    unfold culprits_of. cbn [filter ftype map culprit]. rewrite Z.eqb_refl. reflexivity.
Qed.

Lemma known_prefix (c : cfg) (lid : N) (pre : list msg) :
  forallb known_fault (faults_of_prefix c lid pre) = true.
Proof.
  induction pre as [|m t IH]; [reflexivity|].
  unfold faults_of_prefix in *. cbn [flat_map]. rewrite forallb_app, IH, andb_true_r.
  unfold fault_of. destruct (impersonates c lid m); [|destruct (mistaken c lid m)]; cbn [forallb]; try reflexivity;
    unfold known_fault; cbn [ftype]; rewrite Z.eqb_refl, ?orb_true_r; reflexivity.
Qed.

Lemma listN_eqb_refl (l : list N) : listN_eqb l l = true.
Proof. apply listN_eqb_eq. reflexivity. Qed.

Lemma msg_eqb_eq (a b : msg) : msg_eqb a b = true -> a = b.
Proof.
  unfold msg_eqb. repeat rewrite andb_true_iff. intros [[[[[[H1 H2] H3] H4] H5] H6] H7].
  apply eqb_prop in H1. apply N.eqb_eq in H2, H3, H5, H7. apply Z.eqb_eq in H4, H6.
  destruct a, b; cbn in *. subst. reflexivity.
Qed.

(* under [pids_ok] an earlier message with the same proposal identity is the same message *)
Lemma pids_ok_earlier (pre : list msg) (m : msg) (post : list msg) :
  pids_ok (pre ++ m :: post) = true ->
  forall x, In x pre -> m_pid x = m_pid m -> m = x.
Proof.
  induction pre as [|a t IH]; intros H x Hx Hp; [contradiction|].
  cbn [app pids_ok] in H. apply andb_true_iff in H. destruct H as [Ha Ht].
  destruct Hx as [<-|Hx].
  - rewrite forallb_forall in Ha.
    assert (Hm : In m (t ++ m :: post)) by (apply in_or_app; right; left; reflexivity).
    specialize (Ha m Hm). rewrite <- Hp, N.eqb_refl in Ha. cbn [negb orb] in Ha. apply msg_eqb_eq. exact Ha.
  - apply (IH Ht x Hx Hp).
Qed.

(* every output of the model passes the executable property *)
Theorem model_outputs_pass_spec :
  forall c h o, pids_ok (active h) = true ->
    obs_of (follower c h) = Some o -> spec_ok c h o = true.
Proof.
  intros c h o Hpid Ho. unfold spec_ok. unfold follower in Ho.
  destruct (leader_id c) as [lid|] eqn:Hl; [|reflexivity].
  destruct (history_shape c lid h) as [pre m post E Hna Ha|pre post E Hna|pre E Hna].
  - rewrite E, (follow_accepts c lid pre m post Hna Ha) in Ho. cbn [obs_of] in Ho.
    inversion Ho; subst o. cbn [o_panic o_pid o_faults o_err negb andb].
    rewrite E, active_app_msgs. cbn [active].
    rewrite E, active_app_msgs in Hpid. cbn [active] in Hpid.
    rewrite before_pid_first; [|reflexivity|].
    + assert (Hacc : acceptable c lid m = true).
      { unfold accepts in Ha. apply andb_true_iff in Ha. tauto. }
      rewrite Hacc, culprits_idle_prefix, culprits_imp_prefix, culprits_mis_prefix, known_prefix,
        !listN_eqb_refl. reflexivity.
    + intros x Hx Hp. pose proof (pids_ok_earlier pre m (active post) Hpid x Hx Hp) as Em.
      subst x. rewrite (Hna m Hx) in Ha. discriminate.
  - rewrite E, (follow_times_out c lid pre post Hna) in Ho. cbn [obs_of] in Ho.
    inversion Ho; subst o. cbn [o_panic o_pid o_faults o_err negb andb].
    rewrite E, active_app_msgs. cbn [active]. rewrite app_nil_r.
    rewrite !culprits_app, culprits_idle_prefix, culprits_imp_prefix, culprits_mis_prefix.
    rewrite forallb_app, known_prefix.
    destruct fault_constants_distinct as [D1 [D2 D3]].
    unfold culprits_of at 1 2 3. cbn [idle_fault filter ftype map culprit forallb]. unfold known_fault at 1.
    cbn [ftype]. rewrite Z.eqb_refl.
    destruct (Z.eqb_spec FaultLeaderIdleness FaultLeaderImpersonation) as [Ee|_]; [contradiction|].
    destruct (Z.eqb_spec FaultLeaderIdleness FaultLeaderMistake) as [Ee|_]; [contradiction|].
    cbn [map app culprit filter idle_fault orb andb]. rewrite !app_nil_r, !listN_eqb_refl.
    rewrite !andb_true_r. cbn [andb]. apply negb_true_iff.
    destruct (existsb (fun m => acceptable c lid m && negb (from_self c m)) pre) eqn:Ex; [|reflexivity].
    apply existsb_exists in Ex. destruct Ex as [x [Hx Hax]].
    unfold accepts in Hna. rewrite (Hna x Hx) in Hax. discriminate.
  - rewrite E, (follow_blocks c lid pre Hna) in Ho. discriminate.
Qed.

(* ------------------------------------------------------------------ *)
(* further theorems of the property                                    *)
(* ------------------------------------------------------------------ *)

(* the leader's valid proposal, in words *)
Definition leaders_valid_proposal (c : cfg) (lid : N) (m : msg) : Prop :=
  m_coord m = true /\ m_sender m = lid /\
  valid_membership (f_seats c) (m_sender m) (m_op m) = true /\
  m_block m = f_block c /\ m_wallet m = f_wallet c /\ In (m_action m) (f_allowed c) /\
  ~ In (m_sender m) (f_self c).

Theorem accepts_iff :
  forall c lid m, accepts c lid m = true <-> leaders_valid_proposal c lid m.
Proof.
  intros c lid m. unfold accepts, acceptable, on_topic, authentic, from_self, leaders_valid_proposal.
  repeat rewrite andb_true_iff. rewrite negb_true_iff, Z.eqb_eq, !N.eqb_eq, memZ_In.
  split.
  - intros [[[[[[Hc Hv] Hb] Hw] Hs] Ha] Hself]. repeat split; auto.
    intro Hin. apply memN_In in Hin. rewrite Hin in Hself. discriminate.
  - intros [Hc [Hs [Hv [Hb [Hw [Ha Hself]]]]]]. repeat split; auto.
    destruct (memN (m_sender m) (f_self c)) eqn:Em; [|reflexivity].
    exfalso. apply Hself. apply memN_In. exact Em.
Qed.

Theorem first_valid_proposal_is_accepted :
  forall c lid pre m post,
    leader_id c = Some lid ->
    (forall x, In x pre -> accepts c lid x = false) -> accepts c lid m = true ->
    follower c (map Msg pre ++ Msg m :: post) = Accepted (m_pid m) (faults_of_prefix c lid pre).
Proof. intros c lid pre m post Hl Hna Ha. unfold follower. rewrite Hl. apply follow_accepts; assumption. Qed.

Lemma fault_of_types (c : cfg) (lid : N) (m : msg) (f : fault) :
  In f (fault_of c lid m) ->
  (f = {| culprit := m_op m; ftype := FaultLeaderImpersonation |} /\ impersonates c lid m = true) \/
  (f = {| culprit := f_leader c; ftype := FaultLeaderMistake |} /\ mistaken c lid m = true).
Proof.
  unfold fault_of. destruct (impersonates c lid m); [intros [<-|[]]; left; split; reflexivity|].
  destruct (mistaken c lid m); [intros [<-|[]]; right; split; reflexivity|intros []].
Qed.

(* every fault owed by a message of the processed prefix is recorded *)
Lemma prefix_faults_recorded (c : cfg) (lid : N) (pre : list msg) (rest : list event) (m : msg) (f : fault) :
  leader_id c = Some lid -> (forall x, In x pre -> accepts c lid x = false) ->
  In m pre -> In f (fault_of c lid m) ->
  In f (faults_of_result (follower c (map Msg pre ++ rest))).
Proof.
  intros Hl Hna Hm Hf. unfold follower. rewrite Hl. rewrite (follow_prefix c lid pre rest Hna).
  assert (Hin : In f (faults_of_prefix c lid pre)).
  { unfold faults_of_prefix. apply in_flat_map. exists m. split; assumption. }
  destruct (follow c lid rest []) eqn:Ef; cbn [add_faults faults_of_result];
    try (apply in_or_app; left; exact Hin).
  exfalso. exact (follow_not_panic c lid rest [] Ef).
Qed.

Theorem leader_mistakes_are_recorded :
  forall c lid pre rest m,
    leader_id c = Some lid ->
    (forall x, In x pre -> accepts c lid x = false) ->
    In m pre -> mistaken c lid m = true ->
    In {| culprit := f_leader c; ftype := FaultLeaderMistake |}
       (faults_of_result (follower c (map Msg pre ++ rest))).
Proof.
  intros c lid pre rest m Hl Hna Hm Hmis.
  apply (prefix_faults_recorded c lid pre rest m _ Hl Hna Hm).
  unfold fault_of. destruct (impersonates c lid m) eqn:Ei.
  - rewrite (impersonates_not_mistaken c lid m Ei) in Hmis. discriminate.
  - rewrite Hmis. left; reflexivity.
Qed.

Lemma result_fault_origin (c : cfg) (lid : N) (h : list event) (f : fault) :
  In f (faults_of_result (follow c lid h [])) ->
  (exists m, In m (active h) /\ In f (fault_of c lid m)) \/
  (f = idle_fault c /\ exists fs, follow c lid h [] = TimedOut fs).
Proof.
  intro Hin.
  destruct (history_shape c lid h) as [pre m post E Hna Ha|pre post E Hna|pre E Hna].
  - rewrite E, (follow_accepts c lid pre m post Hna Ha) in Hin. cbn [faults_of_result] in Hin.
    destruct (in_faults_of_prefix c lid pre f Hin) as [x [Hx Hfx]].
    left. exists x. split; [rewrite E; apply in_prefix_active; exact Hx|exact Hfx].
  - rewrite E, (follow_times_out c lid pre post Hna) in Hin. cbn [faults_of_result] in Hin.
    apply in_app_or in Hin. destruct Hin as [Hin|[<-|[]]].
    + destruct (in_faults_of_prefix c lid pre f Hin) as [x [Hx Hfx]].
      left. exists x. split; [rewrite E; apply in_prefix_active; exact Hx|exact Hfx].
    + right. split; [reflexivity|]. rewrite E, (follow_times_out c lid pre post Hna). eexists; reflexivity.
  - rewrite E, (follow_blocks c lid pre Hna) in Hin. cbn [faults_of_result] in Hin.
    destruct (in_faults_of_prefix c lid pre f Hin) as [x [Hx Hfx]].
    left. exists x. split; [|exact Hfx]. rewrite E, <- (app_nil_r (map Msg pre)). apply in_prefix_active; exact Hx.
Qed.

(* a recorded mistake is the leader's: an authentic message under the leader's identifier, for
   this window and wallet, received in the active phase, proposing a disallowed action *)
Theorem mistake_fault_names_leader :
  forall c h f, (length (f_seats c) <= 255)%nat ->
    In f (faults_of_result (follower c h)) -> ftype f = FaultLeaderMistake ->
    culprit f = f_leader c /\
    exists lid m,
      leader_id c = Some lid /\ In m (active h) /\
      m_sender m = lid /\ valid_membership (f_seats c) (m_sender m) (m_op m) = true /\
      m_op m = f_leader c /\
      m_coord m = true /\ m_block m = f_block c /\ m_wallet m = f_wallet c /\
      ~ In (m_action m) (f_allowed c).
Proof.
  intros c h f Hlen Hin Hty. unfold follower in Hin.
  destruct (leader_id c) as [lid|] eqn:Hl; [|cbn in Hin; contradiction].
  destruct fault_constants_distinct as [D1 [D2 D3]].
  destruct (result_fault_origin c lid h f Hin) as [[m [Hm Hf]]|[-> _]];
    [|cbn [idle_fault ftype] in Hty; congruence].
  destruct (fault_of_types c lid m f Hf) as [[-> _]|[-> Hmis]]; [cbn [ftype] in Hty; congruence|].
  split; [reflexivity|]. exists lid, m. split; [reflexivity|]. split; [exact Hm|].
  unfold mistaken, on_topic, authentic in Hmis. repeat rewrite andb_true_iff in Hmis.
  destruct Hmis as [[[[[[Hc Hv] Hb] Hw] _] Hs] Hact].
  apply N.eqb_eq in Hs. apply Z.eqb_eq in Hb. apply N.eqb_eq in Hw.
  split; [symmetry; exact Hs|]. split; [exact Hv|].
  split; [rewrite <- Hs in Hv; exact (valid_membership_lid c lid _ Hlen Hl Hv)|].
  split; [exact Hc|]. split; [symmetry; exact Hb|]. split; [symmetry; exact Hw|].
  intro Hina. apply memZ_In in Hina. rewrite Hina in Hact. discriminate.
Qed.

(* idleness is recorded exactly when the routine gives up, and against the leader *)
Theorem idleness_fault_only_on_timeout :
  forall c h f,
    In f (faults_of_result (follower c h)) -> ftype f = FaultLeaderIdleness ->
    culprit f = f_leader c /\ exists fs, follower c h = TimedOut fs.
Proof.
  intros c h f Hin Hty. unfold follower in *.
  destruct (leader_id c) as [lid|] eqn:Hl; [|cbn in Hin; contradiction].
  destruct fault_constants_distinct as [D1 [D2 D3]].
  destruct (result_fault_origin c lid h f Hin) as [[m [Hm Hf]]|[-> Hto]]; [|split; [reflexivity|exact Hto]].
  destruct (fault_of_types c lid m f Hf) as [[-> _]|[-> _]]; cbn [ftype] in Hty; congruence.
Qed.

(* once the routine returned nothing later matters: later messages are not consumed *)
Theorem result_final :
  forall c h ext,
    match follower c h with
    | Blocked _ => True
    | r => follower c (h ++ ext) = r
    end.
Proof.
  intros c h ext. unfold follower. destruct (leader_id c) as [lid|]; [|reflexivity].
  destruct (history_shape c lid h) as [pre m post E Hna Ha|pre post E Hna|pre E Hna]; rewrite E.
  - rewrite <- app_assoc. cbn [app].
    rewrite (follow_accepts c lid pre m post Hna Ha), (follow_accepts c lid pre m (post ++ ext) Hna Ha). reflexivity.
  - rewrite <- app_assoc. cbn [app].
    rewrite (follow_times_out c lid pre post Hna), (follow_times_out c lid pre (post ++ ext) Hna). reflexivity.
  - rewrite (follow_blocks c lid pre Hna). exact I.
Qed.

Lemma has_timeout_msgs (pre : list msg) : has_timeout (map Msg pre) = false.
Proof. induction pre as [|a t IH]; cbn [map has_timeout]; [reflexivity|exact IH]. Qed.

(* the routine returns by the end of the active phase at the latest *)
Theorem returns_when_phase_ends :
  forall c h, In (f_leader c) (f_seats c) -> has_timeout h = true ->
    (exists p fs, follower c h = Accepted p fs) \/ (exists fs, follower c h = TimedOut fs).
Proof.
  intros c h Hin Hto. unfold follower.
  destruct (leader_id c) as [lid|] eqn:Hl; [|apply leader_id_none in Hl; contradiction].
  destruct (history_shape c lid h) as [pre m post E Hna Ha|pre post E Hna|pre E Hna].
  - left. rewrite E, (follow_accepts c lid pre m post Hna Ha). eexists; eexists; reflexivity.
  - right. rewrite E, (follow_times_out c lid pre post Hna). eexists; reflexivity.
  - rewrite E, has_timeout_msgs in Hto. discriminate.
Qed.

(* the main statement in the form restated in Props/C24.v *)
Theorem returned_proposal_is_leaders_valid_proposal :
  forall c h pid fs, (length (f_seats c) <= 255)%nat ->
    follower c h = Accepted pid fs ->
    exists lid pre m post,
      h = map Msg pre ++ Msg m :: post /\ m_pid m = pid /\
      lowest_seat c lid /\ m_sender m = lid /\
      valid_membership (f_seats c) (m_sender m) (m_op m) = true /\ m_op m = f_leader c /\
      m_coord m = true /\ m_block m = f_block c /\ m_wallet m = f_wallet c /\
      In (m_action m) (f_allowed c) /\ ~ In (m_sender m) (f_self c) /\
      (forall x, In x pre -> acceptable c lid x && negb (from_self c x) = false) /\
      fs = flat_map (fault_of c lid) pre.
Proof.
  intros c h pid fs Hlen H. unfold follower in H.
  destruct (leader_id c) as [lid|] eqn:Hl; [|discriminate].
  destruct (history_shape c lid h) as [pre m post E Hna Ha|pre post E Hna|pre E Hna].
  - rewrite E, (follow_accepts c lid pre m post Hna Ha) in H. inversion H; subst pid fs.
    destruct (accepts_sound c lid m Hlen Hl Ha) as [A1 [A2 [A3 [A4 [A5 [A6 [A7 [A8 A9]]]]]]]].
    apply accepts_iff in Ha. destruct Ha as [_ [_ [Hv _]]].
    exists lid, pre, m, post. repeat split; try assumption; try reflexivity;
      try (destruct A3 as [B1 [B2 B3]]; assumption).
  - rewrite E, (follow_times_out c lid pre post Hna) in H. discriminate.
  - rewrite E, (follow_blocks c lid pre Hna) in H. discriminate.
Qed.

(* the hypotheses are satisfiable: a concrete history (seats 2,1,3,1 -- leader 1 backs members
   2 and 4 -- follower = member 1) with an impersonator, a mistaken and a valid proposal *)
Example follower_example :
  let c := {| f_seats := [2; 1; 3; 1]%N; f_self := [1]%N; f_leader := 1%N; f_block := 900;
              f_wallet := 1%N; f_allowed := [3; 0] |} in
  let mk (s o : N) (a : Z) (p : N) :=
    Msg {| m_coord := true; m_sender := s; m_op := o; m_block := 900;
           m_wallet := 1%N; m_action := a; m_pid := p |} in
  follower c [mk 3%N 3%N 3 1%N; mk 4%N 1%N 3 2%N; mk 2%N 3%N 3 3%N; mk 2%N 1%N 1 4%N;
              mk 2%N 1%N 3 5%N; Timeout] =
    Accepted 5%N [ {| culprit := 3%N; ftype := FaultLeaderImpersonation |};
                   {| culprit := 1%N; ftype := FaultLeaderImpersonation |};
                   {| culprit := 1%N; ftype := FaultLeaderMistake |} ] /\
  follower c [mk 3%N 3%N 3 1%N; Timeout; mk 2%N 1%N 3 5%N] =
    TimedOut [ {| culprit := 3%N; ftype := FaultLeaderImpersonation |};
               {| culprit := 1%N; ftype := FaultLeaderIdleness |} ].
Proof. vm_compute. split; reflexivity. Qed.
