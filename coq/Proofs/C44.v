From Coq Require Import NArith List Bool Arith Lia.
From KV Require Import Common.Verdict Model.C44.
Import ListNotations.
Open Scope N_scope.

Lemma resolve_contracts_idem : forall defs addrs,
  resolve_contracts defs (resolve_contracts defs addrs) = resolve_contracts defs addrs.
Proof.
  induction defs as [|d ds IH]; intros [|a t]; simpl; auto.
  f_equal; [|apply IH].
  destruct (N.eqb a 0) eqn:Ha; [destruct (N.eqb d 0); reflexivity | rewrite Ha; reflexivity].
Qed.
