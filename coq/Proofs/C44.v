(* C44 — lemmas about Model/C44.v. *)
From Coq Require Import NArith List Bool Arith Lia.
From KV Require Import Common.Verdict Model.C44.
Import ListNotations.
Open Scope N_scope.

(* ---------- equality tests ---------- *)
Lemma list_eqb_eq : forall a b, list_eqb a b = true <-> a = b.
Proof.
  induction a as [|x a IH]; intros [|y b]; simpl; split; intro H; try congruence; auto.
  - apply andb_true_iff in H as [H1 H2]. apply N.eqb_eq in H1. apply IH in H2. congruence.
  - inversion H; subst. rewrite N.eqb_refl. simpl. apply IH. reflexivity.
Qed.
Lemma list_eqb_refl : forall a, list_eqb a a = true.
Proof. intro a. apply list_eqb_eq. reflexivity. Qed.
Lemma memN_In : forall x l, memN x l = true <-> In x l.
Proof.
  intros x l. unfold memN. rewrite existsb_exists. split.
  - intros [y [Hy He]]. apply N.eqb_eq in He. subst. exact Hy.
  - intro H. exists x. split; [exact H | apply N.eqb_refl].
Qed.
Lemma eth_eqb_eq : forall a b, eth_eqb a b = true <-> a = b.
Proof. intros [] []; simpl; split; intro H; congruence. Qed.
Lemma btc_eqb_eq : forall a b, btc_eqb a b = true <-> a = b.
Proof. intros [] []; simpl; split; intro H; congruence. Qed.
Lemma net_eqb_eq : forall a b, net_eqb a b = true <-> a = b.
Proof. intros [] []; simpl; split; intro H; congruence. Qed.
Lemma err_eqb_eq : forall a b, err_eqb a b = true <-> a = b.
Proof. intros [] []; simpl; split; intro H; congruence. Qed.
Lemma pres_eqb_eq : forall a b, pres_eqb a b = true <-> a = b.
Proof.
  intros [x| |] [y| |]; simpl; split; intro H; try congruence; auto.
  - apply list_eqb_eq in H. congruence.
  - inversion H. apply list_eqb_refl.
Qed.
Lemma ures_eqb_eq : forall a b, ures_eqb a b = true <-> a = b.
Proof.
  intros [x| |] [y| |]; simpl; split; intro H; try congruence; auto.
  - apply N.eqb_eq in H. congruence.
  - inversion H. apply N.eqb_refl.
Qed.

(* ---------- network table ---------- *)
Lemma net_eth_inj : forall n n', net_eth n = net_eth n' -> n = n'.
Proof. intros [] []; simpl; congruence. Qed.
Lemma net_btc_inj : forall n n', net_btc n = net_btc n' -> n = n'.
Proof. intros [] []; simpl; congruence. Qed.
Lemma network_table :
  (net_eth NMainnet = EMainnet /\ net_btc NMainnet = BMainnet) /\
  (net_eth NTestnet = ESepolia /\ net_btc NTestnet = BTestnet) /\
  (net_eth NDeveloper = EDeveloper /\ net_btc NDeveloper = BRegtest) /\
  (net_eth NUnknown = EUnknown /\ net_btc NUnknown = BUnknown) /\
  (forall n n', net_eth n = net_eth n' <-> net_btc n = net_btc n').
Proof.
  repeat split; try reflexivity; intro H.
  - apply net_eth_inj in H. congruence.
  - apply net_btc_inj in H. congruence.
Qed.

(* ---------- the three resolve functions ---------- *)
Lemma resolve_contracts_idem : forall defs addrs,
  resolve_contracts defs (resolve_contracts defs addrs) = resolve_contracts defs addrs.
Proof.
  induction defs as [|d ds IH]; intros [|a t]; simpl; auto.
  f_equal; [|apply IH].
  destruct (N.eqb a 0) eqn:Ha; [destruct (N.eqb d 0); reflexivity | rewrite Ha; reflexivity].
Qed.

Lemma resolve_contracts_length : forall defs addrs,
  (length addrs <= length defs)%nat -> length (resolve_contracts defs addrs) = length addrs.
Proof.
  induction defs as [|d ds IH]; intros [|a t] H; simpl in *; auto; try lia.
  f_equal. apply IH. lia.
Qed.

Lemma resolve_contracts_nth : forall defs addrs k a d,
  nth_error addrs k = Some a -> nth_error defs k = Some d ->
  nth_error (resolve_contracts defs addrs) k = Some (if N.eqb a 0 then d else a).
Proof.
  induction defs as [|d0 ds IH]; intros [|a0 t] [|k] a d Ha Hd; simpl in *; try discriminate.
  - inversion Ha; inversion Hd; subst. reflexivity.
  - eapply IH; eauto.
Qed.

Lemma resolve_peers_explicit : forall e n p, p <> [] -> resolve_peers e n p = POk p.
Proof. intros e n [|x p] H; [congruence | reflexivity]. Qed.

Lemma resolve_peers_unset : forall e n,
  resolve_peers e n [] =
  if has_defaults n then match e_peers e n with Some l => POk l | None => PErr end else POk [].
Proof. intros e []; reflexivity. Qed.

Lemma resolve_peers_idem : forall e n p p',
  resolve_peers e n p = POk p' -> resolve_peers e n p' = POk p'.
Proof.
  intros e n [|x p] p' H.
  - destruct p' as [|y p']; [|reflexivity].
    rewrite resolve_peers_unset in *. destruct (has_defaults n); [|reflexivity].
    destruct (e_peers e n) as [l|]; [|discriminate]. exact H.
  - simpl in H. inversion H; subst. reflexivity.
Qed.

Lemma resolve_electrum_explicit : forall e k b u, u <> 0 -> resolve_electrum e k b u = UOk u.
Proof.
  intros e k b u H. unfold resolve_electrum.
  destruct (N.eqb u 0) eqn:E; [apply N.eqb_eq in E; congruence | reflexivity].
Qed.

Definition btc_has_defaults (b : btcnet) : bool := match b with BMainnet | BTestnet => true | _ => false end.

Lemma nth_mod_In : forall (l : list N) k, l <> [] -> In (nth (Nat.modulo k (length l)) l 0) l.
Proof.
  intros l k H. apply nth_In. apply Nat.mod_upper_bound.
  destruct l; [congruence | simpl; lia].
Qed.

Lemma resolve_electrum_unset : forall e k b r,
  resolve_electrum e k b 0 = UOk r ->
  if btc_has_defaults b then exists l, e_urls e b = Some l /\ In r l else r = 0.
Proof.
  intros e k b r H. unfold resolve_electrum in H. rewrite N.eqb_refl in H. cbn [negb] in H.
  destruct b; cbn [btc_has_defaults]; try (injection H as <-; reflexivity).
  all: destruct (e_urls e _) as [urls|] eqn:E; [|discriminate]; destruct urls as [|x l]; [discriminate|];
       assert (r = nth (Nat.modulo k (length (x :: l))) (x :: l) 0) as -> by congruence;
       exists (x :: l); split; [reflexivity | apply nth_mod_In; discriminate].
Qed.

Lemma env_wfb_spec : forall e, env_wfb e = true ->
  forall b l, e_urls e b = Some l -> ~ In 0 l.
Proof.
  intros e H b l Hl Hin. unfold env_wfb in H. rewrite forallb_forall in H.
  assert (Hb : In b all_btc) by (destruct b; simpl; auto).
  specialize (H b Hb). rewrite Hl in H. apply negb_true_iff in H.
  apply memN_In in Hin. congruence.
Qed.

Lemma resolve_electrum_idem : forall e, env_wfb e = true ->
  forall k b u u', resolve_electrum e k b u = UOk u' ->
  forall k', resolve_electrum e k' b u' = UOk u'.
Proof.
  intros e Hwf k b u u' H k'.
  destruct (N.eq_dec u 0) as [Hu|Hu].
  - subst u. pose proof (resolve_electrum_unset _ _ _ _ H) as Hd.
    destruct (btc_has_defaults b) eqn:Hb.
    + destruct Hd as [l [Hl Hin]]. apply resolve_electrum_explicit.
      intro; subst. eapply env_wfb_spec; eauto.
    + subst u'. unfold resolve_electrum. simpl. destruct b; try reflexivity; discriminate.
  - rewrite resolve_electrum_explicit in H by exact Hu. inversion H; subst.
    apply resolve_electrum_explicit. exact Hu.
Qed.

(* ---------- viper precedence ---------- *)
Lemma explicit_precedence : forall (A : Type) (i : input) (z : A) (s : src A),
  explicit i z s =
  match (if has_flags i then s_flag s else None), (if file_read i then s_file s else None) with
  | Some v, _ => v
  | None, Some v => v
  | None, None => z
  end.
Proof. intros. unfold explicit, viper_get. destruct (if has_flags i then s_flag s else None); reflexivity. Qed.

(* ---------- network selection ---------- *)
Lemma selected_all_defined : forall i m t d,
  i_flags i = FSet m (Some t) (Some d) ->
  networks i = (if t then NTestnet else if d then NDeveloper else NMainnet, false,
                net_eth (if t then NTestnet else if d then NDeveloper else NMainnet),
                net_btc (if t then NTestnet else if d then NDeveloper else NMainnet)).
Proof. intros i m t d H. unfold networks. rewrite H. destruct t, d; reflexivity. Qed.

Lemma networks_pair : forall i, exists n,
  snd (fst (networks i)) = net_eth n /\ snd (networks i) = net_btc n /\
  (has_flags i = true -> n = selected i).
Proof.
  intro i. unfold selected, networks, has_flags. destruct (i_flags i) as [|m t d].
  - exists NUnknown. repeat split; discriminate.
  - destruct (select_network t d) as [n e]. exists n. repeat split.
Qed.

Lemma selected_in_candidates : forall i,
  snd (fst (fst (networks i))) = false -> In (selected i) (candidates i).
Proof.
  intro i. unfold selected, networks, candidates, candidates_of. destruct (i_flags i) as [|m t d]; simpl.
  - auto.
  - destruct t as [[]|], d as [[]|], m as [[]|]; simpl; intro H; auto; discriminate.
Qed.

Lemma unambiguous_candidates : forall i m t d,
  i_flags i = FSet (Some m) (Some t) (Some d) -> (flags_given i <= 1)%nat ->
  candidates i = [selected i] /\
  selected i = (if m then NMainnet else if t then NTestnet else if d then NDeveloper else NMainnet).
Proof.
  intros i m t d H. unfold flags_given, candidates, candidates_of, selected, networks. rewrite H.
  destruct m, t, d; simpl; intro L; try lia; split; reflexivity.
Qed.

(* ---------- the shape of a ReadConfig that got to the resolution stage ---------- *)
Lemma read_config_networks : forall i,
  o_eth (read_config i) = snd (fst (networks i)) /\ o_btc (read_config i) = snd (networks i)
  /\ o_refused (read_config i) = refused i.
Proof.
  intro i. unfold read_config.
  destruct (networks i) as [[[n nerr] eth] btc]. simpl.
  destruct nerr; [repeat split|].
  destruct (i_file i); try (repeat split; fail);
  (destruct (resolve_peers _ _ _); [|repeat split|repeat split];
   destruct (resolve_electrum _ _ _ _); repeat split).
Qed.

Lemma read_config_reached : forall i, reached (o_err (read_config i)) = true ->
  snd (fst (fst (networks i))) = false /\
  exists p' u',
    resolve_peers (i_env i) (selected i) (explicit i [] (i_peers i)) = POk p' /\
    resolve_electrum (i_env i) (i_pick i) (snd (networks i)) (explicit i 0 (i_electrum i)) = UOk u' /\
    o_peers (read_config i) = p' /\ o_electrum (read_config i) = u' /\
    o_contracts (read_config i) =
      resolve_contracts (e_contracts (i_env i)) (map (explicit i 0) (i_contracts i)).
Proof.
  intro i. unfold read_config, selected.
  destruct (networks i) as [[[n nerr] eth] btc]. simpl.
  destruct nerr; [simpl; discriminate|].
  destruct (i_file i); simpl; try discriminate;
  (destruct (resolve_peers _ _ _) as [p'| |] eqn:Hp; simpl; try discriminate;
   destruct (resolve_electrum _ _ _ _) as [u'| |] eqn:Hu; simpl; try discriminate;
   intros _; split; [reflexivity|]; exists p', u'; repeat split; assumption).
Qed.

(* ---------- main theorems about the model ---------- *)
Lemma explicit_values_kept : forall i, reached (o_err (read_config i)) = true ->
  (explicit i [] (i_peers i) <> [] -> o_peers (read_config i) = explicit i [] (i_peers i)) /\
  (explicit i 0 (i_electrum i) <> 0 -> o_electrum (read_config i) = explicit i 0 (i_electrum i)) /\
  (forall k s d, nth_error (i_contracts i) k = Some s -> nth_error (e_contracts (i_env i)) k = Some d ->
                 explicit i 0 s <> 0 ->
                 nth_error (o_contracts (read_config i)) k = Some (explicit i 0 s)).
Proof.
  intros i H. destruct (read_config_reached i H) as [_ [p' [u' [Hp [Hu [Ep [Eu Ec]]]]]]].
  repeat split.
  - intro Hne. rewrite resolve_peers_explicit in Hp by exact Hne. congruence.
  - intro Hne. rewrite resolve_electrum_explicit in Hu by exact Hne. congruence.
  - intros k s d Hs Hd Hne. rewrite Ec.
    erewrite resolve_contracts_nth; [| apply map_nth_error; exact Hs | exact Hd].
    destruct (N.eqb (explicit i 0 s) 0) eqn:E; [apply N.eqb_eq in E; congruence | reflexivity].
Qed.

Lemma defaults_only_where_unset : forall i, reached (o_err (read_config i)) = true ->
  (explicit i [] (i_peers i) = [] ->
     if has_defaults (selected i) then e_peers (i_env i) (selected i) = Some (o_peers (read_config i))
     else o_peers (read_config i) = []) /\
  (explicit i 0 (i_electrum i) = 0 ->
     if btc_has_defaults (o_btc (read_config i))
     then exists l, e_urls (i_env i) (o_btc (read_config i)) = Some l /\ In (o_electrum (read_config i)) l
     else o_electrum (read_config i) = 0) /\
  (forall k s d, nth_error (i_contracts i) k = Some s -> nth_error (e_contracts (i_env i)) k = Some d ->
                 explicit i 0 s = 0 ->
                 nth_error (o_contracts (read_config i)) k = Some d).
Proof.
  intros i H. destruct (read_config_reached i H) as [_ [p' [u' [Hp [Hu [Ep [Eu Ec]]]]]]].
  destruct (read_config_networks i) as [_ [Hb _]].
  repeat split.
  - intro He. rewrite He, resolve_peers_unset in Hp. rewrite Ep.
    destruct (has_defaults (selected i)).
    + destruct (e_peers (i_env i) (selected i)); [congruence | discriminate].
    + congruence.
  - intro He. rewrite He in Hu. rewrite Hb, Eu. exact (resolve_electrum_unset _ _ _ _ Hu).
  - intros k s d Hs Hd He. rewrite Ec.
    erewrite resolve_contracts_nth; [| apply map_nth_error; exact Hs | exact Hd].
    rewrite He. reflexivity.
Qed.

Lemma networks_follow_selection : forall i,
  (has_flags i = true ->
     o_eth (read_config i) = net_eth (selected i) /\ o_btc (read_config i) = net_btc (selected i)) /\
  (has_flags i = false ->
     o_eth (read_config i) = net_eth NUnknown /\ o_btc (read_config i) = net_btc NUnknown /\
     selected i = NMainnet) /\
  (exists n, o_eth (read_config i) = net_eth n /\ o_btc (read_config i) = net_btc n).
Proof.
  intro i. destruct (read_config_networks i) as [He [Hb _]]. rewrite He, Hb.
  unfold selected, networks, has_flags. destruct (i_flags i) as [|m t d].
  - repeat split; try discriminate. exists NUnknown. split; reflexivity.
  - destruct (select_network t d) as [n e]. simpl. repeat split; try discriminate.
    exists n. split; reflexivity.
Qed.

Lemma selection_as_coded : forall i m t d,
  i_flags i = FSet m (Some t) (Some d) ->
  selected i = (if t then NTestnet else if d then NDeveloper else NMainnet) /\
  o_err (read_config i) <> EResolveNetworks.
Proof.
  intros i m t d H. pose proof (selected_all_defined i m t d H) as Hn.
  split; [unfold selected; rewrite Hn; reflexivity|].
  unfold read_config. rewrite Hn. simpl.
  destruct (i_file i); simpl; try discriminate;
  (destruct (resolve_peers _ _ _); simpl; try discriminate;
   destruct (resolve_electrum _ _ _ _); simpl; try discriminate;
   destruct (validation_fails _ _); discriminate).
Qed.

Lemma ambiguous_selection_refused : forall i,
  o_refused (read_config i) = true <-> (i_cobra i = true /\ (2 <= flags_given i)%nat).
Proof.
  intro i. destruct (read_config_networks i) as [_ [_ Hr]]. rewrite Hr. unfold refused.
  rewrite andb_true_iff, Nat.leb_le. tauto.
Qed.

Lemma re_resolve_fixpoint : forall i, env_wfb (i_env i) = true ->
  forall n2 k2, n2 = selected i \/ (i_flags i = FNil /\ n2 = NUnknown) ->
  re_resolve (i_env i) n2 k2 (read_config i) = read_config i.
Proof.
  intros i Hwf n2 k2 Hn. unfold re_resolve.
  destruct (reached (o_err (read_config i))) eqn:Hr; [|reflexivity]. simpl.
  destruct (read_config_reached i Hr) as [_ [p' [u' [Hp [Hu [Ep [Eu Ec]]]]]]].
  destruct (read_config_networks i) as [_ [Hb _]].
  assert (Hp2 : resolve_peers (i_env i) n2 (o_peers (read_config i)) = POk (o_peers (read_config i))).
  { rewrite Ep. destruct Hn as [Hn | [Hnil Hn]]; subst n2.
    - eapply resolve_peers_idem; eauto.
    - destruct p' as [|x p']; [reflexivity | reflexivity]. }
  rewrite Hp2.
  rewrite Hb, Eu. rewrite (resolve_electrum_idem _ Hwf _ _ _ _ Hu k2).
  rewrite Ec, resolve_contracts_idem, <- Ec, <- Eu, <- Hb.
  destruct (read_config i); reflexivity.
Qed.

(* ---------- soundness of the executable property ---------- *)
Lemma peers_ok_sound : forall x r d, peers_ok x r d = true <-> peers_prop x r d.
Proof.
  intros x r d. unfold peers_ok, peers_prop. destruct x as [|a x].
  - destruct r as [|b r].
    + split; [intros _; split; [congruence | auto] | reflexivity].
    + destruct d as [l|].
      * rewrite list_eqb_eq. split.
        -- intro H. split; [congruence | intros _; right; congruence].
        -- intros [_ H]. destruct (H eq_refl) as [H1|H1]; [discriminate | congruence].
      * split; [discriminate|]. intros [_ H]. destruct (H eq_refl); discriminate.
  - rewrite list_eqb_eq. split.
    + intro H. split; [auto | discriminate].
    + intros [H _]. apply H. discriminate.
Qed.

Lemma electrum_ok_sound : forall x r d, electrum_ok x r d = true <-> electrum_prop x r d.
Proof.
  intros x r d. unfold electrum_ok, electrum_prop.
  destruct (N.eqb x 0) eqn:E; simpl.
  - apply N.eqb_eq in E. subst x. rewrite orb_true_iff, N.eqb_eq. split.
    + intro H. split; [congruence|]. intros _. destruct H as [H|H]; [left; exact H|].
      destruct d as [l|]; [|discriminate]. right. exists l. split; [reflexivity | apply memN_In; exact H].
    + intros [_ H]. destruct (H eq_refl) as [H1 | [l [Hl Hin]]]; [left; exact H1|].
      right. rewrite Hl. apply memN_In. exact Hin.
  - apply N.eqb_neq in E. rewrite N.eqb_eq. split.
    + intro H. split; [auto | congruence].
    + intros [H _]. auto.
Qed.

Lemma contracts_ok_sound : forall x r d, contracts_ok x r d = true <-> contracts_prop x r d.
Proof.
  unfold contracts_prop.
  induction x as [|a x IH]; intros r d.
  - destruct r as [|b r]; simpl.
    + split; [intros _|reflexivity]. repeat split; try lia.
      all: exfalso; destruct k; simpl in *; discriminate.
    + split; [destruct d; discriminate|]. intros [H _]. discriminate.
  - destruct r as [|b r]; [simpl; split; [discriminate | intros [H _]; discriminate]|].
    destruct d as [|c d]; [simpl; split; [discriminate | intros [_ [H _]]; simpl in H; lia]|].
    cbn [contracts_ok]. rewrite andb_true_iff, IH. split.
    + intros [Hh [Hl [Hle Ht]]]. split; [simpl; congruence|]. split; [simpl; lia|].
      intros [|k] x0 r0 d0 Hx Hr Hd; simpl in *.
      * inversion Hx; inversion Hr; inversion Hd; subst.
        destruct (N.eqb x0 0) eqn:E; simpl in Hh.
        -- apply N.eqb_eq in E. apply orb_true_iff in Hh. rewrite !N.eqb_eq in Hh. split; [congruence | intros _; exact Hh].
        -- apply N.eqb_neq in E. apply N.eqb_eq in Hh. split; [auto | congruence].
      * eapply Ht; eauto.
    + intros [Hl [Hle Ht]]. split.
      * specialize (Ht 0%nat a b c eq_refl eq_refl eq_refl). destruct Ht as [H1 H2].
        destruct (N.eqb a 0) eqn:E; simpl.
        -- apply N.eqb_eq in E. apply orb_true_iff. rewrite !N.eqb_eq. auto.
        -- apply N.eqb_neq in E. apply N.eqb_eq. auto.
      * split; [simpl in Hl; lia|]. split; [simpl in Hle; lia|].
        intros k x0 r0 d0 Hx Hr Hd. apply (Ht (S k) x0 r0 d0); assumption.
Qed.

Lemma nets_ok_sound : forall i n o, nets_ok i n o = true <-> nets_prop i n o.
Proof.
  intros i n o. unfold nets_ok, nets_prop. destruct (i_flags i).
  - rewrite existsb_exists. split.
    + intros [n' [_ H]]. apply andb_true_iff in H as [H1 H2].
      exists n'. split; [apply eth_eqb_eq | apply btc_eqb_eq]; assumption.
    + intros [n' [H1 H2]]. exists n'. split; [destruct n'; simpl; auto|].
      apply andb_true_iff. split; [apply eth_eqb_eq | apply btc_eqb_eq]; assumption.
  - rewrite andb_true_iff, eth_eqb_eq, btc_eqb_eq. tauto.
Qed.

Lemma same_values_sound : forall a b, same_values a b = true <->
  (o_peers b = o_peers a /\ o_electrum b = o_electrum a /\ o_contracts b = o_contracts a /\ o_err b = o_err a).
Proof.
  intros a b. unfold same_values.
  rewrite !andb_true_iff, !list_eqb_eq, N.eqb_eq, err_eqb_eq.
  split; intros H; decompose [and] H; repeat split; congruence.
Qed.

Lemma and_iff_both : forall A B C D : Prop, (A <-> B) -> (C <-> D) -> (A /\ C <-> B /\ D).
Proof. tauto. Qed.

Lemma spec_read_sound : forall i o o2, spec_read i o o2 = true <-> read_property i o o2.
Proof.
  intros i o o2. unfold spec_read, read_property. rewrite andb_true_iff.
  apply and_iff_both.
  - destruct (i_cobra i); cbn [andb].
    + destruct (2 <=? flags_given i)%nat eqn:E.
      * apply Nat.leb_le in E. split; auto.
      * apply Nat.leb_gt in E. split; [intros _ _ H; lia | reflexivity].
    + split; [intros _ H; discriminate | reflexivity].
  - destruct (reached (o_err o)).
    + rewrite andb_true_iff, same_values_sound, existsb_exists.
      split.
      * intros [[n [Hin Hn]] Hs] _. split; [|exact Hs].
        unfold values_ok in Hn. rewrite !andb_true_iff in Hn.
        destruct Hn as [Hnets [[Hp He] Hc]].
        exists n. split; [exact Hin|].
        split; [apply nets_ok_sound; exact Hnets|].
        split; [apply peers_ok_sound; exact Hp|].
        split; [apply electrum_ok_sound; exact He | apply contracts_ok_sound; exact Hc].
      * intro H. destruct (H eq_refl) as [[n [Hin [Hnets [Hp [He Hc]]]]] Hs]. split; [|exact Hs].
        exists n. split; [exact Hin|].
        unfold values_ok. rewrite !andb_true_iff.
        split; [apply nets_ok_sound; exact Hnets|].
        split; [split; [apply peers_ok_sound; exact Hp | apply electrum_ok_sound; exact He]
               | apply contracts_ok_sound; exact Hc].
    + split; [intros _ H; discriminate | reflexivity].
Qed.

(* ---------- every model output satisfies the property ---------- *)
Lemma contracts_prop_model : forall defs xs, (length xs <= length defs)%nat ->
  contracts_prop xs (resolve_contracts defs xs) defs.
Proof.
  intros defs xs Hl. unfold contracts_prop. split; [apply resolve_contracts_length; exact Hl|].
  split; [exact Hl|]. intros k x r d Hx Hr Hd.
  rewrite (resolve_contracts_nth _ _ _ _ _ Hx Hd) in Hr. inversion Hr; subst.
  destruct (N.eqb x 0) eqn:E.
  - apply N.eqb_eq in E. split; [congruence | auto].
  - apply N.eqb_neq in E. split; [auto | congruence].
Qed.

Lemma model_satisfies_property : forall i,
  env_wfb (i_env i) = true -> length (i_contracts i) = length (e_contracts (i_env i)) ->
  forall n2 k2, n2 = selected i \/ (i_flags i = FNil /\ n2 = NUnknown) ->
  read_property i (read_config i) (re_resolve (i_env i) n2 k2 (read_config i)).
Proof.
  intros i Hwf Hlen n2 k2 Hn. rewrite (re_resolve_fixpoint i Hwf n2 k2 Hn).
  unfold read_property. split.
  - intros Hc Hg. apply ambiguous_selection_refused. split; assumption.
  - intro Hr. split; [|repeat split].
    destruct (read_config_reached i Hr) as [Hne [p' [u' [Hp [Hu [Ep [Eu Ec]]]]]]].
    destruct (read_config_networks i) as [Heth [Hbtc _]].
    exists (selected i). split; [apply selected_in_candidates; exact Hne|].
    split; [|split; [|split]].
    + unfold nets_prop. destruct (networks_follow_selection i) as [Hf [Hnf Hex]].
      unfold has_flags in Hf, Hnf. destruct (i_flags i); [exact Hex | apply Hf; reflexivity].
    + destruct (explicit_values_kept i Hr) as [K _].
      destruct (defaults_only_where_unset i Hr) as [D _].
      unfold peers_prop. split; [exact K|]. intro He. specialize (D He).
      destruct (has_defaults (selected i)); [right; exact D | left; exact D].
    + destruct (explicit_values_kept i Hr) as [_ [K _]].
      unfold electrum_prop. split; [exact K|]. intro He.
      rewrite He in Hu. rewrite Eu.
      pose proof (resolve_electrum_unset _ _ _ _ Hu) as D.
      destruct (networks_follow_selection i) as [Hf [Hnf _]].
      unfold has_flags in Hf, Hnf. destruct (i_flags i) eqn:Hfl.
      * destruct (Hnf eq_refl) as [_ [Hb _]]. rewrite Hbtc in Hb. rewrite Hb in D. simpl in D. left. exact D.
      * destruct (Hf eq_refl) as [_ Hb]. rewrite Hbtc in Hb. rewrite Hb in D.
        destruct (selected i); simpl in *; auto.
    + rewrite Ec. apply contracts_prop_model. rewrite map_length. apply Nat.eq_le_incl. exact Hlen.
Qed.

Lemma model_passes_spec : forall i,
  env_wfb (i_env i) = true -> length (i_contracts i) = length (e_contracts (i_env i)) ->
  forall n2 k2, n2 = selected i \/ (i_flags i = FNil /\ n2 = NUnknown) ->
  spec_read i (read_config i) (re_resolve (i_env i) n2 k2 (read_config i)) = true.
Proof. intros. apply spec_read_sound. apply model_satisfies_property; assumption. Qed.

(* ---------- the unit cases ---------- *)
Lemma unit_specs_sound :
  (forall e n p l r2, spec_peers e n p (POk l) r2 = true ->
     peers_prop p l (if has_defaults n then e_peers e n else None) /\ r2 = POk l) /\
  (forall e b u v r2, spec_electrum e b u (UOk v) r2 = true ->
     electrum_prop u v (if btc_has_defaults b then e_urls e b else None) /\ r2 = UOk v) /\
  (forall m t d n er eth btc, spec_nets (FSet m t d) (Some (n, er, eth, btc)) = true ->
     eth = net_eth n /\ btc = net_btc n /\ (er = false -> In n (candidates_of (FSet m t d)))).
Proof.
  split; [|split].
  - intros e n p l r2 H. simpl in H. apply andb_true_iff in H as [H1 H2].
    apply peers_ok_sound in H1. split; [exact H1|].
    destruct r2 as [y| |]; simpl in H2; try discriminate. apply list_eqb_eq in H2. congruence.
  - intros e b u v r2 H. simpl in H. apply andb_true_iff in H as [H1 H2].
    apply electrum_ok_sound in H1. split; [destruct b; exact H1|].
    destruct r2 as [y| |]; simpl in H2; try discriminate. apply N.eqb_eq in H2. congruence.
  - intros m t d n er eth btc H. unfold spec_nets in H. rewrite !andb_true_iff in H.
    destruct H as [[H1 H2] H3]. apply eth_eqb_eq in H1. apply btc_eqb_eq in H2.
    split; [exact H1|]. split; [exact H2|]. intro He. subst er. simpl in H3.
    apply existsb_exists in H3. destruct H3 as [n' [Hin Hn]].
    apply net_eqb_eq in Hn. subst. exact Hin.
Qed.

Lemma model_passes_unit_specs :
  (forall e n p, match resolve_peers e n p with
                 | POk l => spec_peers e n p (POk l) (resolve_peers e n l) = true
                 | PErr => True | PPanic => False end) /\
  (forall e k b u, env_wfb e = true ->
                 match resolve_electrum e k b u with
                 | UOk v => forall k', spec_electrum e b u (UOk v) (resolve_electrum e k' b v) = true
                 | UErr => True | UPanic => e_urls e b = Some [] end) /\
  (forall m t d, spec_nets (FSet m t d) (model_nets (FSet m t d)) = true).
Proof.
  repeat split.
  - intros e n p. destruct (resolve_peers e n p) as [l| |] eqn:H; auto.
    + simpl. rewrite (resolve_peers_idem _ _ _ _ H). simpl. rewrite list_eqb_refl, andb_true_r.
      apply peers_ok_sound. unfold peers_prop. split.
      * intro Hne. rewrite resolve_peers_explicit in H by exact Hne. congruence.
      * intro He. subst p. rewrite resolve_peers_unset in H.
        destruct (has_defaults n); [|left; congruence].
        destruct (e_peers e n); [right; congruence | discriminate].
    + destruct p; simpl in H; [|discriminate]. destruct n; try discriminate;
      destruct (e_peers e _); discriminate.
  - intros e k b u Hwf. destruct (resolve_electrum e k b u) as [v| |] eqn:H; auto.
    + intro k'. simpl. rewrite (resolve_electrum_idem _ Hwf _ _ _ _ H k'). simpl.
      rewrite N.eqb_refl, andb_true_r. apply electrum_ok_sound. unfold electrum_prop. split.
      * intro Hne. rewrite resolve_electrum_explicit in H by exact Hne. congruence.
      * intro He. subst u. pose proof (resolve_electrum_unset _ _ _ _ H) as D.
        destruct b; simpl in D; auto.
    + unfold resolve_electrum in H. destruct (negb (u =? 0)); [discriminate|].
      destruct b; try discriminate; destruct (e_urls e _) as [[|]|]; try discriminate; reflexivity.
  - intros m t d. unfold model_nets, spec_nets.
    destruct t as [[]|], d as [[]|], m as [[]|]; reflexivity.
Qed.

(* ---------- resolution histories on one Config ---------- *)
Lemma step_networks : forall e c s, flagged s = true ->
  c_eth (h_cfg (hstep_run e c s)) = net_eth (fst (step_select s)) /\
  c_btc (h_cfg (hstep_run e c s)) = net_btc (fst (step_select s)).
Proof.
  intros e c s Hf. destruct s as [f|f k|i]; unfold flagged, step_select in *; simpl in *.
  - unfold step_select. simpl. destruct f as [|m t d]; [discriminate|].
    destruct (select_network t d) as [n er]. split; reflexivity.
  - unfold step_select. simpl. destruct f as [|m t d]; [discriminate|].
    destruct (select_network t d) as [n er]. simpl.
    destruct er; [split; reflexivity|].
    destruct (resolve_peers _ _ _); try (split; reflexivity).
    destruct (resolve_electrum _ _ _ _); split; reflexivity.
  - destruct (read_config_networks i) as [He [Hb _]]. rewrite He, Hb.
    unfold networks. destruct (i_flags i) as [|m t d]; [discriminate|].
    destruct (select_network t d) as [n er]. split; reflexivity.
Qed.

Definition obs_networks (o : hobs) : ethnet * btcnet := (c_eth (h_cfg o), c_btc (h_cfg o)).
Definition step_networks_of (s : hstep) : ethnet * btcnet :=
  (net_eth (fst (step_select s)), net_btc (fst (step_select s))).

(* history = map: the networks after every step are a function of THAT step's selection alone *)
Lemma hist_networks_are_map : forall e steps c0, forallb flagged steps = true ->
  map obs_networks (run_hist e c0 steps) = map step_networks_of steps.
Proof.
  intros e steps. induction steps as [|s rest IH]; intros c0 H; simpl in *; [reflexivity|].
  apply andb_true_iff in H as [Hs Hr]. f_equal; [|apply IH; exact Hr].
  unfold obs_networks, step_networks_of. destruct (step_networks e c0 s Hs) as [A B]. rewrite A, B. reflexivity.
Qed.

Lemma last_cons_default : forall (A : Type) (l : list A) (x d d' : A), last (x :: l) d = last (x :: l) d'.
Proof. induction l as [|y l IH]; intros x d d'; [reflexivity|]. change (last (y :: l) d = last (y :: l) d'). apply IH. Qed.

Lemma run_hist_app : forall e a b c0,
  run_hist e c0 (a ++ b) = run_hist e c0 a ++ run_hist e (last (map h_cfg (run_hist e c0 a)) c0) b.
Proof.
  intros e a. induction a as [|s rest IH]; intros b c0; simpl; [reflexivity|].
  f_equal. rewrite IH. f_equal. f_equal.
  destruct (run_hist e (h_cfg (hstep_run e c0 s)) rest) eqn:E; [reflexivity|].
  simpl map. apply last_cons_default.
Qed.

(* the last selection decides BOTH networks, whatever the Config held and whatever came before *)
Lemma last_selection_wins : forall e c0 steps s, flagged s = true ->
  forall o, last (run_hist e c0 (steps ++ [s])) o =
            hstep_run e (last (map h_cfg (run_hist e c0 steps)) c0) s /\
  obs_networks (last (run_hist e c0 (steps ++ [s])) o) = step_networks_of s.
Proof.
  intros e c0 steps s Hf o. rewrite run_hist_app. simpl.
  assert (L : forall (l : list hobs) x d, last (l ++ [x]) d = x).
  { induction l as [|a l IH]; intros; simpl; [reflexivity|]. destruct (l ++ [x]) eqn:E.
    - destruct l; discriminate. - rewrite <- E. apply IH. }
  rewrite L. split; [reflexivity|].
  unfold obs_networks, step_networks_of.
  destruct (step_networks e (last (map h_cfg (run_hist e c0 steps)) c0) s Hf) as [A B]. rewrite A, B. reflexivity.
Qed.

(* a pre-populated (or earlier resolved) network pair has no influence on a step *)
Lemma prepopulated_networks_overwritten : forall e c eth btc s, flagged s = true ->
  hstep_run e {| c_eth := eth; c_btc := btc; c_peers := c_peers c; c_electrum := c_electrum c;
                 c_contracts := c_contracts c |} s = hstep_run e c s.
Proof.
  intros e c eth btc s Hf. destruct s as [f|f k|i]; unfold hstep_run; simpl; try reflexivity.
Qed.

Lemma peers_ok_same : forall p d, peers_ok p p d = true.
Proof. intros [|x p] d; simpl; [reflexivity|]. rewrite N.eqb_refl. apply list_eqb_refl. Qed.
Lemma electrum_ok_same : forall u d, electrum_ok u u d = true.
Proof. intros u d. unfold electrum_ok. destruct (N.eqb u 0) eqn:E; simpl; [reflexivity|apply N.eqb_refl]. Qed.
Lemma contracts_ok_same : forall xs defs, (length xs <= length defs)%nat -> contracts_ok xs xs defs = true.
Proof.
  induction xs as [|x xs IH]; intros [|d ds] H; simpl in *; try reflexivity; try lia.
  rewrite IH by lia. destruct (N.eqb x 0) eqn:E; simpl; [|rewrite N.eqb_refl]; reflexivity.
Qed.
Lemma contracts_ok_model : forall defs xs, (length xs <= length defs)%nat ->
  contracts_ok xs (resolve_contracts defs xs) defs = true.
Proof. intros. apply contracts_ok_sound. apply contracts_prop_model. assumption. Qed.
Lemma resolve_peers_ok : forall e n p l, resolve_peers e n p = POk l ->
  peers_ok p l (if has_defaults n then e_peers e n else None) = true.
Proof.
  intros e n p l H. destruct model_passes_unit_specs as [U _]. specialize (U e n p). rewrite H in U.
  simpl in U. apply andb_true_iff in U as [U _]. exact U.
Qed.
Lemma resolve_electrum_ok : forall e k n u v, env_wfb e = true ->
  resolve_electrum e k (net_btc n) u = UOk v ->
  electrum_ok u v (if has_defaults n then e_urls e (net_btc n) else None) = true.
Proof.
  intros e k n u v Hwf H. destruct model_passes_unit_specs as [_ [U _]].
  specialize (U e k (net_btc n) u Hwf). rewrite H in U. specialize (U k). simpl in U.
  apply andb_true_iff in U as [U _]. destruct n; exact U.
Qed.
Lemma spec_nets_model : forall m t d b, (snd (select_network t d) = true -> b = true) ->
  spec_nets (FSet m t d) (Some (fst (select_network t d), b,
                                net_eth (fst (select_network t d)), net_btc (fst (select_network t d)))) = true.
Proof.
  intros m t d b H. destruct t as [[]|], d as [[]|], m as [[]|], b; simpl in *; try reflexivity;
  specialize (H eq_refl); discriminate.
Qed.

Lemma nets_error_first : forall i, snd (fst (fst (networks i))) = true -> o_err (read_config i) = EResolveNetworks.
Proof. intro i. unfold read_config. destruct (networks i) as [[[n nerr] eth] btc]. simpl. intros ->. reflexivity. Qed.

Lemma out_of_read : forall i, i_cobra i = false ->
  out_of {| h_net := NUnknown; h_err := o_err (read_config i); h_cfg := cfg_of (read_config i) |} = read_config i.
Proof.
  intros i Hc. destruct (read_config_networks i) as [_ [_ Hr]]. unfold refused in Hr. rewrite Hc in Hr.
  simpl in Hr. unfold out_of, cfg_of. simpl. destruct (read_config i). simpl in *. subst. reflexivity.
Qed.

Lemma read_config_contracts_length : forall i, length (i_contracts i) = length (e_contracts (i_env i)) ->
  length (o_contracts (read_config i)) = length (e_contracts (i_env i)).
Proof.
  intros i H. unfold read_config. destruct (networks i) as [[[n nerr] eth] btc].
  assert (R : length (resolve_contracts (e_contracts (i_env i)) (map (explicit i 0) (i_contracts i)))
              = length (e_contracts (i_env i))).
  { rewrite resolve_contracts_length; rewrite map_length; [exact H | apply Nat.eq_le_incl; exact H]. }
  destruct nerr; simpl; [rewrite map_length; exact H|].
  destruct (i_file i); simpl; try (rewrite map_length; exact H);
  (destruct (resolve_peers _ _ _); simpl; try exact R; destruct (resolve_electrum _ _ _ _); simpl; exact R).
Qed.

Lemma hstep_model_ok : forall e c s, env_wfb e = true -> hstep_wfb e s = true ->
  length (c_contracts c) = length (e_contracts e) ->
  hstep_ok e c s (hstep_run e c s) = true /\
  length (c_contracts (h_cfg (hstep_run e c s))) = length (e_contracts e).
Proof.
  intros e c s Hwf Hs Hlen. unfold hstep_wfb in Hs. apply andb_true_iff in Hs as [Hfl Hs].
  destruct s as [f|f k|i].
  - unfold flagged in Hfl. simpl in Hfl. destruct f as [|m t d]; [discriminate|].
    unfold hstep_run, hstep_ok, step_select. simpl flags_of. cbv iota.
    pose proof (spec_nets_model m t d) as SN.
    destruct (select_network t d) as [n er]. simpl in SN. simpl h_net. simpl h_err. simpl h_cfg.
    split; [|exact Hlen]. apply andb_true_iff. split.
    + destruct er; [exact (SN true (fun _ => eq_refl)) | exact (SN false ltac:(discriminate))].
    + destruct er; simpl; [reflexivity|]. unfold state_values_ok. simpl.
      rewrite peers_ok_same, electrum_ok_same, contracts_ok_same by lia. reflexivity.
  - unfold flagged in Hfl. simpl in Hfl. destruct f as [|m t d]; [discriminate|].
    unfold hstep_run, hstep_ok, step_select. simpl flags_of. cbv iota.
    pose proof (spec_nets_model m t d) as SN.
    destruct (select_network t d) as [n er]. simpl in SN.
    assert (RL : length (resolve_contracts (e_contracts e) (c_contracts c)) = length (e_contracts e)).
    { rewrite resolve_contracts_length; lia. }
    destruct er; simpl.
    { split; [|exact Hlen]. rewrite andb_true_r. exact (SN true (fun _ => eq_refl)). }
    destruct (resolve_peers e n (c_peers c)) as [p'| |] eqn:Hp; simpl.
    + destruct (resolve_electrum e k (net_btc n) (c_electrum c)) as [u'| |] eqn:Hu; simpl.
      * split; [|exact RL]. apply andb_true_iff. split; [exact (SN false ltac:(discriminate))|].
        unfold state_values_ok. simpl.
        rewrite (resolve_peers_ok _ _ _ _ Hp), (resolve_electrum_ok _ _ _ _ _ Hwf Hu).
        rewrite contracts_ok_model by lia. reflexivity.
      * split; [|exact RL]. rewrite andb_true_r. exact (SN false ltac:(discriminate)).
      * split; [|exact RL]. rewrite andb_true_r. exact (SN false ltac:(discriminate)).
    + split; [|exact RL]. rewrite andb_true_r. exact (SN false ltac:(discriminate)).
    + split; [|exact RL]. rewrite andb_true_r. exact (SN false ltac:(discriminate)).
  - rewrite !andb_true_iff in Hs. destruct Hs as [[[Hc Hwfi] Hli] Hce].
    apply negb_true_iff in Hc. apply Nat.eqb_eq in Hli. apply list_eqb_eq in Hce.
    assert (Hhf : has_flags i = true).
    { unfold flagged in Hfl. simpl in Hfl. unfold has_flags. destruct (i_flags i); [discriminate|reflexivity]. }
    split.
    2:{ simpl. rewrite <- Hce. apply read_config_contracts_length. exact Hli. }
    unfold hstep_ok, hstep_run. rewrite (out_of_read i Hc). simpl h_err. rewrite Hhf. simpl.
    destruct (reached (o_err (read_config i))) eqn:Hr.
    + pose proof (model_passes_spec i Hwfi Hli (selected i) 0%nat (or_introl eq_refl)) as M.
      unfold spec_read in M. rewrite Hr in M. apply andb_true_iff in M as [_ M].
      apply andb_true_iff in M as [M _]. exact M.
    + destruct (nets_stage (o_err (read_config i))) eqn:Hn; [|reflexivity].
      apply existsb_exists. exists (selected i). split.
      * apply selected_in_candidates. destruct (snd (fst (fst (networks i)))) eqn:E; [|reflexivity].
        rewrite (nets_error_first i E) in Hn. discriminate.
      * unfold nets_ok. destruct (networks_follow_selection i) as [F _]. destruct (F Hhf) as [A B].
        unfold has_flags in Hhf. destruct (i_flags i); [discriminate|].
        rewrite A, B. apply andb_true_iff. split; [apply eth_eqb_eq|apply btc_eqb_eq]; reflexivity.
Qed.

Lemma model_history_passes_spec : forall e steps c0, env_wfb e = true ->
  forallb (hstep_wfb e) steps = true -> length (c_contracts c0) = length (e_contracts e) ->
  hist_ok e c0 steps (run_hist e c0 steps) = true.
Proof.
  intros e steps. induction steps as [|s rest IH]; intros c0 Hwf Hs Hl; simpl in *; [reflexivity|].
  apply andb_true_iff in Hs as [H1 H2].
  destruct (hstep_model_ok e c0 s Hwf H1 Hl) as [A B]. rewrite A. simpl. apply IH; assumption.
Qed.

Lemma hstep_ok_sound : forall e pre s o, hstep_ok e pre s o = true -> hstep_prop e pre s o.
Proof.
  intros e pre s o H.
  assert (NR : forall f, spec_nets f (Some (h_net o, err_eqb (h_err o) EResolveNetworks, c_eth (h_cfg o), c_btc (h_cfg o)))
                 && (if reached (h_err o) then state_values_ok e (h_net o) pre (h_cfg o) else true) = true ->
               c_eth (h_cfg o) = net_eth (h_net o) /\ c_btc (h_cfg o) = net_btc (h_net o) /\
               (h_err o <> EResolveNetworks -> In (h_net o) (candidates_of f)) /\
               (reached (h_err o) = true ->
                  peers_prop (c_peers pre) (c_peers (h_cfg o)) (if has_defaults (h_net o) then e_peers e (h_net o) else None) /\
                  electrum_prop (c_electrum pre) (c_electrum (h_cfg o))
                                (if has_defaults (h_net o) then e_urls e (net_btc (h_net o)) else None) /\
                  contracts_prop (c_contracts pre) (c_contracts (h_cfg o)) (e_contracts e))).
  { intros f Hf. apply andb_true_iff in Hf as [H1 H2]. destruct f as [|m t d]; [discriminate|].
    destruct unit_specs_sound as [_ [_ U]]. destruct (U _ _ _ _ _ _ _ H1) as [A [B C]].
    split; [exact A|]. split; [exact B|]. split.
    - intro Hne. apply C. destruct (err_eqb (h_err o) EResolveNetworks) eqn:E; [|reflexivity].
      apply err_eqb_eq in E. contradiction.
    - intro Hr. rewrite Hr in H2. unfold state_values_ok in H2. rewrite !andb_true_iff in H2.
      destruct H2 as [[P1 P2] P3]. split; [apply peers_ok_sound; exact P1|].
      split; [apply electrum_ok_sound; exact P2 | apply contracts_ok_sound; exact P3]. }
  destruct s as [f|f k|i]; simpl in *; try (apply NR; exact H).
  apply andb_true_iff in H as [Hhf H]. split; [exact Hhf|]. intro Hn.
  assert (NP : forall n, nets_ok i n (out_of o) = true -> c_eth (h_cfg o) = net_eth n /\ c_btc (h_cfg o) = net_btc n).
  { intros n Hk. unfold nets_ok in Hk. unfold has_flags in Hhf. destruct (i_flags i); [discriminate|].
    apply andb_true_iff in Hk as [A B]. apply eth_eqb_eq in A. apply btc_eqb_eq in B. split; assumption. }
  destruct (reached (h_err o)) eqn:Hr.
  - apply existsb_exists in H. destruct H as [n [Hin Hk]]. apply andb_true_iff in Hk as [K1 K2].
    exists n. split; [exact Hin|]. destruct (NP n K1) as [A B]. split; [exact A|]. split; [exact B|].
    intros _. unfold values_ok in K2. rewrite !andb_true_iff in K2. destruct K2 as [[P1 P2] P3].
    split; [apply peers_ok_sound; exact P1|].
    split; [apply electrum_ok_sound; exact P2 | apply contracts_ok_sound; exact P3].
  - rewrite Hn in H. apply existsb_exists in H. destruct H as [n [Hin K1]].
    exists n. split; [exact Hin|]. destruct (NP n K1) as [A B]. split; [exact A|]. split; [exact B|].
    intro; discriminate.
Qed.

Lemma hist_ok_sound : forall e steps obs c0, hist_ok e c0 steps obs = true ->
  length obs = length steps /\
  forall k s o, nth_error steps k = Some s -> nth_error obs k = Some o ->
    hstep_prop e (match k with O => c0 | S j => match nth_error obs j with Some p => h_cfg p | None => c0 end end) s o.
Proof.
  intros e steps. induction steps as [|s rest IH]; intros [|o obs] c0 H; simpl in H; try discriminate.
  - split; [reflexivity|]. intros [|k]; discriminate.
  - apply andb_true_iff in H as [H1 H2]. destruct (IH obs (h_cfg o) H2) as [L R].
    split; [simpl; congruence|]. intros [|k] s' o' Hs Ho.
    + simpl in *. inversion Hs; inversion Ho; subst. apply hstep_ok_sound. exact H1.
    + change (nth_error rest k = Some s') in Hs. change (nth_error obs k = Some o') in Ho.
      specialize (R k s' o' Hs Ho). destruct k as [|j]; [exact R|].
      change (hstep_prop e (match nth_error obs j with Some p => h_cfg p | None => c0 end) s' o').
      destruct (nth_error obs j) eqn:E; [exact R|].
      apply nth_error_None in E. assert (N0 : nth_error obs (S j) = None) by (apply nth_error_None; lia).
      congruence.
Qed.

(* ---------- the hypotheses are satisfiable, the statements are not vacuous ---------- *)
Definition ex_env : env :=
  {| e_peers := net4 None (Some [1; 2]) (Some [3]) None;
     e_urls := btc4 None (Some [4; 5]) (Some [6]) None;
     e_contracts := [7; 0]; e_port := 3919 |}.
Definition none_src {A} : src A := {| s_file := None; s_flag := None |}.
Definition ex_input (f : flagset) (p : src (list str)) (u : src str) (c : list (src str)) : input :=
  {| i_env := ex_env; i_flags := f; i_cobra := true; i_file := FGood;
     i_peers := p; i_electrum := u; i_contracts := c;
     i_ethurl := {| s_file := Some 20; s_flag := None |}; i_keyfile := {| s_file := Some 21; s_flag := None |};
     i_storage := {| s_file := Some 22; s_flag := None |}; i_port := none_src;
     i_validate := true; i_pick := 1 |}.

(* testnet, everything unset: all defaults of the test network; reached, wf, unambiguous *)
Example ex_defaults :
  let i := ex_input (FSet (Some false) (Some true) (Some false)) none_src none_src [none_src; none_src] in
  env_wfb (i_env i) = true /\ length (i_contracts i) = length (e_contracts (i_env i)) /\
  read_config i = {| o_err := ENone; o_refused := false; o_eth := ESepolia; o_btc := BTestnet;
                     o_peers := [3]; o_electrum := 6; o_contracts := [7; 0] |}.
Proof. vm_compute. repeat split. Qed.

(* mainnet, explicit file values and a flag overriding one of them: nothing replaced *)
Example ex_explicit :
  let i := ex_input (FSet (Some true) (Some false) (Some false))
                    {| s_file := Some [30]; s_flag := None |}
                    {| s_file := Some 31; s_flag := Some 32 |}
                    [{| s_file := Some 33; s_flag := None |}; none_src] in
  read_config i = {| o_err := ENone; o_refused := false; o_eth := EMainnet; o_btc := BMainnet;
                     o_peers := [30]; o_electrum := 32; o_contracts := [33; 0] |}.
Proof. vm_compute. reflexivity. Qed.

(* developer: no defaults for peers and Electrum, validation fails, contracts still defaulted;
   two network flags: refused by the command, testnet taken by ReadConfig *)
Example ex_developer_and_ambiguous :
  read_config (ex_input (FSet (Some false) (Some false) (Some true)) none_src none_src [none_src; none_src])
  = {| o_err := EValidation; o_refused := false; o_eth := EDeveloper; o_btc := BRegtest;
       o_peers := []; o_electrum := 0; o_contracts := [7; 0] |} /\
  read_config (ex_input (FSet (Some false) (Some true) (Some true)) none_src none_src [none_src; none_src])
  = {| o_err := ENone; o_refused := true; o_eth := ESepolia; o_btc := BTestnet;
       o_peers := [3]; o_electrum := 6; o_contracts := [7; 0] |}.
Proof. vm_compute. split; reflexivity. Qed.

(* a history on one pre-populated Config (Ethereum mainnet with Bitcoin regtest, explicit peers):
   --testnet (networks only), then --developer (resolution stage), then ReadConfig without a
   network flag: the hypotheses of the history theorems hold and every step follows its own
   selection; the explicit peers survive the first two steps *)
Example ex_history :
  let c0 := {| c_eth := EMainnet; c_btc := BRegtest; c_peers := [40]; c_electrum := 0; c_contracts := [0; 41] |} in
  let i := {| i_env := ex_env; i_flags := FSet (Some false) (Some false) (Some false); i_cobra := false;
              i_file := FNone; i_peers := none_src; i_electrum := none_src; i_contracts := [none_src; none_src];
              i_ethurl := none_src; i_keyfile := none_src; i_storage := none_src; i_port := none_src;
              i_validate := false; i_pick := 0 |} in
  let steps := [HNets (FSet (Some false) (Some true) (Some false));
                HResolve (FSet (Some false) (Some false) (Some true)) 0; HRead i] in
  env_wfb ex_env = true /\ forallb (hstep_wfb ex_env) steps = true /\
  map obs_networks (run_hist ex_env c0 steps) = [(ESepolia, BTestnet); (EDeveloper, BRegtest); (EMainnet, BMainnet)] /\
  map (fun o => c_peers (h_cfg o)) (run_hist ex_env c0 steps) = [[40]; [40]; [1; 2]] /\
  hist_ok ex_env c0 steps (run_hist ex_env c0 steps) = true.
Proof. vm_compute. repeat split. Qed.
