From Coq Require Import ZArith NArith List Bool Lia.
From KV Require Import Model.C40.
Import ListNotations.
Open Scope N_scope.
Lemma insert_length : forall x l, length (insert x l) = S (length l).
Proof. induction l as [|y t IH]; simpl; auto. destruct (x <=? y); simpl; auto. Qed.
