(* C40 — proofs.  Statements of the property theorems are in Props/C40.v. *)
From Coq Require Import ZArith NArith List Bool Lia Permutation Sorted.
From Coq Require Import ZifyBool ZifyNat ZifyN.
From KV Require Import Model.C40.
Import ListNotations.
Open Scope N_scope.

Ltac Zify.zify_post_hook ::= Z.div_mod_to_equations.
Arguments word : simpl never.
Arguments pad32 : simpl never.
Arguments hb : simpl never.
Arguments two256 : simpl never.

(* ------------------------------------------------------------------ lengths and encodings *)

Lemma lenN_app {A} (a b : list A) : lenN (a ++ b) = lenN a + lenN b.
Proof. unfold lenN. rewrite app_length. lia. Qed.
Lemma lenN_cons {A} (x : A) (l : list A) : lenN (x :: l) = 1 + lenN l.
Proof. unfold lenN. simpl length. lia. Qed.
Lemma lenN_nil {A} : lenN (@nil A) = 0.
Proof. reflexivity. Qed.

Lemma be_bytes_length n v : length (be_bytes n v) = n.
Proof.
  revert v. induction n as [|n IH]; intros v; simpl; auto.
  rewrite app_length, IH. simpl. lia.
Qed.
Lemma word_length v : length (word v) = 32%nat.
Proof. apply be_bytes_length. Qed.
Lemma lenN_word v : lenN (word v) = 32.
Proof. unfold lenN. rewrite word_length. reflexivity. Qed.

Lemma be_value_app a b : be_value (a ++ [b]) = be_value a * 256 + b.
Proof. unfold be_value. rewrite fold_left_app. reflexivity. Qed.
Lemma be_value_be_bytes n v : v < 256 ^ N.of_nat n -> be_value (be_bytes n v) = v.
Proof.
  revert v. induction n as [|n IH]; intros v Hv.
  - simpl in *. unfold be_value. simpl. lia.
  - cbn [be_bytes]. rewrite be_value_app, IH.
    + pose proof (N.div_mod v 256). lia.
    + rewrite Nat2N.inj_succ, N.pow_succ_r' in Hv.
      apply N.div_lt_upper_bound; lia.
Qed.

Lemma flat_map_word_length l : length (flat_map word l) = (32 * length l)%nat.
Proof.
  induction l as [|x t IH]; [reflexivity|]. cbn [flat_map]. rewrite app_length, word_length, IH.
  simpl length. lia.
Qed.
Lemma pad32_length b : exists k, length (pad32 b) = (32 * k)%nat.
Proof.
  unfold pad32. rewrite app_length, repeat_length.
  exists (N.to_nat ((lenN b + (32 - lenN b mod 32) mod 32) / 32)).
  unfold lenN. lia.
Qed.
Global Opaque word pad32.
Lemma enc_val_length a : exists k, length (enc_val a) = (32 * k)%nat.
Proof.
  destruct a as [v|b|l]; cbn [enc_val].
  - exists 1%nat. rewrite word_length. reflexivity.
  - destruct (pad32_length b) as [k Hk]. exists (S k). rewrite app_length, word_length, Hk. lia.
  - exists (S (length l)). rewrite app_length, word_length, flat_map_word_length. lia.
Qed.
Lemma tails_length args : exists k, length (tails args) = (32 * k)%nat.
Proof.
  induction args as [|a t [k Hk]]; cbn [tails].
  - exists 0%nat. reflexivity.
  - rewrite app_length, Hk. destruct (is_dyn a).
    + destruct (enc_val_length a) as [j Hj]. exists (j + k)%nat. lia.
    + exists k. cbn [length]. lia.
Qed.
Lemma heads_length args off : length (heads args off) = (32 * length args)%nat.
Proof.
  revert off. induction args as [|a t IH]; intros off; [reflexivity|].
  cbn [heads]. destruct a as [v|b|l]; cbn [is_dyn enc_val]; rewrite app_length, IH, word_length;
    cbn [length]; lia.
Qed.

(* abi.encode output: a whole number of words, 32 bytes of head per argument *)
Lemma abi_encode_length args :
  exists k, length (abi_encode args) = (32 * (length args + k))%nat.
Proof.
  unfold abi_encode. destruct (tails_length args) as [k Hk]. exists k.
  rewrite app_length, heads_length, Hk. lia.
Qed.

Lemma heads_app pre post off :
  heads (pre ++ post) off = heads pre off ++ heads post (off + lenN (tails pre)).
Proof.
  revert off. induction pre as [|a t IH]; intros off; cbn [heads tails app].
  - f_equal. rewrite lenN_nil. lia.
  - destruct (is_dyn a); rewrite IH; cbn [app]; rewrite ?lenN_app, <- ?app_assoc, ?N.add_assoc; reflexivity.
Qed.
Lemma tails_app pre post : tails (pre ++ post) = tails pre ++ tails post.
Proof. induction pre as [|a t IH]; cbn [tails app]; auto. rewrite IH, app_assoc. reflexivity. Qed.

(* the head slot of a dynamic argument holds exactly the position at which its encoding starts *)
Lemma abi_offset_points_to_tail pre a post :
  is_dyn a = true ->
  exists h1 h2 off,
    abi_encode (pre ++ a :: post) = h1 ++ word off ++ h2 ++ tails pre ++ enc_val a ++ tails post
    /\ length h1 = (32 * length pre)%nat
    /\ off = lenN (h1 ++ word off ++ h2 ++ tails pre).
Proof.
  intros Hd. unfold abi_encode.
  set (n := 32 * lenN (pre ++ a :: post)).
  rewrite heads_app, tails_app. cbn [heads tails]. rewrite Hd.
  exists (heads pre n), (heads post (n + lenN (tails pre) + lenN (enc_val a))), (n + lenN (tails pre)).
  repeat rewrite <- app_assoc. split; [reflexivity|]. split; [apply heads_length|].
  rewrite !lenN_app, lenN_word. unfold lenN at 2 3. rewrite !heads_length.
  subst n. rewrite lenN_app, lenN_cons. unfold lenN. lia.
Qed.

(* go-ethereum's packing loop computes abi.encode *)
Lemma go_pack_loop_spec args : forall off ret var,
  go_pack_loop args off ret var = ret ++ heads args off ++ var ++ tails args.
Proof.
  induction args as [|a t IH]; intros off ret var; cbn [go_pack_loop heads tails app].
  - rewrite app_nil_r. reflexivity.
  - destruct (is_dyn a); rewrite IH; repeat rewrite <- app_assoc; reflexivity.
Qed.
Lemma fold_head_size (args : list aval) k :
  fold_left (fun acc _ => acc + 32) args k = k + 32 * lenN args.
Proof.
  revert k. induction args as [|a t IH]; intros k; cbn [fold_left].
  - unfold lenN. cbn [length]. lia.
  - rewrite IH, lenN_cons. lia.
Qed.
Lemma go_pack_eq args : go_pack args = abi_encode args.
Proof.
  unfold go_pack, abi_encode. rewrite go_pack_loop_spec, fold_head_size. cbn [app]. reflexivity.
Qed.

(* ------------------------------------------------------------------ sorting *)

Lemma insert_perm x l : Permutation (insert x l) (x :: l).
Proof.
  induction l as [|y t IH]; simpl; auto. destruct (x <=? y); auto.
  etransitivity; [apply perm_skip, IH | apply perm_swap].
Qed.
Lemma sortN_perm l : Permutation (sortN l) l.
Proof.
  induction l as [|a t IH]; simpl; auto.
  etransitivity; [apply insert_perm | apply perm_skip, IH].
Qed.
Lemma insert_sorted x l : StronglySorted N.le l -> StronglySorted N.le (insert x l).
Proof.
  induction l as [|y t IH]; intros Hs; simpl.
  - constructor; constructor.
  - destruct (x <=? y) eqn:E.
    + constructor; auto. inversion Hs; subst. constructor; [lia|].
      eapply Forall_impl; [|eassumption]. intros; simpl in *; lia.
    + inversion Hs; subst. constructor; auto.
      eapply Permutation_Forall; [symmetry; apply insert_perm|]. constructor; auto. lia.
Qed.
Lemma sortN_sorted l : StronglySorted N.le (sortN l).
Proof. induction l; simpl; [constructor | apply insert_sorted; auto]. Qed.

Lemma sorted_perm_eq a : forall b,
  StronglySorted N.le a -> StronglySorted N.le b -> Permutation a b -> a = b.
Proof.
  induction a as [|x a IH]; intros b Ha Hb Hp.
  - apply Permutation_nil in Hp. auto.
  - destruct b as [|y b]; [apply Permutation_sym, Permutation_nil in Hp; discriminate|].
    inversion Ha; subst. inversion Hb; subst.
    assert (x = y).
    { assert (In x (y :: b)) by (eapply Permutation_in; [eassumption | left; auto]).
      assert (In y (x :: a)) by (eapply Permutation_in; [symmetry; eassumption | left; auto]).
      rewrite Forall_forall in *. simpl in *.
      destruct H as [->|Hx]; auto. destruct H0 as [->|Hy]; auto.
      specialize (H2 _ Hy). specialize (H4 _ Hx). lia. }
    subst. f_equal. apply IH; auto. eapply Permutation_cons_inv; eassumption.
Qed.
Lemma sortN_perm_eq a b : Permutation a b -> sortN a = sortN b.
Proof.
  intros Hp. apply sorted_perm_eq; auto using sortN_sorted.
  etransitivity; [apply sortN_perm|]. etransitivity; [eassumption|]. symmetry. apply sortN_perm.
Qed.

Lemma sorted_nodup_lt l : StronglySorted N.le l -> NoDup l -> StronglySorted N.lt l.
Proof.
  induction l as [|x t IH]; intros Hs Hn; [constructor|].
  inversion Hs; subst. inversion Hn; subst. constructor; auto.
  rewrite Forall_forall in *. intros y Hy. specialize (H2 _ Hy).
  assert (x <> y) by (intros ->; auto). lia.
Qed.
Lemma sortN_nodup_lt l : NoDup l -> StronglySorted N.lt (sortN l).
Proof.
  intros Hn. apply sorted_nodup_lt; [apply sortN_sorted|].
  eapply Permutation_NoDup; [symmetry; apply sortN_perm | assumption].
Qed.
Lemma strictly_increasing_of_sorted l : StronglySorted N.lt l -> strictly_increasing l = true.
Proof.
  induction l as [|a t IH]; intros Hs; [reflexivity|].
  inversion Hs; subst. destruct t as [|b t']; [reflexivity|].
  change (strictly_increasing (a :: b :: t')) with ((a <? b) && strictly_increasing (b :: t')).
  rewrite IH by assumption.
  inversion H2; subst. rewrite andb_true_r. lia.
Qed.
Lemma sorted_of_strictly_increasing l : strictly_increasing l = true -> StronglySorted N.lt l.
Proof.
  induction l as [|a t IH]; intros H; [constructor|].
  destruct t as [|b t']; [constructor; constructor|].
  change (strictly_increasing (a :: b :: t')) with ((a <? b) && strictly_increasing (b :: t')) in H.
  apply andb_true_iff in H as [Hab Ht].
  specialize (IH Ht). constructor; auto.
  inversion IH; subst. constructor; [lia|].
  eapply Forall_impl; [|eassumption]. intros; simpl in *; lia.
Qed.

Lemma last_Forall (P : N -> Prop) l d : l <> [] -> Forall P l -> P (last l d).
Proof.
  induction l as [|a t IH]; intros Hne Hf; [congruence|].
  inversion Hf; subst. destruct t as [|b t']; [assumption|].
  change (last (a :: b :: t') d) with (last (b :: t') d). apply IH; [discriminate | assumption].
Qed.
Lemma lenN_perm {A} (a b : list A) : Permutation a b -> lenN a = lenN b.
Proof. intros H. unfold lenN. rewrite (Permutation_length H). reflexivity. Qed.
Lemma lenN_sortN l : lenN (sortN l) = lenN l.
Proof. apply lenN_perm, sortN_perm. Qed.

(* ------------------------------------------------------------------ public key formats *)

Lemma be_bytes_zero n : be_bytes n 0 = repeat 0 n.
Proof.
  induction n as [|n IH]; [reflexivity|]. cbn [be_bytes].
  rewrite N.div_0_l, N.mod_0_l, IH by lia.
  change [0] with (repeat 0 1). rewrite <- repeat_app. f_equal. lia.
Qed.
Lemma min_be_f_spec : forall fuel v n,
  v < 256 ^ N.of_nat fuel -> v < 256 ^ N.of_nat n ->
  (length (min_be_f fuel v) <= n)%nat /\
  repeat 0 (n - length (min_be_f fuel v)) ++ min_be_f fuel v = be_bytes n v.
Proof.
  induction fuel as [|f IH]; intros v n Hf Hn.
  - simpl in Hf. assert (v = 0) by lia. subst. simpl. rewrite app_nil_r, Nat.sub_0_r, be_bytes_zero.
    split; [lia | reflexivity].
  - cbn [min_be_f]. destruct (v =? 0) eqn:E.
    + assert (v = 0) by lia. subst. simpl. rewrite app_nil_r, Nat.sub_0_r, be_bytes_zero.
      split; [lia | reflexivity].
    + destruct n as [|k]; [simpl in Hn; lia|].
      rewrite Nat2N.inj_succ, N.pow_succ_r' in Hf, Hn.
      assert (Hf' : v / 256 < 256 ^ N.of_nat f) by (apply N.div_lt_upper_bound; lia).
      assert (Hk' : v / 256 < 256 ^ N.of_nat k) by (apply N.div_lt_upper_bound; lia).
      destruct (IH (v / 256) k Hf' Hk') as [Hl He].
      rewrite app_length. simpl length. split; [lia|].
      cbn [be_bytes]. rewrite <- He, <- app_assoc.
      replace (S k - (length (min_be_f f (v / 256)) + 1))%nat
        with (k - length (min_be_f f (v / 256)))%nat by lia.
      reflexivity.
Qed.
Lemma two256_eq : two256 = 256 ^ N.of_nat 32.
Proof. reflexivity. Qed.
Lemma left_pad32_min_be v : v < two256 -> left_pad32 (min_be v) = Some (be_bytes 32 v).
Proof.
  intros Hv. unfold min_be, left_pad32.
  assert (Hf : v < 256 ^ N.of_nat (N.to_nat (N.size v))).
  { rewrite N2Nat.id. eapply N.lt_le_trans; [apply N.size_gt|].
    apply N.pow_le_mono_l. lia. }
  rewrite two256_eq in Hv.
  destruct (min_be_f_spec _ _ 32%nat Hf Hv) as [Hl He].
  replace (32 <? lenN (min_be_f (N.to_nat (N.size v)) v)) with false by (unfold lenN; lia).
  rewrite He. reflexivity.
Qed.
(* convertPubKeyToChainFormat = X || Y, 32 bytes each = elliptic.Marshal without the 04 *)
Lemma pubkey_chain_format_ok x y :
  x < two256 -> y < two256 ->
  pubkey_chain_format x y = Some (be_bytes 32 x ++ be_bytes 32 y).
Proof.
  intros Hx Hy. unfold pubkey_chain_format. rewrite !left_pad32_min_be by assumption. reflexivity.
Qed.
Lemma marshal_tl x y :
  x < two256 -> y < two256 ->
  option_map (@tl N) (marshal_uncompressed x y) = pubkey_chain_format x y.
Proof.
  intros Hx Hy. rewrite pubkey_chain_format_ok by assumption. unfold marshal_uncompressed.
  replace (x <? two256) with true by lia. replace (y <? two256) with true by lia. reflexivity.
Qed.
Lemma key64_length x y : lenN (be_bytes 32 x ++ be_bytes 32 y) = 64.
Proof. unfold lenN. rewrite app_length, !be_bytes_length. reflexivity. Qed.

(* ------------------------------------------------------------------ the signatures map *)

Lemma assoc_in k (m : list (N * bytes)) : In k (map fst m) -> In (k, assoc k m) m.
Proof.
  induction m as [|[k' v] t IH]; cbn [map fst In assoc]; [tauto|].
  intros [->|H].
  - rewrite N.eqb_refl. left; reflexivity.
  - destruct (k =? k') eqn:E.
    + apply N.eqb_eq in E; subst. left; reflexivity.
    + right; auto.
Qed.
Definition chunks (m : list (N * bytes)) (keys : list N) : list bytes :=
  map (fun k => assoc k m) keys.
Lemma concat_sigs_ok m keys :
  Forall (fun k => lenN (assoc k m) = 65) keys ->
  concat_sigs m keys = Some (concat (chunks m keys)).
Proof.
  induction 1 as [|k t Hk Ht IH]; cbn [concat_sigs chunks map concat]; auto.
  rewrite Hk. cbn [N.eqb Pos.eqb]. fold (chunks m t). rewrite IH. reflexivity.
Qed.
Lemma concat_len65 (cs : list bytes) : Forall (fun c => lenN c = 65) cs -> lenN (concat cs) = 65 * lenN cs.
Proof.
  induction 1 as [|c t Hc Ht IH]; cbn [concat]; [reflexivity|].
  rewrite lenN_app, lenN_cons, IH, Hc. lia.
Qed.
Lemma chunks_len65 m keys :
  Forall (fun k => lenN (assoc k m) = 65) keys -> Forall (fun c => lenN c = 65) (chunks m keys).
Proof. unfold chunks. intros H. rewrite Forall_map. exact H. Qed.
Lemma lenN_map {A B} (f : A -> B) l : lenN (map f l) = lenN l.
Proof. unfold lenN. rewrite map_length. reflexivity. Qed.

(* every key of a map whose values are all 65 bytes long reads a 65-byte value *)
Lemma sigs_all65 (m : list (N * bytes)) :
  (forall k s, In (k, s) m -> lenN s = 65) ->
  Forall (fun k => lenN (assoc k m) = 65) (sortN (map fst m)).
Proof.
  intros H. rewrite Forall_forall. intros k Hk.
  apply (Permutation_in _ (sortN_perm _)) in Hk. apply assoc_in in Hk. eauto.
Qed.
Lemma sigs_chain_format_ok (m : list (N * bytes)) :
  (forall k s, In (k, s) m -> lenN s = 65) ->
  sigs_chain_format m = Some (sortN (map fst m), concat (chunks m (sortN (map fst m)))) /\
  lenN (concat (chunks m (sortN (map fst m)))) = 65 * lenN m.
Proof.
  intros H. pose proof (sigs_all65 m H) as Ha. unfold sigs_chain_format. cbv zeta.
  rewrite (concat_sigs_ok _ _ Ha). split; [reflexivity|].
  rewrite (concat_len65 _ (chunks_len65 _ _ Ha)). unfold chunks.
  rewrite lenN_map, lenN_sortN, lenN_map. reflexivity.
Qed.

(* ------------------------------------------------------------------ validateFields *)

Lemma nth0_Forall (P : N -> Prop) l d : l <> [] -> Forall P l -> P (nth 0 l d).
Proof. destruct l; [congruence|]. intros _ H. inversion H; subst. assumption. Qed.

Lemma indices_ok gs l :
  l <> [] -> StronglySorted N.lt l -> Forall (fun m => 1 <= m <= gs) l ->
  (nth 0 l 0 <? 1) || (gs <? last l 0) || negb (strictly_increasing l) = false.
Proof.
  intros Hne Hs Hf. rewrite (strictly_increasing_of_sorted _ Hs).
  pose proof (nth0_Forall _ l 0 Hne Hf) as H0. pose proof (last_Forall _ l 0 Hne Hf) as Hl.
  cbv beta in H0, Hl. lia.
Qed.

Lemma validate_fields_valid p pk misb sigs signing :
  lenN pk = 64 ->
  StronglySorted N.lt misb -> Forall (fun m => 1 <= m <= groupSize p) misb ->
  StronglySorted N.lt signing -> Forall (fun m => 1 <= m <= groupSize p) signing ->
  lenN sigs = 65 * lenN signing ->
  1 <= lenN signing -> groupThreshold p <= lenN signing -> lenN signing <= groupSize p ->
  activeThreshold p + lenN misb <= groupSize p ->
  validate_fields p pk misb sigs signing = Valid.
Proof.
  intros Hpk Hms Hmf Hss Hsf Hlen H1 Hthr Hgs Hact.
  unfold validate_fields. cbv zeta.
  replace (negb (lenN pk =? 64)) with false by lia.
  replace (groupSize p <? lenN misb) with false by lia.
  replace (groupSize p - lenN misb <? activeThreshold p) with false by lia.
  assert (Hm : (1 <? lenN misb)
               && ((nth 0 misb 0 <? 1) || (groupSize p <? last misb 0) || negb (strictly_increasing misb))
               = false).
  { destruct misb as [|m0 mt]; [reflexivity|].
    rewrite indices_ok by (auto; discriminate). apply andb_false_r. }
  rewrite Hm.
  replace (lenN sigs =? 0) with false by lia.
  replace (negb (lenN sigs mod 65 =? 0)) with false by lia.
  replace (negb (lenN sigs / 65 =? lenN signing)) with false by lia.
  replace (lenN sigs / 65 <? groupThreshold p) with false by lia.
  replace (groupSize p <? lenN sigs / 65) with false by lia.
  destruct signing as [|s0 st]; [rewrite lenN_nil in H1; lia|].
  pose proof (indices_ok (groupSize p) (s0 :: st)) as Hi.
  cbn [nth] in Hi. rewrite Hi by (auto; discriminate). reflexivity.
Qed.

(* ------------------------------------------------------------------ counting *)

Lemma memN_In x l : memN x l = true <-> In x l.
Proof.
  unfold memN. rewrite existsb_exists. split.
  - intros [y [Hy E]]. apply N.eqb_eq in E. subst. assumption.
  - intros H. exists x. split; [assumption | apply N.eqb_refl].
Qed.
Lemma nodupb_NoDup l : nodupb l = true -> NoDup l.
Proof.
  induction l as [|x t IH]; intros H; [constructor|].
  cbn [nodupb] in H. apply andb_true_iff in H as [Hx Ht]. constructor; auto.
  intros Hin. apply memN_In in Hin. rewrite Hin in Hx. discriminate.
Qed.
Lemma seqN_In a n x : In x (seqN a n) <-> a <= x < a + N.of_nat n.
Proof.
  revert a. induction n as [|n IH]; intros a; cbn [seqN In].
  - lia.
  - rewrite IH. lia.
Qed.
Lemma seqN_length a n : length (seqN a n) = n.
Proof. revert a. induction n; intros; cbn [seqN length]; auto. Qed.
Lemma seqN_sorted a n : StronglySorted N.lt (seqN a n).
Proof.
  revert a. induction n as [|n IH]; intros a; cbn [seqN]; constructor; auto.
  rewrite Forall_forall. intros x Hx. apply seqN_In in Hx. lia.
Qed.
Lemma sorted_lt_NoDup l : StronglySorted N.lt l -> NoDup l.
Proof.
  induction 1 as [|x t Ht IH Hf]; constructor; auto.
  intros Hin. rewrite Forall_forall in Hf. specialize (Hf _ Hin). lia.
Qed.
Lemma NoDup_app_disjoint (a b : list N) :
  NoDup a -> NoDup b -> (forall x, In x a -> ~ In x b) -> NoDup (a ++ b).
Proof.
  induction a as [|x t IH]; intros Ha Hb Hd; [assumption|].
  inversion Ha; subst. cbn [app]. constructor.
  - rewrite in_app_iff. intros [H|H]; [auto | eapply Hd; [left; reflexivity | eassumption]].
  - apply IH; auto. intros y Hy. apply Hd. right; assumption.
Qed.
(* distinct indices within [1, n] that avoid each other: at most n together *)
Lemma disjoint_count n (a b : list N) :
  NoDup a -> NoDup b -> (forall x, In x a -> ~ In x b) ->
  (forall x, In x a -> 1 <= x <= n) -> (forall x, In x b -> 1 <= x <= n) ->
  lenN a + lenN b <= n.
Proof.
  intros Ha Hb Hd Hra Hrb.
  assert (Hi : incl (a ++ b) (seqN 1 (N.to_nat n))).
  { intros x Hx. apply seqN_In. apply in_app_iff in Hx as [Hx|Hx]; [apply Hra in Hx | apply Hrb in Hx]; lia. }
  pose proof (NoDup_incl_length (NoDup_app_disjoint _ _ Ha Hb Hd) Hi) as Hl.
  rewrite app_length, seqN_length in Hl. unfold lenN. lia.
Qed.

(* ------------------------------------------------------------------ the members of the group *)

(* the members whose (1-based) position is not listed in [misb]; [i] positions precede *)
Fixpoint keep_from (i : N) (members misb : list N) : list N :=
  match members with
  | [] => []
  | m :: t => if memN (i + 1) misb then keep_from (i + 1) t misb
              else m :: keep_from (i + 1) t misb
  end.
Lemma keep_from_nil i members : keep_from i members [] = members.
Proof. revert i. induction members as [|m t IH]; intros i; cbn [keep_from memN existsb]; [|rewrite IH]; reflexivity. Qed.
Lemma keep_from_ext a b : (forall x, memN x a = memN x b) ->
  forall members i, keep_from i members a = keep_from i members b.
Proof. intros H. induction members as [|m t IH]; intros i; cbn [keep_from]; [reflexivity|]. rewrite H, !IH. reflexivity. Qed.
Lemma memN_perm a b : Permutation a b -> forall x, memN x a = memN x b.
Proof.
  intros Hp x. destruct (memN x b) eqn:E.
  - apply memN_In. apply memN_In in E. eapply Permutation_in; [symmetry|]; eassumption.
  - destruct (memN x a) eqn:E'; [|reflexivity]. apply memN_In in E'.
    assert (In x b) by (eapply Permutation_in; eassumption). apply memN_In in H. congruence.
Qed.

Lemma nth_error_app_len {A} (pre : list A) x t : nth_error (pre ++ x :: t) (length pre) = Some x.
Proof. rewrite nth_error_app2 by lia. rewrite Nat.sub_diag. reflexivity. Qed.

(* client: the ids of the non-misbehaved seats, by ascending index *)
Lemma members_at_filter misb : forall members pre,
  lenN pre + lenN members <= 255 ->
  members_at (pre ++ members)
    (filter (fun k => negb (memN k misb)) (seqN (lenN pre + 1) (length members)))
  = Some (keep_from (lenN pre) members misb).
Proof.
  induction members as [|m t IH]; intros pre Hle; [reflexivity|].
  cbn [length seqN filter keep_from].
  assert (Hnext : members_at (pre ++ m :: t)
            (filter (fun k => negb (memN k misb)) (seqN (lenN pre + 1 + 1) (length t)))
          = Some (keep_from (lenN pre + 1) t misb)).
  { specialize (IH (pre ++ [m])). rewrite <- app_assoc in IH. cbn [app] in IH.
    replace (lenN (pre ++ [m])) with (lenN pre + 1) in IH by (rewrite lenN_app; reflexivity).
    apply IH. rewrite lenN_cons in Hle. lia. }
  destruct (memN (lenN pre + 1) misb); cbn [negb].
  - exact Hnext.
  - cbn [members_at]. rewrite Hnext. unfold member_at.
    replace (N.to_nat ((lenN pre + 1 + 255) mod 256)) with (length pre)
      by (rewrite lenN_cons in Hle; unfold lenN in *; lia).
    rewrite nth_error_app_len. reflexivity.
Qed.
Lemma keep_from_length misb : forall members i,
  length (keep_from i members misb)
  = length (filter (fun k => negb (memN k misb)) (seqN (i + 1) (length members))).
Proof.
  induction members as [|m t IH]; intros i; [reflexivity|].
  cbn [keep_from length seqN filter]. destruct (memN (i + 1) misb); cbn [negb length]; rewrite IH; reflexivity.
Qed.

(* contract: the loop of validateMembersHash *)
Lemma sorted_nth_lt l : StronglySorted N.lt l ->
  forall j1 j2, (j1 < j2 < length l)%nat -> nth j1 l 0 < nth j2 l 0.
Proof.
  induction 1 as [|x t Ht IH Hf]; intros j1 j2 Hj; cbn [length] in Hj; [lia|].
  destruct j2 as [|j2]; [lia|]. destruct j1 as [|j1]; cbn [nth].
  - rewrite Forall_forall in Hf. apply Hf. apply nth_In. lia.
  - apply IH. lia.
Qed.
Definition inv (misb : list N) (i : N) (k : nat) : Prop :=
  (k < length misb)%nat /\ (forall j, (j < k)%nat -> nth j misb 0 <= i) /\
  (i + 1 <= nth k misb 0 \/ k = (length misb - 1)%nat).
Lemma memN_under_inv misb i k : StronglySorted N.lt misb -> inv misb i k ->
  memN (i + 1) misb = (nth k misb 0 =? i + 1).
Proof.
  intros Hs (Hk & Hb & Hm). destruct (nth k misb 0 =? i + 1) eqn:E.
  - apply memN_In. apply N.eqb_eq in E. rewrite <- E. apply nth_In. assumption.
  - destruct (memN (i + 1) misb) eqn:M; [|reflexivity]. exfalso.
    apply memN_In in M. apply (In_nth _ _ 0) in M as (j & Hj & Hnj).
    apply N.eqb_neq in E.
    destruct (Nat.lt_trichotomy j k) as [Hlt|[->|Hgt]].
    + specialize (Hb _ Hlt). lia.
    + congruence.
    + pose proof (sorted_nth_lt _ Hs k j ltac:(lia)). destruct Hm as [Hm|Hm]; lia.
Qed.
Lemma mh_loop_spec misb cap : StronglySorted N.lt misb -> Forall (fun m => 1 <= m) misb ->
  forall members i k out,
  inv misb i (N.to_nat k) ->
  lenN out + lenN (keep_from i members misb) <= cap ->
  mh_loop members i misb k cap out =
  Some (out ++ keep_from i members misb
            ++ repeat 0 (N.to_nat (cap - lenN out - lenN (keep_from i members misb)))).
Proof.
  intros Hs Hpos. induction members as [|m t IH]; intros i k out Hinv Hcap; cbn [mh_loop keep_from].
  - cbn [app]. replace (cap - lenN out - lenN (@nil N)) with (cap - lenN out) by (unfold lenN; cbn [length]; lia).
    reflexivity.
  - pose proof Hinv as (Hk & Hb & Hm).
    rewrite (nth_error_nth' misb 0 Hk).
    assert (Hmk1 : 1 <= nth (N.to_nat k) misb 0)
      by (rewrite Forall_forall in Hpos; apply Hpos; apply nth_In; assumption).
    cbn [keep_from] in Hcap.
    rewrite (memN_under_inv _ _ _ Hs Hinv) in Hcap |- *.
    set (mk := nth (N.to_nat k) misb 0) in *.
    replace (mk =? 0) with false by lia.
    destruct (mk =? i + 1) eqn:E.
    + replace (negb (i =? mk - 1)) with false by lia.
      assert (Hk' : forall k', k' = (if k <? lenN misb - 1 then k + 1 else k) ->
                               inv misb (i + 1) (N.to_nat k')).
      { intros k' ->. unfold inv. destruct (k <? lenN misb - 1) eqn:Ek.
        - replace (N.to_nat (k + 1)) with (S (N.to_nat k)) by lia.
          split; [unfold lenN in Ek; lia|]. split.
          + intros j Hj. destruct (Nat.eq_dec j (N.to_nat k)) as [->|Hne]; [fold mk; lia|].
            specialize (Hb j ltac:(lia)). lia.
          + left. pose proof (sorted_nth_lt _ Hs (N.to_nat k) (S (N.to_nat k))
                                ltac:(unfold lenN in Ek; lia)). fold mk in H. lia.
        - split; [assumption|]. split.
          + intros j Hj. specialize (Hb j Hj). lia.
          + right. unfold lenN in Ek. lia. }
      destruct (k <? lenN misb - 1); (apply IH; [apply Hk'; reflexivity | exact Hcap]).
    + replace (negb (i =? mk - 1)) with true by lia.
      assert (Hc1 : lenN out + 1 + lenN (keep_from (i + 1) t misb) <= cap)
        by (rewrite lenN_cons in Hcap; lia).
      replace (lenN out <? cap) with true by lia.
      rewrite IH.
      * replace (cap - lenN (out ++ [m]) - lenN (keep_from (i + 1) t misb))
          with (cap - lenN out - lenN (m :: keep_from (i + 1) t misb))
          by (rewrite lenN_app, !lenN_cons; unfold lenN; cbn [length]; lia).
        rewrite <- app_assoc. reflexivity.
      * unfold inv. split; [assumption|]. split.
        -- intros j Hj. specialize (Hb j Hj). lia.
        -- destruct Hm as [Hm|Hm]; [left; fold mk in Hm; lia | right; assumption].
      * rewrite lenN_app. unfold lenN at 2. cbn [length]. lia.
Qed.
Lemma contract_group_members_ok members misb :
  StronglySorted N.lt misb -> Forall (fun m => 1 <= m) misb ->
  lenN (keep_from 0 members misb) + lenN misb = lenN members ->
  contract_group_members members misb = Some (keep_from 0 members misb).
Proof.
  intros Hs Hf Hcount. destruct misb as [|m0 mt].
  - cbn [contract_group_members]. rewrite keep_from_nil. reflexivity.
  - cbn [contract_group_members]. set (misb := m0 :: mt) in *.
    replace (lenN members <? lenN misb) with false by lia.
    rewrite (mh_loop_spec misb _ Hs Hf).
    + cbn [app]. replace (lenN members - lenN misb - lenN (@nil N) - lenN (keep_from 0 members misb)) with 0
        by (unfold lenN in *; cbn [length]; lia).
      cbn [N.to_nat repeat]. rewrite app_nil_r. reflexivity.
    + unfold inv. cbn [N.to_nat]. split; [subst misb; cbn [length]; lia|]. split; [intros j Hj; lia|].
      left. subst misb. cbn [nth]. inversion Hf; subst. lia.
    + unfold lenN in *. cbn [length]. lia.
Qed.

(* ------------------------------------------------------------------ the assembled result *)

Lemma lt_le_sorted l : StronglySorted N.lt l -> StronglySorted N.le l.
Proof.
  induction 1 as [|x t Ht IH Hf]; constructor; auto.
  eapply Forall_impl; [|eassumption]. intros; simpl in *; lia.
Qed.
Lemma filter_sorted (R : N -> N -> Prop) f l : StronglySorted R l -> StronglySorted R (filter f l).
Proof.
  induction 1 as [|x t Ht IH Hf]; cbn [filter]; [constructor|].
  destruct (f x); auto. constructor; auto.
  rewrite Forall_forall in *. intros y Hy. apply filter_In in Hy as [Hy _]. auto.
Qed.

Section Assembled.
  Variables (p : params) (quorum : N) (i : dkg_in).
  Hypothesis Hv : valid_in p quorum i.

  Let n := lenN (i_members i).
  Let misb := i_misbehaved i.
  Let keys := map fst (i_sigs i).
  Let compl := filter (fun k => negb (memN k misb)) (seqN 1 (length (i_members i))).

  Lemma compl_In k : In k compl <-> In k (i_operating i).
  Proof.
    destruct Hv as (_ & _ & _ & _ & _ & _ & _ & _ & Hop & _).
    unfold compl. rewrite filter_In, seqN_In, Hop, negb_true_iff.
    fold misb. unfold lenN.
    split; intros [H1 H2]; (split; [lia|]).
    - intros Hin. apply memN_In in Hin. congruence.
    - destruct (memN k misb) eqn:E; [|reflexivity]. apply memN_In in E. contradiction.
  Qed.
  Lemma oper_sorted_eq : sortN (i_operating i) = compl.
  Proof.
    destruct Hv as (_ & _ & _ & _ & _ & _ & _ & Hond & _).
    apply sorted_perm_eq.
    - apply sortN_sorted.
    - apply lt_le_sorted, filter_sorted, seqN_sorted.
    - etransitivity; [apply sortN_perm|]. apply NoDup_Permutation; auto.
      + apply sorted_lt_NoDup, filter_sorted, seqN_sorted.
      + intros x. symmetry. apply compl_In.
  Qed.
  Lemma oper_misb_count : lenN (i_operating i) + lenN misb = n.
  Proof.
    destruct Hv as (_ & _ & _ & _ & _ & Hmnd & Hmr & Hond & Hop & _).
    assert (Hp : Permutation (i_operating i ++ misb) (seqN 1 (length (i_members i)))).
    { apply NoDup_Permutation.
      - apply NoDup_app_disjoint; auto. intros x Hx. apply Hop in Hx. tauto.
      - apply sorted_lt_NoDup, seqN_sorted.
      - intros x. rewrite in_app_iff, seqN_In, Hop. fold misb. unfold lenN in *.
        split.
        + intros [[H _]|H]; [|apply Hmr in H]; lia.
        + intros H. destruct (in_dec N.eq_dec x misb); [right; assumption | left; split; [lia | assumption]]. }
    apply Permutation_length in Hp. rewrite app_length, seqN_length in Hp.
    unfold n, lenN. lia.
  Qed.

  Definition model_result : assembled :=
    {| a_submitter := i_submitter i;
       a_pubkey := be_bytes 32 (i_x i) ++ be_bytes 32 (i_y i);
       a_misbehaved := sortN misb;
       a_sigs := concat (chunks (i_sigs i) (sortN keys));
       a_signing := sortN keys;
       a_members := i_members i;
       a_mh_pre := client_members_preimage (keep_from 0 (i_members i) misb) |}.

  Lemma sigs65 : forall k s, In (k, s) (i_sigs i) -> lenN s = 65.
  Proof. destruct Hv as (_ & _ & _ & _ & _ & _ & _ & _ & _ & _ & Hs & _). intros k s H. apply Hs in H. tauto. Qed.

  Lemma assemble_spec : assemble i = Ok model_result /\ submit quorum i = Ok model_result.
  Proof.
    assert (Ha : assemble i = Ok model_result).
    { pose proof Hv as (_ & H255 & _ & _ & _ & _ & _ & _ & _ & _ & _ & _ & Hx & Hy & _).
      unfold assemble. rewrite (pubkey_chain_format_ok _ _ Hx Hy).
      destruct (sigs_chain_format_ok _ sigs65) as [-> _].
      rewrite oper_sorted_eq.
      pose proof (members_at_filter misb (i_members i) [] ltac:(unfold lenN in *; cbn [length]; lia)) as Hm.
      cbn [app] in Hm. change (lenN (@nil N) + 1) with 1 in Hm. change (lenN (@nil N)) with 0 in Hm.
      unfold compl. rewrite Hm. reflexivity. }
    split; [assumption|]. unfold submit.
    destruct Hv as (_ & _ & _ & _ & _ & _ & _ & _ & _ & _ & _ & Hq & _).
    replace (lenN (i_sigs i) <? quorum) with false by lia. assumption.
  Qed.

  Lemma keys_range : forall k, In k keys -> 1 <= k <= n /\ ~ In k misb.
  Proof.
    destruct Hv as (_ & _ & _ & _ & _ & _ & _ & _ & Hop & _ & Hs & _).
    intros k Hk. apply assoc_in in Hk. apply Hs in Hk as [Hk _]. apply Hop in Hk. exact Hk.
  Qed.

  Lemma result_sorted_in_range :
    StronglySorted N.lt (a_misbehaved model_result) /\
    Forall (fun m => 1 <= m <= n) (a_misbehaved model_result) /\
    StronglySorted N.lt (a_signing model_result) /\
    Forall (fun m => 1 <= m <= n) (a_signing model_result).
  Proof.
    destruct Hv as (_ & _ & _ & _ & _ & Hmnd & Hmr & _ & _ & Hsnd & _).
    cbn [model_result a_misbehaved a_signing]. repeat split.
    - apply sortN_nodup_lt. assumption.
    - eapply Permutation_Forall; [symmetry; apply sortN_perm|]. rewrite Forall_forall. exact Hmr.
    - apply sortN_nodup_lt. assumption.
    - eapply Permutation_Forall; [symmetry; apply sortN_perm|]. rewrite Forall_forall.
      intros k Hk. apply keys_range in Hk. tauto.
  Qed.

  Lemma result_fields_valid :
    validate_fields p (a_pubkey model_result) (a_misbehaved model_result) (a_sigs model_result)
                    (a_signing model_result) = Valid.
  Proof.
    destruct result_sorted_in_range as (Hms & Hmf & Hss & Hsf).
    pose proof Hv as (Hn & _ & Hq1 & Hqt & Hqa & Hmnd & Hmr & _ & _ & Hsnd & _ & Hq & _).
    fold n in Hn. rewrite Hn in Hmf, Hsf.
    assert (Hcount : lenN keys + lenN misb <= n).
    { apply disjoint_count; auto.
      - intros x Hx. apply keys_range in Hx. tauto.
      - intros x Hx. apply keys_range in Hx. tauto. }
    assert (Hk : lenN keys = lenN (i_sigs i)) by (unfold keys; apply lenN_map).
    apply validate_fields_valid;
      [ apply key64_length | exact Hms | exact Hmf | exact Hss | exact Hsf | | | | | ];
      cbn [model_result a_sigs a_signing a_misbehaved]; rewrite ?lenN_sortN; fold keys; try lia.
    destruct (sigs_chain_format_ok _ sigs65) as [_ He]. fold keys in He. rewrite He. lia.
  Qed.

  (* the members hash: the contract recomputes exactly the bytes the client hashed *)
  Lemma result_members_preimage :
    contract_members_preimage (a_members model_result) (a_misbehaved model_result)
    = Some (a_mh_pre model_result).
  Proof.
    destruct result_sorted_in_range as (Hms & Hmf & _ & _).
    cbn [model_result a_members a_misbehaved a_mh_pre] in *.
    unfold contract_members_preimage, client_members_preimage.
    assert (He : keep_from 0 (i_members i) (sortN misb) = keep_from 0 (i_members i) misb).
    { apply keep_from_ext. apply memN_perm, sortN_perm. }
    rewrite contract_group_members_ok.
    - rewrite He, go_pack_eq. reflexivity.
    - assumption.
    - eapply Forall_impl; [|exact Hmf]. intros; simpl in *; lia.
    - rewrite He, lenN_sortN. unfold lenN at 1. rewrite keep_from_length.
      change (0 + 1) with 1. fold compl. rewrite <- oper_sorted_eq.
      pose proof oper_misb_count as Hc. pose proof (lenN_sortN (i_operating i)) as Hl.
      unfold n, lenN in *. lia.
  Qed.

  (* the hash every supporter signs: whatever order it lists the misbehaved members in *)
  Lemma result_sig_preimage : forall misb', Permutation misb' misb ->
    client_sig_preimage (i_chainid i) (i_x i) (i_y i) misb' (i_start i)
    = Some (contract_sig_preimage (i_chainid i) (a_pubkey model_result) (a_misbehaved model_result)
                                  (i_start i)).
  Proof.
    intros misb' Hp.
    destruct Hv as (_ & _ & _ & _ & _ & _ & _ & _ & _ & _ & _ & _ & Hx & Hy & Hst & _).
    unfold client_sig_preimage, marshal_uncompressed, contract_sig_preimage.
    replace (i_x i <? two256) with true by lia. replace (i_y i <? two256) with true by lia.
    cbn [andb tl]. rewrite key64_length. cbn [N.eqb Pos.eqb].
    rewrite go_pack_eq. unfold start_word_value.
    replace (i_start i <? 2 ^ 63) with true by lia.
    rewrite (sortN_perm_eq _ _ Hp). reflexivity.
  Qed.

  (* the wallet id: keccak256 over the same 64 bytes on both sides *)
  Lemma result_wallet_preimage :
    client_wallet_preimage (i_x i) (i_y i) = Some (contract_wallet_preimage (a_pubkey model_result))
    /\ lenN (a_pubkey model_result) = 64.
  Proof.
    destruct Hv as (_ & _ & _ & _ & _ & _ & _ & _ & _ & _ & _ & _ & Hx & Hy & _).
    unfold client_wallet_preimage. rewrite (pubkey_chain_format_ok _ _ Hx Hy).
    split; [reflexivity | apply key64_length].
  Qed.
End Assembled.

(* ------------------------------------------------------------------ Ethereum signed-message prefix *)
Lemma eth_preimage_eq msg : lenN msg = 32 -> client_eth_preimage msg = eth_signed_preimage msg.
Proof.
  intros H. unfold client_eth_preimage, eth_signed_preimage. rewrite H. reflexivity.
Qed.

(* ------------------------------------------------------------------ inactivity claims *)
Lemma claim_preimage_eq chainid nonce x y inactive hbf wallet sigs k pk :
  x < two256 -> y < two256 ->
  assemble_claim wallet inactive sigs hbf = Ok k ->
  pubkey_chain_format x y = Some pk ->
  client_claim_preimage chainid nonce x y inactive hbf
  = Some (contract_claim_preimage chainid nonce (wallet_x pk) (wallet_y pk) k)
  /\ k_inactive k = inactive /\ k_hbf k = hbf /\ k_wallet k = wallet.
Proof.
  intros Hx Hy Ha Hpk. unfold assemble_claim in Ha.
  destruct (sigs_chain_format sigs) as [[sg b]|]; [|discriminate]. inversion Ha; subst k; clear Ha.
  cbn [k_inactive k_hbf k_wallet]. split; [|auto].
  rewrite (pubkey_chain_format_ok _ _ Hx Hy) in Hpk. inversion Hpk; subst pk; clear Hpk.
  unfold client_claim_preimage, marshal_uncompressed, contract_claim_preimage, wallet_x, wallet_y.
  replace (x <? two256) with true by lia. replace (y <? two256) with true by lia.
  cbn [andb tl k_inactive k_hbf]. rewrite key64_length. cbn [N.eqb Pos.eqb].
  rewrite go_pack_eq, firstn_skipn. reflexivity.
Qed.

(* ------------------------------------------------------------------ the executable forms *)
Lemma list_eqb_eq a : forall b, list_eqb a b = true -> a = b.
Proof.
  induction a as [|x a IH]; intros [|y b] H; cbn [list_eqb] in H; try discriminate; auto.
  apply andb_true_iff in H as [E H]. apply N.eqb_eq in E. subst. f_equal. auto.
Qed.
Lemma valid_inb_sound p quorum i : valid_inb p quorum i = true -> valid_in p quorum i.
Proof.
  unfold valid_inb. cbv zeta. intros H.
  repeat (apply andb_true_iff in H as [H ?]).
  assert (Hop : sortN (i_operating i)
                = filter (fun k => negb (memN k (i_misbehaved i))) (seqN 1 (length (i_members i))))
    by (apply list_eqb_eq; assumption).
  assert (Hond : NoDup (i_operating i)).
  { eapply Permutation_NoDup; [apply sortN_perm|]. rewrite Hop.
    apply sorted_lt_NoDup, filter_sorted, seqN_sorted. }
  unfold valid_in. cbv zeta. repeat split; try lia; auto using nodupb_NoDup.
  - rewrite forallb_forall in H8. apply H8 in H14. unfold in_range in H14. lia.
  - rewrite forallb_forall in H8. apply H8 in H14. unfold in_range in H14. lia.
  - apply (Permutation_in _ (Permutation_sym (sortN_perm _))) in H14. rewrite Hop in H14.
    apply filter_In in H14 as [H14 _]. apply seqN_In in H14. lia.
  - apply (Permutation_in _ (Permutation_sym (sortN_perm _))) in H14. rewrite Hop in H14.
    apply filter_In in H14 as [H14 _]. apply seqN_In in H14. unfold lenN. lia.
  - apply (Permutation_in _ (Permutation_sym (sortN_perm _))) in H14. rewrite Hop in H14.
    apply filter_In in H14 as [_ H14]. intros Hin. apply memN_In in Hin. rewrite Hin in H14. discriminate.
  - intros [Hr Hn]. apply (Permutation_in _ (sortN_perm _)). rewrite Hop.
    apply filter_In. split; [apply seqN_In; unfold lenN in *; lia|].
    destruct (memN k (i_misbehaved i)) eqn:E; [apply memN_In in E; contradiction | reflexivity].
  - rewrite forallb_forall in H5. apply H5 in H14. cbn [fst snd] in H14.
    apply andb_true_iff in H14 as [Hm _]. apply memN_In. assumption.
  - rewrite forallb_forall in H5. apply H5 in H14. cbn [fst snd] in H14.
    apply andb_true_iff in H14 as [_ Hl]. lia.
Qed.

(* ------------------------------------------------------------------ non-vacuity *)
(* a group of four, member 3 misbehaved, members 4, 1, 2 support the result (quorum 3) *)
Definition ex_params : params := {| groupSize := 4; groupThreshold := 3; activeThreshold := 3 |}.
Definition ex_in : dkg_in :=
  {| i_chainid := 1; i_start := 1000; i_x := 5; i_y := 2 ^ 255 + 7;
     i_members := [70; 80; 70; 90]; i_submitter := 2;
     i_operating := [4; 1; 2]; i_misbehaved := [3];
     i_sigs := [(4, repeat 4 65); (1, repeat 1 65); (2, repeat 2 65)] |}.
Example ex_valid : valid_in ex_params 3 ex_in.
Proof. apply valid_inb_sound. vm_compute. reflexivity. Qed.
Example ex_result :
  match assemble ex_in with
  | Ok a => a_misbehaved a = [3] /\ a_signing a = [1; 2; 4]
            /\ a_sigs a = repeat 1 65 ++ repeat 2 65 ++ repeat 4 65
            /\ a_mh_pre a = abi_encode [AArr [70; 80; 90]]
            /\ contract_group_members (a_members a) (a_misbehaved a) = Some [70; 80; 90]
  | _ => False
  end.
Proof. vm_compute. repeat split; reflexivity. Qed.
(* the contract rejects what a client that forgot to sort would send *)
Example ex_unsorted_rejected :
  validate_fields {| groupSize := 5; groupThreshold := 3; activeThreshold := 3 |}
                  (repeat 1 64) [4; 2] (repeat 0 195) [1; 3; 5] = BadMisbehaved.
Proof. vm_compute. reflexivity. Qed.

(* ---- a key with SHORT coordinates.  key_formats_agree and the preimage theorems are stated for
   coordinates of ANY size below 2^256; this is the instance at the public key of the private
   scalar 0xae55 (the smallest scalar whose X is below 2^240: big.Int.Bytes() returns 30 bytes;
   harness/cmd/c40/keys.go corpusShortKeys).  Both client serialisations LEFT-pad each coordinate
   to 32 bytes, the three client preimages built from it are the contracts', and a serialiser
   that copies X.Bytes() / Y.Bytes() to the START of each 32-byte half (right-padding, the
   independently written breaking change seeded/C40a) yields other bytes of the same length, so
   the length check in calculateDKGResultSignatureHash cannot notice. *)
Definition short_key_x : N := 0x8f2eca2314ee8bf0c03549e442ff21f750d8f7332bc6f2abc9980aabe9b0.
Definition short_key_y : N := 0xe8c1c7a34fc69114ed759daea65f33ff6682751a17785f2750e954fb3ee5243.
Definition right_pad32 (b : bytes) : bytes := b ++ repeat 0 (32 - length b).
Definition right_padded_key (x y : N) : bytes := right_pad32 (min_be x) ++ right_pad32 (min_be y).
Example ex_short_coordinate_key :
  short_key_x < 2 ^ 240 /\ 2 ^ 248 <= short_key_y < two256
  /\ lenN (min_be short_key_x) = 30 /\ lenN (min_be short_key_y) = 32
  /\ exists pk,
       pubkey_chain_format short_key_x short_key_y = Some pk
       /\ pk = [0; 0] ++ min_be short_key_x ++ min_be short_key_y
       /\ option_map (@tl N) (marshal_uncompressed short_key_x short_key_y) = Some pk
       /\ lenN pk = 64
       (* the hash the supporters sign, the claim hash and the wallet id: the contracts' bytes *)
       /\ client_sig_preimage 1 short_key_x short_key_y [3; 1] 1000
          = Some (contract_sig_preimage 1 pk [1; 3] 1000)
       /\ client_claim_preimage 1 7 short_key_x short_key_y [2; 9] true
          = Some (contract_claim_preimage 1 7 (wallet_x pk) (wallet_y pk)
                    {| k_wallet := []; k_inactive := [2; 9]; k_hbf := true; k_sigs := [];
                       k_signing := [] |})
       /\ client_wallet_preimage short_key_x short_key_y = Some (contract_wallet_preimage pk)
       (* right-padding: same length, other bytes *)
       /\ lenN (right_padded_key short_key_x short_key_y) = 64
       /\ list_eqb (right_padded_key short_key_x short_key_y) pk = false.
Proof.
  split; [vm_compute; reflexivity|]. split; [split; vm_compute; congruence|].
  split; [vm_compute; reflexivity|]. split; [vm_compute; reflexivity|].
  eexists. split; [vm_compute; reflexivity|].
  repeat split; vm_compute; reflexivity.
Qed.
(* the general statements instantiated at that key: nothing in their premises asks for a
   coordinate of full length *)
Example ex_short_coordinate_key_general :
  option_map (@tl N) (marshal_uncompressed short_key_x short_key_y)
  = pubkey_chain_format short_key_x short_key_y
  /\ pubkey_chain_format short_key_x short_key_y
     = Some (be_bytes 32 short_key_x ++ be_bytes 32 short_key_y).
Proof.
  assert (Hx : short_key_x < two256) by (vm_compute; reflexivity).
  assert (Hy : short_key_y < two256) by (vm_compute; reflexivity).
  split; [apply marshal_tl; assumption | apply pubkey_chain_format_ok; assumption].
Qed.

(* ------------------------------------------------------------------ statements used by Props *)
Lemma assembled_indices p quorum i : valid_in p quorum i ->
  exists a, assemble i = Ok a /\
    StronglySorted N.lt (a_misbehaved a) /\
    Forall (fun m => 1 <= m <= lenN (i_members i)) (a_misbehaved a) /\
    Permutation (a_misbehaved a) (i_misbehaved i) /\
    StronglySorted N.lt (a_signing a) /\
    Forall (fun m => 1 <= m <= lenN (i_members i)) (a_signing a) /\
    Permutation (a_signing a) (map fst (i_sigs i)) /\
    a_sigs a = concat (map (fun k => assoc k (i_sigs i)) (a_signing a)) /\
    lenN (a_sigs a) = 65 * lenN (a_signing a).
Proof.
  intros Hv. exists (model_result i).
  destruct (assemble_spec p quorum i Hv) as [Ha _].
  destruct (result_sorted_in_range p quorum i Hv) as (H1 & H2 & H3 & H4).
  split; [exact Ha|]. split; [exact H1|]. split; [exact H2|].
  split; [apply sortN_perm|]. split; [exact H3|]. split; [exact H4|].
  split; [apply sortN_perm|]. split; [reflexivity|].
  cbn [model_result a_sigs a_signing].
  destruct (sigs_chain_format_ok _ (sigs65 p quorum i Hv)) as [_ ->].
  rewrite lenN_sortN, lenN_map. reflexivity.
Qed.
Lemma list_eqb_refl a : list_eqb a a = true.
Proof. induction a as [|x a IH]; cbn [list_eqb]; [reflexivity|]. rewrite N.eqb_refl, IH. reflexivity. Qed.
Lemma members_hash_preimage p quorum i : valid_in p quorum i ->
  exists a, assemble i = Ok a /\
    contract_members_preimage (a_members a) (a_misbehaved a) = Some (a_mh_pre a) /\
    forall keccak, validate_members_hash keccak (a_members a) (a_misbehaved a) (keccak (a_mh_pre a))
                   = Some true.
Proof.
  intros Hv. exists (model_result i).
  pose proof (result_members_preimage p quorum i Hv) as Hm.
  split; [exact (proj1 (assemble_spec p quorum i Hv))|]. split; [exact Hm|].
  intros keccak. unfold validate_members_hash. rewrite Hm, list_eqb_refl. reflexivity.
Qed.

(* ==================================================================
   validateSignatures and verifyClaim for every assembled result / claim.
   The hash function, the ecrecover precompile, the sortition pool's id -> operator map and the
   "was signed by" relation are Section variables; the only cryptographic hypothesis is
   [ecdsa_recovers] (Model/C40.v, Part 5); hashes are related through the preimage equalities
   proved above (result_sig_preimage, eth_preimage_eq, result_members_preimage,
   claim_preimage_eq), never through a property of the hash function other than its 32-byte
   output length. *)
(* ------------------------------------------------------------------ validateSignatures *)

Definition len65 (c : bytes) : Prop := lenN c = 65.

Lemma skipn_concat65 (pre : list bytes) rest :
  Forall len65 pre -> skipn (N.to_nat (65 * lenN pre)) (concat pre ++ rest) = rest.
Proof.
  intros Hp. pose proof (concat_len65 _ Hp) as Hl.
  replace (N.to_nat (65 * lenN pre)) with (length (concat pre)) by (unfold lenN in *; lia).
  rewrite skipn_app, skipn_all, Nat.sub_diag. reflexivity.
Qed.
Lemma slice_chunk pre c rest :
  Forall len65 pre -> lenN c = 65 ->
  slice (concat (pre ++ c :: rest)) (65 * lenN pre) 65 = Some c.
Proof.
  intros Hp Hc. rewrite concat_app. cbn [concat]. unfold slice.
  pose proof (concat_len65 _ Hp) as Hl.
  replace ((0 <? 65) && (65 * lenN pre + 65 <=? lenN (concat pre ++ c ++ concat rest))) with true
    by (rewrite !lenN_app; lia).
  rewrite (skipn_concat65 _ _ Hp).
  replace (N.to_nat 65) with (length c) by (unfold lenN in Hc; lia).
  rewrite firstn_app, firstn_all, Nat.sub_diag, firstn_O, app_nil_r. reflexivity.
Qed.

Lemma oz_recover_ok ecrecover hash sig a :
  lenN sig = 65 -> be_value (sig_s sig) <= half_n -> (sig_v sig = 27 \/ sig_v sig = 28) ->
  ecrecover hash (sig_v sig) (sig_r sig) (sig_s sig) = a -> a <> 0 ->
  oz_recover ecrecover hash sig = Some a.
Proof.
  intros Hl Hs Hv He Ha. unfold oz_recover. cbv zeta.
  replace (negb (lenN sig =? 65)) with false by lia.
  replace (half_n <? be_value (sig_s sig)) with false by lia.
  replace (negb ((sig_v sig =? 27) || (sig_v sig =? 28))) with false by lia.
  rewrite He. replace (a =? 0) with false by lia. reflexivity.
Qed.

Lemma sig_loop_true ecrecover hash : forall rest addrs_rest pre addrs_pre,
  Forall len65 pre -> length addrs_pre = length pre ->
  Forall2 (fun c a => lenN c = 65 /\ oz_recover ecrecover hash c = Some a) rest addrs_rest ->
  sig_loop ecrecover (length rest) (lenN pre) hash (concat (pre ++ rest)) (addrs_pre ++ addrs_rest)
  = Some true.
Proof.
  intros rest addrs_rest pre addrs_pre Hp Hlen H2. revert pre addrs_pre Hp Hlen.
  induction H2 as [|c a rest' ar' [Hc Hr] Hrest IH]; intros pre addrs_pre Hp Hlen; [reflexivity|].
  cbn [length sig_loop]. rewrite (slice_chunk _ _ _ Hp Hc), Hr.
  replace (N.to_nat (lenN pre)) with (length addrs_pre) by (unfold lenN; lia).
  rewrite nth_error_app_len, N.eqb_refl.
  specialize (IH (pre ++ [c]) (addrs_pre ++ [a])).
  rewrite <- !app_assoc in IH. cbn [app] in IH.
  replace (lenN (pre ++ [c])) with (lenN pre + 1) in IH by (rewrite lenN_app; reflexivity).
  apply IH.
  - apply Forall_app. split; [assumption | constructor; [exact Hc | constructor]].
  - rewrite !app_length. cbn [length]. lia.
Qed.

Definition seat_id (members : list N) (k : N) : N := nth (N.to_nat (k - 1)) members 0.
Lemma seat_id_nth_error members k :
  1 <= k <= lenN members -> nth_error members (N.to_nat (k - 1)) = Some (seat_id members k).
Proof. intros H. apply nth_error_nth'. unfold lenN in H. lia. Qed.
Lemma signing_ids_ok members signing :
  Forall (fun s => 1 <= s <= lenN members) signing ->
  signing_ids members signing = Some (map (seat_id members) signing).
Proof.
  induction 1 as [|s t Hs Ht IH]; [reflexivity|]. cbn [signing_ids map].
  replace (s =? 0) with false by lia. rewrite (seat_id_nth_error _ _ Hs), IH. reflexivity.
Qed.
Lemma Forall2_map_same {A B C} (R : B -> C -> Prop) (f : A -> B) (g : A -> C) l :
  (forall x, In x l -> R (f x) (g x)) -> Forall2 R (map f l) (map g l).
Proof.
  induction l as [|x t IH]; intros H; cbn [map]; constructor.
  - apply H. left; reflexivity.
  - apply IH. intros y Hy. apply H. right; assumption.
Qed.

Section Signatures.
  Variable keccak : bytes -> bytes.
  Variable ecrecover : bytes -> N -> bytes -> bytes -> N.
  Variable operator_of : N -> N.
  Variable signed : N -> bytes -> bytes -> Prop.
  Hypothesis keccak_len : forall b, lenN (keccak b) = 32.
  Hypothesis ecdsa_ok : ecdsa_recovers ecrecover signed.

  (* one signature: signed over the client's prefixed hash => OZ recover under the contract's *)
  Lemma signed_recovers addr pre sig :
    signed addr (keccak (client_eth_preimage (keccak pre))) sig -> lenN sig = 65 ->
    oz_recover ecrecover (eth_signed_hash keccak (keccak pre)) sig = Some addr.
  Proof.
    intros Hs Hl. rewrite (eth_preimage_eq _ (keccak_len pre)) in Hs.
    destruct (ecdsa_ok _ _ _ Hs Hl) as (H1 & H2 & H3 & H4).
    apply oz_recover_ok; assumption.
  Qed.

  Variables (p : params) (quorum : N) (i : dkg_in).
  Hypothesis Hv : valid_in p quorum i.
  Hypothesis Hsigned : supporters_signed keccak operator_of signed i.

  Lemma result_signatures_valid :
    validate_signatures keccak ecrecover operator_of (i_chainid i) (i_start i)
      (a_pubkey (model_result i)) (a_misbehaved (model_result i)) (a_sigs (model_result i))
      (a_signing (model_result i)) (a_members (model_result i)) = Some true.
  Proof.
    destruct (result_sorted_in_range p quorum i Hv) as (_ & _ & _ & Hsf).
    pose proof (sigs65 p quorum i Hv) as H65.
    destruct (sigs_chain_format_ok _ H65) as [_ Hlen].
    unfold validate_signatures. cbv zeta.
    set (hash := eth_signed_hash keccak _).
    cbn [model_result a_signing a_members a_sigs] in *.
    set (keys := sortN (map fst (i_sigs i))) in *.
    rewrite (signing_ids_ok _ _ Hsf).
    replace (N.to_nat (lenN (concat (chunks (i_sigs i) keys)) / 65))
      with (length (chunks (i_sigs i) keys)).
    2:{ rewrite Hlen. unfold chunks, keys. rewrite map_length.
        pose proof (lenN_sortN (map fst (i_sigs i))) as Hk. rewrite lenN_map in Hk.
        unfold lenN in *. lia. }
    apply (sig_loop_true ecrecover hash (chunks (i_sigs i) keys)
             (map operator_of (map (seat_id (i_members i)) keys)) [] []);
      [constructor | reflexivity |].
    unfold chunks. rewrite map_map. apply Forall2_map_same. intros k Hk.
    rewrite Forall_forall in Hsf. pose proof (Hsf _ Hk) as Hrange.
    assert (Hin : In (k, assoc k (i_sigs i)) (i_sigs i)).
    { apply assoc_in. eapply Permutation_in; [apply sortN_perm | exact Hk]. }
    pose proof (H65 _ _ Hin) as Hl. split; [exact Hl|].
    destruct (Hsigned _ _ _ Hin (seat_id_nth_error _ _ Hrange)) as (misb' & pre & Hp & Hpre & Hs).
    rewrite (result_sig_preimage p quorum i Hv misb' Hp) in Hpre. inversion Hpre; subst pre; clear Hpre.
    apply signed_recovers; assumption.
  Qed.
End Signatures.

(* ------------------------------------------------------------------ inactivity claims: verifyClaim *)

Lemma dedup_In l : forall seen x, In x (dedup l seen) <-> In x l /\ ~ In x seen.
Proof.
  induction l as [|y t IH]; intros seen x; cbn [dedup In]; [tauto|].
  destruct (memN y seen) eqn:E.
  - apply memN_In in E. rewrite IH. split; [tauto|]. intros [[->|H] Hn]; [contradiction | tauto].
  - assert (Hy : ~ In y seen) by (intros H; apply memN_In in H; congruence).
    cbn [In]. rewrite IH. cbn [In]. split.
    + intros [->|[H Hn]]; [tauto|]. split; [tauto|]. intros Hs. apply Hn. right; assumption.
    + intros [[->|H] Hn]; [left; reflexivity|].
      destruct (N.eq_dec y x) as [->|Hne]; [left; reflexivity|]. right. split; [assumption|].
      intros [->|Hs]; [congruence | contradiction].
Qed.
Lemma dedup_NoDup l : forall seen, NoDup (dedup l seen).
Proof.
  induction l as [|y t IH]; intros seen; cbn [dedup]; [constructor|].
  destruct (memN y seen); [apply IH|]. constructor; [|apply IH].
  rewrite dedup_In. intros [_ Hn]. apply Hn. left; reflexivity.
Qed.
Lemma members_indices_ok idx n :
  idx <> [] -> StronglySorted N.lt idx -> Forall (fun m => 1 <= m <= n) idx -> lenN idx <= n ->
  validate_members_indices idx n = true.
Proof.
  intros Hne Hs Hf Hl. unfold validate_members_indices.
  rewrite (strictly_increasing_of_sorted _ Hs).
  pose proof (nth0_Forall _ idx 0 Hne Hf) as H0. pose proof (last_Forall _ idx 0 Hne Hf) as Hla.
  cbv beta in H0, Hla.
  assert (0 < lenN idx) by (destruct idx; [congruence | rewrite lenN_cons; lia]).
  lia.
Qed.
Lemma range_count n (l : list N) : NoDup l -> (forall x, In x l -> 1 <= x <= n) -> lenN l <= n.
Proof.
  intros Hn Hr. pose proof (disjoint_count n l [] Hn (NoDup_nil _)) as H.
  rewrite lenN_nil in H. rewrite <- (N.add_0_r (lenN l)). apply H; auto. intros x [].
Qed.
(* NewClaimPreimage: sorted, unique, same elements *)
Lemma new_claim_inactive_spec raw :
  StronglySorted N.lt (new_claim_inactive raw) /\
  (forall x, In x (new_claim_inactive raw) <-> In x raw) /\
  (raw <> [] -> new_claim_inactive raw <> []).
Proof.
  unfold new_claim_inactive. split; [apply sortN_nodup_lt, dedup_NoDup|]. split.
  - intros x. split; intros H.
    + apply (Permutation_in _ (sortN_perm _)) in H. apply dedup_In in H. tauto.
    + apply (Permutation_in _ (Permutation_sym (sortN_perm _))). apply dedup_In. split; [assumption | intros []].
  - intros Hne Hs. destruct raw as [|x t]; [congruence|].
    assert (Hl : lenN (sortN (dedup (x :: t) [])) = 0) by (rewrite Hs; reflexivity).
    rewrite lenN_sortN in Hl. cbn [dedup memN existsb] in Hl. rewrite lenN_cons in Hl. lia.
Qed.

Section Claim.
  Variables (thr : N) (c : claim_in).
  Hypothesis Hc : valid_claim thr c.
  Let keys := sortN (map fst (c_sigs c)).
  Definition model_claim : claim :=
    {| k_wallet := c_wallet c; k_inactive := new_claim_inactive (c_raw c); k_hbf := c_hbf c;
       k_sigs := concat (chunks (c_sigs c) (sortN (map fst (c_sigs c))));
       k_signing := sortN (map fst (c_sigs c)) |}.
  Lemma claim_sigs65 : forall k s, In (k, s) (c_sigs c) -> lenN s = 65.
  Proof. destruct Hc as (_ & _ & _ & _ & Hs & _). intros k s H. apply Hs in H. tauto. Qed.
  Lemma assemble_claim_spec :
    assemble_claim (c_wallet c) (new_claim_inactive (c_raw c)) (c_sigs c) (c_hbf c) = Ok model_claim.
  Proof.
    unfold assemble_claim. destruct (sigs_chain_format_ok _ claim_sigs65) as [-> _]. reflexivity.
  Qed.
  Lemma claim_keys_sorted_range :
    StronglySorted N.lt keys /\ Forall (fun m => 1 <= m <= c_nmembers c) keys.
  Proof.
    destruct Hc as (_ & _ & _ & Hnd & Hs & _). split; [apply sortN_nodup_lt; assumption|].
    eapply Permutation_Forall; [symmetry; apply sortN_perm|]. rewrite Forall_forall.
    intros k Hk. apply assoc_in in Hk. apply Hs in Hk. tauto.
  Qed.
  Lemma claim_static_ok : verify_claim_static thr model_claim (c_nmembers c) = true.
  Proof.
    pose proof Hc as (_ & Hne & Hr & Hnd & Hs & Ht & Hthr & H1 & _).
    destruct (new_claim_inactive_spec (c_raw c)) as (Hsi & Hin & Hnei).
    destruct claim_keys_sorted_range as (Hks & Hkf).
    destruct (sigs_chain_format_ok _ claim_sigs65) as [_ Hlen].
    assert (Hkl : lenN keys = lenN (c_sigs c)) by (unfold keys; rewrite lenN_sortN; apply lenN_map).
    assert (Hkn : lenN keys <= c_nmembers c).
    { apply range_count; [apply sorted_lt_NoDup; assumption | rewrite <- Forall_forall; assumption]. }
    unfold verify_claim_static. cbn [model_claim k_inactive k_sigs k_signing]. fold keys in Hlen |- *.
    rewrite members_indices_ok; [| auto | assumption | | ].
    - rewrite members_indices_ok; [| | assumption | assumption | assumption].
      + rewrite Hlen. lia.
      + intros E. rewrite E, lenN_nil in Hkl. lia.
    - rewrite Forall_forall. intros x Hx. apply Hr, Hin, Hx.
    - apply range_count; [apply sorted_lt_NoDup; assumption | intros x Hx; apply Hr, Hin, Hx].
  Qed.
End Claim.

(* the signature loop of verifyClaim *)
Lemma claim_sig_loop_ok ecrecover operator_of hash members sender :
  forall restk restc prek prec seen,
  Forall len65 prec -> length prek = length prec ->
  Forall2 (fun k c => lenN c = 65 /\ 1 <= k <= lenN members /\
                      oz_recover ecrecover hash c = Some (operator_of (seat_id members k)))
          restk restc ->
  claim_sig_loop ecrecover (length restc) (lenN prec) hash (concat (prec ++ restc)) (prek ++ restk)
                 (map operator_of members) sender seen
  = Some (seen || existsb (fun k => sender =? operator_of (seat_id members k)) restk).
Proof.
  intros restk restc prek prec seen Hp Hlen H2. revert prek prec seen Hp Hlen.
  induction H2 as [|k c rk rc (Hc & Hk & Hr) Hrest IH]; intros prek prec seen Hp Hlen.
  - cbn [length claim_sig_loop existsb]. rewrite orb_false_r. reflexivity.
  - cbn [length claim_sig_loop existsb].
    replace (N.to_nat (lenN prec)) with (length prek) by (unfold lenN; lia).
    rewrite nth_error_app_len, (slice_chunk _ _ _ Hp Hc), Hr.
    replace (k =? 0) with false by lia.
    rewrite nth_error_map, (seat_id_nth_error _ _ Hk). cbn [option_map]. rewrite N.eqb_refl.
    specialize (IH (prek ++ [k]) (prec ++ [c])).
    rewrite <- !app_assoc in IH. cbn [app] in IH.
    replace (lenN (prec ++ [c])) with (lenN prec + 1) in IH by (rewrite lenN_app; reflexivity).
    rewrite IH.
    + rewrite orb_assoc. reflexivity.
    + apply Forall_app. split; [assumption | constructor; [exact Hc | constructor]].
    + rewrite !app_length. cbn [length]. lia.
Qed.
Lemma Forall2_map_r_same {A B} (R : A -> B -> Prop) (g : A -> B) l :
  (forall x, In x l -> R x (g x)) -> Forall2 R l (map g l).
Proof.
  intros H. rewrite <- (map_id l) at 1. apply Forall2_map_same. exact H.
Qed.

Section ClaimSignatures.
  Variable keccak : bytes -> bytes.
  Variable ecrecover : bytes -> N -> bytes -> bytes -> N.
  Variable operator_of : N -> N.
  Variable signed : N -> bytes -> bytes -> Prop.
  Hypothesis keccak_len : forall b, lenN (keccak b) = 32.
  Hypothesis ecdsa_ok : ecdsa_recovers ecrecover signed.
  Variables (thr : N) (c : claim_in) (members : list N) (sender : N).
  Hypothesis Hc : valid_claim thr c.
  Hypothesis Hmem : lenN members = c_nmembers c.
  Hypothesis Hsigned : claim_supporters_signed keccak operator_of signed c members.
  (* msg.sender is the operator of one of the supporters (I:162) *)
  Hypothesis Hsender : exists k s id, In (k, s) (c_sigs c)
    /\ nth_error members (N.to_nat (k - 1)) = Some id /\ sender = operator_of id.

  Lemma claim_signatures_ok :
    verify_claim_signatures keccak ecrecover operator_of (c_chainid c) (c_nonce c)
      (wallet_x (be_bytes 32 (c_x c) ++ be_bytes 32 (c_y c)))
      (wallet_y (be_bytes 32 (c_x c) ++ be_bytes 32 (c_y c))) (model_claim c) members sender = true.
  Proof.
    pose proof Hc as (_ & _ & _ & _ & _ & _ & _ & _ & Hx & Hy & _).
    pose proof (claim_sigs65 thr c Hc) as H65.
    destruct (claim_keys_sorted_range thr c Hc) as (_ & Hkf).
    destruct (sigs_chain_format_ok _ H65) as [_ Hlen].
    destruct (claim_preimage_eq (c_chainid c) (c_nonce c) (c_x c) (c_y c) _ _ _ _ _ _
                Hx Hy (assemble_claim_spec thr c Hc) (pubkey_chain_format_ok _ _ Hx Hy)) as [Hpre _].
    unfold verify_claim_signatures. cbv zeta.
    set (hash := eth_signed_hash keccak _).
    cbn [model_claim k_sigs k_signing].
    set (keys := sortN (map fst (c_sigs c))) in *.
    replace (N.to_nat (lenN (concat (chunks (c_sigs c) keys)) / 65))
      with (length (chunks (c_sigs c) keys)).
    2:{ rewrite Hlen. unfold chunks, keys. rewrite map_length.
        pose proof (lenN_sortN (map fst (c_sigs c))) as Hk. rewrite lenN_map in Hk.
        unfold lenN in *. lia. }
    pose proof (claim_sig_loop_ok ecrecover operator_of hash members sender keys
                  (chunks (c_sigs c) keys) [] [] false (Forall_nil _) eq_refl) as HL.
    cbn [app orb] in HL. change (lenN (@nil bytes)) with 0 in HL.
    match goal with |- match ?x with _ => _ end = true =>
      assert (HX : x = Some (existsb (fun k => sender =? operator_of (seat_id members k)) keys))
    end.
    { apply HL. unfold chunks. apply Forall2_map_r_same. intros k Hk.
      rewrite Forall_forall in Hkf. pose proof (Hkf _ Hk) as Hrange. rewrite <- Hmem in Hrange.
      assert (Hin : In (k, assoc k (c_sigs c)) (c_sigs c)).
      { apply assoc_in. eapply Permutation_in; [apply sortN_perm | exact Hk]. }
      pose proof (H65 _ _ Hin) as Hl. split; [exact Hl|]. split; [exact Hrange|].
      destruct (Hsigned _ _ _ Hin (seat_id_nth_error _ _ Hrange)) as (pre & Hp & Hs).
      rewrite Hpre in Hp. inversion Hp; subst pre; clear Hp.
      apply (signed_recovers keccak ecrecover signed keccak_len ecdsa_ok); assumption. }
    rewrite HX; clear HX HL.
    destruct Hsender as (k0 & s0 & id0 & Hin0 & Hid0 & ->).
    assert (Hk0 : In k0 keys).
    { apply (Permutation_in _ (Permutation_sym (sortN_perm _))).
      apply (in_map fst) in Hin0. exact Hin0. }
    replace (existsb _ keys) with true; [reflexivity|]. symmetry. apply existsb_exists.
    exists k0. split; [exact Hk0|].
    rewrite Forall_forall in Hkf. pose proof (Hkf _ Hk0) as Hrange. rewrite <- Hmem in Hrange.
    rewrite (seat_id_nth_error _ _ Hrange) in Hid0. inversion Hid0. apply N.eqb_refl.
  Qed.
End ClaimSignatures.

(* ------------------------------------------------------------------ executable form of valid_claim *)
Lemma valid_claimb_sound thr c : valid_claimb thr c = true -> valid_claim thr c.
Proof.
  unfold valid_claimb. cbv zeta. intros H.
  repeat (apply andb_true_iff in H as [H ?]).
  unfold valid_claim. cbv zeta.
  repeat match goal with |- _ /\ _ => split end; try lia; auto using nodupb_NoDup.
  - intros E. rewrite E in *. discriminate.
  - intros m Hm.
    match goal with Hf : forallb (in_range _) (c_raw c) = true |- _ =>
      rewrite forallb_forall in Hf; apply Hf in Hm end.
    unfold in_range in Hm. lia.
  - intros k s Hin.
    match goal with Hf : forallb _ (c_sigs c) = true |- _ =>
      rewrite forallb_forall in Hf; apply Hf in Hin end.
    cbn [fst snd] in Hin. unfold in_range in Hin. lia.
Qed.

(* ------------------------------------------------------------------ statements used by Props (signatures, claims) *)
Lemma assembled_result_valid keccak ecrecover operator_of signed :
  (forall b, lenN (keccak b) = 32) -> ecdsa_recovers ecrecover signed ->
  forall p quorum i, valid_in p quorum i -> supporters_signed keccak operator_of signed i ->
  exists a, assemble i = Ok a /\ submit quorum i = Ok a /\
    validate_fields p (a_pubkey a) (a_misbehaved a) (a_sigs a) (a_signing a) = Valid /\
    validate_members_hash keccak (a_members a) (a_misbehaved a) (to_result_hash keccak a) = Some true /\
    validate_signatures keccak ecrecover operator_of (i_chainid i) (i_start i)
      (a_pubkey a) (a_misbehaved a) (a_sigs a) (a_signing a) (a_members a) = Some true.
Proof.
  intros Hk He p quorum i Hv Hs. exists (model_result i).
  destruct (assemble_spec p quorum i Hv) as [Ha Hsub].
  split; [exact Ha|]. split; [exact Hsub|]. split; [exact (result_fields_valid p quorum i Hv)|].
  split.
  - unfold validate_members_hash, to_result_hash.
    rewrite (result_members_preimage p quorum i Hv), list_eqb_refl. reflexivity.
  - exact (result_signatures_valid keccak ecrecover operator_of signed Hk He p quorum i Hv Hs).
Qed.
Lemma assembled_claim_static thr c : valid_claim thr c ->
  exists k, assemble_claim (c_wallet c) (new_claim_inactive (c_raw c)) (c_sigs c) (c_hbf c) = Ok k /\
    StronglySorted N.lt (k_inactive k) /\ (forall x, In x (k_inactive k) <-> In x (c_raw c)) /\
    StronglySorted N.lt (k_signing k) /\ Permutation (k_signing k) (map fst (c_sigs c)) /\
    k_sigs k = concat (map (fun s => assoc s (c_sigs c)) (k_signing k)) /\
    verify_claim_static thr k (c_nmembers c) = true.
Proof.
  intros Hc. exists (model_claim c). split; [exact (assemble_claim_spec thr c Hc)|].
  destruct (new_claim_inactive_spec (c_raw c)) as (H1 & H2 & _).
  destruct (claim_keys_sorted_range thr c Hc) as (H3 & _).
  split; [exact H1|]. split; [exact H2|]. split; [exact H3|]. split; [apply sortN_perm|].
  split; [reflexivity|]. exact (claim_static_ok thr c Hc).
Qed.
Lemma empty_inactive_rejected thr k n : k_inactive k = [] -> verify_claim_static thr k n = false.
Proof. intros H. unfold verify_claim_static, validate_members_indices. rewrite H. reflexivity. Qed.
Lemma assembled_claim_signatures keccak ecrecover operator_of signed :
  (forall b, lenN (keccak b) = 32) -> ecdsa_recovers ecrecover signed ->
  forall thr c members sender, valid_claim thr c -> lenN members = c_nmembers c ->
  claim_supporters_signed keccak operator_of signed c members ->
  (exists k s id, In (k, s) (c_sigs c) /\ nth_error members (N.to_nat (k - 1)) = Some id
                  /\ sender = operator_of id) ->
  exists k pk,
    assemble_claim (c_wallet c) (new_claim_inactive (c_raw c)) (c_sigs c) (c_hbf c) = Ok k /\
    pubkey_chain_format (c_x c) (c_y c) = Some pk /\
    verify_claim_static thr k (lenN members) = true /\
    verify_claim_signatures keccak ecrecover operator_of (c_chainid c) (c_nonce c)
                            (wallet_x pk) (wallet_y pk) k members sender = true.
Proof.
  intros Hk He thr c members sender Hc Hm Hs Hsend.
  pose proof Hc as (_ & _ & _ & _ & _ & _ & _ & _ & Hx & Hy & _).
  exists (model_claim c), (be_bytes 32 (c_x c) ++ be_bytes 32 (c_y c)).
  split; [exact (assemble_claim_spec thr c Hc)|]. split; [exact (pubkey_chain_format_ok _ _ Hx Hy)|].
  split; [rewrite Hm; exact (claim_static_ok thr c Hc)|].
  exact (claim_signatures_ok keccak ecrecover operator_of signed Hk He thr c members sender Hc Hm Hs Hsend).
Qed.

(* ------------------------------------------------------------------ non-vacuity of the signature theorems:
   a toy hash / signature scheme satisfying every hypothesis *)
Definition toy_keccak (b : bytes) : bytes := be_bytes 32 (fold_left N.add b 7).
Definition toy_operator (id : N) : N := id + 1000.
(* R = signer address + digest, S = 1, V = 27 *)
Definition toy_ecrecover (digest : bytes) (v : N) (r s : bytes) : N := be_value r - be_value digest.
Definition toy_signed (addr : N) (digest sig : bytes) : Prop :=
  addr <> 0 /\ sig_v sig = 27 /\ be_value (sig_s sig) = 1 /\ be_value (sig_r sig) = addr + be_value digest.
Definition toy_sign (addr : N) (msg : bytes) : bytes :=
  be_bytes 32 (addr + be_value (toy_keccak (client_eth_preimage msg))) ++ be_bytes 32 1 ++ [27].
Example toy_keccak_len : forall b, lenN (toy_keccak b) = 32.
Proof. intros b. unfold toy_keccak, lenN. rewrite be_bytes_length. reflexivity. Qed.
Example toy_ecdsa : ecdsa_recovers toy_ecrecover toy_signed.
Proof.
  intros addr digest sig (Ha & Hv & Hs & Hr) _. unfold toy_ecrecover. rewrite Hs, Hr.
  split; [vm_compute; discriminate|]. split; [left; exact Hv|]. split; [lia | exact Ha].
Qed.

Definition opt_bytes (o : option bytes) : bytes := match o with Some b => b | None => [] end.
Definition ex_msg : bytes :=
  toy_keccak (opt_bytes (client_sig_preimage 1 5 (2 ^ 255 + 7) [3] 1000)).
Definition ex_in_signed : dkg_in :=
  {| i_chainid := 1; i_start := 1000; i_x := 5; i_y := 2 ^ 255 + 7;
     i_members := [70; 80; 70; 90]; i_submitter := 2;
     i_operating := [4; 1; 2]; i_misbehaved := [3];
     i_sigs := [(4, toy_sign (toy_operator 90) ex_msg); (1, toy_sign (toy_operator 70) ex_msg);
                (2, toy_sign (toy_operator 80) ex_msg)] |}.
Example ex_signed_valid : valid_in ex_params 3 ex_in_signed.
Proof. apply valid_inb_sound. vm_compute. reflexivity. Qed.
Example ex_supporters_signed : supporters_signed toy_keccak toy_operator toy_signed ex_in_signed.
Proof.
  intros k s id Hin Hid. exists [3], (opt_bytes (client_sig_preimage 1 5 (2 ^ 255 + 7) [3] 1000)).
  split; [apply Permutation_refl|]. split; [vm_compute; reflexivity|].
  cbn [ex_in_signed i_sigs i_members In] in Hin, Hid.
  destruct Hin as [E|[E|[E|[]]]]; inversion E; subst k s; clear E;
    vm_compute in Hid; inversion Hid; subst id; clear Hid;
    (split; [vm_compute; discriminate|]); vm_compute; repeat split.
Qed.
(* the theorem applies to the example, and the contract check really runs to `true` on it *)
Example ex_signatures_valid :
  exists a, assemble ex_in_signed = Ok a /\
    validate_signatures toy_keccak toy_ecrecover toy_operator 1 1000
      (a_pubkey a) (a_misbehaved a) (a_sigs a) (a_signing a) (a_members a) = Some true.
Proof.
  destruct (assembled_result_valid toy_keccak toy_ecrecover toy_operator toy_signed toy_keccak_len
              toy_ecdsa ex_params 3 ex_in_signed ex_signed_valid ex_supporters_signed)
    as (a & Ha & _ & _ & _ & Hs).
  exists a. split; assumption.
Qed.
(* ... and the transcribed check is not trivially true: a supporter's signature placed at another
   seat, a wrong recovery byte, or a signature over another start block are not accepted *)
Definition with_sigs (i : dkg_in) (m : list (N * bytes)) : dkg_in :=
  {| i_chainid := i_chainid i; i_start := i_start i; i_x := i_x i; i_y := i_y i;
     i_members := i_members i; i_submitter := i_submitter i; i_operating := i_operating i;
     i_misbehaved := i_misbehaved i; i_sigs := m |}.
Definition run_validate_signatures (start : N) (i : dkg_in) : option bool :=
  match assemble i with
  | Ok a => validate_signatures toy_keccak toy_ecrecover toy_operator (i_chainid i) start
              (a_pubkey a) (a_misbehaved a) (a_sigs a) (a_signing a) (a_members a)
  | _ => None
  end.
Example ex_signatures_checked :
  run_validate_signatures 1000 ex_in_signed = Some true
  /\ run_validate_signatures 1000
       (with_sigs ex_in_signed [(4, toy_sign (toy_operator 70) ex_msg); (1, toy_sign (toy_operator 90) ex_msg);
                                (2, toy_sign (toy_operator 80) ex_msg)]) = Some false
  /\ run_validate_signatures 1000
       (with_sigs ex_in_signed [(4, toy_sign (toy_operator 90) ex_msg); (1, toy_sign (toy_operator 70) ex_msg);
                                (2, firstn 64 (toy_sign (toy_operator 80) ex_msg) ++ [0])]) = None
  /\ run_validate_signatures 1001 ex_in_signed = Some false.
Proof. vm_compute. repeat split. Qed.

(* a claim: group of five, members 2 and 5 inactive (reported as 5, 2, 5), supporters 4, 1, 3 *)
Definition ex_claim_pre : bytes :=
  opt_bytes (client_claim_preimage 1 9 5 (2 ^ 255 + 7) [2; 5] true).
Definition ex_claim_msg : bytes := toy_keccak ex_claim_pre.
Definition ex_claim_members : list N := [70; 80; 70; 90; 60].
Definition ex_claim_in : claim_in :=
  {| c_chainid := 1; c_nonce := 9; c_x := 5; c_y := 2 ^ 255 + 7; c_raw := [5; 2; 5]; c_hbf := true;
     c_wallet := repeat 1 32;
     c_sigs := [(4, toy_sign (toy_operator 90) ex_claim_msg); (1, toy_sign (toy_operator 70) ex_claim_msg);
                (3, toy_sign (toy_operator 70) ex_claim_msg)];
     c_nmembers := 5; c_threshold := 3 |}.
Example ex_claim_valid : valid_claim 3 ex_claim_in.
Proof. apply valid_claimb_sound. vm_compute. reflexivity. Qed.
Example ex_claim_signed :
  claim_supporters_signed toy_keccak toy_operator toy_signed ex_claim_in ex_claim_members.
Proof.
  intros k s id Hin Hid. exists ex_claim_pre. split; [vm_compute; reflexivity|].
  cbn [ex_claim_in c_sigs In] in Hin.
  destruct Hin as [E|[E|[E|[]]]]; inversion E; subst k s; clear E;
    vm_compute in Hid; inversion Hid; subst id; clear Hid;
    (split; [vm_compute; discriminate|]); vm_compute; repeat split.
Qed.
Example ex_claim_verified :
  exists k pk,
    assemble_claim (c_wallet ex_claim_in) (new_claim_inactive (c_raw ex_claim_in)) (c_sigs ex_claim_in)
                   (c_hbf ex_claim_in) = Ok k /\
    pubkey_chain_format 5 (2 ^ 255 + 7) = Some pk /\
    k_inactive k = [2; 5] /\ k_signing k = [1; 3; 4] /\
    verify_claim_static 3 k 5 = true /\
    verify_claim_signatures toy_keccak toy_ecrecover toy_operator 1 9 (wallet_x pk) (wallet_y pk) k
                            ex_claim_members (toy_operator 90) = true /\
    (* a sender that is not among the signers is refused *)
    verify_claim_signatures toy_keccak toy_ecrecover toy_operator 1 9 (wallet_x pk) (wallet_y pk) k
                            ex_claim_members (toy_operator 60) = false.
Proof.
  destruct (assembled_claim_signatures toy_keccak toy_ecrecover toy_operator toy_signed toy_keccak_len
              toy_ecdsa 3 ex_claim_in ex_claim_members (toy_operator 90) ex_claim_valid eq_refl
              ex_claim_signed) as (k & pk & Hk & Hpk & Hst & Hsig).
  { exists 4, (toy_sign (toy_operator 90) ex_claim_msg), 90. split; [left; reflexivity|].
    split; reflexivity. }
  exists k, pk. split; [exact Hk|]. split; [exact Hpk|].
  vm_compute in Hk. inversion Hk; subst k; clear Hk.
  vm_compute in Hpk. inversion Hpk; subst pk; clear Hpk.
  split; [reflexivity|]. split; [reflexivity|]. split; [exact Hst|]. split; [exact Hsig|].
  vm_compute. reflexivity.
Qed.

(* ------------------------------------------------------------------ the client's own check (repaired) *)
(* a signature the repaired client check accepts is exactly what OZ recover needs: for
   client-verified signatures [ecdsa_recovers] is a theorem, not a hypothesis *)
Lemma client_accepts_recovers ecrecover addr digest sig :
  client_accepts ecrecover addr digest sig = true -> addr <> 0 ->
  oz_recover ecrecover digest sig = Some addr.
Proof.
  unfold client_accepts. intros H Ha.
  repeat (apply andb_true_iff in H as [H ?]).
  apply oz_recover_ok; try lia.
Qed.
Lemma client_accepted_ecdsa ecrecover :
  ecdsa_recovers ecrecover (fun addr digest sig => client_accepts ecrecover addr digest sig = true /\ addr <> 0).
Proof.
  intros addr digest sig [H Ha] _. unfold client_accepts in H.
  repeat (apply andb_true_iff in H as [H ?]).
  split; [lia|]. split; [lia|]. split; [lia | exact Ha].
Qed.
(* the defect that was repaired: with the V byte ignored, the client accepted signatures that
   OZ recover refuses (V = 29 here; the driver's corpus has the witnesses against the real code) *)
Example before_fix_accepted_but_rejected :
  let digest := toy_keccak [1; 2; 3] in
  let sig := firstn 64 (toy_sign 1090 [1; 2; 3]) ++ [29] in
  let digest' := toy_keccak (client_eth_preimage [1; 2; 3]) in
  client_accepts_before_fix toy_ecrecover 1090 digest' sig = true
  /\ client_accepts toy_ecrecover 1090 digest' sig = false
  /\ oz_recover toy_ecrecover digest' sig = None
  /\ client_accepts toy_ecrecover 1090 digest' (toy_sign 1090 [1; 2; 3]) = true.
Proof. vm_compute. repeat split. Qed.


(* ------------------------------------------------------------------ call histories on one handle *)
Lemma run_history_acc calls : forall log,
  fold_left handle_step calls log = log ++ map call_client_preimage calls.
Proof.
  induction calls as [|c t IH]; intros log; cbn [fold_left map].
  - now rewrite app_nil_r.
  - rewrite IH. unfold handle_step. now rewrite <- app_assoc.
Qed.
(* a history is the map of the pure per-call function *)
Lemma history_is_map calls : run_history calls = map call_client_preimage calls.
Proof. unfold run_history. now rewrite run_history_acc. Qed.
Lemma history_app a b : run_history (a ++ b) = run_history a ++ run_history b.
Proof. now rewrite !history_is_map, map_app. Qed.
(* the answer to a call does not depend on the calls made before or after it *)
Lemma history_nth before c after :
  nth_error (run_history (before ++ c :: after)) (length before) = Some (call_client_preimage c).
Proof.
  rewrite history_is_map, map_app. cbn [map].
  rewrite nth_error_app2 by (rewrite map_length; lia).
  rewrite map_length, Nat.sub_diag. reflexivity.
Qed.

(* for every call within the property's domain the client hashes the contract's bytes *)
Lemma call_preimages_equal c : call_validb c = true ->
  exists pre, call_client_preimage c = Some pre /\ call_contract_preimage c = Some pre.
Proof.
  unfold call_validb. intros H. repeat (apply andb_true_iff in H as [H ?]).
  assert (Hx : h_x c < two256) by lia. assert (Hy : h_y c < two256) by lia.
  unfold call_client_preimage, call_contract_preimage.
  rewrite (pubkey_chain_format_ok _ _ Hx Hy).
  destruct (h_op c).
  1-3: (eexists; split; [|reflexivity];
        unfold client_sig_preimage, marshal_uncompressed, contract_sig_preimage;
        replace (h_x c <? two256) with true by lia; replace (h_y c <? two256) with true by lia;
        cbn [andb tl]; rewrite key64_length; cbn [N.eqb Pos.eqb];
        rewrite go_pack_eq; unfold start_word_value;
        replace (h_start c <? 2 ^ 63) with true by lia; reflexivity).
  1-2: (eexists; split; [|reflexivity];
        unfold client_claim_preimage, marshal_uncompressed, contract_claim_preimage, wallet_x, wallet_y,
          dummy_claim;
        replace (h_x c <? two256) with true by lia; replace (h_y c <? two256) with true by lia;
        cbn [andb tl k_inactive k_hbf]; rewrite key64_length; cbn [N.eqb Pos.eqb];
        rewrite go_pack_eq, firstn_skipn; reflexivity).
  eexists; split; [|reflexivity]. unfold client_wallet_preimage.
  rewrite (pubkey_chain_format_ok _ _ Hx Hy). reflexivity.
Qed.

Lemma bytes_opt_eqb_some a b : bytes_opt_eqb a (Some b) = true -> a = Some b.
Proof.
  destruct a as [x|]; cbn [bytes_opt_eqb]; [|discriminate].
  intros H. now rewrite (list_eqb_eq _ _ H).
Qed.
(* what a passing history says, call by call *)
Definition hentry_good (e : hcall * hobs) : Prop :=
  call_validb (fst e) = true ->
  call_contract_preimage (fst e) = Some (b_pre (snd e))
  /\ call_client_preimage (fst e) = Some (b_pre (snd e))
  /\ b_some (snd e) = true /\ b_ok (snd e) = true /\ b_recovers (snd e) = true
  /\ b_late (snd e) = true.
Lemma hspec_ok_sound h : hspec_ok h = true -> Forall hentry_good h.
Proof.
  unfold hspec_ok. rewrite forallb_forall, Forall_forall. intros H e He.
  specialize (H e He). destruct e as [c o]. unfold hentry_good. cbn [fst snd]. intros Hv.
  unfold hspec_entry in H. rewrite Hv in H. cbn [negb] in H.
  repeat (apply andb_true_iff in H as [H ?]).
  apply bytes_opt_eqb_some in H3.
  destruct (call_preimages_equal c Hv) as (pre & Hc & Hk).
  rewrite Hk in H3. inversion H3; subst pre. rewrite Hk, Hc. tauto.
Qed.
(* the model's own history passes: an implementation that answers every call of a history with
   Keccak256 of the model's bytes for THAT call passes [hspec_ok] and [hagree] *)
Definition model_obs (c : hcall) : hobs :=
  {| b_some := match call_client_preimage c with Some _ => true | None => false end;
     b_pre := match call_client_preimage c with Some p => p | None => [] end;
     b_ok := true; b_recovers := true; b_late := true |}.
Lemma model_history_passes calls :
  hspec_ok (map (fun c => (c, model_obs c)) calls) = true
  /\ hagree (map (fun c => (c, model_obs c)) calls) = true.
Proof.
  unfold hspec_ok, hagree. split.
  - rewrite forallb_forall. intros e He. apply in_map_iff in He as (c & <- & _).
    unfold hspec_entry. destruct (call_validb c) eqn:Hv; cbn [negb]; [|reflexivity].
    destruct (call_preimages_equal c Hv) as (pre & Hc & Hk).
    unfold model_obs. rewrite Hc, Hk. cbn [b_some b_pre b_ok b_recovers b_late bytes_opt_eqb andb].
    now rewrite list_eqb_refl.
  - apply andb_true_iff. split.
    + rewrite forallb_forall. intros e He. apply in_map_iff in He as (c & <- & _).
      unfold hagree_entry, model_obs. destruct (call_client_preimage c) as [pre|]; cbn; auto.
      now rewrite list_eqb_refl.
    + rewrite history_is_map. unfold lenN. rewrite !map_length. apply N.eqb_refl.
Qed.
(* every field of the preimage decides the bytes: two results with the same key and start block
   but another misbehaved list, another start block, another chain id, another key; claims with
   another nonce / inactive list / heartbeat flag *)
Example every_field_decides :
  let base := {| h_op := HHash; h_chainid := 1; h_x := 7; h_y := 9; h_start := 100;
                 h_list := [2]; h_nonce := 5; h_hbf := false |} in
  let differs a b := negb (bytes_opt_eqb (call_client_preimage a) (call_client_preimage b)) in
  differs base {| h_op := HHash; h_chainid := 1; h_x := 7; h_y := 9; h_start := 100;
                  h_list := [2; 3]; h_nonce := 5; h_hbf := false |} = true
  /\ differs base {| h_op := HHash; h_chainid := 1; h_x := 7; h_y := 9; h_start := 100;
                     h_list := []; h_nonce := 5; h_hbf := false |} = true
  /\ differs base {| h_op := HHash; h_chainid := 1; h_x := 7; h_y := 9; h_start := 101;
                     h_list := [2]; h_nonce := 5; h_hbf := false |} = true
  /\ differs base {| h_op := HHash; h_chainid := 2; h_x := 7; h_y := 9; h_start := 100;
                     h_list := [2]; h_nonce := 5; h_hbf := false |} = true
  /\ differs base {| h_op := HHash; h_chainid := 1; h_x := 8; h_y := 9; h_start := 100;
                     h_list := [2]; h_nonce := 5; h_hbf := false |} = true
  /\ differs {| h_op := HClaim; h_chainid := 1; h_x := 7; h_y := 9; h_start := 0;
                h_list := [2]; h_nonce := 5; h_hbf := false |}
             {| h_op := HClaim; h_chainid := 1; h_x := 7; h_y := 9; h_start := 0;
                h_list := [2]; h_nonce := 6; h_hbf := false |} = true
  /\ differs {| h_op := HClaim; h_chainid := 1; h_x := 7; h_y := 9; h_start := 0;
                h_list := [2]; h_nonce := 5; h_hbf := false |}
             {| h_op := HClaim; h_chainid := 1; h_x := 7; h_y := 9; h_start := 0;
                h_list := [2]; h_nonce := 5; h_hbf := true |} = true
  /\ differs {| h_op := HClaim; h_chainid := 1; h_x := 7; h_y := 9; h_start := 0;
                h_list := [2]; h_nonce := 5; h_hbf := false |}
             {| h_op := HClaim; h_chainid := 1; h_x := 7; h_y := 9; h_start := 0;
                h_list := [2; 4]; h_nonce := 5; h_hbf := false |} = true.
Proof. vm_compute. repeat split. Qed.
