(* C29 — proofs about the codec model Model/C29.v *)
From Coq Require Import String Ascii ZArith NArith List Bool Lia.
From Coq Require Import ZifyBool ZifyNat ZifyN.
From KV Require Import Common.Verdict Model.C29.
Import ListNotations.
Open Scope N_scope.
Ltac Zify.zify_post_hook ::= Z.div_mod_to_equations.

(* ------------------------------------------------------------------ little endian *)
Lemma le_bytes_length n v : length (le_bytes n v) = n.
Proof. revert v; induction n as [|n IH]; intros v; cbn [le_bytes length]; [reflexivity|now rewrite IH]. Qed.

Lemma pow256_succ n : 256 ^ N.of_nat (S n) = 256 * 256 ^ N.of_nat n.
Proof. now rewrite Nat2N.inj_succ, N.pow_succ_r'. Qed.

Lemma le_val_le_bytes n v : le_val (le_bytes n v) = v mod 256 ^ N.of_nat n.
Proof.
  revert v; induction n as [|n IH]; intros v; cbn [le_bytes le_val].
  - change (256 ^ N.of_nat 0) with 1. now rewrite N.mod_1_r.
  - rewrite IH, pow256_succ, N.mod_mul_r; [reflexivity|lia|].
    apply N.pow_nonzero; lia.
Qed.

Lemma le_val_le_bytes_small n v : v < 256 ^ N.of_nat n -> le_val (le_bytes n v) = v.
Proof. intros H; rewrite le_val_le_bytes; now apply N.mod_small. Qed.

Lemma le_bytes_ok n v : bytes_ok (le_bytes n v) = true.
Proof.
  revert v; induction n as [|n IH]; intros v; cbn [le_bytes bytes_ok forallb]; [reflexivity|].
  fold (bytes_ok (le_bytes n (v / 256))). rewrite IH, andb_true_r.
  unfold byte_ok. apply N.ltb_lt, N.mod_lt; lia.
Qed.

Lemma bytes_ok_cons b l : bytes_ok (b :: l) = true <-> b < 256 /\ bytes_ok l = true.
Proof. unfold bytes_ok; cbn [forallb]; unfold byte_ok; rewrite andb_true_iff, N.ltb_lt; tauto. Qed.

Lemma bytes_ok_app a b : bytes_ok (a ++ b) = bytes_ok a && bytes_ok b.
Proof. unfold bytes_ok; apply forallb_app. Qed.

Lemma le_bytes_le_val l : bytes_ok l = true -> le_bytes (length l) (le_val l) = l.
Proof.
  induction l as [|b t IH]; intros H; [reflexivity|].
  apply bytes_ok_cons in H; destruct H as [Hb Ht].
  cbn [length le_bytes le_val].
  replace ((b + 256 * le_val t) mod 256) with b by lia.
  replace ((b + 256 * le_val t) / 256) with (le_val t) by lia.
  now rewrite IH.
Qed.

Lemma le_val_bound l : bytes_ok l = true -> le_val l < 256 ^ N.of_nat (length l).
Proof.
  induction l as [|b t IH]; intros H.
  - cbn; lia.
  - apply bytes_ok_cons in H; destruct H as [Hb Ht]. specialize (IH Ht).
    cbn [length le_val]. rewrite pow256_succ.
    set (p := 256 ^ N.of_nat (length t)) in *. lia.
Qed.

(* ------------------------------------------------------------------ split_at / take *)
Lemma split_at_app a b : split_at (a ++ b) (len a) = Some (a, b).
Proof.
  unfold len; induction a as [|x a IH].
  - destruct b; reflexivity.
  - cbn [app length split_at].
    destruct (N.eqb_spec (N.of_nat (S (length a))) 0) as [E|_]; [lia|].
    replace (N.pred (N.of_nat (S (length a)))) with (N.of_nat (length a)) by lia.
    now rewrite IH.
Qed.

Lemma split_at_inv l : forall n a r, split_at l n = Some (a, r) -> l = a ++ r /\ len a = n.
Proof.
  unfold len; induction l as [|x l IH]; intros n a r H; cbn [split_at] in H.
  - destruct (N.eqb_spec n 0) as [E|E]; [|discriminate]. inversion H; subst; split; reflexivity.
  - destruct (N.eqb_spec n 0) as [E|E].
    + inversion H; subst; split; reflexivity.
    + destruct (split_at l (N.pred n)) as [[a' r']|] eqn:S; [|discriminate].
      inversion H; subst. apply IH in S; destruct S as [-> L]. split; [reflexivity|].
      cbn [length]; lia.
Qed.

Lemma take_app n a b : n = len a -> take n (a ++ b) = ROk a b.
Proof. intros ->; unfold take; now rewrite split_at_app. Qed.

Lemma take_inv n l a r : take n l = ROk a r -> l = a ++ r /\ len a = n.
Proof.
  unfold take; destruct (split_at l n) as [[a' r']|] eqn:S; [|discriminate].
  intros H; inversion H; subst. now apply split_at_inv.
Qed.

Lemma read_le_app n v rest :
  v < 256 ^ N.of_nat n -> read_le n (le_bytes n v ++ rest) = ROk v rest.
Proof.
  intros H; unfold read_le. rewrite take_app by (unfold len; now rewrite le_bytes_length).
  cbn [bind]. now rewrite le_val_le_bytes_small.
Qed.

Lemma read_le_inv n l v r :
  bytes_ok l = true -> read_le n l = ROk v r ->
  l = le_bytes n v ++ r /\ v < 256 ^ N.of_nat n /\ bytes_ok r = true.
Proof.
  unfold read_le; intros Hok H. destruct (take (N.of_nat n) l) as [a r'|] eqn:T; [|discriminate].
  cbn [bind] in H; inversion H; subst. apply take_inv in T; destruct T as [-> L].
  rewrite bytes_ok_app, andb_true_iff in Hok; destruct Hok as [Ha Hr].
  unfold len in L; apply Nat2N.inj in L. subst n.
  split; [now rewrite le_bytes_le_val|]. split; [now apply le_val_bound|assumption].
Qed.

(* ------------------------------------------------------------------ compact size *)
Lemma cs_size_length v : cs_size v = len (cs_encode v).
Proof.
  unfold cs_size, cs_encode, len.
  destruct (v <? 253); [reflexivity|]. destruct (v <=? 65535); [reflexivity|].
  destruct (v <=? 4294967295); reflexivity.
Qed.

Lemma cs_encode_nonempty v : (1 <= length (cs_encode v))%nat.
Proof.
  unfold cs_encode. destruct (v <? 253); [cbn; lia|]. destruct (v <=? 65535); [cbn; lia|].
  destruct (v <=? 4294967295); cbn; lia.
Qed.

Lemma pow256_2 : 256 ^ N.of_nat 2 = 65536. Proof. reflexivity. Qed.
Lemma pow256_4 : 256 ^ N.of_nat 4 = 4294967296. Proof. reflexivity. Qed.
Lemma pow256_8 : 256 ^ N.of_nat 8 = 18446744073709551616. Proof. reflexivity. Qed.
Lemma cs_decode_253 l : cs_decode (253 :: l) = read_min 2 253 l. Proof. reflexivity. Qed.
Lemma cs_decode_254 l : cs_decode (254 :: l) = read_min 4 65536 l. Proof. reflexivity. Qed.
Lemma cs_decode_255 l : cs_decode (255 :: l) = read_min 8 4294967296 l. Proof. reflexivity. Qed.
Lemma cs_decode_small d l : d < 253 -> cs_decode (d :: l) = ROk d l.
Proof.
  intros H. unfold cs_decode.
  destruct (N.eqb_spec d 255); [lia|]. destruct (N.eqb_spec d 254); [lia|].
  destruct (N.eqb_spec d 253); [lia|]. reflexivity.
Qed.
Lemma read_min_app n m v rest :
  v < 256 ^ N.of_nat n -> m <= v -> read_min n m (le_bytes n v ++ rest) = ROk v rest.
Proof.
  intros H1 H2. unfold read_min. rewrite read_le_app by assumption. unfold bind.
  destruct (N.ltb_spec v m); [lia|reflexivity].
Qed.

Lemma cs_roundtrip v rest : v < two64 -> cs_decode (cs_encode v ++ rest) = ROk v rest.
Proof.
  unfold two64; intros Hv. unfold cs_encode.
  destruct (N.ltb_spec v 253) as [H1|H1].
  - change ([v] ++ rest) with (v :: rest). now apply cs_decode_small.
  - destruct (N.leb_spec v 65535) as [H2|H2]; [|destruct (N.leb_spec v 4294967295) as [H3|H3]].
    + change ((253 :: le_bytes 2 v) ++ rest) with (253 :: (le_bytes 2 v ++ rest)).
      rewrite cs_decode_253. apply read_min_app; [rewrite pow256_2; lia|lia].
    + change ((254 :: le_bytes 4 v) ++ rest) with (254 :: (le_bytes 4 v ++ rest)).
      rewrite cs_decode_254. apply read_min_app; [rewrite pow256_4; lia|lia].
    + change ((255 :: le_bytes 8 v) ++ rest) with (255 :: (le_bytes 8 v ++ rest)).
      rewrite cs_decode_255. apply read_min_app; [rewrite pow256_8; lia|lia].
Qed.

Lemma read_min_inv n m l v r :
  bytes_ok l = true -> read_min n m l = ROk v r ->
  l = le_bytes n v ++ r /\ v < 256 ^ N.of_nat n /\ m <= v /\ bytes_ok r = true.
Proof.
  unfold read_min. intros Hok H. destruct (read_le n l) as [w r'|] eqn:R; [|discriminate].
  unfold bind in H. destruct (N.ltb_spec w m) as [L|L]; [discriminate|].
  inversion H; subst. apply read_le_inv in R; [|assumption]. destruct R as (R1 & R2 & R3).
  repeat split; assumption.
Qed.

Lemma cs_canonical inp v rest :
  bytes_ok inp = true -> cs_decode inp = ROk v rest ->
  inp = cs_encode v ++ rest /\ v < two64 /\ bytes_ok rest = true.
Proof.
  unfold two64. destruct inp as [|d t]; [discriminate|]. intros Hok H.
  apply bytes_ok_cons in Hok; destruct Hok as [Hd Ht].
  destruct (N.eq_dec d 255) as [E|E1]; [|destruct (N.eq_dec d 254) as [E|E2]; [|destruct (N.eq_dec d 253) as [E|E3]]].
  - subst d. rewrite cs_decode_255 in H. apply read_min_inv in H; [|assumption].
    destruct H as (-> & B & M & Hr). rewrite pow256_8 in B. unfold cs_encode.
    destruct (N.ltb_spec v 253); [lia|]. destruct (N.leb_spec v 65535); [lia|].
    destruct (N.leb_spec v 4294967295); [lia|]. repeat split; [lia|assumption].
  - subst d. rewrite cs_decode_254 in H. apply read_min_inv in H; [|assumption].
    destruct H as (-> & B & M & Hr). rewrite pow256_4 in B. unfold cs_encode.
    destruct (N.ltb_spec v 253); [lia|]. destruct (N.leb_spec v 65535); [lia|].
    destruct (N.leb_spec v 4294967295); [|lia]. repeat split; [lia|assumption].
  - subst d. rewrite cs_decode_253 in H. apply read_min_inv in H; [|assumption].
    destruct H as (-> & B & M & Hr). rewrite pow256_2 in B. unfold cs_encode.
    destruct (N.ltb_spec v 253); [lia|]. destruct (N.leb_spec v 65535); [|lia].
    repeat split; [lia|assumption].
  - rewrite cs_decode_small in H by lia. inversion H; subst. unfold cs_encode.
    destruct (N.ltb_spec v 253); [|lia]. repeat split; [lia|assumption].
Qed.

(* ------------------------------------------------------------------ var bytes / scripts *)
Lemma read_script_app M s rest :
  len s <= M -> M < two64 -> read_script M (var_bytes s ++ rest) = ROk s rest.
Proof.
  intros H1 H2. unfold read_script, var_bytes. rewrite <- app_assoc.
  rewrite cs_roundtrip by lia. cbn [bind].
  destruct (N.ltb_spec M (len s)); [lia|]. now apply take_app.
Qed.

Lemma var_bytes_nonempty s : (1 <= length (var_bytes s))%nat.
Proof. unfold var_bytes; rewrite app_length. pose proof (cs_encode_nonempty (len s)); lia. Qed.

Lemma cs_size_bounds v : 1 <= cs_size v <= 9 /\ (4294967295 < v -> cs_size v = 9).
Proof.
  unfold cs_size. destruct (N.ltb_spec v 253); [lia|]. destruct (N.leb_spec v 65535); [lia|].
  destruct (N.leb_spec v 4294967295); lia.
Qed.

Lemma skipn_app_exact {A} (a b : list A) : skipn (length a) (a ++ b) = b.
Proof. induction a; [reflexivity|assumption]. Qed.
Lemma firstn_app_exact {A} (a b : list A) : firstn (length a) (a ++ b) = a.
Proof. induction a as [|x a IH]; cbn; [now destruct b|now rewrite IH]. Qed.

Lemma script_roundtrip s :
  len s < 9223372036854775808 -> script_from_var_len (script_to_var_len s) = Some s.
Proof.
  intros H. unfold script_from_var_len, script_to_var_len, read_compact_size_uint, var_bytes.
  rewrite cs_roundtrip by (unfold two64; lia).
  pose proof (cs_size_bounds (len s)) as [B _]. pose proof (cs_size_length (len s)) as L.
  replace (len (cs_encode (len s) ++ s)) with (cs_size (len s) + len s)
    by (unfold len in *; rewrite app_length; lia).
  destruct (N.eqb_spec ((len s + cs_size (len s)) mod two64) (cs_size (len s) + len s)) as [_|E].
  - rewrite L. unfold len at 1. rewrite Nat2N.id. now rewrite skipn_app_exact.
  - exfalso; apply E. unfold two64. rewrite N.mod_small; lia.
Qed.

Lemma script_canonical d s :
  bytes_ok d = true -> script_from_var_len d = Some s -> script_to_var_len s = d.
Proof.
  intros Hok. unfold script_from_var_len, read_compact_size_uint.
  destruct (cs_decode d) as [v rest|] eqn:D; [|discriminate].
  apply cs_canonical in D; [|assumption]. destruct D as (-> & Hv & _).
  pose proof (cs_size_bounds v) as [B B9]. pose proof (cs_size_length v) as L.
  replace (len (cs_encode v ++ rest)) with (cs_size v + len rest)
    by (unfold len in *; rewrite app_length; lia).
  destruct (N.eqb_spec ((v + cs_size v) mod two64) (cs_size v + len rest)) as [E|E]; [|discriminate].
  intros H; inversion H; subst s.
  rewrite L. unfold len at 1. rewrite Nat2N.id, skipn_app_exact.
  unfold script_to_var_len, var_bytes. f_equal. f_equal.
  unfold two64 in *.
  destruct (N.lt_ge_cases (v + cs_size v) 18446744073709551616) as [S|S].
  - rewrite N.mod_small in E by assumption. lia.
  - assert (cs_size v = 9) by (apply B9; lia). exfalso.
    assert ((v + cs_size v) mod 18446744073709551616 = v + cs_size v - 18446744073709551616) by lia.
    lia.
Qed.

(* ------------------------------------------------------------------ integer conversions *)
Lemma to_of_int32 z : int_ok 32 z = true -> to_int 32 (of_int 32 z) = z /\ of_int 32 z < 4294967296.
Proof.
  unfold int_ok, to_int, of_int.
  change (2 ^ (Z.of_N 32 - 1))%Z with 2147483648%Z. change (2 ^ Z.of_N 32)%Z with 4294967296%Z.
  change (2 ^ (32 - 1)) with 2147483648.
  intros H. destruct (N.ltb_spec (Z.to_N (z mod 4294967296)) 2147483648); lia.
Qed.
Lemma to_of_int64 z :
  int_ok 64 z = true -> to_int 64 (of_int 64 z) = z /\ of_int 64 z < 18446744073709551616.
Proof.
  unfold int_ok, to_int, of_int.
  change (2 ^ (Z.of_N 64 - 1))%Z with 9223372036854775808%Z.
  change (2 ^ Z.of_N 64)%Z with 18446744073709551616%Z.
  change (2 ^ (64 - 1)) with 9223372036854775808.
  intros H. destruct (N.ltb_spec (Z.to_N (z mod 18446744073709551616)) 9223372036854775808); lia.
Qed.
Lemma of_to_int32 n : n < 4294967296 -> of_int 32 (to_int 32 n) = n /\ int_ok 32 (to_int 32 n) = true.
Proof.
  unfold int_ok, to_int, of_int.
  change (2 ^ (Z.of_N 32 - 1))%Z with 2147483648%Z. change (2 ^ Z.of_N 32)%Z with 4294967296%Z.
  change (2 ^ (32 - 1)) with 2147483648.
  intros H. destruct (N.ltb_spec n 2147483648); lia.
Qed.

(* ------------------------------------------------------------------ repeated reads *)
Lemma read_many_app {A B} (r : list N -> rd B) (enc : A -> list N) (f : A -> B) xs :
  forall rest fuel,
  (forall x r', In x xs -> r (enc x ++ r') = ROk (f x) r') ->
  (length xs <= fuel)%nat ->
  read_many r fuel (len xs) (flat_map enc xs ++ rest) = ROk (map f xs) rest.
Proof.
  unfold len; induction xs as [|x xs IH]; intros rest fuel Hr Hf.
  - destruct fuel; reflexivity.
  - destruct fuel as [|fuel]; [cbn in Hf; lia|].
    cbn [read_many length].
    destruct (N.eqb_spec (N.of_nat (S (length xs))) 0) as [E|_]; [lia|].
    cbn [flat_map]. rewrite <- app_assoc, Hr by (left; reflexivity). cbn [bind].
    replace (N.of_nat (S (length xs)) - 1) with (N.of_nat (length xs)) by lia.
    rewrite IH; [reflexivity| |cbn in Hf; lia].
    intros y r' Hy; apply Hr; now right.
Qed.

Lemma flat_map_length_ge {A} (enc : A -> list N) xs :
  (forall x, In x xs -> (1 <= length (enc x))%nat) -> (length xs <= length (flat_map enc xs))%nat.
Proof.
  induction xs as [|x xs IH]; intros H; [cbn; lia|].
  cbn [flat_map length]. rewrite app_length.
  pose proof (H x (or_introl eq_refl)). specialize (IH (fun y Hy => H y (or_intror Hy))). lia.
Qed.

Lemma read_n_app {A B} (r : list N -> rd B) (enc : A -> list N) (f : A -> B) xs rest :
  (forall x r', In x xs -> r (enc x ++ r') = ROk (f x) r') ->
  (forall x, In x xs -> (1 <= length (enc x))%nat) ->
  read_n r (len xs) (flat_map enc xs ++ rest) = ROk (map f xs) rest.
Proof.
  intros Hr Hn. unfold read_n. apply read_many_app; [assumption|].
  rewrite app_length. pose proof (flat_map_length_ge enc xs Hn). lia.
Qed.

(* ------------------------------------------------------------------ inputs, outputs *)
Lemma and_true a b : a && b = true -> a = true /\ b = true.
Proof. apply andb_true_iff. Qed.
Ltac split_and :=
  repeat match goal with
         | H : _ && _ = true |- _ => apply and_true in H; destruct H
         end.

Lemma mmp_lt : max_message_payload < two64. Proof. reflexivity. Qed.

Lemma read_txin_app ti rest :
  txin_wf ti = true -> read_txin (ser_txin ti ++ rest) = ROk (strip_in ti) rest.
Proof.
  unfold txin_wf; intros H; split_and.
  unfold read_txin, ser_txin. rewrite <- !app_assoc.
  rewrite take_app by (unfold len; apply Nat.eqb_eq in H; rewrite H; reflexivity).
  cbn [bind]. rewrite read_le_app by (rewrite ?pow256_2, ?pow256_4, ?pow256_8; lia). cbn [bind].
  rewrite read_script_app by (try apply mmp_lt; lia). cbn [bind].
  rewrite read_le_app by (rewrite ?pow256_2, ?pow256_4, ?pow256_8; lia). cbn [bind].
  reflexivity.
Qed.

Lemma ser_txin_nonempty ti : (1 <= length (ser_txin ti))%nat.
Proof. unfold ser_txin; rewrite !app_length, !le_bytes_length; lia. Qed.

Lemma read_txout_app o rest :
  txout_wf o = true -> read_txout (ser_txout o ++ rest) = ROk o rest.
Proof.
  unfold txout_wf; intros H; split_and.
  match goal with H : int_ok 64 _ = true |- _ => apply to_of_int64 in H; destruct H as [E B] end.
  unfold read_txout, ser_txout. rewrite <- !app_assoc.
  rewrite read_le_app by (rewrite ?pow256_2, ?pow256_4, ?pow256_8; lia). cbn [bind].
  rewrite read_script_app by (try apply mmp_lt; lia). cbn [bind].
  rewrite E. destruct o; reflexivity.
Qed.

Lemma ser_txout_nonempty o : (1 <= length (ser_txout o))%nat.
Proof. unfold ser_txout; rewrite !app_length, !le_bytes_length; lia. Qed.

Lemma forallb_In {A} (f : A -> bool) l x : forallb f l = true -> In x l -> f x = true.
Proof. intros H; now apply forallb_forall. Qed.

Lemma set_strip ti : set_witness (strip_in ti) (ti_witness ti) = ti.
Proof. destruct ti; reflexivity. Qed.

Lemma read_witnesses_app ins : forall rest,
  forallb txin_wf ins = true ->
  read_witnesses (map strip_in ins) (flat_map ser_witness ins ++ rest) = ROk ins rest.
Proof.
  induction ins as [|ti ins IH]; intros rest H; [reflexivity|].
  cbn [forallb] in H. apply and_true in H; destruct H as [Hti Hins].
  cbn [map read_witnesses flat_map]. unfold ser_witness at 1. rewrite <- !app_assoc.
  unfold txin_wf in Hti; split_and.
  rewrite cs_roundtrip by (unfold two64, max_witness_items_per_input in *; lia). cbn [bind].
  destruct (N.ltb_spec max_witness_items_per_input (len (ti_witness ti))); [lia|].
  rewrite (read_n_app (read_script max_witness_item_size) var_bytes (fun x => x)).
  - cbn [bind]. rewrite IH by assumption. cbn [bind]. rewrite map_id, set_strip. reflexivity.
  - intros x r' Hx.
    match goal with Hf : forallb _ (ti_witness ti) = true |- _ => pose proof (forallb_In _ _ _ Hf Hx) as Hx' end.
    cbn beta in Hx'. apply and_true in Hx'; destruct Hx' as [_ Hl].
    apply read_script_app; [lia|reflexivity].
  - intros x _; apply var_bytes_nonempty.
Qed.

(* ------------------------------------------------------------------ whole transactions *)
Lemma has_witness_false_strip t : has_witness t = false -> strip_witness t = t.
Proof.
  destruct t as [v ins outs lock]; unfold has_witness, strip_witness; cbn [tx_ins tx_version tx_outs tx_locktime].
  intros H. f_equal. induction ins as [|ti ins IH]; [reflexivity|].
  cbn [existsb] in H. apply orb_false_iff in H; destruct H as [H1 H2].
  cbn [map]. rewrite IH by assumption. f_equal.
  destruct ti as [h i s w q]; cbn in *. destruct w; [reflexivity|discriminate].
Qed.

Lemma decode_body_app t (flag : bool) rest :
  tx_wf t = true ->
  decode_body (of_int 32 (tx_version t)) flag (len (tx_ins t))
    (flat_map ser_txin (tx_ins t) ++ ser_outputs t
     ++ (if flag then flat_map ser_witness (tx_ins t) else []) ++ ser_locktime t ++ rest)
  = ROk (if flag then t else strip_witness t) rest.
Proof.
  unfold tx_wf; intros H; split_and.
  unfold decode_body.
  destruct (N.ltb_spec max_txin_per_message (len (tx_ins t))); [lia|].
  rewrite (read_n_app read_txin ser_txin strip_in).
  2:{ intros x r' Hx. apply read_txin_app. eapply forallb_In; eassumption. }
  2:{ intros x _; apply ser_txin_nonempty. }
  cbn [bind]. unfold ser_outputs. rewrite <- !app_assoc.
  rewrite cs_roundtrip by (unfold two64, max_txout_per_message, max_message_payload in *; lia).
  cbn [bind]. destruct (N.ltb_spec max_txout_per_message (len (tx_outs t))); [lia|].
  rewrite (read_n_app read_txout ser_txout (fun x => x)).
  2:{ intros x r' Hx. apply read_txout_app. eapply forallb_In; eassumption. }
  2:{ intros x _; apply ser_txout_nonempty. }
  cbn [bind]. rewrite map_id.
  match goal with H : int_ok 32 _ = true |- _ => apply to_of_int32 in H; destruct H as [E B] end.
  destruct flag.
  - rewrite read_witnesses_app by assumption. cbn [bind]. unfold ser_locktime.
    rewrite read_le_app by (rewrite ?pow256_2, ?pow256_4, ?pow256_8; lia). cbn [bind]. rewrite E.
    destruct t; reflexivity.
  - cbn [app bind]. unfold ser_locktime.
    rewrite read_le_app by (rewrite ?pow256_2, ?pow256_4, ?pow256_8; lia). cbn [bind]. rewrite E.
    reflexivity.
Qed.

Lemma decode_serialize f t rest :
  tx_wf t = true -> tx_ins t <> [] ->
  decode (serialize f t ++ rest)
  = ROk (match f with Witness => t | Standard => strip_witness t end) rest.
Proof.
  intros Hwf Hne.
  assert (Hv : of_int 32 (tx_version t) < 4294967296).
  { unfold tx_wf in Hwf; split_and.
    match goal with H : int_ok 32 _ = true |- _ => apply to_of_int32 in H; tauto end. }
  assert (Hl : len (tx_ins t) <> 0) by (unfold len; destruct (tx_ins t); [congruence|cbn; lia]).
  assert (Hl2 : len (tx_ins t) < two64).
  { unfold tx_wf in Hwf; split_and. unfold two64, max_txin_per_message, max_message_payload in *. lia. }
  assert (Std : decode (ser_version t ++ ser_inputs t ++ ser_outputs t ++ ser_locktime t ++ rest)
                = ROk (strip_witness t) rest).
  { unfold decode, ser_version. rewrite read_le_app by (rewrite ?pow256_2, ?pow256_4, ?pow256_8; lia). cbn [bind].
    unfold ser_inputs. rewrite <- !app_assoc. rewrite cs_roundtrip by assumption. cbn [bind].
    destruct (N.eqb_spec (len (tx_ins t)) 0); [contradiction|].
    apply (decode_body_app t false rest Hwf). }
  unfold serialize. destruct f.
  - cbn [app]. rewrite <- !app_assoc. exact Std.
  - destruct (has_witness t) eqn:W.
    + unfold decode, ser_version. rewrite <- !app_assoc.
      rewrite read_le_app by (rewrite ?pow256_2, ?pow256_4, ?pow256_8; lia). cbn [bind app cs_decode N.eqb].
      unfold ser_inputs. rewrite <- !app_assoc. rewrite cs_roundtrip by assumption. cbn [bind].
      apply (decode_body_app t true rest Hwf).
    + cbn [app]. rewrite <- !app_assoc. rewrite Std. now rewrite has_witness_false_strip.
Qed.

Theorem deserialize_serialize t :
  tx_wf t = true -> tx_ins t <> [] ->
  deserialize (serialize Witness t) = Some t /\
  deserialize (serialize Standard t) = Some (strip_witness t).
Proof.
  intros Hwf Hne. unfold deserialize.
  rewrite <- (app_nil_r (serialize Witness t)), <- (app_nil_r (serialize Standard t)).
  now rewrite !decode_serialize.
Qed.

(* the 0x00 input count of a transaction without inputs is read as the segwit marker *)
Definition ambiguous_tx : tx :=
  {| tx_version := 1; tx_ins := [];
     tx_outs := [{| to_value := 4294967296; to_script := [] |}]; tx_locktime := 7 |}.
Lemma zero_input_ambiguity :
  tx_wf ambiguous_tx = true /\
  deserialize (serialize Witness ambiguous_tx)
  = Some {| tx_version := 1; tx_ins := []; tx_outs := []; tx_locktime := 65536 |} /\
  deserialize (serialize Standard {| tx_version := 1; tx_ins := []; tx_outs := []; tx_locktime := 0 |}) = None.
Proof. vm_compute. repeat split. Qed.

(* ------------------------------------------------------------------ hash ignores witness *)
Lemma ser_txin_strip ti : ser_txin (strip_in ti) = ser_txin ti.
Proof. reflexivity. Qed.
Lemma flat_map_strip l : flat_map ser_txin (map strip_in l) = flat_map ser_txin l.
Proof. induction l as [|ti l IH]; [reflexivity|]. cbn [map flat_map]. now rewrite IH. Qed.
Lemma serialize_standard_strip t : serialize Standard (strip_witness t) = serialize Standard t.
Proof.
  unfold serialize, strip_witness, ser_version, ser_inputs, ser_outputs, ser_locktime, len; cbn [tx_version tx_ins tx_outs tx_locktime].
  now rewrite map_length, flat_map_strip.
Qed.
Lemma hash_ignores_witness (Hf : list N -> list N) t t' :
  strip_witness t = strip_witness t' -> tx_hash Hf t = tx_hash Hf t'.
Proof.
  intros E. unfold tx_hash. rewrite <- (serialize_standard_strip t), <- (serialize_standard_strip t'), E.
  reflexivity.
Qed.
Lemma hash_preimage_has_no_witness (Hf : list N -> list N) t :
  tx_hash Hf t = Hf (ser_version t ++ ser_inputs t ++ ser_outputs t ++ ser_locktime t) /\
  tx_hash Hf t = tx_witness_hash Hf (strip_witness t).
Proof.
  split; [reflexivity|]. unfold tx_hash, tx_witness_hash.
  rewrite <- (serialize_standard_strip t). unfold serialize.
  replace (has_witness (strip_witness t)) with false; [reflexivity|].
  unfold has_witness, strip_witness; cbn [tx_ins]. induction (tx_ins t); [reflexivity|]. cbn. assumption.
Qed.

(* ------------------------------------------------------------------ parts are slices *)
Lemma go_slice_mid (a b c : list N) :
  go_slice (Z.of_nat (length a)) (Z.of_nat (length a) + Z.of_nat (length b)) (a ++ b ++ c) = Some b.
Proof.
  unfold go_slice. rewrite !app_length.
  replace ((0 <=? Z.of_nat (length a)) && (Z.of_nat (length a) <=? Z.of_nat (length a) + Z.of_nat (length b))
           && (Z.of_nat (length a) + Z.of_nat (length b) <=? Z.of_nat (length a + (length b + length c))))%Z
    with true by lia.
  rewrite Nat2Z.id. replace (Z.to_nat (Z.of_nat (length a) + Z.of_nat (length b) - Z.of_nat (length a))) with (length b) by lia.
  now rewrite skipn_app_exact, firstn_app_exact.
Qed.

Lemma len_app {A} (a b : list A) : len (a ++ b) = len a + len b.
Proof. unfold len; rewrite app_length; lia. Qed.

Lemma txin_size_length ti : length (ti_hash ti) = 32%nat -> len (ser_txin ti) = txin_size ti.
Proof.
  intros H. unfold ser_txin, txin_size, var_bytes. rewrite !len_app, <- cs_size_length.
  unfold len at 1 2 5. rewrite !le_bytes_length, H. lia.
Qed.
Lemma txout_size_length o : len (ser_txout o) = txout_size o.
Proof.
  unfold ser_txout, txout_size, var_bytes. rewrite !len_app, <- cs_size_length.
  unfold len at 1. rewrite !le_bytes_length. lia.
Qed.
Lemma inputs_size t :
  Forall (fun ti => length (ti_hash ti) = 32%nat) (tx_ins t) ->
  len (ser_inputs t) = cs_size (len (tx_ins t)) + sumN (map txin_size (tx_ins t)).
Proof.
  intros H. unfold ser_inputs. rewrite len_app, <- cs_size_length. f_equal.
  induction H as [|ti l Hti _ IH]; [reflexivity|].
  cbn [flat_map map sumN fold_right]. rewrite len_app, txin_size_length by assumption.
  unfold sumN in IH. now rewrite IH.
Qed.
Lemma outputs_size t :
  len (ser_outputs t) = cs_size (len (tx_outs t)) + sumN (map txout_size (tx_outs t)).
Proof.
  unfold ser_outputs. rewrite len_app, <- cs_size_length. f_equal.
  induction (tx_outs t) as [|o l IH]; [reflexivity|].
  cbn [flat_map map sumN fold_right]. rewrite len_app, txout_size_length.
  unfold sumN in IH. now rewrite IH.
Qed.

Lemma serialize_standard_parts t :
  serialize Standard t = ser_version t ++ ser_inputs t ++ ser_outputs t ++ ser_locktime t.
Proof. reflexivity. Qed.
Lemma serialize_witness_parts t :
  serialize Witness t =
  if has_witness t
  then ser_version t ++ [0; 1] ++ ser_inputs t ++ ser_outputs t ++ flat_map ser_witness (tx_ins t) ++ ser_locktime t
  else serialize Standard t.
Proof. unfold serialize. destruct (has_witness t); reflexivity. Qed.

Theorem parts_are_slices_of_whole t :
  Forall (fun ti => length (ti_hash ti) = 32%nat) (tx_ins t) ->
  serialize_inputs t = Some (ser_inputs t) /\
  serialize_outputs t = Some (ser_outputs t) /\
  serialize Standard t = ser_version t ++ ser_inputs t ++ ser_outputs t ++ ser_locktime t /\
  length (ser_version t) = 4%nat /\ length (ser_locktime t) = 4%nat.
Proof.
  intros H. assert (V : length (ser_version t) = 4%nat) by apply le_bytes_length.
  assert (Lk : length (ser_locktime t) = 4%nat) by apply le_bytes_length.
  repeat split; try assumption.
  - unfold serialize_inputs. rewrite <- inputs_size by assumption. rewrite serialize_standard_parts.
    pose proof (go_slice_mid (ser_version t) (ser_inputs t) (ser_outputs t ++ ser_locktime t)) as G.
    rewrite V in G. unfold len. rewrite nat_N_Z. exact G.
  - unfold serialize_outputs. rewrite <- outputs_size. rewrite serialize_standard_parts.
    pose proof (go_slice_mid (ser_version t ++ ser_inputs t) (ser_outputs t) (ser_locktime t)) as G.
    rewrite <- app_assoc in G. rewrite <- G. f_equal; unfold len; rewrite !app_length, Lk; lia.
Qed.

(* ------------------------------------------------------------------ hex *)
Lemma from_hex_digit d : d < 16 -> from_hex_char (hex_digit d) = Some d.
Proof.
  intros H.
  assert (d = 0 \/ d = 1 \/ d = 2 \/ d = 3 \/ d = 4 \/ d = 5 \/ d = 6 \/ d = 7 \/ d = 8 \/ d = 9 \/
          d = 10 \/ d = 11 \/ d = 12 \/ d = 13 \/ d = 14 \/ d = 15) as C by lia.
  repeat (destruct C as [->|C]; [reflexivity|]). subst; reflexivity.
Qed.

Lemma hex_decode_encode l : bytes_ok l = true -> hex_decode (hex_encode l) = Some l.
Proof.
  induction l as [|b t IH]; intros H; [reflexivity|].
  apply bytes_ok_cons in H; destruct H as [Hb Ht].
  cbn [hex_encode flat_map app hex_decode]. fold (hex_encode t).
  rewrite !from_hex_digit by lia. rewrite IH by assumption.
  f_equal. f_equal. lia.
Qed.

Lemma hex_encode_length l : length (hex_encode l) = (2 * length l)%nat.
Proof. induction l as [|b t IH]; [reflexivity|]. cbn [hex_encode flat_map app length]. fold (hex_encode t). lia. Qed.

Lemma from_hex_char_inv c x : from_hex_char c = Some x -> x < 16 /\ hex_digit x = lower_char c.
Proof.
  unfold from_hex_char, hex_digit, lower_char.
  destruct (N.leb_spec 48 c), (N.leb_spec c 57), (N.leb_spec 97 c), (N.leb_spec c 102),
           (N.leb_spec 65 c), (N.leb_spec c 70); cbn [andb]; intros E; inversion E; subst;
    try lia; (split; [lia|]);
    match goal with |- (if ?a <? 10 then _ else _) = _ => destruct (N.ltb_spec a 10); lia end.
Qed.

Lemma pair_ind {A} (P : list A -> Prop) :
  P [] -> (forall a, P [a]) -> (forall a b t, P t -> P (a :: b :: t)) -> forall l, P l.
Proof.
  intros H0 H1 H2. assert (forall l, P l /\ forall x, P (x :: l)) as H.
  { induction l as [|y l [IHa IHb]]; split; auto. }
  intros l; apply H.
Qed.

Lemma hex_encode_cons b t :
  hex_encode (b :: t) = hex_digit (b / 16) :: hex_digit (b mod 16) :: hex_encode t.
Proof. reflexivity. Qed.

Lemma hex_decode_cons2 a c t :
  hex_decode (a :: c :: t) =
  match from_hex_char a, from_hex_char c, hex_decode t with
  | Some x, Some y, Some r => Some (16 * x + y :: r)
  | _, _, _ => None
  end.
Proof. reflexivity. Qed.

Lemma hex_encode_decode s : forall b,
  hex_decode s = Some b ->
  hex_encode b = map lower_char s /\ bytes_ok b = true /\ length s = (2 * length b)%nat.
Proof.
  induction s as [| a | a c t IH] using pair_ind; intros b H.
  - inversion H; subst. repeat split.
  - discriminate.
  - rewrite hex_decode_cons2 in H.
    destruct (from_hex_char a) as [x|] eqn:Ea; [|discriminate].
    destruct (from_hex_char c) as [y|] eqn:Ec; [|discriminate].
    destruct (hex_decode t) as [r|] eqn:Et; [|discriminate].
    assert (Hb : b = 16 * x + y :: r) by congruence. subst b. clear H.
    apply from_hex_char_inv in Ea. apply from_hex_char_inv in Ec.
    destruct Ea as [Hx Ex]. destruct Ec as [Hy Ey].
    destruct (IH r eq_refl) as (I1 & I2 & I3).
    assert (D1 : (16 * x + y) / 16 = x) by lia.
    assert (D2 : (16 * x + y) mod 16 = y) by lia.
    split; [|split].
    + rewrite hex_encode_cons, D1, D2, I1, Ex, Ey. reflexivity.
    + apply bytes_ok_cons. split; [lia|assumption].
    + cbn [length]. lia.
Qed.

Lemma bytes_ok_rev l : bytes_ok (rev l) = bytes_ok l.
Proof.
  unfold bytes_ok. induction l as [|b t IH]; [reflexivity|].
  cbn [rev forallb]. rewrite forallb_app, IH. cbn [forallb]. rewrite andb_true_r. apply andb_comm.
Qed.

Lemma order_bytes_invol o b : order_bytes o (order_bytes o b) = b.
Proof. destruct o; [reflexivity|apply rev_involutive]. Qed.
Lemma order_bytes_length o b : length (order_bytes o b) = length b.
Proof. destruct o; [reflexivity|apply rev_length]. Qed.
Lemma order_bytes_ok o b : bytes_ok (order_bytes o b) = bytes_ok b.
Proof. destruct o; [reflexivity|apply bytes_ok_rev]. Qed.

Theorem hash_hex_roundtrip :
  (forall h o, length h = 32%nat -> bytes_ok h = true ->
     new_hash_from_string (hash_hex h o) o = Some h) /\
  (forall s o h, new_hash_from_string s o = Some h ->
     hash_hex h o = map lower_char s /\ length h = 32%nat /\ bytes_ok h = true) /\
  (forall h, hash_hex h ReversedOrder = hash_hex (rev h) InternalOrder) /\
  (forall b, new_hash (rev b) ReversedOrder = new_hash b InternalOrder).
Proof.
  repeat split.
  - intros h o L B. unfold new_hash_from_string, hash_hex.
    rewrite hex_encode_length, order_bytes_length, L. cbn [Nat.mul Nat.add Nat.eqb].
    rewrite hex_decode_encode by (now rewrite order_bytes_ok).
    unfold new_hash. rewrite order_bytes_length, L. cbn [Nat.eqb]. now rewrite order_bytes_invol.
  - unfold new_hash_from_string, new_hash in H.
    destruct (Nat.eqb_spec (length s) 64); [|discriminate].
    destruct (hex_decode s) as [b|] eqn:D; [|discriminate].
    destruct (Nat.eqb_spec (length b) 32); [|discriminate].
    inversion H; subst h. unfold hash_hex. rewrite order_bytes_invol.
    now apply hex_encode_decode in D.
  - unfold new_hash_from_string, new_hash in H.
    destruct (Nat.eqb_spec (length s) 64); [|discriminate].
    destruct (hex_decode s) as [b|] eqn:D; [|discriminate].
    destruct (Nat.eqb_spec (length b) 32); [|discriminate].
    inversion H; subst h. now rewrite order_bytes_length.
  - unfold new_hash_from_string, new_hash in H.
    destruct (Nat.eqb_spec (length s) 64); [|discriminate].
    destruct (hex_decode s) as [b|] eqn:D; [|discriminate].
    destruct (Nat.eqb_spec (length b) 32); [|discriminate].
    inversion H; subst h. rewrite order_bytes_ok. now apply hex_encode_decode in D.
  - intros b. unfold new_hash. rewrite rev_length. destruct (length b =? 32)%nat; [|reflexivity].
    cbn [order_bytes]. now rewrite rev_involutive.
Qed.

(* ------------------------------------------------------------------ block header *)
Lemma sub_at (pre x post : list N) off n :
  length pre = off -> length x = n -> sub off n (pre ++ x ++ post) = x.
Proof. intros <- <-. unfold sub. now rewrite skipn_app_exact, firstn_app_exact. Qed.

Theorem header_roundtrip :
  (forall h, header_wf h = true ->
     header_deserialize (header_serialize h) = h /\ length (header_serialize h) = 80%nat) /\
  (forall raw, length raw = 80%nat -> bytes_ok raw = true ->
     header_serialize (header_deserialize raw) = raw /\ header_wf (header_deserialize raw) = true).
Proof.
  split.
  - intros [v p m t b n] H. unfold header_wf in H; cbn [h_version h_prev h_merkle h_time h_bits h_nonce] in H.
    split_and.
    repeat match goal with H : (_ =? _)%nat = true |- _ => apply Nat.eqb_eq in H end.
    match goal with H : int_ok 32 _ = true |- _ => apply to_of_int32 in H; destruct H as [E B] end.
    unfold header_serialize, header_deserialize; cbn [h_version h_prev h_merkle h_time h_bits h_nonce].
    set (V := le_bytes 4 (of_int 32 v)). set (T := le_bytes 4 t). set (Bi := le_bytes 4 b). set (No := le_bytes 4 n).
    assert (LV : length V = 4%nat) by apply le_bytes_length.
    assert (LT : length T = 4%nat) by apply le_bytes_length.
    assert (LB : length Bi = 4%nat) by apply le_bytes_length.
    assert (LN : length No = 4%nat) by apply le_bytes_length.
    split; [|rewrite !app_length; lia].
    f_equal.
    + change (V ++ p ++ m ++ T ++ Bi ++ No) with ([] ++ V ++ (p ++ m ++ T ++ Bi ++ No)).
      rewrite (sub_at [] V (p ++ m ++ T ++ Bi ++ No) 0 4) by (reflexivity || assumption).
      unfold V. rewrite le_val_le_bytes_small by (rewrite pow256_4; lia). exact E.
    + now rewrite (sub_at V p (m ++ T ++ Bi ++ No) 4 32).
    + replace (V ++ p ++ m ++ T ++ Bi ++ No) with ((V ++ p) ++ m ++ (T ++ Bi ++ No)) by now rewrite <- app_assoc.
      rewrite (sub_at (V ++ p) m (T ++ Bi ++ No) 36 32); [reflexivity|rewrite app_length; lia|assumption].
    + replace (V ++ p ++ m ++ T ++ Bi ++ No) with ((V ++ p ++ m) ++ T ++ (Bi ++ No)) by now rewrite <- !app_assoc.
      rewrite (sub_at (V ++ p ++ m) T (Bi ++ No) 68 4); [|rewrite !app_length; lia|assumption].
      unfold T. apply le_val_le_bytes_small. rewrite pow256_4; lia.
    + replace (V ++ p ++ m ++ T ++ Bi ++ No) with ((V ++ p ++ m ++ T) ++ Bi ++ No) by now rewrite <- !app_assoc.
      rewrite (sub_at (V ++ p ++ m ++ T) Bi No 72 4); [|rewrite !app_length; lia|assumption].
      unfold Bi. apply le_val_le_bytes_small. rewrite pow256_4; lia.
    + replace (V ++ p ++ m ++ T ++ Bi ++ No) with ((V ++ p ++ m ++ T ++ Bi) ++ No ++ []) by now rewrite <- !app_assoc, app_nil_r.
      rewrite (sub_at (V ++ p ++ m ++ T ++ Bi) No [] 76 4); [|rewrite !app_length; lia|assumption].
      unfold No. apply le_val_le_bytes_small. rewrite pow256_4; lia.
  - intros raw L B.
    do 80 (destruct raw as [|? raw]; [discriminate|]). destruct raw; [|discriminate]. clear L.
    unfold header_deserialize, header_serialize, header_wf, sub;
      cbn [firstn skipn h_version h_prev h_merkle h_time h_bits h_nonce].
    repeat match goal with H : bytes_ok (_ :: _) = true |- _ => apply bytes_ok_cons in H; destruct H as [? H] end.
    assert (Q : forall a b c d, a < 256 -> b < 256 -> c < 256 -> d < 256 ->
                le_bytes 4 (le_val [a; b; c; d]) = [a; b; c; d] /\ le_val [a; b; c; d] < 4294967296).
    { intros a b c d Ha Hb Hc Hd.
      assert (O : bytes_ok [a; b; c; d] = true) by (repeat (apply bytes_ok_cons; split; [assumption|]); reflexivity).
      split; [exact (le_bytes_le_val [a; b; c; d] O)|exact (le_val_bound _ O)]. }
    match goal with |- context [to_int 32 (le_val [?a; ?b; ?c; ?d])] =>
      destruct (Q a b c d) as [Q1 Q2]; try assumption;
      destruct (of_to_int32 _ Q2) as [Q3 Q4]; rewrite Q3, Q1, Q4 end.
    repeat match goal with |- context [le_bytes 4 (le_val [?a; ?b; ?c; ?d])] =>
      let q1 := fresh in let q2 := fresh in
      destruct (Q a b c d) as [q1 q2]; try assumption; rewrite q1;
      apply N.ltb_lt in q2; rewrite q2 end.
    split; [reflexivity|].
    cbn [length Nat.eqb andb].
    repeat (match goal with |- context [bytes_ok (?x :: ?l)] =>
      replace (bytes_ok (x :: l)) with (bytes_ok l) by
        (symmetry; unfold bytes_ok; cbn [forallb]; unfold byte_ok at 1;
         match goal with H : x < 256 |- _ => apply N.ltb_lt in H; now rewrite H end) end).
    reflexivity.
Qed.

(* ------------------------------------------------------------------ the executable form *)
Lemma list_eqb_eq a : forall b, list_eqb a b = true <-> a = b.
Proof.
  induction a as [|x a IH]; intros [|y b]; cbn [list_eqb]; try (split; [discriminate|congruence]); [tauto|].
  rewrite andb_true_iff, N.eqb_eq, IH. split; [intros [-> ->]; reflexivity|intros E; inversion E; tauto].
Qed.
Lemma all2_eq {A} (f : A -> A -> bool) :
  (forall x y, f x y = true <-> x = y) -> forall a b, all2 f a b = true <-> a = b.
Proof.
  intros Hf; induction a as [|x a IH]; intros [|y b]; cbn [all2]; try (split; [discriminate|congruence]); [tauto|].
  rewrite andb_true_iff, Hf, IH. split; [intros [-> ->]; reflexivity|intros E; inversion E; tauto].
Qed.
Lemma txin_eqb_eq a b : txin_eqb a b = true <-> a = b.
Proof.
  destruct a as [h1 i1 s1 w1 q1], b as [h2 i2 s2 w2 q2]; unfold txin_eqb; cbn [ti_hash ti_index ti_script ti_witness ti_seq].
  rewrite !andb_true_iff, !list_eqb_eq, !N.eqb_eq, (all2_eq list_eqb list_eqb_eq).
  split; [intros [[[[-> ->] ->] ->] ->]; reflexivity|intros E; inversion E; tauto].
Qed.
Lemma txout_eqb_eq a b : txout_eqb a b = true <-> a = b.
Proof.
  destruct a as [v1 s1], b as [v2 s2]; unfold txout_eqb; cbn [to_value to_script].
  rewrite andb_true_iff, list_eqb_eq, Z.eqb_eq.
  split; [intros [-> ->]; reflexivity|intros E; inversion E; tauto].
Qed.
Lemma tx_eqb_eq a b : tx_eqb a b = true <-> a = b.
Proof.
  destruct a as [v1 i1 o1 l1], b as [v2 i2 o2 l2]; unfold tx_eqb; cbn [tx_version tx_ins tx_outs tx_locktime].
  rewrite !andb_true_iff, Z.eqb_eq, N.eqb_eq, (all2_eq txin_eqb txin_eqb_eq), (all2_eq txout_eqb txout_eqb_eq).
  split; [intros [[[-> ->] ->] ->]; reflexivity|intros E; inversion E; tauto].
Qed.

Lemma otx_is_some o t : otx_is o (Some t) = true -> exists d, o = TOk d /\ x_tx d = t.
Proof. destruct o as [d| |]; cbn [otx_is]; try discriminate. intros H; apply tx_eqb_eq in H. eauto. Qed.

Lemma spec_tx_sound c :
  spec_tx c = true ->
  let t := x_tx (tc_tx c) in
  tx_wf t = true -> tx_ins t <> [] ->
  (exists d, tc_deser_wit c = TOk d /\ x_tx d = t) /\
  (exists d, tc_deser_std c = TOk d /\ x_tx d = strip_witness t) /\
  (exists s v i o l, tc_ser_std c = OB s /\ tc_version c = OB v /\ tc_inputs c = OB i /\
                     tc_outputs c = OB o /\ tc_locktime c = OB l /\
                     expand s = expand v ++ expand i ++ expand o ++ expand l) /\
  tc_hash_is_std c = true /\ tc_whash_is_wit c = true /\ tc_hash_same c = true.
Proof.
  intros H t Hwf Hne. unfold spec_tx in H. fold t in H. rewrite Hwf in H.
  destruct (tx_ins t) as [|ti0 l0] eqn:Ei; [congruence|]. cbn [negb orb is_nil] in H.
  split_and.
  repeat match goal with H : otx_is _ (Some _) = true |- _ => apply otx_is_some in H end.
  destruct (tc_ser_std c) as [s|]; [|discriminate].
  destruct (tc_version c) as [v|]; [|discriminate].
  destruct (tc_inputs c) as [i|]; [|discriminate].
  destruct (tc_outputs c) as [o|]; [|discriminate].
  destruct (tc_locktime c) as [l|]; [|discriminate].
  split_and.
  match goal with H : list_eqb _ _ = true |- _ => apply list_eqb_eq in H end.
  repeat split; try assumption. exists s, v, i, o, l. repeat split; assumption.
Qed.

(* embedding of model values into the compact case notation *)
Definition emb (l : list N) : list chunk := map (R 1) l.
Definition emb_in (ti : txin) : ctxin :=
  {| ci_hash := emb (ti_hash ti); ci_index := ti_index ti; ci_script := emb (ti_script ti);
     ci_witness := map (fun i => (1, emb i)) (ti_witness ti); ci_seq := ti_seq ti |}.
Definition emb_out (o : txout) : ctxout := {| co_value := to_value o; co_script := emb (to_script o) |}.
Definition emb_tx (t : tx) : ctx :=
  {| c_version := tx_version t; c_ins := map (fun i => (1, emb_in i)) (tx_ins t);
     c_outs := map (fun o => (1, emb_out o)) (tx_outs t); c_locktime := tx_locktime t |}.
Definition emb_ob (o : option (list N)) : obytes := match o with Some b => OB (emb b) | None => OPanic end.
Definition emb_otx (o : option tx) : otx := match o with Some t => TOk (emb_tx t) | None => TErr end.

(* the case whose observables are the model's own outputs *)
Definition model_case (c : ctx) : tx_case :=
  let t := x_tx c in
  {| tc_tx := c;
     tc_ser_std := OB (emb (serialize Standard t)); tc_ser_wit := OB (emb (serialize Witness t));
     tc_version := OB (emb (ser_version t)); tc_inputs := emb_ob (serialize_inputs t);
     tc_outputs := emb_ob (serialize_outputs t); tc_locktime := OB (emb (ser_locktime t));
     tc_deser_std := emb_otx (deserialize (serialize Standard t));
     tc_deser_wit := emb_otx (deserialize (serialize Witness t));
     tc_hash_is_std := true; tc_whash_is_wit := true; tc_hash_same := true |}.

Lemma expand_emb l : expand (emb l) = l.
Proof. unfold expand, emb. induction l as [|b l IH]; [reflexivity|]. cbn [map flat_map]. rewrite IH. reflexivity. Qed.
Lemma expand_runs_one {A B} (f : A -> B) (g : B -> A) l :
  (forall x, f (g x) = x) -> expand_runs f (map (fun x => (1, g x)) l) = l.
Proof.
  intros H. unfold expand_runs. induction l as [|x l IH]; [reflexivity|].
  cbn [map flat_map fst snd]. rewrite IH, H. reflexivity.
Qed.
Lemma x_emb_in ti : x_in (emb_in ti) = ti.
Proof.
  destruct ti as [h i s w q]; unfold x_in, emb_in; cbn [ci_hash ci_index ci_script ci_witness ci_seq ti_hash ti_index ti_script ti_witness ti_seq].
  rewrite !expand_emb, (expand_runs_one expand emb) by apply expand_emb. reflexivity.
Qed.
Lemma x_emb_out o : x_out (emb_out o) = o.
Proof. destruct o as [v s]; unfold x_out, emb_out; cbn [co_value co_script to_value to_script]. now rewrite expand_emb. Qed.
Lemma x_emb_tx t : x_tx (emb_tx t) = t.
Proof.
  destruct t as [v i o l]; unfold x_tx, emb_tx; cbn [c_version c_ins c_outs c_locktime tx_version tx_ins tx_outs tx_locktime].
  rewrite (expand_runs_one x_in emb_in) by apply x_emb_in.
  rewrite (expand_runs_one x_out emb_out) by apply x_emb_out. reflexivity.
Qed.

Lemma ob_is_emb b : ob_is (OB (emb b)) b = true.
Proof. cbn [ob_is]. rewrite expand_emb. now apply list_eqb_eq. Qed.
Lemma ob_is_opt_emb o : ob_is_opt (emb_ob o) o = true.
Proof. destruct o as [b|]; cbn [emb_ob ob_is_opt]; [|reflexivity]. rewrite expand_emb. now apply list_eqb_eq. Qed.
Lemma otx_is_emb o : otx_is (emb_otx o) o = true.
Proof. destruct o as [t|]; cbn [emb_otx otx_is]; [|reflexivity]. rewrite x_emb_tx. now apply tx_eqb_eq. Qed.

Lemma tx_wf_hashes t : tx_wf t = true -> Forall (fun ti => length (ti_hash ti) = 32%nat) (tx_ins t).
Proof.
  unfold tx_wf; intros H; split_and. apply Forall_forall. intros ti Hti.
  match goal with H : forallb txin_wf _ = true |- _ => pose proof (forallb_In _ _ _ H Hti) as W end.
  unfold txin_wf in W; split_and. now apply Nat.eqb_eq.
Qed.

Lemma model_outputs_pass_spec c : spec_tx (model_case c) = true /\ agree_tx (model_case c) = true.
Proof.
  split.
  - unfold spec_tx. cbn [model_case tc_tx tc_ser_std tc_ser_wit tc_version tc_inputs tc_outputs tc_locktime
                          tc_deser_std tc_deser_wit tc_hash_is_std tc_whash_is_wit tc_hash_same].
    set (t := x_tx c). destruct (tx_wf t) eqn:Hwf; [|reflexivity].
    destruct (tx_ins t) as [|ti l] eqn:Ei; [reflexivity|]. cbn [negb orb is_nil].
    assert (Hne : tx_ins t <> []) by congruence.
    destruct (deserialize_serialize t Hwf Hne) as [D1 D2]. rewrite D1, D2.
    destruct (parts_are_slices_of_whole t (tx_wf_hashes t Hwf)) as (P1 & P2 & P3 & P4 & P5).
    rewrite P1, P2. cbn [emb_otx emb_ob otx_is]. rewrite !x_emb_tx.
    rewrite (proj2 (tx_eqb_eq t t) eq_refl), (proj2 (tx_eqb_eq _ _) eq_refl).
    rewrite !expand_emb, P4, P5, <- P3, (proj2 (list_eqb_eq _ _) eq_refl). reflexivity.
  - unfold agree_tx. cbn [model_case tc_tx tc_ser_std tc_ser_wit tc_version tc_inputs tc_outputs tc_locktime
                            tc_deser_std tc_deser_wit].
    now rewrite !ob_is_emb, !ob_is_opt_emb, !otx_is_emb.
Qed.

(* ================================================================== call histories *)
Lemma run_history_from_app Hf cs : forall store,
  run_history_from Hf store cs = store ++ map (call_result Hf) cs.
Proof.
  unfold run_history_from. induction cs as [|c cs IH]; intros store; cbn [fold_left map].
  - now rewrite app_nil_r.
  - rewrite IH. unfold step. now rewrite <- app_assoc.
Qed.
(* results of a history = the function mapped over the calls: no call sees what came before *)
Theorem history_is_map Hf cs : run_history Hf cs = map (call_result Hf) cs.
Proof. unfold run_history. now rewrite run_history_from_app. Qed.
(* whatever comes before and after a call, the caller of that call holds the call's own value *)
Theorem history_results_are_values Hf pre c post :
  nth_error (run_history Hf (pre ++ c :: post)) (length pre) = Some (call_result Hf c).
Proof.
  rewrite history_is_map, map_app. cbn [map].
  rewrite nth_error_app2 by (rewrite map_length; lia).
  rewrite map_length, Nat.sub_diag. reflexivity.
Qed.
(* later calls leave the store of earlier results as it was *)
Theorem history_prefix_stable Hf pre post :
  firstn (length pre) (run_history Hf (pre ++ post)) = run_history Hf pre.
Proof.
  rewrite !history_is_map, map_app.
  rewrite <- (map_length (call_result Hf) pre) at 1. apply firstn_app_exact.
Qed.
(* the store a history starts from (results handed out by earlier histories) is kept too *)
Theorem history_keeps_store Hf store cs :
  firstn (length store) (run_history_from Hf store cs) = store.
Proof. rewrite run_history_from_app. apply firstn_app_exact. Qed.

Lemma header_eqb_eq a b : header_eqb a b = true <-> a = b.
Proof.
  destruct a as [v1 p1 m1 t1 b1 n1], b as [v2 p2 m2 t2 b2 n2]; unfold header_eqb;
    cbn [h_version h_prev h_merkle h_time h_bits h_nonce].
  rewrite !andb_true_iff, Z.eqb_eq, !N.eqb_eq, !list_eqb_eq.
  split; [intros [[[[[-> ->] ->] ->] ->] ->]; reflexivity|intros E; inversion E; tauto].
Qed.
Lemma hres_eqb_eq a b : hres_eqb a b = true <-> a = b.
Proof.
  destruct a, b; cbn [hres_eqb]; try (split; [discriminate|congruence]); try tauto.
  - rewrite list_eqb_eq. split; congruence.
  - rewrite tx_eqb_eq. split; congruence.
  - rewrite header_eqb_eq. split; congruence.
Qed.
Lemma opt_is_eq o b : opt_is o b = true <-> o = Some b.
Proof.
  destruct o as [x|]; cbn [opt_is]; [|split; discriminate].
  rewrite list_eqb_eq. split; congruence.
Qed.

(* the executable history property: what it says about every entry *)
Theorem hspec_ok_sound Hf h :
  hspec_ok Hf h = true ->
  forall e, In e h ->
    (* results are values: read again after the rest of the history, unchanged *)
    x_ores (he_late e) = x_ores (he_now e) /\
    (* the call did not write to its arguments *)
    he_input_kept e = true /\
    (* and what the caller holds at the end still decodes to what was encoded *)
    (forall s v, he_call e = HToVarLen s -> he_late e = OBytes v ->
       bytes_ok (expand s) = true -> len (expand s) < 2 ^ 63 ->
       script_from_var_len (expand v) = Some (expand s)) /\
    (forall f c b, he_call e = HSerialize f c -> he_late e = OBytes b ->
       tx_wf (x_tx c) = true -> tx_ins (x_tx c) <> [] ->
       deserialize (expand b)
       = Some (match f with Witness => x_tx c | Standard => strip_witness (x_tx c) end)) /\
    (forall v w, he_call e = HWriteCompact v -> he_late e = OBytes w -> v < two64 ->
       cs_decode (expand w) = ROk v []) /\
    (* a transaction hash held at the end is the digest of the transaction as it was at the call *)
    (forall f c, he_call e = HTxHash f c ->
       x_ores (he_late e) = VBytes (Hf (serialize f (x_tx c)))).
Proof.
  intros Hs e He. unfold hspec_ok in Hs.
  pose proof (forallb_In _ _ _ Hs He) as Hok. unfold hentry_ok in Hok. split_and.
  match goal with H : hres_eqb _ _ = true |- _ => apply hres_eqb_eq in H; rename H into Hv end.
  match goal with H : late_roundtrip e = true |- _ => rename H into Hr end.
  match goal with H : hash_is_digest Hf e = true |- _ => rename H into Hd end.
  split; [exact Hv|]. split; [assumption|]. unfold late_roundtrip in Hr.
  split; [|split; [|split]]; cycle 3.
  - intros f c Ec. unfold hash_is_digest in Hd. rewrite Ec in Hd.
    destruct (he_late e) as [b| | | |]; try discriminate.
    apply list_eqb_eq in Hd. cbn [x_ores]. now rewrite Hd.
  - intros s v Ec El Hb Hl. rewrite Ec, El in Hr. rewrite Hb in Hr.
    apply N.ltb_lt in Hl. rewrite Hl in Hr. cbn [andb negb] in Hr. now apply opt_is_eq.
  - intros f c b Ec El Hwf Hne. rewrite Ec, El in Hr. cbv zeta in Hr. rewrite Hwf in Hr.
    destruct (tx_ins (x_tx c)) as [|ti0 l0] eqn:Ei; [congruence|]. cbn [negb orb is_nil] in Hr.
    destruct (deserialize (expand b)) as [t'|]; [|discriminate].
    apply tx_eqb_eq in Hr. now rewrite Hr.
  - intros v w Ec El Hv2. rewrite Ec, El in Hr.
    assert (E : (two64 <=? v) = false) by (apply N.leb_gt; exact Hv2). rewrite E in Hr.
    destruct (cs_decode (expand w)) as [v' [|x r]|]; try discriminate.
    apply N.eqb_eq in Hr. now rewrite Hr.
Qed.

(* the history whose observables are the model's own results *)
Definition emb_hdr (h : header) : chdr :=
  {| hc_version := h_version h; hc_prev := emb (h_prev h); hc_merkle := emb (h_merkle h);
     hc_time := h_time h; hc_bits := h_bits h; hc_nonce := h_nonce h |}.
Definition emb_call (c : call) : hcall :=
  match c with
  | KSerialize f t => HSerialize f (emb_tx t)
  | KPart p t => HPart p (emb_tx t)
  | KTxHash f t => HTxHash f (emb_tx t)
  | KDeserialize raw => HDeserialize (emb raw)
  | KToVarLen s => HToVarLen (emb s)
  | KFromVarLen raw => HFromVarLen (emb raw)
  | KWriteCompact v => HWriteCompact v
  | KHdrSerialize h => HHdrSerialize (emb_hdr h)
  | KHdrDeserialize raw => HHdrDeserialize (emb raw)
  | KHashHex h o => HHashHex (emb h) o
  | KNewHash b o => HNewHash (emb b) o
  | KNewHashStr s o => HNewHashStr (emb s) o
  end.
Definition emb_res (r : hres) : ores :=
  match r with
  | VBytes b => OBytes (emb b) | VTx t => OTx (emb_tx t) | VHdr h => OHdr (emb_hdr h)
  | VErr => OErr | VPanic => OPanicked
  end.
Definition model_hist (Hf : list N -> list N) (cs : list call) : list hentry :=
  map (fun c => {| he_call := emb_call c; he_now := emb_res (call_result Hf c);
                   he_late := emb_res (call_result Hf c); he_input_kept := true |}) cs.

Lemma x_emb_hdr h : x_hdr (emb_hdr h) = h.
Proof.
  destruct h as [v p m t b n]; unfold x_hdr, emb_hdr;
    cbn [hc_version hc_prev hc_merkle hc_time hc_bits hc_nonce h_version h_prev h_merkle h_time h_bits h_nonce].
  now rewrite !expand_emb.
Qed.
Lemma x_emb_call c : x_call (emb_call c) = c.
Proof. destruct c; cbn [emb_call x_call]; now rewrite ?x_emb_tx, ?expand_emb, ?x_emb_hdr. Qed.
Lemma x_emb_res r : x_ores (emb_res r) = r.
Proof. destruct r; cbn [emb_res x_ores]; now rewrite ?x_emb_tx, ?expand_emb, ?x_emb_hdr. Qed.

Lemma model_entry_roundtrip Hf c :
  late_roundtrip {| he_call := emb_call c; he_now := emb_res (call_result Hf c);
                    he_late := emb_res (call_result Hf c); he_input_kept := true |} = true.
Proof.
  unfold late_roundtrip. cbn [he_call he_late].
  destruct c as [f t|p t|f t|raw|s|raw|v|h|raw|h o|b o|s o]; cbn [emb_call call_result];
    try reflexivity.
  - (* Serialize *)
    cbn [emb_res]. rewrite x_emb_tx, expand_emb.
    destruct (tx_wf t) eqn:Hwf; [|reflexivity].
    destruct (tx_ins t) as [|ti l] eqn:Ei; [reflexivity|]. cbn [negb orb is_nil].
    assert (Hne : tx_ins t <> []) by congruence.
    destruct (deserialize_serialize t Hwf Hne) as [D1 D2].
    destruct f; [rewrite D2|rewrite D1]; now apply tx_eqb_eq.
  - (* ToVarLenData *)
    cbn [emb_res]. rewrite !expand_emb.
    destruct (bytes_ok s) eqn:Hb; [|reflexivity].
    destruct (len s <? 2 ^ 63) eqn:Hl; [|reflexivity]. cbn [andb negb].
    apply N.ltb_lt in Hl. apply opt_is_eq. now apply script_roundtrip.
  - (* writeCompactSizeUint *)
    cbn [emb_res]. rewrite expand_emb. unfold write_compact_size_uint.
    destruct (two64 <=? v) eqn:Hv; [reflexivity|]. apply N.leb_gt in Hv.
    pose proof (cs_roundtrip v [] Hv) as R. rewrite app_nil_r in R. rewrite R. apply N.eqb_refl.
  - (* header *)
    cbn [emb_res]. rewrite expand_emb, x_emb_hdr.
    destruct (header_wf h) eqn:Hwf; [|reflexivity]. cbn [negb].
    apply header_eqb_eq. now apply (proj1 header_roundtrip).
  - (* Hash.Hex *)
    cbn [emb_res]. rewrite !expand_emb.
    destruct ((length h =? 32)%nat) eqn:Hl; [|reflexivity].
    destruct (bytes_ok h) eqn:Hb; [|reflexivity]. cbn [andb negb].
    apply Nat.eqb_eq in Hl. apply opt_is_eq. now apply (proj1 hash_hex_roundtrip).
Qed.

Lemma model_entry_digest Hf c :
  hash_is_digest Hf {| he_call := emb_call c; he_now := emb_res (call_result Hf c);
                       he_late := emb_res (call_result Hf c); he_input_kept := true |} = true.
Proof.
  unfold hash_is_digest. cbn [he_call he_late].
  destruct c; cbn [emb_call call_result]; try reflexivity.
  cbn [emb_res]. rewrite x_emb_tx, expand_emb. now apply list_eqb_eq.
Qed.

Theorem model_history_passes_spec Hf cs :
  hspec_ok Hf (model_hist Hf cs) = true /\ hagree_with Hf (model_hist Hf cs) = true.
Proof.
  unfold hspec_ok, hagree_with, model_hist. rewrite !forallb_forall. split.
  - intros e He. apply in_map_iff in He. destruct He as (c & <- & _).
    unfold hentry_ok. rewrite model_entry_roundtrip, model_entry_digest. cbn [he_late he_now he_input_kept].
    now rewrite (proj2 (hres_eqb_eq _ _) eq_refl).
  - intros e He. apply in_map_iff in He. destruct He as (c & <- & _).
    unfold hentry_agree. cbn [he_call he_now he_late]. rewrite x_emb_call, x_emb_res.
    now rewrite (proj2 (hres_eqb_eq _ _) eq_refl).
Qed.

(* hypotheses are satisfiable: the seeded sequence of the var-len data of three scripts *)
Example history_example :
  run_history (fun _ => []) [KToVarLen [118; 169]; KWriteCompact 253; KToVarLen [0; 20]]
  = [VBytes [2; 118; 169]; VBytes [253; 253; 0]; VBytes [2; 0; 20]].
Proof. reflexivity. Qed.
