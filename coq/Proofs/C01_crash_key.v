(* C01 — crash-fault agreement, part 3: phases 11 and 12 (reconstruction of the individual keys of
   the seats that crashed after distributing their shares, and the group key). *)
From Coq Require Import ZArith Znumtheory NArith List Bool Lia Permutation.
From KV Require Import Common.Verdict Model.C01 Model.C01_crash Proofs.C01 Proofs.C02_arith
  Proofs.C01_crash_base Proofs.C01_crash_phases.
Import ListNotations.
Open Scope N_scope.

Lemma fold_left_proj_sum : forall T (g : T -> Z) qq l init,
  fold_left (fun acc p => ((acc + g p) mod qq)%Z) l init = sum_mod qq (map g l) init.
Proof.
  intros T g qq l. induction l as [|x r IH]; intros init; cbn [fold_left map]; [reflexivity|].
  rewrite IH. reflexivity.
Qed.
Lemma fold_left_ext_in : forall S T (f g : S -> T -> S) l s,
  (forall a s', In a l -> f s' a = g s' a) -> fold_left f l s = fold_left g l s.
Proof.
  intros S T f g l. induction l as [|x r IH]; intros s H; cbn [fold_left]; [reflexivity|].
  rewrite (H x s (or_introl eq_refl)). apply IH. intros a s' Ha. apply H. right. exact Ha.
Qed.
Lemma fold_left_some : forall S T (step : option S -> T -> option S) l,
  (forall a x, In a l -> exists y, step (Some x) a = Some y) ->
  forall x, exists y, fold_left step l (Some x) = Some y.
Proof.
  intros S T step l. induction l as [|a r IH]; intros H x; cbn [fold_left]; [eauto|].
  destruct (H a x (or_introl eq_refl)) as [y ->]. apply IH. intros a' x' Ha'. apply H. right. exact Ha'.
Qed.
Lemma fold_left_fix : forall T S (step : S -> T -> S) l s,
  (forall a, In a l -> step s a = s) -> fold_left step l s = s.
Proof.
  intros T S step l s. induction l as [|a r IH]; intros H; cbn [fold_left]; [reflexivity|].
  rewrite (H a (or_introl eq_refl)). apply IH. intros a' Ha'. apply H. right. exact Ha'.
Qed.
Lemma NoDup_app_both : forall T (l1 l2 : list T),
  NoDup l1 -> NoDup l2 -> (forall x, In x l1 -> In x l2 -> False) -> NoDup (l1 ++ l2).
Proof.
  intros T l1 l2 H1 H2 Hd. induction H1 as [|x l1 Hx H1 IH]; cbn [app]; [exact H2|].
  constructor.
  - intros Hin. apply in_app_or in Hin. destruct Hin as [Hin|Hin]; [contradiction|].
    apply (Hd x); [left; reflexivity|exact Hin].
  - apply IH. intros y Hy1 Hy2. apply (Hd y); [right; exact Hy1|exact Hy2].
Qed.
Lemma head0_nth : forall l : list Z, l <> [] -> head0 l = Some (nth 0 l 0%Z).
Proof. intros [|x r] H; [congruence|reflexivity]. Qed.
Lemma keys_perm : forall V (l : list (N * V)) (dm : N -> bool) val (L : list N),
  amap l dm val -> NoDup L -> (forall j, dm j = true -> In j L) ->
  Permutation (map fst l) (filter dm L).
Proof.
  intros V l dm val L Hl HL Hin. apply NoDup_Permutation; [apply Hl|apply NoDup_filter; exact HL|].
  intros j. rewrite filter_In. rewrite <- memN_In, (amap_memN _ _ _ _ j Hl). split.
  - intros H. split; [apply Hin; exact H|exact H].
  - intros [_ H]. exact H.
Qed.

Section Key.
  Variable c : cfg.
  Variable K : N -> N.
  Variable ids : list N.
  Variables A B : N -> list Z.
  Hypothesis Hops : length (ops c) = N.to_nat (gn c).
  Hypothesis Hids_nd : NoDup ids.
  Hypothesis Hids_in : forall i, In i ids <-> in_group c i = true.
  Hypothesis HA : forall i, in_group c i = true -> length (A i) = tcount c /\ length (B i) = tcount c.
  Hypothesis Hq : (0 < q c)%Z.
  Local Notation Q := (q c).
  Local Notation alive := (alive K).
  Local Notation dom := (dom c K).
  Local Notation inc := (inc c K).
  Local Notation I9 := (I9 c K).
  Local Notation I11 := (I11 c K).
  Local Notation EX := (EX c K).
  Local Notation keys1 := (keys1 c).
  Local Notation sh3 := (sh3 c K A B).
  Local Notation cm3 := (cm3 A B).
  Local Notation qv := (qv c A).
  Local Notation rev10 := (rev10 c K).

  Ltac prj :=
    cbn [me ia dq sym log_eph log_sh coefA coefB selfS qualS commits share points validPts expect revealed
         reconPriv gkey pubsh failed in_eph in_sh in_cm in_sacc in_pts in_pacc in_rev
         set_ia set_dq set_sym set_log_eph set_log_sh set_selfS set_qualS set_commits set_share set_points
         set_validPts set_expect set_revealed set_reconPriv set_gkey set_pubsh set_failed app fst snd].

  (* the shares of seat [m] every survivor holds after phase 11: one from every seat alive at 10 *)
  Definition shspec (m : N) (shm : list (N * Z)) : Prop :=
    NoDup (map fst shm) /\
    forall r, lookup r shm = if in_group c r && alive 10 r then Some (eval Q (A m) r) else None.
  Definition RVspec (RV : list (N * list (N * Z))) : Prop :=
    NoDup (map fst RV) /\
    forall m, if memN m EX then exists shm, lookup m RV = Some shm /\ shspec m shm else lookup m RV = None.

  Definition Inv11 (i : N) (s : mstate) : Prop :=
    in_group c i = true /\ exists IE SY LE LS QS CM (VP : list (N * list g2)) ISH ICM ISA IPT IPA IRV sh RV,
      amap QS (dom 3 i) (qv i) /\ amap VP (dom 7 i) A /\ RVspec RV /\
      s = mkst i I11 [] SY LE LS (A i) (B i) (eval Q (A i) i) QS CM sh (A i) VP EX RV
               (map (fun p => (fst p, interpolate0 Q (snd p))) RV) 0%Z [] false IE ISH ICM ISA IPT IPA IRV.

  Lemma EX_mem : forall m, memN m EX = in_group c m && (alive 3 m && negb (alive 7 m)).
  Proof.
    intros m. unfold C01_crash_phases.EX. rewrite memN_filter.
    destruct (in_group c m) eqn:Hm.
    - rewrite (mem_I9 c K m Hm). cbn [andb].
      destruct (alive 3 m) eqn:E3, (alive 7 m) eqn:E7, (alive 8 m) eqn:E8; try reflexivity.
      exfalso. assert (G : 7 <= 8) by lia. rewrite (alive_mono K 7 8 m G E8) in E7. discriminate E7.
    - cbn [andb]. destruct (memN m I9) eqn:E; [|reflexivity]. apply memN_In in E. apply (I9_in c K) in E. congruence.
  Qed.

  (* phase 11 when nobody needs reconstruction *)
  Lemma T11_none : EX = [] -> forall i s, Inv10r c K A B i s -> alive 10 i = true ->
    Inv11 i (phase11 c s) /\ me (phase11 c s) = i.
  Proof.
    intros HEX i s (IRV & HIRV & [Hi (IE & SY & LE & LS & QS & CM & VP & ISH & ICM & ISA & IPT & IPA & sh & H1 & H2 & H3 & H4 & H5 & ->)]) Ha.
    unfold phase11. prj.
    erewrite (mark_inactive_crash c K 8 10 i I9); try reflexivity; try exact Ha; [|apply mem_I9|].
    2:{ intros m Hm. etransitivity; [exact (amap_memN _ _ _ _ m HIRV)|]. unfold C01_crash_base.dom. rewrite Hm. reflexivity. }
    prj. fold I11. rewrite (dedup_id _ IRV) by apply HIRV.
    assert (Hnil : forall a, In a IRV -> snd a = []).
    { intros [j v] Hin. destruct (amap_In _ _ _ _ _ _ HIRV Hin) as [_ ->]. unfold C01_crash_phases.rev10. rewrite HEX. reflexivity. }
    rewrite (fold_left_fix _ _ (fun (s0 : mstate) (m : N * list (N * ekey)) => if valid_reveal c s0 (snd m) then s0 else mark_dq c (fst m) s0) IRV).
    2:{ intros a Ha'. unfold valid_reveal. rewrite (Hnil a Ha'). prj. rewrite HEX. reflexivity. }
    rewrite no_accusations by exact Hnil. prj. rewrite HEX. cbn [fold_left]. prj.
    split; [|reflexivity]. split; [exact Hi|].
    exists IE, SY, LE, LS, QS, CM, VP, ISH, ICM, ISA, IPT, IPA, IRV, sh, [].
    split; [exact H3|]. split; [exact H5|]. split; [|rewrite HEX; reflexivity].
    split; [constructor|]. intros m. rewrite HEX. reflexivity.
  Qed.

  (* ---------- phase 12 ---------- *)
  Definition hd0 (j : N) : Z := nth 0 (A j) 0%Z.
  Definition Final (i : N) (s : mstate) : Prop :=
    failed s = false /\ me s = i /\ ia s = I11 /\ dq s = [] /\ gkey s = crash_key c K A.

  Lemma qual_split : forall i, in_group c i = true -> alive 10 i = true ->
    Permutation (filter (fun m => 3 <? K m) (members c))
                (i :: filter (dom 7 i) (members c) ++ filter (fun m => memN m EX) (members c)).
  Proof.
    intros i Hi Ha.
    assert (Ha7 : alive 7 i = true) by (apply (alive_mono K 7 10); [lia|exact Ha]).
    assert (Ha3 : alive 3 i = true) by (apply (alive_mono K 3 10); [lia|exact Ha]).
    apply NoDup_Permutation.
    - apply NoDup_filter. apply members_NoDup.
    - constructor.
      + intros H. apply in_app_or in H. destruct H as [H|H]; apply filter_In in H; destruct H as [_ H].
        * apply dom_elim in H. destruct H as (_ & _ & H). rewrite N.eqb_refl in H. discriminate H.
        * rewrite EX_mem, Ha7 in H. rewrite andb_false_r in H. cbn in H. rewrite andb_false_r in H. discriminate H.
      + apply NoDup_app_both.
        * apply NoDup_filter. apply members_NoDup.
        * apply NoDup_filter. apply members_NoDup.
        * intros m H1 H2. apply filter_In in H1. apply filter_In in H2. destruct H1 as [_ H1]. destruct H2 as [_ H2].
          apply dom_elim in H1. destruct H1 as (_ & H1 & _). rewrite EX_mem, H1 in H2.
          rewrite !andb_false_r in H2. discriminate H2.
    - intros m. cbn [In]. rewrite in_app_iff, !filter_In, members_in_group, EX_mem.
      change (3 <? K m) with (alive 3 m). split.
      + intros [Hm H3]. destruct (N.eqb m i) eqn:E; [left; symmetry; apply N.eqb_eq; exact E|]. right.
        destruct (alive 7 m) eqn:E7.
        * left. split; [exact Hm|]. apply dom_intro; assumption.
        * right. split; [exact Hm|]. rewrite Hm, H3. reflexivity.
      + intros [<-|[[Hm H]|[Hm H]]].
        * auto.
        * split; [exact Hm|]. apply dom_elim in H. destruct H as (_ & H & _). apply (alive_mono K 3 7); [lia|exact H].
        * split; [exact Hm|]. rewrite Hm in H. cbn [andb] in H. apply andb_true_iff in H. apply H.
  Qed.

  Lemma T12 : forall i s,
    (forall m shm, memN m EX = true -> shspec m shm -> interpolate0 Q shm = (hd0 m mod Q)%Z) ->
    Inv11 i s -> alive 10 i = true -> Final i (phase12 c s) /\ me (phase12 c s) = i.
  Proof.
    intros i s Hinterp [Hi (IE & SY & LE & LS & QS & CM & VP & ISH & ICM & ISA & IPT & IPA & IRV & sh & RV & HQS & HVP & HRV & ->)] Ha.
    destruct (A_nonempty c A B HA i Hi) as [Hne _].
    unfold phase12. prj. rewrite (head0_nth (A i) Hne). prj.
    (* no public key share is missing *)
    match goal with |- context [existsb ?f ?ps] => assert (Hno : existsb f ps = false) end.
    { match goal with |- existsb ?f ?ps = false => destruct (existsb f ps) eqn:E; [|reflexivity] end.
      exfalso. apply existsb_exists in E. destruct E as [[op o] [Hin E]]. cbn [snd] in E.
      apply in_map_iff in Hin. destruct Hin as [op' [Eo Hin]]. injection Eo as E1 E2. subst op'.
      apply filter_In in Hin. destruct Hin as [Hin _]. unfold operating in Hin. apply filter_In in Hin.
      destruct Hin as [Hop Hin]. apply members_in_group in Hop.
      assert (Hop10 : alive 10 op = true).
      { erewrite <- (is_op_crash c K _ I11 10); [exact Hin|reflexivity|reflexivity|apply (mem_I11 c K)|exact Hop]. }
      clear Hin. rename Hop10 into Hin.
      match type of E2 with ?ps = _ => assert (Hsome : exists y, ps = Some y) end.
      2:{ destruct Hsome as [y Hy]. rewrite Hy in E2. subst o. discriminate E. }
      unfold pubshare_for. prj. apply fold_left_some.
      intros [j v] sum Hjv. destruct (amap_In _ _ _ _ _ _ HQS Hjv) as [Hd _]. cbn [fst].
      destruct (dom_elim c K _ _ _ Hd) as (Hj & Haj & Hne').
      rewrite (proj2 HVP j). destruct (dom 7 i j) eqn:Ed7; [eauto|].
      assert (Hex : memN j EX = true).
      { rewrite EX_mem, Hj, Haj. cbn [andb]. unfold C01_crash_base.dom in Ed7. rewrite Hj, Hne' in Ed7.
        cbn [andb negb] in Ed7. rewrite andb_true_r in Ed7. rewrite Ed7. reflexivity. }
      pose proof (proj2 HRV j) as Hr. rewrite Hex in Hr. destruct Hr as [shm [-> [_ Hsh]]].
      rewrite Hsh, Hop, Hin. cbn [andb]. eauto. }
    rewrite Hno. prj. split; [|reflexivity].
    split; [reflexivity|]. split; [reflexivity|]. split; [reflexivity|]. split; [reflexivity|].
    (* the key *)
    prj.
    rewrite (fold_left_ext_in _ _ _ (fun acc p => ((acc + hd0 (fst p)) mod Q)%Z) VP).
    2:{ intros [j ps] acc Hjps. destruct (amap_In _ _ _ _ _ _ HVP Hjps) as [Hd ->]. cbn [snd fst].
        destruct (dom_elim c K _ _ _ Hd) as (Hj & _ & _). destruct (A_nonempty c A B HA j Hj) as [Hnj _].
        rewrite (head0_nth (A j) Hnj). reflexivity. }
    rewrite (fold_left_proj_sum _ (fun p => hd0 (fst p))), (fold_left_proj_sum _ snd).
    rewrite map_map. cbn [snd].
    unfold crash_key.
    rewrite <- sum_mod_reduced; [|lia|apply sum_mod_reduced; [lia|apply Z.mod_mod; lia]].
    rewrite sum_mod_spec. rewrite <- Zplus_mod_idemp_l.
    rewrite <- (sum_mod_reduced Q) by (try lia; apply Z.mod_mod; lia).
    rewrite sum_mod_spec, Zplus_mod_idemp_l, Zplus_mod_idemp_l.
    rewrite <- (map_map fst hd0).
    change (fun m : N => nth 0 (A m) 0%Z) with hd0. change (nth 0 (A i) 0%Z) with (hd0 i).
    rewrite (fold_add_perm _ _ (Permutation_map hd0 (qual_split i Hi Ha))).
    cbn [map fold_right]. rewrite map_app, fold_right_app.
    assert (Hsplit : forall l1 l2, fold_right Z.add (fold_right Z.add 0%Z l2) l1
                                   = (fold_right Z.add 0 l1 + fold_right Z.add 0 l2)%Z).
    { induction l1 as [|x l1 IH]; intros l2; cbn [fold_right]; [lia|]. rewrite IH. lia. }
    rewrite Hsplit.
    assert (HpV : Permutation (map fst VP) (filter (dom 7 i) (members c))).
    { apply (keys_perm _ VP _ A); [exact HVP|apply members_NoDup|].
      intros j Hd. apply dom_elim in Hd. apply members_in_group. apply Hd. }
    rewrite (fold_add_perm _ _ (Permutation_map hd0 HpV)).
    assert (HpR : Permutation (map fst RV) (filter (fun m => memN m EX) (members c))).
    { apply NoDup_Permutation; [apply HRV|apply NoDup_filter; apply members_NoDup|].
      intros m. rewrite filter_In. pose proof (proj2 HRV m) as Hr. split.
      - intros Hin. destruct (memN m EX) eqn:E.
        + split; [|reflexivity]. rewrite EX_mem in E. apply andb_true_iff in E. apply members_in_group. apply E.
        + exfalso. apply lookup_None in Hr. contradiction.
      - intros [_ E]. rewrite E in Hr. destruct Hr as [shm [Hl _]]. apply lookup_In in Hl.
        apply in_map_iff. exists (m, shm). auto. }
    assert (HR : (fold_right Z.add 0 (map (fun x => interpolate0 Q (snd x)) RV) mod Q
                  = fold_right Z.add 0 (map hd0 (filter (fun m => memN m EX) (members c))) mod Q)%Z).
    { rewrite <- (fold_add_perm _ _ (Permutation_map hd0 HpR)), map_map.
      apply fold_add_mod_ext. intros [m shm] Hin. cbn [snd fst].
      pose proof (proj2 HRV m) as Hr. apply (NoDup_lookup _ _ _ _ (proj1 HRV)) in Hin.
      destruct (memN m EX) eqn:E; [|congruence]. destruct Hr as [shm' [Hl Hs]]. rewrite Hin in Hl. inversion Hl. subst shm'.
      rewrite (Hinterp m shm E Hs). apply Z.mod_mod. lia. }
    rewrite Zplus_mod, HR, <- Zplus_mod.
    rewrite <- Z.add_assoc, Zplus_mod_idemp_l. reflexivity.
  Qed.
End Key.
