From Coq Require Import ZArith List Bool.
From KV Require Import Common.Verdict Model.C41.
Import ListNotations.
Open Scope Z_scope.

Section GlueProofs.
  Variable G : Type.
  Variable smul : Z -> G -> G.
  Variable gen : G.
  Variable G_eqb : G -> G -> bool.
  Variable key : Type.
  Variable kdf : G -> key.
  Variable plaintext ciphertext nonce : Type.
  Variable seal : key -> nonce -> plaintext -> ciphertext.
  Variable open : key -> ciphertext -> option plaintext.

  (* assumed behaviour of the primitives *)
  Hypothesis smul_smul : forall a b p, smul a (smul b p) = smul (a * b) p.
  Hypothesis G_eqb_spec : forall x y, G_eqb x y = true <-> x = y.
  Hypothesis open_seal : forall k n m, open k (seal k n m) = Some m.
  Hypothesis integrity : forall k c m, open k c = Some m -> exists n, c = seal k n m.
  Hypothesis key_binding : forall k k' n n' m m', seal k n m = seal k' n' m' -> k = k'.

  Lemma ecdh_agree a b :
    ecdh G smul key kdf a (public_of G smul gen b) = ecdh G smul key kdf b (public_of G smul gen a).
  Proof. unfold ecdh, public_of. rewrite !smul_smul, Z.mul_comm. reflexivity. Qed.

  Lemma decrypt_encrypt a b n m :
    decrypt key plaintext ciphertext open (ecdh G smul key kdf a (public_of G smul gen b))
      (encrypt key plaintext ciphertext nonce seal (ecdh G smul key kdf b (public_of G smul gen a)) n m)
    = Some m.
  Proof. rewrite ecdh_agree. unfold decrypt, encrypt. apply open_seal. Qed.

  Lemma accepted_only_if_honest k c m :
    decrypt key plaintext ciphertext open k c = Some m -> exists n, c = seal k n m.
  Proof. apply integrity. Qed.

  Lemma tampered_rejected k c :
    (forall n m, c <> seal k n m) -> decrypt key plaintext ciphertext open k c = None.
  Proof.
    intros H. unfold decrypt. destruct (open k c) as [m|] eqn:E; [|reflexivity].
    destruct (integrity _ _ _ E) as [n Hn]. exfalso. exact (H n m Hn).
  Qed.

  Lemma wrong_key_rejected k k' n m :
    k <> k' -> decrypt key plaintext ciphertext open k' (seal k n m) = None.
  Proof.
    intros Hk. apply tampered_rejected. intros n' m' E. apply Hk. exact (key_binding _ _ _ _ _ _ E).
  Qed.

  Lemma is_key_matching_iff pub priv :
    is_key_matching G smul gen G_eqb pub priv = true <-> pub = public_of G smul gen priv.
  Proof. unfold is_key_matching, public_of. rewrite G_eqb_spec. split; intros H; symmetry; exact H. Qed.
End GlueProofs.

(* the hypotheses are satisfiable: a toy instance (Z under +, scalar action = multiplication,
   "encryption" = tagging with the key) *)
Example glue_hypotheses_satisfiable :
  let smul := fun a p : Z => a * p in
  let seal := fun (k : Z) (n : Z) (m : Z) => (k, n, m) in
  let open := fun (k : Z) (c : Z * Z * Z) => let '(k', _, m) := c in if k =? k' then Some m else None in
  (forall a b p, smul a (smul b p) = smul (a * b) p) /\
  (forall k n m, open k (seal k n m) = Some m) /\
  (forall k c m, open k c = Some m -> exists n, c = seal k n m) /\
  (forall k k' n n' m m', seal k n m = seal k' n' m' -> k = k').
Proof.
  cbv zeta. repeat split.
  - intros; ring.
  - intros k n m. rewrite Z.eqb_refl. reflexivity.
  - intros k [[k' n] m'] m H. destruct (Z.eqb_spec k k'); [|discriminate].
    injection H as ->. subst. exists n. reflexivity.
  - intros k k' n n' m m' H. injection H. auto.
Qed.

(* executable form: what each conjunct of spec_ok says *)
Lemma spec_ok_sound c :
  spec_ok c = true ->
  c_same_key c = true /\ c_roundtrip c = true /\ c_tampered_accepted c = 0%N /\
  c_wrongkey_accepted c = 0%N /\
  forall useA priv observed, In (useA, priv, observed) (c_matching c) ->
     observed = is_key_matching_c (if useA then c_pubA c else c_pubB c) priv.
Proof.
  unfold spec_ok. rewrite !andb_true_iff, !N.eqb_eq, forallb_forall.
  intros [[[[H1 H2] H3] H4] H5]. repeat split; auto.
  intros useA priv observed Hin. specialize (H5 _ Hin). cbn in H5.
  apply eqb_prop in H5. exact H5.
Qed.
