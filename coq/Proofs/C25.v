(* C25 — proofs about the model of walletDispatcher (Model/C25.v). *)
From Coq Require Import ZArith NArith List Bool Arith Lia.
From KV Require Import Common.Verdict Model.C25.
Import ListNotations.

(* the invariant: the goroutines of a wallet (in any phase) are exactly as many as its map
   entries, i.e. one or none *)
Definition wf (x : wst) : Prop :=
  pending x + running x + finishing x = if entry x then 1 else 0.

Lemma upd_same : forall s w x, upd s w x w = x.
Proof. intros. unfold upd. rewrite N.eqb_refl. reflexivity. Qed.
Lemma upd_other : forall s w x v, v <> w -> upd s w x v = s v.
Proof. intros s w x v H. unfold upd. destruct (N.eqb_spec v w); [contradiction|reflexivity]. Qed.

Lemma step_other : forall s o v, v <> op_wallet o -> fst (step s o) v = s v.
Proof.
  intros s o v H. destruct o as [w|w|w|w]; cbn in *.
  - destruct (entry (s w)); cbn; [reflexivity|apply upd_other; exact H].
  - destruct (pending (s w)); cbn; [reflexivity|apply upd_other; exact H].
  - destruct (running (s w)); cbn; [reflexivity|apply upd_other; exact H].
  - destruct (finishing (s w)); cbn; [reflexivity|apply upd_other; exact H].
Qed.

(* a step reads and writes only the component of its own wallet *)
Lemma step_local : forall s s' o,
    s (op_wallet o) = s' (op_wallet o) ->
    fst (step s o) (op_wallet o) = fst (step s' o) (op_wallet o) /\
    snd (step s o) = snd (step s' o).
Proof.
  intros s s' o H. destruct o as [w|w|w|w]; cbn in *; rewrite <- H.
  - destruct (entry (s w)); cbn; [split; [exact H|reflexivity]|].
    rewrite !upd_same. split; reflexivity.
  - destruct (pending (s w)); cbn; [split; [exact H|reflexivity]|].
    rewrite !upd_same. split; reflexivity.
  - destruct (running (s w)); cbn; [split; [exact H|reflexivity]|].
    rewrite !upd_same. split; reflexivity.
  - destruct (finishing (s w)); cbn; [split; [exact H|reflexivity]|].
    rewrite !upd_same. split; reflexivity.
Qed.

Lemma step_wf : forall s o, (forall w, wf (s w)) -> forall w, wf (fst (step s o) w).
Proof.
  intros s o H v. destruct (N.eq_dec v (op_wallet o)) as [E|E].
  2:{ rewrite step_other by exact E. apply H. }
  subst v. specialize (H (op_wallet o)). unfold wf in *.
  destruct o as [w|w|w|w]; cbn in *; destruct (s w) as [e p r f] eqn:Ex; cbn in *.
  - destruct e; cbn; [rewrite Ex; exact H|]. rewrite upd_same. cbn. lia.
  - destruct p; cbn; [rewrite Ex; exact H|]. rewrite upd_same. cbn. lia.
  - destruct r; cbn; [rewrite Ex; exact H|]. rewrite upd_same. cbn. lia.
  - destruct f; cbn; [rewrite Ex; exact H|]. rewrite upd_same. cbn. destruct e; lia.
Qed.

Lemma run_wf : forall ops s, (forall w, wf (s w)) -> forall w, wf (run s ops w).
Proof.
  induction ops as [|o t IH]; intros s H w; [apply H|].
  cbn. apply IH. apply step_wf. exact H.
Qed.

Lemma init_wf : forall w, wf (init w).
Proof. intros w. reflexivity. Qed.

(* ---- at most one action executes per wallet, over all operation sequences ---- *)
Theorem at_most_one_executing : forall ops w,
    running (run init ops w) <= 1 /\
    (running (run init ops w) >= 1 -> entry (run init ops w) = true).
Proof.
  intros ops w. pose proof (run_wf ops init init_wf w) as H. unfold wf in H.
  destruct (entry (run init ops w)); split; try lia; try (intros _; reflexivity).
Qed.

(* ---- a dispatch for a busy wallet is refused and changes nothing; for a free one it is
        accepted ---- *)
Theorem busy_refused : forall ops w,
    let s := run init ops in
    (pending (s w) + running (s w) + finishing (s w) >= 1 -> step s (Dispatch w) = (s, false)) /\
    (pending (s w) + running (s w) + finishing (s w) = 0 -> snd (step s (Dispatch w)) = true).
Proof.
  intros ops w s. pose proof (run_wf ops init init_wf w) as H. fold s in H. unfold wf in H.
  cbn. destruct (entry (s w)); split; intros G; try reflexivity; lia.
Qed.

(* ---- wallets do not influence each other ---- *)
Definition proj (w : N) (ops : list fop) : list fop :=
  filter (fun o => N.eqb (op_wallet o) w) ops.
Definition res_of (w : N) (ops : list fop) (rs : list bool) : list bool :=
  map snd (filter (fun p => N.eqb (op_wallet (fst p)) w) (combine ops rs)).

Lemma run_proj : forall ops s s' w,
    s w = s' w ->
    run s ops w = run s' (proj w ops) w /\
    res_of w ops (results s ops) = results s' (proj w ops).
Proof.
  induction ops as [|o t IH]; intros s s' w E; [split; [exact E|reflexivity]|].
  unfold proj, res_of in *. cbn [run results filter combine fst].
  destruct (N.eqb_spec (op_wallet o) w) as [Ew|Ew].
  - subst w. destruct (step_local s s' o E) as [L1 L2].
    cbn [run results map snd]. rewrite L2.
    destruct (IH (fst (step s o)) (fst (step s' o)) (op_wallet o) L1) as [I1 I2].
    split; [exact I1|]. f_equal. exact I2.
  - apply IH. rewrite step_other by congruence. exact E.
Qed.

Theorem wallets_independent : forall ops w,
    run init ops w = run init (proj w ops) w /\
    res_of w ops (results init ops) = results init (proj w ops).
Proof. intros ops w. apply run_proj. reflexivity. Qed.

(* ---- a wallet is free again as soon as its action has ended, whatever the other wallets
        are doing ---- *)
Lemma proj_others : forall w others,
    (forall o, In o others -> op_wallet o <> w) -> proj w others = [].
Proof.
  intros w others H. induction others as [|o t IH]; [reflexivity|].
  unfold proj in *. cbn. destruct (N.eqb_spec (op_wallet o) w) as [E|E].
  - exfalso. apply (H o); [left; reflexivity|exact E].
  - apply IH. intros o' Ho'. apply H. right. exact Ho'.
Qed.

Theorem free_after_finish : forall ops w others,
    (forall o, In o others -> op_wallet o <> w) ->
    running (run init ops w) = 1 ->
    let s' := run (run init ops) (EndExec w :: others ++ [Release w]) in
    snd (step s' (Dispatch w)) = true /\
    res_of w (EndExec w :: others ++ [Release w])
           (results (run init ops) (EndExec w :: others ++ [Release w])) = [true; true].
Proof.
  intros ops w others Ho Hr s'. set (s := run init ops) in *.
  destruct (run_proj (EndExec w :: others ++ [Release w]) s s w eq_refl) as [P1 P2].
  assert (Hp : proj w (EndExec w :: others ++ [Release w]) = [EndExec w; Release w]).
  { unfold proj. cbn [filter op_wallet]. rewrite N.eqb_refl. f_equal.
    rewrite filter_app. fold (proj w others). rewrite (proj_others w others Ho).
    cbn. rewrite N.eqb_refl. reflexivity. }
  rewrite Hp in P1, P2. fold s' in P1. rewrite P2.
  cbn [step]. rewrite P1. clear P1 P2 Hp.
  cbn. rewrite Hr. cbn. rewrite !upd_same. cbn. rewrite !upd_same. cbn. split; reflexivity.
Qed.

(* ---------- the executable form ---------- *)
Definition respects_real_time (h : list ev) : Prop :=
  forall i j a b, i < j -> nth_error h i = Some a -> nth_error h j = Some b ->
                  ~ (h_ret b < h_inv a)%N.

Lemma prec_ok_sound : forall h, prec_ok h = true -> respects_real_time h.
Proof.
  induction h as [|x t IH]; intros H i j a b Hij Ha Hb.
  - destruct i; discriminate.
  - cbn in H. apply andb_prop in H. destruct H as [H1 H2].
    destruct j as [|j]; [lia|]. cbn in Hb.
    destruct i as [|i]; cbn in Ha.
    + inversion Ha; subst x. rewrite forallb_forall in H1.
      specialize (H1 b (nth_error_In _ _ Hb)). apply negb_true_iff in H1.
      apply N.ltb_ge in H1. lia.
    + apply (IH H2 i j a b); [lia|exact Ha|exact Hb].
Qed.

Lemma replay_sound : forall h s, snd (replay s h) = true -> model_results s h = map h_res h.
Proof.
  induction h as [|e t IH]; intros s H; [reflexivity|].
  cbn in *. apply andb_prop in H. destruct H as [H1 H2].
  apply eqb_prop in H1. rewrite H1. f_equal. apply IH. exact H2.
Qed.

(* a history accepted by spec_ok never showed two simultaneous execute() of a wallet, nothing
   was blocked, and it is linearisable: the recorded order respects real time and the sequential
   dispatcher model, run in that order, answers every operation as the implementation did *)
Theorem spec_ok_sound : forall c,
    spec_ok c = true ->
    (forall w m, In (w, m) (c_overlap c) -> (m <= 1)%N) /\
    c_stuck c = false /\
    respects_real_time (c_hist c) /\
    model_results init (c_hist c) = map h_res (c_hist c).
Proof.
  intros c H. unfold spec_ok in H.
  repeat (apply andb_prop in H; destruct H as [H ?]).
  repeat split.
  - intros w m Hin. unfold overlap_ok in H. rewrite forallb_forall in H.
    specialize (H (w, m) Hin). cbn in H. apply N.leb_le in H. exact H.
  - apply negb_true_iff. assumption.
  - apply prec_ok_sound. assumption.
  - apply replay_sound. assumption.
Qed.

(* every sequential run of the model, stamped in order, is accepted *)
Fixpoint mk_hist (k : N) (s : state) (ops : list aop) : list ev :=
  match ops with
  | [] => []
  | a :: t => {| h_op := a; h_inv := 2 * k; h_ret := 2 * k + 1; h_res := snd (astep s a) |}
              :: mk_hist (k + 1) (fst (astep s a)) t
  end.

Lemma mk_hist_ret : forall ops k s b, In b (mk_hist k s ops) -> (2 * k <= h_ret b)%N.
Proof.
  induction ops as [|a t IH]; intros k s b Hb; [destruct Hb|].
  cbn in Hb. destruct Hb as [Hb|Hb].
  - subst b. cbn. lia.
  - apply IH in Hb. lia.
Qed.

Theorem model_passes_spec : forall n ops,
    spec_ok {| c_wallets := n; c_hist := mk_hist 0 init ops; c_overlap := []; c_stuck := false;
               c_busy := busy_set n (fst (replay init (mk_hist 0 init ops))) |} = true.
Proof.
  intros n ops. unfold spec_ok. cbn [c_overlap c_stuck c_hist overlap_ok forallb negb andb].
  generalize 0%N as k. generalize init as s.
  induction ops as [|a t IH]; intros s k; [reflexivity|].
  cbn [mk_hist stamps_ok prec_ok replay forallb h_inv h_ret h_op h_res fst snd].
  specialize (IH (fst (astep s a)) (k + 1)%N).
  apply andb_prop in IH. destruct IH as [IH I3]. apply andb_prop in IH. destruct IH as [I1 I2].
  unfold stamps_ok in I1. rewrite I1, I2, I3. rewrite eqb_reflx.
  replace (2 * k <=? 2 * k + 1)%N with true by (symmetry; apply N.leb_le; lia).
  cbn [andb]. rewrite !andb_true_r.
  apply forallb_forall. intros b Hb. apply negb_true_iff. apply N.ltb_ge.
  apply mk_hist_ret in Hb. lia.
Qed.

(* the hypotheses are satisfiable and the states are reachable *)
Example running_reachable :
  running (run init [Dispatch 1; Dispatch 2; Begin 1] 1%N) = 1 /\
  results init [Dispatch 1; Begin 1; Dispatch 1; Dispatch 2; EndExec 1; Dispatch 1; Release 1; Dispatch 1]
  = [true; true; false; true; true; false; true; true].
Proof. vm_compute. split; reflexivity. Qed.
