(* C31 — proofs about the model of AssembleSpvProof (Model/C31.v). *)
From Coq Require Import ZArith NArith List Bool Lia PeanoNat.
From KV Require Import Common.Verdict Model.C31.
Import ListNotations.

(* ---------- generic list facts ---------- *)
Lemma bytes_eqb_refl : forall a, bytes_eqb a a = true.
Proof. induction a as [|x a IH]; cbn [bytes_eqb]; [reflexivity|]. rewrite N.eqb_refl, IH. reflexivity. Qed.

Lemma bytes_eqb_eq : forall a b, bytes_eqb a b = true -> a = b.
Proof.
  induction a as [|x a IH]; intros [|y b] H; cbn [bytes_eqb] in H; try discriminate; [reflexivity|].
  apply andb_true_iff in H. destruct H as [H1 H2]. apply N.eqb_eq in H1. f_equal; [exact H1 | apply IH; exact H2].
Qed.

Lemma chunks_f_concat : forall k l fuel,
    (0 < k)%nat -> Forall (fun c : bytes => length c = k) l -> (length (concat l) <= fuel)%nat ->
    chunks_f fuel k (concat l) = l.
Proof.
  intros k l. induction l as [|c l IH]; intros fuel Hk HF Hfuel.
  - cbn [concat]. destruct fuel; reflexivity.
  - inversion HF as [|c' l' Hc HF']; subst.
    cbn [concat] in *. rewrite app_length in Hfuel.
    destruct fuel as [|fuel]; [lia|]. cbn [chunks_f].
    destruct (c ++ concat l) eqn:E.
    + apply (f_equal (@length N)) in E. rewrite app_length in E. cbn [length] in E. lia.
    + rewrite <- E.
      rewrite firstn_app, Nat.sub_diag, firstn_all. cbn [firstn]. rewrite app_nil_r.
      rewrite skipn_app, Nat.sub_diag, skipn_all. cbn [skipn app].
      f_equal. apply IH; [exact Hk | exact HF' | lia].
Qed.

Lemma chunks_concat : forall k l,
    (0 < k)%nat -> Forall (fun c : bytes => length c = k) l -> chunks k (concat l) = l.
Proof. intros k l Hk HF. unfold chunks. apply chunks_f_concat; [exact Hk | exact HF | lia]. Qed.

Lemma length_concat_const : forall k (l : list bytes),
    Forall (fun c : bytes => length c = k) l -> length (concat l) = (k * length l)%nat.
Proof.
  intros k l HF. induction HF as [|c l Hc HF IH]; cbn [concat length]; [lia|].
  rewrite app_length, IH, Hc. lia.
Qed.

Lemma le32_length : forall v, length (le32 v) = 4%nat.
Proof. reflexivity. Qed.

Lemma ser_header_length : forall hd,
    length (h_prev hd) = 32%nat -> length (h_root hd) = 32%nat -> length (ser_header hd) = 80%nat.
Proof. intros hd H1 H2. unfold ser_header. rewrite !app_length, !le32_length, H1, H2. reflexivity. Qed.

Lemma firstn_skipn_mid : forall (a m c : bytes) n k,
    length a = n -> length m = k -> firstn k (skipn n (a ++ m ++ c)) = m.
Proof.
  intros a m c n k <- <-.
  rewrite skipn_app, skipn_all, Nat.sub_diag. cbn [skipn app].
  rewrite firstn_app, Nat.sub_diag, firstn_all. cbn [firstn]. apply app_nil_r.
Qed.

Lemma hdr_root_ser : forall hd,
    length (h_prev hd) = 32%nat -> length (h_root hd) = 32%nat -> hdr_root (ser_header hd) = h_root hd.
Proof.
  intros hd H1 H2. unfold hdr_root, ser_header.
  rewrite (app_assoc (le32 (h_version hd)) (h_prev hd)).
  apply firstn_skipn_mid; [rewrite app_length, le32_length, H1; reflexivity | exact H2].
Qed.

Lemma hdr_prev_ser : forall hd,
    length (h_prev hd) = 32%nat -> hdr_prev (ser_header hd) = h_prev hd.
Proof.
  intros hd H1. unfold hdr_prev, ser_header.
  apply firstn_skipn_mid; [apply le32_length | exact H1].
Qed.

Section General.
  Variable sha256 : bytes -> bytes.
  Variable q_conf : nat -> bytes -> option Z.
  Variable q_tx : nat -> bytes -> option bytes.
  Variable q_latest : nat -> option Z.
  Variable q_header : nat -> Z -> option header.
  Variable q_merkle : nat -> bytes -> Z -> option merkle_branch.
  Variable q_cb : nat -> Z -> option bytes.

  Notation assemble := (assemble sha256 q_conf q_tx q_latest q_header q_merkle q_cb).
  Notation headers_loop := (headers_loop q_header).

  (* a branch as an honest server serves it for leaf [x] of a block with header [hd]:
     byte-reversed 32-byte siblings that hash up to the header's root along the bits of the
     position, all of whose bits are consumed *)
  Definition served_branch_valid (depth : nat) (x : bytes) (br : merkle_branch) (hd : header) : Prop :=
    exists sibs : list bytes,
      mb_nodes br = map (fun s => Some (rev s)) sibs /\
      Forall (fun s : bytes => length s = 32%nat) sibs /\
      length sibs = depth /\
      (0 <= mb_pos br)%Z /\
      merkle_fold sha256 x sibs (mb_pos br) = (h_root hd, 0%Z).

  Definition oracle_assumptions (depth : Z -> nat) : Prop :=
    (* hashes in served headers are 32 bytes ([32]byte in Go) *)
    (forall t i hd, q_header t i = Some hd ->
                    length (h_prev hd) = 32%nat /\ length (h_root hd) = 32%nat) /\
    (* the headers served, at any time, for consecutive heights are linked (no reorganisation) *)
    (forall t t' i a b, q_header t i = Some a -> q_header t' (i + 1)%Z = Some b ->
                        h_prev b = sha256d sha256 (ser_header a)) /\
    (* get_merkle(tx, h) succeeds only for a transaction of block h, with a valid branch *)
    (forall t t' x i br hd, q_merkle t x i = Some br -> q_header t' i = Some hd ->
                            served_branch_valid (depth i) x br hd) /\
    (forall t x i br, q_merkle t x i = Some br -> (0 <= i < 2 ^ 63)%Z) /\
    (* the coinbase is the transaction at position 0 *)
    (forall t t' i c br, q_cb t i = Some c -> q_merkle t' c i = Some br -> mb_pos br = 0%Z) /\
    (* GetTransaction(h) returns the transaction whose hash is h *)
    (forall t c ser, q_tx t c = Some ser -> sha256d sha256 ser = c).

  Lemma create_merkle_proof_served : forall sibs,
      create_merkle_proof (map (fun s => Some (rev s)) sibs) = Some (concat sibs).
  Proof.
    induction sibs as [|s r IH]; cbn [map create_merkle_proof concat]; [reflexivity|].
    rewrite IH. cbn [option_map]. rewrite rev_involutive. reflexivity.
  Qed.

  Lemma headers_loop_spec : forall n t i bs,
      headers_loop t i n = Some bs ->
      exists hds, length hds = n /\ bs = concat (map ser_header hds) /\
                  forall k hd, nth_error hds k = Some hd ->
                               q_header (t + k) (i + Z.of_nat k)%Z = Some hd.
  Proof.
    induction n as [|n IH]; intros t i bs H.
    - cbn [C31.headers_loop] in H. injection H as <-. exists []. split; [reflexivity|]. split; [reflexivity|].
      intros k hd Hk. destruct k; discriminate Hk.
    - cbn [C31.headers_loop] in H. destruct (q_header t i) as [hd0|] eqn:Hq; [|discriminate H].
      destruct (headers_loop (S t) (i + 1)%Z n) as [rest|] eqn:Hr; [|discriminate H].
      cbn [option_map] in H. injection H as <-.
      destruct (IH _ _ _ Hr) as (hds & Hlen & Hbs & Hq').
      exists (hd0 :: hds). split; [cbn [length]; lia|]. split; [cbn [map concat]; rewrite Hbs; reflexivity|].
      intros k hd Hk. destruct k as [|k].
      + cbn [nth_error] in Hk. injection Hk as <-. rewrite Nat.add_0_r, Z.add_0_r. exact Hq.
      + cbn [nth_error] in Hk. specialize (Hq' k hd Hk).
        replace (t + S k)%nat with (S t + k)%nat by lia.
        replace (i + Z.of_nat (S k))%Z with (i + 1 + Z.of_nat k)%Z by lia. exact Hq'.
  Qed.

  Lemma linked_served : forall hds t i,
      (forall t t' i a b, q_header t i = Some a -> q_header t' (i + 1)%Z = Some b ->
                          h_prev b = sha256d sha256 (ser_header a)) ->
      (forall k hd, nth_error hds k = Some hd ->
                    q_header (t + k) (i + Z.of_nat k)%Z = Some hd /\ length (h_prev hd) = 32%nat) ->
      linked sha256 (map ser_header hds) = true.
  Proof.
    induction hds as [|a hds IH]; intros t i Hlink Hq; [reflexivity|].
    destruct hds as [|b hds]; [reflexivity|].
    cbn [map linked]. apply andb_true_iff. split.
    - destruct (Hq 0%nat a eq_refl) as [Ha _]. destruct (Hq 1%nat b eq_refl) as [Hb Hbl].
      rewrite hdr_prev_ser by exact Hbl.
      rewrite (Hlink _ _ _ _ _ Ha ltac:(replace (i + Z.of_nat 0 + 1)%Z with (i + Z.of_nat 1)%Z by lia; exact Hb)).
      apply bytes_eqb_refl.
    - apply (IH (S t) (i + 1)%Z Hlink). intros k hd Hk.
      specialize (Hq (S k) hd Hk).
      replace (S t + k)%nat with (t + S k)%nat by lia.
      replace (i + 1 + Z.of_nat k)%Z with (i + Z.of_nat (S k))%Z by lia. exact Hq.
  Qed.

  Lemma merkle_ok_served : forall depth x br hd,
      served_branch_valid depth x br hd ->
      exists mp, create_merkle_proof (mb_nodes br) = Some mp /\
                 length mp = (32 * depth)%nat /\
                 merkle_ok sha256 x mp (mb_pos br) (h_root hd) = true.
  Proof.
    intros depth x br hd (sibs & Hn & HF & Hd & Hp & Hfold).
    exists (concat sibs). split; [rewrite Hn; apply create_merkle_proof_served|].
    pose proof (length_concat_const 32 sibs HF) as Hlen. rewrite Hd in Hlen.
    split; [exact Hlen|].
    unfold merkle_ok. rewrite Hlen.
    replace ((32 * depth) mod 32)%nat with 0%nat by (rewrite Nat.mul_comm, Nat.mod_mul; lia).
    rewrite (chunks_concat 32 sibs ltac:(lia) HF), Hfold.
    cbn [Nat.eqb andb]. rewrite bytes_eqb_refl.
    apply andb_true_iff. split; [apply Z.leb_le; exact Hp | reflexivity].
  Qed.

  (* what "a proof for transaction [x], starting at its block, of the required length" means
     against the served data *)
  Definition proves (x : bytes) (required : Z) (p : proof) : Prop :=
    exists (i : Z) (hds : list header),
      Z.of_nat (length hds) = required /\
      p_headers p = concat (map ser_header hds) /\
      (forall k hd, nth_error hds k = Some hd -> exists t, q_header t (i + Z.of_nat k)%Z = Some hd) /\
      (exists t br, q_merkle t x i = Some br /\ p_index p = mb_pos br).

  Theorem assemble_sound : forall depth t0 x required p,
      oracle_assumptions depth ->
      (1 <= required < 2 ^ 63)%Z ->
      assemble t0 x required = Assembled p ->
      verify sha256 x required p = true /\ proves x required p.
  Proof.
    intros depth t0 x required p (Hlen & Hlink & Hmerkle & Hheight & Hcb & Htx) Hreq H.
    unfold C31.assemble in H.
    destruct (q_conf t0 x) as [conf|]; [|discriminate H].
    destruct (conf <? required)%Z; [discriminate H|].
    destruct (q_tx (t0 + 1) x) as [ser|]; [|discriminate H].
    destruct (q_latest (t0 + 2)) as [latest|]; [|discriminate H].
    set (h := w64 (latest - conf + 1)) in *.
    destruct (get_headers_chain q_header (t0 + 3) h required) as [hdrs|] eqn:Hh; [|discriminate H].
    set (t1 := (t0 + 3 + loop_count h required)%nat) in *.
    destruct (q_merkle t1 x h) as [br|] eqn:Hbr; [|discriminate H].
    destruct (create_merkle_proof (mb_nodes br)) as [mp|] eqn:Hmp; [|discriminate H].
    destruct (q_cb (t1 + 1) h) as [cbh|] eqn:Hcbh; [|discriminate H].
    destruct (q_tx (t1 + 2) cbh) as [cbser|] eqn:Hcbser; [|discriminate H].
    destruct (q_merkle (t1 + 3) cbh h) as [cbr|] eqn:Hcbr; [|discriminate H].
    destruct (create_merkle_proof (mb_nodes cbr)) as [cmp|] eqn:Hcmp; [|discriminate H].
    injection H as <-.
    (* the loop really ran [required] times *)
    pose proof (Hheight _ _ _ _ Hbr) as Hh63.
    assert (Hcount : loop_count h required = Z.to_nat required).
    { unfold loop_count, w64. rewrite Z.mod_small by (unfold two64; lia).
      destruct (h <? h + required)%Z eqn:E; [f_equal; lia | apply Z.ltb_ge in E; lia]. }
    unfold get_headers_chain in Hh. rewrite Hcount in Hh.
    destruct (headers_loop_spec _ _ _ _ Hh) as (hds & Hn & Hbs & Hq).
    destruct hds as [|hd0 hds']; [cbn [length] in Hn; lia|].
    set (hds := hd0 :: hds') in *.
    assert (Hq0 : q_header (t0 + 3 + 0) (h + Z.of_nat 0)%Z = Some hd0) by (apply Hq; reflexivity).
    rewrite Z.add_0_r in Hq0.
    assert (H80 : Forall (fun c : bytes => length c = 80%nat) (map ser_header hds)).
    { apply Forall_forall. intros c Hc. apply in_map_iff in Hc. destruct Hc as (hd & <- & Hin).
      apply In_nth_error in Hin. destruct Hin as [k Hk].
      destruct (Hlen _ _ _ (Hq k hd Hk)) as [L1 L2]. apply ser_header_length; assumption. }
    destruct (Hlen _ _ _ Hq0) as [L1 L2].
    destruct (merkle_ok_served _ _ _ _ (Hmerkle _ _ _ _ _ _ Hbr Hq0)) as (mp' & Hmp' & Hmplen & Hmpok).
    rewrite Hmp in Hmp'. injection Hmp' as <-.
    destruct (merkle_ok_served _ _ _ _ (Hmerkle _ _ _ _ _ _ Hcbr Hq0)) as (cmp' & Hcmp' & Hcmplen & Hcmpok).
    rewrite Hcmp in Hcmp'. injection Hcmp' as <-.
    rewrite (Hcb _ _ _ _ _ Hcbh Hcbr) in Hcmpok.
    split.
    - unfold verify. cbn [p_headers p_merkle p_index p_cb_preimage p_cb_proof].
      rewrite Hbs, (chunks_concat 80 _ ltac:(lia) H80).
      rewrite (length_concat_const 80 _ H80), map_length, Hn.
      assert (E1 : (1 <=? required)%Z = true) by (apply Z.leb_le; lia). rewrite E1.
      assert (E2 : (Z.of_nat (80 * Z.to_nat required) =? 80 * required)%Z = true) by (apply Z.eqb_eq; lia).
      rewrite E2. cbn [andb].
      unfold hds at 1. cbn [map]. fold hds.
      rewrite (hdr_root_ser hd0 L1 L2), Hmpok.
      change (sha256 (sha256 cbser)) with (sha256d sha256 cbser).
      rewrite (Htx _ _ _ Hcbser), Hcmpok, Hmplen, Hcmplen, Nat.eqb_refl. cbn [andb].
      change (ser_header hd0 :: map ser_header hds') with (map ser_header hds).
      apply (linked_served hds (t0 + 3)%nat h Hlink).
      intros k hd Hk. split; [apply Hq; exact Hk|]. destruct (Hlen _ _ _ (Hq k hd Hk)) as [A _]. exact A.
    - exists h, hds. cbn [p_headers p_index].
      split; [rewrite Hn; lia|]. split; [exact Hbs|]. split.
      + intros k hd Hk. exists (t0 + 3 + k)%nat. apply Hq. exact Hk.
      + exists t1, br. split; [exact Hbr | reflexivity].
  Qed.

  (* no proof without enough confirmations (whatever else the server answers) *)
  Theorem assemble_insufficient : forall t0 x required,
      match q_conf t0 x with
      | None => assemble t0 x required = Failed
      | Some conf => (conf < required)%Z -> assemble t0 x required = NotEnoughConfirmations
      end.
  Proof.
    intros t0 x required. unfold C31.assemble. destruct (q_conf t0 x) as [conf|]; [|reflexivity].
    intros Hlt. apply Z.ltb_lt in Hlt. rewrite Hlt. reflexivity.
  Qed.

  Theorem assembled_has_confirmations : forall t0 x required p,
      assemble t0 x required = Assembled p ->
      exists conf, q_conf t0 x = Some conf /\ (required <= conf)%Z.
  Proof.
    intros t0 x required p H. pose proof (assemble_insufficient t0 x required) as Hi.
    destruct (q_conf t0 x) as [conf|]; [|rewrite Hi in H; discriminate H].
    exists conf. split; [reflexivity|].
    destruct (Z_lt_le_dec conf required) as [Hlt|Hle]; [|exact Hle].
    rewrite (Hi Hlt) in H. discriminate H.
  Qed.
End General.
