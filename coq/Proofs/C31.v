(* C31 — proofs about the model of AssembleSpvProof (Model/C31.v). *)
From Coq Require Import ZArith NArith List Bool Lia PeanoNat.
From KV Require Import Common.Verdict Model.C31.
Import ListNotations.

(* ---------- generic list facts ---------- *)
Lemma bytes_eqb_refl : forall a, bytes_eqb a a = true.
Proof. induction a as [|x a IH]; cbn [bytes_eqb]; [reflexivity|]. rewrite N.eqb_refl, IH. reflexivity. Qed.

Lemma bytes_eqb_eq : forall a b, bytes_eqb a b = true -> a = b.
Proof.
  induction a as [|x a IH]; intros [|y b] H; cbn [bytes_eqb] in H; try discriminate; [reflexivity|].
  apply andb_true_iff in H. destruct H as [H1 H2]. apply N.eqb_eq in H1. f_equal; [exact H1 | apply IH; exact H2].
Qed.

Lemma chunks_f_concat : forall k l fuel,
    (0 < k)%nat -> Forall (fun c : bytes => length c = k) l -> (length (concat l) <= fuel)%nat ->
    chunks_f fuel k (concat l) = l.
Proof.
  intros k l. induction l as [|c l IH]; intros fuel Hk HF Hfuel.
  - cbn [concat]. destruct fuel; reflexivity.
  - inversion HF as [|c' l' Hc HF']; subst.
    cbn [concat] in *. rewrite app_length in Hfuel.
    destruct fuel as [|fuel]; [lia|]. cbn [chunks_f].
    destruct (c ++ concat l) eqn:E.
    + apply (f_equal (@length N)) in E. rewrite app_length in E. cbn [length] in E. lia.
    + rewrite <- E.
      rewrite firstn_app, Nat.sub_diag, firstn_all. cbn [firstn]. rewrite app_nil_r.
      rewrite skipn_app, Nat.sub_diag, skipn_all. cbn [skipn app].
      f_equal. apply IH; [exact Hk | exact HF' | lia].
Qed.

Lemma chunks_concat : forall k l,
    (0 < k)%nat -> Forall (fun c : bytes => length c = k) l -> chunks k (concat l) = l.
Proof. intros k l Hk HF. unfold chunks. apply chunks_f_concat; [exact Hk | exact HF | lia]. Qed.

Lemma length_concat_const : forall k (l : list bytes),
    Forall (fun c : bytes => length c = k) l -> length (concat l) = (k * length l)%nat.
Proof.
  intros k l HF. induction HF as [|c l Hc HF IH]; cbn [concat length]; [lia|].
  rewrite app_length, IH, Hc. lia.
Qed.

Lemma le32_length : forall v, length (le32 v) = 4%nat.
Proof. reflexivity. Qed.

Lemma ser_header_length : forall hd,
    length (h_prev hd) = 32%nat -> length (h_root hd) = 32%nat -> length (ser_header hd) = 80%nat.
Proof. intros hd H1 H2. unfold ser_header. rewrite !app_length, !le32_length, H1, H2. reflexivity. Qed.

Lemma firstn_skipn_mid : forall (a m c : bytes) n k,
    length a = n -> length m = k -> firstn k (skipn n (a ++ m ++ c)) = m.
Proof.
  intros a m c n k <- <-.
  rewrite skipn_app, skipn_all, Nat.sub_diag. cbn [skipn app].
  rewrite firstn_app, Nat.sub_diag, firstn_all. cbn [firstn]. apply app_nil_r.
Qed.

Lemma hdr_root_ser : forall hd,
    length (h_prev hd) = 32%nat -> length (h_root hd) = 32%nat -> hdr_root (ser_header hd) = h_root hd.
Proof.
  intros hd H1 H2. unfold hdr_root, ser_header.
  rewrite (app_assoc (le32 (h_version hd)) (h_prev hd)).
  apply firstn_skipn_mid; [rewrite app_length, le32_length, H1; reflexivity | exact H2].
Qed.

Lemma hdr_prev_ser : forall hd,
    length (h_prev hd) = 32%nat -> hdr_prev (ser_header hd) = h_prev hd.
Proof.
  intros hd H1. unfold hdr_prev, ser_header.
  apply firstn_skipn_mid; [apply le32_length | exact H1].
Qed.

Section General.
  Variable sha256 : bytes -> bytes.
  Variable q_conf : nat -> bytes -> option Z.
  Variable q_tx : nat -> bytes -> option bytes.
  Variable q_latest : nat -> option Z.
  Variable q_header : nat -> Z -> option header.
  Variable q_merkle : nat -> bytes -> Z -> option merkle_branch.
  Variable q_cb : nat -> Z -> option bytes.

  Notation assemble := (assemble sha256 q_conf q_tx q_latest q_header q_merkle q_cb).
  Notation headers_loop := (headers_loop q_header).

  (* a branch as an honest server serves it for leaf [x] of a block with header [hd]:
     byte-reversed 32-byte siblings that hash up to the header's root along the bits of the
     position, all of whose bits are consumed *)
  Definition served_branch_valid (depth : nat) (x : bytes) (br : merkle_branch) (hd : header) : Prop :=
    exists sibs : list bytes,
      mb_nodes br = map (fun s => Some (rev s)) sibs /\
      Forall (fun s : bytes => length s = 32%nat) sibs /\
      length sibs = depth /\
      (0 <= mb_pos br)%Z /\
      merkle_fold sha256 x sibs (mb_pos br) = (h_root hd, 0%Z).

  Definition oracle_assumptions (depth : Z -> nat) : Prop :=
    (* hashes in served headers are 32 bytes ([32]byte in Go) *)
    (forall t i hd, q_header t i = Some hd ->
                    length (h_prev hd) = 32%nat /\ length (h_root hd) = 32%nat) /\
    (* the headers served, at any time, for consecutive heights are linked (no reorganisation) *)
    (forall t t' i a b, q_header t i = Some a -> q_header t' (i + 1)%Z = Some b ->
                        h_prev b = sha256d sha256 (ser_header a)) /\
    (* get_merkle(tx, h) succeeds only for a transaction of block h, with a valid branch *)
    (forall t t' x i br hd, q_merkle t x i = Some br -> q_header t' i = Some hd ->
                            served_branch_valid (depth i) x br hd) /\
    (forall t x i br, q_merkle t x i = Some br -> (0 <= i < 2 ^ 63)%Z) /\
    (* the coinbase is the transaction at position 0 *)
    (forall t t' i c br, q_cb t i = Some c -> q_merkle t' c i = Some br -> mb_pos br = 0%Z) /\
    (* GetTransaction(h) returns the transaction whose hash is h *)
    (forall t c ser, q_tx t c = Some ser -> sha256d sha256 ser = c).

  Lemma create_merkle_proof_served : forall sibs,
      create_merkle_proof (map (fun s => Some (rev s)) sibs) = Some (concat sibs).
  Proof.
    induction sibs as [|s r IH]; cbn [map create_merkle_proof concat]; [reflexivity|].
    rewrite IH. cbn [option_map]. rewrite rev_involutive. reflexivity.
  Qed.

  Lemma headers_loop_spec : forall n t i bs,
      headers_loop t i n = Some bs ->
      exists hds, length hds = n /\ bs = concat (map ser_header hds) /\
                  forall k hd, nth_error hds k = Some hd ->
                               q_header (t + k) (i + Z.of_nat k)%Z = Some hd.
  Proof.
    induction n as [|n IH]; intros t i bs H.
    - cbn [C31.headers_loop] in H. injection H as <-. exists []. split; [reflexivity|]. split; [reflexivity|].
      intros k hd Hk. destruct k; discriminate Hk.
    - cbn [C31.headers_loop] in H. destruct (q_header t i) as [hd0|] eqn:Hq; [|discriminate H].
      destruct (headers_loop (S t) (i + 1)%Z n) as [rest|] eqn:Hr; [|discriminate H].
      cbn [option_map] in H. injection H as <-.
      destruct (IH _ _ _ Hr) as (hds & Hlen & Hbs & Hq').
      exists (hd0 :: hds). split; [cbn [length]; lia|]. split; [cbn [map concat]; rewrite Hbs; reflexivity|].
      intros k hd Hk. destruct k as [|k].
      + cbn [nth_error] in Hk. injection Hk as <-. rewrite Nat.add_0_r, Z.add_0_r. exact Hq.
      + cbn [nth_error] in Hk. specialize (Hq' k hd Hk).
        replace (t + S k)%nat with (S t + k)%nat by lia.
        replace (i + Z.of_nat (S k))%Z with (i + 1 + Z.of_nat k)%Z by lia. exact Hq'.
  Qed.

  Lemma linked_served : forall hds t i,
      (forall t t' i a b, q_header t i = Some a -> q_header t' (i + 1)%Z = Some b ->
                          h_prev b = sha256d sha256 (ser_header a)) ->
      (forall k hd, nth_error hds k = Some hd ->
                    q_header (t + k) (i + Z.of_nat k)%Z = Some hd /\ length (h_prev hd) = 32%nat) ->
      linked sha256 (map ser_header hds) = true.
  Proof.
    induction hds as [|a hds IH]; intros t i Hlink Hq; [reflexivity|].
    destruct hds as [|b hds]; [reflexivity|].
    cbn [map linked]. apply andb_true_iff. split.
    - destruct (Hq 0%nat a eq_refl) as [Ha _]. destruct (Hq 1%nat b eq_refl) as [Hb Hbl].
      rewrite hdr_prev_ser by exact Hbl.
      rewrite (Hlink _ _ _ _ _ Ha ltac:(replace (i + Z.of_nat 0 + 1)%Z with (i + Z.of_nat 1)%Z by lia; exact Hb)).
      apply bytes_eqb_refl.
    - apply (IH (S t) (i + 1)%Z Hlink). intros k hd Hk.
      specialize (Hq (S k) hd Hk).
      replace (S t + k)%nat with (t + S k)%nat by lia.
      replace (i + 1 + Z.of_nat k)%Z with (i + Z.of_nat (S k))%Z by lia. exact Hq.
  Qed.

  Lemma merkle_ok_served : forall depth x br hd,
      served_branch_valid depth x br hd ->
      exists mp, create_merkle_proof (mb_nodes br) = Some mp /\
                 length mp = (32 * depth)%nat /\
                 merkle_ok sha256 x mp (mb_pos br) (h_root hd) = true.
  Proof.
    intros depth x br hd (sibs & Hn & HF & Hd & Hp & Hfold).
    exists (concat sibs). split; [rewrite Hn; apply create_merkle_proof_served|].
    pose proof (length_concat_const 32 sibs HF) as Hlen. rewrite Hd in Hlen.
    split; [exact Hlen|].
    unfold merkle_ok. rewrite Hlen.
    replace ((32 * depth) mod 32)%nat with 0%nat by (rewrite Nat.mul_comm, Nat.mod_mul; lia).
    rewrite (chunks_concat 32 sibs ltac:(lia) HF), Hfold.
    cbn [Nat.eqb andb]. rewrite bytes_eqb_refl.
    apply andb_true_iff. split; [apply Z.leb_le; exact Hp | reflexivity].
  Qed.

  (* what "a proof for transaction [x], starting at its block, of the required length" means
     against the served data *)
  Definition proves (x : bytes) (required : Z) (p : proof) : Prop :=
    exists (i : Z) (hds : list header),
      Z.of_nat (length hds) = required /\
      p_headers p = concat (map ser_header hds) /\
      (forall k hd, nth_error hds k = Some hd -> exists t, q_header t (i + Z.of_nat k)%Z = Some hd) /\
      (exists t br, q_merkle t x i = Some br /\ p_index p = mb_pos br).

  Theorem assemble_sound : forall depth t0 x required p,
      oracle_assumptions depth ->
      (1 <= required < 2 ^ 63)%Z ->
      assemble t0 x required = Assembled p ->
      verify sha256 x required p = true /\ proves x required p.
  Proof.
    intros depth t0 x required p (Hlen & Hlink & Hmerkle & Hheight & Hcb & Htx) Hreq H.
    unfold C31.assemble in H.
    destruct (q_conf t0 x) as [conf|]; [|discriminate H].
    destruct (conf <? required)%Z; [discriminate H|].
    destruct (q_tx (t0 + 1) x) as [ser|]; [|discriminate H].
    destruct (q_latest (t0 + 2)) as [latest|]; [|discriminate H].
    set (h := w64 (latest - conf + 1)) in *.
    destruct (get_headers_chain q_header (t0 + 3) h required) as [hdrs|] eqn:Hh; [|discriminate H].
    set (t1 := (t0 + 3 + loop_count h required)%nat) in *.
    destruct (q_merkle t1 x h) as [br|] eqn:Hbr; [|discriminate H].
    destruct (create_merkle_proof (mb_nodes br)) as [mp|] eqn:Hmp; [|discriminate H].
    destruct (q_cb (t1 + 1) h) as [cbh|] eqn:Hcbh; [|discriminate H].
    destruct (q_tx (t1 + 2) cbh) as [cbser|] eqn:Hcbser; [|discriminate H].
    destruct (q_merkle (t1 + 3) cbh h) as [cbr|] eqn:Hcbr; [|discriminate H].
    destruct (create_merkle_proof (mb_nodes cbr)) as [cmp|] eqn:Hcmp; [|discriminate H].
    injection H as <-.
    (* the loop really ran [required] times *)
    pose proof (Hheight _ _ _ _ Hbr) as Hh63.
    assert (Hcount : loop_count h required = Z.to_nat required).
    { unfold loop_count, w64. rewrite Z.mod_small by (unfold two64; lia).
      destruct (h <? h + required)%Z eqn:E; [f_equal; lia | apply Z.ltb_ge in E; lia]. }
    unfold get_headers_chain in Hh. rewrite Hcount in Hh.
    destruct (headers_loop_spec _ _ _ _ Hh) as (hds & Hn & Hbs & Hq).
    destruct hds as [|hd0 hds']; [cbn [length] in Hn; lia|].
    set (hds := hd0 :: hds') in *.
    assert (Hq0 : q_header (t0 + 3 + 0) (h + Z.of_nat 0)%Z = Some hd0) by (apply Hq; reflexivity).
    rewrite Z.add_0_r in Hq0.
    assert (H80 : Forall (fun c : bytes => length c = 80%nat) (map ser_header hds)).
    { apply Forall_forall. intros c Hc. apply in_map_iff in Hc. destruct Hc as (hd & <- & Hin).
      apply In_nth_error in Hin. destruct Hin as [k Hk].
      destruct (Hlen _ _ _ (Hq k hd Hk)) as [L1 L2]. apply ser_header_length; assumption. }
    destruct (Hlen _ _ _ Hq0) as [L1 L2].
    destruct (merkle_ok_served _ _ _ _ (Hmerkle _ _ _ _ _ _ Hbr Hq0)) as (mp' & Hmp' & Hmplen & Hmpok).
    rewrite Hmp in Hmp'. injection Hmp' as <-.
    destruct (merkle_ok_served _ _ _ _ (Hmerkle _ _ _ _ _ _ Hcbr Hq0)) as (cmp' & Hcmp' & Hcmplen & Hcmpok).
    rewrite Hcmp in Hcmp'. injection Hcmp' as <-.
    rewrite (Hcb _ _ _ _ _ Hcbh Hcbr) in Hcmpok.
    split.
    - unfold verify. cbn [p_headers p_merkle p_index p_cb_preimage p_cb_proof].
      rewrite Hbs, (chunks_concat 80 _ ltac:(lia) H80).
      rewrite (length_concat_const 80 _ H80), map_length, Hn.
      assert (E1 : (1 <=? required)%Z = true) by (apply Z.leb_le; lia). rewrite E1.
      assert (E2 : (Z.of_nat (80 * Z.to_nat required) =? 80 * required)%Z = true) by (apply Z.eqb_eq; lia).
      rewrite E2. cbn [andb].
      unfold hds at 1. cbn [map]. fold hds.
      rewrite (hdr_root_ser hd0 L1 L2), Hmpok.
      change (sha256 (sha256 cbser)) with (sha256d sha256 cbser).
      rewrite (Htx _ _ _ Hcbser), Hcmpok, Hmplen, Hcmplen, Nat.eqb_refl. cbn [andb].
      change (ser_header hd0 :: map ser_header hds') with (map ser_header hds).
      apply (linked_served hds (t0 + 3)%nat h Hlink).
      intros k hd Hk. split; [apply Hq; exact Hk|]. destruct (Hlen _ _ _ (Hq k hd Hk)) as [A _]. exact A.
    - exists h, hds. cbn [p_headers p_index].
      split; [rewrite Hn; lia|]. split; [exact Hbs|]. split.
      + intros k hd Hk. exists (t0 + 3 + k)%nat. apply Hq. exact Hk.
      + exists t1, br. split; [exact Hbr | reflexivity].
  Qed.

  (* no proof without enough confirmations (whatever else the server answers) *)
  Theorem assemble_insufficient : forall t0 x required,
      match q_conf t0 x with
      | None => assemble t0 x required = Failed
      | Some conf => (conf < required)%Z -> assemble t0 x required = NotEnoughConfirmations
      end.
  Proof.
    intros t0 x required. unfold C31.assemble. destruct (q_conf t0 x) as [conf|]; [|reflexivity].
    intros Hlt. apply Z.ltb_lt in Hlt. rewrite Hlt. reflexivity.
  Qed.

  Theorem assembled_has_confirmations : forall t0 x required p,
      assemble t0 x required = Assembled p ->
      exists conf, q_conf t0 x = Some conf /\ (required <= conf)%Z.
  Proof.
    intros t0 x required p H. pose proof (assemble_insufficient t0 x required) as Hi.
    destruct (q_conf t0 x) as [conf|]; [|rewrite Hi in H; discriminate H].
    exists conf. split; [reflexivity|].
    destruct (Z_lt_le_dec conf required) as [Hlt|Hle]; [|exact Hle].
    rewrite (Hi Hlt) in H. discriminate H.
  Qed.
End General.

(* ====================================================================================== *)
(* The honest server over a growing chain satisfies the oracle assumptions.                *)
(* ====================================================================================== *)
Ltac Zify.zify_post_hook ::= Z.div_mod_to_equations.

Lemma zparity_nat : forall p, Z.odd (Z.of_nat p) = Nat.odd p /\ Z.even (Z.of_nat p) = Nat.even p.
Proof.
  induction p as [|p [IH1 IH2]]; [split; reflexivity|].
  rewrite Nat2Z.inj_succ, Z.odd_succ, Z.even_succ, Nat.odd_succ, Nat.even_succ. split; assumption.
Qed.

Lemma nth_error_firstn_some : forall (A : Type) (l : list A) n k x,
    nth_error (firstn n l) k = Some x -> nth_error l k = Some x.
Proof.
  intros A l. induction l as [|a l IH]; intros n k x H.
  - rewrite firstn_nil in H. destruct k; discriminate H.
  - destruct n as [|n]; [destruct k; discriminate H|].
    destruct k as [|k]; cbn [firstn nth_error] in *; [exact H | eapply IH; exact H].
Qed.

Section HonestProofs.
  Variable sha256 : bytes -> bytes.
  Hypothesis Hsha : forall b, length (sha256 b) = 32%nat.

  Notation node := (node sha256).
  Notation pair_up := (pair_up sha256).
  Notation root_f := (root_f sha256).
  Notation branch_f := (branch_f sha256).
  Notation merkle_fold := (merkle_fold sha256).
  Notation merkle_step := (merkle_step sha256).

  Definition len32 (b : bytes) : Prop := length b = 32%nat.

  Lemma node_len : forall a b, len32 (node a b).
  Proof. intros a b. unfold len32, C31.node, sha256d. apply Hsha. Qed.

  (* ---------- the Merkle tree ---------- *)
  Lemma pair_up_length : forall n l, (length l <= n)%nat -> length (pair_up l) = Nat.div2 (S (length l)).
  Proof.
    induction n as [|n IH]; intros l Hl.
    - destruct l; [reflexivity | cbn [length] in Hl; lia].
    - destruct l as [|a [|b t]]; [reflexivity | reflexivity |].
      cbn [C31.pair_up length]. rewrite (IH t) by (cbn [length] in Hl; lia). reflexivity.
  Qed.

  Lemma pair_up_len32 : forall n l, (length l <= n)%nat -> Forall len32 (pair_up l).
  Proof.
    induction n as [|n IH]; intros l Hl.
    - destruct l; [constructor | cbn [length] in Hl; lia].
    - destruct l as [|a [|b t]]; [constructor | constructor; [apply node_len | constructor] |].
      cbn [C31.pair_up]. constructor; [apply node_len|]. apply IH. cbn [length] in Hl. lia.
  Qed.

  Lemma sibling_SS : forall p a b t, sibling (S (S p)) (a :: b :: t) = sibling p t.
  Proof.
    intros p a b t. unfold sibling. rewrite Nat.even_succ_succ.
    destruct (Nat.even p) eqn:E.
    - replace (S (S p) + 1)%nat with (S (S (p + 1))) by lia. reflexivity.
    - destruct p as [|p]; [discriminate E|].
      replace (S (S (S p)) - 1)%nat with (S (S p)) by lia.
      replace (S p - 1)%nat with p by lia. reflexivity.
  Qed.

  Lemma pair_up_nth : forall n l p,
      (length l <= n)%nat -> (p < length l)%nat ->
      nth (Nat.div2 p) (pair_up l) [] = merkle_step (nth p l []) (sibling p l) (Z.of_nat p).
  Proof.
    induction n as [|n IH]; intros l p Hl Hp; [lia|].
    destruct l as [|a [|b t]]; [cbn [length] in Hp; lia | |].
    - cbn [length] in Hp. assert (p = 0)%nat by lia. subst p. reflexivity.
    - destruct p as [|[|p]]; [reflexivity | reflexivity |].
      cbn [Nat.div2 C31.pair_up]. cbn [nth]. rewrite sibling_SS.
      rewrite (IH t p) by (cbn [length] in *; lia).
      unfold C31.merkle_step.
      destruct (zparity_nat (S (S p))) as [E1 _]. destruct (zparity_nat p) as [E2 _].
      rewrite E1, E2, Nat.odd_succ_succ. reflexivity.
  Qed.

  Lemma sibling_In : forall p l, (p < length l)%nat -> In (sibling p l) l.
  Proof.
    intros p l Hp. unfold sibling. destruct (Nat.even p) eqn:E.
    - destruct (Nat.lt_ge_cases (p + 1) (length l)) as [H | H].
      + apply nth_In. exact H.
      + rewrite nth_overflow by exact H. apply nth_In. exact Hp.
    - apply nth_In. lia.
  Qed.

  Lemma div2_lt : forall p n, (p < n)%nat -> (Nat.div2 p < Nat.div2 (S n))%nat.
  Proof.
    intros p n H. pose proof (Nat.div2_odd p) as A. pose proof (Nat.div2_odd (S n)) as B.
    destruct (Nat.odd p); destruct (Nat.odd (S n)); cbn [Nat.b2n] in *; lia.
  Qed.

  Lemma div2_S_lt : forall n, (2 <= n)%nat -> (Nat.div2 (S n) < n)%nat.
  Proof.
    intros n H. pose proof (Nat.div2_odd (S n)) as B.
    destruct (Nat.odd (S n)); cbn [Nat.b2n] in *; lia.
  Qed.

  Lemma branch_fold : forall fuel (l : list bytes) p,
      (p < length l)%nat -> (length l <= fuel)%nat ->
      merkle_fold (nth p l []) (branch_f fuel p l) (Z.of_nat p) = (root_f fuel l, 0%Z).
  Proof.
    induction fuel as [|fuel IH]; intros l p Hp Hl; [lia|].
    destruct l as [|a [|b t]]; [cbn [length] in Hp; lia | |].
    - cbn [length] in Hp. assert (p = 0)%nat by lia. subst p. reflexivity.
    - set (l := a :: b :: t) in *.
      change (branch_f (S fuel) p l) with (sibling p l :: branch_f fuel (Nat.div2 p) (pair_up l)).
      change (root_f (S fuel) l) with (root_f fuel (pair_up l)).
      cbn [C31.merkle_fold].
      rewrite <- (pair_up_nth (length l) l p (le_n _) Hp).
      replace (Z.of_nat p / 2)%Z with (Z.of_nat (Nat.div2 p))
        by (rewrite Nat.div2_div, Nat2Z.inj_div; reflexivity).
      assert (Hlen : length (pair_up l) = Nat.div2 (S (length l))) by (apply (pair_up_length (length l)); lia).
      assert (2 <= length l)%nat by (unfold l; cbn [length]; lia).
      apply IH.
      + rewrite Hlen. apply div2_lt. exact Hp.
      + rewrite Hlen. pose proof (div2_S_lt (length l) ltac:(assumption)). lia.
  Qed.

  Lemma branch_f_length : forall fuel l p q, length (branch_f fuel p l) = length (branch_f fuel q l).
  Proof.
    induction fuel as [|fuel IH]; intros l p q.
    - destruct l as [|a [|b t]]; reflexivity.
    - destruct l as [|a [|b t]]; [reflexivity | reflexivity |].
      set (l := a :: b :: t).
      change (branch_f (S fuel) p l) with (sibling p l :: branch_f fuel (Nat.div2 p) (pair_up l)).
      change (branch_f (S fuel) q l) with (sibling q l :: branch_f fuel (Nat.div2 q) (pair_up l)).
      cbn [length]. f_equal. apply IH.
  Qed.

  Lemma branch_f_len32 : forall fuel l p,
      Forall len32 l -> (p < length l)%nat -> Forall len32 (branch_f fuel p l).
  Proof.
    induction fuel as [|fuel IH]; intros l p HF Hp.
    - destruct l as [|a [|b t]]; constructor.
    - destruct l as [|a [|b t]]; [constructor | constructor |].
      set (l := a :: b :: t) in *.
      change (branch_f (S fuel) p l) with (sibling p l :: branch_f fuel (Nat.div2 p) (pair_up l)).
      constructor.
      + rewrite Forall_forall in HF. apply HF. apply sibling_In. exact Hp.
      + apply IH; [apply (pair_up_len32 (length l)); lia|].
        rewrite (pair_up_length (length l)) by lia. apply div2_lt. exact Hp.
  Qed.

  Lemma root_f_len32 : forall fuel l,
      Forall len32 l -> l <> [] -> (length l <= fuel)%nat -> len32 (root_f fuel l).
  Proof.
    induction fuel as [|fuel IH]; intros l HF Hne Hl.
    - destruct l; [contradiction | cbn [length] in Hl; lia].
    - destruct l as [|a [|b t]]; [contradiction | inversion HF; assumption |].
      set (l := a :: b :: t) in *.
      change (root_f (S fuel) l) with (root_f fuel (pair_up l)).
      assert (Hlen : length (pair_up l) = Nat.div2 (S (length l))) by (apply (pair_up_length (length l)); lia).
      assert (2 <= length l)%nat by (unfold l; cbn [length]; lia).
      apply IH.
      + apply (pair_up_len32 (length l)). lia.
      + unfold l. cbn [C31.pair_up]. discriminate.
      + rewrite Hlen. pose proof (div2_S_lt (length l) ltac:(assumption)). lia.
  Qed.

  (* ---------- index_of / find_tx ---------- *)
  Lemma index_of_spec : forall x (l : list bytes) p,
      index_of x l = Some p -> (p < length l)%nat /\ nth p l [] = x /\ nth_error l p = Some x.
  Proof.
    intros x l. induction l as [|y l IH]; intros p H; [discriminate H|].
    cbn [index_of] in H. destruct (bytes_eqb x y) eqn:E.
    - injection H as <-. apply bytes_eqb_eq in E. subst y. cbn [length nth nth_error]. repeat split. lia.
    - destruct (index_of x l) as [q|] eqn:Hq; [|discriminate H]. cbn [option_map] in H. injection H as <-.
      destruct (IH q eq_refl) as (A & B & C). cbn [length nth nth_error]. repeat split; [lia | exact B | exact C].
  Qed.

  Lemma index_of_head : forall x l p, nth_error l 0 = Some x -> index_of x l = Some p -> p = 0%nat.
  Proof.
    intros x [|y l] p H1 H2; [discriminate H1|]. cbn [nth_error] in H1. injection H1 as ->.
    cbn [index_of] in H2. rewrite bytes_eqb_refl in H2. injection H2 as <-. reflexivity.
  Qed.

  Lemma find_tx_spec : forall x c h p,
      find_tx x c = Some (h, p) -> exists b, nth_error c h = Some b /\ index_of x (b_ids b) = Some p.
  Proof.
    intros x c. induction c as [|b c IH]; intros h p H; [discriminate H|].
    cbn [find_tx] in H. destruct (index_of x (b_ids b)) as [q|] eqn:Hq.
    - injection H as <- <-. exists b. split; [reflexivity | exact Hq].
    - destruct (find_tx x c) as [[h' p']|] eqn:Hf; [|discriminate H]. cbn [option_map fst snd] in H.
      injection H as <- <-. destruct (IH h' p' eq_refl) as (b' & A & B). exists b'. split; assumption.
  Qed.

  (* ---------- the chain built from raw blocks ---------- *)
  Definition block_ok (b : block) : Prop :=
    b_ids b = map (sha256d sha256) (b_sers b) /\ b_ids b <> [] /\
    h_root (b_hdr b) = merkle_root sha256 (b_ids b) /\ len32 (h_prev (b_hdr b)).

  Lemma build_spec : forall rs prev,
      len32 prev -> Forall (fun rb => rb_txs rb <> []) rs ->
      (forall k b, nth_error (build sha256 prev rs) k = Some b -> block_ok b) /\
      (forall k a b, nth_error (build sha256 prev rs) k = Some a ->
                     nth_error (build sha256 prev rs) (S k) = Some b ->
                     h_prev (b_hdr b) = sha256d sha256 (ser_header (b_hdr a))).
  Proof.
    induction rs as [|rb rs IH]; intros prev Hprev HF.
    - split; intros k; destruct k; discriminate.
    - inversion HF as [|rb' rs' Hne HF']; subst.
      cbn [build].
      set (hd := {| h_version := rb_version rb; h_prev := prev;
                    h_root := merkle_root sha256 (map (sha256d sha256) (rb_txs rb));
                    h_time := rb_time rb; h_bits := rb_bits rb; h_nonce := rb_nonce rb |}).
      assert (Hnext : len32 (sha256d sha256 (ser_header hd))) by (unfold len32, sha256d; apply Hsha).
      destruct (IH _ Hnext HF') as [IH1 IH2].
      split.
      + intros k b Hk. destruct k as [|k]; [|eapply IH1; exact Hk].
        cbn [nth_error] in Hk. injection Hk as <-. unfold block_ok. cbn [b_ids b_sers b_hdr h_root h_prev].
        repeat split; try exact Hprev.
        destruct (rb_txs rb); [contradiction | discriminate].
      + intros k a b Ha Hb. destruct k as [|k]; [|eapply IH2; [exact Ha | exact Hb]].
        cbn [nth_error] in Ha, Hb. injection Ha as <-. cbn [b_hdr].
        destruct rs as [|rb2 rs]; [discriminate Hb|]. cbn [build nth_error] in Hb. injection Hb as <-.
        reflexivity.
  Qed.

  Lemma build_length : forall rs prev, length (build sha256 prev rs) = length rs.
  Proof. induction rs as [|rb rs IH]; intros pv; [reflexivity|]. cbn [build length]. f_equal. apply IH. Qed.

  Section Oracle.
    Variable prev0 : bytes.
    Variable raws : list raw_block.
    Variable vis : nat -> nat.
    Hypothesis Hprev0 : len32 prev0.
    Hypothesis Hraws : Forall (fun rb => rb_txs rb <> []) raws.
    Hypothesis Hshort : (Z.of_nat (length raws) < 2 ^ 63)%Z.

    Let chain := build sha256 prev0 raws.

    Lemma chain_length : length chain = length raws.
    Proof. apply build_length. Qed.

    Lemma block_at_spec : forall t i b,
        block_at chain vis t i = Some b ->
        (0 <= i < 2 ^ 63)%Z /\ nth_error chain (Z.to_nat i) = Some b.
    Proof.
      intros t i b H. unfold block_at in H. destruct (i <? 0)%Z eqn:E; [discriminate H|].
      apply Z.ltb_ge in E. unfold view in H. apply nth_error_firstn_some in H.
      split; [|exact H].
      assert (Z.to_nat i < length chain)%nat by (apply nth_error_Some; rewrite H; discriminate).
      rewrite chain_length in *. lia.
    Qed.

    Definition depth_of (i : Z) : nat :=
      match nth_error chain (Z.to_nat i) with
      | Some b => length (branch sha256 0 (b_ids b))
      | None => 0
      end.

    Lemma ids_len32 : forall b, block_ok b -> Forall len32 (b_ids b).
    Proof.
      intros b (Hids & _). rewrite Hids. apply Forall_forall. intros y Hy.
      apply in_map_iff in Hy. destruct Hy as (s & <- & _). unfold len32, sha256d. apply Hsha.
    Qed.

    Theorem honest_oracle_ok :
      oracle_assumptions sha256 (hq_tx chain vis) (hq_header chain vis) (hq_merkle sha256 chain vis)
                         (hq_cb chain vis) depth_of.
    Proof.
      destruct (build_spec raws prev0 Hprev0 Hraws) as [Bok Blink]. fold chain in Bok, Blink.
      unfold oracle_assumptions. repeat split.
      - (* lengths, prev *)
        unfold hq_header in H. destruct (block_at chain vis t i) as [b|] eqn:Hb; [|discriminate H].
        cbn [option_map] in H. injection H as <-. destruct (block_at_spec _ _ _ Hb) as [_ Hn].
        destruct (Bok _ _ Hn) as (_ & _ & _ & P). exact P.
      - (* lengths, root *)
        unfold hq_header in H. destruct (block_at chain vis t i) as [b|] eqn:Hb; [|discriminate H].
        cbn [option_map] in H. injection H as <-. destruct (block_at_spec _ _ _ Hb) as [_ Hn].
        pose proof (Bok _ _ Hn) as Hok. destruct Hok as (Hids & Hne & Hroot & _).
        rewrite Hroot. apply root_f_len32; [apply ids_len32; exact (Bok _ _ Hn) | exact Hne | lia].
      - (* linkage *)
        intros t t' i a b Ha Hb. unfold hq_header in Ha, Hb.
        destruct (block_at chain vis t i) as [ba|] eqn:Hba; [|discriminate Ha].
        destruct (block_at chain vis t' (i + 1)) as [bb|] eqn:Hbb; [|discriminate Hb].
        cbn [option_map] in Ha, Hb. injection Ha as <-. injection Hb as <-.
        destruct (block_at_spec _ _ _ Hba) as [Hi Hna]. destruct (block_at_spec _ _ _ Hbb) as [_ Hnb].
        replace (Z.to_nat (i + 1)) with (S (Z.to_nat i)) in Hnb by lia.
        exact (Blink _ _ _ Hna Hnb).
      - (* merkle branches *)
        intros t t' x i br hd Hm Hh. unfold hq_merkle in Hm. unfold hq_header in Hh.
        destruct (block_at chain vis t i) as [b|] eqn:Hb; [|discriminate Hm].
        destruct (block_at chain vis t' i) as [b'|] eqn:Hb'; [|discriminate Hh].
        cbn [option_map] in Hh. injection Hh as <-.
        destruct (block_at_spec _ _ _ Hb) as [Hi Hn]. destruct (block_at_spec _ _ _ Hb') as [_ Hn'].
        rewrite Hn in Hn'. injection Hn' as <-.
        destruct (index_of x (b_ids b)) as [p|] eqn:Hp; [|discriminate Hm]. injection Hm as <-.
        destruct (index_of_spec _ _ _ Hp) as (Hlt & Hnth & _).
        pose proof (Bok _ _ Hn) as Hok. pose proof (ids_len32 b Hok) as Hids32.
        destruct Hok as (_ & _ & Hroot & _).
        exists (branch sha256 p (b_ids b)). cbn [mb_nodes mb_pos].
        split; [reflexivity|]. split; [apply branch_f_len32; assumption|].
        split; [unfold depth_of; rewrite Hn; apply branch_f_length|].
        split; [lia|].
        rewrite Hroot. rewrite <- Hnth at 1. apply branch_fold; [exact Hlt | lia].
      - unfold hq_merkle in H. destruct (block_at chain vis t i) as [b|] eqn:Hb; [|discriminate H].
        destruct (block_at_spec _ _ _ Hb) as [Hi _]. lia.
      - unfold hq_merkle in H. destruct (block_at chain vis t i) as [b|] eqn:Hb; [|discriminate H].
        destruct (block_at_spec _ _ _ Hb) as [Hi _]. lia.
      - (* coinbase position *)
        intros t t' i c br Hc Hm. unfold hq_cb in Hc. unfold hq_merkle in Hm.
        destruct (block_at chain vis t i) as [b|] eqn:Hb; [|discriminate Hc].
        destruct (block_at chain vis t' i) as [b'|] eqn:Hb'; [|discriminate Hm].
        destruct (block_at_spec _ _ _ Hb) as [_ Hn]. destruct (block_at_spec _ _ _ Hb') as [_ Hn'].
        rewrite Hn in Hn'. injection Hn' as <-.
        destruct (index_of c (b_ids b)) as [p|] eqn:Hp; [|discriminate Hm]. injection Hm as <-.
        cbn [mb_pos]. rewrite (index_of_head _ _ _ Hc Hp). reflexivity.
      - (* GetTransaction *)
        intros t c ser H. unfold hq_tx in H.
        destruct (find_tx c (view chain vis t)) as [[h p]|] eqn:Hf; [|discriminate H].
        destruct (find_tx_spec _ _ _ _ Hf) as (b & Hnb & Hidx).
        rewrite Hnb in H. unfold view in Hnb. apply nth_error_firstn_some in Hnb.
        destruct (Bok _ _ Hnb) as (Hids & _).
        destruct (index_of_spec _ _ _ Hidx) as (_ & _ & Hne).
        rewrite Hids in Hne. rewrite nth_error_map, H in Hne. cbn [option_map] in Hne.
        injection Hne as ->. reflexivity.
    Qed.

    (* every proof assembled against the honest server, for ANY visibility schedule (in
       particular for every way the chain grows between the queries), is accepted and starts
       at the block that contains the transaction at the stated position *)
    Theorem honest_assemble_sound : forall t0 x required p,
        (1 <= required < 2 ^ 63)%Z ->
        honest_assemble sha256 chain vis t0 x required = Assembled p ->
        verify sha256 x required p = true /\
        exists (i : Z) (b : block) (rest : bytes),
          nth_error chain (Z.to_nat i) = Some b /\ (0 <= i)%Z /\
          nth_error (b_ids b) (Z.to_nat (p_index p)) = Some x /\
          p_headers p = ser_header (b_hdr b) ++ rest.
    Proof.
      intros t0 x required p Hreq H.
      destruct (assemble_sound sha256 _ _ _ _ _ _ depth_of t0 x required p honest_oracle_ok Hreq H)
        as [Hv (i & hds & Hn & Hbs & Hq & (t & br & Hm & Hidx))].
      split; [exact Hv|].
      unfold hq_merkle in Hm. destruct (block_at chain vis t i) as [b|] eqn:Hb; [|discriminate Hm].
      destruct (block_at_spec _ _ _ Hb) as [Hi Hnb].
      destruct (index_of x (b_ids b)) as [pos|] eqn:Hp; [|discriminate Hm]. injection Hm as <-.
      cbn [mb_pos] in Hidx. destruct (index_of_spec _ _ _ Hp) as (_ & _ & Hne).
      destruct hds as [|hd0 hds']; [cbn [length] in Hn; lia|].
      destruct (Hq 0%nat hd0 eq_refl) as [t' Hq0]. rewrite Z.add_0_r in Hq0.
      unfold hq_header in Hq0. destruct (block_at chain vis t' i) as [b'|] eqn:Hb'; [|discriminate Hq0].
      cbn [option_map] in Hq0. injection Hq0 as <-.
      destruct (block_at_spec _ _ _ Hb') as [_ Hnb']. rewrite Hnb in Hnb'. injection Hnb' as <-.
      exists i, b, (concat (map ser_header hds')).
      split; [exact Hnb|]. split; [lia|]. split; [rewrite Hidx, Nat2Z.id; exact Hne|].
      rewrite Hbs. reflexivity.
    Qed.
  End Oracle.
End HonestProofs.

(* ---------- the hypotheses are satisfiable and assembly does succeed ---------- *)
Example example_case : case :=
  {| c_sizes := [1; 3; 4; 7; 2; 1; 5; 6; 2; 2]%N; c_vis0 := 8%N; c_growth := [0; 0; 0; 1]%N;
     c_tx := Some (3, 6)%N; c_required := 4%Z;
     c_obs := OAssembled 96 6 320 96; c_go_verify := true |}.
Example example_assembles :
  Concrete.explain example_case = (OAssembled 96 6 320 96, true) /\ Concrete.judge example_case = Agree.
Proof. vm_compute. split; reflexivity. Qed.

(* ---------- the executable verifier means what it says ---------- *)
Fixpoint linked_prop (sha256 : bytes -> bytes) (hs : list bytes) : Prop :=
  match hs with
  | a :: (b :: _) as t => hdr_prev b = sha256d sha256 a /\ linked_prop sha256 t
  | _ => True
  end.

Lemma linked_sound : forall sha256 hs, linked sha256 hs = true -> linked_prop sha256 hs.
Proof.
  intros sha256 hs. induction hs as [|a hs IH]; intros H; [exact I|].
  destruct hs as [|b hs]; [exact I|]. cbn [linked] in H. apply andb_true_iff in H. destruct H as [H1 H2].
  cbn [linked_prop]. split; [apply bytes_eqb_eq; exact H1 | apply IH; exact H2].
Qed.

Lemma merkle_ok_sound : forall sha256 leaf pb idx root,
    merkle_ok sha256 leaf pb idx root = true ->
    (0 <= idx)%Z /\ merkle_fold sha256 leaf (chunks 32 pb) idx = (root, 0%Z).
Proof.
  intros sha256 leaf pb idx root H. unfold merkle_ok in H.
  apply andb_true_iff in H. destruct H as [H H3]. apply andb_true_iff in H. destruct H as [_ H2].
  apply Z.leb_le in H2. split; [exact H2|].
  destruct (merkle_fold sha256 leaf (chunks 32 pb) idx) as [r rest].
  apply andb_true_iff in H3. destruct H3 as [A B]. apply bytes_eqb_eq in A. apply Z.eqb_eq in B.
  subst. reflexivity.
Qed.

Theorem verify_sound : forall sha256 x required p,
    verify sha256 x required p = true ->
    (1 <= required)%Z /\ Z.of_nat (length (p_headers p)) = (80 * required)%Z /\
    exists h0 rest,
      chunks 80 (p_headers p) = h0 :: rest /\
      (0 <= p_index p)%Z /\
      merkle_fold sha256 x (chunks 32 (p_merkle p)) (p_index p) = (hdr_root h0, 0%Z) /\
      merkle_fold sha256 (sha256 (p_cb_preimage p)) (chunks 32 (p_cb_proof p)) 0 = (hdr_root h0, 0%Z) /\
      length (p_merkle p) = length (p_cb_proof p) /\
      linked_prop sha256 (h0 :: rest).
Proof.
  intros sha256 x required p H. unfold verify in H.
  apply andb_true_iff in H. destruct H as [H H3]. apply andb_true_iff in H. destruct H as [H1 H2].
  apply Z.leb_le in H1. apply Z.eqb_eq in H2. split; [exact H1|]. split; [exact H2|].
  destruct (chunks 80 (p_headers p)) as [|h0 rest]; [discriminate H3|].
  exists h0, rest. split; [reflexivity|].
  apply andb_true_iff in H3. destruct H3 as [H3 L]. apply andb_true_iff in H3. destruct H3 as [H3 E].
  apply andb_true_iff in H3. destruct H3 as [M1 M2].
  destruct (merkle_ok_sound _ _ _ _ _ M1) as [P1 F1]. destruct (merkle_ok_sound _ _ _ _ _ M2) as [_ F2].
  apply Nat.eqb_eq in E. apply linked_sound in L. repeat split; assumption.
Qed.

(* ---------- every proof the judge's model produces passes the model's verifier ---------- *)
Lemma toy_len : forall b, length (Concrete.toy b) = 32%nat.
Proof.
  intros b. unfold Concrete.toy. rewrite firstn_length, app_length, repeat_length. lia.
Qed.

Lemma raws_ok : forall sizes h,
    forallb (fun s => (1 <=? s)%N && (s <=? 200)%N) sizes = true ->
    Forall (fun rb => rb_txs rb <> []) (Concrete.raws h sizes) /\
    length (Concrete.raws h sizes) = length sizes.
Proof.
  induction sizes as [|s r IH]; intros h H; [split; [constructor | reflexivity]|].
  cbn [forallb] in H. apply andb_true_iff in H. destruct H as [Hs Hr].
  apply andb_true_iff in Hs. destruct Hs as [Hs _]. apply N.leb_le in Hs.
  destruct (IH (S h) Hr) as [A B]. cbn [Concrete.raws length]. split; [|f_equal; exact B].
  constructor; [|exact A]. unfold Concrete.raw. cbn [rb_txs].
  destruct (N.to_nat s) as [|k] eqn:E; [lia|]. cbn [seq map]. discriminate.
Qed.

Theorem concrete_run_verifies : forall c p,
    Concrete.well_formed c = true -> (1 <= c_required c)%Z ->
    Concrete.run c = Assembled p ->
    verify Concrete.toy (Concrete.txid_of c) (c_required c) p = true.
Proof.
  intros c p W Hreq H. unfold Concrete.well_formed in W.
  repeat (apply andb_true_iff in W; destruct W as [W ?]).
  destruct (raws_ok (c_sizes c) 0 W) as [A B].
  match goal with Hn : (N.of_nat (length (c_sizes c)) <? 100000)%N = true |- _ => apply N.ltb_lt in Hn end.
  match goal with Hr : (c_required c <? 1000)%Z = true |- _ => apply Z.ltb_lt in Hr end.
  unfold Concrete.run, Concrete.chain_of in H.
  refine (proj1 (honest_assemble_sound Concrete.toy toy_len (repeat 0%N 32) (Concrete.raws 0 (c_sizes c)) _
                   (repeat_length _ _) A _ 0%nat _ _ p _ H)); [rewrite B; lia | lia].
Qed.
