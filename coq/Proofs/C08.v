From Coq Require Import ZArith NArith List Bool Lia.
From KV Require Import Common.Verdict Model.C07 Model.C08.
Import ListNotations.
Lemma stub : True. Proof. exact I. Qed.
