(* Lemmas for C08 (statements of the property theorems are in Props/C08.v). *)
From Coq Require Import ZArith NArith List Bool Lia Sorted Permutation.
From Coq Require Import ZifyBool ZifyNat ZifyN.
From KV Require Import Common.Verdict Model.C07 Model.C08 Proofs.C07.
Import ListNotations.
Open Scope N_scope.

(* ------------------------------------------------------------------ sorting: keys follow members *)
Lemma insert_map seed x l :
  insertZ (party_key seed x) (map (party_key seed) l) = map (party_key seed) (insertN x l).
Proof.
  induction l as [|y l IH]; [reflexivity|]. cbn [map insertZ insertN].
  assert (E : (party_key seed x <=? party_key seed y)%Z = (x <=? y)).
  { unfold party_key. destruct (N.leb_spec x y); lia. }
  rewrite E. destruct (x <=? y); cbn [map]; [reflexivity|]. rewrite IH. reflexivity.
Qed.
Lemma wallet_keys_sorted_members seed l :
  wallet_keys seed l = map (party_key seed) (sortN l).
Proof.
  unfold wallet_keys, sortZ, sortN. induction l as [|x l IH]; [reflexivity|].
  cbn [map fold_right]. rewrite IH. apply insert_map.
Qed.

Lemma sortN_length l : length (sortN l) = length l.
Proof.
  assert (I : forall a l, length (insertN a l) = S (length l)).
  { intros a l0. induction l0 as [|y l0 IH]; [reflexivity|]. cbn [insertN].
    destruct (a <=? y); cbn [length]; [reflexivity|]. rewrite IH. reflexivity. }
  unfold sortN. induction l as [|x l IH]; [reflexivity|]. cbn [fold_right length]. rewrite I, IH. reflexivity.
Qed.

Lemma SSorted_NoDup l : StronglySorted N.lt l -> NoDup l.
Proof.
  induction 1 as [|a l Hs IH Hf]; constructor; [|exact IH].
  intros Hin. rewrite Forall_forall in Hf. specialize (Hf a Hin). lia.
Qed.

Lemma Forall2_len {A B} (R : A -> B -> Prop) l l' : Forall2 R l l' -> length l = length l'.
Proof. induction 1; cbn [length]; congruence. Qed.

Lemma fst_combine {A B} (l : list A) : forall (l' : list B), length l = length l' -> map fst (combine l l') = l.
Proof. induction l as [|x l IH]; intros [|y l'] H; cbn in *; try discriminate; [reflexivity|]. f_equal. apply IH. lia. Qed.
Lemma snd_combine {A B} (l : list A) : forall (l' : list B), length l = length l' -> map snd (combine l l') = l'.
Proof. induction l as [|x l IH]; intros [|y l'] H; cbn in *; try discriminate; [reflexivity|]. f_equal. apply IH. lia. Qed.

(* position of an element in a list *)
Lemma In_nth_error_pos {A} (l : list A) x : In x l -> exists j, nth_error l j = Some x.
Proof. apply In_nth_error. Qed.

Lemma sorted_nth_lt l : StronglySorted N.lt l -> forall i j a b,
  nth_error l i = Some a -> nth_error l j = Some b -> (i < j)%nat -> a < b.
Proof.
  induction 1 as [|x l Hs IH Hf]; intros i j a b Hi Hj Hlt.
  - destruct i; discriminate.
  - destruct j as [|j]; [lia|]. cbn in Hj. destruct i as [|i]; cbn in Hi.
    + inversion Hi; subst. rewrite Forall_forall in Hf. apply Hf. eapply nth_error_In, Hj.
    + apply (IH i j a b Hi Hj). lia.
Qed.

(* ------------------------------------------------------------------ map_set / map_get *)
Definition keys_below (idx : list (N * N)) (m : N) : Prop := forall kv, In kv idx -> fst kv < m.

Lemma map_set_append idx m v : keys_below idx m -> map_set m v idx = idx ++ [(m, v)].
Proof.
  induction idx as [|[k' v'] idx IH]; intros H; [reflexivity|]. cbn [map_set app].
  assert (Hk : k' < m) by (apply (H (k', v')); left; reflexivity).
  destruct (N.eqb_spec m k'); [lia|]. destruct (N.ltb_spec m k'); [lia|].
  rewrite IH; [reflexivity|]. intros kv Hin. apply H. right. exact Hin.
Qed.

Lemma map_get_app_notin a b k :
  (forall kv, In kv a -> fst kv <> k) -> map_get k (a ++ b) = map_get k b.
Proof.
  unfold map_get. induction a as [|kv a IH]; intros H; [reflexivity|]. cbn [app find].
  destruct (N.eqb_spec (fst kv) k) as [E|E].
  - exfalso. apply (H kv); [left; reflexivity | exact E].
  - apply IH. intros kv' Hin. apply H. right. exact Hin.
Qed.

(* the index map finalSigningGroup builds over a strictly ascending member list *)
Definition final_of_pos (i : nat) : N := (N.of_nat i + 1) mod 256.
Definition idx_list (s : list N) (i : nat) : list (N * N) :=
  combine s (map final_of_pos (seq i (length s))).

Lemma map_get_idx_list s : forall i j m,
  NoDup s -> nth_error s j = Some m -> map_get m (idx_list s i) = Some (final_of_pos (i + j)).
Proof.
  unfold idx_list. induction s as [|x s IH]; intros i j m Hnd Hj; [destruct j; discriminate|].
  cbn [length seq map combine]. unfold map_get. cbn [find fst]. inversion Hnd; subst.
  destruct j as [|j]; cbn in Hj.
  - inversion Hj; subst. rewrite N.eqb_refl. cbn [snd]. rewrite Nat.add_0_r. reflexivity.
  - destruct (N.eqb_spec x m) as [E|E].
    + exfalso. subst x. apply H1. eapply nth_error_In, Hj.
    + specialize (IH (S i) j m H2 Hj). unfold map_get in IH. rewrite IH. f_equal. f_equal. lia.
Qed.

Lemma fsg_loop_spec selected : forall s i ops idx,
  StronglySorted N.lt s ->
  (forall m, In m s -> 1 <= m <= N.of_nat (length selected) /\ m <= 255) ->
  (forall m, In m s -> keys_below idx m) ->
  exists sel, Forall2 (fun m o => nth_error selected (N.to_nat (m - 1)) = Some o) s sel
    /\ fsg_loop selected s i ops idx = Some (ops ++ sel, idx ++ idx_list s i).
Proof.
  induction s as [|m s IH]; intros i ops idx Hs Hr Hk.
  - exists []. split; [constructor|]. cbn. rewrite !app_nil_r. reflexivity.
  - inversion Hs as [|? ? Hs' Hf]; subst. rewrite Forall_forall in Hf.
    destruct (Hr m (or_introl eq_refl)) as [Hm1 Hm2].
    cbn [fsg_loop]. rewrite mod_index by lia.
    destruct (nth_error selected (N.to_nat (m - 1))) as [o|] eqn:En.
    2:{ apply nth_error_None in En. lia. }
    rewrite map_set_append by (apply Hk; left; reflexivity).
    destruct (IH (S i) (ops ++ [o]) (idx ++ [(m, final_of_pos i)]) Hs') as [sel [F E]].
    + intros m' Hin. apply Hr. right. exact Hin.
    + intros m' Hin kv Hkv. apply in_app_iff in Hkv. destruct Hkv as [Hkv|[<-|[]]].
      * specialize (Hk m (or_introl eq_refl) kv Hkv). specialize (Hf m' Hin). lia.
      * cbn [fst]. apply Hf. exact Hin.
    + exists (o :: sel). split; [constructor; assumption|].
      fold (final_of_pos i). rewrite E. rewrite <- !app_assoc. reflexivity.
Qed.

(* ------------------------------------------------------------------ converter *)
Lemma index_of_nth keys : forall i0 j k,
  NoDup keys -> nth_error keys j = Some k -> index_of k keys i0 = Some (i0 + j)%nat.
Proof.
  induction keys as [|x keys IH]; intros i0 j k Hnd Hj; [destruct j; discriminate|].
  inversion Hnd; subst. cbn [index_of]. destruct j as [|j]; cbn in Hj.
  - inversion Hj; subst. rewrite Z.eqb_refl. f_equal. lia.
  - destruct (Z.eqb_spec x k) as [E|E].
    + exfalso. subst x. apply H1. eapply nth_error_In, Hj.
    + rewrite (IH (S i0) j k H2 Hj). f_equal. lia.
Qed.
Lemma index_of_None keys : forall i0 k, ~ In k keys -> index_of k keys i0 = None.
Proof.
  induction keys as [|x keys IH]; intros i0 k H; [reflexivity|]. cbn [index_of].
  destruct (Z.eqb_spec x k) as [E|E]; [exfalso; apply H; left; exact E|].
  apply IH. intros Hin. apply H. right. exact Hin.
Qed.

(* round trip on valid indexes, no panic *)
Lemma converter_roundtrip keys i :
  NoDup keys -> (length keys < 256)%nat -> 1 <= i <= N.of_nat (length keys) ->
  exists k, sc_key keys i = Some k /\ sc_index keys k = i.
Proof.
  intros Hnd Hl Hi. unfold sc_key. rewrite mod_index by lia.
  destruct (nth_error keys (N.to_nat (i - 1))) as [k|] eqn:En.
  2:{ apply nth_error_None in En. lia. }
  exists k. split; [reflexivity|]. unfold sc_index.
  rewrite (index_of_nth keys 0 _ k Hnd En). cbn [Nat.add].
  rewrite N.mod_small by lia. lia.
Qed.
(* keys of ANY magnitude, repeated or not: a key of the list maps to an index (its first
   occurrence) that holds this very key — never to 0, never to another key *)
Lemma index_of_Some keys : forall i0 k j,
  index_of k keys i0 = Some j -> exists j', j = (i0 + j')%nat /\ nth_error keys j' = Some k.
Proof.
  induction keys as [|x keys IH]; intros i0 k j H; [discriminate|]. cbn [index_of] in H.
  destruct (Z.eqb_spec x k) as [E|E].
  - inversion H; subst. exists 0%nat. split; [lia | reflexivity].
  - destruct (IH _ _ _ H) as [j' [-> Hn]]. exists (S j'). split; [lia | exact Hn].
Qed.
Lemma index_of_In keys : forall i0 k, In k keys -> exists j, index_of k keys i0 = Some j.
Proof.
  induction keys as [|x keys IH]; intros i0 k H; [destruct H|]. cbn [index_of].
  destruct (Z.eqb_spec x k) as [E|E]; [eexists; reflexivity|].
  destruct H as [H|H]; [contradiction|]. apply IH, H.
Qed.
Lemma converter_key_of_index keys k :
  (length keys < 256)%nat -> In k keys ->
  1 <= sc_index keys k <= N.of_nat (length keys) /\ sc_key keys (sc_index keys k) = Some k.
Proof.
  intros Hl Hin. unfold sc_index. destruct (index_of_In keys 0 k Hin) as [j Ej]. rewrite Ej.
  destruct (index_of_Some keys 0 k j Ej) as [j' [-> Hn]]. cbn [Nat.add].
  assert (Hj : (j' < length keys)%nat) by (apply nth_error_Some; congruence).
  rewrite N.mod_small by lia. split; [lia|].
  unfold sc_key. rewrite mod_index by lia.
  replace (N.to_nat (N.of_nat j' + 1 - 1)) with j' by lia. exact Hn.
Qed.
Lemma optZ_eqb_eq a b : optZ_eqb a b = true -> a = b.
Proof.
  destruct a as [x|], b as [y|]; cbn; try discriminate; try reflexivity.
  intros H. apply Z.eqb_eq in H. congruence.
Qed.
Lemma optZ_eqb_refl a : optZ_eqb a a = true.
Proof. destruct a as [x|]; cbn; [apply Z.eqb_refl | reflexivity]. Qed.

Lemma converter_foreign keys k : ~ In k keys -> sc_index keys k = 0.
Proof. intros H. unfold sc_index. rewrite index_of_None by exact H. reflexivity. Qed.
Lemma converter_panics_only_outside keys i :
  (length keys < 256)%nat -> i < 256 ->
  (sc_key keys i = None <-> i = 0 \/ N.of_nat (length keys) < i).
Proof.
  intros Hl Hi. unfold sc_key. rewrite nth_error_None. destruct (N.eq_dec i 0) as [->|Hn].
  - cbn. split; [auto | lia].
  - rewrite mod_index by lia. lia.
Qed.

(* ------------------------------------------------------------------ the main theorem *)
Definition valid_wallet (selected operating : list N) (size quorum : Z) : Prop :=
  Z.of_nat (length selected) = size /\ (size < 256)%Z
  /\ (quorum <= Z.of_nat (length operating))%Z /\ NoDup operating
  /\ forall m, In m operating -> 1 <= m /\ (Z.of_N m <= size)%Z.

Lemma final_group_main seed selected operating size quorum :
  valid_wallet selected operating size quorum ->
  let keys := wallet_keys seed operating in
  exists ops idx,
    final_signing_group selected operating size quorum = FOk ops idx
    /\ length ops = length operating /\ map fst idx = sortN operating
    /\ map snd idx = map N.of_nat (seq 1 (length operating))
    /\ (forall m, In m operating -> exists fi,
          map_get m idx = Some fi /\ 1 <= fi <= N.of_nat (length operating)
          /\ sc_key keys fi = Some (party_key seed m)
          /\ sc_index keys (party_key seed m) = fi
          /\ nth_error ops (N.to_nat (fi - 1)) = nth_error selected (N.to_nat (m - 1))
          /\ nth_error selected (N.to_nat (m - 1)) <> None)
    /\ (forall m1 m2 f1 f2, map_get m1 idx = Some f1 -> map_get m2 idx = Some f2 ->
          In m1 operating -> In m2 operating -> (m1 < m2 <-> f1 < f2)).
Proof.
  intros (Hlen & Hsz & Hq & Hnd & Hr) keys.
  set (s := sortN operating).
  assert (Ss : StronglySorted N.lt s) by (apply sortN_sorted; exact Hnd).
  assert (Ns : NoDup s) by (apply SSorted_NoDup; exact Ss).
  assert (Ls : length s = length operating) by apply sortN_length.
  assert (Hin : forall m, In m s <-> In m operating) by (intros m; apply In_sortN).
  assert (Hk : (length operating <= 255)%nat).
  { assert (NoDup s /\ forall m, In m s -> 1 <= m <= 255) as [_ Hb].
    { split; [exact Ns|]. intros m Hm. apply Hin, Hr in Hm. lia. }
    (* pigeonhole through the sorted list *)
    assert (G : forall l, StronglySorted N.lt l -> forall b, b <= 256 ->
                (forall m, In m l -> b <= m <= 255) -> N.of_nat (length l) + b <= 256).
    { induction 1 as [|a l Hs' IH Hf]; intros b Hb0 Hb'; cbn [length]; [lia|].
      rewrite Forall_forall in Hf.
      assert (b <= a <= 255) by (apply Hb'; left; reflexivity).
      assert (N.of_nat (length l) + (a + 1) <= 256).
      { apply IH; [lia|]. intros m Hm. specialize (Hf m Hm). specialize (Hb' m (or_intror Hm)). lia. }
      lia. }
    assert (1 <= 256) by lia.
    specialize (G s Ss 1 H Hb). lia. }
  unfold final_signing_group.
  assert (C1 : negb (Z.of_nat (length selected) =? size)%Z || (Z.of_nat (length operating) <? quorum)%Z = false).
  { apply orb_false_iff. split; [apply negb_false_iff, Z.eqb_eq; exact Hlen | apply Z.ltb_ge; exact Hq]. }
  rewrite C1. fold s.
  destruct (fsg_loop_spec selected s 0 [] [] Ss) as [sel [F E]].
  { intros m Hm. apply Hin, Hr in Hm. lia. }
  { intros m _ kv []. }
  rewrite E. cbn [app]. exists sel, (idx_list s 0).
  assert (Lsel : length sel = length s) by (symmetry; eapply Forall2_len, F).
  assert (Fst : map fst (idx_list s 0) = s).
  { unfold idx_list. apply fst_combine. rewrite map_length, seq_length. reflexivity. }
  assert (Snd : map snd (idx_list s 0) = map N.of_nat (seq 1 (length operating))).
  { unfold idx_list. rewrite snd_combine by (rewrite map_length, seq_length; reflexivity).
    rewrite Ls. rewrite <- seq_shift, map_map. apply map_ext_in. intros a Ha. apply in_seq in Ha.
    unfold final_of_pos. rewrite N.mod_small by lia. lia. }
  assert (Pos : forall m, In m operating -> exists j, nth_error s j = Some m /\ (j < length operating)%nat
             /\ map_get m (idx_list s 0) = Some (N.of_nat j + 1)).
  { intros m Hm. apply Hin, In_nth_error in Hm. destruct Hm as [j Hj]. exists j.
    assert (j < length s)%nat by (apply nth_error_Some; congruence).
    split; [exact Hj|]. split; [lia|]. rewrite (map_get_idx_list s 0 j m Ns Hj). cbn [Nat.add].
    unfold final_of_pos. rewrite N.mod_small by lia. reflexivity. }
  split; [reflexivity|]. split; [lia|]. split; [exact Fst|]. split; [exact Snd|]. split.
  - intros m Hm. destruct (Pos m Hm) as (j & Hj & Hjl & Hg). exists (N.of_nat j + 1).
    assert (Kk : keys = map (party_key seed) s) by apply wallet_keys_sorted_members.
    assert (Nk : NoDup keys).
    { rewrite Kk. apply FinFun.Injective_map_NoDup; [|exact Ns]. intros a b. apply party_key_inj. }
    assert (Hkj : nth_error keys j = Some (party_key seed m)).
    { rewrite Kk. rewrite nth_error_map, Hj. reflexivity. }
    split; [exact Hg|]. split; [lia|]. split; [|split; [|split]].
    + unfold sc_key. rewrite mod_index by lia. replace (N.to_nat (N.of_nat j + 1 - 1)) with j by lia. exact Hkj.
    + unfold sc_index. rewrite (index_of_nth keys 0 j _ Nk Hkj). cbn [Nat.add].
      apply N.mod_small. lia.
    + replace (N.to_nat (N.of_nat j + 1 - 1)) with j by lia.
      clear - F Hj. revert j Hj. induction F as [|a o s' sel' Ha F' IH]; intros j Hj; [destruct j; discriminate|].
      destruct j as [|j]; cbn in Hj |- *.
      * inversion Hj; subst. symmetry. exact Ha.
      * apply IH. exact Hj.
    + apply nth_error_Some. destruct (Hr m Hm). lia.
  - intros m1 m2 f1 f2 G1 G2 H1 H2.
    destruct (Pos m1 H1) as (j1 & Hj1 & _ & Hg1). destruct (Pos m2 H2) as (j2 & Hj2 & _ & Hg2).
    rewrite G1 in Hg1. rewrite G2 in Hg2. inversion Hg1; inversion Hg2; subst f1 f2.
    split.
    + intros Hlt. destruct (Nat.lt_trichotomy j1 j2) as [L|[L|L]]; [lia| |].
      * subst j2. rewrite Hj1 in Hj2. inversion Hj2. lia.
      * pose proof (sorted_nth_lt s Ss j2 j1 m2 m1 Hj2 Hj1 L). lia.
    + intros Hlt. apply (sorted_nth_lt s Ss j1 j2 m1 m2 Hj1 Hj2). lia.
Qed.


(* corollaries of [final_group_main], one per clause of the property *)
Lemma final_operators_selected selected operating size quorum :
  valid_wallet selected operating size quorum ->
  exists ops idx,
    final_signing_group selected operating size quorum = FOk ops idx
    /\ length ops = length operating
    /\ forall m, In m operating -> exists fi o,
         map_get m idx = Some fi /\ nth_error ops (N.to_nat (fi - 1)) = Some o
         /\ nth_error selected (N.to_nat (m - 1)) = Some o.
Proof.
  intros V. destruct (final_group_main 0%Z _ _ _ _ V) as (ops & idx & E & L & _ & _ & M & _).
  exists ops, idx. split; [exact E|]. split; [exact L|]. intros m Hm.
  destruct (M m Hm) as (fi & G & _ & _ & _ & O & NN).
  destruct (nth_error selected (N.to_nat (m - 1))) as [o|]; [|contradiction]. exists fi, o. auto.
Qed.

Lemma final_indices_bijection selected operating size quorum :
  valid_wallet selected operating size quorum ->
  exists ops idx,
    final_signing_group selected operating size quorum = FOk ops idx
    /\ StronglySorted N.lt (map fst idx) /\ (forall m, In m (map fst idx) <-> In m operating)
    /\ map snd idx = map N.of_nat (seq 1 (length operating))
    /\ (forall m1 m2 f1 f2, map_get m1 idx = Some f1 -> map_get m2 idx = Some f2 ->
          In m1 operating -> In m2 operating -> (m1 < m2 <-> f1 < f2) /\ (m1 = m2 <-> f1 = f2)).
Proof.
  intros V. destruct (final_group_main 0%Z _ _ _ _ V) as (ops & idx & E & _ & F & S & _ & O).
  destruct V as (_ & _ & _ & Hnd & _).
  exists ops, idx. split; [exact E|]. split; [rewrite F; apply sortN_sorted, Hnd|].
  split; [intros m; rewrite F; apply In_sortN|]. split; [exact S|].
  intros m1 m2 f1 f2 G1 G2 H1 H2. split; [apply O; assumption|].
  pose proof (O m1 m2 f1 f2 G1 G2 H1 H2). pose proof (O m2 m1 f2 f1 G2 G1 H2 H1).
  split; [intros ->; congruence | lia].
Qed.

(* ------------------------------------------------------------------ tie to key generation (C07) *)
Lemma dkg_operating_valid size t seed self ex ops s selected quorum :
  (size <= 255)%nat -> memN self ex = false ->
  length selected = size ->
  let g := mb_group (execute_member size t seed self ex ops s) in
  (quorum <= Z.of_nat (length (operating g)))%Z ->
  valid_wallet selected (operating g) (Z.of_nat size) quorum.
Proof.
  intros Hs Hself Hl g Hq. unfold valid_wallet.
  split; [lia|]. split; [lia|]. split; [exact Hq|]. split.
  - apply SSorted_NoDup. apply (operating_sorted size). apply execute_member_wf. exact Hs.
  - intros m Hm. unfold g in Hm. rewrite operating_exact in Hm by assumption.
    apply filter_In in Hm. destruct Hm as [Hm _]. apply In_range in Hm. lia.
Qed.

Lemma final_index_maps_to_keygen_party size t seed self ex ops s selected quorum :
  (size <= 255)%nat -> memN self ex = false -> length selected = size ->
  let mb := execute_member size t seed self ex ops s in
  let oper := operating (mb_group mb) in
  (quorum <= Z.of_nat (length oper))%Z ->
  exists fops idx,
    final_signing_group selected oper (Z.of_nat size) quorum = FOk fops idx
    /\ forall m, 1 <= m <= N.of_nat size -> ~ In m ex ->
         exists fi, map_get m idx = Some fi
           /\ sc_key (party_keys mb) fi = Some (party_key seed m)
           /\ sc_index (party_keys mb) (party_key seed m) = fi
           /\ nth_error fops (N.to_nat (fi - 1)) = nth_error selected (N.to_nat (m - 1)).
Proof.
  intros Hs Hself Hl mb oper Hq.
  pose proof (dkg_operating_valid size t seed self ex ops s selected quorum Hs Hself Hl Hq) as V.
  destruct (final_group_main seed selected oper (Z.of_nat size) quorum V) as (fops & idx & E & _ & _ & _ & M & _).
  exists fops, idx. split; [exact E|]. intros m Hr Hne.
  assert (Hm : In m oper).
  { unfold oper, mb. rewrite operating_exact by assumption. apply filter_In. split.
    - apply In_range. exact Hr.
    - apply negb_true_iff, memN_false. exact Hne. }
  destruct (M m Hm) as (fi & G & _ & K1 & K2 & O & _). exists fi. auto.
Qed.

(* ------------------------------------------------------------------ signing admission, no panic *)
Lemma accepted_sender_operating mb m :
  accepts mb m = true -> In (m_sender m) (operating (mb_group mb)).
Proof.
  unfold accepts, should_accept. rewrite !andb_true_iff. intros [[_ H] _].
  unfold operating. apply filter_In. split; [|exact H].
  unfold is_operating in H. rewrite !andb_true_iff in H. apply memN_In. tauto.
Qed.

Lemma all_some_map {A B} (f : A -> option B) l :
  (forall x, In x l -> f x <> None) -> exists r, all_some (map f l) = Some r.
Proof.
  induction l as [|x l IH]; intros H; [exists []; reflexivity|]. cbn [map all_some].
  destruct (f x) as [y|] eqn:E; [|exfalso; apply (H x); [left; reflexivity | exact E]].
  destruct IH as [r Hr]; [intros x' Hx'; apply H; right; exact Hx'|]. rewrite Hr. exists (y :: r). reflexivity.
Qed.

Lemma signing_no_panic keys g :
  (length keys < 256)%nat ->
  (forall m, In m (operating g) -> 1 <= m <= N.of_nat (length keys)) ->
  (exists l, s_party_keys keys g = Some l)
  /\ forall mb m, mb_group mb = g -> accepts mb m = true -> sc_key keys (m_sender m) <> None.
Proof.
  intros Hl Hr.
  assert (K : forall m, In m (operating g) -> sc_key keys m <> None).
  { intros m Hm E. apply converter_panics_only_outside in E; [|exact Hl | specialize (Hr m Hm); lia].
    specialize (Hr m Hm). lia. }
  split.
  - unfold s_party_keys. destruct (all_some_map (sc_key keys) (operating g) K) as [r Hr']. rewrite Hr'. eauto.
  - intros mb m <- A. apply K. apply accepted_sender_operating. exact A.
Qed.

Lemma signing_foreign_never_stored size t seed self ex ops session :
  (size <= 255)%nat ->
  let mb := execute_member size t seed self ex ops session in
  (forall st h m, foreign size self ex ops session m -> s_receive mb st h m = h)
  /\ (forall h m, s_receive mb 11 h m = h)
  /\ (forall st h m, s_receive mb st h m <> h ->
        ~ foreign size self ex ops session m /\ ~ In (m_sender m) ex /\ m_session m = session
        /\ In (m_sender m) (operating (mb_group mb))).
Proof.
  intros Hs mb. split; [|split].
  - intros st h m F. unfold s_receive. destruct (N.eqb st 11); [reflexivity|].
    rewrite receive_accepts. destruct (accepts mb m) eqn:A; [|reflexivity].
    exfalso. apply (accepts_not_foreign size t seed self ex ops session m Hs) in A. exact (A F).
  - intros h m. reflexivity.
  - intros st h m H. unfold s_receive in H. destruct (N.eqb st 11); [congruence|].
    rewrite receive_accepts in H. destruct (accepts mb m) eqn:A; [|congruence].
    pose proof (accepted_sender_operating mb m A) as Ho.
    pose proof A as A'. apply (accepts_not_foreign size t seed self ex ops session m Hs) in A'.
    apply (accepts_iff size t seed self ex ops session m Hs) in A. tauto.
Qed.

(* ------------------------------------------------------------------ NewSignature *)
Open Scope Z_scope.
Lemma be_to_Z_app a : forall acc b, be_to_Z acc (a ++ b) = be_to_Z (be_to_Z acc a) b.
Proof. induction a as [|x a IH]; intros acc b; [reflexivity|]. cbn [app be_to_Z]. apply IH. Qed.

Definition bytes (l : list N) : Prop := forall b, In b l -> (b < 256)%N.

Lemma be_to_Z_bounds l : forall acc, bytes l -> 0 <= acc ->
  acc * 256 ^ Z.of_nat (length l) <= be_to_Z acc l < (acc + 1) * 256 ^ Z.of_nat (length l).
Proof.
  induction l as [|b l IH]; intros acc Hb Ha.
  - cbn [length be_to_Z]. change (256 ^ Z.of_nat 0) with 1. lia.
  - cbn [be_to_Z]. assert (Hb0 : (b < 256)%N) by (apply Hb; left; reflexivity).
    assert (Hbl : bytes l) by (intros x Hx; apply Hb; right; exact Hx).
    specialize (IH (acc * 256 + Z.of_N b) Hbl ltac:(lia)).
    replace (Z.of_nat (length (b :: l))) with (Z.of_nat (length l) + 1) by (cbn [length]; lia).
    rewrite Z.pow_add_r by lia. change (256 ^ 1) with 256.
    assert (0 < 256 ^ Z.of_nat (length l)) by (apply Z.pow_pos_nonneg; lia).
    nia.
Qed.

Lemma be_to_Z_inj a : forall b acc acc', length a = length b -> bytes a -> bytes b ->
  0 <= acc -> 0 <= acc' -> be_to_Z acc a = be_to_Z acc' b -> acc = acc' /\ a = b.
Proof.
  induction a as [|x a IH]; intros [|y b] acc acc' Hl Ha Hb H0 H0' E; cbn [length] in Hl; try discriminate.
  - cbn in E. auto.
  - cbn [be_to_Z] in E.
    assert (Hx : (x < 256)%N) by (apply Ha; left; reflexivity).
    assert (Hy : (y < 256)%N) by (apply Hb; left; reflexivity).
    destruct (IH b (acc * 256 + Z.of_N x) (acc' * 256 + Z.of_N y)) as [E1 E2]; try lia; try assumption.
    + intros z Hz. apply Ha. right. exact Hz.
    + intros z Hz. apply Hb. right. exact Hz.
    + assert (acc = acc' /\ x = y) as [-> ->] by lia. subst. auto.
Qed.

Lemma be_to_Z_leading_zero l : be_to_Z 0 (0%N :: l) = be_to_Z 0 l.
Proof. reflexivity. Qed.

Lemma new_signature_spec rb sb b rest :
  new_signature rb sb (b :: rest) =
    SOk (be_to_Z 0 rb) (be_to_Z 0 sb) (if (b <? 128)%N then Z.of_N b else Z.of_N b - 256)
  /\ (forall recb, new_signature rb sb recb = SPanic <-> recb = [])
  /\ ((b < 256)%N -> -128 <= (if (b <? 128)%N then Z.of_N b else Z.of_N b - 256) <= 127)
  /\ (bytes rb -> 0 <= be_to_Z 0 rb < 256 ^ Z.of_nat (length rb))
  /\ (bytes sb -> 0 <= be_to_Z 0 sb < 256 ^ Z.of_nat (length sb)).
Proof.
  split; [reflexivity|]. split; [|split; [|split]].
  - intros [|x r]; cbn; split; intros H; try reflexivity; discriminate.
  - intros Hb. destruct (N.ltb_spec b 128); lia.
  - intros H. pose proof (be_to_Z_bounds rb 0 H ltac:(lia)). lia.
  - intros H. pose proof (be_to_Z_bounds sb 0 H ltac:(lia)). lia.
Qed.

(* low S is decided on the integer the bytes denote: two byte strings of one length denote the
   same S only if they are equal, and S <= half iff the big-endian value is *)
Lemma signature_s_low_iff rb sb recb half r s v :
  new_signature rb sb recb = SOk r s v -> (s <= half <-> be_to_Z 0 sb <= half).
Proof. destruct recb as [|b t]; cbn; intros H; [discriminate|]. inversion H. tauto. Qed.
Close Scope Z_scope.

(* ================================================================== executable property *)
Lemma pair_eqb_eq a b : pair_eqb a b = true -> a = b.
Proof.
  destruct a, b. unfold pair_eqb. cbn [fst snd]. rewrite andb_true_iff, !N.eqb_eq. intros [-> ->]. reflexivity.
Qed.
Lemma fsg_eqb_eq a b : fsg_eqb a b = true -> a = b.
Proof.
  destruct a, b; cbn [fsg_eqb]; try discriminate; try reflexivity.
  rewrite andb_true_iff. intros [H1 H2]. apply listN_eqb_eq in H1.
  apply (list_eqb_eq pair_eqb pair_eqb_eq) in H2. congruence.
Qed.
Lemma nodupZb_NoDup l : nodupZb l = true <-> NoDup l.
Proof.
  induction l as [|x l IH]; cbn [nodupZb].
  - split; [constructor | reflexivity].
  - rewrite andb_true_iff, negb_true_iff, IH. split.
    + intros [H1 H2]. constructor; [|exact H2]. intros Hin. apply memZ_In in Hin. congruence.
    + intros H. inversion H; subst. split; [|assumption].
      destruct (memZ x l) eqn:E; [|reflexivity]. apply memZ_In in E. contradiction.
Qed.

Lemma f_valid_spec c : f_valid c = true ->
  valid_wallet (f_selected c) (f_operating c) (f_size c) (f_quorum c) /\ (0 <= f_seed c)%Z.
Proof.
  unfold f_valid, valid_wallet. rewrite !andb_true_iff.
  intros [[[[[H1 H2] H3] H4] H5] H6].
  apply Z.eqb_eq in H1. apply Z.ltb_lt in H2. apply Z.leb_le in H3, H6. apply nodupb_NoDup in H4.
  rewrite forallb_forall in H5. repeat split; try assumption.
  - specialize (H5 m H). apply andb_true_iff in H5. destruct H5 as [H5 _]. apply N.leb_le in H5. exact H5.
  - specialize (H5 m H). apply andb_true_iff in H5. destruct H5 as [_ H5]. apply Z.leb_le in H5. exact H5.
Qed.

Lemma spec_fsg_sound c : spec_fsg c = true -> f_valid c = true ->
  let keys := wallet_keys (f_seed c) (f_operating c) in
  exists ops idx, f_out c = FOk ops idx /\ NoDup (map snd idx)
    /\ forall m, In m (f_operating c) -> exists fi o,
         map_get m idx = Some fi /\ 1 <= fi <= N.of_nat (length (f_operating c))
         /\ sc_key keys fi = Some (party_key (f_seed c) m)
         /\ sc_index keys (party_key (f_seed c) m) = fi
         /\ nth_error ops (N.to_nat (fi - 1)) = Some o
         /\ nth_error (f_selected c) (N.to_nat (m - 1)) = Some o
         /\ In (m, fi) (combine (f_operating c) (f_conv c)).
Proof.
  intros H V keys. unfold spec_fsg in H. rewrite V in H. cbn [negb orb] in H.
  destruct (f_out c) as [| |ops idx]; try discriminate. exists ops, idx. split; [reflexivity|].
  rewrite !andb_true_iff in H. destruct H as [[[[_ _] Hn] Hf] Hc]. split; [apply nodupb_NoDup, Hn|].
  apply listN_eqb_eq in Hc.
  rewrite forallb_forall in Hf. intros m Hm. pose proof (Hf m Hm) as Hf'. clear Hf. rename Hf' into Hf.
  assert (Hcomb : In (m, match map_get m idx with Some fi => fi | None => 0 end)
                     (combine (f_operating c) (f_conv c))).
  { rewrite Hc. clear -Hm. induction (f_operating c) as [|x l IH]; [destruct Hm|].
    cbn [map combine]. destruct Hm as [->|Hm]; [left; reflexivity | right; apply IH, Hm]. }
  destruct (map_get m idx) as [fi|]; [|discriminate]. fold keys in Hf.
  rewrite !andb_true_iff in Hf. destruct Hf as [[[[R1 R2] K1] K2] O].
  destruct (sc_key keys fi) as [k|] eqn:Ek; [|discriminate].
  destruct (nth_error ops (N.to_nat (fi - 1))) as [a|] eqn:Ea; [|discriminate].
  destruct (nth_error (f_selected c) (N.to_nat (m - 1))) as [b|] eqn:Eb; [|discriminate].
  apply N.leb_le in R1, R2. apply Z.eqb_eq in K1. apply N.eqb_eq in K2, O. subst k a.
  exists fi, b. repeat split; assumption || reflexivity.
Qed.

Lemma model_spec_fsg c : f_valid c = true -> agree_fsg c = true -> spec_fsg c = true.
Proof.
  intros V A. destruct (f_valid_spec c V) as [W _].
  destruct (final_group_main (f_seed c) _ _ _ _ W) as (ops & idx & E & Lo & _ & Snd & M & _).
  unfold agree_fsg in A. apply andb_true_iff in A. destruct A as [A Ac].
  apply fsg_eqb_eq in A. rewrite E in A. apply listN_eqb_eq in Ac.
  unfold spec_fsg. rewrite V, A. cbn [negb orb]. rewrite !andb_true_iff.
  assert (Li : length idx = length (f_operating c)).
  { rewrite <- (map_length snd idx), Snd, map_length, seq_length. reflexivity. }
  split; [split; [split; [split|]|]|].
  - apply Nat.eqb_eq. exact Lo.
  - apply Nat.eqb_eq. exact Li.
  - apply nodupb_NoDup. rewrite Snd. apply SSorted_NoDup, range_sorted.
  - apply forallb_forall. intros m Hm. destruct (M m Hm) as (fi & G & R & K1 & K2 & O & NN).
    rewrite G, K1, K2, Z.eqb_refl, N.eqb_refl, O.
    destruct (nth_error (f_selected c) (N.to_nat (m - 1))) as [b|]; [|contradiction].
    rewrite N.eqb_refl. rewrite !andb_true_r. apply andb_true_iff. split; apply N.leb_le; lia.
  - rewrite Ac. replace (map _ (f_operating c)) with
      (map (fun m => match map_get m idx with Some fi => fi | None => 0 end) (f_operating c)).
    { clear. induction (map _ (f_operating c)) as [|x l IH]; cbn [list_eqb]; [reflexivity|].
      rewrite N.eqb_refl. exact IH. }
    apply map_ext_in. intros m Hm. destruct (M m Hm) as (fi & G & _ & _ & K2 & _). rewrite G, K2. reflexivity.
Qed.

Definition sg_done (o : sign_obs) : bool := match sg_status o with Done => true | _ => false end.

Lemma spec_sign_sound c : spec_sign c = true ->
  (forall m, In m (w_dkg_operating c) -> exists fi,
       map_get m (w_final c) = Some fi /\ sc_key (w_ks c) fi = Some (party_key (w_seed c) m))
  /\ NoDup (w_signers c) /\ w_honest c <= N.of_nat (length (w_signers c))
  /\ (forall s, In s (w_signers c) -> 1 <= s <= N.of_nat (length (w_dkg_operating c)))
  /\ (forall o, In o (w_obs c) -> In (sg_member o) (w_signers c))
  /\ (forall o1 o2, In o1 (w_obs c) -> In o2 (w_obs c) -> sg_done o1 = true -> sg_done o2 = true ->
        sg_sig o1 = sg_sig o2 /\ sg_valid o1 = true /\ sg_low_s o1 = true).
Proof.
  unfold spec_sign. rewrite !andb_true_iff. intros [[[[[A B] C] D] E] F].
  split; [|split; [|split; [|split; [|split]]]].
  - rewrite forallb_forall in A. intros m Hm. specialize (A m Hm).
    destruct (map_get m (w_final c)) as [fi|]; [|discriminate]. exists fi. split; [reflexivity|].
    apply andb_true_iff in A. destruct A as [A _].
    destruct (sc_key (w_ks c) fi) as [k|]; [|discriminate]. apply Z.eqb_eq in A. congruence.
  - apply nodupb_NoDup. exact B.
  - apply N.leb_le. exact C.
  - rewrite forallb_forall in D. intros s Hs. specialize (D s Hs). apply andb_true_iff in D.
    destruct D as [D1 D2]. apply N.leb_le in D1, D2. lia.
  - rewrite forallb_forall in E. intros o Ho. specialize (E o Ho). apply andb_true_iff in E.
    apply memN_In. tauto.
  - intros o1 o2 I1 I2 D1 D2. fold sg_done in F.
    assert (F1 : In o1 (filter sg_done (w_obs c))) by (apply filter_In; auto).
    assert (F2 : In o2 (filter sg_done (w_obs c))) by (apply filter_In; auto).
    destruct (filter sg_done (w_obs c)) as [|o0 rest]; [destruct F1|].
    pose proof (proj1 (forallb_forall _ _) F) as F'.
    pose proof (F' o1 F1) as G1. pose proof (F' o2 F2) as G2. cbv beta in G1, G2.
    rewrite !andb_true_iff in G1, G2. destruct G1 as [[G1 ?] ?]. destruct G2 as [[G2 _] _].
    apply N.eqb_eq in G1, G2. repeat split; congruence.
Qed.

Lemma model_sign_indices c :
  valid_wallet (w_selected c) (w_dkg_operating c) (w_size c) (w_quorum c) ->
  agree_sign c = true ->
  forall m, In m (w_dkg_operating c) -> exists fi,
    map_get m (w_final c) = Some fi /\ 1 <= fi <= N.of_nat (length (w_dkg_operating c))
    /\ sc_key (w_ks c) fi = Some (party_key (w_seed c) m)
    /\ sc_index (w_ks c) (party_key (w_seed c) m) = fi
    /\ nth_error (w_final_ops c) (N.to_nat (fi - 1)) = nth_error (w_selected c) (N.to_nat (m - 1)).
Proof.
  intros W A m Hm. unfold agree_sign in A. apply andb_true_iff in A. destruct A as [A1 A2].
  apply fsg_eqb_eq in A1. apply listZ_eqb_eq in A2.
  destruct (final_group_main (w_seed c) _ _ _ _ W) as (ops & idx & E & _ & _ & _ & M & _).
  rewrite E in A1. inversion A1; subst ops idx. rewrite A2.
  destruct (M m Hm) as (fi & G & R & K1 & K2 & O & _). exists fi. auto.
Qed.

Lemma In_combine_map {A B} (f : A -> B) l x y : In (x, y) (combine l (map f l)) -> y = f x.
Proof.
  induction l as [|a l IH]; cbn [map combine In]; [tauto|].
  intros [H|H]; [inversion H; reflexivity | apply IH, H].
Qed.

Lemma spec_conv_sound c : spec_conv c = true ->
  NoDup (v_keys c) -> (length (v_keys c) < 256)%nat ->
  length (v_idx c) = length (v_idx_out c)
  /\ (forall i out, In (i, out) (combine (v_idx c) (v_idx_out c)) ->
       1 <= i <= N.of_nat (length (v_keys c)) -> exists k, out = Some k /\ sc_index (v_keys c) k = i)
  /\ length (v_key c) = length (v_key_out c)
  /\ (forall k out, In (k, out) (combine (v_key c) (v_key_out c)) -> In k (v_keys c) ->
       sc_key (v_keys c) out = Some k).
Proof.
  unfold spec_conv. rewrite !andb_true_iff. intros [[[H1 H2] H3] H4] Hnd Hl.
  split; [apply Nat.eqb_eq, H1|]. split; [|split; [apply Nat.eqb_eq, H3|]].
  2:{ apply orb_true_iff in H4. destruct H4 as [H4|H4].
      - apply negb_true_iff, N.ltb_ge in H4. lia.
      - rewrite forallb_forall in H4. intros k out Hin Hk. specialize (H4 (k, out) Hin). cbn [fst snd] in H4.
        apply orb_true_iff in H4. destruct H4 as [H4|H4].
        + apply negb_true_iff in H4. apply memZ_In in Hk. congruence.
        + apply optZ_eqb_eq. exact H4. }
  apply orb_true_iff in H2. destruct H2 as [H2|H2].
  - apply negb_true_iff, andb_false_iff in H2. destruct H2 as [H2|H2].
    + apply nodupZb_NoDup in Hnd. congruence.
    + apply N.ltb_ge in H2. lia.
  - rewrite forallb_forall in H2. intros i out Hin Hr. specialize (H2 (i, out) Hin). cbn [fst snd] in H2.
    apply orb_true_iff in H2. destruct H2 as [H2|H2].
    + apply negb_true_iff, andb_false_iff in H2. destruct H2 as [H2|H2]; apply N.leb_gt in H2; lia.
    + destruct out as [k|]; [|discriminate]. exists k. split; [reflexivity|]. apply N.eqb_eq, H2.
Qed.

Lemma model_spec_conv c : agree_conv c = true -> spec_conv c = true.
Proof.
  unfold agree_conv. rewrite !andb_true_iff. intros [[A B] _].
  assert (E : v_idx_out c = map (sc_key (v_keys c)) (v_idx c)).
  { apply (list_eqb_eq optZ_eqb); [|exact A]. intros [x|] [y|]; cbn; try discriminate; try reflexivity.
    intros H. apply Z.eqb_eq in H. congruence. }
  apply listN_eqb_eq in B.
  unfold spec_conv. rewrite E, B, !map_length, !Nat.eqb_refl. cbn [andb]. rewrite andb_true_r.
  apply andb_true_iff. split.
  - destruct (nodupZb (v_keys c) && (N.of_nat (length (v_keys c)) <? 256)) eqn:V; [|reflexivity].
    cbn [negb orb]. apply andb_true_iff in V. destruct V as [V1 V2]. apply nodupZb_NoDup in V1. apply N.ltb_lt in V2.
    apply forallb_forall. intros [i o] Hin. apply In_combine_map in Hin. cbn [fst snd]. subst o.
    destruct ((1 <=? i) && (i <=? N.of_nat (length (v_keys c)))) eqn:R; [|reflexivity]. cbn [negb orb].
    apply andb_true_iff in R. destruct R as [R1 R2]. apply N.leb_le in R1, R2.
    destruct (converter_roundtrip (v_keys c) i V1 ltac:(lia) ltac:(lia)) as [k [K1 K2]].
    rewrite K1. apply N.eqb_eq. exact K2.
  - destruct (N.of_nat (length (v_keys c)) <? 256) eqn:V2; [|reflexivity]. cbn [negb orb].
    apply N.ltb_lt in V2.
    apply forallb_forall. intros [k o] Hin. apply In_combine_map in Hin. cbn [fst snd]. subst o.
    destruct (memZ k (v_keys c)) eqn:M; [|reflexivity]. cbn [negb orb]. apply memZ_In in M.
    destruct (converter_key_of_index (v_keys c) k ltac:(lia) M) as [_ K]. rewrite K. apply optZ_eqb_refl.
Qed.

(* signing probe: what was stored comes from legitimate deliveries; no panic for a wallet whose
   key list covers the group *)
Lemma spec_sprobe_sound c : spec_sprobe c = true ->
  (forall k, k < 10 -> forall x, In x (nth (N.to_nat k) (so_history c) []) ->
     exists st m, In (st, m) (sp_msgs c) /\ m_sender m = x /\ m_kind m = k /\ st <> 11
       /\ m_sender m <> sp_self c /\ 1 <= m_sender m <= sp_size c /\ ~ In (m_sender m) (sp_dq c)
       /\ nth_error (sp_ops c) (N.to_nat (m_sender m - 1)) = Some (m_op m)
       /\ m_session m = sp_session c)
  /\ (sp_size c <= N.of_nat (length (sp_keys c)) -> so_keys c <> None)
  /\ ((length (sp_keys c) < 256)%nat -> forall l, so_keys c = Some l ->
        length l = length (so_index c)
        /\ forall k i, In (k, i) (combine l (so_index c)) -> sc_key (sp_keys c) i = Some k).
Proof.
  unfold spec_sprobe. rewrite !andb_true_iff. intros [[[_ H] P] Q]. split; [|split].
  3:{ intros Hl l El. rewrite El in Q. apply orb_true_iff in Q. destruct Q as [Q|Q].
      - apply negb_true_iff, N.ltb_ge in Q. lia.
      - apply andb_true_iff in Q. destruct Q as [Q1 Q2]. split; [apply Nat.eqb_eq, Q1|].
        rewrite forallb_forall in Q2. intros k i Hin. specialize (Q2 (k, i) Hin). cbn [fst snd] in Q2.
        apply optZ_eqb_eq. exact Q2. }
  - intros k Hk x Hx. rewrite forallb_forall in H.
    assert (Ik : In k s_kinds) by (cbn; lia). specialize (H k Ik).
    rewrite !andb_true_iff in H. destruct H as [[[H1 _] _] _].
    apply (sublistN_In _ _ H1) in Hx. unfold senders in Hx. rewrite map_map in Hx.
    apply in_map_iff in Hx. destruct Hx as [[st m] [E Hm]]. cbn [snd] in E.
    apply filter_In in Hm. destruct Hm as [Hm Hb]. cbn [snd] in Hb.
    apply andb_true_iff in Hb. destruct Hb as [Hb1 Hb2]. apply N.eqb_eq in Hb1.
    unfold s_legit in Hb2. cbn [fst snd] in Hb2. rewrite !andb_true_iff in Hb2.
    destruct Hb2 as [[[[[[L1 L2] L3] L4] L5] L6] L7].
    apply negb_true_iff, N.eqb_neq in L1, L2. apply N.leb_le in L3, L4.
    apply negb_true_iff, memN_false in L5. apply N.eqb_eq in L7.
    destruct (nth_error (sp_ops c) (N.to_nat (m_sender m - 1))) as [o|] eqn:En; [|discriminate].
    apply N.eqb_eq in L6. subst o.
    exists st, m. rewrite En. auto 12.
  - intros Hs. apply orb_true_iff in P. destruct P as [P|P].
    + apply negb_true_iff, N.leb_gt in P. lia.
    + destruct (so_keys c); [discriminate | discriminate P].
Qed.

(* hypotheses are satisfiable: 3-of-5 key generation with member 3 excluded, then the final group *)
Example example_final_group :
  let mb := execute_member 5 2 200 1 [3] [11; 12; 13; 14; 15] 7 in
  final_signing_group [11; 12; 13; 14; 15] (operating (mb_group mb)) 5 3
    = FOk [11; 12; 14; 15] [(1, 1); (2, 2); (4, 3); (5, 4)]
  /\ party_keys mb = [201; 202; 204; 205]%Z
  /\ sc_key (party_keys mb) 3 = Some 204%Z /\ sc_index (party_keys mb) 204%Z = 3
  /\ valid_wallet [11; 12; 13; 14; 15] (operating (mb_group mb)) 5 3.
Proof.
  cbv zeta. split; [vm_compute; reflexivity|]. split; [vm_compute; reflexivity|].
  split; [vm_compute; reflexivity|]. split; [vm_compute; reflexivity|].
  unfold valid_wallet. change (operating _) with [1; 2; 4; 5].
  split; [reflexivity|]. split; [lia|]. split; [cbn; lia|]. split.
  - repeat constructor; cbn; lia.
  - intros m Hm. cbn in Hm. lia.
Qed.

(* keys of mixed magnitude: key generation of a 12-seat group with members 1..7 excluded and seed
   0 leaves the party keys 8, 9, 10, 11, 12 (one and two decimal digits; their decimal forms sort
   as 10, 11, 12, 8, 9).  The final members 1..5 map to them and back; likewise across 2^64 *)
Example example_mixed_magnitude_keys :
  let sel := [21; 22; 23; 24; 25; 26; 27; 28; 29; 30; 31; 32] in
  final_signing_group sel [8; 9; 10; 11; 12] 12 5
    = FOk [28; 29; 30; 31; 32] [(8, 1); (9, 2); (10, 3); (11, 4); (12, 5)]
  /\ wallet_keys 0 [12; 8; 10; 9; 11] = [8; 9; 10; 11; 12]%Z
  /\ map (sc_index [8; 9; 10; 11; 12]%Z) [8; 9; 10; 11; 12; 7; 13]%Z = [1; 2; 3; 4; 5; 0; 0]
  /\ map (sc_key [8; 9; 10; 11; 12]%Z) [1; 2; 3; 4; 5] = map Some [8; 9; 10; 11; 12]%Z
  /\ map (sc_index (wallet_keys 18446744073709551613 [1; 2; 3; 4]))
         [18446744073709551614; 18446744073709551615; 18446744073709551616; 18446744073709551617]%Z
     = [1; 2; 3; 4].
Proof. cbv zeta. repeat split; vm_compute; reflexivity. Qed.
