(* C38 — proofs about Model/C38.v *)
From Coq Require Import ZArith NArith List Bool Lia Permutation.
From KV Require Import Common.Verdict Model.C38.
Import ListNotations.
Open Scope N_scope.

(* ---------- histories ---------- *)
Fixpoint run_hist (s : state) (h : list (opk * fault)) : state * list outcome * list effect :=
  match h with
  | [] => (s, [], [])
  | (o, f) :: r =>
      let '(s1, out, ef) := step s o f in
      let '(s2, outs, efs) := run_hist s1 r in
      (s2, out :: outs, ef ++ efs)
  end.
Definition final (h : list (opk * fault)) : state := fst (fst (run_hist init h)).
Definition log_of (h : list (opk * fault)) : list effect := snd (run_hist init h).

Definition in_group (g : N) (it : item) : bool := N.eqb (it_g it) g.

(* ---------- the in-memory map ---------- *)
Lemma cache_get_add c it g :
  cache_get (cache_add c it) g =
  if N.eqb (it_g it) g then cache_get c g ++ [it] else cache_get c g.
Proof.
  induction c as [|[g' l] c IH]; cbn.
  - destruct (N.eqb (it_g it) g); reflexivity.
  - destruct (N.eqb g' (it_g it)) eqn:E1; cbn.
    + apply N.eqb_eq in E1. subst g'. destruct (N.eqb (it_g it) g); reflexivity.
    + destruct (N.eqb g' g) eqn:E2; [|exact IH].
      apply N.eqb_eq in E2. subst g'. rewrite N.eqb_sym in E1. now rewrite E1.
Qed.

Lemma cache_get_load_gen st : forall c g,
  cache_get (fold_left cache_add st c) g = cache_get c g ++ filter (in_group g) st.
Proof.
  induction st as [|it st IH]; intros c g; cbn [fold_left filter].
  - now rewrite app_nil_r.
  - rewrite IH, cache_get_add. unfold in_group at 2.
    destruct (N.eqb (it_g it) g); [now rewrite <- app_assoc|reflexivity].
Qed.

(* a restart gives, for every group, exactly the stored memberships of the group (same items,
   hence the same key material), in storage order *)
Lemma cache_get_load st g : cache_get (load st) g = filter (in_group g) st.
Proof. unfold load. now rewrite cache_get_load_gen. Qed.

Lemma cache_has_add c it g : cache_has (cache_add c it) g = cache_has c g || N.eqb (it_g it) g.
Proof.
  unfold cache_has. induction c as [|[g' l] c IH]; cbn [cache_add existsb fst].
  - now rewrite orb_false_r.
  - destruct (N.eqb g' (it_g it)) eqn:E1; cbn [existsb fst].
    + apply N.eqb_eq in E1. subst g'. destruct (N.eqb (it_g it) g); cbn; auto using orb_true_r.
      now rewrite orb_false_r.
    + rewrite IH. now rewrite orb_assoc.
Qed.
Lemma cache_has_load_gen st : forall c g,
  cache_has (fold_left cache_add st c) g = cache_has c g || has_dir st g.
Proof.
  induction st as [|it st IH]; intros c g; cbn [fold_left has_dir existsb].
  - now rewrite orb_false_r.
  - rewrite IH, cache_has_add. now rewrite orb_assoc.
Qed.
Lemma cache_has_load st g : cache_has (load st) g = has_dir st g.
Proof. unfold load. now rewrite cache_has_load_gen. Qed.

Lemma cache_has_del c g g' : cache_has (cache_del c g) g' = cache_has c g' && negb (N.eqb g' g).
Proof.
  unfold cache_has, cache_del. apply eq_true_iff_eq.
  rewrite andb_true_iff, !existsb_exists, negb_true_iff. split.
  - intros [x [Hx Hg]]. apply filter_In in Hx. destruct Hx as [Hx Hn].
    apply N.eqb_eq in Hg. subst g'. split; [exists x; split; auto; apply N.eqb_refl|].
    now apply negb_true_iff in Hn.
  - intros [[x [Hx Hg]] Hn]. exists x. split; auto. apply filter_In. split; auto.
    apply N.eqb_eq in Hg. subst g'. now rewrite Hn.
Qed.
Lemma cache_get_del c g g' : g' <> g -> cache_get (cache_del c g) g' = cache_get c g'.
Proof.
  intros H. unfold cache_del. induction c as [|[g0 l] c IH]; cbn [filter fst cache_get]; auto.
  destruct (N.eqb g0 g) eqn:E; cbn [negb cache_get].
  - apply N.eqb_eq in E. subst g0. destruct (N.eqb g g') eqn:E2; auto.
    apply N.eqb_eq in E2. congruence.
  - now rewrite IH.
Qed.

(* ---------- the storage ---------- *)
Lemma has_dir_save st it g : has_dir (save st it) g = has_dir st g || N.eqb (it_g it) g.
Proof.
  unfold has_dir, save. rewrite existsb_app. cbn. rewrite orb_false_r.
  destruct (N.eqb (it_g it) g) eqn:E; [now rewrite !orb_true_r|rewrite !orb_false_r].
  apply eq_true_iff_eq. rewrite !existsb_exists. split.
  - intros [x [Hx Hg]]. apply filter_In in Hx. exists x. tauto.
  - intros [x [Hx Hg]]. exists x. split; auto. apply filter_In. split; auto.
    unfold same_file. apply N.eqb_eq in Hg. rewrite Hg, (N.eqb_sym g), E. reflexivity.
Qed.
Lemma has_dir_archive st g g' : has_dir (archive st g) g' = has_dir st g' && negb (N.eqb g' g).
Proof.
  unfold has_dir, archive. apply eq_true_iff_eq.
  rewrite andb_true_iff, !existsb_exists, negb_true_iff. split.
  - intros [x [Hx Hg]]. apply filter_In in Hx. destruct Hx as [Hx Hn].
    apply N.eqb_eq in Hg. subst g'. split; [exists x; split; auto; apply N.eqb_refl|].
    now apply negb_true_iff in Hn.
  - intros [[x [Hx Hg]] Hn]. exists x. split; auto. apply filter_In. split; auto.
    apply N.eqb_eq in Hg. subst g'. now rewrite Hn.
Qed.

(* ---------- the storage equals "persisted and not archived" ---------- *)
Lemma archive_loop_store f gs : forall st c n st' c' cr er ef,
  archive_loop f st c gs n = (st', c', cr, er, ef) -> st' = fold_left apply_effect ef st.
Proof.
  induction gs as [|g r IH]; intros st c n st' c' cr er ef H; cbn in H.
  - now inversion H.
  - destruct (negb (cache_has c g)).
    { destruct (archive_loop f st c r n) as [[[[a b] d] e] x] eqn:E. inversion H; subst.
      eapply IH; eauto. }
    destruct (fault_at f n) as [[| |]|].
    + destruct (archive_loop f st c r (S n)) as [[[[a b] d] e] x] eqn:E. inversion H; subst.
      eapply IH; eauto.
    + now inversion H.
    + destruct (has_dir st g); now inversion H.
    + destruct (has_dir st g).
      * destruct (archive_loop f (archive st g) (cache_del c g) r (S n)) as [[[[a b] d] e] x] eqn:E.
        inversion H; subst. cbn. eapply IH; eauto.
      * destruct (archive_loop f st c r (S n)) as [[[[a b] d] e] x] eqn:E. inversion H; subst.
        eapply IH; eauto.
Qed.

Lemma step_store s o f : forall s' out ef,
  step s o f = (s', out, ef) -> s_store s' = fold_left apply_effect ef (s_store s).
Proof.
  intros s' out ef H. destruct o as [it|g|stale latest order|]; unfold step in H.
  - destruct (fault_at f 0) as [[| |]|]; inversion H; subst; reflexivity.
  - destruct (archive_loop f (s_store s) (s_cache s) [g] 0) as [[[[a b] d] e] x] eqn:E.
    apply archive_loop_store in E. unfold finish in H.
    destruct d; inversion H; subst; reflexivity.
  - destruct (negb (order_ok (s_cache s) stale latest order f)); [inversion H; subst; reflexivity|].
    destruct (archive_loop f (s_store s) (s_cache s) order 0) as [[[[a b] d] e] x] eqn:E.
    apply archive_loop_store in E. unfold finish in H.
    destruct d; inversion H; subst; reflexivity.
  - inversion H; subst; reflexivity.
Qed.

Lemma run_hist_store h : forall s s' outs log,
  run_hist s h = (s', outs, log) -> s_store s' = fold_left apply_effect log (s_store s).
Proof.
  induction h as [|[o f] r IH]; intros s s' outs log H; cbn in H.
  - now inversion H.
  - destruct (step s o f) as [[s1 out] ef] eqn:E1.
    destruct (run_hist s1 r) as [[s2 outs2] efs] eqn:E2. inversion H; subst.
    rewrite fold_left_app. erewrite IH; eauto. f_equal. eapply step_store; eauto.
Qed.

Theorem store_is_persisted h : s_store (final h) = persisted (log_of h).
Proof.
  unfold final, log_of, persisted.
  destruct (run_hist init h) as [[s outs] log] eqn:E. cbn. now apply run_hist_store in E.
Qed.

(* after ANY history (registrations, archivals, restarts, storage failures, crashes before or
   after any storage call) a restart yields, for every group, exactly the memberships that were
   persisted and not archived *)
Theorem restart_exact h g :
  cache_get (s_cache (restart (final h))) g = filter (in_group g) (persisted (log_of h)).
Proof. cbn. now rewrite cache_get_load, store_is_persisted. Qed.

(* ---------- invariant of the running registry ---------- *)
Definition cache_wf (c : cache) : Prop :=
  NoDup (map fst c) /\ forall g l, In (g, l) c -> l <> [] /\ forall it, In it l -> it_g it = g.

Definition Inv (s : state) : Prop :=
  cache_wf (s_cache s) /\
  (forall g, cache_has (s_cache s) g = has_dir (s_store s) g) /\
  (forall it, In it (s_store s) -> In it (cache_get (s_cache s) (it_g it))).

Lemma in_map_fst_add c it g : In g (map fst (cache_add c it)) <-> In g (map fst c) \/ g = it_g it.
Proof.
  induction c as [|[g' l] c IH]; cbn.
  - split; [intros [H|[]]; auto|intros [[]|H]; auto].
  - destruct (N.eqb g' (it_g it)) eqn:E; cbn.
    + apply N.eqb_eq in E. subst g'. split; [tauto|intros [H|H]; auto].
    + rewrite IH. tauto.
Qed.

Lemma cache_wf_add c it : cache_wf c -> cache_wf (cache_add c it).
Proof.
  intros [Hnd Hl]. induction c as [|[g l] c IH]; cbn.
  - split; [repeat constructor; auto|]. intros g l [H|[]]. inversion H; subst.
    split; [discriminate|]. intros x [<-|[]]. reflexivity.
  - cbn in Hnd. inversion Hnd as [|? ? Hni Hnd']; subst.
    destruct (N.eqb g (it_g it)) eqn:E.
    + apply N.eqb_eq in E. subst g. split; [exact Hnd|].
      intros g' l' [H|H].
      * inversion H; subst. destruct (Hl (it_g it) l (or_introl eq_refl)) as [_ Hg].
        split; [destruct l; discriminate|]. intros x Hx. apply in_app_or in Hx.
        destruct Hx as [Hx|[<-|[]]]; auto.
      * apply Hl. now right.
    + assert (Hl' : forall g0 l0, In (g0, l0) c -> l0 <> [] /\ forall it0, In it0 l0 -> it_g it0 = g0)
        by (intros; apply Hl; now right).
      destruct (IH Hnd' Hl') as [IH1 IH2]. split.
      * cbn. constructor; auto. rewrite in_map_fst_add. intros [H|H]; [contradiction|].
        subst. now rewrite N.eqb_refl in E.
      * intros g' l' [H|H]; [apply Hl; now left|now apply IH2].
Qed.

Lemma cache_wf_load st : cache_wf (load st).
Proof.
  unfold load. assert (G : forall c, cache_wf c -> cache_wf (fold_left cache_add st c)).
  { induction st as [|it st IH]; intros c Hc; cbn; auto. apply IH. now apply cache_wf_add. }
  apply G. split; [constructor|intros g l []].
Qed.

Lemma cache_wf_del c g : cache_wf c -> cache_wf (cache_del c g).
Proof.
  intros [Hnd Hl]. split.
  - unfold cache_del. induction c as [|[g' l] c IH]; cbn; [constructor|].
    cbn in Hnd. inversion Hnd as [|? ? Hni Hnd']; subst.
    assert (Hl' : forall g0 l0, In (g0, l0) c -> l0 <> [] /\ forall it0, In it0 l0 -> it_g it0 = g0)
      by (intros; apply Hl; now right).
    destruct (negb (N.eqb g' g)); cbn; auto. constructor; auto.
    intros H. apply Hni. apply in_map_iff in H. destruct H as [x [Hx Hin]].
    apply filter_In in Hin. apply in_map_iff. exists x. tauto.
  - intros g' l H. apply filter_In in H. apply Hl. tauto.
Qed.

Lemma Inv_restart st : Inv {| s_store := st; s_cache := load st |}.
Proof.
  split; [apply cache_wf_load|]. cbn. split.
  - intros g. apply cache_has_load.
  - intros it H. rewrite cache_get_load. apply filter_In. split; auto.
    unfold in_group. apply N.eqb_refl.
Qed.

Lemma Inv_archive_loop f gs : forall st c n st' c' cr er ef,
  Inv {| s_store := st; s_cache := c |} ->
  archive_loop f st c gs n = (st', c', cr, er, ef) ->
  cr = false -> Inv {| s_store := st'; s_cache := c' |}.
Proof.
  induction gs as [|g r IH]; intros st c n st' c' cr er ef HI H Hcr; cbn in H.
  - inversion H; subst; auto.
  - destruct (negb (cache_has c g)).
    { destruct (archive_loop f st c r n) as [[[[a b] d] e] x] eqn:E. inversion H; subst.
      eapply IH; eauto. }
    destruct (fault_at f n) as [[| |]|].
    + destruct (archive_loop f st c r (S n)) as [[[[a b] d] e] x] eqn:E. inversion H; subst.
      eapply IH; eauto.
    + inversion H; subst. discriminate.
    + destruct (has_dir st g); inversion H; subst; discriminate.
    + destruct (has_dir st g).
      * destruct (archive_loop f (archive st g) (cache_del c g) r (S n)) as [[[[a b] d] e] x] eqn:E.
        inversion H; subst.
        assert (HI' : Inv {| s_store := archive st g; s_cache := cache_del c g |}).
        { destruct HI as [Hwf [Ha Hb]]. cbn [s_store s_cache] in *.
          split; [now apply cache_wf_del|]. cbn [s_store s_cache]. split.
          - intros g'. now rewrite cache_has_del, has_dir_archive, Ha.
          - intros it Hin. unfold archive in Hin. apply filter_In in Hin. destruct Hin as [Hin Hn].
            apply negb_true_iff, N.eqb_neq in Hn. rewrite cache_get_del; auto. }
        eapply IH; [exact HI'|exact E|reflexivity].
      * destruct (archive_loop f st c r (S n)) as [[[[a b] d] e] x] eqn:E. inversion H; subst.
        eapply IH; eauto.
Qed.

Lemma Inv_step s o f : forall s' out ef, Inv s -> step s o f = (s', out, ef) -> Inv s'.
Proof.
  intros s' out ef HI H. destruct o as [it|g|stale latest order|]; unfold step in H.
  - destruct (fault_at f 0) as [[| |]|]; inversion H; subst; auto; try apply Inv_restart.
    destruct HI as [Hwf [Ha Hb]]. split; [now apply cache_wf_add|]. cbn [s_store s_cache]. split.
    + intros g. now rewrite cache_has_add, has_dir_save, Ha.
    + intros x Hin. unfold save in Hin. apply in_app_or in Hin. rewrite cache_get_add.
      destruct Hin as [Hin|[<-|[]]].
      * apply filter_In in Hin. destruct Hin as [Hin _].
        destruct (N.eqb (it_g it) (it_g x)); [apply in_or_app; left|]; auto.
      * rewrite N.eqb_refl. apply in_or_app. right. now left.
  - destruct (archive_loop f (s_store s) (s_cache s) [g] 0) as [[[[a b] d] e] x] eqn:E.
    unfold finish in H. destruct d; inversion H; subst; [apply Inv_restart|].
    eapply Inv_archive_loop; eauto; try (now destruct s).
  - destruct (negb (order_ok (s_cache s) stale latest order f)); [inversion H; subst; auto|].
    destruct (archive_loop f (s_store s) (s_cache s) order 0) as [[[[a b] d] e] x] eqn:E.
    unfold finish in H. destruct d; inversion H; subst; [apply Inv_restart|].
    eapply Inv_archive_loop; eauto; try (now destruct s).
  - inversion H; subst. apply Inv_restart.
Qed.

Lemma Inv_run h : forall s s' outs log, Inv s -> run_hist s h = (s', outs, log) -> Inv s'.
Proof.
  induction h as [|[o f] r IH]; intros s s' outs log HI H; cbn in H.
  - inversion H; subst; auto.
  - destruct (step s o f) as [[s1 out] ef] eqn:E1.
    destruct (run_hist s1 r) as [[s2 outs2] efs] eqn:E2. inversion H; subst.
    eapply (IH s1); [|exact E2]. eapply Inv_step; [exact HI|exact E1].
Qed.

Lemma Inv_init : Inv init.
Proof. apply (Inv_restart []). Qed.

Theorem reachable_inv h : Inv (final h).
Proof.
  unfold final. destruct (run_hist init h) as [[s outs] log] eqn:E. cbn.
  eapply Inv_run; eauto. apply Inv_init.
Qed.

(* ---------- the lookups agree ---------- *)
Section LookupProofs.
  Variable pkh : N -> N.
  Variable wid : N -> N.
  Hypothesis pkh_inj : forall a b, pkh a = pkh b -> a = b.
  Hypothesis wid_inj : forall a b, wid a = wid b -> a = b.

  Lemma find_by (f : N -> N) (f_inj : forall a b, f a = f b -> a = b) (c : cache) w :
    option_map fst (find (fun e => N.eqb (f (fst e)) (f w)) c) =
    if cache_has c w then Some w else None.
  Proof.
    unfold cache_has. induction c as [|[g l] c IH]; cbn [find existsb fst option_map]; auto.
    destruct (N.eqb (f g) (f w)) eqn:E.
    - apply N.eqb_eq, f_inj in E. subst g. now rewrite N.eqb_refl.
    - destruct (N.eqb g w) eqn:E2; [|exact IH].
      apply N.eqb_eq in E2. subst g. now rewrite N.eqb_refl in E.
  Qed.

  Lemma find_sound (f : N -> N) (c : cache) h w :
    option_map fst (find (fun e => N.eqb (f (fst e)) h) c) = Some w ->
    f w = h /\ cache_has c w = true.
  Proof.
    unfold cache_has. induction c as [|[g l] c IH]; cbn [find existsb fst option_map]; [discriminate|].
    destruct (N.eqb (f g) h) eqn:E; cbn [option_map fst].
    - intros [= <-]. apply N.eqb_eq in E. now rewrite N.eqb_refl.
    - intros H. destruct (IH H) as [H1 H2]. rewrite H2. now rewrite orb_true_r.
  Qed.

  Lemma cache_has_in c w : cache_has c w = true <-> In w (map fst c).
  Proof.
    unfold cache_has. rewrite existsb_exists, in_map_iff. split.
    - intros [e [He Hw]]. apply N.eqb_eq in Hw. eauto.
    - intros [e [Hw He]]. exists e. split; auto. now apply N.eqb_eq.
  Qed.

  Lemma cache_get_nonempty c w : cache_wf c -> (cache_get c w <> [] <-> In w (map fst c)).
  Proof.
    intros [Hnd Hl]. induction c as [|[g l] c IH]; cbn; [tauto|].
    cbn in Hnd. inversion Hnd as [|? ? Hni Hnd']; subst.
    assert (Hl' : forall g0 l0, In (g0, l0) c -> l0 <> [] /\ forall it0, In it0 l0 -> it_g it0 = g0)
      by (intros; apply Hl; now right).
    destruct (N.eqb g w) eqn:E.
    - apply N.eqb_eq in E. subst g. destruct (Hl w l (or_introl eq_refl)) as [Hne _]. tauto.
    - apply N.eqb_neq in E. rewrite (IH Hnd' Hl'). tauto.
  Qed.

  (* for every wallet: it is listed iff it has signers iff the lookup by public-key hash finds it
     iff the lookup by wallet ID finds it; and a lookup never returns another wallet *)
  Theorem lookups_agree_wf c w :
    cache_wf c ->
    (In w (list_wallets c) <-> cache_get c w <> []) /\
    (In w (list_wallets c) <-> by_pkh pkh c (pkh w) = Some w) /\
    (In w (list_wallets c) <-> by_id wid c (wid w) = Some w) /\
    (forall h w', by_pkh pkh c h = Some w' -> pkh w' = h /\ In w' (list_wallets c)) /\
    (forall i w', by_id wid c i = Some w' -> wid w' = i /\ In w' (list_wallets c)).
  Proof.
    intros Hwf. unfold list_wallets, by_pkh, by_id. repeat split.
    - now apply cache_get_nonempty.
    - now apply cache_get_nonempty.
    - intros H. rewrite (find_by pkh pkh_inj). apply cache_has_in in H. now rewrite H.
    - rewrite (find_by pkh pkh_inj). destruct (cache_has c w) eqn:E; [|discriminate].
      intros _. now apply cache_has_in.
    - intros H. rewrite (find_by wid wid_inj). apply cache_has_in in H. now rewrite H.
    - rewrite (find_by wid wid_inj). destruct (cache_has c w) eqn:E; [|discriminate].
      intros _. now apply cache_has_in.
    - apply find_sound in H. tauto.
    - apply find_sound in H. apply cache_has_in. tauto.
    - apply find_sound in H. tauto.
    - apply find_sound in H. apply cache_has_in. tauto.
  Qed.
End LookupProofs.

Theorem lookups_agree (pkh wid : N -> N) :
  (forall a b, pkh a = pkh b -> a = b) -> (forall a b, wid a = wid b -> a = b) ->
  forall h w, let c := s_cache (final h) in
    (In w (list_wallets c) <-> cache_get c w <> []) /\
    (In w (list_wallets c) <-> by_pkh pkh c (pkh w) = Some w) /\
    (In w (list_wallets c) <-> by_id wid c (wid w) = Some w) /\
    (forall x w', by_pkh pkh c x = Some w' -> pkh w' = x /\ In w' (list_wallets c)) /\
    (forall i w', by_id wid c i = Some w' -> wid w' = i /\ In w' (list_wallets c)).
Proof.
  intros Hp Hw h w c. apply lookups_agree_wf; auto. apply (reachable_inv h).
Qed.

(* while running: the registry knows at least every persisted-and-not-archived membership,
   and exactly the persisted-and-not-archived groups *)
Theorem running_covers_persisted h :
  let s := final h in
  (forall it, In it (persisted (log_of h)) -> In it (cache_get (s_cache s) (it_g it))) /\
  (forall g, cache_get (s_cache s) g <> [] <-> has_dir (persisted (log_of h)) g = true).
Proof.
  cbn zeta. rewrite <- store_is_persisted. destruct (reachable_inv h) as [Hwf [Ha Hb]]. split; auto.
  intros g. rewrite <- Ha. rewrite (cache_get_nonempty (s_cache (final h)) g Hwf).
  symmetry. apply cache_has_in.
Qed.

(* a crash between the storage write and the memory update = the completed operation followed by
   a restart; a crash before the storage call = a plain restart *)
Theorem crash_after_register s it :
  fst (fst (step s (Register it) (Fault FCrashAfter 0))) =
  restart (fst (fst (step s (Register it) NoFault))).
Proof. reflexivity. Qed.
Theorem crash_before_register s it :
  fst (fst (step s (Register it) (Fault FCrashBefore 0))) = restart s.
Proof. reflexivity. Qed.
Theorem crash_after_archive s g :
  cache_has (s_cache s) g = true ->
  fst (fst (step s (ArchiveOne g) (Fault FCrashAfter 0))) =
  restart (fst (fst (step s (ArchiveOne g) NoFault))).
Proof.
  intros H. cbn. rewrite H. cbn. destruct (has_dir (s_store s) g); reflexivity.
Qed.

(* the storage never holds two files for one (group, member): identical key material is the
   LAST one written *)
Lemma save_in st it x : In x (save st it) <-> x = it \/ (In x st /\ same_file x it = false).
Proof.
  unfold save. rewrite in_app_iff, filter_In, negb_true_iff. cbn. intuition.
Qed.

(* hypotheses are satisfiable / the model computes: a history with a crash after the storage write
   and an archival *)
Example c38_example :
  let h := [(Register (It 1 1 0), NoFault); (Register (It 1 2 0), Fault FCrashAfter 0%nat);
            (Register (It 2 1 0), Fault FFail 0%nat); (Register (It 3 1 0), NoFault);
            (ArchiveOne 3, NoFault)] in
  persisted (log_of h) = [It 1 1 0; It 1 2 0] /\
  cache_get (s_cache (final h)) 1 = [It 1 1 0; It 1 2 0] /\
  by_pkh idN (s_cache (final h)) 3 = None.
Proof. cbn zeta. repeat split; reflexivity. Qed.

(* ---------- soundness of the executable comparison used by the correspondence check ---------- *)
Lemma item_eqb_eq a b : item_eqb a b = true -> a = b.
Proof.
  unfold item_eqb. intros H. apply andb_true_iff in H. destruct H as [H H3].
  apply andb_true_iff in H. destruct H as [H1 H2].
  apply N.eqb_eq in H1, H2, H3. destruct a, b; cbn in *; congruence.
Qed.
Lemma items_eqb_eq a : forall b, items_eqb a b = true -> a = b.
Proof.
  induction a as [|x a IH]; intros [|y b]; cbn; try discriminate; auto.
  intros H. apply andb_true_iff in H. destruct H as [H1 H2].
  apply item_eqb_eq in H1. apply IH in H2. congruence.
Qed.
Lemma insert_item_perm x l : Permutation (insert_item x l) (x :: l).
Proof.
  induction l as [|y l IH]; cbn; auto.
  destruct (item_leb x y); auto. rewrite IH. apply perm_swap.
Qed.
Lemma sort_items_perm l : Permutation (sort_items l) l.
Proof.
  induction l as [|x l IH]; cbn; auto. rewrite insert_item_perm. now constructor.
Qed.

(* what [registry_vs_store] says of an observation taken after a restart or crash: every group's
   memberships are, up to order, exactly the stored items of the group *)
Theorem spec_restart_sound o :
  restarted o = true -> registry_vs_store o = true ->
  forall g, In g (ob_groups o) ->
    Permutation (gs_items g) (filter (in_group (gs_g g)) (ob_store o)).
Proof.
  unfold registry_vs_store. intros Hr H g Hg. rewrite forallb_forall in H.
  specialize (H g Hg). rewrite Hr in H. apply items_eqb_eq in H.
  unfold items_of in H.
  rewrite <- (sort_items_perm (gs_items g)), H. apply sort_items_perm.
Qed.
