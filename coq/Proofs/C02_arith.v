(* C02 — arithmetic facts about Model/C01.v's scalar functions (plain Coq):
     [inv_mod]  (big.Int.ModInverse by extended Euclid on fuel) is an inverse modulo a prime,
     [eval]     (evaluateMemberShare: sum of a_k x^k, reduced at every step) is Horner evaluation
                modulo q,
     modular sums as computed by the folds of phase 6 / phase 12. *)
From Coq Require Import ZArith Znumtheory NArith List Bool Lia Permutation.
From KV Require Import Model.C01.
Import ListNotations.
Open Scope Z_scope.

(* ---------- inv_mod ---------- *)

(* invariant of the loop: r0 = t0*a and r1 = t1*a modulo m; the result x satisfies
   gcd r0 r1 = x*a modulo m.  The remainder halves every two steps. *)
Lemma inv_loop_ok (a m : Z) : forall k fuel r0 r1 t0 t1,
  0 <= r1 < 2 ^ Z.of_nat k -> 0 <= r0 -> (2 * k + 1 <= fuel)%nat ->
  (r0 - t0 * a) mod m = 0 -> (r1 - t1 * a) mod m = 0 ->
  (Z.gcd r0 r1 - inv_loop fuel r0 r1 t0 t1 * a) mod m = 0.
Proof.
  assert (Hstep : forall r0 r1 t0 t1 d, (r0 - t0 * a) mod m = 0 -> (r1 - t1 * a) mod m = 0 ->
                    (r0 - d * r1 - (t0 - d * t1) * a) mod m = 0).
  { intros r0 r1 t0 t1 d H0 H1.
    replace (r0 - d * r1 - (t0 - d * t1) * a) with ((r0 - t0 * a) + (- d) * (r1 - t1 * a)) by ring.
    rewrite Zplus_mod, H0, Zmult_mod, H1, Z.mul_0_r. reflexivity. }
  assert (Hbase : forall fuel r0 t0 t1, 0 <= r0 -> (1 <= fuel)%nat -> (r0 - t0 * a) mod m = 0 ->
                    (Z.gcd r0 0 - inv_loop fuel r0 0 t0 t1 * a) mod m = 0).
  { intros fuel r0 t0 t1 Hr0 Hf H0. destruct fuel as [|f]; [lia|]. cbn [inv_loop].
    rewrite Z.eqb_refl, Z.gcd_0_r, Z.abs_eq by assumption. exact H0. }
  induction k as [|k IH]; intros fuel r0 r1 t0 t1 Hr1 Hr0 Hf H0 H1.
  - assert (r1 = 0) by (cbn in Hr1; lia). subst r1. apply Hbase; [assumption|lia|assumption].
  - destruct (Z.eq_dec r1 0) as [->|Hn1]; [apply Hbase; [assumption|lia|assumption]|].
    destruct fuel as [|f]; [lia|]. cbn [inv_loop].
    destruct (Z.eqb_spec r1 0) as [E|_]; [contradiction|].
    assert (Hpos1 : 0 < r1) by lia.
    pose proof (Z.mod_pos_bound r0 r1 Hpos1) as Hb2.
    assert (E2 : r0 - r0 / r1 * r1 = r0 mod r1) by (rewrite Z.mod_eq by lia; ring).
    rewrite E2.
    assert (G1 : Z.gcd r0 r1 = Z.gcd r1 (r0 mod r1)).
    { rewrite (Z.gcd_comm r0 r1). symmetry. rewrite Z.gcd_comm. apply Z.gcd_mod. lia. }
    assert (H2 : (r0 mod r1 - (t0 - r0 / r1 * t1) * a) mod m = 0).
    { rewrite <- E2. apply Hstep; assumption. }
    set (r2 := r0 mod r1) in *. set (t2 := t0 - r0 / r1 * t1) in *.
    rewrite G1.
    destruct (Z.eq_dec r2 0) as [E|Hn2].
    + rewrite E. apply Hbase; [lia|lia|assumption].
    + destruct f as [|f']; [lia|]. cbn [inv_loop].
      destruct (Z.eqb_spec r2 0) as [E|_]; [contradiction|].
      assert (Hpos2 : 0 < r2) by lia.
      pose proof (Z.mod_pos_bound r1 r2 Hpos2) as Hb3.
      assert (E3 : r1 - r1 / r2 * r2 = r1 mod r2) by (rewrite Z.mod_eq by lia; ring).
      rewrite E3.
      assert (G2 : Z.gcd r1 r2 = Z.gcd r2 (r1 mod r2)).
      { rewrite (Z.gcd_comm r1 r2). symmetry. rewrite Z.gcd_comm. apply Z.gcd_mod. lia. }
      rewrite G2. apply IH; try lia.
      * split; [lia|].
        pose proof (Z.div_mod r1 r2 ltac:(lia)) as Hd.
        assert (1 <= r1 / r2) by (apply Z.div_le_lower_bound; lia).
        rewrite Nat2Z.inj_succ, Z.pow_succ_r in Hr1 by lia. nia.
      * rewrite <- E3. apply Hstep; assumption.
Qed.

Lemma inv_mod_correct (q a : Z) : prime q -> a mod q <> 0 ->
  (a * inv_mod q a) mod q = 1 /\ 0 <= inv_mod q a < q.
Proof.
  intros Hp Ha. pose proof (prime_ge_2 q Hp) as Hq.
  pose proof (Z.mod_pos_bound a q ltac:(lia)) as Hb.
  unfold inv_mod. split; [|apply Z.mod_pos_bound; lia].
  set (k := Z.to_nat (Z.log2_up q)).
  pose proof (inv_loop_ok a q k (S (S (2 * k))) q (a mod q) 0 1) as H.
  assert (Hk : a mod q < 2 ^ Z.of_nat k).
  { unfold k. rewrite Z2Nat.id by apply Z.log2_up_nonneg.
    pose proof (Z.log2_up_spec q ltac:(lia)). lia. }
  specialize (H ltac:(lia) ltac:(lia) ltac:(lia)).
  assert (G : Z.gcd q (a mod q) = 1).
  { apply Zgcd_1_rel_prime. apply prime_rel_prime; [assumption|].
    intros Hd. apply Ha. apply Z.mod_divide in Hd; [|lia]. rewrite Z.mod_mod in Hd; lia. }
  rewrite G in H.
  set (x := inv_loop (S (S (2 * k))) q (a mod q) 0 1) in *.
  assert (H' : (1 - x * a) mod q = 0).
  { apply H.
    - rewrite Z.mul_0_l, Z.sub_0_r. apply Z.mod_same. lia.
    - replace (a mod q - 1 * a) with (- (a - a mod q)) by ring.
      rewrite Z.mod_opp_l_z; try lia. rewrite Zminus_mod_idemp_r, Z.sub_diag. apply Z.mod_0_l. lia. }
  rewrite Zmult_mod_idemp_r.
  replace (a * x) with (1 - (1 - x * a)) by ring.
  rewrite Zminus_mod, H', Z.sub_0_r, Z.mod_mod by lia. apply Z.mod_small. lia.
Qed.

(* ---------- eval ---------- *)

(* Horner evaluation without reduction, coefficients lowest degree first *)
Fixpoint horner (cs : list Z) (x : Z) : Z :=
  match cs with
  | [] => 0
  | c :: r => c + x * horner r x
  end.

Lemma eval_from_horner (q x : Z) : forall cs k acc,
  eval_from q x k cs acc mod q = (acc + x ^ Z.of_nat k * horner cs x) mod q.
Proof.
  induction cs as [|a r IH]; intros k acc; cbn [eval_from horner].
  - rewrite Z.mul_0_r, Z.add_0_r. reflexivity.
  - rewrite IH. rewrite Zplus_mod_idemp_l. f_equal.
    rewrite Nat2Z.inj_succ, Z.pow_succ_r by lia. ring.
Qed.

Lemma eval_horner (q : Z) (cs : list Z) (x : N) :
  eval q cs x mod q = horner cs (Z.of_N x) mod q.
Proof.
  unfold eval. rewrite eval_from_horner. change (Z.of_nat 0) with 0. rewrite Z.pow_0_r.
  f_equal. ring.
Qed.

(* eval returns a reduced value *)
Lemma eval_from_reduced (q x : Z) : 0 < q -> forall cs k acc,
  acc mod q = acc -> eval_from q x k cs acc mod q = eval_from q x k cs acc.
Proof.
  intros Hq. induction cs as [|a r IH]; intros k acc Hacc; cbn [eval_from]; [assumption|].
  apply IH. apply Z.mod_mod. lia.
Qed.
Lemma eval_reduced (q : Z) (cs : list Z) (x : N) : 0 < q -> eval q cs x mod q = eval q cs x.
Proof. intros Hq. unfold eval. apply eval_from_reduced; [assumption|]. apply Z.mod_0_l. lia. Qed.

Lemma horner_at_0 (cs : list Z) : horner cs 0 = nth 0 cs 0.
Proof. destruct cs; cbn; lia. Qed.

(* coefficient-wise sum of two polynomials *)
Fixpoint padd (a b : list Z) : list Z :=
  match a, b with
  | [], _ => b
  | _, [] => a
  | x :: a', y :: b' => (x + y) :: padd a' b'
  end.
Lemma horner_padd : forall a b x, horner (padd a b) x = horner a x + horner b x.
Proof.
  induction a as [|c a IH]; intros [|d b] x; cbn [padd horner]; try lia.
  rewrite IH. ring.
Qed.
Lemma length_padd : forall a b, length (padd a b) = Nat.max (length a) (length b).
Proof.
  induction a as [|c a IH]; intros [|d b]; cbn [padd length]; try lia.
  rewrite IH. lia.
Qed.
Definition psum (fs : list (list Z)) : list Z := fold_right padd [] fs.
Lemma horner_psum : forall fs x, horner (psum fs) x = fold_right Z.add 0 (map (fun f => horner f x) fs).
Proof.
  induction fs as [|f fs IH]; intros x; cbn [psum fold_right map]; [reflexivity|].
  fold (psum fs). rewrite horner_padd, IH. reflexivity.
Qed.
Lemma length_psum : forall fs n, (forall f, In f fs -> (length f <= n)%nat) -> (length (psum fs) <= n)%nat.
Proof.
  induction fs as [|f fs IH]; intros n H; cbn [psum fold_right]; [cbn; lia|].
  fold (psum fs). rewrite length_padd.
  assert (length f <= n)%nat by (apply H; left; reflexivity).
  assert (length (psum fs) <= n)%nat by (apply IH; intros g Hg; apply H; right; exact Hg).
  lia.
Qed.

(* ---------- modular sums as the folds compute them ---------- *)
Definition sum_mod (q : Z) (l : list Z) (init : Z) : Z :=
  fold_left (fun acc v => (acc + v) mod q) l init.

Lemma sum_mod_spec (q : Z) : forall l init,
  sum_mod q l init mod q = (init + fold_right Z.add 0 l) mod q.
Proof.
  induction l as [|v l IH]; intros init; cbn [sum_mod fold_left fold_right].
  - rewrite Z.add_0_r. reflexivity.
  - fold (sum_mod q l ((init + v) mod q)). rewrite IH, Zplus_mod_idemp_l. f_equal. ring.
Qed.
Lemma sum_mod_reduced (q : Z) : 0 < q -> forall l init,
  init mod q = init -> sum_mod q l init mod q = sum_mod q l init.
Proof.
  intros Hq. induction l as [|v l IH]; intros init Hi; cbn [sum_mod fold_left]; [assumption|].
  apply IH. apply Z.mod_mod. lia.
Qed.

Lemma fold_add_perm : forall l l' : list Z, Permutation l l' ->
  fold_right Z.add 0 l = fold_right Z.add 0 l'.
Proof. induction 1; cbn [fold_right]; lia. Qed.

Lemma fold_add_mod_ext (q : Z) : forall (A : Type) (f g : A -> Z) (l : list A),
  (forall x, In x l -> f x mod q = g x mod q) ->
  fold_right Z.add 0 (map f l) mod q = fold_right Z.add 0 (map g l) mod q.
Proof.
  intros A f g. induction l as [|x l IH]; intros H; cbn [map fold_right]; [reflexivity|].
  rewrite Zplus_mod, (H x (or_introl eq_refl)), IH, <- Zplus_mod; [reflexivity|].
  intros y Hy. apply H. right. exact Hy.
Qed.
