(* C06 — proofs about the model of Deduplicator.NotifyRelayEntryStarted (Model/C06.v).
   The statements restated in Props/C06.v are the theorems at the end of this file. *)
From Coq Require Import ZArith NArith List Bool Lia Sorted.
From Coq Require Import ZifyBool ZifyNat ZifyN.
From KV Require Import Common.Verdict Model.C06.
Import ListNotations.
Open Scope Z_scope.

(* ------------------------------------------------------------------ *)
(* strings                                                             *)
(* ------------------------------------------------------------------ *)
Lemma str_eqb_eq (a b : str) : str_eqb a b = true <-> a = b.
Proof.
  revert b; induction a as [|x a IH]; intros [|y b]; cbn [str_eqb]; split; intro H;
    try reflexivity; try discriminate.
  - apply andb_prop in H. destruct H as [H1 H2].
    apply N.eqb_eq in H1. apply IH in H2. subst; reflexivity.
  - inversion H; subst. rewrite N.eqb_refl. cbn [andb]. apply IH. reflexivity.
Qed.
Lemma str_eqb_neq (a b : str) : str_eqb a b = false <-> a <> b.
Proof.
  split.
  - intros H E. apply str_eqb_eq in E. congruence.
  - intro H. destruct (str_eqb a b) eqn:E; [|reflexivity]. apply str_eqb_eq in E. contradiction.
Qed.

Lemma confirms_iff (o : op) : confirms o = true <-> chain_confirms o.
Proof.
  unfold confirms, chain_confirms. split.
  - destruct (ans_entry (ans o)) as [ce|]; [|discriminate].
    destruct (ans_block (ans o)) as [cb|]; [|discriminate].
    intro H. apply andb_prop in H. destruct H as [H1 H2].
    apply str_eqb_eq in H1. apply Z.eqb_eq in H2.
    exists ce, cb. repeat split; assumption.
  - intros (ce & cb & He & Hb & H1 & H2). rewrite He, Hb.
    apply andb_true_intro. split; [apply str_eqb_eq; exact H1|apply Z.eqb_eq; exact H2].
Qed.

(* ------------------------------------------------------------------ *)
(* one step                                                            *)
(* ------------------------------------------------------------------ *)
Lemma notify_snd (s : state) (o : op) : snd (notify s o) = should_update s o.
Proof. unfold notify. destruct (should_update s o); reflexivity. Qed.

Lemma notify_true (s : state) (o : op) :
  snd (notify s o) = RTrue -> fst (notify s o) = {| cur_block := blk o; cur_entry := ent o |}.
Proof. unfold notify. destruct (should_update s o); cbn [fst snd]; intro H; congruence. Qed.

Lemma notify_not_true (s : state) (o : op) :
  snd (notify s o) <> RTrue -> fst (notify s o) = s.
Proof. unfold notify. destruct (should_update s o); cbn [fst snd]; intro H; congruence. Qed.

Lemma is_true_iff (r : result) : is_true r = true <-> r = RTrue.
Proof. destruct r; cbn [is_true]; split; intro H; congruence. Qed.

(* characterisation of the closure shouldUpdate in a state that holds a request *)
Lemma should_update_some (b0 : Z) (e0 : str) (o : op) :
  b0 <> 0 ->
  should_update {| cur_block := b0; cur_entry := e0 |} o = RTrue <->
  (b0 < blk o /\ (ent o <> e0 \/ chain_confirms o)).
Proof.
  intro Hb. unfold should_update. cbn [cur_block cur_entry].
  destruct (Z.eqb_spec b0 0) as [E|_]; [contradiction|].
  destruct (Z.ltb_spec b0 (blk o)) as [Hlt|Hge].
  - destruct (str_eqb (ent o) e0) eqn:Ee.
    + apply str_eqb_eq in Ee.
      split.
      * intro H. split; [exact Hlt|]. right. apply confirms_iff. unfold confirms.
        destruct (ans_entry (ans o)) as [ce|]; [|discriminate].
        destruct (ans_block (ans o)) as [cb|]; [|discriminate].
        destruct (str_eqb (ent o) (hex_encode ce) && (blk o =? big_uint64 cb)); [reflexivity|discriminate].
      * intros [_ [Hne|Hc]]; [contradiction|].
        apply confirms_iff in Hc. unfold confirms in Hc.
        destruct (ans_entry (ans o)) as [ce|]; [|discriminate].
        destruct (ans_block (ans o)) as [cb|]; [|discriminate].
        rewrite Hc. reflexivity.
    + apply str_eqb_neq in Ee. split; [|reflexivity].
      intros _. split; [exact Hlt|left; exact Ee].
  - split; [discriminate|]. intros [Hlt _]. lia.
Qed.

Lemma should_update_init_like (s : state) (o : op) :
  cur_block s = 0 -> should_update s o = RTrue.
Proof. intro H. unfold should_update. rewrite H. reflexivity. Qed.

Lemma should_update_err (s : state) (o : op) :
  should_update s o = RErr -> ans_entry (ans o) = None \/ ans_block (ans o) = None.
Proof.
  unfold should_update.
  destruct (cur_block s =? 0); [discriminate|].
  destruct (cur_block s <? blk o); [|discriminate].
  destruct (str_eqb (ent o) (cur_entry s)); [|discriminate].
  destruct (ans_entry (ans o)) as [ce|]; [|intros _; left; reflexivity].
  destruct (ans_block (ans o)) as [cb|]; [|intros _; right; reflexivity].
  destruct (str_eqb (ent o) (hex_encode ce) && (blk o =? big_uint64 cb)); discriminate.
Qed.

(* a processed request is strictly newer than the state's request *)
Lemma accept_newer (s : state) (o : op) :
  0 <= cur_block s -> 0 < blk o -> should_update s o = RTrue -> cur_block s < blk o.
Proof.
  intros Hs Ho. unfold should_update.
  destruct (Z.eqb_spec (cur_block s) 0) as [E|_]; [intros _; lia|].
  destruct (Z.ltb_spec (cur_block s) (blk o)) as [Hlt|_]; [intros _; exact Hlt|discriminate].
Qed.

Lemma notify_mono (s : state) (o : op) :
  0 <= cur_block s -> 0 < blk o -> cur_block s <= cur_block (fst (notify s o)).
Proof.
  intros Hs Ho. destruct (should_update s o) eqn:E.
  - rewrite notify_true by (rewrite notify_snd; exact E). cbn [cur_block].
    pose proof (accept_newer s o Hs Ho E). lia.
  - rewrite notify_not_true by (rewrite notify_snd, E; discriminate). lia.
  - rewrite notify_not_true by (rewrite notify_snd, E; discriminate). lia.
  - rewrite notify_not_true by (rewrite notify_snd, E; discriminate). lia.
Qed.

(* ------------------------------------------------------------------ *)
(* histories                                                           *)
(* ------------------------------------------------------------------ *)
Definition acc_blocks (s : state) (ops : list op) : list Z :=
  map blk (accepted ops (run s ops)).

Lemma acc_blocks_sorted (ops : list op) :
  forall s, 0 <= cur_block s -> positive ops ->
    Forall (fun b => cur_block s < b) (acc_blocks s ops) /\
    StronglySorted Z.lt (acc_blocks s ops).
Proof.
  unfold acc_blocks.
  induction ops as [|o t IH]; intros s Hs Hp; cbn [run accepted map].
  - split; constructor.
  - inversion Hp as [|o' t' Ho Ht]; subst.
    pose proof (notify_mono s o Hs Ho) as Hm.
    destruct (IH (fst (notify s o)) ltac:(lia) Ht) as [IH1 IH2].
    destruct (is_true (snd (notify s o))) eqn:E; cbn [map].
    + apply is_true_iff in E.
      assert (Hlt : cur_block s < blk o)
        by (apply accept_newer; [exact Hs|exact Ho|rewrite <- notify_snd; exact E]).
      rewrite (notify_true s o E) in IH1, IH2. rewrite (notify_true s o E).
      cbn [cur_block] in IH1.
      split.
      * constructor; [exact Hlt|].
        eapply Forall_impl; [|exact IH1]. cbn beta. intros b Hb. lia.
      * constructor; [exact IH2|exact IH1].
    + split; [|exact IH2].
      eapply Forall_impl; [|exact IH1]. cbn beta. intros b Hb. lia.
Qed.

Lemma StronglySorted_lt_NoDup (l : list Z) : StronglySorted Z.lt l -> NoDup l.
Proof.
  induction 1 as [|a l Hs IH Hf]; constructor; [|exact IH].
  intro Hin. rewrite Forall_forall in Hf. specialize (Hf a Hin). lia.
Qed.

(* the state is the last processed request *)
Definition last_ok (last : option (Z * str)) : Prop :=
  match last with None => True | Some (b0, _) => 0 < b0 end.

Lemma final_is_last (ops : list op) :
  forall last, last_ok last -> positive ops ->
    final (state_of last) ops = state_of (last_from last ops (run (state_of last) ops)) /\
    last_ok (last_from last ops (run (state_of last) ops)).
Proof.
  induction ops as [|o t IH]; intros last Hl Hp; cbn [final run last_from].
  - split; [reflexivity|exact Hl].
  - inversion Hp as [|o' t' Ho Ht]; subst.
    destruct (is_true (snd (notify (state_of last) o))) eqn:E.
    + apply is_true_iff in E. rewrite (notify_true _ _ E).
      exact (IH (Some (blk o, ent o)) Ho Ht).
    + assert (E' : snd (notify (state_of last) o) <> RTrue)
        by (intro H; apply is_true_iff in H; congruence).
      rewrite (notify_not_true _ _ E'). exact (IH last Hl Ht).
Qed.

(* answer of one notification in terms of the last processed request *)
Lemma answer_characterised (last : option (Z * str)) (o : op) :
  last_ok last ->
  (snd (notify (state_of last) o) = RTrue <-> processable last o).
Proof.
  intro Hl. rewrite notify_snd. destruct last as [[b0 e0]|]; cbn [state_of processable].
  - cbn [last_ok] in Hl. apply should_update_some. lia.
  - split; [intros _; exact I|intros _; apply should_update_init_like; reflexivity].
Qed.

Lemma genuinely_new_processable (last : option (Z * str)) (o : op) :
  genuinely_new last o -> processable last o.
Proof.
  destruct last as [[b0 e0]|]; cbn [genuinely_new processable]; [|trivial].
  intros [H1 H2]. split; [exact H1|left; exact H2].
Qed.

(* ------------------------------------------------------------------ *)
(* executable spec: soundness and the model passes it                  *)
(* ------------------------------------------------------------------ *)
Lemma may_accept_iff (last : option (Z * str)) (o : op) :
  may_accept last o = true <-> processable last o.
Proof.
  destruct last as [[b0 e0]|]; cbn [may_accept processable]; [|split; trivial].
  split.
  - intro H. apply andb_prop in H. destruct H as [H1 H2]. split; [lia|].
    apply orb_prop in H2. destruct H2 as [H2|H2].
    + left. apply str_eqb_neq. destruct (str_eqb (ent o) e0); [discriminate|reflexivity].
    + right. apply confirms_iff. exact H2.
  - intros [H1 H2]. apply andb_true_intro. split; [lia|].
    destruct H2 as [H2|H2].
    + apply str_eqb_neq in H2. rewrite H2. reflexivity.
    + apply confirms_iff in H2. rewrite H2. apply orb_true_r.
Qed.

Lemma must_accept_iff (last : option (Z * str)) (o : op) :
  must_accept last o = true <-> genuinely_new last o.
Proof.
  destruct last as [[b0 e0]|]; cbn [must_accept genuinely_new]; [|split; trivial].
  split.
  - intro H. apply andb_prop in H. destruct H as [H1 H2]. split; [lia|].
    apply str_eqb_neq. destruct (str_eqb (ent o) e0); [discriminate|reflexivity].
  - intros [H1 H2]. apply andb_true_intro. split; [lia|].
    apply str_eqb_neq in H2. rewrite H2. reflexivity.
Qed.

(* the Prop form of the property on an observed history (any outputs, not only the model's):
   at every position, relative to the last request answered true before it *)
Definition history_ok (ops : list op) (outs : list result) : Prop :=
  length ops = length outs /\
  forall p o q po r qo,
    ops = p ++ o :: q -> outs = po ++ r :: qo -> length p = length po ->
    (r = RTrue -> processable (last_from None p po) o) /\
    (genuinely_new (last_from None p po) o -> r = RTrue).

Lemma spec_from_sound (ops : list op) :
  forall outs last, positive ops -> spec_from last ops outs = true ->
    length ops = length outs /\
    forall p o q po r qo,
      ops = p ++ o :: q -> outs = po ++ r :: qo -> length p = length po ->
      (r = RTrue -> processable (last_from last p po) o) /\
      (genuinely_new (last_from last p po) o -> r = RTrue).
Proof.
  induction ops as [|o0 t IH]; intros outs last Hp Hs.
  - destruct outs as [|r0 outs]; [|discriminate]. split; [reflexivity|].
    intros p o q po r qo E. destruct p; discriminate.
  - destruct outs as [|r0 outs]; [discriminate|].
    inversion Hp as [|o' t' Ho Ht]; subst.
    cbn [spec_from] in Hs.
    destruct (Z.leb_spec (blk o0) 0) as [Hle|_]; [lia|].
    set (last' := if is_true r0 then Some (blk o0, ent o0) else last).
    assert (Hrest : spec_from last' t outs = true /\
                     (r0 = RTrue -> processable last o0) /\
                     (genuinely_new last o0 -> r0 = RTrue)).
    { unfold last'. destruct r0; cbn [is_true];
        apply andb_prop in Hs; destruct Hs as [H1 H2].
      - split; [exact H2|]. split; [intros _; apply may_accept_iff; exact H1|reflexivity].
      - split; [exact H2|]. split; [discriminate|].
        intro G. apply must_accept_iff in G. rewrite G in H1. discriminate.
      - split; [exact H2|]. split; [discriminate|].
        intro G. apply must_accept_iff in G. rewrite G in H1. discriminate.
      - split; [exact H2|]. split; [discriminate|].
        intro G. apply must_accept_iff in G. rewrite G in H1. discriminate. }
    destruct Hrest as (Hs' & Hmay & Hmust).
    destruct (IH outs last' Ht Hs') as [Hlen Hall].
    split; [cbn [length]; congruence|].
    intros p o q po r qo Eo Er Hl.
    destruct p as [|p0 p]; destruct po as [|r1 po]; try discriminate.
    + cbn [app] in Eo, Er. inversion Eo; inversion Er; subst. cbn [last_from].
      split; assumption.
    + cbn [app] in Eo, Er. inversion Eo; inversion Er; subst. cbn [last_from].
      apply (Hall p o q po r qo eq_refl eq_refl). cbn [length] in Hl. lia.
Qed.

Lemma accepted_sorted_of_history (ops : list op) :
  forall outs last, positive ops -> last_ok last -> spec_from last ops outs = true ->
    Forall (fun b => match last with None => 0 < b | Some (b0, _) => b0 < b end)
           (map blk (accepted ops outs)) /\
    StronglySorted Z.lt (map blk (accepted ops outs)).
Proof.
  induction ops as [|o t IH]; intros outs last Hp Hl Hs.
  - destruct outs; cbn [accepted map]; split; constructor.
  - destruct outs as [|r outs]; [discriminate|].
    inversion Hp as [|o' t' Ho Ht]; subst.
    cbn [spec_from] in Hs.
    destruct (Z.leb_spec (blk o) 0) as [Hle|_]; [lia|].
    cbn [accepted].
    destruct r; cbn [is_true]; apply andb_prop in Hs; destruct Hs as [H1 H2].
    + destruct (IH outs (Some (blk o, ent o)) Ht Ho H2) as [IH1 IH2].
      cbn [map].
      assert (Hnew : match last with None => 0 < blk o | Some (b0, _) => b0 < blk o end).
      { destruct last as [[b0 e0]|]; [|exact Ho].
        cbn [may_accept] in H1. apply andb_prop in H1. destruct H1 as [H1 _]. lia. }
      split.
      * constructor; [exact Hnew|].
        eapply Forall_impl; [|exact IH1]. cbn beta. intros b Hb.
        destruct last as [[b0 e0]|]; [cbn [last_ok] in Hl|]; lia.
      * constructor; [exact IH2|exact IH1].
    + exact (IH outs last Ht Hl H2).
    + exact (IH outs last Ht Hl H2).
    + exact (IH outs last Ht Hl H2).
Qed.

Lemma model_passes_spec_from (ops : list op) :
  forall last, last_ok last -> spec_from last ops (run (state_of last) ops) = true.
Proof.
  induction ops as [|o t IH]; intros last Hl; cbn [run spec_from]; [reflexivity|].
  destruct (Z.leb_spec (blk o) 0) as [Hle|Hpos]; [reflexivity|].
  pose proof (answer_characterised last o Hl) as Hc.
  destruct (snd (notify (state_of last) o)) eqn:E.
  - rewrite (notify_true _ _ E).
    apply andb_true_intro. split.
    + apply may_accept_iff. apply Hc. reflexivity.
    + exact (IH (Some (blk o, ent o)) Hpos).
  - rewrite notify_not_true by (rewrite E; discriminate).
    apply andb_true_intro. split; [|exact (IH last Hl)].
    destruct (must_accept last o) eqn:M; [|reflexivity].
    apply must_accept_iff in M. apply genuinely_new_processable in M.
    apply Hc in M. discriminate.
  - rewrite notify_not_true by (rewrite E; discriminate).
    apply andb_true_intro. split; [|exact (IH last Hl)].
    destruct (must_accept last o) eqn:M; [|reflexivity].
    apply must_accept_iff in M. apply genuinely_new_processable in M.
    apply Hc in M. discriminate.  - rewrite notify_not_true by (rewrite E; discriminate).
    apply andb_true_intro. split; [|exact (IH last Hl)].
    destruct (must_accept last o) eqn:M; [|reflexivity].
    apply must_accept_iff in M. apply genuinely_new_processable in M.
    apply Hc in M. discriminate.
Qed.

(* ------------------------------------------------------------------ *)
(* concurrent histories                                                *)
(* ------------------------------------------------------------------ *)
Lemma conc_invariant (l : list cop) :
  forall s, 0 <= cur_block s ->
    all_positive l = true -> realtime_ok l = true ->
    map c_out l = run s (map c_op l) ->
    all_pairs_ok l = true /\
    Forall (fun c => is_true (c_out c) = true -> cur_block s < blk (c_op c)) l.
Proof.
  induction l as [|a t IH]; intros s Hs Hp Hr Hm.
  - split; [reflexivity|constructor].
  - cbn [all_positive forallb] in Hp. apply andb_prop in Hp. destruct Hp as [Hpa Hpt].
    cbn [realtime_ok] in Hr. apply andb_prop in Hr. destruct Hr as [Hra Hrt].
    cbn [map run] in Hm. inversion Hm as [[Ha Ht]].
    assert (Hpa' : 0 < blk (c_op a)) by lia.
    pose proof (notify_mono s (c_op a) Hs Hpa') as Hmono.
    destruct (IH (fst (notify s (c_op a))) ltac:(lia) Hpt Hrt Ht) as [IH1 IH2].
    split.
    + cbn [all_pairs_ok]. apply andb_true_intro. split; [|exact IH1].
      apply forallb_forall. intros b Hb.
      rewrite Forall_forall in IH2. specialize (IH2 b Hb).
      rewrite forallb_forall in Hra. specialize (Hra b Hb).
      unfold pair_ok.
      destruct (is_true (c_out a)) eqn:Ea; [|reflexivity].
      destruct (is_true (c_out b)) eqn:Eb; [|reflexivity].
      cbn [andb negb orb].
      specialize (IH2 eq_refl).
      apply is_true_iff in Ea. rewrite Ha in Ea.
      rewrite (notify_true _ _ Ea) in IH2. cbn [cur_block] in IH2.
      rewrite Hra. cbn [orb andb].
      destruct (Z.eqb_spec (blk (c_op a)) (blk (c_op b))) as [E|_]; [lia|].
      destruct (Z.ltb_spec (blk (c_op a)) (blk (c_op b))) as [_|E]; [|lia].
      cbn [negb andb]. rewrite orb_true_r. reflexivity.
    + constructor.
      * intro E. apply is_true_iff in E. rewrite Ha in E.
        apply accept_newer; [exact Hs|exact Hpa'|rewrite <- notify_snd; exact E].
      * eapply Forall_impl; [|exact IH2]. cbn beta. intros c Hc E. specialize (Hc E). lia.
Qed.

Lemma all_pairs_ok_sound (l : list cop) :
  all_pairs_ok l = true ->
  forall p a m b q, l = p ++ a :: m ++ b :: q ->
    c_out a = RTrue -> c_out b = RTrue ->
    blk (c_op a) <> blk (c_op b) /\
    ((c_resp a < c_inv b)%N -> blk (c_op a) < blk (c_op b)) /\
    ((c_resp b < c_inv a)%N -> blk (c_op b) < blk (c_op a)).
Proof.
  induction l as [|x t IH]; intros H p a m b q E Ta Tb.
  - destruct p; discriminate.
  - cbn [all_pairs_ok] in H. apply andb_prop in H. destruct H as [H1 H2].
    destruct p as [|p0 p]; cbn [app] in E; inversion E; subst.
    + rewrite forallb_forall in H1.
      assert (Hin : In b (m ++ b :: q)) by (apply in_or_app; right; left; reflexivity).
      specialize (H1 b Hin). unfold pair_ok in H1.
      rewrite Ta, Tb in H1. cbn [is_true andb negb orb] in H1.
      apply andb_prop in H1. destruct H1 as [H1 H3]. apply andb_prop in H1. destruct H1 as [H0 H1].
      split; [lia|]. split; intro Hlt; lia.
    + exact (IH H2 p a m b q eq_refl Ta Tb).
Qed.

(* ================================================================== *)
(* theorems restated in Props/C06.v                                    *)
(* ================================================================== *)

Theorem accepted_start_blocks_strictly_increasing :
  forall ops, positive ops ->
    StronglySorted Z.lt (map blk (accepted ops (run init ops))).
Proof.
  intros ops Hp. apply (acc_blocks_sorted ops init); [cbn; lia|exact Hp].
Qed.

Theorem processed_at_most_once :
  forall ops, positive ops -> NoDup (map blk (accepted ops (run init ops))).
Proof.
  intros ops Hp. apply StronglySorted_lt_NoDup.
  apply accepted_start_blocks_strictly_increasing. exact Hp.
Qed.

Theorem state_is_last_processed_request :
  forall ops, positive ops ->
    final init ops = state_of (last_from None ops (run init ops)).
Proof. intros ops Hp. exact (proj1 (final_is_last ops None I Hp)). Qed.

Theorem answer_true_iff_processable :
  forall ops o, positive ops -> 0 < blk o ->
    (snd (notify (final init ops) o) = RTrue <->
     processable (last_from None ops (run init ops)) o).
Proof.
  intros ops o Hp Ho.
  destruct (final_is_last ops None I Hp) as [Hf Hl]. cbn [state_of] in Hf.
  rewrite Hf. apply answer_characterised. exact Hl.
Qed.

Theorem new_entry_always_processed :
  forall ops o, positive ops -> 0 < blk o ->
    genuinely_new (last_from None ops (run init ops)) o ->
    snd (notify (final init ops) o) = RTrue.
Proof.
  intros ops o Hp Ho G. apply answer_true_iff_processable; [exact Hp|exact Ho|].
  apply genuinely_new_processable. exact G.
Qed.

Theorem same_entry_only_when_chain_confirms :
  forall ops o b0 e0, positive ops -> 0 < blk o ->
    last_from None ops (run init ops) = Some (b0, e0) ->
    ent o = e0 ->
    snd (notify (final init ops) o) = RTrue ->
    b0 < blk o /\ chain_confirms o.
Proof.
  intros ops o b0 e0 Hp Ho Hl He Ht.
  apply answer_true_iff_processable in Ht; [|exact Hp|exact Ho].
  rewrite Hl in Ht. cbn [processable] in Ht. destruct Ht as [H1 [H2|H2]].
  - contradiction.
  - split; assumption.
Qed.

Theorem rejections_and_chain_errors_change_nothing :
  forall s o,
    (snd (notify s o) <> RTrue -> fst (notify s o) = s) /\
    (snd (notify s o) = RErr -> ans_entry (ans o) = None \/ ans_block (ans o) = None).
Proof.
  intros s o. split; [apply notify_not_true|].
  rewrite notify_snd. apply should_update_err.
Qed.

(* with a start block of 0 the same request is processed twice: the guard is needed *)
Definition zero_witness : list op :=
  let o := {| blk := 0; ent := [97%N]; ans := {| ans_entry := None; ans_block := None |} |} in
  [o; o].
Theorem zero_start_block_guard_is_necessary :
  exists ops, ~ NoDup (map blk (accepted ops (run init ops))).
Proof.
  exists zero_witness. vm_compute. intro H. inversion H as [|x l Hn _]. apply Hn. left. reflexivity.
Qed.

Theorem spec_seq_sound :
  forall ops outs, positive ops -> spec_seq ops outs = true ->
    StronglySorted Z.lt (map blk (accepted ops outs)) /\ history_ok ops outs.
Proof.
  intros ops outs Hp Hs. unfold spec_seq in Hs. split.
  - exact (proj2 (accepted_sorted_of_history ops outs None Hp I Hs)).
  - exact (spec_from_sound ops outs None Hp Hs).
Qed.

Theorem model_outputs_pass_spec :
  forall ops, spec_seq ops (run init ops) = true.
Proof. intro ops. exact (model_passes_spec_from ops None I). Qed.

Theorem linearisable_history_satisfies_property :
  forall l, realtime_ok l = true -> map c_out l = run init (map c_op l) ->
    spec_conc l = true.
Proof.
  intros l Hr Hm. unfold spec_conc.
  destruct (all_positive l) eqn:Hp; [|reflexivity]. cbn [negb orb].
  exact (proj1 (conc_invariant l init ltac:(cbn; lia) Hp Hr Hm)).
Qed.

Theorem spec_conc_sound :
  forall l, spec_conc l = true -> Forall (fun c => 0 < blk (c_op c)) l ->
    forall p a m b q, l = p ++ a :: m ++ b :: q ->
      c_out a = RTrue -> c_out b = RTrue ->
      blk (c_op a) <> blk (c_op b) /\
      ((c_resp a < c_inv b)%N -> blk (c_op a) < blk (c_op b)) /\
      ((c_resp b < c_inv a)%N -> blk (c_op b) < blk (c_op a)).
Proof.
  intros l Hs Hp. unfold spec_conc in Hs.
  assert (Hpos : all_positive l = true).
  { unfold all_positive. apply forallb_forall. intros c Hc.
    rewrite Forall_forall in Hp. specialize (Hp c Hc). lia. }
  rewrite Hpos in Hs. cbn [negb orb] in Hs. exact (all_pairs_ok_sound l Hs).
Qed.

(* hypotheses are satisfiable: a retried request (same previous entry, later block) that the
   chain confirms is processed, a stale redelivery is not *)
Example satisfiable :
  let a := {| blk := 10; ent := [48; 49]%N; ans := {| ans_entry := None; ans_block := None |} |} in
  let b := {| blk := 12; ent := [48; 49]%N;
              ans := {| ans_entry := Some [1%N]; ans_block := Some 12 |} |} in
  positive [a; b; a] /\ run init [a; b; a] = [RTrue; RTrue; RFalse] /\ chain_confirms b.
Proof.
  cbn zeta. split; [repeat constructor|]. split; [vm_compute; reflexivity|].
  exists [1%N], 12. repeat split.
Qed.
