(* C16 — proofs about Model/C16.v *)
From Coq Require Import ZArith NArith List Bool Lia.
From KV Require Import Common.Verdict Model.C16.
Import ListNotations.
Open Scope N_scope.

Lemma msg_eqb_eq : forall a b, msg_eqb a b = true <-> a = b.
Proof.
  intros [a1 a2] [b1 b2]. unfold msg_eqb. cbn. rewrite andb_true_iff, !N.eqb_eq.
  split; [intros [-> ->]; reflexivity | intro H; injection H; auto].
Qed.
Lemma mem_in : forall m l, mem m l = true <-> In m l.
Proof.
  intros m l. unfold mem. rewrite existsb_exists. split.
  - intros (x & Hx & E). apply msg_eqb_eq in E. subst. exact Hx.
  - intro H. exists m. split; [exact H | apply msg_eqb_eq; reflexivity].
Qed.
Lemma mem_false : forall m l, mem m l = false <-> ~ In m l.
Proof. intros m l. rewrite <- mem_in. destruct (mem m l); split; congruence. Qed.

(* ---------- program counters ---------- *)
Lemma get_set_same : forall l t p, (t < length l)%nat -> get_pc (set_pc l t p) t = p.
Proof.
  unfold get_pc. induction l as [|x r IH]; intros t p H; cbn in H; [lia|].
  destruct t; cbn; [reflexivity | apply IH; lia].
Qed.
Lemma get_set_other : forall l t t' p, t <> t' -> get_pc (set_pc l t p) t' = get_pc l t'.
Proof.
  unfold get_pc. induction l as [|x r IH]; intros t t' p H; [reflexivity|].
  destruct t, t'; cbn; try congruence; auto.
Qed.
Lemma set_length : forall l t p, length (set_pc l t p) = length l.
Proof. induction l as [|x r IH]; intros [|t] p; cbn; auto. Qed.
Lemma non_idle_lt : forall l t, get_pc l t <> Idle -> (t < length l)%nat.
Proof.
  unfold get_pc. intros l t H. destruct (Nat.lt_ge_cases t (length l)) as [L|G]; [exact L|].
  rewrite nth_overflow in H by lia. congruence.
Qed.

Lemma run_cons : forall st o t, run st (o :: t) = run (step st o) t.
Proof. reflexivity. Qed.
Lemma run_app : forall st a b, run st (a ++ b) = run (run st a) b.
Proof. intros. unfold run. apply fold_left_app. Qed.

Lemma NoDup_snoc : forall {A} (l : list A) a, NoDup l -> ~ In a l -> NoDup (l ++ [a]).
Proof.
  intros A l a Hnd Hn. induction l as [|x l IH]; cbn.
  - constructor; [intros [] | constructor].
  - inversion Hnd as [|? ? Hx Hl]; subst. constructor.
    + rewrite in_app_iff. cbn. intros [H | [H | []]]; [contradiction|]. subst. apply Hn. left; reflexivity.
    + apply IH; [exact Hl|]. intro H. apply Hn. right; exact H.
Qed.

(* ---------- at most once ---------- *)
Definition inv (st : hstate) : Prop :=
  NoDup (map snd (log st)) /\
  (forall m, In m (map snd (log st)) -> In m (cache st)) /\
  (forall t m, get_pc (pcs st) t = Calling m -> In m (cache st) /\ ~ In m (map snd (log st))) /\
  (forall t1 t2 m, get_pc (pcs st) t1 = Calling m -> get_pc (pcs st) t2 = Calling m -> t1 = t2).

Lemma inv_init : forall n, inv (init n).
Proof.
  intro n. unfold inv, init. cbn [log cache pcs map]. split; [constructor|]. split; [intros m [] |].
  assert (H : forall t, get_pc (repeat Idle n) t = Idle).
  { intro t. unfold get_pc. destruct (Nat.lt_ge_cases t n).
    - apply nth_repeat.
    - apply nth_overflow. rewrite repeat_length. lia. }
  split; intros; rewrite H in *; discriminate.
Qed.

Ltac pc_cases st t t' :=
  destruct (Nat.eq_dec t t') as [<- | Hne];
  [ rewrite get_set_same by (apply non_idle_lt; congruence)
  | rewrite get_set_other by exact Hne ].

Lemma inv_step : forall st o, inv st -> inv (step st o).
Proof.
  intros st o Hinv. pose proof Hinv as (Hnd & Hlc & Hcall & Huniq). destruct o as [t m | t | t |]; cbn [step].
  - (* Check *)
    destruct (t <? length (pcs st))%nat eqn:Elt; [|exact Hinv].
    apply Nat.ltb_lt in Elt.
    destruct (get_pc (pcs st) t) eqn:Ep; try exact Hinv.
    destruct (cancelled st); [exact Hinv|].
    unfold inv; cbn [cache log pcs]. split; [exact Hnd|]. split; [exact Hlc|]. split.
    + intros t' m'. destruct (Nat.eq_dec t t') as [<- | Hne];
        [rewrite get_set_same by exact Elt; discriminate | rewrite get_set_other by exact Hne; apply Hcall].
    + intros t1 t2 m'.
      destruct (Nat.eq_dec t t1) as [<- | Hne1];
        [rewrite get_set_same by exact Elt; discriminate | rewrite get_set_other by exact Hne1].
      destruct (Nat.eq_dec t t2) as [<- | Hne2];
        [rewrite get_set_same by exact Elt; discriminate | rewrite get_set_other by exact Hne2].
      apply Huniq.
  - (* Filter *)
    destruct (get_pc (pcs st) t) as [|m|m] eqn:Ep; try exact Hinv.
    assert (Elt : (t < length (pcs st))%nat) by (apply non_idle_lt; congruence).
    destruct (mem m (cache st)) eqn:Em; unfold inv; cbn [cache log pcs].
    + split; [exact Hnd|]. split; [exact Hlc|]. split.
      * intros t' m'. destruct (Nat.eq_dec t t') as [<- | Hne];
          [rewrite get_set_same by exact Elt; discriminate | rewrite get_set_other by exact Hne; apply Hcall].
      * intros t1 t2 m'.
        destruct (Nat.eq_dec t t1) as [<- | Hne1];
          [rewrite get_set_same by exact Elt; discriminate | rewrite get_set_other by exact Hne1].
        destruct (Nat.eq_dec t t2) as [<- | Hne2];
          [rewrite get_set_same by exact Elt; discriminate | rewrite get_set_other by exact Hne2].
        apply Huniq.
    + apply mem_false in Em.
      split; [exact Hnd|]. split; [intros m' Hm'; right; auto|]. split.
      * intros t' m'. destruct (Nat.eq_dec t t') as [<- | Hne].
        -- rewrite get_set_same by exact Elt. intro H. injection H as <-.
           split; [left; reflexivity|]. intro Hin. apply Em. apply Hlc. exact Hin.
        -- rewrite get_set_other by exact Hne. intro H. destruct (Hcall _ _ H). split; [right; auto | auto].
      * intros t1 t2 m'.
        destruct (Nat.eq_dec t t1) as [<- | Hne1]; destruct (Nat.eq_dec t t2) as [<- | Hne2]; auto.
        -- rewrite get_set_same by exact Elt. rewrite get_set_other by exact Hne2.
           intros H1 H2. injection H1 as <-. destruct (Hcall _ _ H2). contradiction.
        -- rewrite get_set_same by exact Elt. rewrite get_set_other by exact Hne1.
           intros H1 H2. injection H2 as <-. destruct (Hcall _ _ H1). contradiction.
        -- rewrite !get_set_other by assumption. apply Huniq.
  - (* Call *)
    destruct (get_pc (pcs st) t) as [|m|m] eqn:Ep; try exact Hinv.
    assert (Elt : (t < length (pcs st))%nat) by (apply non_idle_lt; congruence).
    destruct (Hcall _ _ Ep) as [Hc Hnl].
    unfold inv; cbn [cache log pcs]. rewrite map_app. cbn [map snd].
    split.
    { apply NoDup_snoc; assumption. }
    split.
    { intros m' Hin. apply in_app_or in Hin. destruct Hin as [Hin | [<- | []]]; auto. }
    split.
    + intros t' m'. destruct (Nat.eq_dec t t') as [<- | Hne];
        [rewrite get_set_same by exact Elt; discriminate | rewrite get_set_other by exact Hne].
      intro H. destruct (Hcall _ _ H) as [H1 H2]. split; [exact H1|].
      intro Hin. apply in_app_or in Hin. destruct Hin as [Hin | [<- | []]]; [contradiction|].
      apply Hne. eapply Huniq; eauto.
    + intros t1 t2 m'.
      destruct (Nat.eq_dec t t1) as [<- | Hne1];
        [rewrite get_set_same by exact Elt; discriminate | rewrite get_set_other by exact Hne1].
      destruct (Nat.eq_dec t t2) as [<- | Hne2];
        [rewrite get_set_same by exact Elt; discriminate | rewrite get_set_other by exact Hne2].
      apply Huniq.
  - (* Cancel *) exact Hinv.
Qed.

Lemma inv_run : forall ops st, inv st -> inv (run st ops).
Proof. induction ops as [|o t IH]; intros st H; [exact H|]. rewrite run_cons. apply IH, inv_step, H. Qed.

(* every (sender, seqno) reaches the delegate at most once, for any number of goroutines
   sharing the filter and any interleaving of their steps with the cancellation *)
Theorem at_most_once : forall threads ops, NoDup (map snd (log (run (init threads) ops))).
Proof. intros. apply (inv_run ops (init threads) (inv_init threads)). Qed.

(* ---------- nothing after cancel ---------- *)
Definition inflight (st : hstate) (t : nat) (m : msg) : Prop :=
  get_pc (pcs st) t = Checked m \/ get_pc (pcs st) t = Calling m.

Lemma after_cancel : forall ops st, cancelled st = true ->
  exists extra, log (run st ops) = log st ++ extra /\ NoDup (map fst extra) /\
                (forall t m, In (t, m) extra -> inflight st t m) /\
                cancelled (run st ops) = true /\ length (pcs (run st ops)) = length (pcs st).
Proof.
  induction ops as [|o ops IH]; intros st Hc.
  - exists []. cbn. rewrite app_nil_r. repeat split; auto. constructor. intros t m [].
  - rewrite run_cons.
    assert (Hsame : forall st1, log st1 = log st -> cancelled st1 = true -> length (pcs st1) = length (pcs st) ->
              (forall t m, inflight st1 t m -> inflight st t m) ->
              exists extra, log (run st1 ops) = log st ++ extra /\ NoDup (map fst extra) /\
                (forall t m, In (t, m) extra -> inflight st t m) /\
                cancelled (run st1 ops) = true /\ length (pcs (run st1 ops)) = length (pcs st)).
    { intros st1 Hl Hc1 Hlen Hsub. destruct (IH st1 Hc1) as (extra & E1 & E2 & E3 & E4 & E5).
      exists extra. rewrite E1, Hl, E5, Hlen. repeat split; auto. }
    destruct o as [t m | t | t |]; cbn [step].
    + (* Check: the context is done, the message is skipped *)
      destruct (t <? length (pcs st))%nat; [|apply Hsame; auto].
      destruct (get_pc (pcs st) t); try (apply Hsame; auto; fail).
      rewrite Hc. apply Hsame; auto.
    + destruct (get_pc (pcs st) t) as [|m|m] eqn:Ep; try (apply Hsame; auto; fail).
      assert (Elt : (t < length (pcs st))%nat) by (apply non_idle_lt; congruence).
      destruct (mem m (cache st)); apply Hsame; cbn [log cancelled pcs]; auto using set_length;
        intros t' m'; unfold inflight; cbn [pcs];
        (destruct (Nat.eq_dec t t') as [<- | Hne];
         [rewrite get_set_same by exact Elt | rewrite get_set_other by exact Hne; auto]).
      * intros [H | H]; discriminate.
      * intros [H | H]; [discriminate | injection H as <-; left; exact Ep].
    + destruct (get_pc (pcs st) t) as [|m|m] eqn:Ep; try (apply Hsame; auto; fail).
      assert (Elt : (t < length (pcs st))%nat) by (apply non_idle_lt; congruence).
      set (st1 := {| cache := cache st; cancelled := cancelled st; pcs := set_pc (pcs st) t Idle;
                     log := log st ++ [(t, m)] |}).
      destruct (IH st1 Hc) as (extra & E1 & E2 & E3 & E4 & E5).
      exists ((t, m) :: extra). rewrite E1. unfold st1 at 1. cbn [log]. rewrite <- app_assoc. cbn [app].
      split; [reflexivity|]. split.
      { cbn [map fst]. constructor; [|exact E2]. intro Hin. apply in_map_iff in Hin.
        destruct Hin as ([t' m'] & Ht & Hin). cbn in Ht. subst t'. apply E3 in Hin.
        unfold inflight, st1 in Hin. cbn [pcs] in Hin. rewrite get_set_same in Hin by exact Elt.
        destruct Hin; discriminate. }
      split.
      { intros t' m' [H | Hin]; [injection H as <- <-; right; exact Ep|].
        apply E3 in Hin. unfold inflight, st1 in *. cbn [pcs] in Hin.
        destruct (Nat.eq_dec t t') as [<- | Hne];
          [rewrite get_set_same in Hin by exact Elt; destruct Hin; discriminate
          | rewrite get_set_other in Hin by exact Hne; exact Hin]. }
      split; [exact E4|]. rewrite E5. unfold st1. cbn [pcs]. apply set_length.
    + apply Hsame; auto.
Qed.

Lemma length_pcs_run : forall ops st, length (pcs (run st ops)) = length (pcs st).
Proof.
  induction ops as [|o ops IH]; intro st; [reflexivity|]. rewrite run_cons, IH.
  destruct o as [t m | t | t |]; cbn [step]; auto.
  - destruct (t <? length (pcs st))%nat; auto. destruct (get_pc (pcs st) t); auto.
    destruct (cancelled st); auto. cbn. apply set_length.
  - destruct (get_pc (pcs st) t); auto. destruct (mem m (cache st)); cbn; apply set_length.
  - destruct (get_pc (pcs st) t); auto. cbn. apply set_length.
Qed.

(* After the cancellation the delegate is only called for messages that had already passed
   the context check (the window between `ctx.Err() != nil` and `delegate(message)`), at most
   once per goroutine that was inside that window; messages checked after the cancellation
   are never delivered.  A channel's Recv has one such goroutine: at most one call. *)
Theorem nothing_after_cancel : forall threads pre post,
  let st1 := run (init threads) pre in
  let st2 := run st1 (Cancel :: post) in
  exists extra, log st2 = log st1 ++ extra /\
    NoDup (map fst extra) /\
    (forall t m, In (t, m) extra -> inflight st1 t m) /\
    (length extra <= threads)%nat /\
    ((forall t, get_pc (pcs st1) t = Idle) -> extra = []).
Proof.
  intros threads pre post st1 st2. unfold st2. rewrite run_cons.
  set (stc := step st1 Cancel).
  destruct (after_cancel post stc eq_refl) as (extra & E1 & E2 & E3 & _ & _).
  exists extra. split; [exact E1|]. split; [exact E2|]. split; [exact E3|]. split.
  - (* pigeonhole: distinct thread numbers below [threads] *)
    assert (Hlt : forall t, In t (map fst extra) -> (t < threads)%nat).
    { intros t Hin. apply in_map_iff in Hin. destruct Hin as ([t' m] & <- & Hin). cbn.
      apply E3 in Hin. unfold inflight, stc in Hin. cbn [step pcs] in Hin.
      assert (Hl : length (pcs st1) = threads).
      { unfold st1. rewrite length_pcs_run. cbn. apply repeat_length. }
      rewrite <- Hl. apply non_idle_lt. destruct Hin as [H|H]; rewrite H; discriminate. }
    rewrite <- (map_length fst extra).
    assert (Hincl : incl (map fst extra) (seq 0 threads)).
    { intros t Ht. apply in_seq. specialize (Hlt t Ht). lia. }
    pose proof (NoDup_incl_length E2 Hincl) as Hle. rewrite seq_length in Hle. exact Hle.
  - intro Hidle. destruct extra as [|[t m] r]; [reflexivity|]. exfalso.
    specialize (E3 t m (or_introl eq_refl)). unfold inflight, stc in E3. cbn [step pcs] in E3.
    rewrite Hidle in E3. destruct E3; discriminate.
Qed.

(* ---------- the atomic handler ---------- *)
Lemma arun_app : forall a b st, arun st (a ++ b) =
  let (st1, d1) := arun st a in let (st2, d2) := arun st1 b in (st2, d1 ++ d2).
Proof.
  induction a as [|o a IH]; intros b st; cbn [app arun].
  - destruct (arun st b); reflexivity.
  - destruct (astep st o) as [s1 d1]. rewrite IH. destruct (arun s1 a) as [s2 d2].
    destruct (arun s2 b) as [s3 d3]. rewrite app_assoc. reflexivity.
Qed.

Lemma arun_cancelled : forall ops st, a_cancelled st = true -> snd (arun st ops) = [] /\ a_cancelled (fst (arun st ops)) = true.
Proof.
  induction ops as [|o t IH]; intros st H; cbn [arun]; [auto|].
  destruct o; cbn [astep].
  - rewrite H. destruct (arun st t) as [s d] eqn:E. cbn. specialize (IH st H). rewrite E in IH. exact IH.
  - specialize (IH {| a_cache := a_cache st; a_cancelled := true |} eq_refl).
    destruct (arun _ t) as [s d]. cbn in *. exact IH.
Qed.

Lemma arun_cancelled_cache : forall t c s d,
  arun {| a_cache := c; a_cancelled := true |} t = (s, d) -> a_cache s = c.
Proof.
  induction t as [|o t IH]; intros c s d E; cbn in E.
  - injection E as <- _. reflexivity.
  - destruct o; cbn in E; destruct (arun _ t) as [s' d'] eqn:E'; injection E as <- _; apply (IH c s' d' E').
Qed.

(* a message is delivered (exactly once) iff it arrives before the cancellation *)
Fixpoint before_cancel (ops : list aop) : list msg :=
  match ops with
  | [] => []
  | Arrive m :: t => m :: before_cancel t
  | ACancel :: _ => []
  end.
Lemma arun_spec : forall ops st, a_cancelled st = false ->
  let d := snd (arun st ops) in
  NoDup d /\ (forall m, In m d <-> In m (before_cancel ops) /\ ~ In m (a_cache st)) /\
  (forall m, In m (a_cache (fst (arun st ops))) <-> In m (a_cache st) \/ In m d).
Proof.
  induction ops as [|o t IH]; intros st Hc; cbn zeta.
  - cbn. split; [constructor|]. split; intros; tauto.
  - destruct o as [m|]; cbn [arun astep before_cancel].
    + rewrite Hc. destruct (mem m (a_cache st)) eqn:Em.
      * apply mem_in in Em. specialize (IH st Hc). cbn zeta in IH.
        destruct (arun st t) as [s d]. cbn [fst snd app] in *. destruct IH as (I1 & I2 & I3).
        split; [exact I1|]. split; [|exact I3].
        intro x. rewrite I2. cbn. split; [tauto|]. intros [[<- | H] Hn]; [contradiction | tauto].
      * apply mem_false in Em.
        specialize (IH {| a_cache := m :: a_cache st; a_cancelled := false |} eq_refl). cbn zeta in IH.
        destruct (arun _ t) as [s d]. cbn [fst snd app a_cache] in *. destruct IH as (I1 & I2 & I3).
        split.
        { constructor; [|exact I1]. intro H. apply I2 in H. apply (proj2 H). left; reflexivity. }
        split.
        { intro x. cbn. rewrite I2. cbn. split.
          - intros [<- | [H1 H2]]; [tauto|]. split; [right; exact H1 | tauto].
          - intros [[<- | H1] H2]; [left; reflexivity|].
            destruct (msg_eqb m x) eqn:E; [apply msg_eqb_eq in E; left; exact E|].
            right. split; [exact H1|]. intros [H | H]; [subst; rewrite (proj2 (msg_eqb_eq x x) eq_refl) in E; discriminate | tauto]. }
        { intro x. rewrite I3. cbn. tauto. }
    + destruct (arun_cancelled t {| a_cache := a_cache st; a_cancelled := true |} eq_refl) as [Hd Hcc].
      destruct (arun _ t) as [s d] eqn:E. cbn [fst snd app] in *. subst d.
      split; [constructor|]. split; [intro; cbn; tauto|].
      intro x. cbn. assert (Hs : a_cache s = a_cache st) by (apply (arun_cancelled_cache t _ _ _ E)).
      rewrite Hs. tauto.
Qed.

Theorem atomic_delivered_iff : forall ops,
  let d := snd (arun ainit ops) in
  NoDup d /\ forall m, In m d <-> In m (before_cancel ops).
Proof.
  intros ops d. destruct (arun_spec ops ainit eq_refl) as (H1 & H2 & _). fold d in H1, H2.
  split; [exact H1|]. intro m. rewrite H2. cbn. tauto.
Qed.

(* ---------- fresh sequence numbers ---------- *)
Lemma mod_shift_neq : forall c i, 1 <= i -> i < w64 -> (c + 1) mod w64 = (c + 1 + i) mod w64 -> False.
Proof.
  intros c i H1 H2 E. unfold w64 in *.
  pose proof (N.div_mod (c+1) 18446744073709551616 ltac:(lia)).
  pose proof (N.div_mod (c+1+i) 18446744073709551616 ltac:(lia)).
  pose proof (N.mod_lt (c+1) 18446744073709551616 ltac:(lia)).
  pose proof (N.mod_lt (c+1+i) 18446744073709551616 ltac:(lia)).
  remember ((c+1) / 18446744073709551616) as q1. remember ((c+1+i) / 18446744073709551616) as q2.
  remember ((c+1) mod 18446744073709551616) as r1. remember ((c+1+i) mod 18446744073709551616) as r2.
  lia.
Qed.

Lemma seqnos_in : forall k c s, c < w64 -> In s (seqnos c k) ->
  exists i, 1 <= i <= N.of_nat k /\ s = (c + i) mod w64.
Proof.
  induction k as [|k IH]; intros c s Hc Hin; [destruct Hin|].
  cbn [seqnos next_seqno] in Hin. destruct Hin as [<- | Hin].
  - exists 1. split; [lia | reflexivity].
  - apply IH in Hin; [|apply N.mod_lt; unfold w64; lia].
    destruct Hin as (i & Hi & ->). exists (i + 1). split; [lia|].
    rewrite N.add_mod_idemp_l by (unfold w64; lia). f_equal. lia.
Qed.

(* every send on a channel gets a sequence number no earlier send on it got, up to 2^64 sends *)
Theorem fresh_seqno : forall k c, c < w64 -> N.of_nat k <= w64 -> NoDup (seqnos c k).
Proof.
  induction k as [|k IH]; intros c Hc Hk; [constructor|].
  cbn [seqnos next_seqno]. constructor.
  - intro Hin. apply seqnos_in in Hin; [|apply N.mod_lt; unfold w64; lia].
    destruct Hin as (i & Hi & E).
    rewrite N.add_mod_idemp_l in E by (unfold w64; lia).
    assert (i < w64) by (clear E IH; lia). apply (mod_shift_neq c i); [lia | assumption | exact E].
  - apply IH; [apply N.mod_lt; unfold w64; lia | lia].
Qed.
(* and the bound is tight: one more send repeats the first number *)
Theorem seqno_wraps : forall c, c < w64 -> (c + 1 + w64) mod w64 = (c + 1) mod w64.
Proof. intros c Hc. rewrite <- (N.mod_add (c + 1) 1 w64) by (unfold w64; lia). rewrite N.mul_1_l. reflexivity. Qed.

(* ---------- executable forms ---------- *)
Lemma nodup_msgs_sound : forall l, nodup_msgs l = true -> NoDup l.
Proof.
  induction l as [|m t IH]; cbn; intro H; [constructor|].
  apply andb_prop in H. destruct H as [H1 H2]. apply negb_true_iff in H1. apply mem_false in H1.
  constructor; auto.
Qed.
Lemma nodup_msgs_complete : forall l, NoDup l -> nodup_msgs l = true.
Proof.
  induction l as [|m t IH]; intro H; [reflexivity|]. inversion H; subst. cbn.
  rewrite IH by assumption. rewrite (proj2 (mem_false m t)) by assumption. reflexivity.
Qed.

(* (A) soundness: the executable filter property says no message was delivered twice *)
Lemma filter_spec_sound : forall c, filter_spec c = true ->
  NoDup (map f_msg (filter f_delivered (fc_calls c))).
Proof. intros c H. apply nodup_msgs_sound, H. Qed.

(* (B) soundness of the per-handler property *)
Lemma last_cons : forall {A} (l : list A) a d, last (a :: l) d = last l a.
Proof.
  intros A l. induction l as [|b l IH]; intros a d; [reflexivity|].
  change (last (a :: b :: l) d) with (last (b :: l) d). rewrite !IH. reflexivity.
Qed.

Lemma cancel_ok_sound : forall ds cret prev, cancel_ok cret prev ds = true ->
  forall pre d post, ds = pre ++ d :: post -> cret < d_inv d ->
    match last (map (fun x => Some (d_ret x)) pre) prev with
    | None => True
    | Some r => r <> 0 /\ r < cret
    end.
Proof.
  induction ds as [|x t IH]; intros cret prev H pre d post E Hlt.
  - destruct pre; discriminate.
  - cbn [cancel_ok] in H. apply andb_prop in H. destruct H as [H1 H2].
    destruct pre as [|y pre]; cbn [app] in E; injection E as -> ->.
    + cbn. apply N.ltb_lt in Hlt. rewrite Hlt in H1.
      destruct prev as [r|]; [|exact I]. destruct r; [discriminate|]. apply N.ltb_lt in H1. split; [lia | exact H1].
    + specialize (IH cret (Some (d_ret y)) H2 pre d post eq_refl Hlt).
      cbn [map]. rewrite last_cons. exact IH.
Qed.

Lemma handler_spec_sound : forall sends h, handler_spec sends h = true ->
  NoDup (map d_msg (h_deliveries h)) /\
  match h_cancel h with
  | None => True
  | Some (_, cret) =>
      forall pre d post, h_deliveries h = pre ++ d :: post -> cret < d_inv d ->
        (* its send began before the cancellation returned ... *)
        (exists s, nth_error sends (d_send d) = Some s /\ s_inv s < cret) /\
        (* ... and the previous delegate call (if any) had returned before it: the context
           check of this delivery can have preceded the cancellation *)
        match last (map (fun x => Some (d_ret x)) pre) None with
        | None => True
        | Some r => r <> 0 /\ r < cret
        end
  end.
Proof.
  intros sends h H. unfold handler_spec in H. apply andb_prop in H. destruct H as [H1 H2].
  split; [apply nodup_msgs_sound, H1|].
  destruct (h_cancel h) as [[ci cret]|]; [|exact I].
  apply andb_prop in H2. destruct H2 as [H2 H3].
  intros pre d post E Hlt. split.
  - rewrite forallb_forall in H3. specialize (H3 d). rewrite E in H3.
    specialize (H3 ltac:(apply in_or_app; right; left; reflexivity)).
    apply N.ltb_lt in Hlt. rewrite Hlt in H3. unfold late_send_ok in H3.
    destruct (nth_error sends (d_send d)) as [s|]; [|discriminate]. exists s. split; [reflexivity|].
    apply N.ltb_lt, H3.
  - eapply cancel_ok_sound; eauto.
Qed.

(* the model's own outputs pass the executable property: single handler goroutine, any
   schedule, as a history in which every step takes one clock tick *)
Lemma model_log_nodup : forall threads ops,
  nodup_msgs (map snd (log (run (init threads) ops))) = true.
Proof. intros. apply nodup_msgs_complete, at_most_once. Qed.

Example hypotheses_satisfiable :
  map snd (log (run (init 1) [Check 0 (1,1); Filter 0; Call 0; Check 0 (1,1); Filter 0; Call 0;
                               Check 0 (1,2); Cancel; Filter 0; Call 0; Check 0 (1,3); Filter 0; Call 0]))
  = [(1,1); (1,2)] /\ seqnos 0 3 = [1; 2; 3] /\ (0 < w64 /\ N.of_nat 3 <= w64).
Proof. vm_compute. repeat split; auto; discriminate. Qed.

(* ================================================================== Send under publish faults *)
Lemma crun_app : forall st a b, crun st (a ++ b) = crun (crun st a) b.
Proof. intros. unfold crun. apply fold_left_app. Qed.

(* the sequence number of the i-th message (0-based) of a channel whose counter started at c0 *)
Definition seq_at (c0 : N) (i : nat) : N := (c0 + N.of_nat (S i)) mod w64.

Record cinv (c0 : N) (st : cstate) : Prop := {
  ci_counter : counter st = (c0 + N.of_nat (length (sched st))) mod w64;
  ci_sched : forall i id s, nth_error (sched st) i = Some (id, s) -> id = i /\ s = seq_at c0 i;
  ci_wire : forall id s ok, In (id, s, ok) (wire st) -> nth_error (sched st) id = Some (id, s) }.

Lemma cinv_init : forall c0, c0 < w64 -> cinv c0 (cinit c0).
Proof.
  intros c0 H. split; cbn.
  - rewrite N.add_0_r. symmetry. apply N.mod_small. exact H.
  - intros [|i] id s E; discriminate.
  - intros id s ok [].
Qed.

Lemma cinv_send : forall c0 st b, cinv c0 st ->
  cinv c0 (let (c', s) := next_seqno (counter st) in
           {| counter := c'; sched := sched st ++ [(length (sched st), s)];
              wire := wire st ++ [(length (sched st), s, b)] |}).
Proof.
  intros c0 st b [Hc Hs Hw]. unfold next_seqno.
  assert (Hn : (counter st + 1) mod w64 = seq_at c0 (length (sched st))).
  { unfold seq_at. rewrite Hc, N.add_mod_idemp_l by (unfold w64; lia). f_equal. lia. }
  split; cbn [counter sched wire].
  - rewrite app_length. cbn [length]. rewrite Hn. unfold seq_at. f_equal. lia.
  - intros i id s E. destruct (Nat.lt_ge_cases i (length (sched st))) as [L|G].
    + rewrite nth_error_app1 in E by exact L. apply Hs. exact E.
    + rewrite nth_error_app2 in E by exact G.
      destruct (i - length (sched st))%nat as [|d] eqn:Ed.
      * cbn in E. injection E as <- <-. assert (i = length (sched st)) by lia. subst i. split; [reflexivity | exact Hn].
      * destruct d; discriminate.
  - intros id s ok Hin. apply in_app_or in Hin as [Hin | [E | []]].
    + specialize (Hw _ _ _ Hin). rewrite nth_error_app1; [exact Hw|].
      apply nth_error_Some. rewrite Hw. discriminate.
    + injection E as <- <- _. rewrite nth_error_app2 by lia. rewrite Nat.sub_diag. reflexivity.
Qed.

Lemma cinv_step : forall c0 st o, cinv c0 st -> cinv c0 (cstep st o).
Proof.
  intros c0 st o H. destruct o as [r|i ok]; cbn [cstep].
  - destruct r; [exact H | apply cinv_send; exact H | apply cinv_send; exact H].
  - destruct (nth_error (sched st) i) as [[id s]|] eqn:E; [|exact H].
    destruct H as [Hc Hs Hw]. split; cbn [counter sched wire]; auto.
    intros id' s' ok' Hin. apply in_app_or in Hin as [Hin | [E' | []]]; [eauto|].
    injection E' as <- <- _. destruct (Hs _ _ _ E) as [-> _]. exact E.
Qed.

Lemma cinv_run : forall c0 ops st, cinv c0 st -> cinv c0 (crun st ops).
Proof.
  intros c0 ops. induction ops as [|o t IH]; intros st H; [exact H|].
  cbn [crun fold_left]. apply IH. apply cinv_step. exact H.
Qed.

Lemma seq_at_inj : forall c0 i j, N.of_nat i < w64 -> N.of_nat j < w64 ->
  seq_at c0 i = seq_at c0 j -> i = j.
Proof.
  assert (Hlt : forall c0 i j, (i < j)%nat -> N.of_nat j < w64 -> seq_at c0 i = seq_at c0 j -> False).
  { intros c0 i j L Hj E. unfold seq_at in E.
    apply (mod_shift_neq (c0 + N.of_nat i) (N.of_nat (j - i))); [lia | lia |].
    replace (c0 + N.of_nat i + 1) with (c0 + N.of_nat (S i)) by lia.
    replace (c0 + N.of_nat (S i) + N.of_nat (j - i)) with (c0 + N.of_nat (S j)) by lia. exact E. }
  intros c0 i j Hi Hj E. destruct (Nat.lt_trichotomy i j) as [L | [L | L]]; [|exact L|].
  - exfalso. eapply Hlt; eauto.
  - exfalso. eapply (Hlt c0 j i); eauto.
Qed.

(* the counter only counts: one step per Send that reached nextSeqno, whatever the publisher did *)
Lemma counter_counts_sends : forall c0 ops, c0 < w64 ->
  let st := crun (cinit c0) ops in
  counter st = (c0 + N.of_nat (length (sched st))) mod w64.
Proof. intros c0 ops H st. apply (ci_counter _ _ (cinv_run c0 ops _ (cinv_init c0 H))). Qed.

(* fresh_seqno under faults: over every history of Sends and retransmissions with arbitrary
   publish faults, two publish calls carry the same sequence number iff they carry the same
   message *)
Lemma wire_seqnos_fresh : forall c0 ops, c0 < w64 ->
  let st := crun (cinit c0) ops in
  N.of_nat (length (sched st)) <= w64 ->
  forall a b, In a (wire st) -> In b (wire st) ->
    (fst (fst a) = fst (fst b) <-> snd (fst a) = snd (fst b)).
Proof.
  intros c0 ops H st Hk [[i1 s1] k1] [[i2 s2] k2] Ha Hb. cbn [fst snd].
  destruct (cinv_run c0 ops _ (cinv_init c0 H)) as [_ Hs Hw]. fold st in Hs, Hw.
  pose proof (Hw _ _ _ Ha) as E1. pose proof (Hw _ _ _ Hb) as E2.
  destruct (Hs _ _ _ E1) as [_ ->]. destruct (Hs _ _ _ E2) as [_ ->].
  assert (L1 : (i1 < length (sched st))%nat) by (apply nth_error_Some; rewrite E1; discriminate).
  assert (L2 : (i2 < length (sched st))%nat) by (apply nth_error_Some; rewrite E2; discriminate).
  split; [intros ->; reflexivity|]. apply seq_at_inj; lia.
Qed.

(* every publish of one message carries the number its Send took *)
Lemma retransmissions_keep_seqno : forall c0 ops, c0 < w64 ->
  let st := crun (cinit c0) ops in
  forall id s ok, In (id, s, ok) (wire st) -> s = seq_at c0 id.
Proof.
  intros c0 ops H st id s ok Hin.
  destruct (cinv_run c0 ops _ (cinv_init c0 H)) as [_ Hs Hw]. fold st in Hs, Hw.
  destruct (Hs _ _ _ (Hw _ _ _ Hin)) as [_ ->]. reflexivity.
Qed.

Lemma before_cancel_arrivals : forall sender w,
  before_cancel (wire_arrivals sender w) =
  flat_map (fun e : nat * N * bool => if snd e then [(sender, snd (fst e))] else []) w.
Proof.
  intros sender w. induction w as [|e w IH]; [reflexivity|].
  unfold wire_arrivals in *. cbn [flat_map]. destruct (snd e); cbn [app before_cancel]; [f_equal|]; exact IH.
Qed.

(* a receiver that gets everything that was published successfully, retransmissions included,
   calls its delegate exactly once per message, and no message hides another *)
Lemma delivered_exactly_once_under_faults : forall c0 ops sender, c0 < w64 ->
  let st := crun (cinit c0) ops in
  N.of_nat (length (sched st)) <= w64 ->
  let d := receiver_deliveries sender (wire st) in
  NoDup d /\
  (forall id s, In (id, s, true) (wire st) -> In (sender, s) d) /\
  (forall m, In m d -> fst m = sender /\ exists id, In (id, snd m, true) (wire st)) /\
  (forall id1 id2 s ok1 ok2, In (id1, s, ok1) (wire st) -> In (id2, s, ok2) (wire st) -> id1 = id2).
Proof.
  intros c0 ops sender H st Hk d.
  destruct (atomic_delivered_iff (wire_arrivals sender (wire st))) as [Hnd Hin].
  fold (receiver_deliveries sender (wire st)) in Hnd, Hin. fold d in Hnd, Hin.
  rewrite before_cancel_arrivals in Hin.
  split; [exact Hnd|]. split; [|split].
  - intros id s Hw. apply Hin. apply in_flat_map. exists (id, s, true). split; [exact Hw | left; reflexivity].
  - intros m Hm. apply Hin in Hm. apply in_flat_map in Hm as ([[id s] ok] & Hw & Hx). cbn [fst snd] in Hx.
    destruct ok; [|destruct Hx]. destruct Hx as [<- | []]. cbn [fst snd]. split; [reflexivity | eauto].
  - intros id1 id2 s ok1 ok2 H1 H2.
    apply (proj2 (wire_seqnos_fresh c0 ops H Hk _ _ H1 H2)). reflexivity.
Qed.

(* ---------- executable forms for fault histories ---------- *)
Lemma nodupN_sound : forall l, nodupN l = true -> NoDup l.
Proof.
  induction l as [|x l IH]; intro H; [constructor|]. cbn [nodupN] in H. apply andb_prop in H as [H1 H2].
  constructor; [|apply IH; exact H2]. intro Hin. apply negb_true_iff in H1.
  assert (existsb (N.eqb x) l = true) by (apply existsb_exists; exists x; split; [exact Hin | apply N.eqb_refl]).
  congruence.
Qed.

Lemma eqb_iff : forall a b c d : N, Bool.eqb (a =? b) (c =? d) = true <-> (a = b <-> c = d).
Proof.
  intros a b c d. destruct (N.eqb_spec a b), (N.eqb_spec c d); cbn; split; intros; try tauto; try discriminate;
    exfalso; tauto.
Qed.

Lemma fault_spec_sound : forall c, fault_spec c = true ->
  (forall a b, In a (fa_wire c) -> In b (fa_wire c) ->
     (fst (fst a) = fst (fst b) <-> snd (fst a) = snd (fst b))) /\
  NoDup (map snd (fa_delivered c)) /\
  (fa_flushed c = true -> forall e, In e (fa_wire c) ->
     count_id (fst (fst e)) (fa_delivered c) =
     if has_ok (fst (fst e)) (fa_wire c) then 1%nat else 0%nat).
Proof.
  intros c H. unfold fault_spec in H. apply andb_prop in H as [H H3]. apply andb_prop in H as [H1 H2].
  split; [|split].
  - intros a b Ha Hb. unfold wire_fresh in H1. rewrite forallb_forall in H1.
    specialize (H1 a Ha). rewrite forallb_forall in H1. apply eqb_iff. exact (H1 b Hb).
  - apply nodupN_sound. exact H2.
  - intros Hf e He. rewrite Hf in H3. rewrite forallb_forall in H3. apply Nat.eqb_eq. exact (H3 e He).
Qed.

(* ... and the wire of every model history passes the freshness check *)
Lemma model_wire_fresh : forall c0 ops, c0 < w64 ->
  let st := crun (cinit c0) ops in
  N.of_nat (length (sched st)) <= w64 ->
  wire_fresh (map (fun e : nat * N * bool => (N.of_nat (fst (fst e)), snd (fst e), snd e)) (wire st)) = true.
Proof.
  intros c0 ops H st Hk. unfold wire_fresh. apply forallb_forall. intros a Ha. apply forallb_forall. intros b Hb.
  apply in_map_iff in Ha as (x & <- & Hx). apply in_map_iff in Hb as (y & <- & Hy). cbn [fst snd].
  apply eqb_iff. pose proof (wire_seqnos_fresh c0 ops H Hk x y Hx Hy) as W. fold st in W.
  split; intro E.
  - apply W. apply Nat2N.inj. exact E.
  - apply W in E. now rewrite E.
Qed.

(* the hypotheses are satisfiable: the first publish of message 0 fails, its retransmission and
   message 1 succeed; both are delivered, with numbers 1 and 2 *)
Example faults_satisfiable :
  let st := crun (cinit 0) [CSend SPublishErr; CSend SMarshalErr; CSend SPublished; CRetx 0 true; CRetx 1 false] in
  wire st = [(0%nat, 1, false); (1%nat, 2, true); (0%nat, 1, true); (1%nat, 2, false)] /\
  receiver_deliveries 7 (wire st) = [(7, 2); (7, 1)] /\ counter st = 2.
Proof. vm_compute. repeat split. Qed.
