(* C21 — proofs about the model of anyApplicationPolicy.Validate (Model/C21.v).  The statements
   restated in Props/C21.v are the theorems of the last section of this file. *)
From Coq Require Import NArith List Bool Lia Arith.
From KV Require Import Common.Verdict Model.C21.
Import ListNotations.

(* ------------------------------------------------------------------ *)
(* booleans vs. propositions                                           *)
(* ------------------------------------------------------------------ *)
Lemma memN_In x l : memN x l = true <-> In x l.
Proof.
  unfold memN. rewrite existsb_exists. split.
  - intros [y [Hy E]]. apply N.eqb_eq in E. subst y. exact Hy.
  - intro H. exists x. split; [exact H|apply N.eqb_refl].
Qed.

Lemma memN_false x l : memN x l = false <-> ~ In x l.
Proof.
  rewrite <- memN_In. destruct (memN x l); split; intro H; try congruence; try reflexivity.
Qed.

Lemma ans_eqb_eq a b : ans_eqb a b = true <-> a = b.
Proof. destruct a, b; cbn; split; intro H; congruence. Qed.

Lemma has_In x l : has x l = true <-> In x l.
Proof.
  unfold has. rewrite existsb_exists. split.
  - intros [y [Hy E]]. apply ans_eqb_eq in E. subst y. exact Hy.
  - intro H. exists x. split; [exact H|apply ans_eqb_eq; reflexivity].
Qed.

Lemma has_false x l : has x l = false <-> ~ In x l.
Proof.
  rewrite <- has_In. destruct (has x l); split; intro H; try congruence; try reflexivity.
Qed.

Lemma allno_Forall l : forallb (ans_eqb No) l = true <-> Forall (eq No) l.
Proof.
  rewrite forallb_forall, Forall_forall. split; intros H x Hx.
  - apply ans_eqb_eq. exact (H x Hx).
  - apply ans_eqb_eq. exact (H x Hx).
Qed.

Lemma asked_all_iff napps o : asked_all napps o = true <-> all_asked napps o.
Proof.
  unfold asked_all, all_asked. rewrite forallb_forall. split.
  - intros H i Hi. apply memN_In. apply H. apply in_seq. lia.
  - intros H i Hi. apply memN_In. apply H. apply in_seq in Hi. lia.
Qed.

Lemma earlier_iff f p hist :
  earlier f p hist = true <-> exists e, In e hist /\ ob_peer e = p /\ f e = true.
Proof.
  unfold earlier. rewrite existsb_exists. split.
  - intros [e [He E]]. apply andb_true_iff in E. destruct E as [E1 E2].
    apply N.eqb_eq in E1. exists e. auto.
  - intros [e [He [E1 E2]]]. exists e. split; [exact He|].
    apply andb_true_iff. split; [apply N.eqb_eq; exact E1|exact E2].
Qed.

Lemma earlier_cons f p o hist :
  earlier f p hist = true -> earlier f p (o :: hist) = true.
Proof. unfold earlier. cbn [existsb]. intros ->. apply orb_true_r. Qed.

Lemma earlier_here f p o hist :
  ob_peer o = p -> f o = true -> earlier f p (o :: hist) = true.
Proof.
  unfold earlier. cbn [existsb]. intros <- ->. rewrite N.eqb_refl. reflexivity.
Qed.

(* ------------------------------------------------------------------ *)
(* the loop over the applications                                      *)
(* ------------------------------------------------------------------ *)
Lemma scan_first x pre post :
  Forall (eq No) pre -> x <> No ->
  scan (pre ++ x :: post) =
  (match x with Yes => SYes | Err => SErr | No => SNo end, S (length pre)).
Proof.
  intros Hpre Hx. induction Hpre as [|y pre Hy _ IH]; cbn [app length scan].
  - destruct x; [reflexivity|congruence|reflexivity].
  - subst y. rewrite IH. reflexivity.
Qed.

Lemma scan_all_no a : Forall (eq No) a -> scan a = (SNo, length a).
Proof.
  induction 1 as [|y t Hy _ IH]; cbn [scan length]; [reflexivity|].
  subst y. rewrite IH. reflexivity.
Qed.

Lemma first_non_no a : Forall (eq No) a \/ first_is Yes a \/ first_is Err a.
Proof.
  induction a as [|x t IH].
  - left. constructor.
  - destruct x.
    + right. left. exists [], t. split; [reflexivity|constructor].
    + destruct IH as [H|[[pre [post [-> Hp]]]|[pre [post [-> Hp]]]]].
      * left. constructor; [reflexivity|exact H].
      * right. left. exists (No :: pre), post. split; [reflexivity|].
        constructor; [reflexivity|exact Hp].
      * right. right. exists (No :: pre), post. split; [reflexivity|].
        constructor; [reflexivity|exact Hp].
    + right. right. exists [], t. split; [reflexivity|constructor].
Qed.

Lemma scan_yes a k : scan a = (SYes, k) -> first_is Yes a.
Proof.
  intro E. destruct (first_non_no a) as [H|[H|[pre [post [-> Hp]]]]]; [|exact H|].
  - rewrite (scan_all_no a H) in E. congruence.
  - rewrite (scan_first Err pre post Hp) in E by congruence. congruence.
Qed.

Lemma scan_err a k : scan a = (SErr, k) -> first_is Err a.
Proof.
  intro E. destruct (first_non_no a) as [H|[[pre [post [-> Hp]]]|H]]; [| |exact H].
  - rewrite (scan_all_no a H) in E. congruence.
  - rewrite (scan_first Yes pre post Hp) in E by congruence. congruence.
Qed.

Lemma scan_no a k : scan a = (SNo, k) -> Forall (eq No) a /\ k = length a.
Proof.
  intro E. destruct (first_non_no a) as [H|[[pre [post [-> Hp]]]|[pre [post [-> Hp]]]]].
  - rewrite (scan_all_no a H) in E. split; [exact H|congruence].
  - rewrite (scan_first Yes pre post Hp) in E by congruence. congruence.
  - rewrite (scan_first Err pre post Hp) in E by congruence. congruence.
Qed.

Lemma first_is_yes_scan a : first_is Yes a -> exists k, scan a = (SYes, S k).
Proof.
  intros [pre [post [-> Hp]]]. exists (length pre). apply (scan_first Yes); [exact Hp|congruence].
Qed.

Lemma first_is_err_scan a : first_is Err a -> exists k, scan a = (SErr, S k).
Proof.
  intros [pre [post [-> Hp]]]. exists (length pre). apply (scan_first Err); [exact Hp|congruence].
Qed.

Lemma first_is_excl a : first_is Yes a -> first_is Err a -> False.
Proof.
  intros H1 H2. apply first_is_yes_scan in H1. apply first_is_err_scan in H2.
  destruct H1 as [k1 E1]. destruct H2 as [k2 E2]. congruence.
Qed.

Lemma first_is_not_all_no x a : x <> No -> first_is x a -> Forall (eq No) a -> False.
Proof.
  intros Hx [pre [post [-> Hp]]] Hall. rewrite Forall_forall in Hall.
  apply Hx. symmetry. apply Hall. apply in_or_app. right. left. reflexivity.
Qed.

Lemma first_is_yes_in a : first_is Yes a -> In Yes a.
Proof. intros [pre [post [-> _]]]. apply in_or_app. right. left. reflexivity. Qed.

Lemma in_yes_no_err_first a : In Yes a -> ~ In Err a -> first_is Yes a.
Proof.
  intros Hy He. destruct (first_non_no a) as [H|[H|H]]; [|exact H|].
  - exfalso. rewrite Forall_forall in H. specialize (H Yes Hy). congruence.
  - exfalso. apply He. destruct H as [pre [post [-> _]]]. apply in_or_app. right. left. reflexivity.
Qed.

(* ------------------------------------------------------------------ *)
(* one validation                                                      *)
(* ------------------------------------------------------------------ *)
Ltac vcases allow st p a Ea Ep En Es :=
  unfold validate;
  destruct (memN p allow) eqn:Ea;
  [apply memN_In in Ea|
   apply memN_false in Ea;
   destruct (memN p (pos st)) eqn:Ep;
   [apply memN_In in Ep|
    apply memN_false in Ep;
    destruct (memN p (neg st)) eqn:En;
    [apply memN_In in En|
     apply memN_false in En;
     destruct (scan a) as [[| |] ?k] eqn:Es]]].

Lemma validate_admit_sound allow st p a :
  o_result (validate allow st p a) = Admit ->
  In p allow \/ In p (pos st) \/ first_is Yes a.
Proof.
  vcases allow st p a Ea Ep En Es; cbn [o_result]; intro H; try discriminate.
  - left. exact Ea.
  - right. left. exact Ep.
  - right. right. exact (scan_yes a _ Es).
Qed.

Lemma validate_no_entry allow st p a :
  ~ In p allow -> ~ In p (pos st) -> ~ In p (neg st) ->
  let o := validate allow st p a in
  (o_result o = Admit <-> first_is Yes a) /\
  (o_result o = Failed <-> first_is Err a) /\
  (o_result o = NotRecognized <-> Forall (eq No) a).
Proof.
  intros Ha Hp Hn.
  vcases allow st p a Ea Ep En Es; cbn zeta; cbn [o_result]; try contradiction.
  - pose proof (scan_yes a _ Es) as Hy. repeat split; intro H; try discriminate; try exact Hy.
    + exfalso. exact (first_is_excl a Hy H).
    + exfalso. refine (first_is_not_all_no Yes a _ Hy H). congruence.
  - destruct (scan_no a _ Es) as [Hall _]. repeat split; intro H; try discriminate; try exact Hall.
    + exfalso. refine (first_is_not_all_no Yes a _ H Hall). congruence.
    + exfalso. refine (first_is_not_all_no Err a _ H Hall). congruence.
  - pose proof (scan_err a _ Es) as He. repeat split; intro H; try discriminate; try exact He.
    + exfalso. exact (first_is_excl a H He).
    + exfalso. refine (first_is_not_all_no Err a _ He H). congruence.
Qed.

Lemma validate_failed allow st p a :
  o_result (validate allow st p a) = Failed ->
  o_after (validate allow st p a) = st /\ first_is Err a /\
  ~ In p allow /\ ~ In p (pos st) /\ ~ In p (neg st).
Proof.
  vcases allow st p a Ea Ep En Es; cbn [o_result o_after]; intro H; try discriminate.
  repeat split; try assumption. exact (scan_err a _ Es).
Qed.

Lemma validate_cached allow st p a :
  (In p allow \/ In p (pos st) ->
   validate allow st p a = {| o_result := Admit; o_calls := 0; o_after := st |}) /\
  (~ In p allow -> ~ In p (pos st) -> In p (neg st) ->
   validate allow st p a = {| o_result := NotRecognized; o_calls := 0; o_after := st |}).
Proof.
  split.
  - intros H. vcases allow st p a Ea Ep En Es; try reflexivity; destruct H; contradiction.
  - intros Ha Hp Hn. vcases allow st p a Ea Ep En Es; try reflexivity; contradiction.
Qed.

Lemma validate_pos_after allow st q b p :
  In p (pos (o_after (validate allow st q b))) ->
  In p (pos st) \/
  (p = q /\ ~ In q allow /\ ~ In q (pos st) /\ ~ In q (neg st) /\ first_is Yes b).
Proof.
  vcases allow st q b Ea Ep En Es; cbn [o_after pos]; intro H; try (left; exact H).
  destruct H as [H|H]; [|left; exact H].
  right. subst p. repeat split; try assumption. exact (scan_yes b _ Es).
Qed.

Lemma validate_neg_after allow st q b p :
  In p (neg (o_after (validate allow st q b))) ->
  In p (neg st) \/
  (p = q /\ ~ In q allow /\ ~ In q (pos st) /\ ~ In q (neg st) /\ Forall (eq No) b).
Proof.
  vcases allow st q b Ea Ep En Es; cbn [o_after neg]; intro H; try (left; exact H).
  destruct H as [H|H]; [|left; exact H].
  right. subst p. repeat split; try assumption. exact (proj1 (scan_no b _ Es)).
Qed.

Lemma validate_mono allow st q b p :
  (In p (pos st) -> In p (pos (o_after (validate allow st q b)))) /\
  (In p (neg st) -> In p (neg (o_after (validate allow st q b)))).
Proof.
  vcases allow st q b Ea Ep En Es; cbn [o_after pos neg]; split; intro H;
    try exact H; right; exact H.
Qed.

(* a conclusive consultation leaves a cache entry *)
Lemma validate_records allow st p a :
  ~ In p allow -> ~ first_is Err a ->
  In p (pos (o_after (validate allow st p a))) \/ In p (neg (o_after (validate allow st p a))).
Proof.
  intros Ha Hne.
  vcases allow st p a Ea Ep En Es; cbn [o_after pos neg]; try contradiction.
  - left. exact Ep.
  - right. exact En.
  - left. left. reflexivity.
  - right. left. reflexivity.
  - exfalso. apply Hne. exact (scan_err a _ Es).
Qed.

(* ------------------------------------------------------------------ *)
(* sequences                                                           *)
(* ------------------------------------------------------------------ *)
Lemma final_app allow st l1 l2 :
  final allow st (l1 ++ l2) = final allow (final allow st l1) l2.
Proof. unfold final. apply fold_left_app. Qed.

Lemma final_snoc allow st l s :
  final allow st (l ++ [s]) = o_after (validate allow (final allow st l) (fst s) (snd s)).
Proof. rewrite final_app. reflexivity. Qed.

Lemma final_cons allow st s l :
  final allow st (s :: l) = final allow (o_after (validate allow st (fst s) (snd s))) l.
Proof. reflexivity. Qed.

Lemma final_mono allow l : forall st p,
  (In p (pos st) -> In p (pos (final allow st l))) /\
  (In p (neg st) -> In p (neg (final allow st l))).
Proof.
  induction l as [|s l IH]; intros st p; [split; intro H; exact H|].
  rewrite final_cons. destruct (IH (o_after (validate allow st (fst s) (snd s))) p) as [I1 I2].
  destruct (validate_mono allow st (fst s) (snd s) p) as [M1 M2].
  split; intro H; [apply I1, M1, H|apply I2, M2, H].
Qed.

Lemma run_split allow pre : forall st p a post,
  run allow st (pre ++ (p, a) :: post) =
  run allow st pre
  ++ (final allow st pre, validate allow (final allow st pre) p a)
  :: run allow (o_after (validate allow (final allow st pre) p a)) post.
Proof.
  induction pre as [|[q b] pre IH]; intros st p a post; [reflexivity|].
  cbn [app run]. rewrite IH. reflexivity.
Qed.

Lemma pos_justified allow pre : forall p,
  In p (pos (final allow empty pre)) ->
  exists pre1 a' pre2,
    pre = pre1 ++ (p, a') :: pre2 /\ ~ In p allow /\ first_is Yes a' /\
    ~ In p (pos (final allow empty pre1)) /\ ~ In p (neg (final allow empty pre1)).
Proof.
  induction pre as [|[q b] pre IH] using rev_ind; intros p H.
  - destruct H.
  - rewrite final_snoc in H. cbn [fst snd] in H.
    apply validate_pos_after in H. destruct H as [H|[-> [Ha [Hp [Hn Hy]]]]].
    + destruct (IH p H) as [pre1 [a' [pre2 [-> R]]]].
      exists pre1, a', (pre2 ++ [(q, b)]). split; [|exact R].
      rewrite <- app_assoc. reflexivity.
    + exists pre, b, []. repeat split; assumption.
Qed.

Lemma neg_justified allow pre : forall p,
  In p (neg (final allow empty pre)) ->
  exists pre1 a' pre2,
    pre = pre1 ++ (p, a') :: pre2 /\ ~ In p allow /\ Forall (eq No) a' /\
    ~ In p (pos (final allow empty pre1)) /\ ~ In p (neg (final allow empty pre1)).
Proof.
  induction pre as [|[q b] pre IH] using rev_ind; intros p H.
  - destruct H.
  - rewrite final_snoc in H. cbn [fst snd] in H.
    apply validate_neg_after in H. destruct H as [H|[-> [Ha [Hp [Hn Hy]]]]].
    + destruct (IH p H) as [pre1 [a' [pre2 [-> R]]]].
      exists pre1, a', (pre2 ++ [(q, b)]). split; [|exact R].
      rewrite <- app_assoc. reflexivity.
    + exists pre, b, []. repeat split; assumption.
Qed.

Lemma caches_disjoint allow pre : forall p,
  In p (pos (final allow empty pre)) -> In p (neg (final allow empty pre)) -> False.
Proof.
  induction pre as [|[q b] pre IH] using rev_ind; intros p H1 H2.
  - destruct H1.
  - rewrite final_snoc in H1, H2. cbn [fst snd] in H1, H2.
    apply validate_pos_after in H1. apply validate_neg_after in H2.
    destruct H1 as [H1|[-> [Ha [Hp [Hn Hy]]]]]; destruct H2 as [H2|[E [Ha' [Hp' [Hn' Hall]]]]].
    + exact (IH p H1 H2).
    + subst p. exact (Hp' H1).
    + exact (Hn H2).
    + refine (first_is_not_all_no Yes b _ Hy Hall). congruence.
Qed.

(* ------------------------------------------------------------------ *)
(* the model's own trace                                               *)
(* ------------------------------------------------------------------ *)
Lemma nth_seq_firstn {A} (d : A) (a : list A) : forall k,
  (k <= length a)%nat -> map (fun i => nth i a d) (seq 0 k) = firstn k a.
Proof.
  induction a as [|x t IH]; intros k Hk.
  - cbn [length] in Hk. assert (k = 0)%nat as -> by lia. reflexivity.
  - destruct k as [|k]; [reflexivity|].
    cbn [seq map nth firstn]. f_equal.
    rewrite <- seq_shift, map_map. cbn [nth]. apply IH. cbn [length] in Hk. lia.
Qed.

Lemma given_model p a r k :
  (k <= length a)%nat ->
  given {| ob_peer := p; ob_answers := a; ob_result := r;
           ob_calls := map N.of_nat (seq 0 k) |} = firstn k a.
Proof.
  intro Hk. unfold given. cbn [ob_answers ob_calls]. rewrite map_map.
  rewrite <- (nth_seq_firstn No a k Hk). apply map_ext. intro i. rewrite Nat2N.id. reflexivity.
Qed.

Lemma firstn_first {A} (pre : list A) x post :
  firstn (S (length pre)) (pre ++ x :: post) = pre ++ [x].
Proof.
  replace (S (length pre)) with (length pre + 1)%nat by lia.
  rewrite firstn_app_2. reflexivity.
Qed.

Lemma has_all_no x pre : Forall (eq No) pre -> x <> No -> has x pre = false.
Proof.
  intros H Hx. apply has_false. intro Hin. rewrite Forall_forall in H.
  apply Hx. symmetry. exact (H x Hin).
Qed.

Lemma asked_all_model p a r k :
  asked_all k {| ob_peer := p; ob_answers := a; ob_result := r;
                 ob_calls := map N.of_nat (seq 0 k) |} = true.
Proof.
  unfold asked_all. cbn [ob_calls]. apply forallb_forall. intros i Hi.
  apply memN_In. apply in_map. exact Hi.
Qed.

Lemma list_eqbN_refl l : list_eqbN l l = true.
Proof. induction l as [|x t IH]; cbn [list_eqbN]; [reflexivity|]. rewrite N.eqb_refl. exact IH. Qed.

Lemma result_eqb_refl r : result_eqb r r = true.
Proof. destruct r; reflexivity. Qed.

Lemma model_trace_spec allow napps steps : forall st hist,
  (forall q, In q (pos st) -> earlier said_yes q hist = true) ->
  (forall q, In q (neg st) -> earlier (said_no napps) q hist = true) ->
  Forall (fun s => length (snd s) = napps) steps ->
  spec_from allow napps hist (model_trace allow st steps) = true.
Proof.
  induction steps as [|[p a] steps IH]; intros st hist Ipos Ineg Hlen; [reflexivity|].
  pose proof (Forall_inv Hlen) as Hl. pose proof (Forall_inv_tail Hlen) as Hlen'.
  cbn [snd] in Hl. subst napps. cbn [model_trace spec_from].
  set (o := validate allow st p a).
  set (ob := {| ob_peer := p; ob_answers := a; ob_result := o_result o;
                ob_calls := map N.of_nat (seq 0 (o_calls o)) |}).
  assert (step_ok allow (length a) hist ob = true /\
          (forall q, In q (pos (o_after o)) -> earlier said_yes q (ob :: hist) = true) /\
          (forall q, In q (neg (o_after o)) -> earlier (said_no (length a)) q (ob :: hist) = true))
    as [Hok [Ipos' Ineg']].
  { subst ob o. unfold step_ok.
    vcases allow st p a Ea Ep En Es; cbn [o_result o_calls o_after ob_peer ob_result pos neg].
    - (* allowlisted *)
      rewrite given_model by lia. cbn [firstn has existsb negb andb].
      rewrite (proj2 (memN_In p allow) Ea). split; [reflexivity|].
      split; intros q Hq; apply earlier_cons; auto.
    - rewrite given_model by lia. cbn [firstn has existsb negb andb].
      rewrite (Ipos p Ep). rewrite !orb_true_r. split; [reflexivity|].
      split; intros q Hq; apply earlier_cons; auto.
    - rewrite given_model by lia. cbn [firstn has existsb negb andb orb].
      rewrite (proj2 (memN_false p allow) Ea). rewrite (Ineg p En). rewrite !orb_true_r.
      split; [reflexivity|].
      split; intros q Hq; apply earlier_cons; auto.
    - (* consulted, Yes *)
      destruct (scan_yes a _ Es) as [pre [post [-> Hp]]].
      rewrite (scan_first Yes pre post Hp) in Es by congruence.
      injection Es as <-.
      assert (Hg : forall r, given {| ob_peer := p; ob_answers := pre ++ Yes :: post; ob_result := r;
                              ob_calls := map N.of_nat (seq 0 (S (length pre))) |} = pre ++ [Yes]).
      { intro r. rewrite given_model by (rewrite app_length; cbn [length]; lia).
        apply firstn_first. }
      assert (Hy : has Yes (pre ++ [Yes]) = true).
      { apply has_In. apply in_or_app. right. left. reflexivity. }
      assert (He : has Err (pre ++ [Yes]) = false).
      { unfold has. rewrite existsb_app. fold (has Err pre).
        rewrite (has_all_no Err pre Hp) by congruence. reflexivity. }
      assert (Hsy : forall r, said_yes {| ob_peer := p; ob_answers := pre ++ Yes :: post; ob_result := r;
                              ob_calls := map N.of_nat (seq 0 (S (length pre))) |} = true).
      { intro r. unfold said_yes. rewrite Hg, Hy, He. reflexivity. }
      rewrite Hg, He, Hsy. cbn [negb andb orb]. rewrite orb_true_r. split; [reflexivity|].
      split; intros q Hq.
      + destruct Hq as [<-|Hq]; [|apply earlier_cons; auto].
        apply earlier_here; [reflexivity|apply Hsy].
      + apply earlier_cons; auto.
    - (* consulted, all No *)
      destruct (scan_no a _ Es) as [Hall ->].
      assert (Hg : forall r, given {| ob_peer := p; ob_answers := a; ob_result := r;
                              ob_calls := map N.of_nat (seq 0 (length a)) |} = a).
      { intro r. rewrite given_model by lia. apply firstn_all. }
      assert (Hsn : forall r, said_no (length a) {| ob_peer := p; ob_answers := a; ob_result := r;
                              ob_calls := map N.of_nat (seq 0 (length a)) |} = true).
      { intro r. unfold said_no. rewrite Hg, asked_all_model, (proj2 (allno_Forall a) Hall).
        reflexivity. }
      rewrite Hsn.
      rewrite (proj2 (memN_false p allow) Ea). cbn [negb andb orb]. rewrite orb_true_r.
      split; [reflexivity|].
      split; intros q Hq.
      + apply earlier_cons; auto.
      + destruct Hq as [<-|Hq]; [|apply earlier_cons; auto].
        apply earlier_here; [reflexivity|apply Hsn].
    - (* consulted, Err *)
      destruct (scan_err a _ Es) as [pre [post [-> Hp]]].
      rewrite (scan_first Err pre post Hp) in Es by congruence.
      injection Es as <-.
      rewrite given_model by (rewrite app_length; cbn [length]; lia).
      rewrite firstn_first.
      assert (He : has Err (pre ++ [Err]) = true).
      { apply has_In. apply in_or_app. right. left. reflexivity. }
      rewrite He. rewrite (proj2 (memN_false p allow) Ea). cbn [negb andb orb].
      split; [reflexivity|].
      split; intros q Hq; apply earlier_cons; auto. }
  rewrite Hok. cbn [andb]. apply IH; assumption.
Qed.

Lemma model_trace_steps allow steps : forall st, steps_of (model_trace allow st steps) = steps.
Proof.
  induction steps as [|[p a] steps IH]; intro st; [reflexivity|].
  cbn [model_trace steps_of map ob_peer ob_answers]. f_equal. apply IH.
Qed.

Lemma model_trace_agree allow steps : forall st,
  agree_all (model_trace allow st steps) (run allow st steps) = true.
Proof.
  induction steps as [|[p a] steps IH]; intro st; [reflexivity|].
  cbn [model_trace run agree_all]. rewrite IH.
  unfold agree_step, model_obs. cbn [snd ob_result ob_calls].
  rewrite result_eqb_refl, list_eqbN_refl. reflexivity.
Qed.

Lemma model_trace_wf allow napps steps : forall st,
  Forall (fun s => length (snd s) = napps) steps ->
  forallb (fun o => Nat.eqb (length (ob_answers o)) napps) (model_trace allow st steps) = true.
Proof.
  induction steps as [|[p a] steps IH]; intros st H; [reflexivity|].
  pose proof (Forall_inv H) as Hl. pose proof (Forall_inv_tail H) as Hr. cbn [snd] in Hl.
  cbn [model_trace forallb ob_answers]. rewrite Hl, Nat.eqb_refl. apply IH. exact Hr.
Qed.

(* ------------------------------------------------------------------ *)
(* soundness of the executable property                                *)
(* ------------------------------------------------------------------ *)
Lemma step_ok_sound allow napps hist o :
  step_ok allow napps hist o = true -> step_prop allow napps hist o.
Proof.
  unfold step_ok, step_prop. cbn zeta.
  destruct (ob_result o) eqn:Er.
  - intro H. apply andb_true_iff in H. destruct H as [H1 H2].
    apply negb_true_iff, has_false in H1.
    split; [intro He; contradiction|]. split; [|intro C; congruence].
    intros _. apply orb_true_iff in H2. destruct H2 as [H2|H2].
    + apply orb_true_iff in H2. destruct H2 as [H2|H2].
      * left. apply memN_In. exact H2.
      * right. left. unfold said_yes in H2. apply andb_true_iff in H2.
        apply has_In. exact (proj1 H2).
    + right. right. apply earlier_iff in H2. destruct H2 as [e [He [Ep Ey]]].
      unfold said_yes in Ey. apply andb_true_iff in Ey. destruct Ey as [Ey En].
      exists e. repeat split; try assumption.
      * apply has_In. exact Ey.
      * apply has_false. apply negb_true_iff. exact En.
  - intro H. apply andb_true_iff in H. destruct H as [H1 H2].
    apply negb_true_iff, memN_false in H1.
    split; [intros _; congruence|]. split; [intro C; congruence|].
    intros _. split; [exact H1|].
    apply orb_true_iff in H2. destruct H2 as [H2|H2].
    + apply orb_true_iff in H2. destruct H2 as [H2|H2].
      * left. apply has_In. exact H2.
      * right. left. unfold said_no in H2. apply andb_true_iff in H2. destruct H2 as [A B].
        split; [apply asked_all_iff; exact A|apply allno_Forall; exact B].
    + right. right. apply earlier_iff in H2. destruct H2 as [e [He [Ep Ey]]].
      unfold said_no in Ey. apply andb_true_iff in Ey. destruct Ey as [A B].
      exists e. repeat split; try assumption.
      * apply asked_all_iff. exact A.
      * apply allno_Forall. exact B.
  - intro H. apply andb_true_iff in H. destruct H as [H1 H2].
    apply negb_true_iff, memN_false in H1.
    split; [intros _; congruence|]. split; [intro C; congruence|].
    intros _. split; [exact H1|].
    apply orb_true_iff in H2. destruct H2 as [H2|H2].
    + apply orb_true_iff in H2. destruct H2 as [H2|H2].
      * left. apply has_In. exact H2.
      * right. left. unfold said_no in H2. apply andb_true_iff in H2. destruct H2 as [A B].
        split; [apply asked_all_iff; exact A|apply allno_Forall; exact B].
    + right. right. apply earlier_iff in H2. destruct H2 as [e [He [Ep Ey]]].
      unfold said_no in Ey. apply andb_true_iff in Ey. destruct Ey as [A B].
      exists e. repeat split; try assumption.
      * apply asked_all_iff. exact A.
      * apply allno_Forall. exact B.
Qed.

Lemma step_prop_hist_ext allow napps h1 h2 o :
  (forall e, In e h1 -> In e h2) -> step_prop allow napps h1 o -> step_prop allow napps h2 o.
Proof.
  intros Hsub [P1 [P2 P3]]. split; [exact P1|]. split.
  - intro Ha. destruct (P2 Ha) as [H|[H|[e [He R]]]]; [left; exact H|right; left; exact H|].
    right. right. exists e. split; [apply Hsub; exact He|exact R].
  - intro Hna. destruct (P3 Hna) as [Hn [H|[H|[e [He R]]]]].
    + split; [exact Hn|left; exact H].
    + split; [exact Hn|right; left; exact H].
    + split; [exact Hn|]. right. right. exists e. split; [apply Hsub; exact He|exact R].
Qed.

Lemma spec_from_sound allow napps rest : forall hist,
  spec_from allow napps hist rest = true ->
  forall pre o post, rest = pre ++ o :: post -> step_prop allow napps (rev pre ++ hist) o.
Proof.
  induction rest as [|x rest IH]; intros hist H pre o post E.
  - destruct pre; discriminate.
  - cbn [spec_from] in H. apply andb_true_iff in H. destruct H as [H1 H2].
    destruct pre as [|y pre]; cbn [app] in E; injection E as -> ->.
    + cbn [rev app]. apply step_ok_sound. exact H1.
    + specialize (IH (y :: hist) H2 pre o post eq_refl).
      cbn [rev]. rewrite <- app_assoc. exact IH.
Qed.

(* ------------------------------------------------------------------ *)
(* the in-order part of the executable property                        *)
(* ------------------------------------------------------------------ *)
Lemma result_eqb_eq a b : result_eqb a b = true <-> a = b.
Proof. destruct a, b; cbn; split; intro H; congruence. Qed.

Lemma verdict_before_iff r p hist :
  verdict_before r p hist = true <-> exists e, In e hist /\ ob_peer e = p /\ ob_result e = r.
Proof.
  unfold verdict_before. rewrite existsb_exists. split.
  - intros [e [He E]]. apply andb_true_iff in E. destruct E as [E1 E2].
    apply N.eqb_eq in E1. apply result_eqb_eq in E2. exists e. auto.
  - intros [e [He [E1 E2]]]. exists e. split; [exact He|].
    apply andb_true_iff. split; [apply N.eqb_eq; exact E1|apply result_eqb_eq; exact E2].
Qed.

Lemma verdict_before_cons r p o hist :
  verdict_before r p hist = true -> verdict_before r p (o :: hist) = true.
Proof. unfold verdict_before. cbn [existsb]. intros ->. apply orb_true_r. Qed.

Lemma verdict_before_here r p o hist :
  ob_peer o = p -> ob_result o = r -> verdict_before r p (o :: hist) = true.
Proof.
  unfold verdict_before. cbn [existsb]. intros <- <-.
  rewrite N.eqb_refl, (proj2 (result_eqb_eq _ _) eq_refl). reflexivity.
Qed.

Lemma scan_yes_iff a : fst (scan a) = SYes <-> first_is Yes a.
Proof.
  split.
  - destruct (scan a) as [r k] eqn:E. cbn [fst]. intros ->. exact (scan_yes a k E).
  - intros H. destruct (first_is_yes_scan a H) as [k ->]. reflexivity.
Qed.

Lemma order_ok_sound allow hist o : order_ok allow hist o = true -> order_prop allow hist o.
Proof.
  unfold order_ok, order_prop. cbn zeta.
  destruct (memN (ob_peer o) allow) eqn:Ea.
  - apply memN_In in Ea. intro H. apply result_eqb_eq in H.
    split; [intros _; exact H|]. split; intros C; contradiction.
  - apply memN_false in Ea. intro H. split; [intro C; contradiction|].
    split; intros _ Hf.
    + apply scan_yes_iff in Hf. rewrite Hf in H. apply orb_true_iff in H. destruct H as [H|H].
      * left. apply result_eqb_eq. exact H.
      * right. apply verdict_before_iff. exact H.
    + assert (Hn : fst (scan (ob_answers o)) <> SYes) by (intro C; apply Hf, scan_yes_iff, C).
      destruct (fst (scan (ob_answers o))); [congruence| |];
      (apply orb_true_iff in H; destruct H as [H|H];
       [left; apply negb_true_iff in H; intro C; apply result_eqb_eq in C; congruence
       |right; apply verdict_before_iff; exact H]).
Qed.

Lemma order_prop_hist_ext allow h1 h2 o :
  (forall e, In e h1 -> In e h2) -> order_prop allow h1 o -> order_prop allow h2 o.
Proof.
  intros Hsub [P1 [P2 P3]]. split; [exact P1|]. split.
  - intros Ha Hf. destruct (P2 Ha Hf) as [H|[e [He R]]]; [left; exact H|].
    right. exists e. split; [apply Hsub; exact He|exact R].
  - intros Ha Hf. destruct (P3 Ha Hf) as [H|[e [He R]]]; [left; exact H|].
    right. exists e. split; [apply Hsub; exact He|exact R].
Qed.

Lemma order_from_sound allow rest : forall hist,
  order_from allow hist rest = true ->
  forall pre o post, rest = pre ++ o :: post -> order_prop allow (rev pre ++ hist) o.
Proof.
  induction rest as [|x rest IH]; intros hist H pre o post E.
  - destruct pre; discriminate.
  - cbn [order_from] in H. apply andb_true_iff in H. destruct H as [H1 H2].
    destruct pre as [|y pre]; cbn [app] in E; injection E as -> ->.
    + cbn [rev app]. apply order_ok_sound. exact H1.
    + specialize (IH (y :: hist) H2 pre o post eq_refl).
      cbn [rev]. rewrite <- app_assoc. exact IH.
Qed.

(* the model's own trace satisfies it: cache entries stem from earlier verdicts *)
Lemma model_trace_order allow steps : forall st hist,
  (forall q, In q (pos st) -> verdict_before Admit q hist = true) ->
  (forall q, In q (neg st) -> verdict_before NotRecognized q hist = true) ->
  order_from allow hist (model_trace allow st steps) = true.
Proof.
  induction steps as [|[p a] steps IH]; intros st hist Ipos Ineg; [reflexivity|].
  cbn [model_trace order_from].
  set (o := validate allow st p a).
  set (ob := {| ob_peer := p; ob_answers := a; ob_result := o_result o;
                ob_calls := map N.of_nat (seq 0 (o_calls o)) |}).
  assert (order_ok allow hist ob = true /\
          (forall q, In q (pos (o_after o)) -> verdict_before Admit q (ob :: hist) = true) /\
          (forall q, In q (neg (o_after o)) -> verdict_before NotRecognized q (ob :: hist) = true))
    as [Hok [Ipos' Ineg']].
  { subst ob o. unfold order_ok. cbn [ob_peer ob_answers ob_result].
    vcases allow st p a Ea Ep En Es; cbn [o_result o_calls o_after pos neg].
    - split; [reflexivity|].
      split; intros q Hq; apply verdict_before_cons; auto.
    - split; [destruct (fst (scan a)); cbn [result_eqb negb orb]; try reflexivity; apply Ipos, Ep|].
      split; intros q Hq; apply verdict_before_cons; auto.
    - split; [destruct (fst (scan a)); cbn [result_eqb negb orb]; try reflexivity; apply Ineg, En|].
      split; intros q Hq; apply verdict_before_cons; auto.
    - cbn [fst result_eqb orb].
      split; [reflexivity|]. split; intros q Hq.
      + destruct Hq as [<-|Hq]; [|apply verdict_before_cons; auto].
        apply verdict_before_here; reflexivity.
      + apply verdict_before_cons; auto.
    - cbn [fst result_eqb negb orb].
      split; [reflexivity|]. split; intros q Hq.
      + apply verdict_before_cons; auto.
      + destruct Hq as [<-|Hq]; [|apply verdict_before_cons; auto].
        apply verdict_before_here; reflexivity.
    - cbn [fst result_eqb negb orb].
      split; [reflexivity|].
      split; intros q Hq; apply verdict_before_cons; auto. }
  rewrite Hok. cbn [andb]. apply IH; assumption.
Qed.

(* ------------------------------------------------------------------ *)
(* theorems restated in Props/C21.v                                    *)
(* ------------------------------------------------------------------ *)
Theorem admit_sound : forall allow pre p a,
  let st := final allow empty pre in
  o_result (validate allow st p a) = Admit ->
  In p allow \/ first_is Yes a \/
  (In p (pos st) /\
   exists pre1 a' pre2,
     pre = pre1 ++ (p, a') :: pre2 /\ first_is Yes a' /\
     let o' := validate allow (final allow empty pre1) p a' in
     o_result o' = Admit /\ (0 < o_calls o')%nat).
Proof.
  intros allow pre p a st H.
  apply validate_admit_sound in H. destruct H as [H|[H|H]]; [left; exact H| |right; left; exact H].
  right. right. split; [exact H|].
  destruct (pos_justified allow pre p H) as [pre1 [a' [pre2 [E [Ha [Hy [Hp Hn]]]]]]].
  exists pre1, a', pre2. split; [exact E|]. split; [exact Hy|].
  cbn zeta. split.
  - apply (proj1 (validate_no_entry allow _ p a' Ha Hp Hn)). exact Hy.
  - destruct (first_is_yes_scan a' Hy) as [k Ek].
    unfold validate.
    rewrite (proj2 (memN_false _ _) Ha), (proj2 (memN_false _ _) Hp), (proj2 (memN_false _ _) Hn), Ek.
    cbn [o_calls]. lia.
Qed.

Theorem no_entry_follows_current_answers : forall allow pre p a,
  let st := final allow empty pre in
  let o := validate allow st p a in
  ~ In p allow -> ~ In p (pos st) -> ~ In p (neg st) ->
  (o_result o = Admit <-> first_is Yes a) /\
  (o_result o = Failed <-> first_is Err a) /\
  (o_result o = NotRecognized <-> Forall (eq No) a) /\
  (~ In Err a -> (o_result o = Admit <-> In Yes a)).
Proof.
  intros allow pre p a st o Ha Hp Hn.
  destruct (validate_no_entry allow st p a Ha Hp Hn) as [A [B C]].
  split; [exact A|]. split; [exact B|]. split; [exact C|].
  intro Hne. split.
  - intro H. apply first_is_yes_in. apply A. exact H.
  - intro H0. apply A. apply in_yes_no_err_first; assumption.
Qed.

Theorem no_entry_iff_every_earlier_check_failed : forall allow pre p,
  let st := final allow empty pre in
  ~ In p allow ->
  ((~ In p (pos st) /\ ~ In p (neg st)) <->
   (forall pre1 a' pre2, pre = pre1 ++ (p, a') :: pre2 -> first_is Err a')).
Proof.
  intros allow pre p st Ha. split.
  - intros [Hp Hn] pre1 a' pre2 E.
    destruct (first_non_no a') as [Hall|[Hy|He]]; [| |exact He]; exfalso.
    + assert (~ first_is Err a') as Hne.
      { intro He. refine (first_is_not_all_no Err a' _ He Hall). congruence. }
      pose proof (validate_records allow (final allow empty pre1) p a' Ha Hne) as R.
      subst st. rewrite E in Hp, Hn.
      replace (pre1 ++ (p, a') :: pre2) with ((pre1 ++ [(p, a')]) ++ pre2) in Hp, Hn
        by (rewrite <- app_assoc; reflexivity).
      rewrite final_app, final_snoc in Hp, Hn. cbn [fst snd] in Hp, Hn.
      destruct R as [R|R].
      * apply Hp. apply (proj1 (final_mono allow pre2 _ p)). exact R.
      * apply Hn. apply (proj2 (final_mono allow pre2 _ p)). exact R.
    + assert (~ first_is Err a') as Hne.
      { intro He. exact (first_is_excl a' Hy He). }
      pose proof (validate_records allow (final allow empty pre1) p a' Ha Hne) as R.
      subst st. rewrite E in Hp, Hn.
      replace (pre1 ++ (p, a') :: pre2) with ((pre1 ++ [(p, a')]) ++ pre2) in Hp, Hn
        by (rewrite <- app_assoc; reflexivity).
      rewrite final_app, final_snoc in Hp, Hn. cbn [fst snd] in Hp, Hn.
      destruct R as [R|R].
      * apply Hp. apply (proj1 (final_mono allow pre2 _ p)). exact R.
      * apply Hn. apply (proj2 (final_mono allow pre2 _ p)). exact R.
  - intro Hall. split; intro H.
    + destruct (pos_justified allow pre p H) as [pre1 [a' [pre2 [E [_ [Hy _]]]]]].
      exact (first_is_excl a' Hy (Hall pre1 a' pre2 E)).
    + destruct (neg_justified allow pre p H) as [pre1 [a' [pre2 [E [_ [Hno _]]]]]].
      refine (first_is_not_all_no Err a' _ (Hall pre1 a' pre2 E) Hno). congruence.
Qed.

Theorem err_rejects_and_keeps_caches : forall allow pre p a,
  let st := final allow empty pre in
  let o := validate allow st p a in
  (~ In p allow -> ~ In p (pos st) -> ~ In p (neg st) -> first_is Err a ->
   o_result o = Failed /\ o_after o = st) /\
  (o_result o = Failed -> o_after o = st /\ first_is Err a).
Proof.
  intros allow pre p a st o. split.
  - intros Ha Hp Hn He.
    assert (o_result o = Failed) as Hf
      by (apply (proj1 (proj2 (validate_no_entry allow st p a Ha Hp Hn))); exact He).
    split; [exact Hf|]. exact (proj1 (validate_failed allow st p a Hf)).
  - intro Hf. destruct (validate_failed allow st p a Hf) as [A [B _]]. split; assumption.
Qed.

Theorem cached_verdict_reused : forall allow pre p a,
  let st := final allow empty pre in
  (In p allow \/ In p (pos st) ->
   validate allow st p a = {| o_result := Admit; o_calls := 0; o_after := st |}) /\
  (~ In p allow -> In p (neg st) ->
   validate allow st p a = {| o_result := NotRecognized; o_calls := 0; o_after := st |}).
Proof.
  intros allow pre p a st. destruct (validate_cached allow st p a) as [A B].
  split; [exact A|]. intros Ha Hn. apply B; [exact Ha| |exact Hn].
  intro Hp. exact (caches_disjoint allow pre p Hp Hn).
Qed.

Theorem verdict_sticky : forall allow pre1 p a1 pre2 a2,
  let o1 := validate allow (final allow empty pre1) p a1 in
  let st2 := final allow empty (pre1 ++ (p, a1) :: pre2) in
  o_result o1 <> Failed ->
  validate allow st2 p a2 = {| o_result := o_result o1; o_calls := 0; o_after := st2 |}.
Proof.
  intros allow pre1 p a1 pre2 a2 o1 st2 Hnf.
  assert (Est : st2 = final allow (o_after o1) pre2).
  { subst st2 o1. replace (pre1 ++ (p, a1) :: pre2) with ((pre1 ++ [(p, a1)]) ++ pre2)
      by (rewrite <- app_assoc; reflexivity).
    rewrite final_app, final_snoc. reflexivity. }
  destruct (o_result o1) eqn:Er; [| |congruence].
  - (* admitted before *)
    apply (proj1 (cached_verdict_reused allow (pre1 ++ (p, a1) :: pre2) p a2)).
    destruct (validate_admit_sound allow _ p a1 Er) as [H|[H|H]]; [left; exact H| |].
    + right. fold st2. rewrite Est. apply (proj1 (final_mono allow pre2 _ p)).
      apply (proj1 (validate_mono allow _ p a1 p)). exact H.
    + destruct (In_dec N.eq_dec p allow) as [Ia|Ia]; [left; exact Ia|]. right.
      fold st2. rewrite Est. apply (proj1 (final_mono allow pre2 _ p)).
      subst o1. clear Est st2.
      destruct (In_dec N.eq_dec p (pos (final allow empty pre1))) as [Ip|Ip].
      * apply (proj1 (validate_mono allow _ p a1 p)). exact Ip.
      * revert Er.
        vcases allow (final allow empty pre1) p a1 Ea Ep En Es; cbn [o_result o_after pos];
          intro Er; try discriminate; try contradiction.
        left. reflexivity.
  - (* rejected as not recognised before *)
    assert (~ In p allow /\ In p (neg (o_after o1))) as [Ha Hn].
    { subst o1. clear Est st2. revert Er.
      vcases allow (final allow empty pre1) p a1 Ea Ep En Es; cbn [o_result o_after neg];
        intro Er; try discriminate.
      - split; assumption.
      - split; [assumption|left; reflexivity]. }
    apply (proj2 (cached_verdict_reused allow (pre1 ++ (p, a1) :: pre2) p a2)); [exact Ha|].
    fold st2. rewrite Est. apply (proj2 (final_mono allow pre2 _ p)). exact Hn.
Qed.

Theorem reject_sound : forall allow pre p a,
  let st := final allow empty pre in
  o_result (validate allow st p a) <> Admit ->
  ~ In p allow /\ ~ In p (pos st) /\
  (In p (neg st) \/ first_is Err a \/ Forall (eq No) a).
Proof.
  intros allow pre p a st.
  vcases allow st p a Ea Ep En Es; cbn [o_result]; intro H; try congruence.
  - repeat split; try assumption. left. exact En.
  - repeat split; try assumption. right. right. exact (proj1 (scan_no a _ Es)).
  - repeat split; try assumption. right. left. exact (scan_err a _ Es).
Qed.

Theorem spec_ok_sound : forall allow napps l,
  spec_ok allow napps l = true ->
  forall pre o post, l = pre ++ o :: post -> step_prop allow napps pre o.
Proof.
  intros allow napps l H pre o post E.
  unfold spec_ok in H. apply andb_true_iff in H. destruct H as [H _].
  pose proof (spec_from_sound allow napps l [] H pre o post E) as P.
  refine (step_prop_hist_ext allow napps _ _ o _ P).
  intros e He. rewrite app_nil_r in He. apply in_rev. exact He.
Qed.

Theorem spec_ok_order_sound : forall allow napps l,
  spec_ok allow napps l = true ->
  forall pre o post, l = pre ++ o :: post -> order_prop allow pre o.
Proof.
  intros allow napps l H pre o post E.
  unfold spec_ok in H. apply andb_true_iff in H. destruct H as [_ H].
  pose proof (order_from_sound allow l [] H pre o post E) as P.
  refine (order_prop_hist_ext allow _ _ o _ P).
  intros e He. rewrite app_nil_r in He. apply in_rev. exact He.
Qed.

Lemma first_is_yes_dec a : first_is Yes a \/ ~ first_is Yes a.
Proof.
  destruct (first_non_no a) as [H|[H|H]]; [right|left; exact H|right]; intro C.
  - refine (first_is_not_all_no Yes a _ C H). congruence.
  - exact (first_is_excl a C H).
Qed.

(* first validation of a peer that is not allowlisted: admitted iff the first answer, in
   application order, that is not No is a Yes *)
Theorem spec_ok_first_visit : forall allow napps l,
  spec_ok allow napps l = true ->
  forall pre o post, l = pre ++ o :: post ->
    ~ In (ob_peer o) allow -> (forall e, In e pre -> ob_peer e <> ob_peer o) ->
    (ob_result o = Admit <-> first_is Yes (ob_answers o)).
Proof.
  intros allow napps l H pre o post E Ha Hfresh.
  destruct (spec_ok_order_sound allow napps l H pre o post E) as [_ [P2 P3]].
  split.
  - intro Hr. destruct (first_is_yes_dec (ob_answers o)) as [Hf|Hf]; [exact Hf|].
    destruct (P3 Ha Hf) as [C|[e [He [Ep _]]]]; [congruence|]. exfalso. exact (Hfresh e He Ep).
  - intro Hf. destruct (P2 Ha Hf) as [C|[e [He [Ep _]]]]; [exact C|]. exfalso. exact (Hfresh e He Ep).
Qed.

(* every admission of a peer that is not allowlisted goes back to a validation of the SAME peer
   (this one or an earlier one) that was admitted with a Yes before any Err in order *)
Theorem spec_ok_admit_justified : forall allow napps l,
  spec_ok allow napps l = true ->
  forall pre o post, l = pre ++ o :: post -> ob_result o = Admit ->
    In (ob_peer o) allow \/
    exists e, In e (pre ++ [o]) /\ ob_peer e = ob_peer o /\ ob_result e = Admit
              /\ first_is Yes (ob_answers e).
Proof.
  intros allow napps l H pre. remember (length pre) as n eqn:En.
  revert pre En. induction n as [n IH] using lt_wf_ind. intros pre En o post E Hr.
  destruct (spec_ok_order_sound allow napps l H pre o post E) as [_ [_ P3]].
  destruct (memN (ob_peer o) allow) eqn:Ea; [left; apply memN_In; exact Ea|].
  apply memN_false in Ea. right.
  destruct (first_is_yes_dec (ob_answers o)) as [Hf|Hf].
  - exists o. split; [apply in_or_app; right; left; reflexivity|]. auto.
  - destruct (P3 Ea Hf) as [C|[e [He [Ep Er]]]]; [congruence|].
    destruct (in_split e pre He) as [pre1 [pre2 Epre]].
    assert (El : l = pre1 ++ e :: (pre2 ++ o :: post)).
    { rewrite E, Epre, <- app_assoc. reflexivity. }
    assert (Hlt : (length pre1 < n)%nat).
    { rewrite En, Epre, app_length. cbn [length]. lia. }
    destruct (IH (length pre1) Hlt pre1 eq_refl e _ El Er) as [Hal|[e' [He' [Ep' R]]]].
    + exfalso. apply Ea. rewrite <- Ep. exact Hal.
    + exists e'. split.
      * rewrite Epre. apply in_app_or in He'. apply in_or_app. left. apply in_or_app.
        destruct He' as [He'|[<-|[]]]; [left; exact He'|right; left; reflexivity].
      * split; [congruence|exact R].
Qed.

Theorem model_passes_spec : forall allow napps steps,
  Forall (fun s => length (snd s) = napps) steps ->
  spec_ok allow napps (model_trace allow empty steps) = true /\
  judge {| c_allow := allow; c_napps := napps; c_obs := model_trace allow empty steps |} = Agree.
Proof.
  intros allow napps steps H.
  assert (S1 : spec_ok allow napps (model_trace allow empty steps) = true).
  { unfold spec_ok. apply andb_true_iff. split.
    - apply model_trace_spec; [intros q []|intros q []|exact H].
    - apply model_trace_order; intros q []. }
  split; [exact S1|].
  unfold judge, well_formed. cbn [c_allow c_napps c_obs].
  rewrite (model_trace_wf allow napps steps empty H). cbn [negb].
  rewrite S1, model_trace_steps, model_trace_agree. reflexivity.
Qed.

(* the hypotheses of the theorems are satisfiable: a peer that is rejected with an error, then
   recognised, then served from the positive cache although every application now says No *)
Example error_then_yes_then_cached :
  map (fun m => model_obs (snd m))
      (run [] empty [(1%N, [Err; No]); (1%N, [No; Yes]); (1%N, [No; No])])
  = [(Failed, [0%N]); (Admit, [0%N; 1%N]); (Admit, [])].
Proof. reflexivity. Qed.

(* a Yes followed by an Err in the same call: the loop stops at the Yes (one application is
   consulted), the peer is admitted and positively cached; a judged observation that rejects it
   with the later error is refused by the executable property *)
Example yes_then_error_admits :
  map (fun m => model_obs (snd m)) (run [] empty [(1%N, [Yes; Err]); (1%N, [Err; Err])])
  = [(Admit, [0%N]); (Admit, [])]
  /\ spec_ok [] 2 [{| ob_peer := 1; ob_answers := [Yes; Err]; ob_result := Failed;
                      ob_calls := [0%N; 1%N] |}] = false
  /\ spec_ok [] 2 [{| ob_peer := 1; ob_answers := [Yes; Err]; ob_result := Admit;
                      ob_calls := [0%N] |}] = true.
Proof. repeat split; reflexivity. Qed.
