(* C10 — proofs about the model of the two performMembersSelection methods (Model/C10.v).
   The statements restated in Props/C10.v are the theorems at the end of this file.  Facts about
   pkg/tecdsa/retry are taken from Proofs/C09.v (signing_sound, keygen_sound, sort_keys_perm ...). *)
From Coq Require Import ZArith NArith List Bool Lia Permutation Sorted.
From Coq Require Import ZifyBool ZifyNat ZifyN.
From KV Require Import Common.Verdict Common.GoRand Model.C09 Model.C10 Proofs.GoRand Proofs.C09.
Import ListNotations.
Open Scope Z_scope.

(* ------------------------------------------------------------------ *)
(* generic list facts                                                  *)
(* ------------------------------------------------------------------ *)

Lemma memN_perm (x : N) (l l' : list N) : Permutation l l' -> memN x l = memN x l'.
Proof.
  intro P. destruct (memN x l) eqn:E1, (memN x l') eqn:E2; try reflexivity.
  - apply memN_In in E1. apply (Permutation_in _ P) in E1. apply memN_In in E1. congruence.
  - apply memN_In in E2. apply (Permutation_in _ (Permutation_sym P)) in E2.
    apply memN_In in E2. congruence.
Qed.

Lemma memN_false_iff (x : N) (l : list N) : memN x l = false <-> ~ In x l.
Proof.
  split.
  - intros E H. apply memN_In in H. congruence.
  - apply memN_notIn.
Qed.

Lemma filter_all {A} (f : A -> bool) (l : list A) :
  (forall x, In x l -> f x = true) -> filter f l = l.
Proof.
  induction l as [|a t IH]; intro H; cbn [filter]; [reflexivity|].
  rewrite (H a (or_introl eq_refl)). f_equal. apply IH. intros x Hx. apply H. right; exact Hx.
Qed.

Lemma filter_none {A} (f : A -> bool) (l : list A) :
  (forall x, In x l -> f x = false) -> filter f l = [].
Proof.
  induction l as [|a t IH]; intro H; cbn [filter]; [reflexivity|].
  rewrite (H a (or_introl eq_refl)). apply IH. intros x Hx. apply H. right; exact Hx.
Qed.

Lemma filter_andb {A} (f g : A -> bool) (l : list A) :
  filter (fun x => f x && g x) l = filter f (filter g l).
Proof.
  induction l as [|a t IH]; cbn [filter]; [reflexivity|].
  destruct (g a); cbn [filter]; rewrite ?andb_true_r, ?andb_false_r.
  - destruct (f a); [f_equal|]; exact IH.
  - exact IH.
Qed.

Lemma filter_map_comm {A B} (f : B -> bool) (g : A -> B) (l : list A) :
  filter f (map g l) = map g (filter (fun x => f (g x)) l).
Proof.
  induction l as [|a t IH]; cbn [filter map]; [reflexivity|].
  destruct (f (g a)); cbn [map]; [f_equal|]; exact IH.
Qed.

Lemma filter_partition_perm {A} (f : A -> bool) (l : list A) :
  Permutation (filter f l ++ filter (fun x => negb (f x)) l) l.
Proof.
  induction l as [|a t IH]; cbn [filter]; [apply perm_nil|].
  destruct (f a); cbn [negb app].
  - apply perm_skip. exact IH.
  - eapply perm_trans; [apply Permutation_sym, Permutation_middle|]. apply perm_skip. exact IH.
Qed.

Lemma NoDup_app_disjoint {A} (a b : list A) (x : A) :
  NoDup (a ++ b) -> In x a -> ~ In x b.
Proof.
  induction a as [|h t IH]; cbn [app]; intros ND Hin; [destruct Hin|].
  inversion ND as [|h' t' Hn ND']; subst.
  destruct Hin as [->|Hin].
  - intro Hb. apply Hn. apply in_or_app. right; exact Hb.
  - apply IH; assumption.
Qed.

(* the members not listed in E are exactly K, whenever the NoDup list M splits into K and E *)
Lemma complement_of_perm (M K E : list N) :
  NoDup M -> Permutation M (K ++ E) ->
  Permutation (filter (fun i => negb (memN i E)) M) K.
Proof.
  intros ND P.
  assert (NoDup (K ++ E)) as ND' by (apply (Permutation_NoDup P ND)).
  eapply perm_trans; [apply Permutation_filter, P|].
  rewrite filter_app.
  rewrite (filter_all _ K), (filter_none _ E).
  - rewrite app_nil_r. apply Permutation_refl.
  - intros x Hx. rewrite (proj2 (memN_In x E) Hx). reflexivity.
  - intros x Hx. rewrite (memN_notIn x E); [reflexivity|].
    apply (NoDup_app_disjoint K E x ND' Hx).
Qed.

(* ------------------------------------------------------------------ *)
(* sortN                                                               *)
(* ------------------------------------------------------------------ *)

Lemma insertN_perm (x : N) (l : list N) : Permutation (insertN x l) (x :: l).
Proof.
  induction l as [|y t IH]; cbn [insertN]; [apply Permutation_refl|].
  destruct (N.leb x y); [apply Permutation_refl|].
  eapply perm_trans; [apply perm_skip, IH|apply perm_swap].
Qed.

Lemma sortN_perm (l : list N) : Permutation (sortN l) l.
Proof.
  unfold sortN. induction l as [|a t IH]; cbn [fold_right]; [apply perm_nil|].
  eapply perm_trans; [apply insertN_perm|apply perm_skip, IH].
Qed.

Lemma insertN_sorted (x : N) (l : list N) :
  StronglySorted N.le l -> StronglySorted N.le (insertN x l).
Proof.
  induction 1 as [|y t S IH F]; cbn [insertN].
  - constructor; constructor.
  - rewrite Forall_forall in F.
    destruct (N.leb_spec x y) as [Hle|Hgt].
    + constructor; [constructor; [exact S|apply Forall_forall; exact F]|].
      apply Forall_forall. intros z [<-|Hz]; [exact Hle|]. specialize (F z Hz). lia.
    + constructor; [exact IH|]. apply Forall_forall. intros z Hz.
      apply (Permutation_in _ (insertN_perm x t)) in Hz. destruct Hz as [<-|Hz]; [lia|exact (F z Hz)].
Qed.

Lemma sortN_sorted (l : list N) : StronglySorted N.le (sortN l).
Proof.
  unfold sortN. induction l as [|a t IH]; cbn [fold_right]; [constructor|].
  apply insertN_sorted; exact IH.
Qed.

Lemma SSorted_le_perm_eq (l1 : list N) : forall l2,
  StronglySorted N.le l1 -> StronglySorted N.le l2 -> Permutation l1 l2 -> l1 = l2.
Proof.
  induction l1 as [|a t1 IH]; intros l2 S1 S2 P.
  - apply Permutation_nil in P. symmetry; exact P.
  - destruct l2 as [|b t2]; [apply Permutation_sym, Permutation_nil in P; discriminate P|].
    inversion S1 as [|a' t1' S1' F1]; subst. inversion S2 as [|b' t2' S2' F2]; subst.
    rewrite Forall_forall in F1, F2.
    assert (a = b) as ->.
    { assert (In a (b :: t2)) as Ha by (apply (Permutation_in _ P); left; reflexivity).
      assert (In b (a :: t1)) as Hb by (apply (Permutation_in _ (Permutation_sym P)); left; reflexivity).
      destruct Ha as [E|Ha]; [symmetry; exact E|]. destruct Hb as [E|Hb]; [exact E|].
      specialize (F1 b Hb). specialize (F2 a Ha). lia. }
    f_equal. apply IH; [exact S1'|exact S2'|]. apply (Permutation_cons_inv P).
Qed.

(* the ascending arrangement only depends on the multiset *)
Lemma sortN_perm_eq (l l' : list N) : Permutation l l' -> sortN l = sortN l'.
Proof.
  intro P. apply SSorted_le_perm_eq; try apply sortN_sorted.
  eapply perm_trans; [apply sortN_perm|]. eapply perm_trans; [exact P|].
  apply Permutation_sym, sortN_perm.
Qed.

(* ------------------------------------------------------------------ *)
(* the seats of a group                                                *)
(* ------------------------------------------------------------------ *)

Definition opd (ops : list N) (i : N) : N :=
  match op_of ops i with Some o => o | None => 0%N end.
Definition has_op (ops : list N) (i : N) : bool :=
  match op_of ops i with Some _ => true | None => false end.

Lemma ready_ops_spec (ops ready : list N) :
  ready_ops ops ready =
  if forallb (has_op ops) ready then Some (map (opd ops) ready) else None.
Proof.
  induction ready as [|i t IH]; cbn [ready_ops forallb map]; [reflexivity|].
  rewrite IH.
  assert (has_op ops i = match op_of ops i with Some _ => true | None => false end) as H1
    by reflexivity.
  assert (opd ops i = match op_of ops i with Some o => o | None => 0%N end) as H2 by reflexivity.
  destruct (op_of ops i) as [o|]; rewrite H1, ?H2; cbn [andb]; [|reflexivity].
  destruct (forallb (has_op ops) t); reflexivity.
Qed.

Lemma ready_ops_some (ops ready rops : list N) :
  ready_ops ops ready = Some rops ->
  rops = map (opd ops) ready /\ forall i, In i ready -> op_of ops i = Some (opd ops i).
Proof.
  rewrite ready_ops_spec. destruct (forallb (has_op ops) ready) eqn:E; [|discriminate].
  intro H; injection H as <-. split; [reflexivity|].
  intros i Hi. rewrite forallb_forall in E. specialize (E i Hi). unfold has_op, opd in *.
  destruct (op_of ops i); [reflexivity|discriminate].
Qed.

Lemma ready_ops_perm (ops ready ready' : list N) :
  Permutation ready ready' ->
  match ready_ops ops ready, ready_ops ops ready' with
  | Some r, Some r' => Permutation r r'
  | None, None => True
  | _, _ => False
  end.
Proof.
  intro P. rewrite !ready_ops_spec.
  assert (forallb (has_op ops) ready = forallb (has_op ops) ready') as E.
  { destruct (forallb (has_op ops) ready) eqn:E1, (forallb (has_op ops) ready') eqn:E2;
      try reflexivity.
    - rewrite forallb_forall in E1.
      assert (forallb (has_op ops) ready' = true) as X; [|congruence].
      apply forallb_forall. intros x Hx. apply E1. apply (Permutation_in _ (Permutation_sym P) Hx).
    - rewrite forallb_forall in E2.
      assert (forallb (has_op ops) ready = true) as X; [|congruence].
      apply forallb_forall. intros x Hx. apply E2. apply (Permutation_in _ P Hx). }
  rewrite <- E. destruct (forallb (has_op ops) ready); [|exact I].
  apply Permutation_map. exact P.
Qed.

(* (i, o) is a seat of the group iff operators[i-1] = o *)
Lemma In_combine_seq (l : list N) : forall (k : nat) (i o : N),
  In (i, o) (combine (map N.of_nat (seq k (length l))) l) <->
  exists j, i = N.of_nat (k + j) /\ nth_error l j = Some o.
Proof.
  induction l as [|a t IH]; intros k i o; cbn [length seq map combine In].
  - split; [intros []|]. intros [j [_ H]]. destruct j; discriminate H.
  - rewrite IH. split.
    + intros [E|[j [Ei Hj]]].
      * injection E as <- <-. exists O. split; [f_equal; lia|reflexivity].
      * exists (S j). split; [rewrite Ei; f_equal; lia|exact Hj].
    + intros [[|j] [Ei Hj]].
      * left. cbn [nth_error] in Hj. injection Hj as <-. rewrite Ei. f_equal. f_equal. lia.
      * right. exists j. split; [rewrite Ei; f_equal; lia|exact Hj].
Qed.

Lemma In_indexed (ops : list N) (i o : N) :
  In (i, o) (indexed ops) <-> op_of ops i = Some o.
Proof.
  unfold indexed, members, op_of. rewrite In_combine_seq. split.
  - intros [j [-> Hj]]. destruct (N.eqb_spec (N.of_nat (1 + j)) 0) as [E|_]; [lia|].
    replace (N.to_nat (N.of_nat (1 + j) - 1)) with j by lia. exact Hj.
  - destruct (N.eqb_spec i 0) as [E|Hne]; [discriminate|]. intro H.
    exists (N.to_nat (i - 1)). split; [lia|exact H].
Qed.

Lemma members_length (ops : list N) : length (members ops) = length ops.
Proof. unfold members. rewrite map_length, seq_length. reflexivity. Qed.

Lemma map_fst_combine {A B} (a : list A) : forall (b : list B),
  length a = length b -> map fst (combine a b) = a.
Proof.
  induction a as [|x a IH]; intros [|y b] H; cbn [combine map fst]; try reflexivity;
    try discriminate H.
  f_equal. apply IH. cbn [length] in H. lia.
Qed.

Lemma map_fst_indexed (ops : list N) : map fst (indexed ops) = members ops.
Proof. unfold indexed. apply map_fst_combine, members_length. Qed.

Lemma members_NoDup (ops : list N) : NoDup (members ops).
Proof.
  unfold members. apply FinFun.Injective_map_NoDup; [|apply seq_NoDup].
  intros a b H. lia.
Qed.

Lemma indexed_NoDup (ops : list N) : NoDup (indexed ops).
Proof.
  apply (NoDup_map_inv fst). rewrite map_fst_indexed. apply members_NoDup.
Qed.

Lemma In_members (ops : list N) (i : N) :
  In i (members ops) <-> exists o, op_of ops i = Some o.
Proof.
  rewrite <- map_fst_indexed, in_map_iff. split.
  - intros [[i' o] [E H]]. cbn [fst] in E. subst i'. exists o. apply In_indexed. exact H.
  - intros [o H]. exists (i, o). split; [reflexivity|apply In_indexed; exact H].
Qed.

(* the seats of the ready members, when the ready list is duplicate-free and in range *)
Lemma ready_seats_perm (ops ready : list N) :
  NoDup ready -> (forall i, In i ready -> op_of ops i = Some (opd ops i)) ->
  Permutation (filter (fun io => memN (fst io) ready) (indexed ops))
              (map (fun i => (i, opd ops i)) ready).
Proof.
  intros ND Hr. apply NoDup_Permutation.
  - apply NoDup_filter, indexed_NoDup.
  - apply FinFun.Injective_map_NoDup; [|exact ND]. intros a b H. injection H as H _. exact H.
  - intros [i o]. rewrite filter_In, in_map_iff. cbn [fst]. rewrite In_indexed, memN_In. split.
    + intros [Ho Hi]. exists i. split; [|exact Hi]. f_equal. rewrite (Hr i Hi) in Ho.
      injection Ho as <-. reflexivity.
    + intros [i' [E Hi]]. injection E as <- <-. split; [apply Hr; exact Hi|exact Hi].
Qed.

(* the number of included members = the number of the ready members' seats on qualified operators *)
Lemma included_count (q : N -> bool) (ops ready rops : list N) :
  NoDup ready -> ready_ops ops ready = Some rops ->
  length (included q ops ready) = length (filter q rops).
Proof.
  intros ND Hro. destruct (ready_ops_some _ _ _ Hro) as [-> Hr].
  unfold included. rewrite map_length. unfold is_included.
  rewrite (filter_andb (fun io => q (snd io)) (fun io => memN (fst io) ready)).
  rewrite (Permutation_length (Permutation_filter _ _ _ (ready_seats_perm ops ready ND Hr))).
  rewrite filter_map_comm, map_length. cbn [snd].
  rewrite filter_map_comm, map_length. reflexivity.
Qed.

(* members = included ++ excluded, up to order *)
Lemma members_split (q : N -> bool) (ops ready : list N) :
  Permutation (members ops) (included q ops ready ++ excluded q ops ready).
Proof.
  unfold included, excluded. rewrite <- map_app, <- map_fst_indexed.
  apply Permutation_map, Permutation_sym, filter_partition_perm.
Qed.

Lemma In_included (q : N -> bool) (ops ready : list N) (i : N) :
  In i (included q ops ready) <->
  In i ready /\ exists o, op_of ops i = Some o /\ q o = true.
Proof.
  unfold included. rewrite in_map_iff. split.
  - intros [[i' o] [E H]]. cbn [fst] in E. subst i'. apply filter_In in H. destruct H as [Hin Hp].
    unfold is_included in Hp. cbn [fst snd] in Hp. apply andb_true_iff in Hp. destruct Hp as [Hq Hm].
    split; [apply memN_In; exact Hm|]. exists o. split; [apply In_indexed; exact Hin|exact Hq].
  - intros [Hi [o [Ho Hq]]]. exists (i, o). split; [reflexivity|]. apply filter_In.
    split; [apply In_indexed; exact Ho|]. unfold is_included. cbn [fst snd]. rewrite Hq.
    rewrite (proj2 (memN_In i ready) Hi). reflexivity.
Qed.

(* what the client takes as included when it is handed the excluded list of the partition *)
Lemma included_of_excluded (q : N -> bool) (ops ready : list N) :
  Permutation (included_of ops (excluded q ops ready)) (included q ops ready).
Proof.
  unfold included_of. apply complement_of_perm; [apply members_NoDup|apply members_split].
Qed.

(* ------------------------------------------------------------------ *)
(* whole-operator sub-lists                                            *)
(* ------------------------------------------------------------------ *)

Lemma whole_filter_mem (seats l : list N) :
  whole_operator_sublist seats l -> filter (fun o => memN o l) seats = l.
Proof.
  intros [keep ->]. pose proof (whole_sublist_complete seats keep) as H.
  unfold whole_sublist in H. apply list_eqb_eq in H. symmetry. exact H.
Qed.

Lemma whole_In (seats l : list N) (o : N) :
  whole_operator_sublist seats l -> In o l -> In o seats.
Proof. intros [keep ->] H. apply filter_In in H. exact (proj1 H). Qed.

(* ------------------------------------------------------------------ *)
(* pkg/tecdsa/retry does not depend on the order of the seat list      *)
(* ------------------------------------------------------------------ *)

(* two outcomes of the retry algorithm that qualify the same operators *)
Definition res_equiv (r r' : res) : Prop :=
  match r, r' with
  | Ok l, Ok l' => forall o, memN o l = memN o l'
  | ErrTooMany, ErrTooMany | ErrRetry, ErrRetry | Panic, Panic => True
  | _, _ => False
  end.

Lemma seat_count_perm (seats seats' : list N) (o : N) :
  Permutation seats seats' -> seat_count seats o = seat_count seats' o.
Proof.
  intro P. unfold seat_count. f_equal. apply Permutation_length, Permutation_filter, P.
Qed.

Lemma len_perm {A} (l l' : list A) : Permutation l l' -> len l = len l'.
Proof. intro P. unfold len. f_equal. apply Permutation_length, P. Qed.

Lemma accept_until_ext (seats seats' : list N) (need : Z) :
  (forall o, seat_count seats o = seat_count seats' o) ->
  forall ops acc got, accept_until seats ops need acc got = accept_until seats' ops need acc got.
Proof.
  intros H. induction ops as [|o t IH]; intros acc got; cbn [accept_until]; [reflexivity|].
  destruct (need <=? got); [reflexivity|]. rewrite H. apply IH.
Qed.

Lemma distinct_keys_perm (iter iter' : list N -> list N) (seats seats' : list N) :
  (forall l, Permutation (iter l) l) -> (forall l, Permutation (iter' l) l) ->
  Permutation seats seats' ->
  Permutation (distinct_keys iter seats) (distinct_keys iter' seats').
Proof.
  intros Hit Hit' P. unfold distinct_keys.
  eapply perm_trans; [apply Hit|]. eapply perm_trans; [|apply Permutation_sym, Hit'].
  apply NoDup_Permutation; try apply NoDup_nodup.
  intro x. rewrite !nodup_In. split; apply Permutation_in; [exact P|apply Permutation_sym, P].
Qed.

Lemma filter_mem_equiv (f : N -> bool) (seats seats' : list N) (o : N) :
  Permutation seats seats' -> memN o (filter f seats) = memN o (filter f seats').
Proof. intro P. apply memN_perm, Permutation_filter, P. Qed.

Section RetryOrder.
  Variable rngT : Type.
  Variable mkrng : Z -> rngT.
  Variable shuffle : forall A : Type, rngT -> list A -> list A.
  Variables iter iter' : list N -> list N.
  Hypothesis Hit : forall l, Permutation (iter l) l.
  Hypothesis Hit' : forall l, Permutation (iter' l) l.

  Lemma signing_perm (seats seats' : list N) (seed : Z) (retry count : N) :
    Permutation seats seats' ->
    res_equiv (signing rngT mkrng shuffle iter seats seed retry count)
              (signing rngT mkrng shuffle iter' seats' seed retry count).
  Proof.
    intro P. unfold signing. rewrite <- (len_perm _ _ P).
    destruct (len seats <? Z.of_N count); [exact I|].
    rewrite (sort_keys_perm _ _ (distinct_keys_perm iter iter' seats seats' Hit Hit' P)).
    rewrite (accept_until_ext seats seats' (Z.of_N count)
               (fun o => seat_count_perm seats seats' o P)).
    destruct (accept_until seats' _ _ _ _) as [acc|]; [|exact I].
    cbn [res_equiv]. intro o. apply filter_mem_equiv, P.
  Qed.

  Lemma eligible1_perm (seats seats' : list N) (c : Z) (o : N) :
    Permutation seats seats' -> eligible1 seats c o = eligible1 seats' c o.
  Proof.
    intro P. unfold eligible1. rewrite (len_perm _ _ P), (seat_count_perm _ _ o P). reflexivity.
  Qed.

  Lemma singles_perm (seats seats' : list N) (c : Z) :
    Permutation seats seats' -> singles iter seats c = singles iter' seats' c.
  Proof.
    intro P. unfold singles. apply sort_keys_perm.
    rewrite (filter_ext _ _ (fun o => eligible1_perm seats seats' c o P)).
    apply Permutation_filter, distinct_keys_perm; assumption.
  Qed.

  Lemma exclusion_perm (seats seats' : list N) (g : rngT) (retry : N) (c : Z) :
    Permutation seats seats' ->
    exclusion rngT shuffle iter seats g retry c = exclusion rngT shuffle iter' seats' g retry c.
  Proof.
    intro P. unfold exclusion, pairs, triples.
    rewrite (singles_perm seats seats' c P).
    assert (forall l, filter (eligible2 seats c) l = filter (eligible2 seats' c) l) as E2.
    { intro l. apply filter_ext. intros [a b]. unfold eligible2. cbn [fst snd].
      rewrite (len_perm _ _ P), (seat_count_perm _ _ a P), (seat_count_perm _ _ b P). reflexivity. }
    assert (forall l, filter (eligible3 seats c) l = filter (eligible3 seats' c) l) as E3.
    { intro l. apply filter_ext. intros [[a b] d]. unfold eligible3.
      rewrite (len_perm _ _ P), (seat_count_perm _ _ a P), (seat_count_perm _ _ b P),
        (seat_count_perm _ _ d P). reflexivity. }
    rewrite !E2, !E3. reflexivity.
  Qed.

  Lemma keygen_perm (seats seats' : list N) (seed : Z) (retry count : N) :
    Permutation seats seats' ->
    res_equiv (keygen rngT mkrng shuffle iter seats seed retry count)
              (keygen rngT mkrng shuffle iter' seats' seed retry count).
  Proof.
    intro P. unfold keygen, keygen_g. rewrite <- (len_perm _ _ P).
    destruct (len seats <? Z.of_N count); [exact I|].
    rewrite (exclusion_perm seats seats' _ _ _ P).
    destruct (exclusion rngT shuffle iter' seats' _ _ _) as [ex|]; [|exact I].
    cbn [res_equiv]. intro o. apply filter_mem_equiv, P.
  Qed.

  (* ---- the selections only depend on the ready SET ---- *)

  Lemma partition_ext (q q' : N -> bool) (ops ready ready' : list N) :
    (forall o, q o = q' o) -> (forall i, memN i ready = memN i ready') ->
    included q ops ready = included q' ops ready' /\ excluded q ops ready = excluded q' ops ready'.
  Proof.
    intros Hq Hr. unfold included, excluded.
    assert (forall io, is_included q ready io = is_included q' ready' io) as E.
    { intro io. unfold is_included. rewrite Hq, Hr. reflexivity. }
    split; f_equal; apply filter_ext; intro io; rewrite E; reflexivity.
  Qed.

  Lemma signing_finish_equiv (ops : list N) (thr : N) (seed : Z) (att : N)
        (ready ready' : list N) (r r' : res) :
    res_equiv r r' -> (forall i, memN i ready = memN i ready') ->
    signing_finish rngT mkrng shuffle ops thr seed att ready r =
    signing_finish rngT mkrng shuffle ops thr seed att ready' r'.
  Proof.
    intros Hr Hm. destruct r as [l| | |], r' as [l'| | |]; cbn [res_equiv] in Hr;
      try contradiction; try reflexivity.
    cbn [signing_finish].
    destruct (partition_ext (fun o => memN o l) (fun o => memN o l') ops ready ready' Hr Hm)
      as [-> ->].
    reflexivity.
  Qed.

  Lemma dkg_finish_equiv (ops ready ready' : list N) (r r' : res) :
    res_equiv r r' -> (forall i, memN i ready = memN i ready') ->
    dkg_finish ops ready r = dkg_finish ops ready' r'.
  Proof.
    intros Hr Hm. destruct r as [l| | |], r' as [l'| | |]; cbn [res_equiv] in Hr;
      try contradiction; try reflexivity.
    cbn [dkg_finish].
    destruct (partition_ext (fun o => memN o l) (fun o => memN o l') ops ready ready' Hr Hm)
      as [_ ->].
    reflexivity.
  Qed.

  Lemma signing_qualified_perm (ops : list N) (thr : N) (seed : Z) (att : N) (ready ready' : list N) :
    Permutation ready ready' ->
    res_equiv (signing_qualified rngT mkrng shuffle iter ops thr seed att ready)
              (signing_qualified rngT mkrng shuffle iter' ops thr seed att ready').
  Proof.
    intro P. unfold signing_qualified. pose proof (ready_ops_perm ops ready ready' P) as H.
    destruct (ready_ops ops ready) as [r|], (ready_ops ops ready') as [r'|]; try contradiction;
      [|exact I].
    apply signing_perm, H.
  Qed.

  Lemma dkg_qualified_perm (ops : list N) (quorum : N) (seed : Z) (att : N) (ready ready' : list N) :
    Permutation ready ready' ->
    res_equiv (dkg_qualified rngT mkrng shuffle iter ops quorum seed att ready)
              (dkg_qualified rngT mkrng shuffle iter' ops quorum seed att ready').
  Proof.
    intro P. unfold dkg_qualified. pose proof (ready_ops_perm ops ready ready' P) as H.
    destruct (ready_ops ops ready) as [r|], (ready_ops ops ready') as [r'|]; try contradiction;
      [|exact I].
    destruct (N.eqb att 1).
    - cbn [res_equiv]. intro o. apply memN_perm, H.
    - apply keygen_perm, H.
  Qed.
End RetryOrder.

Theorem order_invariant :
  forall (rngT : Type) (mkrng : Z -> rngT) (shuffle : forall A : Type, rngT -> list A -> list A)
         (iter iter' : list N -> list N),
    (forall l, Permutation (iter l) l) ->
    (forall l, Permutation (iter' l) l) ->
    forall ops count seed att ready ready',
      Permutation ready ready' ->
      signing_select rngT mkrng shuffle iter ops count seed att ready =
      signing_select rngT mkrng shuffle iter' ops count seed att ready' /\
      dkg_select rngT mkrng shuffle iter ops count seed att ready =
      dkg_select rngT mkrng shuffle iter' ops count seed att ready'.
Proof.
  intros rngT mkrng shuffle iter iter' Hit Hit' ops count seed att ready ready' P.
  assert (forall i, memN i ready = memN i ready') as Hm by (intro i; apply memN_perm, P).
  split.
  - unfold signing_select. apply signing_finish_equiv; [|exact Hm].
    apply signing_qualified_perm; assumption.
  - unfold dkg_select. apply dkg_finish_equiv; [|exact Hm].
    apply dkg_qualified_perm; assumption.
Qed.

(* ------------------------------------------------------------------ *)
(* what a selection returns                                            *)
(* ------------------------------------------------------------------ *)

Lemma ready_ops_none (ops ready : list N) :
  ready_ops ops ready = None -> exists i, In i ready /\ op_of ops i = None.
Proof.
  induction ready as [|i t IH]; cbn [ready_ops]; [discriminate|].
  destruct (op_of ops i) as [o|] eqn:E.
  - destruct (ready_ops ops t) as [r|]; [discriminate|]. intros _.
    destruct (IH eq_refl) as [j [Hj Ej]]. exists j. split; [right; exact Hj|exact Ej].
  - intros _. exists i. split; [left; reflexivity|exact E].
Qed.

Lemma ready_ops_len (ops ready rops : list N) :
  ready_ops ops ready = Some rops -> len rops = len ready.
Proof.
  intro H. destruct (ready_ops_some _ _ _ H) as [-> _]. unfold len. rewrite map_length. reflexivity.
Qed.

Lemma In_firstn {A} (n : nat) : forall (l : list A) (x : A), In x (firstn n l) -> In x l.
Proof.
  induction n as [|n IH]; intros [|a t] x H; cbn [firstn] in H; try destruct H as [].
  - left; assumption.
  - right. apply IH. assumption.
Qed.

Section Sound.
  Variable rngT : Type.
  Variable mkrng : Z -> rngT.
  Variable shuffle : forall A : Type, rngT -> list A -> list A.
  Variable iter : list N -> list N.
  Hypothesis Hsh : forall A g l, Permutation (shuffle A g l) l.
  Hypothesis Hit : forall l, Permutation (iter l) l.

  Theorem signing_select_sound (ops : list N) (thr : N) (seed : Z) (att : N) (ready : list N) :
    NoDup ready ->
    match signing_select rngT mkrng shuffle iter ops thr seed att ready with
    | SOk ex =>
        len (included_of ops ex) = Z.of_N thr /\
        exists l, signing_qualified rngT mkrng shuffle iter ops thr seed att ready = Ok l /\
                  forall i, In i (included_of ops ex) ->
                            In i ready /\ exists o, op_of ops i = Some o /\ In o l
    | SErrTooMany => len ready < Z.of_N thr
    | SErrRetry => False
    | SPanic => exists i, In i ready /\ op_of ops i = None
    end.
  Proof.
    intro ND. unfold signing_select, signing_qualified.
    destruct (ready_ops ops ready) as [rops|] eqn:Hro;
      [|cbn [signing_finish]; apply ready_ops_none; exact Hro].
    pose proof (signing_sound rngT mkrng shuffle iter Hsh Hit rops seed (att - 1) thr) as HS.
    destruct (signing rngT mkrng shuffle iter rops seed (att - 1) thr) as [l| | |];
      cbn [signing_finish]; try contradiction.
    2:{ rewrite <- (ready_ops_len _ _ _ Hro). exact HS. }
    destruct HS as [Hw Hc].
    set (q := fun o => memN o l).
    assert (len (included q ops ready) = len l) as Hlen.
    { unfold len. rewrite (included_count q ops ready rops ND Hro).
      unfold q. rewrite (whole_filter_mem rops l Hw). reflexivity. }
    assert (forall i, In i (included q ops ready) ->
                      In i ready /\ exists o, op_of ops i = Some o /\ In o l) as Hinc.
    { intros i Hi. apply In_included in Hi. destruct Hi as [Hr [o [Ho Hq]]].
      split; [exact Hr|]. exists o. split; [exact Ho|]. apply memN_In. exact Hq. }
    destruct (Z.ltb_spec (Z.of_N thr) (len (included q ops ready))) as [Hlt|Hge].
    - (* surplus: shuffle the included members, keep the first thr *)
      set (sh := shuffle N _ (sortN (included q ops ready))).
      set (t := N.to_nat thr).
      assert (Permutation (included q ops ready) sh) as Psh.
      { apply Permutation_sym. eapply perm_trans; [apply Hsh|apply sortN_perm]. }
      assert (Permutation (members ops)
                (firstn t sh ++ sortN (excluded q ops ready ++ skipn t sh))) as PM.
      { eapply perm_trans; [apply (members_split q ops ready)|].
        eapply perm_trans; [apply Permutation_app_tail, Psh|].
        rewrite <- (firstn_skipn t sh) at 1. rewrite <- app_assoc.
        apply Permutation_app_head.
        eapply perm_trans; [apply Permutation_app_comm|apply Permutation_sym, sortN_perm]. }
      pose proof (complement_of_perm _ _ _ (members_NoDup ops) PM) as PC.
      fold (included_of ops (sortN (excluded q ops ready ++ skipn t sh))) in PC.
      split.
      + unfold len. rewrite (Permutation_length PC). rewrite firstn_length_le; [lia|].
        rewrite <- (Permutation_length Psh). unfold len in Hlt. lia.
      + exists l. split; [reflexivity|]. intros i Hi. apply Hinc.
        apply (Permutation_in _ (Permutation_sym Psh)).
        apply (Permutation_in _ PC) in Hi. apply (In_firstn _ _ _ Hi).
    - pose proof (included_of_excluded q ops ready) as PC. split.
      + unfold len. rewrite (Permutation_length PC). unfold len in *. lia.
      + exists l. split; [reflexivity|]. intros i Hi. apply Hinc.
        apply (Permutation_in _ PC Hi).
  Qed.

  Theorem dkg_select_sound (ops : list N) (quorum : N) (seed : Z) (att : N) (ready : list N) :
    match dkg_select rngT mkrng shuffle iter ops quorum seed att ready with
    | SOk ex =>
        exists l, dkg_qualified rngT mkrng shuffle iter ops quorum seed att ready = Ok l /\
          (forall o, In o l -> exists i, In i ready /\ op_of ops i = Some o) /\
          (forall i, In i (members ops) ->
                     (~ In i ex <-> In i ready /\ exists o, op_of ops i = Some o /\ In o l)) /\
          (NoDup ready -> Z.of_N quorum <= len ready -> Z.of_N quorum <= len (included_of ops ex))
    | SErrTooMany => att <> 1%N /\ len ready < Z.of_N quorum
    | SErrRetry => att <> 1%N
    | SPanic => exists i, In i ready /\ op_of ops i = None
    end.
  Proof.
    unfold dkg_select, dkg_qualified.
    destruct (ready_ops ops ready) as [rops|] eqn:Hro;
      [|cbn [dkg_finish]; apply ready_ops_none; exact Hro].
    destruct (ready_ops_some _ _ _ Hro) as [Erops Hr].
    assert (forall l, (forall o, In o l -> In o rops) ->
                      len (filter (fun o => memN o l) rops) = len l ->
                      Z.of_N quorum <= len l \/ (l = rops) ->
              exists l0, Ok l = Ok l0 /\
                (forall o, In o l0 -> exists i, In i ready /\ op_of ops i = Some o) /\
                (forall i, In i (members ops) ->
                   (~ In i (excluded (fun o => memN o l) ops ready) <->
                    In i ready /\ exists o, op_of ops i = Some o /\ In o l0)) /\
                (NoDup ready -> Z.of_N quorum <= len ready ->
                 Z.of_N quorum <= len (included_of ops (excluded (fun o => memN o l) ops ready))))
      as Main.
    { intros l Hsub Hfl Hq. exists l. split; [reflexivity|]. set (q := fun o => memN o l).
      split; [|split].
      - intros o Ho. apply Hsub in Ho. rewrite Erops in Ho. apply in_map_iff in Ho.
        destruct Ho as [i [E Hi]]. exists i. split; [exact Hi|]. rewrite (Hr i Hi), E. reflexivity.
      - intros i Hi.
        assert (In i (included q ops ready) <->
                In i ready /\ exists o, op_of ops i = Some o /\ In o l) as HI.
        { rewrite In_included. unfold q. split; intros [H1 [o [H2 H3]]]; (split; [exact H1|]);
            exists o; (split; [exact H2|]); apply memN_In; exact H3. }
        rewrite <- HI. pose proof (members_split q ops ready) as PM.
        pose proof (Permutation_NoDup PM (members_NoDup ops)) as NDs. split.
        + intro Hn. apply (Permutation_in _ PM) in Hi. apply in_app_or in Hi.
          destruct Hi as [Hi|Hi]; [exact Hi|contradiction].
        + intros Hi' He. exact (NoDup_app_disjoint _ _ i NDs Hi' He).
      - intros ND Hge. unfold len. rewrite (Permutation_length (included_of_excluded q ops ready)).
        rewrite (included_count q ops ready rops ND Hro). fold (len (filter q rops)).
        unfold q. rewrite Hfl. destruct Hq as [Hq| ->]; [exact Hq|].
        rewrite (ready_ops_len _ _ _ Hro). exact Hge. }
    destruct (N.eqb_spec att 1) as [E1|Hne]; cbn [dkg_finish].
    - apply Main.
      + intros o H; exact H.
      + rewrite filter_mem_all; [reflexivity|]. intros s H; exact H.
      + right; reflexivity.
    - pose proof (keygen_sound rngT mkrng shuffle iter Hsh Hit rops seed (att - 1) quorum) as HS.
      destruct (keygen rngT mkrng shuffle iter rops seed (att - 1) quorum) as [l| | |];
        cbn [dkg_finish]; try contradiction.
      + destruct HS as [Hw [Hc _]]. apply Main.
        * intros o Ho. exact (whole_In rops l o Hw Ho).
        * rewrite (whole_filter_mem rops l Hw). reflexivity.
        * left; exact Hc.
      + split; [exact Hne|]. rewrite <- (ready_ops_len _ _ _ Hro). exact HS.
      + exact Hne.
  Qed.
End Sound.

(* ------------------------------------------------------------------ *)
(* the executable form                                                 *)
(* ------------------------------------------------------------------ *)

Lemma nodupb_NoDup (l : list N) : nodupb l = true -> NoDup l.
Proof.
  induction l as [|a t IH]; cbn [nodupb]; intro H; [constructor|].
  apply andb_true_iff in H. destruct H as [H1 H2]. constructor; [|apply IH; exact H2].
  apply memN_false_iff. destruct (memN a t); [discriminate H1|reflexivity].
Qed.

Lemma in_range_op (ops : list N) (i : N) : in_range ops i = true -> op_of ops i <> None.
Proof.
  unfold in_range, op_of. intro H. apply andb_true_iff in H. destruct H as [H1 H2].
  destruct (N.eqb_spec i 0) as [E|_]; [lia|]. apply nth_error_Some. lia.
Qed.

Lemma ready_wf_props (ops ready : list N) :
  ready_wf ops ready = true ->
  NoDup ready /\ forall i, In i ready -> op_of ops i <> None.
Proof.
  unfold ready_wf. intro H. apply andb_true_iff in H. destruct H as [H1 H2].
  split; [apply nodupb_NoDup; exact H1|]. intros i Hi. rewrite forallb_forall in H2.
  apply in_range_op, H2, Hi.
Qed.

Definition inc_ok (ops ready qual inc : list N) : Prop :=
  forall i, In i inc -> In i ready /\ exists o, op_of ops i = Some o /\ In o qual.

Lemma inc_ready_qualified_iff (ops ready qual inc : list N) :
  inc_ready_qualified ops ready qual inc = true <-> inc_ok ops ready qual inc.
Proof.
  unfold inc_ready_qualified, inc_ok. rewrite forallb_forall. split; intros H i Hi.
  - specialize (H i Hi). apply andb_true_iff in H. destruct H as [H1 H2].
    split; [apply memN_In; exact H1|]. destruct (op_of ops i) as [o|]; [|discriminate H2].
    exists o. split; [reflexivity|apply memN_In; exact H2].
  - destruct (H i Hi) as [H1 [o [H2 H3]]]. rewrite H2.
    rewrite (proj2 (memN_In _ _) H1), (proj2 (memN_In _ _) H3). reflexivity.
Qed.

Theorem spec_out_sound :
  forall ops count att ready qual ex,
    (spec_sign_out ops count ready qual (SOk ex) = true ->
     len (included_of ops ex) = Z.of_N count /\ inc_ok ops ready qual (included_of ops ex)) /\
    (spec_dkg_out ops count att ready qual (SOk ex) = true ->
     inc_ok ops ready qual (included_of ops ex) /\
     (Z.of_N count <= len ready -> Z.of_N count <= len (included_of ops ex))).
Proof.
  intros ops count att ready qual ex. split; intro H.
  - cbn [spec_sign_out] in H. apply andb_true_iff in H. destruct H as [H1 H2].
    split; [lia|apply inc_ready_qualified_iff; exact H2].
  - cbn [spec_dkg_out] in H. apply andb_true_iff in H. destruct H as [H1 H2].
    split; [apply inc_ready_qualified_iff; exact H1|]. intro Hge.
    apply orb_true_iff in H2. destruct H2 as [H2|H2]; lia.
Qed.

(* spec_ok on a ready set says that all members, on all orderings, returned one and the same
   outcome, and that this outcome satisfies the per-output property *)
Theorem spec_ok_sound :
  forall c, spec_ok c = true -> ready_wf (c_ops c) (first_ready c) = true ->
    exists o, c_outs c = [o] /\ spec_out c o = true.
Proof.
  intros c H Hwf. unfold spec_ok in H. rewrite Hwf in H. apply andb_true_iff in H.
  destruct H as [H1 H2]. destruct (c_outs c) as [|o [|o' t]]; try discriminate H1.
  exists o. split; [reflexivity|]. cbn [forallb] in H2. apply andb_true_iff in H2. exact (proj1 H2).
Qed.

Lemma concrete_iter_perm : forall l, Permutation (C09.Concrete.iter l) l.
Proof. intro l. apply Permutation_refl. Qed.

Lemma in_included_of (ops ex : list N) (i : N) :
  In i (included_of ops ex) <-> In i (members ops) /\ ~ In i ex.
Proof.
  unfold included_of. rewrite filter_In. split; intros [H1 H2]; (split; [exact H1|]).
  - apply memN_false_iff. destruct (memN i ex); [discriminate H2|reflexivity].
  - rewrite (memN_notIn _ _ H2). reflexivity.
Qed.

Theorem model_outputs_pass_spec :
  forall k ops count seed att ready,
    let c0 := {| c_kind := k; c_ops := ops; c_count := count; c_seed := seed; c_att := att;
                 c_readys := [ready]; c_outs := []; c_qual := [] |} in
    let m := C10.Concrete.model c0 ready in
    spec_ok {| c_kind := k; c_ops := ops; c_count := count; c_seed := seed; c_att := att;
               c_readys := [ready]; c_outs := [fst m]; c_qual := snd m |} = true.
Proof.
  intros k ops count seed att ready c0 m. unfold spec_ok. cbn [c_ops c_outs first_ready c_readys hd].
  destruct (ready_wf ops ready) eqn:Hwf; [|reflexivity].
  destruct (ready_wf_props _ _ Hwf) as [ND Hr].
  cbn [length Nat.eqb forallb andb]. rewrite andb_true_r.
  unfold spec_out. cbn [c_kind c_ops c_count c_att c_qual first_ready c_readys hd].
  subst m c0. unfold C10.Concrete.model. cbn [c_kind c_ops c_count c_seed c_att fst snd].
  destruct k.
  - pose proof (signing_select_sound rng rng_seed C09.Concrete.shuffle C09.Concrete.iter
                  concrete_shuffle_perm concrete_iter_perm ops count seed att ready ND) as HS.
    unfold signing_select in HS. unfold C10.Concrete.signing_qualified.
    destruct (signing_finish rng rng_seed C09.Concrete.shuffle ops count seed att ready
                (signing_qualified rng rng_seed C09.Concrete.shuffle C09.Concrete.iter
                   ops count seed att ready)) as [ex| | |]; cbn [spec_sign_out].
    + destruct HS as [Hlen [l [El Hinc]]]. rewrite El. apply andb_true_iff. split; [lia|].
      apply inc_ready_qualified_iff. intros i Hi. destruct (Hinc i Hi) as [H1 [o [H2 H3]]].
      split; [exact H1|]. exists o. split; [exact H2|]. apply sort_keys_In. exact H3.
    + lia.
    + contradiction.
    + destruct HS as [i [Hi Hn]]. exfalso. exact (Hr i Hi Hn).
  - pose proof (dkg_select_sound rng rng_seed C09.Concrete.shuffle C09.Concrete.iter
                  concrete_shuffle_perm concrete_iter_perm ops count seed att ready) as HS.
    unfold dkg_select in HS. unfold C10.Concrete.dkg_qualified.
    destruct (dkg_finish ops ready
                (dkg_qualified rng rng_seed C09.Concrete.shuffle C09.Concrete.iter
                   ops count seed att ready)) as [ex| | |]; cbn [spec_dkg_out].
    + destruct HS as [l [El [_ [Hiff Hq]]]]. rewrite El. apply andb_true_iff. split.
      * apply inc_ready_qualified_iff. intros i Hi. apply in_included_of in Hi.
        destruct Hi as [Hm Hn]. destruct (proj1 (Hiff i Hm) Hn) as [H1 [o [H2 H3]]].
        split; [exact H1|]. exists o. split; [exact H2|]. apply sort_keys_In. exact H3.
      * destruct (Z.ltb_spec (len ready) (Z.of_N count)) as [Hlt|Hge]; [reflexivity|].
        cbn [orb]. specialize (Hq ND Hge). lia.
    + destruct HS as [Hne Hlt]. destruct (N.eqb_spec att 1) as [E|_]; [contradiction|].
      cbn [negb andb]. lia.
    + destruct (N.eqb_spec att 1) as [E|_]; [contradiction|]. reflexivity.
    + destruct HS as [i [Hi Hn]]. exfalso. exact (Hr i Hi Hn).
Qed.

(* ---- the hypotheses are satisfiable and every outcome occurs.  Group of 10 seats held by 4
   operators (ranks 1..4); the first example is the implementation's output on the driver's
   corpus case "corpus-sign-all-ready-trim". ---- *)
Definition ex_ops : list N := [1; 3; 3; 2; 2; 2; 4; 1; 2; 3]%N.
Example ex_sign_trim :
  C10.Concrete.signing_select ex_ops 6 3824872156495541858 1 [1;2;3;4;5;6;7;8;9;10]%N
  = SOk [1; 6; 7; 8]%N.
Proof. vm_compute. reflexivity. Qed.
Example ex_sign_too_few :
  C10.Concrete.signing_select ex_ops 6 5 2 [1;4;5;6;7]%N = SErrTooMany.
Proof. vm_compute. reflexivity. Qed.
Example ex_sign_panic :
  C10.Concrete.signing_select ex_ops 6 5 1 [0;1;2;3;4;5;6]%N = SPanic.
Proof. vm_compute. reflexivity. Qed.
Example ex_dkg_first :
  C10.Concrete.dkg_select ex_ops 6 99 1 [1;2;4;5;6;7;9]%N = SOk [3; 8; 10]%N.
Proof. vm_compute. reflexivity. Qed.
Example ex_dkg_retries_used_up :
  C10.Concrete.dkg_select ex_ops 6 99 400 [1;2;3;4;5;6;7;8;9;10]%N = SErrRetry.
Proof. vm_compute. reflexivity. Qed.

(* ------------------------------------------------------------------ *)
(* corollaries in the form restated in Props/C10.v                     *)
(* ------------------------------------------------------------------ *)

Section Corollaries.
  Variable rngT : Type.
  Variable mkrng : Z -> rngT.
  Variable shuffle : forall A : Type, rngT -> list A -> list A.
  Variable iter : list N -> list N.
  Hypothesis Hsh : forall A g l, Permutation (shuffle A g l) l.
  Hypothesis Hit : forall l, Permutation (iter l) l.

  Theorem dkg_only_ready_of_qualified (ops : list N) (quorum : N) (seed : Z) (att : N)
          (ready ex : list N) :
    dkg_select rngT mkrng shuffle iter ops quorum seed att ready = SOk ex ->
    exists l, dkg_qualified rngT mkrng shuffle iter ops quorum seed att ready = Ok l /\
      (forall o, In o l -> exists i, In i ready /\ op_of ops i = Some o) /\
      (forall i, In i (members ops) ->
                 (~ In i ex <-> In i ready /\ exists o, op_of ops i = Some o /\ In o l)).
  Proof.
    intro E. pose proof (dkg_select_sound rngT mkrng shuffle iter Hsh Hit ops quorum seed att ready) as H.
    rewrite E in H. destruct H as [l [H1 [H2 [H3 _]]]]. exists l. auto.
  Qed.

  Theorem dkg_at_least_quorum_when_ok (ops : list N) (quorum : N) (seed : Z) (att : N)
          (ready ex : list N) :
    NoDup ready -> Z.of_N quorum <= len ready ->
    dkg_select rngT mkrng shuffle iter ops quorum seed att ready = SOk ex ->
    Z.of_N quorum <= len (included_of ops ex).
  Proof.
    intros ND Hge E.
    pose proof (dkg_select_sound rngT mkrng shuffle iter Hsh Hit ops quorum seed att ready) as H.
    rewrite E in H. destruct H as [l [_ [_ [_ H4]]]]. exact (H4 ND Hge).
  Qed.

  Theorem dkg_failures (ops : list N) (quorum : N) (seed : Z) (att : N) (ready : list N) :
    match dkg_select rngT mkrng shuffle iter ops quorum seed att ready with
    | SOk _ => True
    | SErrTooMany => att <> 1%N /\ len ready < Z.of_N quorum
    | SErrRetry => att <> 1%N
    | SPanic => exists i, In i ready /\ op_of ops i = None
    end.
  Proof.
    pose proof (dkg_select_sound rngT mkrng shuffle iter Hsh Hit ops quorum seed att ready) as H.
    destruct (dkg_select rngT mkrng shuffle iter ops quorum seed att ready); auto.
  Qed.

  Theorem included_subset_ready (ops : list N) (count : N) (seed : Z) (att : N) (ready ex : list N) :
    (NoDup ready -> signing_select rngT mkrng shuffle iter ops count seed att ready = SOk ex ->
     forall i, In i (included_of ops ex) -> In i ready) /\
    (dkg_select rngT mkrng shuffle iter ops count seed att ready = SOk ex ->
     forall i, In i (included_of ops ex) -> In i ready).
  Proof.
    split.
    - intros ND E i Hi.
      pose proof (signing_select_sound rngT mkrng shuffle iter Hsh Hit ops count seed att ready ND) as H.
      rewrite E in H. destruct H as [_ [l [_ H]]]. exact (proj1 (H i Hi)).
    - intros E i Hi. destruct (dkg_only_ready_of_qualified ops count seed att ready ex E)
        as [l [_ [_ H]]].
      apply in_included_of in Hi. destruct Hi as [Hm Hn]. exact (proj1 (proj1 (H i Hm) Hn)).
  Qed.
End Corollaries.

(* ------------------------------------------------------------------ *)
(* selection histories on one loop object                              *)
(* ------------------------------------------------------------------ *)

Section HistoryProofs.
  Variable rngT : Type.
  Variable mkrng : Z -> rngT.
  Variable shuffle : forall A : Type, rngT -> list A -> list A.

  Lemma pure_sel_same_wallet (l l' : loop) (s : hstep) :
    same_wallet l l' -> pure_sel rngT mkrng shuffle l s = pure_sel rngT mkrng shuffle l' s.
  Proof.
    intros [Hk [Ho [Hc Hs]]]. destruct s as [[iter att] ready]. unfold pure_sel.
    rewrite Hk, Ho, Hc, Hs. reflexivity.
  Qed.

  Lemma attempt_step_spec (l : loop) (s : hstep) :
    same_wallet (fst (attempt_step rngT mkrng shuffle l s)) l /\
    snd (attempt_step rngT mkrng shuffle l s) = pure_sel rngT mkrng shuffle l s.
  Proof.
    destruct s as [[iter att] ready]. cbn. repeat split; reflexivity.
  Qed.

  (* history independence: the constructor's fields survive any history and the answers are the
     pure selection mapped over the steps *)
  Theorem run_history_is_map (l : loop) (h : list hstep) :
    same_wallet (fst (run_history rngT mkrng shuffle l h)) l /\
    snd (run_history rngT mkrng shuffle l h) = map (pure_sel rngT mkrng shuffle l) h.
  Proof.
    revert l. induction h as [|s t IH]; intro l.
    - cbn. repeat split; reflexivity.
    - cbn [run_history map].
      destruct (attempt_step_spec l s) as [W E].
      destruct (attempt_step rngT mkrng shuffle l s) as [l1 o] eqn:EA. cbn [fst snd] in W, E.
      destruct (IH l1) as [W1 E1].
      destruct (run_history rngT mkrng shuffle l1 t) as [l2 rest]. cbn [fst snd] in *.
      split.
      + destruct W as [A1 [A2 [A3 A4]]], W1 as [B1 [B2 [B3 B4]]].
        repeat split; congruence.
      + rewrite E, E1. f_equal. apply map_ext. intro s'. apply pure_sel_same_wallet. exact W.
  Qed.

  (* a member that skipped the first attempts (fresh object, suffix of the history) answers
     like the member that went through all of them *)
  Theorem late_member_agrees (l l' : loop) (pre h : list hstep) :
    same_wallet l l' ->
    snd (run_history rngT mkrng shuffle l (pre ++ h)) =
    snd (run_history rngT mkrng shuffle l pre) ++ snd (run_history rngT mkrng shuffle l' h).
  Proof.
    intro W. rewrite !(proj2 (run_history_is_map _ _)), map_app. f_equal.
    apply map_ext. intro s. apply pure_sel_same_wallet. exact W.
  Qed.

  (* two members of the wallet, each with its OWN history on its own loop object: wherever
     they select for the same attempt number on the same ready SET (reported in any order, any
     map-iteration order), they derive the same lists *)
  Theorem members_agree_whatever_their_histories (l l' : loop) (h h' : list hstep)
          (i j : nat) (iter iter' : list N -> list N) (att : N) (ready ready' : list N) :
    same_wallet l l' ->
    (forall x, Permutation (iter x) x) -> (forall x, Permutation (iter' x) x) ->
    nth_error h i = Some (iter, att, ready) ->
    nth_error h' j = Some (iter', att, ready') ->
    Permutation ready ready' ->
    exists o,
      nth_error (snd (run_history rngT mkrng shuffle l h)) i = Some o /\
      nth_error (snd (run_history rngT mkrng shuffle l' h')) j = Some o.
  Proof.
    intros W Hi Hi' E E' P.
    rewrite !(proj2 (run_history_is_map _ _)).
    exists (pure_sel rngT mkrng shuffle l (iter, att, ready)). split.
    - apply map_nth_error. exact E.
    - rewrite (map_nth_error _ _ _ E'). f_equal.
      rewrite (pure_sel_same_wallet l l' _ W). unfold pure_sel, select_of.
      destruct (order_invariant rngT mkrng shuffle iter' iter Hi' Hi (l_ops l') (l_count l')
                  (l_seed l') att ready' ready (Permutation_sym P)) as [HS HD].
      destruct (l_kind l'); assumption.
  Qed.
End HistoryProofs.

(* ---- the executable history property ---- *)

Lemma nth_error_map_inv {A B} (f : A -> B) (l : list A) : forall (j : nat) (y : B),
  nth_error (map f l) j = Some y -> exists x, nth_error l j = Some x /\ f x = y.
Proof.
  induction l as [|a t IH]; intros [|j] y H; cbn in H; try discriminate H.
  - inversion H. exists a. split; reflexivity.
  - apply IH. exact H.
Qed.

Lemma nth_error_combine_inv {A B} (a : list A) : forall (b : list B) (j : nat) (x : A) (y : B),
  nth_error (combine a b) j = Some (x, y) -> nth_error a j = Some x /\ nth_error b j = Some y.
Proof.
  induction a as [|a0 ta IH]; intros [|b0 tb] [|j] x y H; cbn in H; try discriminate H.
  - inversion H. split; reflexivity.
  - cbn [nth_error]. apply IH. exact H.
Qed.


Lemma sel_eqb_eq (a b : sel) : sel_eqb a b = true -> a = b.
Proof.
  destruct a, b; cbn [sel_eqb]; try discriminate; try reflexivity.
  intro H. apply list_eqb_eq in H. congruence.
Qed.

Lemma sel_eqb_refl (a : sel) : sel_eqb a a = true.
Proof. destruct a; cbn [sel_eqb]; try reflexivity. apply list_eqb_eq. reflexivity. Qed.

Lemma In_numbered_gen {A} (l : list A) : forall (k j : nat) (x : A),
  In (j, x) (combine (seq k (length l)) l) <-> (k <= j)%nat /\ nth_error l (j - k) = Some x.
Proof.
  induction l as [|y t IH]; intros k j x; cbn [length seq combine In].
  - split; [intros []|]. intros [_ H]. destruct (j - k)%nat; discriminate H.
  - rewrite IH. split.
    + intros [H|[H1 H2]].
      * inversion H; subst. split; [lia|]. rewrite Nat.sub_diag. reflexivity.
      * split; [lia|]. replace (j - k)%nat with (S (j - S k)) by lia. exact H2.
    + intros [H1 H2]. destruct (Nat.eq_dec j k) as [->|Hne].
      * left. rewrite Nat.sub_diag in H2. cbn in H2. congruence.
      * right. split; [lia|]. replace (j - k)%nat with (S (j - S k)) in H2 by lia. exact H2.
Qed.

Lemma In_numbered {A} (l : list A) (j : nat) (x : A) :
  In (j, x) (numbered l) <-> nth_error l j = Some x.
Proof.
  unfold numbered. rewrite In_numbered_gen, Nat.sub_0_r. split; [intros [_ H]; exact H|].
  intro H. split; [lia|exact H].
Qed.

(* hspec_ok says: at EVERY step whose ready list is a set of group members, all the members
   present — whatever they went through before — returned one and the same outcome, and it
   satisfies the per-output property for the ready set of THAT step *)
Theorem hspec_ok_sound :
  forall h, hspec_ok h = true ->
  forall j s, nth_error (h_steps h) j = Some s -> ready_wf (h_ops h) (hs_ready s) = true ->
    exists o, In o (outs_at (h_members h) j) /\
              (forall o', In o' (outs_at (h_members h) j) -> o' = o) /\
              spec_out (step_case h s) o = true.
Proof.
  intros h H j s Hn Hwf. unfold hspec_ok in H. rewrite forallb_forall in H.
  specialize (H (j, s) (proj2 (In_numbered _ _ _) Hn)). unfold hspec_step in H.
  cbn [fst snd] in H. rewrite Hwf in H.
  destruct (outs_at (h_members h) j) as [|o t]; [discriminate H|].
  apply andb_true_iff in H. destruct H as [H1 H2]. exists o. split; [left; reflexivity|]. split.
  - intros o' [<-|Hin]; [reflexivity|]. rewrite forallb_forall in H1. symmetry.
    apply sel_eqb_eq, H1, Hin.
  - exact H2.
Qed.

(* the outputs of the members of a model history at step j *)
Lemma outs_at_model (outs : list sel) (ms : list (N * nat)) (j : nat) (o : sel) :
  nth_error outs j = Some o ->
  forall o', In o' (outs_at (map (fun m => {| hm_index := fst m; hm_skip := snd m;
                                              hm_outs := skipn (snd m) outs |}) ms) j) -> o' = o.
Proof.
  intros Hn o' Hin. unfold outs_at in Hin. apply in_flat_map in Hin.
  destruct Hin as [m [Hm Hin]]. apply in_map_iff in Hm. destruct Hm as [[ix sk] [<- _]].
  cbn [hm_skip hm_outs fst snd] in Hin.
  destruct (Nat.leb_spec sk j) as [Hle|Hgt]; [|destruct Hin].
  assert (E : nth_error (skipn sk outs) (j - sk) = nth_error outs j).
  { rewrite <- (firstn_skipn sk outs) at 2.
    assert (Hl : (sk <= length outs)%nat).
    { assert (Hj : (j < length outs)%nat) by (apply nth_error_Some; congruence). lia. }
    rewrite nth_error_app2; rewrite firstn_length_le by exact Hl; [reflexivity|exact Hle]. }
  rewrite E, Hn in Hin. destruct Hin as [<-|[]]. reflexivity.
Qed.

Lemma outs_at_model_nonempty (outs : list sel) (ms : list (N * nat)) (j : nat) (o : sel) :
  nth_error outs j = Some o ->
  existsb (fun m => Nat.eqb (snd m) 0) ms = true ->
  outs_at (map (fun m => {| hm_index := fst m; hm_skip := snd m;
                            hm_outs := skipn (snd m) outs |}) ms) j <> [].
Proof.
  intros Hn He. apply existsb_exists in He. destruct He as [[ix sk] [Hin Hz]].
  cbn [snd] in Hz. apply Nat.eqb_eq in Hz. subst sk.
  intro E. assert (Hi : In o (outs_at (map (fun m => {| hm_index := fst m; hm_skip := snd m;
                            hm_outs := skipn (snd m) outs |}) ms) j)).
  { unfold outs_at. apply in_flat_map. exists {| hm_index := ix; hm_skip := 0; hm_outs := outs |}.
    split.
    - apply in_map_iff. exists (ix, 0%nat). split; [reflexivity|exact Hin].
    - cbn [hm_skip hm_outs]. cbn [Nat.leb]. rewrite Nat.sub_0_r, Hn. left. reflexivity. }
  rewrite E in Hi. destruct Hi.
Qed.

(* ... and it holds of every history the concrete model produces, for any members joining at
   any steps (at least one of them there from the start) *)
Theorem model_histories_pass_spec :
  forall k ops count seed steps ms,
    existsb (fun m => Nat.eqb (snd m) 0) ms = true ->
    hspec_ok (C10.Concrete.model_hcase k ops count seed steps ms) = true.
Proof.
  intros k ops count seed steps ms He. unfold hspec_ok. rewrite forallb_forall.
  intros [j s] Hin. apply In_numbered in Hin.
  unfold C10.Concrete.model_hcase in *. cbn [h_steps h_members h_ops] in *.
  set (h0 := {| h_kind := k; h_ops := ops; h_count := count; h_seed := seed;
                h_steps := map (fun ar => {| hs_att := fst ar; hs_ready := snd ar; hs_qual := [] |}) steps;
                h_members := [] |}) in *.
  set (ms0 := C10.Concrete.hmodel h0) in *.
  apply nth_error_map_inv in Hin. destruct Hin as [[[att ready] m] [Hc <-]].
  cbn [fst snd] in *.
  unfold hspec_step. cbn [fst snd hs_ready h_ops h_members].
  destruct (ready_wf ops ready) eqn:Hwf; [|reflexivity].
  (* the j-th model answer *)
  assert (Hsteps : nth_error steps j = Some (att, ready) /\ nth_error ms0 j = Some m).
  { apply nth_error_combine_inv. exact Hc. }
  destruct Hsteps as [Hs Hm].
  assert (Em : m = C10.Concrete.model
                     {| c_kind := k; c_ops := ops; c_count := count; c_seed := seed; c_att := att;
                        c_readys := [ready]; c_outs := []; c_qual := [] |} ready).
  { subst ms0. unfold C10.Concrete.hmodel in Hm. subst h0. cbn [h_steps] in Hm.
    rewrite map_map in Hm. rewrite (map_nth_error _ _ _ Hs) in Hm. cbn in Hm.
    inversion Hm. reflexivity. }
  assert (Ho : nth_error (map fst ms0) j = Some (fst m)) by (apply map_nth_error; exact Hm).
  pose proof (outs_at_model (map fst ms0) ms j (fst m) Ho) as Hall.
  pose proof (outs_at_model_nonempty (map fst ms0) ms j (fst m) Ho He) as Hne.
  destruct (outs_at _ j) as [|o t]; [contradiction|].
  assert (Eo : o = fst m) by (apply Hall; left; reflexivity). subst o.
  apply andb_true_iff. split.
  - apply forallb_forall. intros o' Hin'. rewrite (Hall o' (or_intror Hin')). apply sel_eqb_refl.
  - pose proof (model_outputs_pass_spec k ops count seed att ready) as HM. cbv zeta in HM.
    rewrite <- Em in HM.
    destruct (spec_ok_sound _ HM Hwf) as [o [Eo Hso]]. cbn [c_outs] in Eo. inversion Eo; subst o.
    exact Hso.
Qed.
