(* C02 — calculateLagrangeCoefficient / reconstructIndividualPrivateKeys as modelled in
   Model/C01.v ([lagrange_coeff], [interpolate0]) interpolate at 0: for a prime modulus q,
   pairwise distinct member indices in [1, q) and values lying on a polynomial with at most as
   many coefficients as there are points, the result is the constant coefficient modulo q.

   MathComp part.  The field-generic fact [lagrange0_correct] (uniqueness of the interpolating
   polynomial through max_poly_roots) and the reduction morphism [phi : Z -> 'F_p] come from
   Proofs/C03_lagrange.v; this file transports them to the executable functions of Model/C01.v.
   The exported statement [interpolate0_correct] is in plain Coq terms. *)
From Coq Require Import ZArith Znumtheory NArith.
From mathcomp Require Import all_ssreflect all_algebra finfield zify ssrZ.
From KV Require Import Proofs.C03_lagrange Model.C01 Proofs.C02_arith.
Set Implicit Arguments. Unset Strict Implicit. Unset Printing Implicit Defensive.
Import GRing.Theory.
Local Open Scope ring_scope.

Section Bridge.
Variable r : Z.
Hypothesis pr : Znumtheory.prime r.
Let p := Z.to_nat r.
Let r2 : (2 <= r)%coqZ := prime_ge_2 _ pr.
Local Notation phi := (phi r).

Let X (l : N) : 'F_p := phi (Z.of_N l).

Lemma horner_phi' cs a : (Poly (map phi cs)).[phi a] = phi (horner cs a).
Proof.
rewrite horner_Poly; elim: cs => [|c cs IH] //=.
by rewrite IH phiD phiM addrC mulrC.
Qed.

Definition coeff_step (k : N) (acc : Z) (l : N) : Z :=
  if N.eqb l k then acc else
  (acc * ((Z.of_N l * inv_mod r (Z.of_N l - Z.of_N k)) mod r) mod r)%coqZ.

Lemma lagrange_coeffE k ids : lagrange_coeff r k ids = List.fold_left (coeff_step k) ids 1%coqZ.
Proof. by []. Qed.

Definition lam (ids : seq N) (k : N) : 'F_p := \prod_(l <- ids | l != k) (X l / (X l - X k)).

Lemma phi_inv a : phi a != 0 -> phi (inv_mod r a) = (phi a)^-1.
Proof.
move=> a0.
have am : (a mod r <> 0)%coqZ by move=> e; move: a0; rewrite -(phi_mod pr) e phi0 eqxx.
have [H _] := inv_mod_correct r a pr am.
have H1 : phi a * phi (inv_mod r a) = 1 by rewrite -phiM -(phi_mod pr) H phi1.
by apply: (mulfI a0); rewrite H1 divff.
Qed.

Lemma coeff_fold k ids acc :
  (forall l, l \in ids -> l != k -> X l - X k != 0) ->
  phi (List.fold_left (coeff_step k) ids acc) = phi acc * lam ids k.
Proof.
rewrite /lam; elim: ids acc => [|l ids IH] acc H /=; first by rewrite big_nil mulr1.
have Hids : forall l0, l0 \in ids -> l0 != k -> X l0 - X k != 0.
  by move=> l0 l0in; apply: H; rewrite inE l0in orbT.
rewrite big_cons /coeff_step -/(coeff_step k).
have -> : N.eqb l k = (l == k) by [].
case: ifP => lk /=; first exact: IH.
rewrite IH // (phi_mod pr) phiM (phi_mod pr) phiM phi_inv; last first.
  by rewrite phiB; apply: H; rewrite ?inE ?eqxx ?lk.
by rewrite phiB -mulrA.
Qed.

Lemma interp_fold (ids : seq N) (pts : seq (N * Z)) acc :
  (forall q, List.In q pts -> phi (lagrange_coeff r q.1 ids) = lam ids q.1) ->
  phi (List.fold_left (fun acc q => ((acc + q.2 * lagrange_coeff r q.1 ids) mod r)%coqZ) pts acc)
  = phi acc + \sum_(q <- pts) phi q.2 * lam ids q.1.
Proof.
elim: pts acc => [|q pts IH] acc H /=; first by rewrite big_nil addr0.
rewrite IH; last by move=> q0 q0in; apply: H; right.
by rewrite (phi_mod pr) phiD phiM big_cons H ?addrA //; left.
Qed.

Theorem interpolate0_correct_F (pts : seq (N * Z)) (cs : seq Z) :
  uniq (map fst pts) ->
  (forall q, List.In q pts -> (0 < Z.of_N q.1 < r)%coqZ) ->
  (size cs <= size pts)%N ->
  (forall q, List.In q pts -> phi q.2 = phi (horner cs (Z.of_N q.1))) ->
  phi (interpolate0 r pts) = phi (List.nth 0 cs 0%coqZ).
Proof.
move=> uids Hrange scs Hval.
set ids := map fst pts.
set n := size pts.
have sids : size ids = n by rewrite size_map.
have inP (l : N) : l \in ids -> (0 < Z.of_N l < r)%coqZ.
  case/mapP => q qin ->; apply: Hrange.
  by elim: (pts) qin => //= a s IH; rewrite inE => /orP[/eqP ->|/IH]; [left|right].
have X_inj l l' : l \in ids -> l' \in ids -> X l = X l' -> l = l'.
  move=> /inP Hl /inP Hl' /(phi_inj pr).
  rewrite !Z.mod_small; lia.
have Xdiff k l : l \in ids -> k \in ids -> l != k -> X l - X k != 0.
  move=> lin kin lk; rewrite subr_eq0; apply/eqP => e.
  by move: lk; rewrite (X_inj _ _ lin kin e) eqxx.
have inI (q : N * Z) : List.In q pts -> q.1 \in ids.
  move=> qin; apply/mapP; exists q => //.
  by elim: (pts) qin => //= a s IH [->|/IH]; rewrite inE ?eqxx ?orbT // => ->; rewrite orbT.
rewrite /interpolate0 -/ids.
have -> : List.map fst pts = ids by rewrite mapE.
rewrite interp_fold; last first.
  move=> q qin; rewrite lagrange_coeffE coeff_fold ?phi1 ?mul1r //.
  by move=> l lin lk; apply: Xdiff => //; apply: inI.
rewrite phi0 add0r.
pose x (i : 'I_n) : 'F_p := X (nth 0%num ids i).
have x_inj : injective x.
  move=> i j e; apply: ord_inj.
  have ii : (i < size ids)%N by rewrite sids.
  have jj : (j < size ids)%N by rewrite sids.
  have := X_inj _ _ (mem_nth 0%num ii) (mem_nth 0%num jj) e.
  by move/eqP; rewrite nth_uniq // => /eqP.
pose f := Poly (map phi cs).
have sf : (size f <= n)%N by apply: leq_trans (size_Poly _) _; rewrite size_map.
have := lagrange0_correct x_inj sf; rewrite /lagrange0.
have -> : f.[0] = phi (List.nth 0 cs 0%coqZ).
  by rewrite /f horner_Poly; case: (cs) => [|c cs'] //=; rewrite mulr0 add0r.
move<-.
rewrite (big_nth (0%num, 0%coqZ)) big_mkord.
apply: eq_bigr => i _.
have ii : (i < size pts)%N by [].
have iin : List.In (nth (0%num, 0%coqZ) pts i) pts.
  have := mem_nth (0%num, 0%coqZ) ii.
  move: (nth _ _ _) => q.
  by elim: (pts) => //= a s IH; rewrite inE => /orP[/eqP ->|/IH]; [left|right].
have e1 : (nth (0%num, 0%coqZ) pts i).1 = nth 0%num ids i by rewrite /ids (nth_map (0%num, 0%coqZ)).
congr (_ * _).
  by rewrite Hval // e1 /f /x /X horner_phi'.
rewrite /lam (big_nth 0%num) sids big_mkord e1.
apply: eq_big => [j|j _] //.
have ii' : (i < size ids)%N by rewrite sids.
have jj' : (j < size ids)%N by rewrite sids.
by rewrite nth_uniq.
Qed.
End Bridge.

(* ---------- exported in plain terms ---------- *)
Theorem interpolate0_correct (q : Z) : Znumtheory.prime q ->
  forall (pts : list (N * Z)) (cs : list Z),
  List.NoDup (List.map fst pts) ->
  (forall p, List.In p pts -> (0 < Z.of_N (fst p) < q)%coqZ) ->
  Nat.le (List.length cs) (List.length pts) ->
  (forall p, List.In p pts -> (snd p mod q = horner cs (Z.of_N (fst p)) mod q)%coqZ) ->
  interpolate0 q pts = (List.nth 0 cs 0 mod q)%coqZ.
Proof.
move=> pr pts cs Hnd Hrange Hlen Hval.
have r2 := prime_ge_2 _ pr.
have red : (interpolate0 q pts mod q = interpolate0 q pts)%coqZ.
  rewrite /interpolate0.
  have : (0 mod q = 0)%coqZ by rewrite Z.mod_0_l; lia.
  move: (List.map fst pts) 0%coqZ => ids; elim: (pts) => [|a s IH] acc Hacc //=.
  by apply: IH; rewrite Z.mod_mod; lia.
rewrite -red; apply: (phi_inj pr).
apply: interpolate0_correct_F => //.
- rewrite -mapE; elim: Hnd => //= a s nin _ ->; rewrite andbT.
  apply/negP => ain; apply: nin.
  by elim: (s) ain => //= b s' IH; rewrite inE => /orP[/eqP ->|/IH]; [left|right].
- by move: Hlen; rewrite !lengthE => /leP.
- by move=> p pin; rewrite -(phi_mod pr) Hval // (phi_mod pr).
Qed.
