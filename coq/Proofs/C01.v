(* C01 — lemmas about Model/C01.v (beacon GJKR).  Property statements are in Props/C01.v. *)
From Coq Require Import ZArith NArith List Bool Lia Permutation.
From KV Require Import Common.Verdict Model.C01.
Import ListNotations.
Open Scope N_scope.

(* ================================================================================= *)
(* 1. The property as a Prop, and soundness of its executable form [spec01]          *)
(* ================================================================================= *)

(* on the implementation's observables *)
Definition obs_agreement (o : list (N * obs)) : Prop :=
  forall i j a d k key sh ps a' d' k' key' sh' ps',
    In (i, OFinished a d k key sh ps) o -> In (j, OFinished a' d' k' key' sh' ps') o ->
    k = k' /\ (forall m, In m (a ++ d) <-> In m (a' ++ d')).
Definition obs_never_marked (honest : list N) (o : list (N * obs)) : Prop :=
  forall i a d k key sh ps m,
    In (i, OFinished a d k key sh ps) o -> In m (a ++ d) -> ~ In m honest.

(* on the model's outcomes *)
Definition agreement (r : list (N * outcome)) : Prop :=
  forall i j a d k sh ps a' d' k' sh' ps',
    In (i, Finished a d k sh ps) r -> In (j, Finished a' d' k' sh' ps') r ->
    k = k' /\ (forall m, In m (a ++ d) <-> In m (a' ++ d')).
Definition never_marked (honest : list N) (r : list (N * outcome)) : Prop :=
  forall i a d k sh ps m,
    In (i, Finished a d k sh ps) r -> In m (a ++ d) -> ~ In m honest.

Lemma memN_In : forall x l, memN x l = true <-> In x l.
Proof.
  intros x l. unfold memN. rewrite existsb_exists. split.
  - intros [y [Hy He]]. apply N.eqb_eq in He. subst. exact Hy.
  - intros H. exists x. split; [exact H | apply N.eqb_refl].
Qed.

Lemma insert_sorted_In : forall x y l, In y (insert_sorted x l) <-> y = x \/ In y l.
Proof.
  intros x y l. induction l as [|z r IH]; cbn [insert_sorted].
  - cbn. intuition.
  - destruct (N.ltb x z) eqn:E1.
    + cbn. intuition.
    + destruct (N.eqb x z) eqn:E2.
      * apply N.eqb_eq in E2. subst. cbn. intuition.
      * cbn. rewrite IH. intuition.
Qed.

Lemma sort_set_In : forall y l, In y (sort_set l) <-> In y l.
Proof.
  intros y l. unfold sort_set. induction l as [|x r IH]; cbn [fold_right].
  - reflexivity.
  - rewrite insert_sorted_In, IH. cbn. intuition.
Qed.

Lemma listN_eqb_eq : forall a b, listN_eqb a b = true <-> a = b.
Proof.
  induction a as [|x a IH]; destruct b as [|y b]; cbn [listN_eqb]; try (split; [discriminate|discriminate]).
  - split; reflexivity.
  - rewrite andb_true_iff, N.eqb_eq, IH. split.
    + intros [-> ->]. reflexivity.
    + intros E. inversion E. auto.
Qed.

Lemma all_same_pairwise :
  forall (A B : Type) (eqb : A -> A -> bool) (P : A -> B),
    (forall a b, eqb a b = true <-> P a = P b) ->
    forall l, all_same eqb l = true -> forall x y, In x l -> In y l -> P x = P y.
Proof.
  intros A B eqb P Hspec l.
  assert (Hhd : forall a r, all_same eqb (a :: r) = true -> forall y, In y r -> P a = P y).
  { intros a r. revert a. induction r as [|b r IH]; intros a H y Hy.
    - destruct Hy.
    - cbn [all_same] in H. apply andb_true_iff in H. destruct H as [Hab Hr].
      apply Hspec in Hab. destruct Hy as [<-|Hy]; [exact Hab|].
      rewrite Hab. apply IH; assumption. }
  induction l as [|a r IH]; intros H x y Hx Hy.
  - destruct Hx.
  - assert (Hr : all_same eqb r = true).
    { destruct r as [|b r']; [reflexivity|]. cbn [all_same] in H. apply andb_true_iff in H. apply H. }
    destruct Hx as [<-|Hx]; destruct Hy as [<-|Hy].
    + reflexivity.
    + apply Hhd with (r := r); assumption.
    + symmetry. apply Hhd with (r := r); assumption.
    + apply IH; assumption.
Qed.

Lemma finished_In :
  forall o i a d k key sh ps,
    In (i, OFinished a d k key sh ps) o -> In (i, (a, d, k, key, sh, ps)) (finished o).
Proof.
  intros o i a d k key sh ps H. unfold finished. apply in_flat_map.
  exists (i, OFinished a d k key sh ps). split; [exact H|]. cbn. left. reflexivity.
Qed.

Lemma spec01_sound :
  forall cs, spec01 cs = true -> covered (c_in cs) = true ->
    obs_agreement (c_obs cs) /\ obs_never_marked (honest_ids (c_in cs)) (c_obs cs).
Proof.
  intros cs H Hc. unfold spec01 in H. rewrite Hc in H. cbn [negb] in H.
  apply andb_true_iff in H. destruct H as [Hsame Hmark]. split.
  - intros i j a d k key sh ps a' d' k' key' sh' ps' Hi Hj.
    apply finished_In in Hi. apply finished_In in Hj.
    apply (in_map snd) in Hi. apply (in_map snd) in Hj. cbn [snd] in Hi, Hj.
    assert (Hp : (f_kid (a, d, k, key, sh, ps), f_marked (a, d, k, key, sh, ps))
                 = (f_kid (a', d', k', key', sh', ps'), f_marked (a', d', k', key', sh', ps'))).
    { refine (all_same_pairwise _ _
                (fun a b => N.eqb (f_kid a) (f_kid b) && listN_eqb (f_marked a) (f_marked b))
                (fun x => (f_kid x, f_marked x)) _ _ Hsame _ _ Hi Hj).
      intros x y. rewrite andb_true_iff, N.eqb_eq, listN_eqb_eq. split.
      - intros [E1 E2]. rewrite E1, E2. reflexivity.
      - intros E. inversion E. auto. }
    unfold f_kid, f_marked, f_ia, f_dq in Hp. injection Hp as Hk Hm. split; [exact Hk|].
    intros m. rewrite <- (sort_set_In m (a ++ d)), <- (sort_set_In m (a' ++ d')).
    rewrite Hm. reflexivity.
  - intros i a d k key sh ps m Hi Hm Hh.
    apply finished_In in Hi. apply (in_map snd) in Hi. cbn [snd] in Hi.
    rewrite forallb_forall in Hmark. specialize (Hmark _ Hi).
    rewrite forallb_forall in Hmark.
    assert (Hin : In m (f_marked (a, d, k, key, sh, ps))).
    { unfold f_marked, f_ia, f_dq. apply sort_set_In. exact Hm. }
    specialize (Hmark _ Hin). apply negb_true_iff in Hmark.
    apply memN_In in Hh. congruence.
Qed.

(* ================================================================================= *)
(* 2. The faithful model (of the code after fix commits 852aee9 and 4ad62fd) still    *)
(*    violates agreement: findings/C01.json, C01-f.                                   *)
(*    n = 5, t = 2, members 1 and 5 corrupt.  5 sends 1 a wrong share, 1 sends 2 a    *)
(*    wrong share; 1 accuses 5 (with good reason) in phase 4; both are silent from    *)
(*    phase 7 on.  Member 2 disqualifies 1 on its own in phase 4 and does not listen  *)
(*    to 1 any more, so it keeps 5 in QUAL; members 3 and 4 disqualify 1 and 5.       *)
(* ================================================================================= *)

Definition wit_cfg : cfg := {| q := bn254_order; gn := 5; gt := 2; csess := 1; ops := [1; 2; 3; 4; 5] |}.
Definition wit_a1 : list Z := [3; 1; 4]%Z.
Definition wit_b1 : list Z := [1; 5; 9]%Z.
Definition wit_a5 : list Z := [2; 7; 1]%Z.
Definition wit_b5 : list Z := [8; 2; 8]%Z.
Definition keys_of (i : N) (l : list N) := map (fun j => (j, ek i j)) l.
(* the shares member [i] sends, the one for [bad] increased by one *)
Definition shares_of (i : N) (a b : list Z) (l : list N) (bad : N) :=
  map (fun j => (j, Enc (ecdh (ek i j) (ek j i))
                        (eval bn254_order a j + (if N.eqb j bad then 1 else 0))%Z (eval bn254_order b j))) l.
Definition wit_script : script :=
  {| adv1 := [wrap wit_cfg (EphPub 1 1 (keys_of 1 [2; 3; 4; 5])); wrap wit_cfg (EphPub 5 1 (keys_of 5 [1; 2; 3; 4]))];
     adv3 := [wrap wit_cfg (Shares 1 1 (shares_of 1 wit_a1 wit_b1 [2; 3; 4; 5] 2));
              wrap wit_cfg (Commits 1 1 (combine wit_a1 wit_b1));
              wrap wit_cfg (Shares 5 1 (shares_of 5 wit_a5 wit_b5 [1; 2; 3; 4] 1));
              wrap wit_cfg (Commits 5 1 (combine wit_a5 wit_b5))];
     adv4 := [wrap wit_cfg (SAccuse 1 1 [(5, ek 1 5)]); wrap wit_cfg (SAccuse 5 1 [])];
     adv7 := []; adv8 := []; adv10 := [];
     order := [] |}.
Definition wit_input : input :=
  {| i_cfg := wit_cfg;
     i_honest := [ {| h_id := 2; h_coefA := [11; 12; 13]%Z; h_coefB := [21; 22; 23]%Z |};
                   {| h_id := 3; h_coefA := [31; 32; 33]%Z; h_coefB := [41; 42; 43]%Z |};
                   {| h_id := 4; h_coefA := [51; 52; 53]%Z; h_coefB := [61; 62; 63]%Z |} ];
     i_script := wit_script |}.
Definition wit_out : list (N * outcome) :=
  [(2, Finished [5] [1; 3; 4] 93 701 []);
   (3, Finished [] [1; 5] 113 1272 [(2, 681%Z); (4, 2061%Z)]);
   (4, Finished [] [1; 5] 113 2061 [(2, 681%Z); (3, 1272%Z)])].
Lemma wit_run_eq : run wit_input = wit_out.
Proof. vm_compute. reflexivity. Qed.

(* two honest members end with different keys, and honest 2 disqualifies honest 3 and 4 *)
Lemma agreement_refuted :
  exists i : input,
    well_formed {| c_in := i; c_obs := map (fun h => (h_id h, OFailed)) (i_honest i) |} = true /\
    corrupt_count i = 2 /\ covered i = true /\
    ~ agreement (run i) /\ ~ never_marked (honest_ids i) (run i).
Proof.
  exists wit_input. split; [vm_compute; reflexivity|]. split; [vm_compute; reflexivity|].
  split; [vm_compute; reflexivity|].
  rewrite wit_run_eq. unfold wit_out. split.
  - intros Hag.
    destruct (Hag 2 3 _ _ _ _ _ _ _ _ _ _ (or_introl eq_refl) (or_intror (or_introl eq_refl))) as [E _].
    discriminate E.
  - intros Hnm.
    apply (Hnm 2 _ _ _ _ _ 3 (or_introl eq_refl)).
    + cbn. auto.
    + change (In 3 [2; 3; 4]). cbn. auto.
Qed.

(* the witness of the repaired defect C01-a (DESIGN section 7): member 1 publishes the points of
   f + 7 (x-2)(x-3); with 852aee9 modelled, all four honest members agree again *)
Definition wa_script : script :=
  let Q := bn254_order in
  {| adv1 := [wrap wit_cfg (EphPub 1 1 (keys_of 1 [2; 3; 4; 5]))];
     adv3 := [wrap wit_cfg (Shares 1 1 (shares_of 1 wit_a1 wit_b1 [2; 3; 4; 5] 0));
              wrap wit_cfg (Commits 1 1 (combine wit_a1 wit_b1))];
     adv4 := [wrap wit_cfg (SAccuse 1 1 [])];
     (* 3 + x + 4x^2 + 7(x-2)(x-3) = 45 - 34x + 11x^2 *)
     adv7 := [wrap wit_cfg (Points 1 1 [45; (-34) mod Q; 11]%Z)];
     adv8 := [wrap wit_cfg (PAccuse 1 1 [])];
     adv10 := [wrap wit_cfg (Reveal 1 1 [])];
     order := [] |}.
Definition wa_input : input :=
  {| i_cfg := wit_cfg;
     i_honest := i_honest wit_input ++ [ {| h_id := 5; h_coefA := [71; 72; 73]%Z; h_coefB := [81; 82; 83]%Z |} ];
     i_script := wa_script |}.
Definition all_agree (r : list (N * outcome)) : bool :=
  all_same (fun a b => match snd a, snd b with
                       | Finished ia1 dq1 k1 _ _, Finished ia2 dq2 k2 _ _ =>
                           Z.eqb k1 k2 && listN_eqb (sort_set (ia1 ++ dq1)) (sort_set (ia2 ++ dq2))
                       | _, _ => false end) r.
Example c01a_witness_repaired :
  all_agree (run wa_input) = true /\ map (fun p => match snd p with Finished ia dq _ _ _ => ia ++ dq | Failed => [0] end) (run wa_input) = [[1]; [1]; [1]; [1]].
Proof. vm_compute. split; reflexivity. Qed.

(* ================================================================================= *)
(* 3. Lemmas over ALL inputs                                                          *)
(* ================================================================================= *)

(* ---------- 3.1 deduplicateBySender: first message of every sender, arrival interleaving of
   different senders irrelevant ---------- *)
Lemma memN_cons : forall x y l, memN x (y :: l) = N.eqb x y || memN x l.
Proof. reflexivity. Qed.

Lemma dedup_from_In : forall A (l : list (N * A)) seen s v,
  In (s, v) (dedup_from seen l) <-> (memN s seen = false /\ lookup s l = Some v).
Proof.
  intros A l. induction l as [|[s' v'] r IH]; intros seen s v.
  - cbn. split; [intros []|intros [_ H]; discriminate H].
  - cbn [dedup_from lookup]. destruct (memN s' seen) eqn:Es'.
    + rewrite IH. destruct (N.eqb s s') eqn:E.
      * apply N.eqb_eq in E. subst s'. split; intros [H1 H2]; congruence.
      * reflexivity.
    + cbn [In]. rewrite IH, memN_cons. destruct (N.eqb s s') eqn:E.
      * apply N.eqb_eq in E. subst s'. cbn [orb]. split.
        -- intros [H|[H _]]; [|discriminate H]. inversion H. subst. auto.
        -- intros [_ H]. inversion H. subst. left. reflexivity.
      * cbn [orb]. split.
        -- intros [H|H]; [|exact H]. inversion H. subst. rewrite N.eqb_refl in E. discriminate E.
        -- intros H. right. exact H.
Qed.

Lemma dedup_In : forall A (l : list (N * A)) s v, In (s, v) (dedup l) <-> lookup s l = Some v.
Proof.
  intros A l s v. unfold dedup. rewrite dedup_from_In. cbn. split; [intros [_ H]; exact H|auto].
Qed.

Lemma dedup_from_NoDup : forall A (l : list (N * A)) seen, NoDup (map fst (dedup_from seen l)).
Proof.
  intros A l. induction l as [|[s' v'] r IH]; intros seen; cbn [dedup_from].
  - constructor.
  - destruct (memN s' seen) eqn:E; [apply IH|].
    cbn [map fst]. constructor; [|apply IH].
    intros Hin. apply in_map_iff in Hin. destruct Hin as [[s v] [Hs Hin]]. cbn in Hs. subst s.
    apply dedup_from_In in Hin. destruct Hin as [Hm _]. rewrite memN_cons, N.eqb_refl in Hm. discriminate Hm.
Qed.

Lemma dedup_NoDup_senders : forall A (l : list (N * A)), NoDup (map fst (dedup l)).
Proof. intros. apply dedup_from_NoDup. Qed.

Lemma lookup_filter : forall A (l : list (N * A)) s,
  lookup s l = match filter (fun p => N.eqb (fst p) s) l with [] => None | p :: _ => Some (snd p) end.
Proof.
  intros A l s. induction l as [|[s' v'] r IH]; cbn [lookup filter fst]; [reflexivity|].
  rewrite (N.eqb_sym s' s). destruct (N.eqb s s'); [reflexivity|exact IH].
Qed.

(* two arrival orders with the same per-sender subsequences (consistent broadcast) *)
Definition same_per_sender {A} (l1 l2 : list (N * A)) : Prop :=
  forall s, filter (fun p => N.eqb (fst p) s) l1 = filter (fun p => N.eqb (fst p) s) l2.

Lemma dedup_interleaving_irrelevant :
  forall A (l1 l2 : list (N * A)), same_per_sender l1 l2 -> Permutation (dedup l1) (dedup l2).
Proof.
  intros A l1 l2 H. apply NoDup_Permutation.
  - apply (NoDup_map_inv fst). apply dedup_NoDup_senders.
  - apply (NoDup_map_inv fst). apply dedup_NoDup_senders.
  - intros [s v]. rewrite !dedup_In, !lookup_filter, (H s). reflexivity.
Qed.

Example same_per_sender_sat :
  same_per_sender [(1, 10); (2, 20); (1, 11)] [(2, 20); (1, 10); (1, 11)] /\
  dedup [(1, 10); (2, 20); (1, 11)] = [(1, 10); (2, 20)] /\ dedup [(2, 20); (1, 10); (1, 11)] = [(2, 20); (1, 10)].
Proof.
  split; [|split; reflexivity].
  intros s. cbn [filter fst]. destruct (N.eqb 1 s) eqn:E1; destruct (N.eqb 2 s) eqn:E2; try reflexivity.
  apply N.eqb_eq in E1. apply N.eqb_eq in E2. subst s. discriminate E2.
Qed.

(* ---------- 3.2 arrival orders ---------- *)
Lemma arrival_In : forall A (all : list A) perm x,
  is_perm (length all) perm = true -> (In x (arrival all perm) <-> In x all).
Proof.
  intros A all perm x Hp. unfold arrival. rewrite in_flat_map. split.
  - intros [k [_ Hk]]. destruct (nth_error all k) eqn:E; [|destruct Hk].
    destruct Hk as [<-|[]]. eapply nth_error_In. exact E.
  - intros Hin. apply In_nth_error in Hin. destruct Hin as [k Hk].
    exists k. split; [|rewrite Hk; left; reflexivity].
    unfold is_perm in Hp. apply andb_true_iff in Hp. destruct Hp as [_ Hall].
    rewrite forallb_forall in Hall.
    assert (Hlt : (k < length all)%nat) by (apply nth_error_Some; congruence).
    specialize (Hall k). rewrite in_seq in Hall. specialize (Hall (conj (Nat.le_0_l k) Hlt)).
    apply existsb_exists in Hall. destruct Hall as [k' [Hin Heq]]. apply Nat.eqb_eq in Heq. subst. exact Hin.
Qed.

(* ---------- 3.3 MarkInactiveMembers ---------- *)
Lemma memN_app : forall x l1 l2, memN x (l1 ++ l2) = memN x l1 || memN x l2.
Proof. intros. unfold memN. apply existsb_app. Qed.

Lemma members_NoDup : forall c, NoDup (members c).
Proof.
  intros c. unfold members. apply FinFun.Injective_map_NoDup; [|apply seq_NoDup].
  intros a b H. apply Nat2N.inj. exact H.
Qed.

Lemma in_group_members : forall c m, in_group c m = true -> In m (members c).
Proof.
  intros c m H. unfold in_group in H. apply andb_true_iff in H. destruct H as [H1 H2].
  apply N.leb_le in H1. apply N.leb_le in H2. unfold members. apply in_map_iff.
  exists (N.to_nat m). split; [apply N2Nat.id|]. apply in_seq. lia.
Qed.

Definition mi_step (c : cfg) (active : list N) :=
  fun (s : mstate) (m : N) => if N.eqb m (me s) || memN m active then s else mark_ia c m s.

Lemma mi_fold : forall c active L s,
  NoDup L -> (forall m, In m L -> is_operating c s m = true) ->
  ia (fold_left (mi_step c active) L s) = ia s ++ filter (fun m => negb (N.eqb m (me s) || memN m active)) L
  /\ dq (fold_left (mi_step c active) L s) = dq s /\ me (fold_left (mi_step c active) L s) = me s.
Proof.
  intros c active L. induction L as [|m r IH]; intros s Hnd Hop.
  - cbn. rewrite app_nil_r. auto.
  - cbn [fold_left filter]. inversion Hnd as [|? ? Hnin Hnd']. subst.
    unfold mi_step at 2 4 6. destruct (N.eqb m (me s) || memN m active) eqn:E; cbn [negb].
    + apply IH; [exact Hnd'|]. intros m' Hm'. apply Hop. right. exact Hm'.
    + unfold mark_ia. rewrite (Hop m (or_introl eq_refl)).
      set (s1 := set_ia (ia s ++ [m]) s).
      assert (Hop1 : forall m', In m' r -> is_operating c s1 m' = true).
      { intros m' Hm'. specialize (Hop m' (or_intror Hm')). unfold is_operating in *.
        change (ia s1) with (ia s ++ [m]). change (dq s1) with (dq s).
        apply andb_true_iff in Hop. destruct Hop as [Hop Hd]. apply andb_true_iff in Hop. destruct Hop as [Hg Hi].
        rewrite Hg, Hd, memN_app. apply negb_true_iff in Hi. rewrite Hi. cbn.
        destruct (N.eqb m' m) eqn:E'; [|reflexivity].
        apply N.eqb_eq in E'. subst. contradiction. }
      destruct (IH s1 Hnd' Hop1) as [H1 [H2 H3]].
      change (ia s1) with (ia s ++ [m]) in H1. change (dq s1) with (dq s) in H2.
      change (me s1) with (me s) in H1, H3.
      rewrite H1, H2, H3, <- app_assoc. auto.
Qed.

Lemma mark_inactive_spec : forall c active s,
  (forall m, In m (ia (mark_inactive c active s)) <->
             In m (ia s) \/ (is_operating c s m = true /\ m <> me s /\ ~ In m active))
  /\ dq (mark_inactive c active s) = dq s /\ me (mark_inactive c active s) = me s.
Proof.
  intros c active s. unfold mark_inactive.
  change (fun (s0 : mstate) (m : N) => if N.eqb m (me s0) || memN m active then s0 else mark_ia c m s0)
    with (mi_step c active).
  destruct (mi_fold c active (operating c s) s) as [H1 [H2 H3]].
  - unfold operating. apply NoDup_filter. apply members_NoDup.
  - intros m Hm. unfold operating in Hm. apply filter_In in Hm. apply Hm.
  - split; [|auto]. intros m. rewrite H1, in_app_iff, filter_In. unfold operating. rewrite filter_In.
    rewrite negb_true_iff, orb_false_iff, N.eqb_neq.
    assert (Hmem : memN m active = false <-> ~ In m active).
    { rewrite <- memN_In. destruct (memN m active); split; intros; congruence. }
    rewrite Hmem. split.
    + intros [H|[[_ Ho] [Hne Hna]]]; auto.
    + intros [H|[Ho [Hne Hna]]]; auto. right. split; [split; [|exact Ho]|auto].
      apply in_group_members. unfold is_operating in Ho.
      apply andb_true_iff in Ho. destruct Ho as [Ho _]. apply andb_true_iff in Ho. apply Ho.
Qed.

(* ---------- 3.4 Receive: what reaches the inboxes ---------- *)
Definition msg_sender (m : msg) : N :=
  match m with EphPub a _ _ | Shares a _ _ | Commits a _ _ | SAccuse a _ _
             | Points a _ _ | PAccuse a _ _ | Reveal a _ _ => a end.
Definition msg_sess (m : msg) : N :=
  match m with EphPub _ x _ | Shares _ x _ | Commits _ x _ | SAccuse _ x _
             | Points _ x _ | PAccuse _ x _ | Reveal _ x _ => x end.
(* the message type the state of phase [p] listens to *)
Definition kind_ok (p : N) (m : msg) : bool :=
  match m with
  | EphPub _ _ _ => N.eqb p 1 | Shares _ _ _ => N.eqb p 3 | Commits _ _ _ => N.eqb p 3
  | SAccuse _ _ _ => N.eqb p 4 | Points _ _ _ => N.eqb p 7 | PAccuse _ _ _ => N.eqb p 8
  | Reveal _ _ _ => N.eqb p 10
  end.
Definition inbox_has (m : msg) (s : mstate) : Prop :=
  match m with
  | EphPub a _ v => In (a, v) (in_eph s) | Shares a _ v => In (a, v) (in_sh s)
  | Commits a _ v => In (a, v) (in_cm s) | SAccuse a _ v => In (a, v) (in_sacc s)
  | Points a _ v => In (a, v) (in_pts s) | PAccuse a _ v => In (a, v) (in_pacc s)
  | Reveal a _ v => In (a, v) (in_rev s)
  end.

Ltac split_p p :=
  destruct p as [|p]; [|do 4 (try (destruct p as [p|p|]))].

Lemma receive_view : forall c p s m,
  me (receive c p s m) = me s /\ ia (receive c p s m) = ia s /\ dq (receive c p s m) = dq s.
Proof.
  intros c p s m. unfold receive. destruct (payload m); split_p p; cbn;
    repeat match goal with |- context [if ?b then _ else _] => destruct b end; cbn; auto.
Qed.

Lemma receive_mono : forall c p s m,
  incl (in_eph s) (in_eph (receive c p s m)) /\ incl (in_sh s) (in_sh (receive c p s m)) /\
  incl (in_cm s) (in_cm (receive c p s m)) /\ incl (in_sacc s) (in_sacc (receive c p s m)) /\
  incl (in_pts s) (in_pts (receive c p s m)) /\ incl (in_pacc s) (in_pacc (receive c p s m)) /\
  incl (in_rev s) (in_rev (receive c p s m)).
Proof.
  intros c p s m. unfold receive. destruct (payload m); split_p p; cbn;
    repeat match goal with |- context [if ?b then _ else _] => destruct b end; cbn;
    repeat split; auto using incl_refl, incl_appl.
Qed.

Lemma accepts_view : forall c s s' a ss k,
  me s' = me s -> ia s' = ia s -> dq s' = dq s -> accepts c s' a ss k = accepts c s a ss k.
Proof. intros c s s' a ss k H1 H2 H3. unfold accepts, is_operating. rewrite H1, H2, H3. reflexivity. Qed.

Lemma inbox_keeps : forall c p s m x, inbox_has x s -> inbox_has x (receive c p s m).
Proof.
  intros c p s m x H. destruct (receive_mono c p s m) as (H1 & H2 & H3 & H4 & H5 & H6 & H7).
  destruct x; cbn in *; auto.
Qed.

Lemma fold_receive_view : forall c p L s,
  me (fold_left (receive c p) L s) = me s /\ ia (fold_left (receive c p) L s) = ia s
  /\ dq (fold_left (receive c p) L s) = dq s.
Proof.
  intros c p L. induction L as [|x r IH]; intros s; cbn [fold_left]; [auto|].
  destruct (IH (receive c p s x)) as (H1 & H2 & H3). destruct (receive_view c p s x) as (G1 & G2 & G3).
  rewrite H1, H2, H3. auto.
Qed.

Lemma fold_inbox_keeps : forall c p L s x, inbox_has x s -> inbox_has x (fold_left (receive c p) L s).
Proof.
  intros c p L. induction L as [|y r IH]; intros s x H; cbn [fold_left]; [exact H|].
  apply IH. apply inbox_keeps. exact H.
Qed.

Lemma receive_delivers : forall c p s m,
  kind_ok p (payload m) = true ->
  accepts c s (msg_sender (payload m)) (msg_sess (payload m)) (from_key m) = true ->
  inbox_has (payload m) (receive c p s m).
Proof.
  intros c p s m Hk Ha. unfold receive. destruct (payload m); cbn in Hk, Ha; apply N.eqb_eq in Hk; subst p;
    cbn; rewrite Ha; cbn; apply in_or_app; right; left; reflexivity.
Qed.

(* every message of the right type that arrives from an accepted sender is in the inbox *)
Lemma delivered : forall c p L s m,
  In m L -> kind_ok p (payload m) = true ->
  accepts c s (msg_sender (payload m)) (msg_sess (payload m)) (from_key m) = true ->
  inbox_has (payload m) (fold_left (receive c p) L s).
Proof.
  intros c p L. induction L as [|x r IH]; intros s m Hin Hk Ha; [destruct Hin|].
  cbn [fold_left]. destruct Hin as [->|Hin].
  - apply fold_inbox_keeps. apply receive_delivers; assumption.
  - apply IH; [exact Hin|exact Hk|].
    destruct (receive_view c p s x) as (G1 & G2 & G3). rewrite (accepts_view c s); assumption.
Qed.

(* the list every phase hands to MarkInactiveMembers *)
Definition actives (p : N) (s : mstate) : list N :=
  if N.eqb p 1 then map fst (in_eph s) else
  if N.eqb p 3 then filter (fun a => memN a (map fst (in_cm s))) (map fst (in_sh s)) else
  if N.eqb p 4 then map fst (in_sacc s) else
  if N.eqb p 7 then map fst (in_pts s) else
  if N.eqb p 8 then map fst (in_pacc s) else map fst (in_rev s).

Lemma phases_mark_inactive_first : forall c s,
  phase2 c s = fold_left (phase2_step c) (dedup (in_eph (mark_inactive c (actives 1 s) s))) (mark_inactive c (actives 1 s) s)
  /\ phase5 c s = fst (fold_left (fun sb m => fold_left (resolve5 c (fst m)) (snd m) sb)
                                 (dedup (in_sacc (mark_inactive c (actives 4 s) s))) (mark_inactive c (actives 4 s) s, false))
  /\ phase9 c s = fst (fold_left (fun sb m => fold_left (resolve9 c (fst m)) (snd m) sb)
                                 (dedup (in_pacc (mark_inactive c (actives 8 s) s))) (mark_inactive c (actives 8 s) s, false)).
Proof. intros c s. repeat split; reflexivity. Qed.

Lemma accepts_operating : forall c s a ss k, accepts c s a ss k = true -> is_operating c s a = true /\ a <> me s.
Proof.
  intros c s a ss k H. unfold accepts in H.
  apply andb_true_iff in H. destruct H as [H _]. apply andb_true_iff in H. destruct H as [H Ho].
  apply andb_true_iff in H. destruct H as [Hne _]. apply negb_true_iff, N.eqb_neq in Hne. auto.
Qed.

Lemma operating_not_ia : forall c s a, is_operating c s a = true -> ~ In a (ia s).
Proof.
  intros c s a H Hin. unfold is_operating in H. apply andb_true_iff in H. destruct H as [H _].
  apply andb_true_iff in H. destruct H as [_ H]. apply negb_true_iff in H. apply memN_In in Hin. congruence.
Qed.

(* A member whose message of the phase arrived (and is accepted: right operator key, session,
   still operating for the receiver) is not marked inactive in that phase -- whatever else
   arrived, in whatever order.  Phases with one message type: *)
Lemma arrived_not_marked_inactive : forall c p L s m,
  In m L -> kind_ok p (payload m) = true -> p <> 3 ->
  accepts c s (msg_sender (payload m)) (msg_sess (payload m)) (from_key m) = true ->
  ~ In (msg_sender (payload m))
       (ia (mark_inactive c (actives p (fold_left (receive c p) L s)) (fold_left (receive c p) L s))).
Proof.
  intros c p L s m Hin Hk Hp3 Ha.
  pose proof (delivered c p L s m Hin Hk Ha) as Hd.
  destruct (fold_receive_view c p L s) as (V1 & V2 & V3).
  set (s' := fold_left (receive c p) L s) in *.
  destruct (mark_inactive_spec c (actives p s') s') as [Hspec _].
  rewrite Hspec. destruct (accepts_operating _ _ _ _ _ Ha) as [Hop Hne].
  intros [Hia|(_ & _ & Hna)].
  - rewrite V2 in Hia. exact (operating_not_ia _ _ _ Hop Hia).
  - apply Hna. unfold actives.
    destruct (payload m) eqn:E; cbn in Hk; apply N.eqb_eq in Hk; subst p; cbn [N.eqb Pos.eqb];
      try (exfalso; apply Hp3; reflexivity); cbn in Hd |- *;
      apply in_map_iff; eexists; (split; [|exact Hd]); reflexivity.
Qed.

(* phase 3/4: both the shares and the commitments message are needed *)
Lemma arrived_not_marked_inactive_phase4 : forall c L s m1 m2 a ss1 ss2 sh cs,
  In m1 L -> In m2 L -> payload m1 = Shares a ss1 sh -> payload m2 = Commits a ss2 cs ->
  accepts c s a ss1 (from_key m1) = true -> accepts c s a ss2 (from_key m2) = true ->
  ~ In a (ia (mark_inactive c (actives 3 (fold_left (receive c 3) L s)) (fold_left (receive c 3) L s))).
Proof.
  intros c L s m1 m2 a ss1 ss2 sh cs H1 H2 E1 E2 A1 A2.
  assert (D1 := delivered c 3 L s m1 H1). rewrite E1 in D1. specialize (D1 eq_refl A1).
  assert (D2 := delivered c 3 L s m2 H2). rewrite E2 in D2. specialize (D2 eq_refl A2).
  destruct (fold_receive_view c 3 L s) as (V1 & V2 & V3).
  set (s' := fold_left (receive c 3) L s) in *.
  destruct (mark_inactive_spec c (actives 3 s') s') as [Hspec _].
  rewrite Hspec. destruct (accepts_operating _ _ _ _ _ A1) as [Hop Hne].
  intros [Hia|(_ & _ & Hna)].
  - rewrite V2 in Hia. exact (operating_not_ia _ _ _ Hop Hia).
  - apply Hna. unfold actives. cbn [N.eqb Pos.eqb]. cbn in D1, D2. apply filter_In. split.
    + apply in_map_iff. eexists. split; [|exact D1]. reflexivity.
    + apply memN_In. apply in_map_iff. eexists. split; [|exact D2]. reflexivity.
Qed.

(* conversely: an operating member none of whose messages is in the inbox IS marked inactive,
   by every receiver alike *)
Lemma silent_marked_inactive : forall c p s a,
  is_operating c s a = true -> a <> me s -> ~ In a (actives p s) ->
  In a (ia (mark_inactive c (actives p s) s)).
Proof.
  intros c p s a Ho Hne Hna. destruct (mark_inactive_spec c (actives p s) s) as [Hspec _].
  apply Hspec. right. auto.
Qed.

(* ---------- 3.5 what an honest member publishes passes the checks of every receiver ---------- *)
Lemma eval_from_mod : forall qq x coefs k acc,
  (acc mod qq = acc)%Z -> (eval_from qq x k coefs acc mod qq = eval_from qq x k coefs acc)%Z.
Proof.
  intros qq x coefs. induction coefs as [|a r IH]; intros k acc H; cbn [eval_from]; [exact H|].
  apply IH. apply Zmod_mod.
Qed.

Lemma eval_mod : forall qq coefs x, (eval qq coefs x mod qq = eval qq coefs x)%Z.
Proof. intros. unfold eval. apply eval_from_mod. apply Zmod_0_l. Qed.

Lemma map_fst_combine : forall A B (a : list A) (b : list B), length a = length b -> map fst (combine a b) = a.
Proof.
  intros A B a. induction a as [|x a IH]; intros [|y b] H; cbn in *; try reflexivity; try discriminate.
  f_equal. apply IH. congruence.
Qed.
Lemma map_snd_combine : forall A B (a : list A) (b : list B), length a = length b -> map snd (combine a b) = b.
Proof.
  intros A B a. induction a as [|x a IH]; intros [|y b] H; cbn in *; try reflexivity; try discriminate.
  f_equal. apply IH. congruence.
Qed.

(* phase 3 of an honest member (shares eval a j, eval b j; commitments combine a b) passes
   areSharesValidAgainstCommitments at every receiver j, for every modulus and polynomial *)
Lemma honest_shares_valid : forall qq a b j,
  length a = length b -> a <> [] -> valid_g1 qq (eval qq a j) (eval qq b j) (combine a b) j = true.
Proof.
  intros qq a b j Hl Hne. unfold valid_g1.
  destruct (combine a b) eqn:E.
  - destruct a; [congruence|]. destruct b; cbn in *; discriminate.
  - rewrite <- E, map_fst_combine, map_snd_combine, !eval_mod, !Z.eqb_refl by assumption. reflexivity.
Qed.

(* phase 7 of an honest member (points = the coefficients a) passes
   isShareValidAgainstPublicKeySharePoints for the share eval a j it sent to j *)
Lemma honest_points_valid : forall qq a j, a <> [] -> valid_g2 qq j (eval qq a j) a = true.
Proof.
  intros qq a j Hne. unfold valid_g2. destruct a; [congruence|]. rewrite eval_mod. apply Z.eqb_refl.
Qed.

(* non-vacuity: the hypotheses of the lemmas of section 3 hold of the honest run below *)
Example mark_inactive_example :
  let c := wit_cfg in
  let s := init_state {| h_id := 2; h_coefA := [11; 12; 13]%Z; h_coefB := [21; 22; 23]%Z |} in
  let L := [wrap c (EphPub 3 1 (keys_of 3 [1; 2; 4; 5])); wrap c (EphPub 1 1 (keys_of 1 [2; 3; 4; 5]))] in
  accepts c s 3 1 3 = true /\
  ia (mark_inactive c (actives 1 (fold_left (receive c 1) L s)) (fold_left (receive c 1) L s)) = [4; 5].
Proof. vm_compute. split; reflexivity. Qed.

(* ---------- 3.6 one sending step of the run: what live honest members publish reaches every
   live honest member, who therefore does not mark the sender inactive ---------- *)
Definition stepped (f : mstate -> mstate * list msg) (sts : list mstate) : list (mstate * list msg) :=
  map (fun s => if failed s then (s, []) else f s) sts.
Definition published (c : cfg) (f : mstate -> mstate * list msg) (adv : list netmsg) (sts : list mstate) : list netmsg :=
  flat_map (fun x => if failed (fst x) then [] else map (wrap c) (snd x)) (stepped f sts) ++ adv.

Lemma exchange_eq : forall c sc p f adv sts,
  exchange c sc p f adv sts =
  map (fun s => if failed s then s else
                fold_left (receive c p)
                          (arrival (published c f adv sts)
                                   (order_for sc (me s) p (length (published c f adv sts)))) s)
      (map fst (stepped f sts)).
Proof.
  intros. unfold exchange, published, stepped. f_equal.
  apply map_ext. intros [s out]. cbn. destruct (failed s); reflexivity.
Qed.

Lemma exchange_delivers : forall c sc p f adv sts sd rc x,
  In sd sts -> In rc sts ->
  failed sd = false -> failed (fst (f sd)) = false -> In x (snd (f sd)) ->
  failed rc = false -> failed (fst (f rc)) = false ->
  kind_ok p x = true ->
  is_perm (length (published c f adv sts))
          (order_for sc (me (fst (f rc))) p (length (published c f adv sts))) = true ->
  accepts c (fst (f rc)) (msg_sender x) (msg_sess x) (from_key (wrap c x)) = true ->
  exists rc', In rc' (exchange c sc p f adv sts) /\ me rc' = me (fst (f rc)) /\ inbox_has x rc'
              /\ (p <> 3 -> ~ In (msg_sender x) (ia (mark_inactive c (actives p rc') rc'))).
Proof.
  intros c sc p f adv sts sd rc x Hsd Hrc Fsd Fsd' Hx Frc Frc' Hk Hperm Hacc.
  set (all := published c f adv sts) in *.
  set (L := arrival all (order_for sc (me (fst (f rc))) p (length all))).
  exists (fold_left (receive c p) L (fst (f rc))).
  assert (HinL : In (wrap c x) L).
  { unfold L. apply arrival_In; [exact Hperm|]. unfold all, published. apply in_or_app. left.
    apply in_flat_map. exists (f sd). split.
    - unfold stepped. apply in_map_iff. exists sd. rewrite Fsd. auto.
    - rewrite Fsd'. apply in_map. exact Hx. }
  split; [|split; [|split]].
  - rewrite exchange_eq. apply in_map_iff. exists (fst (f rc)). split.
    + rewrite Frc'. reflexivity.
    + apply in_map_iff. exists (f rc). split; [reflexivity|].
      unfold stepped. apply in_map_iff. exists rc. rewrite Frc. auto.
  - apply fold_receive_view.
  - apply (delivered c p L (fst (f rc)) (wrap c x) HinL); assumption.
  - intros Hp3. apply (arrived_not_marked_inactive c p L (fst (f rc)) (wrap c x) HinL); assumption.
Qed.

Example exchange_delivers_sat :
  let c := wit_cfg in
  let sts := map init_state (i_honest wit_input) in
  let f := fun s => (s, phase1 c s) in
  let sd := init_state {| h_id := 2; h_coefA := [11; 12; 13]%Z; h_coefB := [21; 22; 23]%Z |} in
  let rc := init_state {| h_id := 3; h_coefA := [31; 32; 33]%Z; h_coefB := [41; 42; 43]%Z |} in
  let x := EphPub 2 1 (keys_of 2 [1; 3; 4; 5]) in
  In sd sts /\ In rc sts /\ failed sd = false /\ failed rc = false /\ In x (snd (f sd)) /\ kind_ok 1 x = true /\
  is_perm (length (published c f (adv1 wit_script) sts))
          (order_for wit_script (me (fst (f rc))) 1 (length (published c f (adv1 wit_script) sts))) = true /\
  accepts c (fst (f rc)) (msg_sender x) (msg_sess x) (from_key (wrap c x)) = true.
Proof. vm_compute. repeat split; auto. Qed.
